"""C05 check configuration (see checks/props.py for the meaning of the keys)."""


def c05_nontrivial(c, i):
    return "got" in i or "get" in i or (c[0] in ("c05.pipe", "c05.chain", "c05.bpipe", "c05.bchain") and len(i) > 2)


def c05_classify(c, i):
    out = [c[0]]
    if c[0] in ("c05.gated", "c05.free"):
        out.append("pool=" + c[1])
        out.append("cap=" + (c[2] if int(c[2]) < 4 else "4+"))
        if "wait" in i: out.append("reader-waited")
        if "spin" in i: out.append("back-spun")
    elif c[0] in ("c05.bpipe", "c05.bchain"):
        out.append("pool=" + c[1]); out.append("real-batcher")
        if "s" in c[5:]: out.append("split-through-batcher")
    elif c[0] == "c05.chain":
        out.append("pool=" + c[1]); out.append("order=" + c[3])
        ks = c[4:]
        for a, b in zip(ks, ks[1:]):
            if a == "h" and b == "q": out.append("held-then-dropped-by-other-action"); break
    elif c[0] == "c05.pipe":
        out.append("pool=" + c[1])
        out.append("cap=" + (c[2] if int(c[2]) < 4 else "4+"))
    elif c[0] == "c05.life":
        pass
    return out


CFG = {
    "manifest": {
        "text": "Proof: Lean theorems (Props/C05.lean): lm_held_le_capacity and std_held_le_capacity (events out of the pool <= capacity in every reachable state of the atomic-step models; the low-memory counter = held + readers between their failed Inc and the Dec), lm_/std_readers_block_not_drop (a reader inside get never returns without an event), slot_exclusive (free1/free2 protocol: every slot Free/Taken/Out/Returning with a unique owner; every event in exactly one slot or with exactly one holder; no nil event taken), finalize_once and idle_zero for the event life cycle after eventPool.get (decode error, refusal, discard/collapse, hold+propagate, commit; child/time-out events never pooled). Tie: gated and free-running schedules on both real pools, and whole-pipeline runs (real Pipeline, harness input/action, devnull output) whose finalize trace and final in-use count are compared with the life-cycle model.",
        "note": "That plugin code outside the modelled paths does not retain *Event after commit is validated by the pipeline runs, not proved.",
        "technique": "Lean 4 proof (inductive invariants over all op lists) + trace replay against the real pools and a real pipeline",
    },
    "props_modules": ["FileD.Props.C05"],
    "trace": True,
    "nontrivial": c05_nontrivial,
    "classify": c05_classify,
    "chunk": 400,
    "timeout": 1200,
    "widen_seeds": 1,
    "widen_cases": 600,
    "rule": "gated schedules as C04 (both pools, capacity 1..8); free-running readers (capacity 1..8, 2..12 readers, both pools) logging got/back; whole-pipeline runs (fake input, devnull-like output, decode errors, refused events, discards, holds) logging in-use at quiescence",
    "corr_name": "Pool models = real pools (gated replay); abstract pool accepts every free-running trace; life-cycle model = finalize trace of the real pipeline",
    "trusted_base": [
        "Go runtime semantics as modelled (sync.Cond, atomics)",
        "event identity of the low-memory pool comes from sync.Pool and is not modelled: pointer distinctness among holders is checked by the harness",
    ],
    "assumptions": ["plugins do not keep *Event after Commit (validated on the runs, not proved)"],
    "signatures": {},
}
