"""C18 check configuration (see checks/props.py for the meaning of the keys).

Case lines (harness/cmd/fdharness/c18.go, lean/FileD/Drv/C18.lean):
  c18.parse  <sel>              | <n> <seg>...
  c18.rt     <n> <field>...     | <sel> <n> <seg>...
  c18.remove <n> <sel>... <tree>| cfgerr | ok <n> <perm>... <np> (<len> <seg>...)... <tree>
  c18.keep   <n> <sel>... <tree>|   "
When the property oracle (Spec/C18.lean verdictRemove / verdictKeep, evaluated on the IMPLEMENTATION's
tree) is not `ok`, the driver appends `#<kind>` to the M column:
  order   the implementation's tree has unique keys and equals the spec as a key-order-insensitive tree
          (every object holds the same multiset of key/value pairs; array order, values, types, nesting exact)
  arridx  remove_fields only: some normalised path enters an array of the event by a numeric element, and the
          tree equals (key-order-insensitively) the event with the library's Dig(path).Suicide() applied in order
          — i.e. the only extra effect is array elements deleted by index
  other   anything else
"""


def _split_kind(m):
    """model tokens -> (model tokens without the kind marker, kind or None)"""
    if m and m[-1].startswith("#"):
        return m[:-1], m[-1][1:]
    return m, None


def _sig(kind, cmds):
    def f(c, i, m, rec):
        base, k = _split_kind(m)
        # a known finding only explains the case when the executable model reproduces the implementation's
        # result token for token (so the deviation is exactly the modelled library behaviour) and the Lean
        # oracle classified the deviation as this kind
        return bool(c) and c[0] in cmds and k == kind and base == i
    return f


def c18_nontrivial(c, i):
    if c[0] in ("c18.remove", "c18.keep"):
        # the event changed: compare the tree in the case with the tree in the result
        if not i or i[0] != "ok":
            return False
        n = int(c[1])
        tree_in = c[2 + n:]
        return i[-len(tree_in):] != tree_in if len(tree_in) <= len(i) else True
    if c[0] == "c18.parse":
        return len(i) > 0 and i[0] not in ("0", "1")
    return True


def _depth(toks):
    """nesting depth of a tree in prefix token form (O n (key value)*, A n value*)"""
    mx = 0

    def walk(pos, depth):
        nonlocal mx
        mx = max(mx, depth)
        t = toks[pos]
        if t in ("Z", "T", "F"):
            return pos + 1
        if t in ("N", "S"):
            return pos + 2
        n = int(toks[pos + 1]); pos += 2
        for _ in range(n):
            if t == "O":
                pos += 1
            pos = walk(pos, depth + 1)
        return pos
    try:
        walk(0, 0)
    except Exception:
        return -1
    return mx


def c18_classify(c, i):
    out = ["cmd=" + c[0]]
    if c[0] in ("c18.remove", "c18.keep"):
        n = int(c[1])
        out.append("selectors=" + (str(n) if n <= 6 else "7-12" if n <= 12 else "13+"))
        tree = c[2 + n:]
        out.append("root=" + tree[0])
        if tree[0] == "O":
            w = int(tree[1])
            out.append("width=" + (str(w) if w <= 5 else "6-16" if w <= 16 else "17+"))
            out.append("depth=%d" % _depth(tree))
        if any(b"\\.".hex() in s for s in c[2:2 + n]):
            out.append("escaped-dot-selector")
        if i and i[0] == "ok":
            np_pos = 2 + int(i[1])
            if int(i[np_pos]) < n:
                out.append("covered-or-duplicate-path-dropped")
            tree_in = c[2 + n:]
            if i[-len(tree_in):] == tree_in:
                out.append("event-unchanged")
            elif i[-2:] == ["O", "0"]:
                out.append("event-emptied")
        elif i:
            out.append("result=" + i[0])
    elif c[0] == "c18.rt":
        out.append("fields=" + c[1])
    return out


CFG = {
    "manifest": {
        "text": "Proof: Lean theorems (Props/C18.lean) about an executable model of cfg.ParseFieldSelector / ParseNestedFields, remove_fields.Do and keep_fields' traverseFieldsTree (trie, per-depth delete buffers, insane-json Dig/Suicide semantics): for every event with unique keys and every selector list the result equals `subtract paths` / `project paths` as a key-order-insensitive tree (values, types, nesting exact), listed descendants of a listed path are absorbed, built selectors parse back. The order clause of the property is false of the code (Suicide swap-removes): stated in full, refuted by a proved counterexample, recorded as known finding; likewise remove_fields entering arrays by index. The model is tied to the real plugins (factory, Start, Do) on every run, exactly (including the key order the library produces).",
        "note": "Trusted: Lean kernel + standard axioms; fdmodel compilation; harness; the insane-json model (Dig first match / array index via Atoi, Suicide = move last field into the hole, AsFields order, Encode agrees with the node arrays) and sort.Slice's permutation as an oracle parameter — all exercised by the correspondence run. Unique keys are a hypothesis of every theorem.",
        "technique": "Lean 4 proof (structural induction over the event tree and the path list, refinement to a recursive projection spec) + differential correspondence against the real plugins",
    },
    "props_modules": ["FileD.Props.C18"],
    "nontrivial": c18_nontrivial,
    "classify": c18_classify,
    "signatures": {
        "c18_order_only": _sig("order", ("c18.remove", "c18.keep")),
        "c18_array_index": _sig("arridx", ("c18.remove",)),
    },
    "rule": "every selector string over {a . \\} up to length 7 (quick) / 9 (thorough); Build/Parse round trips for all 1- and 2-element name lists over that alphabet up to length 2 plus random lists; root {a,b,c} with each value from a 5-entry menu (scalar, 3-key object, 1-key object, array, empty object) x subsets of the 12 selectors a..c, a.a..c.c (all 4095 subsets in thorough; size <= 2 plus a 1% sample in quick; both plugins on each); then random events with unique keys (dots, backslashes, digits, empty, non-ASCII), depth <= 4, width <= 5 (1/12: width up to 30 for insane-json's map index), 1-6 selectors (1/25: 13-20) drawn from existing paths, ancestors, descendants, missing siblings, paths through arrays / scalars with numeric and non-numeric elements, raw dotted text, duplicates; distinct = distinct case line; non-trivial = the plugin changed the event (remove/keep) or the selector has >= 2 elements (parse)",
    "corr_name": "Fields.parseFieldSelector = cfg.ParseFieldSelector; Fields.dedupe(sort oracle) = cfg.ParseNestedFields; Fields.removeFields = remove_fields Start+Do; Fields.keepFields = keep_fields Start+Do (event tree after Do, key order included)",
    "trusted_base": [
        "insane-json v0.1.9 as modelled: Dig = first field with the unescaped name, arrays entered by strconv.Atoi index; Suicide on an object field moves the LAST field into the hole (array elements: order-preserving); AsFields = current field order; Encode and the node arrays describe the same tree (the harness compares both on every case)",
        "sort.Slice inside ParseNestedFields: its permutation is an oracle parameter (any rearrangement with non-decreasing lengths); the harness recomputes it with the same comparator and the model's normalised paths are compared with the real ParseNestedFields result",
        "keep_fields' `eventNode.Dig(eventField)` inside the field loop is the loop's own field (true for unique keys, the scope of the property)",
    ],
    "assumptions": [
        "every object of the event has pairwise distinct keys (hypothesis `uniq t` of every theorem; duplicate keys are out of scope)",
        "the selector list is accepted by ParseNestedFields (otherwise Start aborts the process: nothing to compare)",
    ],
    "chunk": 20000,
    "timeout": 900,
}
