"""C17 check configuration (see checks/props.py for the meaning of the keys)."""


def _hx(t):
    return b"" if t == "-" else bytes.fromhex(t)


class _T:
    def __init__(self, toks):
        self.t, self.i = toks, 0

    def n(self):
        self.i += 1
        return self.t[self.i - 1]

    def int(self):
        return int(self.n())

    def paths(self):
        return [[self.n() for _ in range(self.int())] for _ in range(self.int())]


def _parse(c):
    """config part of a c17.do case line (enough for the input-distribution labels)"""
    t = _T(c)
    t.n()
    d = {"gField": t.n(), "gValue": t.n(), "metricOn": t.n(), "gkind": t.int(), "gpaths": t.paths(), "masks": []}
    for _ in range(t.int()):
        m = {"re": t.n(), "groups": [t.int() for _ in range(t.int())], "max": t.int(), "word": t.n(), "cut": t.n(),
             "aField": t.n(), "aValue": t.n(), "metric": t.n()}
        m["doif"] = t.n() == "1"
        if m["doif"]:
            t.n(); t.n()
        m["fkind"] = t.int()
        m["paths"] = t.paths()
        m["rules"] = 0
        for _ in range(t.int()):
            t.n()
            for _ in range(t.int()):
                t.n(); t.n(); t.n()
                for _ in range(t.int()):
                    t.n()
                m["rules"] += 1
        d["masks"].append(m)
    d["rest"] = t.t[t.i:]
    return d


def c17_nontrivial(c, i):
    # the real plugin ran and some mask applied (plugin metric or a changed tree is visible in the
    # result; cheap proxy: result is ok and the oracle table has at least one row with a match)
    if not i or i[0] != "ok":
        return False
    try:
        d = _parse(c)
        r = d["rest"]
        at = r.index("@")
        k = at + 1 + 2 * len(d["masks"])
        n = int(r[k]); k += 1
        for _ in range(n):
            k += 2
            nm = int(r[k]); k += 1
            if nm > 0:
                return True
            # no matches: nothing to skip
        return any(m["re"] == "-" for m in d["masks"])
    except Exception:
        return False


def c17_classify(c, i):
    out = []
    try:
        d = _parse(c)
    except Exception:
        return ["unparsed"]
    out.append("masks=%d" % len(d["masks"]))
    for m in d["masks"]:
        if m["re"] == "-":
            out.append("mask:rules-only")
            continue
        mode = "replace" if m["word"] != "-" else "cut" if m["cut"] == "1" else ("max_count" if m["max"] > 0 else "asterisks")
        out.append("mode=" + mode)
        g = m["groups"]
        if g == [0]:
            out.append("groups=[0]")
        elif not g:
            out.append("groups=none")
        else:
            out.append("groups=" + ("ascending" if g == sorted(g) else "out-of-order") + ("/%d" % len(g)))
        if m["rules"]:
            out.append("match_rules")
        if m["doif"]:
            out.append("do_if")
        if m["fkind"]:
            out.append("mask-" + ("ignore" if m["fkind"] == 1 else "process") + "_fields")
        if m["aField"] != "-":
            out.append("applied_field")
    if d["gkind"]:
        out.append("global-" + ("ignore" if d["gkind"] == 1 else "process") + "_fields")
    if d["gField"] != "-":
        out.append("mask_applied_field")
    r = d["rest"]
    depth = sum(1 for x in r[: r.index("@")] if x in ("O", "A"))
    out.append("event:" + ("single-leaf" if depth <= 1 and r[1] == "1" else "nested" if depth > 1 else "flat"))
    if i:
        out.append("impl=" + (i[0] if i[0] in ("ok",) else i[0].split(":")[0]))
    return out


CFG = {
    "manifest": {
        "text": "Proof: Lean theorems (Props/C17.lean) about an executable model of plugin/action/mask: the repaired maskValue never panics and equals range replacement (sections = united selected group ranges, covered and tight) for every regexp answer of the assumed shape, the result does not depend on the bytes inside the sections (secret_removed), processMask over any mask list equals the spec's leaf loop, the field-masks tree equals the documented prefix semantics, traverseTree equals the spec's walk (structure, keys and ignored subtrees untouched, marks/metrics iff a mask applied), Do never panics; counterexample theorems for the four defects of the original code. The model is tied to the real plugin (factory + Start + Do) on generated configurations/events every run.",
        "note": "Trusted: Lean kernel + the three standard axioms; fdmodel compilation; harness. Assumed and checked per case: FindAllSubmatchIndex shape (re2Shape). Oracles shipped in the case: regexp matches, NumSubexp, do_if verdict, parsed field paths. Modelled, not verified: insane-json Dig/AddField/MutateToString, utf8.RuneCount, bytes.ToLower as ASCII lowering. Root-level ordering of applied_field writes (rootLoop/pathLoop) is validated by correspondence only.",
        "technique": "Lean 4 proof (refinement of the loops to range replacement; mutual structural induction over the JSON tree; residual-language representation of the field-masks trie) + differential correspondence against the real plugin with regexp results as oracle columns",
    },
    "props_modules": ["FileD.Props.C17"],
    "nontrivial": c17_nontrivial,
    "classify": c17_classify,
    "chunk": 4000,
    "rule": "A: every regexp of a 22-element list (groups nested / alternated / optional / empty / repeated / adjacent / multi-byte) x every ordered non-empty subset of its groups and [0] x all values over {a,b,x} up to length 3 (quick, modes rotating) / 5 (thorough, all four modes) + multi-byte and invalid-UTF-8 values, one leaf; B: all pairs (and triples) of a 10-mask pool incl. cutting masks that empty the value x values up to length 3; C: random nested events (internal/jt, unique keys, invalid UTF-8) x 1-3 masks from a regexp grammar x modes x match rules x do_if x global and per-mask process/ignore lists drawn from the event's own paths (plus missing ones, array indices) x applied fields (also colliding with event keys) x metrics. distinct = distinct case line; non-trivial = the real plugin ran and some mask had a match (or a rules-only mask is present)",
    "corr_name": "Mask.doEvent fixedImpl = (*mask.Plugin).Do via factory/Start (event tree after Do, plugin metric delta, per-mask metric deltas)",
    "trusted_base": [
        "regexp.FindAllSubmatchIndex, Regexp.NumSubexp, doif.Checker.Check, cfg.ParseNestedFields are oracles: evaluated by the harness on the case, shipped in the case line, re-evaluated and compared by exec (bad-oracle otherwise)",
        "modelled, not verified: insane-json (Dig by first key / array index, AddFieldNoAlloc, MutateToString, AsFields snapshot), utf8.RuneCount, bytes.ToLower/strings.ToLower as ASCII lowering (case-insensitive rules are only generated where that is exact), prometheus counters",
        "events have unique keys per object (insane-json's duplicate-key behaviour is not modelled)",
    ],
    "assumptions": [
        "RE2 shape: each match has NumSubexp+1 index pairs; group 0 within the value and not before the end of the previous match; every other group either absent (negative index) or within group 0 (checked on every oracle row by exec: shape-violated otherwise)",
        "the configuration passed the plugin's own validation (exec mirrors every logger.Fatal of Start and rejects the case otherwise)",
    ],
    "signatures": {},
}
