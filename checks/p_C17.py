"""C17 check configuration (see checks/props.py for the meaning of the keys)."""


def c17_nontrivial(c, i):
    return len(i) > 0 and i[0] == "ok"


def c17_classify(c, i):
    return []


CFG = {
    "props_modules": ["FileD.Props.C17"],
    "nontrivial": c17_nontrivial,
    "classify": c17_classify,
    "chunk": 4000,
}
