"""C07 check configuration (see checks/props.py for the meaning of the keys)."""


def _hex_has_nl(tok):
    if tok == "-":
        return False
    return any(tok[i:i + 2].lower() == "0a" for i in range(0, len(tok) - 1, 2))


def _rt_names(c):
    """(file names, stream names) of a c07.rt case line, hex tokens"""
    files, streams = [], []
    try:
        i = 2
        n = int(c[i]); i += 1
        for _ in range(n):
            files.append(c[i]); i += 4
            k = int(c[i]); i += 1
            for _ in range(k):
                streams.append(c[i]); i += 2
    except (IndexError, ValueError):
        pass
    return files, streams


def c07_sig_newline(c, i, m, finding):
    """known finding: a file or stream name that contains '\\n' (the line-oriented format has no escaping)"""
    if not c or c[0] != "c07.rt":
        return False
    files, streams = _rt_names(c)
    return any(_hex_has_nl(t) for t in files + streams)


def c07_fact_format_under_lock(repo):
    """offsetDB.save reads job.filename / job.offsets and formats the stream lines of a job inside ONE
    job.mu critical section (Model/CommitSnap.lean: `saveVisit` copies a job's whole table in one op)"""
    import os, re
    src = open(os.path.join(repo, "plugin/input/file/offset.go")).read()
    a = src.find("func (o *offsetDB) save(")
    if a < 0:
        return False, "offsetDB.save not found"
    body = src[a:]
    b = body.find("for _, job := range snapshot {")
    e = body.find("file.Write(o.buf)")
    if b < 0 or e < b:
        return False, "the per-job loop of offsetDB.save was not recognised"
    lines = [l.strip() for l in body[b:e].split("\n")]
    locked, seen_streams = False, False
    for n, l in enumerate(lines):
        if l.startswith("//"):
            continue
        if "job.mu.Lock()" in l:
            locked = True
            continue
        if "job.mu.Unlock()" in l:
            nxt = next((x for x in lines[n + 1:] if x and not x.startswith("//")), "")
            if nxt != "continue":      # the early `continue` branch leaves the loop iteration
                locked = False
            continue
        uses = re.search(r"\bjob\.(offsets|filename)\b|\bstrOff\.|\brange\s+\w*[oO]ffsets\b", l)
        if uses:
            if "range" in l or "strOff." in l:
                seen_streams = True
            if not locked:
                return False, "outside the job.mu critical section: " + l[:120]
    if not seen_streams:
        return False, "the stream-formatting loop was not recognised"
    return True, ""


def c07_fact_snapshot_under_save_lock(repo):
    """offsetDB.save takes its job snapshot (which refills the shared o.jobsSnapshot slice) while it holds
    o.mu (Model/SaveSnap.lean: program lockFirst)"""
    import os
    src = open(os.path.join(repo, "plugin/input/file/offset.go")).read()
    a = src.find("func (o *offsetDB) save(")
    if a < 0:
        return False, "offsetDB.save not found"
    body = src[a:]
    lock, snap = body.find("o.mu.Lock()"), body.find("o.snapshotJobs(")
    if lock < 0 or snap < 0:
        return False, "o.mu.Lock() / o.snapshotJobs( not found in save"
    if snap < lock:
        return False, "o.snapshotJobs is called before o.mu.Lock()"
    if "o.mu.Unlock()" in body[lock:snap].replace("defer o.mu.Unlock()", ""):
        return False, "o.mu is released before o.snapshotJobs"
    return True, ""


def c07_nontrivial(c, i):
    if not c:
        return False
    if c[0] == "c07.rt":
        return "ok" in i and i[i.index("ok") + 1] != "0"       # at least one job loaded back
    if c[0] == "c07.parse":
        return len(c) > 2 and c[2] != "-"
    if c[0] == "c07.seq":
        return "s" in i
    if c[0] == "c07.conc":
        return "s" in i
    if c[0] == "c07.obj":
        return i.count("sv") >= 2
    if c[0] == "c07.csave":
        return i.count("s") >= 3
    if c[0] == "c07.hist":
        return i.count("sv") >= 2
    if c[0] == "c07.proto":
        return len(i) > 0 and i[0].isdigit() and int(i[0]) >= 1  # at least one syscall of the save observed
    return False


def c07_classify(c, i):
    out = []
    if not c:
        return out
    kind = c[0][4:]
    out.append("kind=" + kind)
    if kind == "rt":
        files, streams = _rt_names(c)
        out.append("jobs=" + (c[2] if c[2] in ("0", "1", "2") else "3+"))
        if "-" in streams: out.append("stream-empty")
        if any(_hex_has_nl(t) for t in streams + files): out.append("name-with-newline")
        if any("3a" in [t[k:k + 2] for k in range(0, len(t), 2)] for t in streams if t != "-"): out.append("stream-with-colon")
        if any(len(t) > 2000 for t in streams + files): out.append("name-long")
        if any(any(int(t[k:k + 2], 16) >= 0x80 for k in range(0, len(t), 2)) for t in streams if t != "-"): out.append("stream-non-ascii")
        if "9223372036854775807" in c: out.append("offset-max")
        out.append("load=" + ("ok" if "ok" in i else "panic" if any(t.startswith("panic") for t in i) else "err"))
    elif kind == "parse":
        out.append("load=" + (i[0] if i else "?"))
    elif kind == "seq":
        out.append("saves=" + str(min(i.count("s"), 5)))
        if "corrupt" in i: out.append("offset-corruption-panic")
        if "t" in i: out.append("truncate")
    elif kind == "conc":
        # width of the jobs and how many commits of one source fell inside a save
        n = int(c[1]); streams = int(c[2]) * (1 + int(c[3]))
        out.append("streams/job=" + ("2-50" if streams <= 50 else "51-500" if streams <= 500 else "500+"))
        k, w = 0, 0
        while k < len(i):
            if i[k] == "s" and k + 2 * n < len(i):
                lo = [int(x) for x in i[k + 1:k + 1 + n]]; hi = [int(x) for x in i[k + 1 + n:k + 1 + 2 * n]]
                w = max([w] + [h - l for h, l in zip(hi, lo)]); k += 1 + 2 * n
            else:
                k += 1
        out.append("commits-during-save=" + ("0" if w == 0 else "1-9" if w < 10 else "10-999" if w < 1000 else "1000+"))
    elif kind == "obj":
        recs, cur = [], None
        for t in i:
            if t == "sv":
                cur = []; recs.append(cur)
            elif cur is not None and "." in t and t.split(".")[0] in ("open", "openk", "write", "fsync", "rename", "close", "unlink"):
                cur.append(t)
        failed = [any(t.endswith(".0") for t in r) for r in recs]
        out.append("obj-saves=" + str(len(recs)))
        for k in range(1, len(recs)):
            if any(failed[:k]) and "rename.1" in recs[k]:
                out.append("successful-save-after-failed-save"); break
        for r in recs:
            for t in r:
                if t.endswith(".0"): out.append("obj-failed:" + t.split(".")[0])
    elif kind == "csave":
        out.append("csave-jobs=" + ("<64" if int(c[1]) < 64 else "64-255" if int(c[1]) < 256 else "256+"))
        out.append("csave-savers=" + c[3])
        n = i.count("s")
        out.append("csave-file-versions-loaded=" + ("<10" if n < 10 else "10-99" if n < 100 else "100+"))
    elif kind == "hist":
        out.append("hist-variant=" + c[1])
        # per save: was a temp file left behind (no rename / unlink after a successful open)?
        recs, cur = [], None
        for t in i:
            if t == "sv":
                cur = []; recs.append(cur)
            elif cur is not None and "." in t and t.split(".")[0] in ("open", "openk", "write", "fsync", "rename", "close", "unlink"):
                cur.append(t)
        left = [bool(r) and r[0] in ("open.1", "openk.1") and "rename.1" not in r and "unlink.1" not in r for r in recs]
        wl = [next((int(t.split(".")[1]) for t in r if t.startswith("write.") and t.endswith(".1")), None) for r in recs]
        out.append("saves=" + str(len(recs)))
        for k in range(1, len(recs)):
            if any(left[:k]) and wl[k] is not None:
                prev = max([w for w, l in zip(wl[:k], left[:k]) if l and w is not None] + [0])
                out.append("after-leftover-tmp:" + ("shorter" if wl[k] < prev else "longer-or-equal"))
        if any(t.startswith("openk.") for t in i): out.append("open-without-O_TRUNC")
    elif kind == "proto":
        out.append("variant=" + c[1])
        nf = int(c[2]) if c[2].isdigit() else 0
        faults = [c[3 + 2 * k] + "@" + c[4 + 2 * k] for k in range(nf)]
        out.append("faults=" + ("none" if not faults else "+".join(faults)))
        if "killed" in i and i[i.index("killed") + 1] == "1": out.append("killed")
        n = int(i[0]) if i and i[0].isdigit() else 0
        out.append("trace=" + ",".join(t.split(".")[0] + ("!" if t.endswith(".0") else "") for t in i[1:1 + n]))
    return out


CFG = {
    "manifest": {
        "text": "Proof: Lean theorems (Props/C07.lean) state that (a) the model of offsetDB.parse reads back exactly the live jobs of every table the model of offsetDB.save renders, for all names without a newline (empty, ':'-containing, non-ASCII, leading '-' included) and all offsets up to 2^63-1; (b) every snapshot is, per source, a value the committed map had earlier; (c) for every failure pattern and every crash point of the save protocol (file plugin and generic offset package, as fixed) the offsets file holds the previous or the new snapshot on the volatile and on the durable level. The models are tied to the real code on every run: real save/load/parse on generated tables and malformed files, real commits against saves, and the real save re-executed under strace with an I/O error or SIGKILL injected at each syscall, the observed syscall order replayed through the protocol model.",
        "note": "Trusted: Lean kernel + the three standard axioms; fdmodel compilation; harness; strace. Assumed (not verified): file-system semantics as modelled (rename atomic on both levels, fsync makes the file's content durable, un-synced data may be lost on power loss but survives a process kill); power loss is derived from the observed syscall order, not executed. Names containing '\\n' break the line format: known finding, stated as parse_render_counterexample.",
        "technique": "Lean 4 proof (round trip by induction over the table; inductive invariant over all op lists of the save protocol) + differential correspondence (function harness and strace fault/kill injection)",
    },
    "props_modules": ["FileD.Props.C07"],
    "facts": [("offsetDB.save formats a job's streams inside its job.mu critical section", c07_fact_format_under_lock),
              ("offsetDB.save snapshots the jobs while holding o.mu", c07_fact_snapshot_under_save_lock)],
    "nontrivial": c07_nontrivial,
    "classify": c07_classify,
    "signatures": {"c07_sig_newline": c07_sig_newline},
    "rule": "one long-lived offsetDB in one process (c07.obj): commits and 3-5 saves on the same jobProvider/offsetDB under strace, EIO at open/write/fsync/rename/close/unlink of the first or second save (and two failing saves, kill in a later save), followed by further commits and successful saves; the offsets file is copied after every save and parsed by the parent; concurrent saves (c07.csave): 3-12 goroutines each repeating `commit to one of its own jobs; save` on ONE offsetDB with 48-512 jobs (what sync persistence does with several processors) while a loader parses every new content of the offsets file: it must parse, name every job once, and hold each job's table after ONE k of its commits, k inside [commits whose save had returned before the read, commits started after it]; histories (c07.hist): saves run one after the other on one directory, real plugin/input/file save, real offset.Save through a byte callback and real offset.SaveYAML/LoadYAML (the encoder's bytes are an oracle in the case line): a save killed or failed (EIO) at write/fsync/close/rename (generic) resp. fsync/rename/unlink (file) so that its temp file stays behind, followed by saves of shorter and of longer states, two interrupted saves in a row, first save interrupted, plain successive saves (thorough: +150 random histories of 2-4 saves); the file under the real name is read and loaded after every save; process part: the save re-executed under strace for every single fault (EIO) and every kill point (SIGKILL at syscall entry) of open/write/fsync/rename/close/unlink, both protocols, plus first-save and two-fault cases (thorough: +330 random tables/blobs with 0-2 faults); function part: every stream name over {a,':',' ','-'} up to length 3 (thorough 4), pairs of them, the same as file names, a pool of names events can carry (':'-containing, UTF-8, control bytes, 1-6 kB, empty, with newline) x boundary offsets (0 … 2^63-1), random tables (0-4 jobs, 0-4 streams, duplicate sources/streams), every truncation and single-byte deletion of a two-job file, hand-written malformed files, random mutations of valid files, random strings over the format alphabet, random sequential schedules of real commits/truncations/saves, and committing goroutines racing the saver on jobs with 2-200 streams and with ~2000 streams (commit k of a source carries offset k round-robin over its racing streams, so the job's table is a function of k: the WHOLE loaded table of a source must equal its table after ONE k, with k between the commits returned before the save started and those started before it returned); distinct = distinct case line; non-trivial = something was loaded back / a save syscall was observed",
    "corr_name": "OffsetsFile.render/parse = offsetDB.save/load/parse (file bytes and loaded table); CommitSnap.step? = jobProvider.commit/truncateJob + save (sequential schedules exactly; concurrent runs through the history-window oracle); SaveProto.step? (fileFixed, genFixed) accepts the observed syscall trace of every save (openat without O_TRUNC is a different op) and predicts the file left on disk, across histories of saves (SaveProto.runHist; on one object/process: runObjHist with the buffer reset before formatting)",
    "trusted_base": [
        "strace 6.1 fault injection (-e inject=<syscall>:error=EIO|signal=KILL:when=N); SIGKILL is delivered at syscall entry (the syscall is not executed)",
        "file-system semantics of Model/SaveProto.lean: rename atomic on the volatile and the durable level; fsync copies volatile to durable; un-synced data survives a process kill, not a power loss; the temp name is fresh",
        "modelled, not verified: Go map iteration order (taken from the implementation's snapshot), xtime cached clock (pinned by the harness), os.File.Write issues one write(2) per call on a regular file",
    ],
    "assumptions": [
        "job tables are what the Go types guarantee: distinct source ids (map keys), distinct stream names per job (SliceMap.Set), uint64 inode/source id, int64 timestamp",
        "the previous snapshot is durable when a save starts (it was written by an earlier successful save)",
    ],
    "chunk": 4000,
    "timeout": 1200,
}
