"""C10 check configuration (see checks/props.py for the meaning of the keys)."""
import os, re, subprocess, shutil

GEN_REL = "lean/FileD/Gen/KafkaPack.lean"
GEN_FUNCS = "assembleSourceID,disassembleSourceID,assembleOffset,disassembleOffset"


# ---------------------------------------------------------------- regenerated tie
def _repo():
    return os.environ.get("VERIF_REPO", "/repo")


def regen_kafkapack(root):
    """Delete the stale Gen file, translate the four packing functions of /repo's working tree
    with harness/cmd/go2lean and write the new file. Anything go2lean cannot translate is an error
    (non-zero rc, no Gen file), never skipped."""
    env = dict(os.environ, GOFLAGS="-mod=mod", GOPROXY="off")
    harness = os.path.join(root, "harness")
    tool = os.path.join(root, "bin", "go2lean")
    os.makedirs(os.path.join(root, "bin"), exist_ok=True)
    if not os.path.exists(os.path.join(harness, "go.sum")):
        shutil.copyfile(os.path.join(_repo(), "go.sum"), os.path.join(harness, "go.sum"))
    p = subprocess.run(["go", "build", "-o", tool, "./cmd/go2lean"], cwd=harness, env=env,
                       stdout=subprocess.PIPE, stderr=subprocess.PIPE, timeout=900)
    if p.returncode != 0:
        return p.returncode, p.stdout.decode("utf-8", "replace"), "go2lean does not build: " + p.stderr.decode("utf-8", "replace")
    out = os.path.join(root, GEN_REL)
    os.makedirs(os.path.dirname(out), exist_ok=True)
    if os.path.exists(out):
        os.remove(out)
    tmp = out + ".tmp"
    if os.path.exists(tmp):
        os.remove(tmp)
    p = subprocess.run([tool, "-repo", _repo(), "-file", "plugin/input/kafka/kafka.go", "-funcs", GEN_FUNCS,
                        "-ns", "FileD.Gen.KafkaPack", "-out", tmp], env=env,
                       stdout=subprocess.PIPE, stderr=subprocess.PIPE, timeout=300)
    if p.returncode == 0 and os.path.exists(tmp):
        os.replace(tmp, out)
        return 0, p.stdout.decode("utf-8", "replace"), p.stderr.decode("utf-8", "replace")
    if os.path.exists(tmp):
        os.remove(tmp)
    msg = p.stderr.decode("utf-8", "replace")
    # The stale file is gone. Leave a stub with the same signatures so that the shared driver
    # (fdmodel, used by every other property) still builds; nothing can be proved about it, and this
    # function returns non-zero, so the C10 run is reported as a broken tie whatever the stub says.
    with open(out, "w") as f:
        f.write(STUB.replace("@MSG@", msg.replace("-/", "- /").replace("/-", "/ -").strip()))
    return (p.returncode or 1), p.stdout.decode("utf-8", "replace"), \
        "go2lean could not translate plugin/input/kafka/kafka.go (tie broken): " + msg


STUB = """/-
  STUB (not generated): go2lean FAILED on plugin/input/kafka/kafka.go, the stale generated file was
  deleted. These constant definitions only keep the shared driver compiling; every C10 theorem about
  the packing functions fails over them and ./check C10 reports the broken tie:
  @MSG@
-/
namespace FileD.Gen.KafkaPack
structure Record where
  Partition : BitVec 32
  ProducerEpoch : BitVec 16
  ProducerID : BitVec 64
  LeaderEpoch : BitVec 32
  Offset : BitVec 64
  deriving DecidableEq, Repr
structure EpochOffset where
  Epoch : BitVec 32
  Offset : BitVec 64
  deriving DecidableEq, Repr
def assembleSourceID (_index : BitVec 64) (_partition : BitVec 32) : BitVec 64 := 0#64
def disassembleSourceID (_sourceID : BitVec 64) : BitVec 64 × BitVec 32 := (0#64, 0#32)
def assembleOffset (_message : Record) : BitVec 64 := 0#64
def disassembleOffset (_assembledOffset : BitVec 64) : EpochOffset := { Epoch := 0#32, Offset := 0#64 }
end FileD.Gen.KafkaPack
"""


# ---------------------------------------------------------------- source facts
def _go_src(path):
    s = open(path).read()
    s = re.sub(r"/\*.*?\*/", "", s, flags=re.S)
    s = re.sub(r"//[^\n]*", "", s)
    return s


def _kafka_files(repo):
    d = os.path.join(repo, "plugin/input/kafka")
    return [os.path.join(d, f) for f in sorted(os.listdir(d))
            if f.endswith(".go") and not f.endswith("_test.go") and not f.startswith("export_verif")]


def fact_autocommit_marks(repo):
    s = _go_src(os.path.join(repo, "plugin/input/kafka/client.go"))
    ok = "kgo.AutoCommitMarks()" in s and "kgo.ConsumerGroup(" in s
    return ok, "client.go: NewClient must pass kgo.ConsumerGroup and kgo.AutoCommitMarks() (only marked offsets are committed)"


def fact_only_marks(repo):
    bad = []
    for f in _kafka_files(repo):
        for m in re.finditer(r"\.(CommitRecords|CommitOffsets|CommitOffsetsSync|CommitUncommittedOffsets|MarkCommitRecords|SetOffsets)\(", _go_src(f)):
            bad.append(os.path.basename(f) + ":" + m.group(1))
    s = _go_src(os.path.join(repo, "plugin/input/kafka/kafka.go"))
    if s.count("MarkCommitOffsets(") != 1:
        bad.append("kafka.go: expected exactly one MarkCommitOffsets call (in Commit)")
    return not bad, "offsets reach the client only through Commit -> MarkCommitOffsets: " + ", ".join(bad)


def fact_start_spread(repo):
    s = _go_src(os.path.join(repo, "plugin/input/kafka/kafka.go"))
    m = re.search(r"func \(p \*Plugin\) Start\(.*?\n}\n", s, flags=re.S)
    ok = bool(m) and "p.controller.UseSpread()" in m.group(0) and "p.controller.DisableStreams()" in m.group(0)
    return ok, "kafka.go: Plugin.Start must call controller.UseSpread() and controller.DisableStreams() (the harness input wrapper does the same)"


# ---------------------------------------------------------------- case parsing (shared by classify / signature)
def _recs(tok, n, extra):
    recs = []
    for _ in range(n):
        t, p, o, e = int(tok[0]), int(tok[1]), int(tok[2]), int(tok[3])
        x = tok[4:4 + extra]
        tok = tok[4 + extra:]
        recs.append((t, p, o, e) + tuple(x))
    return recs, tok


def _in_range(r):
    t, p, o, e = r[:4]
    return 0 <= t < 2 ** 48 and 0 <= p < 2 ** 16 and 0 <= o < 2 ** 47 and 0 <= e < 2 ** 16


def _marks(tok):
    k = int(tok[0])
    ms = []
    tok = tok[1:]
    for _ in range(k):
        ms.append((int(tok[0]), int(tok[1]), int(tok[2]), int(tok[3])))
        tok = tok[4:]
    return ms, tok


def _observations(c, i):
    """-> (recs_consumed_so_far, finished_set, acked_list, marks) per observation point, or None"""
    obs = []
    if c[0] == "c10.marks":
        n = int(c[2])
        recs, rest = _recs(c[3:], n, 0)
        order = [int(x) for x in rest[1:1 + int(rest[0])]]
        if not i or not i[0].isdigit():
            return None
        tok = i[1:]
        acked = []
        for k in order:
            acked = acked + [k]
            ms, tok = _marks(tok)
            obs.append((list(range(len(recs))), recs, set(acked), list(acked), ms))
        return obs
    if c[0] == "c10.start":
        nt = int(c[1])
        n = int(c[2 + nt])
        recs, rest = _recs(c[3 + nt:], n, 0)
        order = [int(x) for x in rest[1:1 + int(rest[0])]]
        if not i or not i[0].isdigit() or int(i[0]) != n:
            return None
        tok = i[1 + 2 * n:]
        if int(tok[0]) != len(order):
            return None
        tok = tok[1:]
        acked = []
        for k in order:
            acked = acked + [k]
            ms, tok = _marks(tok)
            obs.append((list(range(len(recs))), recs, set(acked), list(acked), ms))
        return obs
    if c[0] == "c10.stop":
        nt = int(c[1])
        n = int(c[2 + nt])
        recs, rest = _recs(c[3 + nt:], n, 0)
        fin = [int(x) for x in rest[1:1 + int(rest[0])]]
        if not i or not i[0].isdigit() or int(i[0]) != n:
            return None
        tok = i[1 + 2 * n:]
        if tok[0] != "0":
            return None
        ms, tok = _marks(tok[1:])
        return [(list(range(len(recs))), recs, set(fin), list(fin), ms)]
    if c[0] == "c10.live":
        nt = int(c[2])
        n = int(c[3 + nt])
        recs, rest = _recs(c[4 + nt:], n, 1)
        finish = [int(x) for x in rest[1:1 + int(rest[0])]]
        refused = [k for k in range(n) if recs[k][4] != "0"]
        if not i or not i[0].isdigit() or int(i[0]) != n:
            return None
        tok = i[1 + 3 * n:]
        na = int(tok[0])
        acked = [int(x) for x in tok[1:1 + na]]
        if any(k not in finish for k in acked) or len(set(acked)) != na:
            return None
        before, tok = _marks(tok[1 + na:])
        if tok[0] != "0":
            return None
        after, tok = _marks(tok[1:])
        fin = set(acked) | set(refused)
        return [(list(range(n)), recs, fin, list(acked), before), (list(range(n)), recs, fin, list(acked), after)]
    if c[0] == "c10.pipe":
        n = int(c[5])
        recs, _ = _recs(c[6:], n, 1)
        if not i or not i[0].isdigit():
            return None
        tok = i[1:]
        consumed, fin, acked = [], set(), []
        while tok:
            op = tok[0]
            if op == "in":
                consumed = consumed + [int(tok[1])]
                tok = tok[5:]
            elif op == "out":
                tok = tok[2:]
            elif op == "drop":
                fin = fin | {int(tok[1])}
                tok = tok[2:]
            elif op == "ack":
                k = int(tok[1])
                fin = fin | {k}
                acked = acked + [k]
                ms, tok = _marks(tok[2:])
                obs.append((list(consumed), recs, set(fin), list(acked), ms))
            else:
                return None
        return obs
    return None


def c10_spread_reorder(c, i, m, finding):
    """Signature of the known finding C10-spread-reorder on a (case, observed result):
    * every mark ever observed is a record's own: (epoch, offset+1) of an acknowledged record of
      that topic/partition (so: no foreign topic / partition / epoch, nothing more than one past a
      consumed record), and
    * at some observation a mark is greater than the smallest unfinished offset of its partition, and
      at every such point a record of that partition with a larger offset was acknowledged while a
      record with a smaller offset was still unfinished (completion order differs from offset order).
    Anything else that fails the oracle is not this finding."""
    try:
        obs = _observations(c, i)
    except Exception:
        return False
    if not obs:
        return False
    passed = False
    for consumed, recs, fin, acked, marks in obs:
        if not all(_in_range(recs[k]) for k in consumed):
            return False
        for (t, p, e, o) in marks:
            own = [k for k in acked if recs[k][0] == t and recs[k][1] == p and recs[k][3] == e and recs[k][2] + 1 == o]
            if not own:
                return False
            unfinished = [k for k in consumed if k not in fin and recs[k][0] == t and recs[k][1] == p]
            if unfinished and o > min(recs[k][2] for k in unfinished):
                lo = min(recs[k][2] for k in unfinished)
                inversion = any(recs[k][0] == t and recs[k][1] == p and recs[k][2] > lo for k in acked)
                if not inversion:
                    return False
                passed = True
    return passed


# ---------------------------------------------------------------- statistics
def c10_nontrivial(c, i):
    if c[0] == "c10.pack":
        return _in_range((int(c[1]), int(c[2]), int(c[3]), int(c[4])))
    if c[0] == "c10.marks":
        return len(i) > 1 and i[0].isdigit() and int(i[0]) >= 1
    if c[0] == "c10.pipe":
        return "ack" in i
    if c[0] in ("c10.start", "c10.stop", "c10.live"):
        return len(i) > 1 and i[0].isdigit() and int(i[0]) >= 1
    return False


def c10_classify(c, i):
    out = [c[0]]
    if c[0] == "c10.pack":
        out.append("pack:" + ("in-range" if _in_range((int(c[1]), int(c[2]), int(c[3]), int(c[4]))) else "out-of-range"))
    elif c[0] == "c10.marks":
        n = int(c[2])
        out.append("marks:records=" + ("1" if n == 1 else "2-4" if n <= 4 else "5+"))
        if i and i[0].startswith("panic"):
            out.append("marks:panic")
    elif c[0] == "c10.start":
        nt = int(c[1])
        names = c[2:2 + nt]
        out.append("start:topics=" + str(nt))
        out.append("start:" + ("duplicate-topics" if len(set(names)) < nt else "distinct-topics"))
        out.append("start:distinct-names=" + str(len(set(names))))
        if i and not i[0].isdigit(): out.append("start:" + i[0])
    elif c[0] == "c10.stop":
        nt = int(c[1])
        n = int(c[2 + nt])
        nf = int(c[3 + nt + 4 * n])
        out.append("stop:finished=" + ("none" if nf == 0 else "all" if nf == n else "some"))
        out.append("stop:records=" + ("1" if n == 1 else "2-4" if n <= 4 else "5+"))
        if i and not i[0].isdigit(): out.append("stop:" + i[0].split(":")[0])
    elif c[0] == "c10.live":
        nt = int(c[2])
        n = int(c[3 + nt])
        kinds = [c[4 + nt + 5 * k + 4] for k in range(n)]
        nf = int(c[4 + nt + 5 * n])
        out.append("live:procs=" + c[1])
        if "1" in kinds: out.append("live:tombstone")
        if "2" in kinds: out.append("live:malformed-json")
        if all(k == "0" for k in kinds): out.append("live:all-ordinary")
        nord = kinds.count("0")
        out.append("live:finished=" + ("none" if nf == 0 else "all" if nf == nord else "some"))
        if i and not i[0].isdigit(): out.append("live:" + i[0].split(":")[0])
    elif c[0] == "c10.pipe":
        out.append("pipe:procs=" + c[1])
        out.append("pipe:" + ("async" if c[2] == "1" else "sync"))
        if "drop" in i: out.append("pipe:with-drops")
        if i and not i[0].isdigit(): out.append("pipe:" + i[0])
        # did records leave the output in an order different from consumption order?
        acks = [int(i[k + 1]) for k in range(len(i) - 1) if i[k] == "ack"]
        out.append("pipe:acks-" + ("in-order" if acks == sorted(acks) else "reordered"))
        sids = set(i[k + 2] for k in range(len(i) - 2) if i[k] == "in")
        out.append("pipe:streams-used=" + str(len(sids)))
    return out


CFG = {
    "manifest": {
        "text": "Proof: Lean theorems (Props/C10.lean). pack_roundtrip is proved, kernel-only over BitVec, about definitions regenerated from kafka.go's AST on every run (go2lean): unpacking a packed (topic index < 2^48, partition < 2^16, offset < 2^47, epoch < 2^16) gives the record's own topic/partition/epoch and offset+1. On a transition system of the spread pipeline (records -> streams -> output -> Commit -> max-keeping marks) every mark is an acknowledged record's own (mark_at_most_one_past_consumed), and no mark passes an unfinished record when acknowledgements are in consumption order per partition / with one processor and an in-order output (mark_never_passes_unfinished_partial). start_commit_own_topic: for every configured topic list, duplicates included, the id Start assigns resolves in Commit to the record's own topic. The full statement is false of the code: MarkNeverPassesUnfinished_counterexample (two records, two processors), recorded as known finding C10-spread-reorder and reproduced on the real pipeline.",
        "note": "Trusted: Lean kernel + standard axioms; fdmodel compilation; go2lean (cross-checked against the real functions on every run); harness; franz-go keeps the maximum mark and (AutoCommitMarks) commits marks only; the broker delivers a partition in increasing offset order. c10.stop observes the OffsetCommit requests of the real Stop on the harness' own minimal in-process group broker (one member, no rebalance); the other commands observe the client's marked head.",
        "technique": "Lean 4 proof (BitVec algebra on regenerated definitions + inductive invariant over op lists) + differential correspondence: real packing functions, real Plugin.Commit on an offline kgo client, real pipeline in spread mode with a scheduled output",
    },
    "props_modules": ["FileD.Props.C10"],
    "regen": [regen_kafkapack],
    "facts": [
        ("kafka-autocommit-marks", fact_autocommit_marks),
        ("kafka-only-marks-committed", fact_only_marks),
        ("kafka-start-spread", fact_start_spread),
    ],
    "nontrivial": c10_nontrivial,
    "classify": c10_classify,
    "signatures": {"c10_spread_reorder": c10_spread_reorder},
    "trace": True,
    "rule": "c10.pack: boundary grid of (index, partition, offset, epoch) in and around the packing ranges plus random values of random bit length and full-range values; c10.marks: every commit order of every subset of 1..4 (thorough 5) records of one partition, then random record sets over 1-4 partitions committed in consumption order / with adjacent swaps / shuffled, plus records outside the packing range; c10.start: the real Plugin.Start against an in-process fake broker (ApiVersions + Metadata), real Assigned callback, real consume loops, real Commit: every topic list over three names up to length 4 (thorough 5), duplicates included, one record per configured name, then random lists / record sets; c10.stop: the real plugin end to end against an in-process broker speaking the consumer-group protocol (join, sync, fetch, offset commit, leave): records are fetched by the real poll loop, a prefix / subset / all / none of them is acknowledged through Commit, then the real Plugin.Stop runs; observed = the committed offsets the broker holds (every prefix of 1..4 (6) records of one partition, every subset up to 3, random sets over several topics and partitions); c10.live: real pipeline whose input is the real plugin (pipeline.Start / pipeline.Stop), the same broker, a holding output; records of kind tombstone (empty value) or malformed JSON are refused by the real In (no event): every kind sequence up to length 2 (3) of one partition x every subset of the ordinary records acknowledged, then random sets with refused records sprinkled in; observed = In's answers, the marks before the stop, the broker's offsets after it; c10.pipe: real pipeline, 1/2/4 processors, pool capacity 1-6, sync or queueing output, random discard flags, release order from the PRNG. distinct = distinct case line; non-trivial = in-range packing input / at least one commit observed",
    "corr_name": "Gen.KafkaPack defs = real packing functions; KafkaCommit.commitPacked / step? = Plugin.Commit + kgo marks / observed pipeline trace; topicID / commitStarted = Start's topic ids + Commit's Topics[index]",
    "trusted_base": [
        "go2lean (Go AST -> Lean translator); its output is compared with the real functions on every run (c10.pack)",
        "franz-go: MarkCommitOffsets keeps the maximum w.r.t. EpochOffset.Less, MarkedOffsets returns the heads, with AutoCommitMarks only marked heads are committed (exercised offline, not proved)",
        "c10.marks / c10.pipe / c10.start observe the marked head of the client; the OffsetCommit requests are observed by c10.stop only, against the harness' own minimal broker (one member, no rebalance while running, autocommit interval 1h so that the commits are Stop's)",
        "GOARCH is 64 bit (int = int64)",
    ],
    "assumptions": [
        "the broker delivers the records of a partition in strictly increasing offset order (enabling condition of `consume`)",
        "c10.marks / c10.pipe name a topic by its position in a duplicate-free list; duplicate names are covered by c10.start (real Start) and start_commit_own_topic",
        "mark_never_passes_unfinished_partial: acknowledgements arrive in consumption order per partition (e.g. one processor and an output that acknowledges in order)",
    ],
    "chunk": 1000,
    "timeout": 600,
    "widen_seeds": 2,
    "widen_cases": 30000,
}
