"""C16 check configuration (see checks/props.py for the meaning of the keys)."""
import os, re


def _parse(c):
    """case tokens -> dict(count, interval, exp, rules=[...], nev, nx, epoch, keys, ...)"""
    pos = 1
    def nxt():
        nonlocal pos
        t = c[pos]; pos += 1
        return t
    d = {}
    d["count"] = int(nxt()); d["interval"] = int(nxt()); d["exp"] = int(nxt())
    nr = int(nxt())
    rules = []
    for _ in range(nr):
        r = {"limit": int(nxt()), "kind": nxt()}
        nc = int(nxt())
        for _ in range(nc): nxt(); nxt()
        r["nconds"] = nc
        r["dfield"] = nxt()
        nrat = int(nxt())
        shares = []
        for _ in range(nrat):
            nxt(); shares.append(int(nxt()))
            nv = int(nxt())
            for _ in range(nv): nxt()
        r["shares"] = shares
        r["def"] = int(nxt())
        rules.append(r)
    d["rules"] = rules
    nops = int(nxt())
    nev = nx = nt = 0
    keys = set()
    nows = []
    cur = None          # generation of the limiters map in ns (I / T ops)
    slack = 0           # max (event now - generation): how stale a limiter's stamp can be
    deleted_after_use = False
    tsrel = {"in": 0, "past": 0, "future": 0}
    window = d["count"] * d["interval"]
    for _ in range(nops):
        t = nxt()
        if t == "E":
            nev += 1
            keys.add(nxt())
            ts = int(nxt()); now = int(nxt()); nxt()
            nf = int(nxt())
            for _ in range(nf): nxt(); nxt()
            nows.append(now)
            if cur is not None: slack = max(slack, now - cur)
            if ts > now + d["interval"]: tsrel["future"] += 1
            elif ts < now - window: tsrel["past"] += 1
            else: tsrel["in"] += 1
        elif t.startswith("X"):
            nx += 1
        elif t.startswith("T"):
            nt += 1; cur = int(t[1:]) * 1000
        elif t.startswith("I"):
            cur = int(t[1:]) * 1000
    eff_us = max(d["exp"] * 1000000, window) // 1000
    d.update(nev=nev, nx=nx, nt=nt, nkeys=len(keys), nows=nows, tsrel=tsrel, slack=slack, eff_us=eff_us,
             window=window)
    return d


def c16_nontrivial(c, i):
    # at least one event was discarded and at least one passed (a limit was actually reached)
    if "R" not in i: return False
    r = i[i.index("R") + 1:]
    if "S" in r: r = r[:r.index("S")]
    return "d" in r and "p" in r


def c16_classify(c, i):
    out = []
    try:
        d = _parse(c)
    except Exception:
        return ["unparsed"]
    n = d["nev"]
    out.append("events=" + ("1-4" if n <= 4 else "5-40" if n <= 40 else "41-300"))
    out.append("buckets=%d" % d["count"])
    out.append("keys=%d" % d["nkeys"])
    out.append("rules=%d" % len(d["rules"]))
    kinds = {r["kind"] for r in d["rules"]}
    out.append("kind=" + ("mixed" if len(kinds) > 1 else ("size" if "s" in kinds else "count")))
    for r in d["rules"]:
        if r["limit"] < 0: out.append("rule:unlimited")
        if r["dfield"] != "-" and r["shares"]:
            out.append("distr:listed=%d" % len(r["shares"]))
            tot = r["def"] + sum(r["shares"])
            out.append("shares" + ("=" if tot == r["limit"] else ">" if tot > r["limit"] else "<") + "limit")
    window = d["count"] * d["interval"]
    nows = d["nows"]
    if nows:
        if min(nows) < window: out.append("scope:epoch(minID=0 sentinel zone; oracle not applied)")
        jumps = [b - a for a, b in zip(nows, nows[1:])]
        if any(j >= window for j in jumps): out.append("clock:jump>=window")
        if any(0 < j < window for j in jumps): out.append("clock:step<window")
        if any(j == 0 for j in jumps): out.append("clock:still")
    for k, v in d["tsrel"].items():
        if v: out.append("ts:" + k)
    if d["nt"]:
        out.append("map-ticks=" + ("1-9" if d["nt"] < 10 else "10+"))
        out.append("expiration" + (">=" if d["eff_us"] * 1000 >= d["window"] + d["slack"] else "<") + "window+stamp-slack")
        if any(t.startswith("t:") and len(t) > 2 for t in i): out.append("map-ticks:deleted")
    if d["nx"]:
        out.append("expiry-op")
        if any(t.startswith("x:") and len(t) > 2 for t in i): out.append("expiry-op:deleted")
    if any(t.startswith("panic") for t in i): out.append("panic")
    return out


def sig_stamp_slack(c, i, m, k):
    """known finding C16-expiry-stamp-granularity: logical maintenance ticks, and the effective
    expiration is shorter than the bucket window plus the largest staleness of a generation stamp
    in the case (the hypothesis of passed_le_limit_across_ticks does not hold)"""
    try:
        d = _parse(c)
    except Exception:
        return False
    return d["nt"] > 0 and d["eff_us"] * 1000 < d["window"] + d["slack"]


# ---------------------------------------------------------------- source fact
# VerifMaintenanceOnce (export_verif_c16_map.go) is a copy of the body of the `case <-ticker.C:`
# branch of limitersMap.maintenance with nowTs as a parameter. The fact: both bodies, comments and
# blanks removed, are the same statements (the hook additionally collects the removed keys).
def _strip(src):
    src = re.sub(r"/\*.*?\*/", "", src, flags=re.S)
    src = re.sub(r"//[^\n]*", "", src)
    return [re.sub(r"\s+", " ", l).strip() for l in src.split("\n") if l.strip()]


def fact_maintenance_body(repo):
    d = os.path.join(repo, "plugin/action/throttle")
    real = _strip(open(os.path.join(d, "limiters_map.go")).read())
    hook = _strip(open(os.path.join(d, "export_verif_c16_map.go")).read())
    try:
        a = real.index("func (l *limitersMap) maintenance(ctx context.Context) {")
        a = real.index("case <-ticker.C:", a)
        a = real.index("l.mu.Lock()", a)
        b = real.index("l.mu.Unlock()", a)
        body = real[a + 1:b]
        ha = hook.index("func VerifMaintenanceOnce(p *Plugin, nowTs int64) []string {")
        ha = hook.index("l.mu.Lock()", ha)
        hb = hook.index("l.mu.Unlock()", ha)
        hbody = [l for l in hook[ha + 1:hb] if l != "removed = append(removed, key)"]
    except ValueError as e:
        return False, "maintenance loop / hook not found in the expected shape: %s" % e
    body = [l for l in body if l != "nowTs := time.Now().UnixMicro()"]
    if body != hbody:
        return False, "maintenance iteration differs from VerifMaintenanceOnce: real=%r hook=%r" % (body, hbody)
    if "go limiters[p.pipeline].maintenance(p.ctx)" not in _strip(open(os.path.join(d, "throttle.go")).read()):
        return False, "Start no longer runs limitersMap.maintenance"
    return True, ""


CFG = {
    "manifest": {
        "text": "Proof: Lean theorems (Props/C16.lean) about an executable model of the throttle action's in-memory limiter (bucket ring with shift/reset, isAllowed, limit distributions with stealing, first-match rule choice, limiter key, limiters-map expiry as an op): the model refines an abstract machine with one never-reset counter per (limiter key, bucket, distribution column) for every op sequence, from which per-bucket limits, distribution shares, no rejection under the limit and key independence follow; the map's generations and maintenance iteration are modelled on top (a tick = the expire ops of the keys it deletes) and proved safe when the expiration covers the window plus the staleness of a generation stamp, with a counterexample for an access that does not refresh the generation. The model is tied to the real throttle.Plugin (factory, Start, Do, injected clock) by differential runs on every check.",
        "note": "Trusted: Lean kernel + the three standard axioms; fdmodel compilation; harness. Assumed: clock non-decreasing and later than 1970-01-01 plus one retained window; no int64 overflow; limiter expiry only after the key was silent for a whole retained window (made true by the fix: limiter_expiration is raised to bucket_interval*buckets_count; the map's generation stamp has 1 s granularity). Redis backend out of scope. Per-value limits of a distribution are inputs (float rounding happens at configuration time; the harness reports sum of shares vs limit).",
        "technique": "Lean 4 proof (simulation invariant over op lists, refinement to unbounded counters) + differential correspondence on the real plugin",
    },
    "props_modules": ["FileD.Props.C16"],
    "facts": [("throttle-maintenance-iteration", fact_maintenance_body)],
    "nontrivial": c16_nontrivial,
    "classify": c16_classify,
    "rule": "exhaustive sequences up to length 3 (quick) / 4 (thorough) over (event time relative to the window) x (clock step) for buckets 1..3 x limit 0..2; random sequences of 1-300 events, 1-5 keys, 1-3 rules, buckets 1..6, six interval scales, clock jumps 0..3 windows, count and size kinds, distributions with 0-3 listed ratios; a stream near the epoch (minID = 0 sentinel); cases with real map maintenance (X ops); map life cycle cases on a logical wall clock (I/T ops: busy keys used between all maintenance iterations with their bucket exhausted, idle keys that expire, keys re-created after a silence; expiration below / just above / far above the window). distinct = distinct case line; non-trivial = at least one event passed and one was discarded",
    "corr_name": "Throttle.step + expandStep (results, keys removed by every maintenance iteration, effective expiration, final bucket rings and generations of every limiter, distribution shares) = throttle.Plugin.Do on the in-memory backend",
    "trusted_base": [
        "verif accessors of plugin/action/throttle/export_verif_c16.go (nowFn injection, bucket dump, map keys, parseLimitDistribution)",
        "X ops: wall-clock maintenance of the limiters map is an environment input: the keys it deleted are read from the run and replayed by the model as expire ops",
        "T ops: VerifMaintenanceOnce is a copy of the maintenance loop body with the time as a parameter; the source fact throttle-maintenance-iteration compares it with the real loop body on every run",
        "modelled, not verified: insane-json Dig/AsString on flat string fields, xtime.ParseTime(unixtimenano)",
    ],
    "assumptions": [
        "nowFn is non-decreasing and >= buckets_count*bucket_interval (no set minID equals the 0 sentinel)",
        "event sizes >= 0; counters and bucket ids do not overflow int64",
        "a limiter is removed only when no bucket of its key's history is inside the retained window at the key's next event (SafeExpiry)",
        "buckets_count >= 1, bucket_interval > 0, at most 256 rules (the rule index byte)",
    ],
    "signatures": {
        # known finding C16-rule-index-byte-wraps: only configurations with more rules than the
        # rule index byte of the limiter key can tell apart
        "expiry_within_stamp_slack": sig_stamp_slack,
        "more_than_256_rules": lambda c, i, m, k: len(c) > 4 and c[4].isdigit() and int(c[4]) >= k.get("min_rules", 257),
    },
    "chunk": 4000,
    "timeout": 900,
}
