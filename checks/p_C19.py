"""C19 check configuration (see checks/props.py for the meaning of the keys)."""
import binascii


# ---------------------------------------------------------------- case line access
def _unhex(t):
    return b"" if t == "-" else binascii.unhexlify(t)


class _Cur:
    def __init__(self, toks, pos=1):
        self.t, self.p = toks, pos

    def nxt(self):
        v = self.t[self.p]
        self.p += 1
        return v

    def num(self):
        return int(self.nxt())

    def skip(self, n):
        self.p += n


def _events(cur):
    """batches := <nb> (<nev> (<kind> <src> <enc> <nr> <r…>)…)…  →  [[(kind, src, enc, [route])]]"""
    out = []
    for _ in range(cur.num()):
        b = []
        for _ in range(cur.num()):
            kind = cur.num()
            src = _unhex(cur.nxt())
            enc = _unhex(cur.nxt())
            route = [_unhex(cur.nxt()) for _ in range(cur.num())]
            b.append((kind, src, enc, route))
        out.append(b)
    return out


def _script(cur):
    return [cur.num() for _ in range(cur.num())]


def parse_case(c):
    """returns dict(sink, split, raw, script, batches, ...)"""
    cmd = c[0]
    cur = _Cur(c)
    d = {"sink": cmd.split(".", 1)[1], "split": False, "raw": False, "script": []}
    if cmd == "c19.file":
        d["lim"] = cur.num()
    elif cmd == "c19.gelf":
        d["lim"] = cur.num(); d["failfirst"] = cur.nxt() == "1"; cur.skip(6)
    elif cmd == "c19.kafka":
        d["lim"] = cur.num(); d["bsz"] = cur.num(); cur.skip(3)
    elif cmd == "c19.http":
        d["raw"] = cur.nxt() == "1"; cur.skip(1); d["split"] = cur.nxt() == "1"; d["lim"] = cur.num()
        d["script"] = _script(cur)
    elif cmd == "c19.es":
        d["split"] = cur.nxt() == "1"; d["lim"] = cur.num(); cur.skip(3)
        d["values"] = [_unhex(cur.nxt()) for _ in range(cur.num())]
        d["script"] = _script(cur)
    elif cmd == "c19.splunk":
        d["lim"] = cur.num(); cur.skip(3 * cur.num()); d["script"] = _script(cur)
    elif cmd == "c19.loki":
        d["lim"] = cur.num(); cur.skip(1); cur.skip(2 * cur.num()); cur.skip(2); d["script"] = _script(cur)
    else:
        return None
    d["batches"] = _events(cur)
    return d


def _ctl_in_string(enc):
    """a raw control byte inside the encoded event (what the encoder assumption excludes)"""
    return any(b < 0x20 for b in enc)


# ---------------------------------------------------------------- histogram / non-triviality
def c19_nontrivial(c, i):
    d = parse_case(c)
    if not d:
        return False
    # at least one deliverable event went through the sink
    return any(k != 2 for b in d["batches"] for (k, _, _, _) in b) and bool(i) and not i[0].startswith("bad")


def c19_classify(c, i):
    d = parse_case(c)
    if not d:
        return ["unparsed"]
    out = ["sink=" + d["sink"]]
    evs = [e for b in d["batches"] for e in b]
    n = len(evs)
    out.append("batches=%d" % len(d["batches"]))
    out.append("events=" + ("0" if n == 0 else "1-4" if n <= 4 else "5-12" if n <= 12 else "13+"))
    if any(k == 2 for (k, _, _, _) in evs): out.append("child-parent")
    if any(k == 1 for (k, _, _, _) in evs): out.append("child")
    if any(not b for b in d["batches"]): out.append("empty-batch")
    if any(b and all(k == 2 for (k, _, _, _) in b) for b in d["batches"]): out.append("all-child-parent-batch")
    if d["split"]: out.append("split")
    if d["raw"]: out.append("raw-encoder")
    if d.get("failfirst"): out.append("gelf-endpoint-down-first")
    if d["lim"] <= 16: out.append("buffer-replaced")
    for s in sorted(set(d["script"])):
        out.append("status=%d" % s)
    if any(_ctl_in_string(enc) for (_, _, enc, _) in evs): out.append("raw-control-byte")
    if any(b >= 0x80 for (_, _, enc, _) in evs for b in enc): out.append("non-ascii")
    if d["sink"] in ("es", "kafka") and any(any((b < 0x20 or b in (0x22, 0x5c)) for r in rt for b in r) for (_, _, _, rt) in evs):
        out.append("routing-value-needs-escape")
    if i and i[0].startswith("panic"): out.append(i[0])
    if " err " in " " + " ".join(i) + " ": out.append("retried")
    return out


# ---------------------------------------------------------------- known-finding signatures
def sig_raw_control_byte(c, i, m, k):
    """an event whose encoding carries a raw control byte (insane-json decodes and re-encodes it verbatim)"""
    d = parse_case(c)
    return bool(d) and any(_ctl_in_string(enc) for b in d["batches"] for (kind, _, enc, _) in b if kind != 2)


def sig_loki_bad_timestamp(c, i, m, k):
    """loki: an event whose timestamp is not UnixNano makes `send` give up; the batch is committed unsent"""
    d = parse_case(c)
    return bool(d) and d["sink"] == "loki" and any(rt and rt[0] == b"\x01" for b in d["batches"] for (kind, _, _, rt) in b if kind != 2)


def sig_gelf_retry(c, i, m, k):
    """gelf: the batch is sent again after a failed attempt (formatEvent already rewrote the events in place)"""
    d = parse_case(c)
    return bool(d) and d["sink"] == "gelf" and d.get("failfirst", False)


CFG = {
    "manifest": {
        "text": "Proof: Lean theorems (Props/C19.lean) state, for the executable model of Batch.ForEach and of the out functions of the file, http, elasticsearch, splunk, loki, gelf and kafka outputs, that unframing the payload built for a batch gives the deliverable events once each, in order (under the stated encoder assumption), that the payload does not depend on the reused worker buffer, that kafka record values are disjoint views and every record / bulk action is routed to its own event's topic / index, and that the 413 split recursion delivers every event that is not refused on its own; the model is tied to the real plugins by running both on generated batches on every run.",
        "note": "Trusted: Lean kernel + the three standard axioms; fdmodel compilation; harness. Oracles (assumed, validated on every case): insane-json Encode / Dig.AsString, encoding/json.Marshal of the Loki entry, the GELF field conversion, HTTP status codes. Not modelled: gzip, TLS, batcher timing, Loki time.Now() substitution, GELF timestamp from time.Now().",
        "technique": "Lean 4 proof (unframe∘frame = id per sink, induction on the split range) + differential correspondence against the real plugins (httptest server, temp file, TCP listener, fake Kafka client)",
    },
    "props_modules": ["FileD.Props.C19"],
    "nontrivial": c19_nontrivial,
    "classify": c19_classify,
    "signatures": {
        "raw_control_byte": sig_raw_control_byte,
        "loki_bad_timestamp": sig_loki_bad_timestamp,
        "gelf_retry": sig_gelf_retry,
    },
    "rule": "exhaustive: every status script over {200,413} answering every request of the split recursion for batches of 1..4 events (thorough: 1..5, plus {200,413,500,400} for 1..3), through elasticsearch and http alternately; then per sink random batches of 0..8 events from internal/jt trees with adversarial routing values (quotes, newlines, NUL, invalid UTF-8, non-strings), child / child-parent kinds, 1..3 successive batches through one worker (kafka also 2..4 equal-width batches reusing record slots with and without a topic field), buffer limits 0..4096, PRNG status scripts with retries; then a malformed stream (raw control bytes inside JSON strings, Loki timestamps that are not UnixNano); distinct = distinct case line; non-trivial = at least one deliverable event",
    "corr_name": "Payload.{fileRun,gelfRun,kafkaRun,httpLikeRun ∘ (httpOut|esOut|splunkOut|lokiOut)} = bytes written / records produced / request bodies and statuses observed from the real plugins' out functions",
    "trusted_base": [
        "oracles evaluated by the generator on the concrete event and shipped in the case line: insane-json Root.Encode, Dig(..).AsString(), field-name escaping, encoding/json.Marshal of the Loki entry parts, gelf formatEvent (through the verif export VerifFormat)",
        "the HTTP server is a script of status codes; net/http, fasthttp, TCP and os.File deliver the bytes they are given",
        "modelled, not verified: gzip bodies, TLS, the batcher's timing (out is called directly through the verif export VerifOut, as the batcher workers do), Loki/GELF substitution of time.Now()",
    ],
    "assumptions": [
        "encoder assumption of the framing theorems: an encoded event contains no raw newline (file, http, elasticsearch) / NUL (gelf) and is one bracketed JSON value (splunk, loki); validated per case, violated by raw control bytes in the source text (known finding)",
        "events are JSON objects; elasticsearch index_format has no more placeholders than index_values (otherwise the plugin exits)",
    ],
    "chunk": 400,
    "timeout": 600,
    "widen_seeds": 1,
    "widen_cases": 4000,
}
