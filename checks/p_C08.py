"""C08 check configuration (see checks/props.py for the meaning of the keys)."""
import re


def _toks(i):
    return i


def c08_nontrivial(c, i):
    # at least one batch went through seal and commit
    return "s" in i and "cb" in i


def c08_classify(c, i):
    out = []
    try:
        workers, count, nbytes, tmode, adders, stop_at, race = c[1], c[2], c[3], c[4], c[5], c[7], c[8]
        out.append("workers=" + workers)
        out.append("limit=" + ("count" if nbytes == "0" else "bytes" if count == "0" else "both"))
        out.append("timeout=" + ("3ms" if tmode == "1" else "off"))
        out.append("adders=" + adders)
        if stop_at != "-1":
            out.append("stop=" + ("race-window" if race == "1" else "plain"))
        nb = sum(1 for t in i if t == "s")
        out.append("batches=" + ("0" if nb == 0 else "1-3" if nb < 4 else "4-9" if nb < 10 else "10+"))
        if "h" in i: out.append("heartbeat-seen")
        # timeout-sealed batch: token group `s <k> 2`
        for j, t in enumerate(i):
            if t == "s" and j + 2 < len(i) and i[j + 2] == "2":
                out.append("sealed-by-timeout"); break
        if "w" in i: out.append("idle-flush-awaited")
        # out-of-order completion: some `d k` logged before `d j`, j < k
        ds = [int(i[j + 1]) for j, t in enumerate(i) if t == "d" and j + 1 < len(i) and i[j + 1].isdigit()]
        if any(ds[a] > ds[a + 1] for a in range(len(ds) - 1)): out.append("sends-finish-out-of-order")
        if any(t.startswith("panic:") for t in i): out.append("panic")
        kinds = set(c[10 + 2 * k + 1] for k in range(int(c[9])))
        if "2" in kinds: out.append("has-child-parent")
        if "1" in kinds: out.append("has-child")
    except Exception:
        out.append("unparsed")
    return out


def fact_commit_wait(repo):
    """commitBatch: the Commit loop is after the `commitSeq != batchSeq` wait, inside seqMu"""
    src = open(repo + "/pipeline/batch.go").read()
    m = re.search(r"func \(b \*Batcher\) commitBatch.*?\n}\n", src, re.S)
    if not m:
        return False, "commitBatch not found"
    body = m.group(0)
    order = [body.find("b.seqMu.Lock()"), body.find("for b.commitSeq != batchSeq"), body.find("b.commitSeq++"),
             body.find("b.opts.Controller.Commit("), body.find("b.freeBatches <- batch"), body.find("b.seqMu.Unlock()")]
    if -1 in order or order != sorted(order):
        return False, "statement order in commitBatch changed: %r" % (order,)
    return True, ""


def fact_update_status(repo):
    """updateStatus: the readiness condition the model's `readiness` mirrors"""
    src = open(repo + "/pipeline/batch.go").read()
    want = "case (b.maxSizeCount != 0 && l >= b.maxSizeCount) || (b.maxSizeBytes != 0 && b.maxSizeBytes <= b.eventsSize):"
    want2 = "case l > 0 && time.Since(b.startTime) > b.timeout:"
    if want not in src or want2 not in src:
        return False, "updateStatus conditions differ from the modelled text"
    return True, ""


CFG = {
    "manifest": {
        "text": "Proof: Lean theorems (Props/C08.lean) over the transition-system model of pipeline/batch.go (every op list = every interleaving of adders, heartbeat, workers, Stop; any worker count and limits): size_bounds, staleness (logical ticks), commit_in_seq_order, commit_after_own_send, committed_prefix, child_parent_skipped, stop_never_panics, stop_commits_only_sent; StopSafe for the unlock-before-send shape is refuted by a proved counterexample (the defect that was fixed). The model is tied to the real Batcher by replaying boundary traces of gated real runs through step? on every run.",
        "note": "Trusted: Lean kernel + standard axioms; fdmodel compilation; harness and gates; Go mutex/cond/channel semantics; atomicity granularity = the code's own critical sections. Real-time clauses (100 ms heartbeat, scheduling slack) are assumptions; time is logical in the theorems.",
        "technique": "Lean 4 inductive invariant / refinement to a FIFO over op lists + trace correspondence on the real pipeline.Batcher with gate points",
    },
    "props_modules": ["FileD.Props.C08"],
    "trace": True,
    "nontrivial": c08_nontrivial,
    "classify": c08_classify,
    "facts": [("commitBatch: Commit inside seqMu after the commitSeq wait", fact_commit_wait),
              ("updateStatus readiness conditions", fact_update_status)],
    "rule": "small scope first (workers 1..4 x count 1..5 x byte limits, 1-12 events), then random configurations: workers 1..4, count 0..5, bytes 0..64, event sizes 0..40, kind mixes (regular / child / child-parent, parent-only batches), 1-3 concurrent adders, PRNG order of Add / OutFn release / commit-gate release, Stop at a PRNG position (2/3 of them inside the b.enqueue gate window), 3% with a 3 ms flush timeout and traffic pauses; distinct = distinct case line; non-trivial = at least one batch sealed and committed",
    "corr_name": "Batcher.step? accepts the observed boundary trace and computes the same seq/status/ForEach ids/commit ids",
    "trusted_base": [
        "Go runtime semantics of sync.Mutex, sync.Cond, channels (modelled, not verified); one model op per critical section of batch.go",
        "the two time.Now() reads of one Add/heartbeat critical section (reset, updateStatus) are two logical times t0, now of the op",
        "trace points b.add/b.seal/b.commit/b.hb/b.stop are inside the lock that serialises the step; OutFn entry/exit is logged by the harness outside any lock and only touches its own batch in the model",
    ],
    "assumptions": ["heartbeat period (100 ms) and scheduler slack are real-time assumptions; staleness is proved in logical ticks and observed in heartbeat ticks (flushed and committed within 5 heartbeat iterations after the last Add)",
                    "weak fairness of the Go scheduler"],
    "chunk": 400,
    "timeout": 1200,
    "widen_seeds": 1,
    "widen_cases": 800,
}
