"""C08 check configuration (see checks/props.py for the meaning of the keys)."""
import re


def _toks(i):
    return i


def c08_nontrivial(c, i):
    if c[0] == "c08.stopstress":
        return True
    # at least one batch went through seal and commit
    return "s" in i and "cb" in i


def c08_classify(c, i):
    out = []
    if c[0] == "c08.stopstress":
        return ["stop-stress(gate-free)", "stress-adders=" + c[2], "stress-workers=" + c[3], "stress-result=" + (i[0] if i else "?")]
    if c[0] == "c08.hbperiod":
        return ["heartbeat-period", "hb-timeout=%sms" % c[2], "hb-iterations=%d" % sum(1 for t in i if t == "h")]
    if c[0] == "c08.trickle":
        out = ["trickle", "trickle-timeout=%sms" % c[2], "trickle-gap=%sms" % c[3]]
        sizes = [c[7 + 2 * k] for k in range(int(c[6]))]
        if sizes and sizes[0] == "0": out.append("trickle-starts-with-zero-size")
        if "h" in i: out.append("heartbeat-seen")
        for j, t in enumerate(i):
            if t == "s" and j + 2 < len(i) and i[j + 2] == "2":
                out.append("sealed-by-timeout"); break
        return out
    try:
        workers, count, nbytes, tmode, adders, stop_at, race = c[1], c[2], c[3], c[4], c[5], c[7], c[8]
        out.append("workers=" + workers)
        out.append("limit=" + ("count" if nbytes == "0" else "bytes" if count == "0" else "both"))
        out.append("timeout=" + ("3ms" if tmode == "1" else "off"))
        out.append("adders=" + adders)
        if stop_at != "-1":
            out.append("stop=" + ("race-window" if race == "1" else "plain"))
        nb = sum(1 for t in i if t == "s")
        out.append("batches=" + ("0" if nb == 0 else "1-3" if nb < 4 else "4-9" if nb < 10 else "10+"))
        if "h" in i: out.append("heartbeat-seen")
        # timeout-sealed batch: token group `s <k> 2`
        for j, t in enumerate(i):
            if t == "s" and j + 2 < len(i) and i[j + 2] == "2":
                out.append("sealed-by-timeout"); break
        if "w" in i: out.append("idle-flush-awaited")
        # out-of-order completion: some `d k` logged before `d j`, j < k
        ds = [int(i[j + 1]) for j, t in enumerate(i) if t == "d" and j + 1 < len(i) and i[j + 1].isdigit()]
        if any(ds[a] > ds[a + 1] for a in range(len(ds) - 1)): out.append("sends-finish-out-of-order")
        if any(t.startswith("panic:") for t in i): out.append("panic")
        kinds = set(c[10 + 2 * k + 1] for k in range(int(c[9])))
        if "2" in kinds: out.append("has-child-parent")
        if "1" in kinds: out.append("has-child")
    except Exception:
        out.append("unparsed")
    return out


def fact_commit_wait(repo):
    """commitBatch: the Commit loop is after the `commitSeq != batchSeq` wait, inside seqMu"""
    src = open(repo + "/pipeline/batch.go").read()
    m = re.search(r"func \(b \*Batcher\) commitBatch.*?\n}\n", src, re.S)
    if not m:
        return False, "commitBatch not found"
    body = m.group(0)
    order = [body.find("b.seqMu.Lock()"), body.find("for b.commitSeq != batchSeq"), body.find("b.commitSeq++"),
             body.find("b.opts.Controller.Commit("), body.find("b.freeBatches <- batch"), body.find("b.seqMu.Unlock()")]
    if -1 in order or order != sorted(order):
        return False, "statement order in commitBatch changed: %r" % (order,)
    return True, ""


def fact_send_before_unlock(repo):
    """trySendBatchAndUnlock: on the sealing path the channel send precedes mu.Unlock (the model's `enqueueLocked` shape);
    otherwise Stop can close fullBatches between the two (stop_safe_counterexample)"""
    src = open(repo + "/pipeline/batch.go").read()
    m = re.search(r"func \(b \*Batcher\) trySendBatchAndUnlock\(.*?\n}\n", src, re.S)
    if not m:
        return False, "trySendBatchAndUnlock not found"
    body = re.sub(r"//[^\n]*", "", m.group(0))
    seal = body.find("batch.seq = b.outSeq")
    if seal < 0:
        return False, "sealing path (batch.seq = b.outSeq) not found"
    tail = body[seal:]
    sends = [x.start() for x in re.finditer(r"b\.fullBatches\s*<-", tail)]
    unlocks = [x.start() for x in re.finditer(r"b\.mu\.Unlock\(\)", tail)]
    if len(sends) != 1 or len(unlocks) != 1:
        return False, "expected exactly one channel send and one Unlock after the seal, found %d / %d" % (len(sends), len(unlocks))
    if "defer" in tail or "go func" in tail or re.search(r"\bgo\s", tail):
        return False, "defer / goroutine on the sealing path: order of send and Unlock cannot be read off the text"
    if sends[0] > unlocks[0]:
        return False, "b.mu.Unlock() precedes `b.fullBatches <- batch`: Stop can close the channel in between (send on closed channel)"
    return True, ""


def fact_batch_pool(repo):
    """NewBatcher: freeBatches and fullBatches both have capacity opts.Workers and exactly opts.Workers batches are
    created into freeBatches (the model's `init.free = workers`; with `batch_pool_conserved` the send under b.mu has room)"""
    src = open(repo + "/pipeline/batch.go").read()
    m = re.search(r"func NewBatcher\(.*?\n}\n", src, re.S)
    if not m:
        return False, "NewBatcher not found"
    body = re.sub(r"//[^\n]*", "", m.group(0))
    if not re.search(r"freeBatches\s*:=\s*make\(chan \*Batch,\s*opts\.Workers\)", body):
        return False, "freeBatches capacity is not opts.Workers"
    if not re.search(r"fullBatches\s*:=\s*make\(chan \*Batch,\s*opts\.Workers\)", body):
        return False, "fullBatches capacity is not opts.Workers"
    if not re.search(r"for i := 0; i < opts\.Workers; i\+\+ \{\s*freeBatches <- newBatch\(", body):
        return False, "NewBatcher no longer creates exactly opts.Workers batches"
    if len(re.findall(r"newBatch\(", src)) != 2:  # the definition and the one call in NewBatcher
        return False, "newBatch is called outside NewBatcher's loop"
    return True, ""


def fact_append_keeps_start(repo):
    """Batch.append does not touch startTime (model: add_keeps_start); the flush timer starts in reset()"""
    src = open(repo + "/pipeline/batch.go").read()
    m = re.search(r"func \(b \*Batch\) append\(.*?\n}\n", src, re.S)
    if not m:
        return False, "Batch.append not found"
    if "startTime" in re.sub(r"//[^\n]*", "", m.group(0)):
        return False, "Batch.append writes startTime: an append can restart the flush timer"
    return True, ""


def fact_heartbeat_period(repo):
    """heartbeat: the sleep between two re-evaluations is the constant 100 ms (the H of the bound timeout + H)"""
    src = open(repo + "/pipeline/batch.go").read()
    m = re.search(r"func \(b \*Batcher\) heartbeat\(\) \{.*?\n}\n", src, re.S)
    if not m:
        return False, "heartbeat not found"
    body = re.sub(r"//[^\n]*", "", m.group(0))
    sleeps = re.findall(r"time\.Sleep\(([^\n]*)\)\s*\n", body)
    ok = {"time.Millisecond * 100", "100 * time.Millisecond", "time.Millisecond*100", "100*time.Millisecond"}
    if len(sleeps) != 1 or sleeps[0].strip() not in ok:
        return False, "heartbeat sleeps %r between re-evaluations, expected the constant 100 ms" % (sleeps,)
    return True, ""


def fact_update_status(repo):
    """updateStatus: the readiness condition the model's `readiness` mirrors"""
    src = open(repo + "/pipeline/batch.go").read()
    want = "case (b.maxSizeCount != 0 && l >= b.maxSizeCount) || (b.maxSizeBytes != 0 && b.maxSizeBytes <= b.eventsSize):"
    want2 = "case l > 0 && time.Since(b.startTime) > b.timeout:"
    if want not in src or want2 not in src:
        return False, "updateStatus conditions differ from the modelled text"
    return True, ""


CFG = {
    "manifest": {
        "text": "Proof: Lean theorems (Props/C08.lean) over the transition-system model of pipeline/batch.go (every op list = every interleaving of adders, heartbeat, workers, Stop; any worker count and limits): size_bounds, staleness (logical ticks), commit_in_seq_order, commit_after_own_send, committed_prefix, child_parent_skipped, stop_never_panics, stop_commits_only_sent; StopSafe for the unlock-before-send shape is refuted by a proved counterexample (the defect that was fixed). The model is tied to the real Batcher by replaying boundary traces of gated real runs through step? on every run.",
        "note": "Trusted: Lean kernel + standard axioms; fdmodel compilation; harness and gates; Go mutex/cond/channel semantics; atomicity granularity = the code's own critical sections. Real-time clauses (100 ms heartbeat, scheduling slack) are assumptions; time is logical in the theorems.",
        "technique": "Lean 4 inductive invariant / refinement to a FIFO over op lists + trace correspondence on the real pipeline.Batcher with gate points",
    },
    "props_modules": ["FileD.Props.C08"],
    "trace": True,
    "nontrivial": c08_nontrivial,
    "classify": c08_classify,
    "facts": [("commitBatch: Commit inside seqMu after the commitSeq wait", fact_commit_wait),
              ("updateStatus readiness conditions", fact_update_status),
              ("trySendBatchAndUnlock: channel send precedes mu.Unlock", fact_send_before_unlock),
              ("Batch.append leaves startTime alone", fact_append_keeps_start),
              ("NewBatcher: both channels have capacity Workers, exactly Workers batches exist", fact_batch_pool),
              ("heartbeat period is the constant 100 ms", fact_heartbeat_period)],
    "rule": "gate-free Stop stress first (6 x 150 rounds of 4-8 concurrent adders, count 1, 2-4 workers, Stop mid-traffic; result ok | panic | unsent-commit), 3 heartbeat-period cases (FlushTimeout 0.6 s .. 1 h, reference clock ticks `k` in the trace: never more than 4 clock ticks without a heartbeat iteration), 5 slow trickles (gap = 1/3..1/5 of a 120-200 ms flush timeout, count limit 1000, zero-size / child / sized events first-last-mixed; oracle = at most timeout/100+4 heartbeat iterations between an event's own append and the seal of its batch), then small scope (workers 1..4 x count 1..5 x byte limits, 1-12 events), then random configurations: workers 1..4, count 0..5, bytes 0..64, event sizes 0..40, kind mixes (regular / child / child-parent, parent-only batches), 1-3 concurrent adders, PRNG order of Add / OutFn release / commit-gate release, Stop at a PRNG position (2/3 of them inside the b.enqueue gate window), 3% with a 3 ms flush timeout and traffic pauses; distinct = distinct case line; non-trivial = at least one batch sealed and committed",
    "corr_name": "Batcher.step? accepts the observed boundary trace and computes the same seq/status/ForEach ids/commit ids",
    "trusted_base": [
        "Go runtime semantics of sync.Mutex, sync.Cond, channels (modelled, not verified); one model op per critical section of batch.go",
        "the two time.Now() reads of one Add/heartbeat critical section (reset, updateStatus) are two logical times t0, now of the op",
        "trace points b.add/b.seal/b.commit/b.hb/b.stop are inside the lock that serialises the step; OutFn entry/exit is logged by the harness outside any lock and only touches its own batch in the model",
    ],
    "assumptions": ["heartbeat period (100 ms) and scheduler slack are real-time assumptions; staleness is proved in logical ticks and observed in heartbeat ticks (flushed and committed within 5 heartbeat iterations after the last Add)",
                    "weak fairness of the Go scheduler"],
    "chunk": 400,
    "timeout": 1200,
    "widen_seeds": 2,
    "widen_cases": 400,
}
