"""C03 check configuration (see checks/props.py for the meaning of the keys)."""


def _tail(toks):
    """the `lost n (id cls)…` summary at the end of a result"""
    for k in range(len(toks) - 1, -1, -1):
        if toks[k] == "lost":
            try:
                n = int(toks[k + 1])
                ent = [(int(toks[k + 2 + 2 * j]), int(toks[k + 3 + 2 * j])) for j in range(n)]
                return ent
            except (ValueError, IndexError):
                return None
    return None


def _steps(c):
    """step tokens of a case line (after the line table)"""
    try:
        n = int(c[6])
        k = 7 + 3 * n
        return c[k + 1:]
    except (ValueError, IndexError):
        return []


def c03_nontrivial(c, i):
    if i == ["bad-harness"]:
        return False
    # a kill happened and file.d read something after the restart or skipped past saved offsets
    return "crash" in i and "idle" in i and ("in" in i)


def c03_classify(c, i):
    out = []
    if i == ["bad-harness"]:
        return ["not-evaluated:bad-harness"]
    if len(c) > 5:
        out.append("mode=" + ("sync" if c[1] == "s" else "async"))
        out.append("kill=" + {"x": "at-step", "e": "after-record-k", "t": "timed"}.get(c[5][:1], "?"))
    st = _steps(c)
    nfiles = sum(1 for t in st if t == "C") + sum(1 for t in st if t == "R")
    out.append("files=%d" % min(nfiles, 5))
    try:
        n = int(c[6])
        streams = {c[8 + 3 * k] for k in range(n)}
        out.append("streams=%d" % len(streams))
        out.append("lines=" + ("1-9" if n < 10 else "10-29" if n < 30 else "30+"))
    except (ValueError, IndexError):
        pass
    if "R" in st: out.append("rename-rotation")
    if "T" in st: out.append("truncation")
    if "reuse" in i: out.append("inode-reuse-late-file")
    if "away" in i: out.append("file-leaves-directory")
    if "gone" in i: out.append("job-released")
    if "saved" in i: out.append("offsets-saved-at-kill")
    if "0" in [i[k + 3] for k in range(len(i) - 3) if i[k] == "in"]: out.append("skip-on-resume")
    if "died" in i: out.append("died")
    if "stuck" in i: out.append("stuck")
    t = _tail(i)
    if t is None: out.append("no-summary")
    elif not t: out.append("lost=0")
    else: out.append("lost:" + ("unlisted-stream" if all(c == 0 for _, c in t) else "other"))
    return out


def _case(c):
    """(table {id: (stream, bytes)}, steps [(op, args…)]) of a case line"""
    n = int(c[6]); k = 7
    table = {}
    for _ in range(n):
        table[int(c[k])] = (c[k + 1], bytes.fromhex(c[k + 2]) if c[k + 2] != "-" else b"")
        k += 3
    ns = int(c[k]); k += 1
    steps = []
    while k < len(c):
        op = c[k]
        if op in ("C", "T"): steps.append((op, int(c[k + 1]))); k += 2
        elif op == "A": steps.append((op, int(c[k + 1]), bytes.fromhex(c[k + 2]) if c[k + 2] != "-" else b"")); k += 3
        elif op == "R": steps.append((op, int(c[k + 1]), int(c[k + 2]))); k += 3
        elif op == "K": steps.append((op, int(c[k + 1]))); k += 2
        elif op in ("O", "D", "MV"): steps.append((op, int(c[k + 1]))); k += 2
        elif op == "DS": steps.append((op, int(c[k + 1]), bytes.fromhex(c[k + 2]) if c[k + 2] != "-" else b"")); k += 3
        elif op == "RO": steps.append((op, int(c[k + 1]), int(c[k + 2]))); k += 3
        else: steps.append((op,)); k += 1
    return table, steps


def _explain(c, i, m):
    """per lost line the recorded finding that explains it: 'unlisted' (its stream is absent from the
    offsets saved for its never-truncated file at the kill, and it lies before the minimum saved offset),
    'trunc' (written after the truncation of a file that carried two or more streams), or None.
    Returns None when the summary is missing or the Lean oracle computed a different one."""
    ti, tm = _tail(i), _tail(m)
    if ti is None or ti != tm or "stuck" in i or any(t.startswith("saved-") for t in i):
        return None
    # a recorded finding only excuses a trace the model itself reproduces step by step
    if m and m[0].startswith("reject@"):
        return None
    try:
        table, steps = _case(c)
    except (ValueError, IndexError):
        return None
    before, after, truncated = {}, {}, set()
    for st in steps:
        if st[0] == "T":
            truncated.add(st[1])
        elif st[0] == "A":
            (after if st[1] in truncated else before).setdefault(st[1], bytearray()).extend(st[2])
    multi = set()
    for f in truncated:
        streams = {s for (s, d) in table.values() if d and d in bytes(before.get(f, b""))}
        if len(streams) >= 2:
            multi.add(f)
    post_multi = b"".join(bytes(after.get(f, b"")) for f in multi)
    in_truncated = b"".join(bytes(before.get(f, b"")) + bytes(after.get(f, b"")) for f in truncated)
    out = []
    for lid, cls in ti:
        if lid not in table:
            out.append(None)
        elif table[lid][1] in post_multi:
            out.append("trunc")
        elif cls == 0 and table[lid][1] not in in_truncated:
            out.append("unlisted")
        else:
            out.append(None)
    return out, multi


def sig_unlisted_stream(c, i, m, k):
    """at least one lost line is an un-acked line of a stream absent from the saved offsets of its file,
    every lost line is explained by a recorded finding, the process did not die"""
    r = _explain(c, i, m)
    if r is None or "died" in i:
        return False
    ex, _ = r
    return bool(ex) and all(ex) and "unlisted" in ex


def sig_trunc_multistream(c, i, m, k):
    """a file carrying two or more streams was truncated while file.d was up; at least one lost line was
    written to it after the truncation (or the process hit the offset-corruption panic after it); every
    lost line is explained by a recorded finding"""
    r = _explain(c, i, m)
    if r is None:
        return False
    ex, multi = r
    if not multi or not all(ex):
        return False
    if "died" in i:
        return "trunc" in i and i.index("trunc") < i.index("died")
    return "trunc" in ex


CFG = {
    "manifest": {
        "text": "Proof: Lean theorems (Props/C03.lean) over the transition system Model/FileRestart (files, jobs, per-stream committed offsets, offsets file, in-flight events; ops append / rename-rotate / truncate / readTurn (the C06 worker model) / deliver / ack / commit / save / crash / restart): no_loss_partial (every admitted complete line is acked in some run or handed to the output after the restart, for every history without truncation in which at each crash every stream of a file with an un-acked line has an entry in the saved offsets; includes lines appended and files renamed while down), no_loss_single_stream, no_false_skip; for single-stream pipelines truncation_restart (detection puts the job back to 0, commits of all events in flight are ignored) and truncation_delivery (every line written after a detected truncation is delivered); release_after_all_read (maintenance releases a job only when nothing is unread on its descriptor); late_discovery_from_zero / late_file_read_from_start (a file found after the start phase is read from 0 whatever the loaded offsets say); the full statements NoLoss / TruncationRestartAnyStreams with no_loss_counterexample (a1 b2 a3) and truncation_multistream_counterexample. Tie: the real file.Plugin + pipeline run in child processes that are SIGKILLed and restarted; the observed boundary trace (PassEvent results, output hand-offs, acks, commits, offsets file at the kill) is replayed through the model's step relation on every run.",
        "note": "Known finding on the unchanged tree: with several streams in one file an un-acked line of a stream that has no entry in the saved offsets is skipped on restart (witness in corpus/C03). Trusted: Lean kernel + standard axioms; fdmodel compilation; the harness; OS semantics of rename/inode identity and of SIGKILL (page cache survives); per-stream in-order acknowledgement by the output (C02). Assumed, not proved: the pipeline hands every event it accepted to the output (C04).",
        "technique": "Lean 4 proof (inductive invariant over all op sequences, composed with the C06 reader model) + process-level trace correspondence (kill -9 / restart of the real plugin)",
    },
    "props_modules": ["FileD.Props.C03"],
    "nontrivial": c03_nontrivial,
    "classify": c03_classify,
    "signatures": {"c03_unlisted_stream": sig_unlisted_stream, "c03_trunc_multistream": sig_trunc_multistream},
    "trace": True,
    "rule": "histories from one PRNG: 1-3 files (plus files created by rename rotation and new files while down), 1-3 stream values, appends with lines split between writes, acks chosen per (file, stream) head, waits for an offsets save, kill at a step / after the k-th boundary record / at a PRNG instant, downtime appends + rename rotations, restart until idle; dedicated truncation scenarios; lines written in several writes with the job idle over maintenance passes in between; late files whose inode number equals a stale offsets entry (inode reuse arranged on the scratch filesystem, else not evaluated); files that leave the watched directory right after an append (moved out with/without a new file under the old name, unlinked); async and sync persistence; 1-3 workers, read buffers 16/64/4096, 1-4 processors. distinct = distinct case line; non-trivial = a kill happened, the second run reached idle and the input offered at least one event",
    "corr_name": "FileRestart.step? replay = observed boundary trace of file.Plugin + pipeline (PassEvent results, SeqIDs, hand-offs, commits, offsets file at the kill, idleness)",
    "trusted_base": [
        "OS: rename keeps the inode, a new file gets a fresh inode within one case, SIGKILL loses no written page",
        "the harness output acknowledges the events of one (source, stream) in the order it received them (what C02 proves for real outputs)",
        "modelled, not verified: notify/maintenance timing (only their effect: a job exists / is resumed), lz4 files, symlinks, remove_after",
    ],
    "assumptions": [
        "no truncation (the documented limit of the guarantee); truncation scenarios are checked separately: detection, restart from 0, delivery of everything written afterwards",
        "the pipeline hands every accepted event to the output while the output keeps acknowledging (C04)",
        "stream offsets < 2^63",
    ],
    "timeout": 1500,
    "chunk": 400,
    "widen_seeds": 2,
    "widen_cases": 500,
}
