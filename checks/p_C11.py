"""C11 check configuration (see checks/props.py for the meaning of the keys)."""


def _reqs(c):
    """parse the case tokens: [(gz, trans_tokens, hdrerr, dec_tokens)], conc, es"""
    es, conc, n = c[1], c[2], int(c[3])
    k, out = 4, []
    for _ in range(n):
        gz = c[k]; k += 1
        nt = int(c[k]); k += 1
        trans = c[k:k + nt]; k += nt
        he, dec = "0", []
        if gz == "1":
            he = c[k]; k += 1
            k += 1  # <ended>: did the gzip reader consume the whole transport stream
            nd = int(c[k]); k += 1
            dec = c[k:k + nd]; k += nd
        out.append((gz, trans, he, dec))
    return es, conc, out


def c11_nontrivial(c, i):
    # at least one In call observed
    return any(t.startswith("i:") for t in i)


def c11_classify(c, i):
    out = []
    try:
        es, conc, reqs = _reqs(c)
    except (ValueError, IndexError):
        return ["unparsed"]
    out.append("endpoint=" + ("es/_bulk" if es == "1" else "plain"))
    out.append("requests=" + ("1" if len(reqs) == 1 else ("concurrent" if conc == "1" else "scheduled-overlap" if conc == "2" else "sequential")))
    if conc == "2":
        n = len(reqs)
        # the schedule is the tail of the case line: <nsched> then that many tokens
        k = len(c) - 1
        # find <nsched>: the schedule tokens are all numbers <= 2n; walk back
        toks = []
        while k >= 0 and c[k].isdigit():
            toks.append(int(c[k])); k -= 1
        toks.reverse()
        # toks = [... <nsched> s1 .. sm]; locate nsched such that it equals the number of following tokens
        for j in range(len(toks)):
            if toks[j] == len(toks) - j - 1:
                sch = toks[j + 1:]
                waves = sum(1 for v in sch if v == 2 * n)
                if waves or any(n <= v < 2 * n for v in sch):
                    out.append("scheduled: wave history, waves completed=" + ("0" if waves == 0 else "1" if waves == 1 else "2+"))
                    if any(n <= v < 2 * n for v in sch):
                        out.append("scheduled: request left open across waves")
                break
        ngz = sum(1 for q in reqs if q[0] == "1" and q[2] == "0")
        out.append("scheduled: gzip requests overlapping=" + ("2+" if ngz >= 2 else str(ngz)))
        if any(sum(len(t) // 2 - 1 for t in (q[3] if q[0] == "1" else q[1]) if t[2:] != "-") > 16384 for q in reqs):
            out.append("scheduled: body larger than the read buffer")
    for gz, trans, he, dec in reqs:
        out.append("body=" + ("gzip" if gz == "1" else "plain"))
        reads = dec if gz == "1" else trans
        if he == "1":
            out.append("gzip-header-error")
        if gz == "1" and any(t.startswith("x:") for t in dec) and not any(t.startswith("x:") for t in trans):
            out.append("gzip-corrupt-or-truncated")
        if any(t.startswith("x:") for t in reads):
            out.append("read-error")
        if any(t == "d:-" for t in trans):
            out.append("empty-read")
        if any(t.startswith("e:") and t != "e:-" for t in reads):
            out.append("data-with-EOF")
        sizes = [len(t) // 2 - 1 for t in trans if t[2:] != "-"]
        if sizes and max(sizes) == 1 and len(sizes) > 1:
            out.append("all-1-byte-reads")
        tot = sum(sizes)
        out.append("bytes=" + ("0" if tot == 0 else "1-8" if tot <= 8 else "9-1K" if tot <= 1024 else "1K-16K" if tot <= 16384 else "16K+"))
    codes = [t for t in i if t.startswith("r:")]
    for t in set(codes):
        out.append("status=" + t[2:])
    if any(t == "i:-" for t in i):
        out.append("empty-line-event")
    if any(t.startswith("i:") and t.endswith("0d") for t in i):
        out.append("CR-kept-in-event")
    if any(t.startswith("i:") and len(t) > 2 + 2 * 16384 for t in i):
        out.append("line-longer-than-read-buffer")
    return out


CFG = {
    "manifest": {
        "text": "Proof: Lean theorems (Props/C11.lean) state that the model of serveBulk/processBulk/processChunk hands over exactly splitLines(body) for every body and every sequence of read results (any partition, empty reads, data+EOF), that the single response is the last action and is a 200 only if no read failed, that this is literally the oracle the check applies (http_holds), that the source-id free list never gives one id to two requests in flight and that under any interleaving a request's events are a function of its own reads; the model is tied to the real plugin by driving its public ServeHTTP with a recording controller on exhaustive small bodies x all chunkings and random plain/gzip/failing/sequential/concurrent requests on every run.",
        "note": "Trusted: Lean kernel + the three standard axioms; fdmodel compilation; harness; gzip (klauspost) as an oracle parameter recomputed by exec; net/http delivers the body to ServeHTTP as an io.Reader. Assumed, not proved: exclusive ownership of sync.Pool buffers between Get and Put, p.mu makes get/putSourceID atomic.",
        "technique": "Lean 4 proof (induction over reads, refinement to splitLines; invariant over interleavings) + differential correspondence through the plugin's public handler",
    },
    "props_modules": ["FileD.Props.C11"],
    "nontrivial": c11_nontrivial,
    "classify": c11_classify,
    "rule": "exhaustive bodies over {a,\\n,\\r} up to length 6 (quick) / 8 (thorough) x every chunking into non-empty reads; bodies up to length 4 additionally with an empty read / a read error at every position, data+EOF, gzip in 1-byte and single reads; random plain/gzip bodies up to ~100 KiB (lines around AvgEventSize and around the 16 KiB read buffer, CRLF, no trailing newline) x random chunkings, truncated/corrupted/multi-member gzip, transport errors; sequences of 2-6 requests on one plugin; 2-16 concurrent requests with distinct alphabets; 2-4 requests (mostly gzip, bodies up to ~75 KB) advanced park point by park point (every body Read and every In) in a generated order on one P (blocks / alternation / random walk); histories of 2-4 waves of 2-4 overlapping requests on one plugin instance (a wave completes before the next starts, or one request stays open into the next wave). distinct = distinct case line; non-trivial = the real plugin made at least one In call",
    "corr_name": "HttpBulk.serve = (*Plugin).ServeHTTP (In payloads and response status in order, per request; source ids)",
    "trusted_base": [
        "gzip: the decompressed read results are an oracle parameter computed with the plugin's gzip library on the same transport reads (exec recomputes and rejects a case line that disagrees)",
        "In calls are attributed to requests by the goroutine that makes them (ServeHTTP calls In synchronously)",
        "modelled, not verified: sync.Pool hands a buffer to one goroutine at a time; p.mu serialises getSourceID/putSourceID",
    ],
    "assumptions": [
        "net/http hands ServeHTTP a request body that is an io.Reader; whatever partition into reads it produces is covered (theorems quantify over all read sequences)",
        "a 200 is 'sent' when the handler first writes (WriteHeader/Write) or returns without writing; delivery to the client is net/http's",
    ],
    "chunk": 4000,
}
