"""C20 check configuration (see checks/props.py for the meaning of the keys)."""


def _spam_ops(c):
    """(header dict, list of op token lists) of a c20.spam case"""
    i = 5
    ne = int(c[i]); i += 1 + ne
    nr = int(c[i]); rthr = c[i + 1:i + 1 + nr]; i += 1 + nr
    i += 1  # defs
    n = int(c[i]); i += 1
    ops = []
    while i < len(c) and len(ops) < n:
        if c[i] == "m":
            ops.append(["m"]); i += 1
        else:
            ops.append(c[i:i + 9]); i += 9
    return {"thr": c[1], "unban": c[2], "interval": c[3], "rulesNil": c[4], "nexc": ne, "rthr": rthr}, ops


def _spam_answers(i):
    """(IsSpam answers, number of maintenance rounds, negative counter seen) of a c20.spam result"""
    ans, rounds, neg, k = [], 0, False, 0
    while k < len(i):
        t = i[k]
        if t in ("B", "A", "D"):
            n = int(i[k + 1])
            if t == "B": rounds += 1
            neg = neg or any(x.startswith("-") for x in i[k + 3:k + 2 + 2 * n:2])
            k += 2 + 2 * n
        else:
            ans.append(t); k += 1
    return ans, rounds, neg


def c20_nontrivial(c, i):
    if c[0] == "c20.spam":
        # some IsSpam call answered true and some maintenance round ran
        ans, rounds, _ = _spam_answers(i)
        return "1" in ans and rounds > 0
    if c[0] == "c20.in":
        return "d" in i and "r" in i
    return False


def c20_classify(c, i):
    out = [c[0]]
    try:
        if c[0] == "c20.spam":
            h, ops = _spam_ops(c)
            thr = int(h["thr"])
            out.append("spam.thr=" + ("-1" if thr == -1 else "0" if thr == 0 else "1-6" if 1 <= thr <= 6 else "extreme"))
            out.append("spam.unban=" + (h["unban"] if h["unban"] in ("0", "1", "2", "3", "4") else "extreme"))
            out.append("spam.rules=" + ("nil" if h["rulesNil"] == "1" else str(len(h["rthr"]))))
            out.append("spam.exceptions=" + str(h["nexc"]))
            if h["interval"] != "1000000000": out.append("spam.interval-odd")
            nm = sum(1 for o in ops if o[0] == "m")
            ne = len(ops) - nm
            out.append("spam.events=" + ("0" if ne == 0 else "1-8" if ne <= 8 else "9-40" if ne <= 40 else "41+"))
            out.append("spam.maint=" + ("0" if nm == 0 else "1-4" if nm <= 4 else "5+"))
            ids = {o[1] for o in ops if o[0] == "e"}
            out.append("spam.sources=" + str(len(ids)))
            if any(o[0] == "e" and o[3] == "1" for o in ops): out.append("spam.isNew")
            ans, rounds, neg = _spam_answers(i)
            if "1" in ans: out.append("spam.some-true")
            if neg: out.append("spam.negative-counter")
            if any("1" in o[7] for o in ops if o[0] == "e" and o[7] != "-"): out.append("spam.exception-hit")
            if any("1" in o[8] for o in ops if o[0] == "e" and o[8] != "-"): out.append("spam.rule-hit")
        elif c[0] == "c20.in":
            mx, cut, fld, dec, thr = c[1], c[2], c[3], c[4], c[5]
            out.append("in.mode=" + ("unlimited" if mx == "0" else ("cut" if cut == "1" else "refuse")))
            out.append("in.decoder=" + ("json" if dec == "j" else "raw"))
            out.append("in.antispam=" + ("off" if int(thr) < 0 else "thr" + thr))
            if fld != "-": out.append("in.cutfield")
            if c[7] != "-": out.append("in.source_name_meta_field")
            nd = sum(1 for t in i if t == "d"); nr = sum(1 for t in i if t == "r")
            out.append("in.delivered=" + ("0" if nd == 0 else "1-9" if nd < 10 else "10+"))
            out.append("in.refused=" + ("0" if nr == 0 else "1-9" if nr < 10 else "10+"))
        if i and i[0].startswith("panic"): out.append("panic")
    except Exception:
        out.append("unclassified")
    return out


def _kinds(p):
    return set(p.split(":", 1)[1].split(",")) if p.startswith("fail:") else set()


def sig_residue(c, i, m, rec, p):
    # every miss of the literal ban clause in this case is of a recorded kind, one of them the residue
    return c[0] == "c20.spam" and "residue" in _kinds(p)


def sig_mixed(c, i, m, rec, p):
    return c[0] == "c20.spam" and "mixed" in _kinds(p)


CFG = {
    "manifest": {
        "text": "Proof: Lean theorems (Props/C20.lean) about executable models of Pipeline.checkInputBytes / Pipeline.In (json and raw decoders) and of antispam.IsSpam / Maintenance: a record is refused only for the listed reasons, a cut record is exactly its first max bytes (+ newline), records within the limit reach the decoder unchanged, a disabled antispam / a matching exception never drops, a true IsSpam answer needs threshold counted events since the last maintenance round or a ban standing when that round ran (ban_needs_threshold; strict reading proved when the round left no residue, ban_needs_threshold_strict_partial), a silent source is at counter 0 after unbanIterations+1 rounds - for every interleaving of events and maintenance rounds and arbitrary event times. The literal ban clause of the property (not banned after the previous round => at least threshold events since it) is false of the code in two recorded ways (counter residue after unban; per-source counter under per-rule thresholds): full statements + proved counterexamples in Props, witnesses in corpus/C20, known_findings.jsonl. The property oracle evaluates the literal clause on the implementation's answers and counters; every miss that is not of the two recorded kinds is a VIOLATION. The models are tied to the real Pipeline.In (harness input plugin, devnull output) and the real Antispammer on every run.",
        "note": "Trusted: Lean kernel + the three standard axioms; fdmodel compilation; harness; oracle parameters (insane-json decoding, matchrule.RuleSet.Match, doif.Checker.Check, PassEvent) are evaluated by the harness and universally quantified in the theorems; hook pipeline/antispam/export_verif_c20.go (VerifCounters: all source counters before/after a round). Not modelled: CRI and the other decoders, concurrent IsSpam callers (the atomics are modelled sequentially), metrics, event pool.",
        "technique": "Lean 4 proof (case analysis of In; inductive invariant over event/maintenance op lists) + differential correspondence against Pipeline.In and antispam.Antispammer",
    },
    "props_modules": ["FileD.Props.C20"],
    "nontrivial": c20_nontrivial,
    "classify": c20_classify,
    "rule": "c20.spam: every sequence over {event inside the interval, event a whole interval later, isNewSource event, maintenance} up to length 7 (quick) / 8 (thorough) for one source under small (threshold, unbanIterations) pairs, then random multi-source sequences (thresholds 1..6, rule lists with thresholds -1/0/1..6, exceptions, PRNG arrival times incl. out-of-order and int64 extremes, maintenance at PRNG positions, int32-extreme thresholds); c20.in: every record over {a,b,\\n} up to length 5 (quick) / 7 (thorough) under limits 0..3 with and without cut-off through the raw decoder, then random JSON/raw records sized around the limit through pipelines with antispam thresholds 0..4, exceptions, source_name_meta_field, stream offsets and PassEvent answers; distinct = distinct case line; non-trivial = (spam) some IsSpam call answered true and a maintenance round ran, (in) the case has both a delivered and a refused record",
    "corr_name": "Admission.inSeq = Pipeline.In per record (refused | delivered event tree); Antispam.isSpam/maintenance/dumpAll/dump = Antispammer.IsSpam answers, all source counters before/after every Maintenance, final Dump()",
    "trusted_base": [
        "oracle parameters evaluated by the harness on the concrete input and shipped in the case line: JSON decoding (insane-json via decoder.New(JSON)), matchrule.RuleSet.Match of every exception on event bytes and on the source name, doif.Checker.Check of every rule, PassEvent; exec re-evaluates them and rejects a case line whose oracle values differ",
        "antispam counters before and after every Maintenance are read through the verif accessor Antispammer.VerifCounters (pipeline/antispam/export_verif_c20.go); the final state through the public Dump() (sources whose counter >= the default threshold)",
        "modelled, not verified: insane-json AddFieldNoAlloc/MutateTo* (first field of that name is overwritten, else appended; no-op on non-objects)",
    ],
    "assumptions": [
        "the literal ban clause is demanded by the oracle only for sources all of whose thresholds are positive and fit an int32 together with unbanIterations*threshold (otherwise the int32 conversions in IsSpam are not the identity)",
        "IsSpam / Maintenance calls are sequential (the Go code uses atomics without a common lock; interleavings inside one IsSpam call are not modelled)",
        "Go int is 64 bit and unbanIterations*threshold does not overflow it",
        "at most one meta entry per record (Go map iteration order is not modelled)",
    ],
    "signatures": {"c20_residue": sig_residue, "c20_mixed": sig_mixed},
    "chunk": 4000,
}
