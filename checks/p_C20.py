"""C20 check configuration (see checks/props.py for the meaning of the keys)."""


def _skip_rules(c, i, n):
    """skip n matchrule rules `<mode> <ci> <inv> <nVals> <value>…` starting at c[i]; returns (index, rules)"""
    rules = []
    for _ in range(n):
        nv = int(c[i + 3])
        rules.append((c[i], c[i + 1], c[i + 2], c[i + 4:i + 4 + nv]))
        i += 4 + nv
    return i, rules


def _spam_ops(c):
    """(header dict, list of op token lists) of a c20.spam case"""
    i = 5
    ne = int(c[i]); i += 1 + ne
    nr = int(c[i]); rthr = c[i + 1:i + 1 + nr]; i += 1 + nr
    i += 1  # defs
    multi = False
    for _ in range(ne):  # exception block
        k = int(c[i + 1])
        i, rules = _skip_rules(c, i + 2, k)
        multi = multi or any(len({len(v) for v in r[3]}) > 1 for r in rules)
    nl = int(c[i]); i += 1 + 2 * nl
    n = int(c[i]); i += 1
    ops = []
    while i < len(c) and len(ops) < n:
        if c[i] == "m":
            ops.append(["m"]); i += 1
        else:
            ops.append(c[i:i + 9]); i += 9
    return {"thr": c[1], "unban": c[2], "interval": c[3], "rulesNil": c[4], "nexc": ne, "rthr": rthr, "multi": multi}, ops


def _hexlen(t):
    return 0 if t == "-" else len(t) // 2


def _spam_answers(i):
    """(IsSpam answers, number of maintenance rounds, negative counter seen) of a c20.spam result"""
    ans, rounds, neg, k = [], 0, False, 0
    while k < len(i):
        t = i[k]
        if t in ("B", "A", "D"):
            n = int(i[k + 1])
            if t == "B": rounds += 1
            neg = neg or any(x.startswith("-") for x in i[k + 3:k + 2 + 2 * n:2])
            k += 2 + 2 * n
        else:
            ans.append(t); k += 1
    return ans, rounds, neg


def c20_nontrivial(c, i):
    if c[0] == "c20.spam":
        # some IsSpam call answered true and some maintenance round ran
        ans, rounds, _ = _spam_answers(i)
        return "1" in ans and rounds > 0
    if c[0] == "c20.in":
        return "d" in i and "r" in i
    if c[0] == "c20.mr":
        # some rule has values of different lengths
        _, rules = _skip_rules(c, 3, int(c[2]))
        return any(len({_hexlen(v) for v in r[3]}) > 1 for r in rules)
    return False


def c20_classify(c, i):
    out = [c[0]]
    try:
        if c[0] == "c20.spam":
            h, ops = _spam_ops(c)
            thr = int(h["thr"])
            out.append("spam.thr=" + ("-1" if thr == -1 else "0" if thr == 0 else "1-6" if 1 <= thr <= 6 else "extreme"))
            out.append("spam.unban=" + (h["unban"] if h["unban"] in ("0", "1", "2", "3", "4") else "extreme"))
            out.append("spam.rules=" + ("nil" if h["rulesNil"] == "1" else str(len(h["rthr"]))))
            out.append("spam.exceptions=" + str(h["nexc"]))
            if h["interval"] != "1000000000": out.append("spam.interval-odd")
            if h["multi"]: out.append("spam.exception-values-of-different-lengths")
            nm = sum(1 for o in ops if o[0] == "m")
            ne = len(ops) - nm
            out.append("spam.events=" + ("0" if ne == 0 else "1-8" if ne <= 8 else "9-40" if ne <= 40 else "41+"))
            out.append("spam.maint=" + ("0" if nm == 0 else "1-4" if nm <= 4 else "5+"))
            ids = {o[1] for o in ops if o[0] == "e"}
            out.append("spam.sources=" + str(len(ids)))
            if any(o[0] == "e" and o[3] == "1" for o in ops): out.append("spam.isNew")
            ans, rounds, neg = _spam_answers(i)
            if "1" in ans: out.append("spam.some-true")
            if neg: out.append("spam.negative-counter")
            if any("1" in o[7] for o in ops if o[0] == "e" and o[7] != "-"): out.append("spam.exception-hit")
            if any("1" in o[8] for o in ops if o[0] == "e" and o[8] != "-"): out.append("spam.rule-hit")
        elif c[0] == "c20.in":
            mx, cut, fld, dec, thr = c[1], c[2], c[3], c[4], c[5]
            out.append("in.mode=" + ("unlimited" if mx == "0" else ("cut" if cut == "1" else "refuse")))
            out.append("in.decoder=" + ("json" if dec == "j" else "raw"))
            out.append("in.antispam=" + ("off" if int(thr) < 0 else "thr" + thr))
            if fld != "-": out.append("in.cutfield")
            if c[7] != "-": out.append("in.source_name_meta_field")
            nd = sum(1 for t in i if t == "d"); nr = sum(1 for t in i if t == "r")
            out.append("in.delivered=" + ("0" if nd == 0 else "1-9" if nd < 10 else "10+"))
            out.append("in.refused=" + ("0" if nr == 0 else "1-9" if nr < 10 else "10+"))
        elif c[0] == "c20.mr":
            k, rules = _skip_rules(c, 3, int(c[2]))
            dl = _hexlen(c[k])
            out.append("mr.rules=" + str(len(rules)))
            out.append("mr.answer=" + (i[0] if i else "?"))
            for (mode, ci, inv, vals) in rules:
                ls = [_hexlen(v) for v in vals]
                out.append("mr.mode=" + {"0": "prefix", "1": "contains", "2": "suffix"}.get(mode, "?"))
                out.append("mr.values=" + str(len(vals)) + ("-difflen" if len(set(ls)) > 1 else ""))
                if ci == "1": out.append("mr.case_insensitive")
                if inv == "1": out.append("mr.invert")
                out.append("mr.data-vs-sizes=" + ("<min" if dl < min(ls) else "=min" if dl == min(ls) and dl < max(ls)
                                                  else "between" if dl < max(ls) else "=max" if dl == max(ls) else ">max"))
        if i and i[0].startswith("panic"): out.append("panic")
    except Exception:
        out.append("unclassified")
    return out


def _kinds(p):
    return set(p.split(":", 1)[1].split(",")) if p.startswith("fail:") else set()


def sig_residue(c, i, m, rec, p):
    # every miss of the literal ban clause in this case is of a recorded kind, one of them the residue
    return c[0] == "c20.spam" and "residue" in _kinds(p)


def sig_mixed(c, i, m, rec, p):
    return c[0] == "c20.spam" and "mixed" in _kinds(p)


CFG = {
    "manifest": {
        "text": "Proof: Lean theorems (Props/C20.lean) about executable models of Pipeline.checkInputBytes / Pipeline.In (json and raw decoders) and of antispam.IsSpam / Maintenance: a record is refused only for the listed reasons, a cut record is exactly its first max bytes (+ newline), records within the limit reach the decoder unchanged, a disabled antispam / a matching exception never drops (with 'matches' proved to be the literal reading of cfg/matchrule: some value is a prefix / suffix / substring of the data; matchrule_literal, ruleset_literal, exception_never_drops_literal), a true IsSpam answer needs threshold counted events since the last maintenance round or a ban standing when that round ran (ban_needs_threshold; strict reading proved when the round left no residue, ban_needs_threshold_strict_partial), a silent source is at counter 0 after unbanIterations+1 rounds - for every interleaving of events and maintenance rounds and arbitrary event times. The literal ban clause of the property (not banned after the previous round => at least threshold events since it) is false of the code in two recorded ways (counter residue after unban; per-source counter under per-rule thresholds): full statements + proved counterexamples in Props, witnesses in corpus/C20, known_findings.jsonl. The property oracle evaluates the literal clause on the implementation's answers and counters; every miss that is not of the two recorded kinds is a VIOLATION. The models are tied to the real Pipeline.In (harness input plugin, devnull output) and the real Antispammer on every run.",
        "note": "Trusted: Lean kernel + the three standard axioms; fdmodel compilation; harness; oracle parameters (insane-json decoding, bytes.ToLower, doif.Checker.Check, PassEvent; matchrule.RuleSet.Match only for the exceptions of c20.in) are evaluated by the harness and universally quantified in the theorems; hook pipeline/antispam/export_verif_c20.go (VerifCounters: all source counters before/after a round). Not modelled: CRI and the other decoders, concurrent IsSpam callers (the atomics are modelled sequentially), metrics, event pool.",
        "technique": "Lean 4 proof (case analysis of In; inductive invariant over event/maintenance op lists) + differential correspondence against Pipeline.In and antispam.Antispammer",
    },
    "props_modules": ["FileD.Props.C20"],
    "nontrivial": c20_nontrivial,
    "classify": c20_classify,
    "rule": "c20.mr: every matchrule rule with one or two values over {a,b} up to length 3 (three values sampled in thorough) x every mode x every data up to length 4, then random rule sets of 1..3 rules (and/or) with 1..4 values of different lengths that are prefixes / suffixes / substrings / extensions of the data and of each other, case-insensitive on ASCII, invert, data lengths below min / between min and max / above max value size; c20.spam: every sequence over {event inside the interval, event a whole interval later, isNewSource event, maintenance} up to length 7 (quick) / 8 (thorough) for one source under small (threshold, unbanIterations) pairs, then random multi-source sequences (thresholds 1..6, rule lists with thresholds -1/0/1..6, exceptions, PRNG arrival times incl. out-of-order and int64 extremes, maintenance at PRNG positions, int32-extreme thresholds); c20.in: every record over {a,b,\\n} up to length 5 (quick) / 7 (thorough) under limits 0..3 with and without cut-off through the raw decoder, then random JSON/raw records sized around the limit through pipelines with antispam thresholds 0..4, exceptions, source_name_meta_field, stream offsets and PassEvent answers; distinct = distinct case line; non-trivial = (mr) some rule has values of different lengths, (spam) some IsSpam call answered true and a maintenance round ran, (in) the case has both a delivered and a refused record",
    "corr_name": "MatchRule.rsMatch = matchrule.RuleSet.Match; Admission.inSeq = Pipeline.In per record (refused | delivered event tree); Antispam.isSpam/maintenance/dumpAll/dump = Antispammer.IsSpam answers, all source counters before/after every Maintenance, final Dump()",
    "trusted_base": [
        "oracle parameters evaluated by the harness on the concrete input and shipped in the case line: JSON decoding (insane-json via decoder.New(JSON)), bytes.ToLower of what case-insensitive matchrule rules lower, doif.Checker.Check of every rule, PassEvent, and (c20.in only) matchrule.RuleSet.Match of the exceptions; exec re-evaluates them and rejects a case line whose oracle values differ. In c20.spam and c20.mr the exception / rule-set results are computed by the model of cfg/matchrule (M) and by the literal reading (P), not taken from the library",
        "bytes.Contains / bytes.Equal have their mathematical meaning in the model",
        "antispam counters before and after every Maintenance are read through the verif accessor Antispammer.VerifCounters (pipeline/antispam/export_verif_c20.go); the final state through the public Dump() (sources whose counter >= the default threshold)",
        "modelled, not verified: insane-json AddFieldNoAlloc/MutateTo* (first field of that name is overwritten, else appended; no-op on non-objects)",
    ],
    "assumptions": [
        "the literal ban clause is demanded by the oracle only for sources all of whose thresholds are positive and fit an int32 together with unbanIterations*threshold (otherwise the int32 conversions in IsSpam are not the identity)",
        "IsSpam / Maintenance calls are sequential (the Go code uses atomics without a common lock; interleavings inside one IsSpam call are not modelled)",
        "Go int is 64 bit and unbanIterations*threshold does not overflow it",
        "at most one meta entry per record (Go map iteration order is not modelled)",
    ],
    "signatures": {"c20_residue": sig_residue, "c20_mixed": sig_mixed},
    "chunk": 4000,
}
