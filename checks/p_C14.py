"""C14 check configuration (see checks/props.py for the meaning of the keys)."""
import os, subprocess

_ROOT = os.path.dirname(os.path.dirname(os.path.abspath(__file__)))
_FDMODEL = os.path.join(_ROOT, "lean", ".lake", "build", "bin", "fdmodel")
_why_cache = {}


def _why(c, i):
    """which recorded shapes explain the implementation's answer on this case: the Lean driver
    re-evaluates the documented semantics admitting, on the leaves that exhibit a recorded shape
    (SpecC14.admits), the as-coded answer as well. Returns e.g. 'lower', 'container', 'escapes',
    'lower+container', 'spec' or 'unexplained'."""
    if not c or c[0] != "c14.doif" or i not in (["0"], ["1"]):
        return "unexplained"
    line = "c14.why.doif " + " ".join(c[1:]) + " | " + i[0] + "\n"
    if line in _why_cache:
        return _why_cache[line]
    try:
        p = subprocess.run([_FDMODEL], input=line.encode(), stdout=subprocess.PIPE, timeout=60)
        out = p.stdout.decode().strip()
        res = out[2:out.index(" | P")].strip() if out.startswith("M ") and " | P" in out else "unexplained"
    except Exception:
        res = "unexplained"
    _why_cache[line] = res
    return res


def c14_explained(c, i, m, k):
    """the failing answer is exactly what the code computes on leaves of the recorded shape
    k['family'] (and the documented answer everywhere else)"""
    return k.get("family") in _why(c, i).split("+")


_LEAF = {"f", "l", "t", "y"}


def c14_nontrivial(c, i):
    # the rule was constructed and either selected the event or is a compound rule
    if i not in (["0"], ["1"]):
        return False
    if c[0] == "c14.match":
        return True
    return i == ["1"] or any(t in ("and", "or", "not") for t in c)


def c14_classify(c, i):
    out = [c[0], "result=" + (i[0] if i else "none")]
    if c[0] == "c14.match":
        out.append("mode=" + c[1] + ("+invert" if c[2] == "1" else ""))
        out.append("regexp-cond" if " r " in " " + " ".join(c) + " " else "values-only")
        return out
    toks = c
    depth = sum(1 for t in toks if t in ("and", "or", "not"))
    out.append("logical-nodes=" + ("0" if depth == 0 else "1-2" if depth < 3 else "3-7" if depth < 8 else "8+"))
    # leaf kinds: the token after a leaf marker identifies the op
    for idx, t in enumerate(toks[:-1]):
        if t == "f" and toks[idx + 1] in ("eq", "co", "ca", "pr", "su", "re") and idx + 2 < len(toks):
            out.append("field:" + toks[idx + 1] + (":cs" if toks[idx + 2] == "1" else ":ci"))
        elif t == "l" and toks[idx + 1] in ("b", "a", "i"):
            out.append("len:" + toks[idx + 1])
    if "~" in toks:
        out.append("nil-value")
    return sorted(set(out))


CFG = {
    "manifest": {
        "text": "Proof: Lean theorems (Props/C14.lean) state that the model of doif Checker.Check (field ops with their valuesBySize / minValLen / maxValLen short-cuts, length / timestamp / type nodes, short-circuit and/or/not, trees of any depth) equals the naive evaluator written from the documentation, and that the model of the match_fields selector equals its documented meaning for all four modes with inversion; the models are tied to doif.NewFromMap + Checker.Check and to processor.isMatch by running both on exhaustive small rule/event scopes and generated rule trees on every run.",
        "note": "Trusted: Lean kernel + the three standard axioms; fdmodel compilation; harness; library calls (bytes.ToLower, regexp, bytes.ContainsAny, xtime.ParseTime, insane-json Dig/AsString/AsInt) enter as oracle tables recomputed by the harness. Known findings (recorded, not repaired): case-insensitive short-cuts use un-lowered lengths; array/object fields are seen as one NUL byte by field ops; byte_len_cmp over containers miscounts JSON escapes and depends on the evaluation order. Not modelled: ts_cmp value file_d_start, ParseFieldSelector.",
        "technique": "Lean 4 proof (structural induction over the rule tree, equality with a naive evaluator) + differential correspondence on the real constructors and checkers",
    },
    "props_modules": ["FileD.Props.C14"],
    "nontrivial": c14_nontrivial,
    "classify": c14_classify,
    "signatures": {"c14_explained": c14_explained},
    "rule": "corpus witnesses; exhaustive: every field leaf (equal/contains/prefix/suffix x case-sensitive or not x every value list of length 1-2 over {a,B,ab}) and its negation on 13 field shapes (absent, null, strings, number, array, object), every and/or pair of such leaves in thorough (sampled in quick); exhaustive match_fields scope (4 modes x invert x 7x4 condition pairs x 28 events); trees that put byte_len_cmp over containers with JSON escapes behind guarded leaves reading the nested strings; then random rule trees up to depth 5 from every operator with value lists aimed at the event's content (duplicates, empty, nil, multi-byte, invalid UTF-8, invalid configurations) on random events, and random match_fields configurations built through fd.extractConditions. distinct = distinct case line; non-trivial = the rule was constructed and selected the event or is a compound rule",
    "corr_name": "DoIf.check = doif.NewFromMap(..).Check(NewEventData(root)); MatchFields.isMatch = processor.isMatch on fd.extractConditions output",
    "trusted_base": [
        "library results enter the model as oracle tables (bytes.ToLower, regexp Compile/Match, bytes.ContainsAny, xtime.ParseTime, insane-json AsInt); the harness recomputes every table on exec and rejects a case whose tables differ",
        "insane-json Dig / AsString / IsX are modelled by JTree functions (object look-up first-wins up to 16 fields, last-wins above; array index by strconv.Atoi syntax); exercised on every case, not proved",
        "cfg.ParseFieldSelector is not modelled: the case ships the parsed path and exec rejects a case whose path is not ParseFieldSelector(selector)",
    ],
    "assumptions": [
        "ts_cmp: the node's current-time value is pinned by the harness (doif.VerifSetNow); int64 arithmetic of now + update_interval + value_shift does not overflow",
        "the event reaches the checker freshly decoded (no earlier action has read its strings); the raw JSON text of a string is the harness's rendering (\\\" \\\\ \\n \\r \\t \\u00XX, everything else raw)",
        "match_fields conditions are as fd.extractConditions builds them: a regexp or a value list, never both",
    ],
    "chunk": 20000,
    "timeout": 900,
    "widen_seeds": 2,
    "widen_cases": 60000,
}
