"""C09 check configuration (see checks/props.py for the meaning of the keys)."""
import re


def c09_nontrivial(c, i):
    if c[0] == "c09.es":
        return len(i) > 1 and i[0] == "sends" and i[1] != "0"
    if c[0] == "c09.esdq":
        return len(i) > 1 and i[0] == "f" and i[1] != "0"
    # at least one failed send was observed (the retry path ran)
    for j, t in enumerate(i):
        if t == "t" and j + 2 < len(i) and i[j + 2] == "0":
            return True
    return False


def c09_classify(c, i):
    out = []
    if c[0] == "c09.es":
        return ["real-elasticsearch-output", "es-retry=" + c[1], "es-dq=" + c[2]]
    if c[0] == "c09.overlap":
        out.append("overlap(parked-retries)")
    if c[0] == "c09.stop":
        out.append("stop-family=" + {"0": "control", "1": "stop-inside-backoff-wait", "2": "stop-between-attempts"}.get(c[9], "?"))
        if "x" in i and "t" in i[i.index("x"):]:
            out.append("retries-continue-after-Stop")
    if c[0] == "c09.esdq":
        return ["real-elasticsearch-output+blocking-dead-queue", "esdq-batches=" + c[3], "esdq-exhausted=%d" % sum(1 for x in c[4:] if x == "1")]
    try:
        workers, retry, dqmode = c[1], c[4], c[6]
        out.append("workers=" + workers)
        out.append("retry=" + retry)
        out.append("dq=" + {"0": "none", "1": "batching", "2": "sync"}.get(dqmode, "?"))
        out.append("retention=" + ("1h" if int(c[5]) >= 60000 else "1-5ms"))
        nfail = sum(1 for j, t in enumerate(i) if t == "t" and j + 2 < len(i) and i[j + 2] == "0")
        out.append("failed-sends=" + ("0" if nfail == 0 else "1-5" if nfail < 6 else "6+"))
        ne = sum(1 for t in i if t == "e")
        out.append("given-up-batches=" + ("0" if ne == 0 else "1-2" if ne < 3 else "3+"))
        if "f" in i: out.append("handed-to-dead-queue")
        if "C" in i: out.append("sync-dq-commit")
        if "CB" in i: out.append("dq-batcher-commit")
        if "z" in i: out.append("observation-ended-while-retrying")
        for j, t in enumerate(i):
            if t == "n" and j + 3 < len(i) and i[j + 3] == "1":
                out.append("backoff-stop"); break
        # dead-queue ordering (belongs to C01/C02): a dead-queue commit of an event of main batch k logged after the
        # commit of a later main batch
        if any(t.startswith("panic:") for t in i): out.append("panic")
    except Exception:
        out.append("unparsed")
    return out


def fact_out_loop(repo):
    """RetriableBatcher.Out: the statement order the model's `out` mirrors"""
    src = open(repo + "/pipeline/backoff.go").read()
    m = re.search(r"func \(b \*RetriableBatcher\) Out\(.*?\n}\n", src, re.S)
    if not m:
        return False, "Out not found"
    body = m.group(0)
    marks = ["err := b.outFn(data, batch)", "if err == nil", "next := exponentionalBackoff.NextBackOff()",
             "if next == backoff.Stop || (b.backoffOpts.AttemptNum >= 0 && numTries > b.backoffOpts.AttemptNum)",
             "b.onRetryError(err, events)", "if batch != nil && b.isDeadQueueAvailable", "batch.reset()",
             "batch.status = BatchStatusInDeadQueue", "numTries++", "<-timer.C"]
    pos = [body.find(x) for x in marks]
    if -1 in pos or pos != sorted(pos):
        return False, "statement order / conditions of RetriableBatcher.Out changed: %r" % (pos,)
    return True, ""


def fact_router_fail(repo):
    src = open(repo + "/pipeline/router.go").read()
    m = re.search(r"func \(r \*Router\) Fail\(event \*Event\) \{\n\tif r.IsDeadQueueAvailable\(\) \{\n\t\tr.deadQueue.Out\(event\)\n\t\}\n\}", src)
    return (True, "") if m else (False, "Router.Fail differs from the modelled text")


def fact_es_onerror(repo):
    """the outputs' error callback forwards every event of the batch to Router.Fail (elasticsearch as the anchor)"""
    src = open(repo + "/plugin/output/elasticsearch/elasticsearch.go").read()
    m = re.search(r"onError := func\(err error, events \[\]\*pipeline\.Event\) \{.*?\n\t\}\n", src, re.S)
    if not m:
        return False, "onError callback not found"
    if not re.search(r"for i := range events \{\n\t\t\tp\.router\.Fail\(events\[i\]\)\n\t\t\}", m.group(0)):
        return False, "onError no longer calls p.router.Fail for every event of the batch"
    return True, ""


CFG = {
    "manifest": {
        "text": "Proof: Lean theorems (Props/C09.lean) about RetriableBatcher.Out as a fold over oracle lists (send results, NextBackOff results; all retry settings incl. negative, with/without dead queue) and about the Batcher transition system: retries_ge_configured_partial, negative_never_given_up, no_commit_while_retrying, exhaust_with_dq (+ main commits nothing, dead queue commits once), exhaust_without_dq, exactly_one_way, error_callback_once; RetriesGeConfigured (any back-off behaviour) is refuted by a proved counterexample = the repaired MaxElapsedTime defect. Tied to the real RetriableBatcher / Batcher / Router by replaying boundary traces on every run.",
        "note": "Trusted: Lean kernel + standard axioms; fdmodel; harness; cenkalti/backoff and the send function are oracles (their results are inputs of the model). The pause requested at every retry is observed (retry.next) and checked against the batch's own retry index; that the library's answers follow min*mult^n +-50% is the hypothesis BacksWellFormed of pauses_follow_own_schedule. The main output of the harness is a harness plugin whose error callback mirrors the outputs' (checked as a source fact on elasticsearch.go). The commit ORDER between the dead queue and later main batches belongs to C01/C02.",
        "technique": "Lean 4 induction over the oracle lists + Batcher invariants + trace correspondence on the real RetriableBatcher/Router with scripted failures",
    },
    "props_modules": ["FileD.Props.C09"],
    "trace": True,
    "nontrivial": c09_nontrivial,
    "classify": c09_classify,
    "facts": [("RetriableBatcher.Out statement order", fact_out_loop),
              ("Router.Fail forwards to the dead queue only when one exists", fact_router_fail),
              ("elasticsearch onError calls Router.Fail for every event", fact_es_onerror)],
    "rule": "small scope first (retry -1..3 x dead-queue mode none/batching/sync x failures before success 0..5 or always), one always-failing batch through the real elasticsearch output behind a real Router (retry 0..2 x dead queue on/off x 1-4 events x kinds), 18 Stop-during-retry cases (c09.stop: Router.Stop -> RetriableBatcher.Stop issued when batch 0 is told its pause / while one of its retries is parked between two attempts / control; after Stop the batch must retry to completion or exhaustion before it is committed), 12 parked-retry overlaps (c09.overlap: an always-failing batch whose retries are parked while later batches run Out on other workers; pauses checked against the batch's own retry index), 14 multi-batch runs of the real elasticsearch output with a dead-queue output that blocks on its first call (batch size 1-3, 3-6 batches, some exhausted, some succeeding), then random: workers 1..3, count 1..4 (+ byte limits), retry -1..3, retention 1-5 ms, scripts of 1-5 per-batch failure counts, 1-2 adders, dead-queue batcher workers/count 1..3, kind mixes; distinct = distinct case line; non-trivial = at least one failed send observed",
    "corr_name": "Retry.out on the observed oracle values + two Batcher.step? instances accept the observed boundary trace and compute the same tokens",
    "trusted_base": [
        "cenkalti/backoff NextBackOff and the send function are oracles: their observed results are inputs of the model",
        "batch identity of retry.next / onRetryError / Router.Fail events is recovered from the goroutine id (one Out call per worker goroutine at a time)",
        "Go runtime semantics of sync.Mutex, sync.Cond, channels, timers (modelled, not verified)",
    ],
    "assumptions": ["a fresh ExponentialBackOff answers within +-50% of min*mult^n (BacksWellFormed); checked on every observed pause",
                    "the dead queue's tail is flushed by its heartbeat (C08 staleness); observed in heartbeat ticks"],
    "chunk": 200,
    "timeout": 1200,
    "widen_seeds": 1,
    "widen_cases": 400,
}
