"""C15 check configuration (see checks/props.py for the meaning of the keys)."""


def _end(i):
    return i[-1] if i else ""


def c15_nontrivial(c, i):
    if c and c[0] == "c15.ascii":
        return True
    if c and c[0] == "c15.tpl":
        return "1" in i[:6]   # some template's start or continue check accepts the value
    # at least one event was joined/held/collapsed (a run was open at some point), or a chunk buffered
    return any(t in ("hold", "collapse") for t in i)


def _k8s_items(c):
    """kinds of the items of a c15.k8s case: list of 'T' | 'A' | 'N' | 'S'"""
    kinds, j = [], 6
    n = int(c[5])
    for _ in range(n):
        if c[j] == "T":
            kinds.append("T"); j += 2
        else:
            kinds.append(c[j + 3]); j += 6
    return kinds


def c15_classify(c, i):
    out = ["cmd=" + c[0]]
    end = _end(i)
    out.append("end=" + end)
    n = sum(1 for t in i if t == "R")
    out.append("calls=" + ("0" if n == 0 else "1-4" if n < 5 else "5-15" if n < 16 else "16+"))
    for r in ("hold", "collapse", "pass", "discard"):
        if r in i:
            out.append("res:" + r)
    if c[0] in ("c15.ascii", "c15.tpl"):
        if c[0] == "c15.tpl":
            out.append("tpl:bits=" + "".join(i[:6]))
        return out
    if c[0] == "c15.join":
        out.append("negate=" + c[1])
        out.append("max=" + ("0" if c[2] == "0" else "small" if int(c[2]) < 8 else c[2]))
    elif c[0] == "c15.k8s":
        out.append("k8s:max=" + c[2] + ("/cut" if c[3] == "1" and c[2] != "0" else ""))
        out.append("k8s:split=" + ("default" if c[1] == "1000000" else "forced"))
        kinds = _k8s_items(c)
        for k, label in (("T", "time-out"), ("A", "log-absent"), ("N", "log-not-string")):
            if k in kinds:
                out.append("k8s:" + label)
    elif c[0] == "c15.pipe":
        out.append("pipe:procs=" + c[1])
        out.append("pipe:streams=" + c[6])
        if i and i[0].isdigit():
            # instances that took part / time-outs delivered (calls are `<inst> T <tag> R …` | `<inst> E <id> R …`)
            insts, tmo, j = set(), 0, 1
            toks = i
            for j in range(1, len(toks) - 2):
                if toks[j + 2] == "R" and toks[j].isdigit() and toks[j - 1].isdigit() and toks[j] != "R":
                    pass
            idx = [k for k in range(2, len(toks)) if toks[k] == "R" and toks[k - 2] in ("T", "E")]
            for k in idx:
                insts.add(toks[k - 3])
                if toks[k - 2] == "T":
                    tmo += 1
            out.append("pipe:instances-used=" + str(len(insts)))
            out.append("pipe:time-outs=" + ("0" if tmo == 0 else "1-5" if tmo < 6 else "6+"))
    return out


def sig_k8s_abandon(c, i, m, rec):
    """k8s multiline, no size limit: the implementation behaves exactly as modelled (impl == model,
    which the theorems equate with the line-grouping spec) and the only thing wrong is that the
    chunks buffered for an unfinished line vanish when a time-out (or an event without a string
    `log`) interrupts the line."""
    if not c or c[0] != "c15.k8s" or c[2] != "0" or i != m:
        return False
    kinds = _k8s_items(c)
    seen_chunk = False
    for k in kinds:
        if k == "S":
            seen_chunk = True
        elif seen_chunk:
            return True
    return False


CFG = {
    "manifest": {
        "text": "Proof: Lean theorems (Props/C15.lean) state that the models of join.Plugin.Do/flush, of the join_template closures and of the k8s MultilineAction chunk buffer turn EVERY per-stream call sequence (any event content, any classifier results, time-outs, any size limits) into exactly what a run-grouping spec says: events outside runs unchanged and in order, each maximal run / container line one event carrying the in-order concatenation, truncated as the code truncates; per action instance, runs of different streams never mix under the single-owner hypothesis. The models are tied to the real plugins (registry factory + Start + Do with a recording controller) and to real pipelines (1/2/4 processors, interleaved streams, real stream time-outs) on every run.",
        "note": "Trusted: Lean kernel + the three standard axioms; fdmodel compilation; harness; regexp / template check functions / insane-json Dig, AsString, IsString, MutateToString, AppendEscapedString as per-event oracles. Hypotheses named in the theorems: time-outs only reach a busy instance (`timely`), a busy instance only sees its own stream (`coherent`, from C02/C04 single_owner + blockGet) - both are CHECKED on every real-pipeline trace. k8s: the 'keeps every byte' clause is false on a time-out in the middle of a line (known finding, counterexample theorem); limits 1..3 and the label/meta part of the action are outside the theorems.",
        "technique": "Lean 4 proof (refinement of the plugin state machines to a run-grouping spec by simulation / induction over call sequences) + differential correspondence on the real plugins and on real pipelines (trace replay)",
    },
    "props_modules": ["FileD.Props.C15"],
    "nontrivial": c15_nontrivial,
    "classify": c15_classify,
    "trace": True,
    "rule": "every family reads each handed-over event twice (at hand-over and at the end of the case / when the holding output sends its batch): stability of the joined value; back-to-back runs of decreasing length on one instance (join, join_template, pipeline); join_template classifiers: every ascii helper on all 256 bytes (c15.ascii); the three templates' StartCheck/ContinueCheck on ~50 frames in which one byte decides a character class or a literal, that byte running over 0..255, every position of the case-insensitively compared literals over 0..255, the line pool and random splices with class-boundary bytes (c15.tpl), and every such frame inside real join_template sequences with the deciding byte over the class boundaries (quick) / 0..255 (thorough); join: exhaustive call sequences over {start line, continuation, other, both, number, absent field, time-out} up to length 4 (quick) / 5 (thorough) x 5 configurations (negate, limits 0/2/3/5), then random sequences (PRNG regexps over a tiny alphabet, nested paths, non-string values, 1-3 stream tags, limits 0/1/3/8/64, time-outs mid-run and a few ill-timed); join_template: random sequences over every ordered selection of the three templates, values from a pool of template-relevant lines and mutations; k8s: exhaustive sequences over 16 log shapes (partial, ending, empty, escaped backslash+n, numbers of 1-3 digits, null, bool, object, array, absent, time-out) up to length 3 (quick) / 4 (thorough) x 5 limit settings, then random chunk sequences (escapes on chunk borders, limits 0/4/8/20/64 skip+cut, forced split); pipeline: real pipelines with 1/2/4/8 processors, 1-6 interleaved streams over 1-3 sources, the real join alone or with scripted discarding actions before and/or after it (chains j, jv, vj, vjv, jvv and the same with J = join carrying the match condition k=y, satisfied by 3/4 of the events; start lines discarded downstream in half of the cases), pauses that let the real stream time-out fire. distinct = distinct case line; non-trivial = some call answered hold or collapse",
    "corr_name": "JoinTemplates.* = real ascii helpers and template check functions; Join.run / Join.trun / K8s.run = real plugin Do calls (ActionResult, Propagate calls, event after the call); pipeline: every instance's observed calls replayed through Join.step, per-stream output (value and order) = SpecC15.spec of the calls the join saw minus downstream discards",
    "trusted_base": [
        "oracles per event: regexp.MatchString, insane-json Dig/IsString/AsString/MutateToString/AppendEscapedString (recomputed by exec from the case's regexps / template names / raw JSON; a case whose oracle bits disagree is rejected)",
        "the recorder wrapped around each real join instance in pipeline cases (logs Do / Propagate, delegates unchanged)",
        "not modelled: k8s meta lookup and label fields, OnlyNode, the Fatalf checks on namespace/pod/container names taken from the file name",
    ],
    "assumptions": [
        "join_template_eq_spec takes the template start/continue bits as oracles; the bits of every c15.jt case are cross-checked against the Lean model of the template functions (Model/JoinTemplates.lean), which c15.tpl / c15.ascii tie to the real functions",
        "time-out events reach an instance only while it is busy (processor.processEvent: blockGet only runs while busyActionsTotal > 0) - hypothesis `timely`, checked on every pipeline trace",
        "while an instance is busy the next call is an event or time-out of the same stream (C02/C04 single_owner + blockGet) - hypothesis `coherent` of no_cross_stream_merge, checked on every pipeline trace",
        "k8s theorems: max_event_size = 0 or >= 4 (LimitOK); string fragments are quoted (shape of AppendEscapedString)",
        "chains with a second holding action downstream are outside this per-instance property (reordering there is the C02 known finding)",
    ],
    "signatures": {"k8s_abandon": sig_k8s_abandon},
    "chunk": 4000,
    "timeout": 1500,
}
