"""C15 check configuration (see checks/props.py for the meaning of the keys)."""


def _end(i):
    return i[-1] if i else ""


def c15_nontrivial(c, i):
    # at least one event was joined/held/collapsed (a run was open at some point), or a chunk buffered
    return any(t in ("hold", "collapse") for t in i)


def _k8s_items(c):
    """kinds of the items of a c15.k8s case: list of 'T' | 'A' | 'N' | 'S'"""
    kinds, j = [], 6
    n = int(c[5])
    for _ in range(n):
        if c[j] == "T":
            kinds.append("T"); j += 2
        else:
            kinds.append(c[j + 3]); j += 6
    return kinds


def c15_classify(c, i):
    out = ["cmd=" + c[0]]
    end = _end(i)
    out.append("end=" + end)
    n = sum(1 for t in i if t == "R")
    out.append("calls=" + ("0" if n == 0 else "1-4" if n < 5 else "5-15" if n < 16 else "16+"))
    for r in ("hold", "collapse", "pass", "discard"):
        if r in i:
            out.append("res:" + r)
    if c[0] == "c15.join":
        out.append("negate=" + c[1])
        out.append("max=" + ("0" if c[2] == "0" else "small" if int(c[2]) < 8 else c[2]))
    elif c[0] == "c15.k8s":
        out.append("k8s:max=" + c[2] + ("/cut" if c[3] == "1" and c[2] != "0" else ""))
        out.append("k8s:split=" + ("default" if c[1] == "1000000" else "forced"))
        kinds = _k8s_items(c)
        for k, label in (("T", "time-out"), ("A", "log-absent"), ("N", "log-not-string")):
            if k in kinds:
                out.append("k8s:" + label)
    elif c[0] == "c15.pipe":
        out.append("pipe:procs=" + c[1])
        out.append("pipe:streams=" + c[6])
        if i and i[0].isdigit():
            # instances that took part / time-outs delivered (calls are `<inst> T <tag> R …` | `<inst> E <id> R …`)
            insts, tmo, j = set(), 0, 1
            toks = i
            for j in range(1, len(toks) - 2):
                if toks[j + 2] == "R" and toks[j].isdigit() and toks[j - 1].isdigit() and toks[j] != "R":
                    pass
            idx = [k for k in range(2, len(toks)) if toks[k] == "R" and toks[k - 2] in ("T", "E")]
            for k in idx:
                insts.add(toks[k - 3])
                if toks[k - 2] == "T":
                    tmo += 1
            out.append("pipe:instances-used=" + str(len(insts)))
            out.append("pipe:time-outs=" + ("0" if tmo == 0 else "1-5" if tmo < 6 else "6+"))
    return out


def sig_k8s_abandon(c, i, m, rec):
    """k8s multiline, no size limit: the implementation behaves exactly as modelled (impl == model,
    which the theorems equate with the line-grouping spec) and the only thing wrong is that the
    chunks buffered for an unfinished line vanish when a time-out (or an event without a string
    `log`) interrupts the line."""
    if not c or c[0] != "c15.k8s" or c[2] != "0" or i != m:
        return False
    kinds = _k8s_items(c)
    seen_chunk = False
    for k in kinds:
        if k == "S":
            seen_chunk = True
        elif seen_chunk:
            return True
    return False


CFG = {
    "manifest": {
        "text": "Proof: Lean theorems (Props/C15.lean) state that the model of join.Plugin.Do/flush (and of the join_template closures, and of the k8s MultilineAction chunk buffer) turns every per-stream call sequence into exactly what the run-grouping spec says; the models are tied to the real plugins (registry factory + Start + Do, mock controller recording Propagate) by differential runs on exhaustive small call sequences and random ones on every run.",
        "note": "Trusted: Lean kernel + the three standard axioms; fdmodel compilation; harness; regexp / template check functions / insane-json Dig, AsString, AppendEscapedString as per-event oracles. The single-owner rule of the processor (a busy action only sees its own stream) is a named hypothesis from C02/C04, validated on real pipelines by the trace cases.",
        "technique": "Lean 4 proof (refinement of the plugin state machines to a run-grouping spec, induction over call sequences) + differential correspondence on the real plugins and real pipelines",
    },
    "props_modules": ["FileD.Props.C15"],
    "nontrivial": c15_nontrivial,
    "classify": c15_classify,
    "rule": "exhaustive call sequences over {start line, continuation, other, both, number, absent field, time-out} up to length 4 (quick) / 5 (thorough) x 5 configurations (negate, limits), then random sequences (PRNG regexps over a tiny alphabet, nested paths, non-string values, stream tags, time-outs placed mid-run and a few ill-timed), join_template sequences over all template selections; distinct = distinct case line; non-trivial = some call was answered hold or collapse",
    "corr_name": "Join.run / Join.trun / K8s.run = real plugin Do calls (ActionResult, Propagate calls, event after the call)",
    "trusted_base": [
        "oracles per event: regexp.MatchString, template StartCheck/ContinueCheck, insane-json Dig/IsString/AsString/MutateToString/AppendEscapedString (recomputed by exec from the case's regexps; a case whose bits disagree is rejected)",
    ],
    "assumptions": [
        "time-out events reach an instance only while it is busy (processor.processEvent: blockGet only runs while busyActionsTotal > 0)",
        "while an instance is busy the next call is an event or time-out of the same stream (C02/C04 single_owner + blockGet); hypothesis `coherent` of no_cross_stream_merge",
    ],
    "signatures": {"k8s_abandon": sig_k8s_abandon},
    "chunk": 4000,
}
