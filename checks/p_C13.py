"""C13 check configuration (see checks/props.py for the meaning of the keys)."""
import binascii, glob, json, os, re

MODELLED = {
    "modify": "cfg/substitution filters cut / trim / trim_to / re + the filter loop of modify.Do (Model/Act/Subst.lean)",
    "convert_utf8_bytes": "the escape scanner (*Plugin).convert (Model/Act/Utf8Bytes.lean)",
    "hash": "the by-bytes tokenizer of the normalizer (brackets / quotes) (Model/Act/HashTok.lean)",
    "rename": "path / name bookkeeping of Do over a JSON tree (Model/Act/Fields.lean)",
    "move": "allow / block bookkeeping of Do over a JSON tree (Model/Act/Fields.lean)",
}
OTHERS_MODEL = {
    "mask": "C17", "keep_fields": "C18", "remove_fields": "C18", "join": "C15", "join_template": "C15",
    "k8s-multiline": "C15", "throttle": "C16",
}
HARNESS_ONLY = ["add_file_name", "add_host", "cardinality", "convert_date", "convert_log_level", "debug", "decode",
                "discard", "flatten", "json_decode", "json_encode", "json_extract", "parse_es", "parse_re2", "set_time", "split"]


def _unhex(h):
    return b"" if h == "-" else binascii.unhexlify(h)


def _tree(toks, i):
    """parse one JTree from tokens, return (python value, next index); strings are bytes"""
    t = toks[i]
    if t == "Z": return None, i + 1
    if t == "T": return True, i + 1
    if t == "F": return False, i + 1
    if t == "N": return ("num", _unhex(toks[i + 1])), i + 2
    if t == "S": return _unhex(toks[i + 1]), i + 2
    if t == "A":
        n = int(toks[i + 1]); i += 2; out = []
        for _ in range(n):
            v, i = _tree(toks, i); out.append(v)
        return out, i
    if t == "O":
        n = int(toks[i + 1]); i += 2; out = []
        for _ in range(n):
            k = _unhex(toks[i]); v, i = _tree(toks, i + 1); out.append((k, v))
        return ("obj", out), i
    raise ValueError("bad tree token " + t)


def _strings(v, acc):
    if isinstance(v, bytes): acc.append(v)
    elif isinstance(v, list):
        for x in v: _strings(x, acc)
    elif isinstance(v, tuple) and v and v[0] == "obj":
        for _, x in v[1]: _strings(x, acc)
    return acc


def _py_strings(v, acc):
    if isinstance(v, str): acc.append(v.encode("utf-8", "surrogatepass"))
    elif isinstance(v, list):
        for x in v: _py_strings(x, acc)
    elif isinstance(v, dict):
        for x in v.values(): _py_strings(x, acc)
    return acc


def c13_events(c):
    """c = case tokens of a c13.act line → list of ('E', strings) / ('R', strings) / ('T', [])"""
    n = int(c[4]); i = 5; evs = []
    for _ in range(n):
        if c[i] == "T":
            evs.append(("T", [])); i += 1
        elif c[i] == "R":
            raw = _unhex(c[i + 1]); i += 2
            try:
                evs.append(("R", _py_strings(json.loads(raw.decode("latin-1")), [])))
            except Exception:
                evs.append(("R", []))
        else:
            v, i = _tree(c, i + 1)
            evs.append(("E", _strings(v, [])))
    return evs


def _bad_constant(x):
    raise ValueError(x)


def _strict_json(b):
    try:
        json.loads(b.decode("latin-1"), parse_constant=_bad_constant)
        return True
    except Exception:
        return False


def c13_pairs(i):
    """impl tokens → list of (res, status), stability"""
    if not i or not i[0].isdigit(): return [], ""
    n = int(i[0])
    pairs = [(i[1 + 2 * k], i[2 + 2 * k]) for k in range(n) if 2 + 2 * k < len(i)]
    return pairs, (i[1 + 2 * n] if 1 + 2 * n < len(i) else "")


def _cfg(c):
    try:
        return json.loads(_unhex(c[2]).decode("utf-8", "replace"))
    except Exception:
        return {}


def _pipe_events(c):
    nl = int(c[4])
    return c13_events(c[:4] + c[5 + nl:])


def sig_lenient_nested_json(c, i, m, k):
    """json_decode / decode(json): the only failures are badjson:std on events carrying a string
    that is not standard JSON (insane-json accepts and re-emits it verbatim)"""
    if c[0] == "c13.pipe" and c[1] in ("json_decode", "decode"):
        if c[1] == "decode" and _cfg(c).get("decoder", "json") != "json": return False
        sts = [t for t in i if not t.startswith(("in=", "out=", "left="))]
        if not i or i[-1] != "left=0" or any(t not in ("ok", "badjson:std") for t in sts) or "badjson:std" not in sts: return False
        strs = [s for _, ss in _pipe_events(c) for s in ss]
        return any(s[:1] in (b"{", b" ") and not _strict_json(s) for s in strs)
    if c[0] != "c13.act" or c[1] not in ("json_decode", "decode"): return False
    if c[1] == "decode" and _cfg(c).get("decoder", "json") != "json": return False
    pairs, st = c13_pairs(i)
    if st != "st:ok": return False
    evs = c13_events(c)
    bad = False
    for idx, (res, status) in enumerate(pairs):
        if status == "ok" or status.startswith("skip:"): continue
        if status != "badjson:std" or res not in ("pass",): return False
        strs = evs[idx][1] if idx < len(evs) else []
        if not any(s[:1] in (b"{", b" ") and not _strict_json(s) for s in strs): return False
        bad = True
    return bad


def sig_k8s_cutoff_splits_escape(c, i, m, k):
    """k8s-multiline with cut_off_event_by_limit and a max_event_size: the only failures are
    badjson:std on the event that closes a cut-off line"""
    if c[0] == "c13.pipe" and c[1] == "k8s-multiline":
        ps = c[3].split(":")
        sts = [t for t in i if not t.startswith(("in=", "out=", "left="))]
        return (len(ps) == 4 and ps[0] != "0" and ps[1] == "1" and bool(i) and i[-1] == "left=0"
                and all(t in ("ok", "badjson:std") for t in sts) and "badjson:std" in sts)
    if c[0] != "c13.act" or c[1] != "k8s-multiline": return False
    ps = c[3].split(":")
    if len(ps) != 4 or ps[0] == "0" or ps[1] != "1": return False
    pairs, st = c13_pairs(i)
    if st != "st:ok": return False
    bad = False
    for res, status in pairs:
        if status == "ok" or status.startswith("skip:"): continue
        if status != "badjson:std" or res != "pass": return False
        bad = True
    return bad


def sig_insane_nodepool(c, i, m, k):
    """only the insane-json getNode index panic: the child died in insane-json.(*decoder).getNode
    (crash:insane-nodepool), or every failing Do of a c13.act case panicked there"""
    if c[0] in ("c13.pipe", "c13.pipeout"):
        return i == ["crash:insane-nodepool"]
    if c[0] != "c13.act": return False
    pairs, st = c13_pairs(i)
    if st != "st:ok": return False
    bad = False
    for res, status in pairs:
        if status == "ok" or status.startswith("skip:"): continue
        if res != "-" or not status.startswith("panic:insane-nodepool@"): return False
        bad = True
    return bad


def c13_nontrivial(c, i):
    if c[0] in ("c13.pipe", "c13.pipeout"):
        return bool(i) and i[0].startswith("in=") and i[0] != "in=0"
    if c[0] == "c13.act":
        pairs, _ = c13_pairs(i)
        return any(not s.startswith("skip:") for _, s in pairs)
    if c[0] == "c13.registry":
        return True
    return bool(i) and i[0] == "ok"


def c13_classify(c, i):
    out = ["cmd=" + c[0]]
    if c[0] == "c13.act":
        p = c[1]
        out.append("plugin=" + p)
        out.append("tier-of-proof=" + ("modelled-core" if p in MODELLED else "modelled-by-" + OTHERS_MODEL[p] if p in OTHERS_MODEL else "harness-only"))
        if i and i[0] == "cfg-rejected":
            out.append(p + ":cfg-rejected")
            return out
        pairs, st = c13_pairs(i)
        n = len(pairs)
        out.append("events=" + ("1" if n <= 1 else "2-5" if n <= 5 else "6-14" if n <= 14 else "15+"))
        seen = set()
        for res, status in pairs:
            status = re.sub(r"@.*", "", status)
            for lab in ("res=" + res, "status=" + status, p + ":" + res, p + ":" + status):
                if lab not in seen:
                    seen.add(lab); out.append(lab)
        if st and st != "st:ok": out.append("stability=changed")
        try:
            kinds = {k for k, _ in c13_events(c)}
        except Exception:
            kinds = set()
        if "T" in kinds: out.append("has-timeout-event")
        if any(r.startswith("t:") for r, _ in pairs): out.append("timeout-delivered")
        if "R" in kinds: out.append("has-raw-text-event")
        if c[3] != "0:0:-:0": out.append("pipeline-settings-nondefault")
    elif c[0] in ("c13.pipe", "c13.pipeout"):
        out.append("pipe-plugin=" + c[1])
        if c[0] == "c13.pipeout": out.append("pipe:stdout-output")
        if i and i[0] == "cfg-rejected":
            out.append("pipe:cfg-rejected")
        else:
            for t in i:
                if t.startswith("out="): out.append("pipe:out=" + ("0" if t == "out=0" else "1+"))
                elif t.startswith("left="): out.append("pipe:" + t if t == "left=0" else "pipe:left>0")
                elif not t.startswith("in="):
                    lab = "pipe:status=" + t
                    if lab not in out: out.append(lab)
            out.append("pipe:metric-labels=" + c[4])
            try:
                if any(k == "T" for k, _ in _pipe_events(c)): out.append("pipe:silence-then-traffic")
            except Exception:
                pass
    elif c[0] == "c13.subst":
        kinds = sorted({t for t in c if t in ("cut", "trimto", "trim", "re")})
        out.append("filters=" + "+".join(kinds))
        out.append("chain=" + c[1])
        out.append("subst:" + (i[0] if i else "none"))
        try:
            n = len(_unhex(c[-1]))
            out.append("srclen=" + ("0" if n == 0 else "1-6" if n <= 6 else "7-9" if n <= 9 else "10-33" if n <= 33 else "34+"))
        except Exception:
            pass
    elif c[0] == "c13.mrule":
        out.append("mrule:" + (" ".join(i[:2]) if i else "none"))
        try:
            n = int(c[2]); k = 3; modes = set(); ci = False
            for _ in range(n):
                modes.add(("prefix", "contains", "suffix")[int(c[k])]); ci = ci or c[k + 1] == "1"
                k += 4 + int(c[k + 3])
            data = _unhex(c[k])
            for md in sorted(modes): out.append("mrule:mode=" + md)
            if ci:
                out.append("mrule:case-insensitive")
                low = data.decode("utf-8", "replace").lower().encode("utf-8")
                out.append("mrule:lowering-" + ("keeps-length" if len(low) == len(data) else "shrinks" if len(low) < len(data) else "grows"))
        except Exception:
            pass
    elif c[0] in ("c13.utf8", "c13.tok", "c13.rename", "c13.move"):
        out.append(c[0][4:] + ":" + (i[0] if i else "none"))
        if c[0] == "c13.utf8": out.append("fields=" + c[1])
    return out


def fact_holding_plugins(repo):
    """time-out events are only sent to actions that answered Collapse/Hold (processor.processEvent,
    Spawn): the harness sends them to exactly these plugins, each of which answers Discard"""
    holders = set()
    files = glob.glob(os.path.join(repo, "plugin/action/*/*.go")) + [os.path.join(repo, "plugin/input/k8s/multiline_action.go")]
    for f in files:
        if f.endswith("_test.go"): continue
        src = open(f, encoding="utf-8", errors="replace").read()
        if re.search(r"pipeline\.Action(Collapse|Hold)\b", src):
            holders.add(os.path.relpath(f, repo))
            if "IsTimeoutKind()" not in src:
                return False, f"{f} holds events but has no time-out branch"
    want = {"plugin/action/parse_es/parse_es.go", "plugin/action/join/join.go", "plugin/input/k8s/multiline_action.go"}
    if holders != want:
        return False, f"plugins answering Collapse/Hold are {sorted(holders)}, the harness sends time-outs to {sorted(want)} (+ join_template, which wraps join)"
    return True, ""


def fact_five_results(repo):
    """pipeline.ActionResult has exactly the five values the oracle accepts"""
    src = open(os.path.join(repo, "pipeline/processor.go"), encoding="utf-8").read()
    m = re.search(r"type ActionResult int\s*const \((.*?)\n\)", src, re.S)
    if not m: return False, "ActionResult const block not found"
    names = re.findall(r"^\s*(Action[A-Za-z]+)\b", m.group(1), re.M)
    if names != ["ActionPass", "ActionCollapse", "ActionDiscard", "ActionHold", "ActionBreak"]:
        return False, f"ActionResult values are {names}"
    return True, ""


_partial = ("PARTIAL by construction. Proved (Lean, Props/C13.lean) only for the index-arithmetic cores: modify (cfg/substitution filters "
            "cut/trim/trim_to/re and the filter loop), convert_utf8_bytes (escape scanner), hash (by-bytes tokenizer of the normalizer), rename and move "
            "(field bookkeeping over a JSON tree): never a Go panic for any value / any validated option, result a well-formed tree. "
            "mask, keep_fields, remove_fields, join, join_template, k8s-multiline, throttle have their own models under C17 / C18 / C15 / C16. "
            "For the other 16 plugins (" + ", ".join(HARNESS_ONLY) + ") the bodies are thin glue over insane-json / library calls: "
            "the property is validated by the harness on generated configurations and events, not proved.")

CFG = {
    "manifest": {
        "text": "Proof + validation: " + _partial + " The harness runs all 28 registered actions (27 + k8s-multiline) through the real GetConfig/Start/Do path on generated "
                "valid configurations (every documented option) and event sequences (every JSON kind, empty/huge/invalid-UTF-8 strings, duplicate keys, escapes, non-object roots, "
                "time-out events for holding plugins) in an isolated child process and checks per Do call: no panic, no logger.Fatal/exit, no hang, a defined ActionResult, "
                "Encode output re-parses with insane-json and encoding/json, events that left the plugin stay unchanged.",
        "note": "Trusted: Lean kernel + 3 standard axioms; fdmodel compilation; harness, generators and the zap fatal hook that turns Fatal into an observable panic. "
                "insane-json, regexp, prometheus, jx, lexmachine are exercised, not modelled. Un-modelled plugins: validated only. redis limiter backend, csv invalid_line_mode=fatal and "
                "strict pipelines (is_strict) are excluded: exiting is their documented behaviour / they need a server.",
        "technique": "Lean 4 totality proofs over GoSlice models of hand-written scanners + differential correspondence; process-isolated fuzzing of every action plugin with a property oracle",
    },
    "props_modules": ["FileD.Props.C13"],
    "nontrivial": c13_nontrivial,
    "classify": c13_classify,
    "facts": [("holding-plugins-get-timeouts", fact_holding_plugins), ("five-action-results", fact_five_results)],
    "signatures": {"c13_lenient_nested_json": sig_lenient_nested_json, "c13_k8s_cutoff_splits_escape": sig_k8s_cutoff_splits_escape,
                   "c13_insane_nodepool": sig_insane_nodepool},
    "rule": "per plugin: the systematic configuration list (every documented option) x every value of the adversarial value list at the configured fields (chunks of 14 events; a rotating third of the list in quick) "
            "+ root shapes/raw texts + random configurations x random sequences (quick 150x6, thorough 1200x10 per plugin) + 20/120 real-pipeline runs per plugin (c13.pipe, every fourth with the stdout output plugin); cores: exhaustive strings over {a,b} up to length 4/6 x every filter/mode/cutset/group order, "
            "all strings over {\\,u,x,0,d,8} up to length 5/6 for the utf8 scanner, random chains; distinct = distinct case line; non-trivial = at least one event was really processed (cores: a value was produced)",
    "corr_name": "c13.pipe: the same inside a real pipeline (processor.doActions/countEvent, Propagate, Spawn, real time-outs), no model column; modelled cores: Act.Subst.run = modify filters, Act.Utf8Bytes.convert = convert_utf8_bytes, Act.HashTok = normalizer tokenizer, Act.Fields = rename/move, MatchRule.rsMatch = match rules of a mask through mask.Do (c13.mrule); c13.act has no model column (M echoes the implementation)",
    "trusted_base": [
        "un-modelled plugin bodies (16 harness-only plugins + the glue around the modelled cores): validated by the harness only",
        "insane-json (Dig/AddField/Suicide/MutateTo*/Encode/decoder leniency), regexp, bytes.Trim for non-ASCII cutsets, prometheus client, go-faster/jx, lexmachine, time.Parse/Format: exercised, not modelled",
        "zap fatal hook: logger.Fatal* observed as a panic of type fatalExit instead of os.Exit; direct os.Exit / runtime fatal errors are observed as the death of the child process",
    ],
    "assumptions": [
        "thin glue over insane-json / library calls: validated by harness only: " + ", ".join(HARNESS_ONLY),
        "deep models elsewhere, harness-only here: " + ", ".join(f"{p} ({o})" for p, o in sorted(OTHERS_MODEL.items())),
        "time-out events reach only the action that is busy (answered Collapse/Hold) at that point; the oracle accepts only Discard for them (Pass/Break/Hold forward or keep the nil-Root event, Collapse pins the processor to the silent stream); exec delivers a time-out to any busy plugin, the generator aims them at the plugins of source fact holding-plugins-get-timeouts",
        "k8s-multiline events carry the four k8s_* meta fields the k8s input always adds; events whose root is not an object are not sent to it",
        "encoding/json half of the re-parse check applies to events that were valid for encoding/json when they came in (insane-json accepts and re-emits .5, 1e, raw control bytes, unknown escapes)",
        "excluded configurations: throttle limiter_backend=redis (needs a server), decode csv invalid_line_mode=fatal and is_strict pipelines (exit is the documented behaviour)",
        "match rules of a mask (cfg/matchrule): diffed through mask.Do against C20's Model/MatchRule.lean (c13.mrule) for configured values whose lower-case form keeps its byte length; event data carries the length-changing runes (U+212A, U+2126, U+212B, U+0130, U+1E9E shrink, U+023A grows, invalid bytes become U+FFFD)",
        "regexp oracle shape: FindAllSubmatchIndex rows have 2*(NumSubexp+1) entries, each pair is (-1,-1) or 0 <= start <= end <= len(src)",
    ],
    "chunk": 20000,
    "timeout": 1500,
    "widen_seeds": 1,
    "widen_cases": 60000,
}
