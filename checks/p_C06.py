"""C06 check configuration (see checks/props.py for the meaning of the keys)."""

# ---------------------------------------------------------------- C06
def c06_nontrivial(c, i):
    # at least one In call observed
    return len(i) > 0 and i[0].isdigit() and int(i[0]) >= 1


def c06_classify(c, i):
    out = []
    out.append("family=" + ("worker+real Pipeline.In" if c[0] == "c06.pipe" else "worker"))
    mx, cut, skip, base, buf, nturns = c[1], c[2], c[3], c[4], c[5], c[6]
    out.append("mode=" + ("unlimited" if mx == "0" else ("cut" if cut == "1" else "skip")))
    out.append("turns=" + nturns)
    out.append("buf=" + ("1" if buf == "1" else "2-7" if int(buf) < 8 else "8+"))
    if skip == "1": out.append("shouldSkip")
    if base != "0": out.append("resume-offset")
    if mx != "0":
        # does a line over the limit occur (the skip / cut branches), and does it straddle reads?
        hexes, k = [], 7
        try:
            for _ in range(int(nturns)):
                n = int(c[k]); k += 1
                hexes += [t for t in c[k:k + n] if t != "-"]; k += n
            content = bytes.fromhex("".join(hexes))
        except (ValueError, IndexError):
            content = b""
        m = int(mx)
        lines = content.split(b"\n")[:-1]
        if any(len(l) + 1 > m for l in lines):
            out.append("oversize-line")
            if any(len(l) + 1 > m and len(l) + 1 > int(buf) for l in lines):
                out.append("oversize-line-straddles-reads")
        if any(len(l) + 1 == m for l in lines):
            out.append("line-exactly-at-limit")
    if i and i[0].isdigit():
        n = int(i[0])
        out.append("calls=" + ("0" if n == 0 else "1-3" if n < 4 else "4+"))
    return out



CFG = {
        "manifest": {
            "text": "Proof: Lean theorem worker_holds (Props/C06.lean) states that for every configuration (no limit / skip / cut), start mode, base offset, content and split of the content into turns and reads the In calls of the model of worker.work satisfy SpecC06.holds - the very oracle the check evaluates on the real worker's calls; worker_turns_lines / worker_tail / worker_resume / worker_first_line_skipped / worker_skip_oversize / worker_cut_oversize / worker_cut_then_admission spell it out per clause. worker_pipeline_holds: the same calls put through the model of Pipeline.In (C20's Admission model, decoder raw, same limit) deliver exactly pipeSpec (a line of exactly max bytes is not over the limit; worker and pipeline agree). The model is tied to the real worker by running both on exhaustive small contents in every limit mode and on random contents on every run.",
            "note": "Trusted: Lean kernel + the three standard axioms; fdmodel compilation; harness; os.File.Read chunking assumption. Not modelled: lz4, metadata, truncation (processEOF).",
            "technique": "Lean 4 proof (induction over reads, refinement to specLines) + differential correspondence on real temp files",
        },
        "props_modules": ["FileD.Props.C06"],
        "nontrivial": c06_nontrivial,
        "classify": c06_classify,
        "rule": "exhaustive contents over {a,b,\\n} up to length 6 (quick) / 8 (thorough) x every buffer size x one turn and every single append point, each in 8 limit modes (off, skip 1/2, cut 1/2, shouldSkip with 0/3/3cut) up to length 5/7 and rotating through them beyond; every pair of append points up to length 4/6; a straddle stream (limits 1..9, buffers 1..limit+3, lines from under the limit to several buffers over it, 1-4 appends, resume offsets); random contents (line lengths around the limits 1/5/16/64, up to 600 bytes, buffers 1..4096); c06.pipe family: the real worker against the real started pipeline (decoder raw, same max_event_size / cut-off) with contents of 1-3 lines of length 1, max-1, max, max+1, 2max+1 (newline included) with and without an unterminated tail x buffers 1, max-1, max, max+1, whole content, larger x skip/cut/off, plus a random stream; distinct = distinct case line; non-trivial = the real worker made at least one In call",
        "corr_name": "Worker.turns = (*worker).work (In calls, curOffset, tail, shouldSkip)",
        "trusted_base": [
            "os.File.Read on a regular file returns the next min(len(buf), remaining) bytes and (0, EOF) at end (the case's read chunks are derived from this)",
            "modelled, not verified: lz4 files, metadata rendering, truncation detection (processEOF)",
        ],
        "assumptions": ["the first turn starts on a line boundary or with shouldSkip set (resume offsets come from committed end-of-line offsets); later turns start wherever the previous one stopped", "in cut mode the worker hands over more than max bytes for an over-long line; the cut to max is Pipeline.checkInputBytes (C20); worker_cut_then_admission uses a 5-line model of that branch"],
}
