"""C06 check configuration (see checks/props.py for the meaning of the keys)."""

# ---------------------------------------------------------------- C06
def c06_nontrivial(c, i):
    # at least one In call observed
    return len(i) > 0 and i[0].isdigit() and int(i[0]) >= 1


def c06_classify(c, i):
    out = []
    mx, cut, skip, base, buf, nturns = c[1], c[2], c[3], c[4], c[5], c[6]
    out.append("mode=" + ("unlimited" if mx == "0" else ("cut" if cut == "1" else "skip")))
    out.append("turns=" + nturns)
    out.append("buf=" + ("1" if buf == "1" else "2-7" if int(buf) < 8 else "8+"))
    if skip == "1": out.append("shouldSkip")
    if base != "0": out.append("resume-offset")
    if mx != "0":
        # does a line over the limit occur (the skip / cut branches), and does it straddle reads?
        hexes, k = [], 7
        try:
            for _ in range(int(nturns)):
                n = int(c[k]); k += 1
                hexes += [t for t in c[k:k + n] if t != "-"]; k += n
            content = bytes.fromhex("".join(hexes))
        except (ValueError, IndexError):
            content = b""
        m = int(mx)
        lines = content.split(b"\n")[:-1]
        if any(len(l) + 1 > m for l in lines):
            out.append("oversize-line")
            if any(len(l) + 1 > m and len(l) + 1 > int(buf) for l in lines):
                out.append("oversize-line-straddles-reads")
        if any(len(l) + 1 == m for l in lines):
            out.append("line-exactly-at-limit")
    if i and i[0].isdigit():
        n = int(i[0])
        out.append("calls=" + ("0" if n == 0 else "1-3" if n < 4 else "4+"))
    return out



CFG = {
        "manifest": {
            "text": "Proof: Lean theorems (Props/C06.lean) state that the model of worker.work emits exactly specLines(content) for every content and every split into reads/turns; the model is tied to the real worker by running both on exhaustive small contents and random contents on every run.",
            "note": "Trusted: Lean kernel + the three standard axioms; fdmodel compilation; harness; os.File.Read chunking assumption. Not modelled: lz4, metadata, truncation (processEOF).",
            "technique": "Lean 4 proof (induction over reads, refinement to specLines) + differential correspondence on real temp files",
        },
        "props_modules": ["FileD.Props.C06"],
        "nontrivial": c06_nontrivial,
        "classify": c06_classify,
        "rule": "exhaustive contents over {a,b,\\n} up to length 6 (quick) / 8 (thorough) x every buffer size x single append points x limit modes, then random contents (line lengths around the limits, 1-4 appends, resume offsets, buffers 1..4096); distinct = distinct case line; non-trivial = the real worker made at least one In call",
        "corr_name": "Worker.turns = (*worker).work (In calls, curOffset, tail, shouldSkip)",
        "trusted_base": [
            "os.File.Read on a regular file returns the next min(len(buf), remaining) bytes and (0, EOF) at end (the case's read chunks are derived from this)",
            "modelled, not verified: lz4 files, metadata rendering, truncation detection (processEOF)",
        ],
        "assumptions": ["a turn starts on a line boundary (resume offsets come from committed end-of-line offsets)"],
}
