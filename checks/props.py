"""
Per-property configuration of ./check: which Lean modules hold the property theorems, how a
case counts as non-trivial, how the run's input distribution is classified, signatures of
known findings, and the trusted base / assumptions repeated in the evidence file.
"""

COMMON_TRUSTED = [
    "Lean 4.33.0 kernel; axioms allowed in property theorems: propext, Classical.choice, Quot.sound (audited by #print axioms on every run)",
    "Lean compiler for the native driver fdmodel (the model definitions the theorems are about are the ones executed)",
    "the Go harness (harness/), its generators and canonicaliser, and ./check itself",
    "verif-tagged hooks in /repo (export_verif.go files): they only expose unexported functions/fields",
]




# Properties not claimed, with the reason shown in MANIFEST.not_applicable (default text otherwise).
NOT_CLAIMED = {}

# Every checks/p_<ID>.py defines CFG, the configuration of property <ID>. Keys:
#   manifest      {text, note, technique}: present iff the property is claimed in MANIFEST.json
#   props_modules Lean modules holding the property theorems (default FileD.Props.<ID>)
#   regen         list of callables(root) -> (rc, out, err) regenerating Gen/*.lean from /repo
#   facts         list of (name, callable(repo) -> (ok, detail)) source facts backing the model
#   nontrivial    (case_tokens, impl_tokens) -> bool
#   classify      (case_tokens, impl_tokens) -> [labels] for the input-distribution histogram
#   signatures    {name: (case_toks, impl_toks, model_toks, finding_record) -> bool} for known_findings.jsonl
#   rule, corr_name, trusted_base, assumptions: text for the evidence file
#   trace         True when each case is a trace replayed through the model's step relation
#   chunk, timeout, widen_seeds, widen_cases: volume controls
import glob as _glob, importlib.util as _ilu, os as _os
PROPS = {}
for _p in sorted(_glob.glob(_os.path.join(_os.path.dirname(_os.path.abspath(__file__)), "p_C*.py"))):
    _id = _os.path.basename(_p)[2:-3]
    _spec = _ilu.spec_from_file_location("p_" + _id, _p)
    _m = _ilu.module_from_spec(_spec)
    _spec.loader.exec_module(_m)
    PROPS[_id] = _m.CFG
