"""C02 check configuration: per-stream commit order, exactly once, conservation on the real pipeline's boundary trace."""

import os, re


def _plugin_sources(repo):
    out = []
    for root, _, files in os.walk(os.path.join(repo, "plugin")):
        for f in files:
            if f.endswith(".go") and not f.endswith("_test.go") and "verif" not in f:
                out.append(os.path.join(root, f))
    return out


def _users(repo, pat):
    hits = []
    for p in _plugin_sources(repo):
        src = re.sub(r"//[^\n]*", "", open(p, errors="replace").read())
        if re.search(pat, src):
            hits.append(os.path.relpath(p, repo))
    return sorted(hits)


def fact_break_only_split(repo):
    """hypothesis of processor_obeys_discipline_partial: no plain action breaks; among the shipped plugins only split
    returns ActionBreak (after Spawn, which first flushes every busy action)"""
    hits = _users(repo, r"\bActionBreak\b")
    if hits != ["plugin/action/split/split.go"]:
        return False, "ActionBreak is returned by %r (modelled: only plugin/action/split/split.go)" % (hits,)
    return True, ""


def fact_hold_propagate_only_join(repo):
    """the holder of M3 is join.Do + flush: the only shipped code that returns ActionHold or calls Propagate"""
    hold = _users(repo, r"\bActionHold\b")
    prop = _users(repo, r"\.Propagate\(")
    if hold != ["plugin/action/join/join.go"] or prop != ["plugin/action/join/join.go"]:
        return False, "ActionHold in %r, Propagate( in %r (modelled: only plugin/action/join/join.go)" % (hold, prop)
    return True, ""


def _toks(kind, impl):
    return [t for t in impl if t.startswith(kind + ":")]


def nontrivial(c, i):
    # at least one commit notification and at least one batch of >= 2 events or a failed send or a drop
    commits = [t for t in i if t.startswith("fin:") and t.endswith(":3")]
    rich = any(t.startswith("send:") and ("," in t or ":fail:" in t) for t in i) or any(t.startswith("fin:") and t.endswith(":1") for t in i)
    return len(commits) >= 1 and rich


def classify(c, i):
    out = ["procs=" + c[1], "workers=" + c[5], "bcount=" + c[4], "pool=" + ("lowmem" if c[3] == "1" else "std"),
           "dq=" + c[7], "chain=" + ("none" if c[10] == "-" else "join" if "j" in c[10] else "verdicts")]
    if any(":fail:" in t for t in i): out.append("send-failed")
    if any(t.startswith("giveup:") for t in i): out.append("retries-exhausted")
    if any(t.startswith("tmo:") for t in i): out.append("stream-timeout")
    if any(t.startswith("prop:") for t in i): out.append("propagate")
    if any(t.startswith("fin:") and t.endswith(":1") for t in i): out.append("drop")
    if any(t.startswith("fin:") and t.endswith(":0") for t in i): out.append("hold")
    out.append("end=" + (i[-1] if i else "none"))
    return out


def sig_dq(c, i, m, rec, p):
    """P says the unfinished earlier event had been routed to the dead queue, and a dead queue is configured"""
    return c[7] == "1" and p.startswith("fail:dq:")


def shrink(case):
    """candidates with fewer events: drop halves, then single events (a case is `cmd 12 params nev (src stream spec)*`)"""
    t = case.split()
    head, n, ev = t[:13], int(t[13]), t[14:]
    evs = [ev[k:k + 3] for k in range(0, len(ev), 3)]
    out = []
    def mk(sub):
        return " ".join(head + [str(len(sub))] + [x for e in sub for x in e])
    if n > 3:
        out.append(mk(evs[: n // 2])); out.append(mk(evs[n // 2:]))
    for k in range(n):
        if n > 1:
            out.append(mk(evs[:k] + evs[k + 1:]))
    return out


CFG = {
    "shrink": shrink,
    "shrink_budget": 80,
    "manifest": {
        "text": "Proof: on the Lean model M1 of the commit path, commits_in_read_order_partial (commit notifications of a stream strictly increase in read order), commit_offsets_increase, no_double_finish (no event committed or dropped twice) and conservation (once idle, accepted = commits + drops, each exactly once) hold for every op list without a dead queue; with a dead queue the order clause is refuted by a proved counterexample (known finding). The hand-over discipline the stream layer M2 assumes of the processor is itself proved of a model of processor.go (M3: dischargeStream / processEvent / doActions / Propagate / Spawn with plain, join-like and split-like actions): processor_obeys_discipline_partial for every chain with at most one holding action and processor_obeys_discipline_any_chain for any number of holding actions when no plain action breaks (every input sequence, time-out placement and call depth); the full statement is refuted only by a plain action breaking upstream of a busy holder (processor_discipline_counterexample_break_upstream); the nested-Propagate defect the first model exhibited for two holders was repaired (fix: processor.Propagate). Tie: boundary traces of the real pipeline replayed through M1 and M2; M3 predicts, from the case alone, every processor-side operation (hold, drop, propagate, out) of every stream and is compared with the trace (c02.run, c02.proc, and the C01 / c04.run cases); the Spec oracle (order, once, nothing lost when idle) is evaluated on the trace itself.",
        "note": "Trusted: Lean kernel + standard axioms; fdmodel compilation; harness and trace hooks (verif tag). Assumed: Go mutex/cond/channel semantics; 'finished' = send returned nil or the error callback was invoked after the configured retries. The hand-over order guard of `add` is the interface to the stream/processor layer (checked on every trace; proved from the stream protocol in M2 where available). Not modelled: do_if conditions of actions, several busy-capable actions in one chain (outside the proved part), collapse-only plugins (parse_es, k8s multiline) as holders.",
        "technique": "Lean 4 proof (inductive invariant over op lists) + trace correspondence on the real pipeline",
    },
    "props_modules": ["FileD.Props.C02"],
    "facts": [("only split returns ActionBreak", fact_break_only_split),
              ("only join returns ActionHold / calls Propagate", fact_hold_propagate_only_join)],
    "trace": True,
    "parallel": 12,
    "chunk": 100000,
    "timeout": 1500,
    "widen_seeds": 1,
    "widen_cases": 200,
    "nontrivial": nontrivial,
    "classify": classify,
    "signatures": {"dq_routed": sig_dq},
    "rule": "c02.proc: single-stream, single-processor runs with breaks and discards anywhere in the chain, closed by two flushing events (M3 prediction only, no order oracle); c02.run: random pipeline configurations (procs 1/2/4/8, capacity 1..64, both pools, batch 1..4, workers 1..3, retries 0..2, failure patterns, optional dead queue, chains of scripted verdict actions and the real join plugin, 1-3 sources x 1-3 streams, 3-40 events) with PRNG jitter in actions / output / feeders; distinct = distinct case line; non-trivial = at least one commit and (a multi-event batch, a failed send or a drop)",
    "corr_name": "Core.step? accepts the boundary trace of the real pipeline (M1 ops: put, drop, add, seal, send, giveup, batch commit, commit)",
    "trusted_base": ["trace points in /repo/pipeline (stream.go, streamer.go, processor.go, pipeline.go, batch.go) log inside the lock that serialises the step",
                     "modelled, not verified: Go runtime (mutex, cond, channels), cenkalti/backoff timing",
                     "M3 (Model/Proc.lean) is hand-written from processor.go, join.go (Do, flush) and split.go (Do); tied by predicting the processor-side operations of every stream of every trace"],
    "assumptions": ["an event counts as finished when its batch's send returned nil or the error callback was invoked after the retries were exhausted",
                    "events of a stream are handed to the output in read order unless dropped (guard of `add`, established by the stream/processor layer and checked on every trace)"],
}
