"""C12 check configuration (see checks/props.py for the meaning of the keys)."""

DECODERS = {"c12.cri": "cri", "c12.pg": "postgres", "c12.nginx": "nginx", "c12.s3164": "rfc3164",
            "c12.s5424": "rfc5424", "c12.csv": "csv", "c12.raw": "raw", "c12.jcut": "jsoncut",
            "c12.json": "json", "c12.pb": "protobuf"}


def _kind(c, i):
    if not i:
        return "none"
    h = i[0]
    if h.startswith("panic") or any(t.startswith("panic") for t in i):
        return "panic"
    if h in ("ok", "err", "refused", "frame-violated"):
        return h
    return "bytes"          # c12.jcut prints the cut document


def _inner(c):
    """c12.row <inner case> E <expected…>  ->  (inner case tokens, is_row)"""
    if c and c[0] == "c12.row":
        k = c.index("E") if "E" in c else len(c)
        return c[1:k], True
    return c, False


def _conc(c):
    """c12.conc <workers> <iters> <k> <inner> ;; …  ->  (first inner case tokens, workers, iters, k)"""
    rest = c[4:]
    first = rest[:rest.index(";;")] if ";;" in rest else rest
    return first, c[1], c[2], c[3]


def c12_nontrivial(c, i):
    if c and c[0] == "c12.in":
        return bool(i) and i[0] == "ok"
    if c and c[0] == "c12.conc":
        return bool(i) and "unstable" not in i and not any(t.startswith("panic") for t in i)
    c, _ = _inner(c)
    # the decoder got past its first error exit: it produced a row / a cut / an event
    k = _kind(c, i)
    if c[0] == "c12.jcut":
        return len(i) == 1 and i[0] != c[-1]      # something was cut
    return k == "ok"


def c12_classify(c, i):
    if c and c[0] == "c12.in":
        mx, cut, fol, inner = int(c[1]), c[2], c[3], c[4]
        line = c[-1]
        n = 0 if line == "-" else len(line) // 2
        d = DECODERS.get(inner, "json" if inner == "c12.jsonl" else inner)
        rel = "nolimit" if mx == 0 else ("len<max" if n < mx else "len=max" if n == mx else "len=max+1" if n == mx + 1 else "len>max+1")
        out = ["family=pipeline-in", "in:dec=" + d, "in:" + rel, "in:cutoff=" + cut, "in:following=" + ("none" if fol == "-" else "some"),
               "in:" + (i[0] if i and i[0] in ("ok", "refused") else "panic" if any(t.startswith("panic") for t in i) else "other")]
        if i and i[0] == "ok" and "L" in i:
            # the event carries the cut mark iff a top-level key "cut" (hex 637574) is true
            toks = i[1:i.index("L")]
            out.append("in:cutmark=" + ("1" if any(toks[k] == "637574" and toks[k + 1] == "T" for k in range(len(toks) - 1)) else "0"))
        return out
    if c and c[0] == "c12.conc":
        first, workers, iters, k = _conc(c)
        d = DECODERS.get(first[0], first[0])
        out = ["family=concurrent-shared-decoder", "conc:dec=" + d, "conc:workers=" + workers, "conc:iters=" + iters,
               "conc:docs=" + k, "conc:calls=" + str(int(workers) * int(iters) * max(1, int(k) // int(workers)))]
        if first[0] == "c12.jcut":
            out.append("conc:jcut:paths=" + first[2])
        out.append("conc:" + ("unstable" if "unstable" in i else "panic" if any(t.startswith("panic") for t in i) else "stable"))
        return out
    c, is_row = _inner(c)
    d = DECODERS.get(c[0], c[0])
    out = ["dec=" + d, d + ":" + _kind(c, i)]
    if is_row:
        out.append(d + ":wellformed-row")
        if c[0] == "c12.csv":
            out.append("csv:row-delim=" + c[1])
    data = c[-1]
    n = 0 if data == "-" else len(data) // 2
    if c[0] not in ("c12.json",):
        out.append("len=" + ("0" if n == 0 else "1-8" if n <= 8 else "9-32" if n <= 32 else "33+"))
        if data.endswith("0d0a"):
            out.append("ends=crlf")
        elif data.endswith("0a"):
            out.append("ends=nl")
        else:
            out.append("ends=none")
    if c[0] == "c12.jcut":
        out.append("jcut:paths=" + c[2])
        out.append("jcut:" + ("cut" if (len(i) == 1 and i[0] != data) else "untouched"))
        out.append("jcut:valid=" + c[1])
    if c[0] == "c12.nginx":
        out.append("nginx:custom=" + c[1])
    if c[0] == "c12.csv":
        out.append("csv:cols=" + ("0" if c[4] == "0" else "n"))
    if "J" in i:
        j = i[i.index("J") + 1] if i.index("J") + 1 < len(i) else "?"
        out.append(d + ":tojson=" + ("err" if j == "err" else "panic" if j.startswith("panic") else "ok"))
    return out


CFG = {
    "manifest": {
        "text": "Proof: Lean theorems (Props/C12*.lean) about statement-by-statement models of the hand-written scanners "
                "(CRI, Postgres, nginx, syslog RFC3164/RFC5424, CSV, the json_max_fields_size cutting, RAW) in which every Go "
                "index/slice expression is a checked access: <dec>_total (no input panics), <dec>_frame (caller's buffer), "
                "<dec>_fields (decode(render row) = row), jsoncut_valid. The models are tied to the real exported decoder "
                "functions on every run: exhaustive strings over each format's delimiter alphabet, structured rows, a malformed stream.",
        "note": "Trusted: Lean kernel + the three standard axioms; fdmodel compilation; harness; oracle parameters "
                "(bytes.TrimSpace, unicode.IsLetter on non-ASCII keys, gjson.Valid/Get). insane-json and the protobuf decoder are "
                "library code: compared differentially (reference JSON codec / no-panic), not proved. Ten genuine panics / one "
                "invalid-JSON defect were repaired by fix: commits; the theorems are about the fixed code.",
        "technique": "Lean 4 proof (totality by bounds reasoning over checked accesses, round trips by induction) + differential correspondence",
    },
    "props_modules": ["FileD.Props.C12", "FileD.Props.C12F", "FileD.Props.C12J"],
    "nontrivial": c12_nontrivial,
    "classify": c12_classify,
    "rule": "per format: every string over the format's delimiter alphabet (4-8 letters, incl. multi-byte tokens) up to length 4-9 "
            "(bare and after a well-formed head), then well-formed rows with their expected fields (c12.row: P fails unless the IMPLEMENTATION decodes exactly the row; csv: every delimiter class incl. tab and space, empty first/middle/last cells, quoted cells with delimiter/quotes/newlines, terminators none/LF/CRLF), random structured rows built from a word pool (with / without \\n, \\r\\n), "
            "then mutations of those (truncation, byte flips, delimiter injection, deletion); JSON documents from the jt generator; "
            "protobuf wire messages and mutations. distinct = distinct case line; non-trivial = the decoder produced a row / cut a field",
    "corr_name": "Dec.<X>.decode = decoder.Decode<X> / (*<x>Decoder).Decode + DecodeToJson (row fields, caller's buffer after the call, event built)",
    "trusted_base": [
        "oracle parameters shipped in the case line and evaluated by the harness with the real library: bytes.TrimSpace (CSV last field), "
        "unicode.IsLetter on non-ASCII nginx custom-field keys, gjson.ValidBytes / gjson.GetBytes (Index, len(Str), len(Raw))",
        "bytes.Reader.ReadByte in parseStructuredData is read as data[idx] / EOF at len(data)",
        "insane-json (decode, encode, AddFieldNoAlloc = insert-or-return-existing) and protocompile/dynamicpb/protojson: library code, compared differentially only",
        "Go `int` arithmetic of atoi is modelled in unbounded Int (the value is used for at most 4 digits)",
    ],
    "assumptions": [
        "decoding is a function of (document, parameters): a call's result does not depend on other calls, concurrent or not, on the same "
        "decoder instance. Not a theorem (the models are pure functions, Go's shared state is outside them): checked by the c12.conc family, "
        "one shared decoder (json with 0/1/>=2 json_max_fields_size paths, csv with its sync.Pool, nginx, syslog) under 4-8 goroutines, "
        "every call's result compared with the model's sequential answer",
        "json_max_fields_size limits are >= 0 and paths are plain key paths (gjson modifiers / wildcards are configuration, not input)",
        "csv invalid_line_mode=fatal is not exercised (it calls logger.Fatalf by design)",
        "RAW: Pipeline.In refuses empty input before slicing (checkInputBytes), so bytes[:len-1] is in range",
    ],
    "signatures": {},
    "chunk": 40000,
}
