"""C01 check configuration: commit frontier safety on the real pipeline's boundary trace."""


def _toks(kind, impl):
    return [t for t in impl if t.startswith(kind + ":")]


def nontrivial(c, i):
    if c[0] == "c01.stream":
        return any(t == "timeout" for t in i) or any(t == "put" for t in i)
    if c[0] == "c01.retry":
        return "x" in i
    # at least one commit notification and at least one batch of >= 2 events or a failed send or a drop
    commits = [t for t in i if t.startswith("fin:") and t.endswith(":3")]
    rich = any(t.startswith("send:") and ("," in t or ":fail:" in t) for t in i) or any(t.startswith("fin:") and t.endswith(":1") for t in i)
    return len(commits) >= 1 and rich


def classify(c, i):
    if c[0] == "c01.stream":
        return ["cmd=c01.stream", "stream-level: put immediately followed by a heartbeat round"]
    if c[0] == "c01.retry":
        return ["cmd=c01.retry", "retry-level: Stop while a failing batch is in its back-off pause"]
    out = ["procs=" + c[1], "workers=" + c[5], "bcount=" + c[4], "pool=" + ("lowmem" if c[3] == "1" else "std"),
           "dq=" + c[7], "chain=" + ("none" if c[10] == "-" else "join" if "j" in c[10] else "verdicts")]
    if any(":fail:" in t for t in i): out.append("send-failed")
    if any(t.startswith("giveup:") for t in i): out.append("retries-exhausted")
    if any(t.startswith("tmo:") for t in i): out.append("stream-timeout")
    if any(t.startswith("prop:") for t in i): out.append("propagate")
    if any(t.startswith("fin:") and t.endswith(":1") for t in i): out.append("drop")
    if any(t.startswith("fin:") and t.endswith(":0") for t in i): out.append("hold")
    out.append("end=" + (i[-1] if i else "none"))
    return out


def sig_dq(c, i, m, rec, p):
    """P says the unfinished earlier event had been routed to the dead queue, and a dead queue is configured"""
    return c[0] not in ("c01.stream", "c01.retry") and c[7] == "1" and p.startswith("fail:dq:")


def shrink(case):
    """candidates with fewer events: drop halves, then single events (a case is `cmd 12 params nev (src stream spec)*`)"""
    t = case.split()
    if t[0] in ("c01.stream", "c01.retry"):
        return []
    head, n, ev = t[:13], int(t[13]), t[14:]
    evs = [ev[k:k + 3] for k in range(0, len(ev), 3)]
    out = []
    def mk(sub):
        return " ".join(head + [str(len(sub))] + [x for e in sub for x in e])
    if n > 3:
        out.append(mk(evs[: n // 2])); out.append(mk(evs[n // 2:]))
    for k in range(n):
        if n > 1:
            out.append(mk(evs[:k] + evs[k + 1:]))
    return out


CFG = {
    "shrink": shrink,
    "shrink_budget": 80,
    "manifest": {
        "text": "Proof: Lean model M1 of the commit path (acceptance, drops, main + dead-queue batchers, retry exhaustion, commit loop) as a transition system; theorems frontier_safe_partial / frontier_acked_if_never_given_up / restart_never_skips hold for every op list (every interleaving, batch size, worker count, failure pattern) without a dead queue; the full statement is refuted by a proved counterexample with a dead queue (known finding). Tie: the real pipeline runs under a harness input, scripted actions + the real join plugin and an output on the real RetriableBatcher; its boundary trace (logged inside the serialising locks) is replayed through the model's step relation and the Spec oracle is evaluated on the trace itself.",
        "note": "Trusted: Lean kernel + standard axioms; fdmodel compilation; harness and trace hooks (verif tag). Assumed: Go mutex/cond/channel semantics; 'finished' = send returned nil or the error callback was invoked after the configured retries. The hand-over order guard of `add` is the interface to the stream/processor layer (checked on every trace; proved from the stream protocol in M2 where available). Not modelled: Spawn/split children, action internals.",
        "technique": "Lean 4 proof (inductive invariant over op lists) + trace correspondence on the real pipeline",
    },
    "props_modules": ["FileD.Props.C01"],
    "trace": True,
    "parallel": 12,
    "chunk": 100000,
    "timeout": 1500,
    "widen_seeds": 1,
    "widen_cases": 200,
    "nontrivial": nontrivial,
    "classify": classify,
    "signatures": {"dq_routed": sig_dq},
    "rule": "random pipeline configurations (procs 1/2/4/8, capacity 1..64, both pools, batch 1..4, workers 1..3, retries 0..2, failure patterns, optional dead queue, chains of scripted verdict actions and the real join plugin, 1-3 sources x 1-3 streams, 3-40 events) with PRNG jitter in actions / output / feeders; distinct = distinct case line; non-trivial = at least one commit and (a multi-event batch, a failed send or a drop)",
    "corr_name": "Core.step? accepts the boundary trace of the real pipeline (M1 ops: put, drop, add, seal, send, giveup, batch commit, commit)",
    "trusted_base": ["trace points in /repo/pipeline (stream.go, streamer.go, processor.go, pipeline.go, batch.go) log inside the lock that serialises the step",
                     "modelled, not verified: Go runtime (mutex, cond, channels), cenkalti/backoff timing"],
    "assumptions": ["an event counts as finished when its batch's send returned nil or the error callback was invoked after the retries were exhausted",
                    "events of a stream are handed to the output in read order unless dropped (guard of `add`, established by the stream/processor layer and checked on every trace)"],
}
