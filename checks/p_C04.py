"""C04 check configuration (see checks/props.py for the meaning of the keys)."""


def _blocks(i):
    out, cur = [], []
    for t in i:
        if t == ";":
            out.append(cur); cur = []
        else:
            cur.append(t)
    return out


def c04_nontrivial(c, i):
    if c[0] in ("c04.run", "c02.run"):
        return any(t.startswith("fin:") for t in i)
    if c[0] == "c04.pool":
        # some reader had to wait (slow path reached) or stood at the gate
        return "wait" in i or "gate" in i
    return len(i) > 4


def c04_classify(c, i):
    out = [c[0]]
    if c[0] in ("c04.run", "c02.run"):
        out.append("pipeline-procs=" + c[1])
        if any(t.startswith("tmo:") for t in i): out.append("stream-timeout")
        if any(t.startswith("fin:") and t.endswith(":0") for t in i): out.append("hold")
        out.append("end=" + (i[-1] if i else "none"))
        return out
    if c[0] == "c04.pool":
        out.append("pool=" + c[1])
        out.append("cap=" + (c[2] if int(c[2]) < 4 else "4+"))
        bl = _blocks(i)
        out.append("blocks=" + ("0-4" if len(bl) < 5 else "5-9" if len(bl) < 10 else "10+"))
        if "gate" in i: out.append("gate-held")
        if "wait" in i: out.append("reader-waited")
        if "spin" in i: out.append("back-spun")
        # the lost-wake-up window was exercised: a back while somebody stands at the gate
        for b in bl:
            if b and b[0].startswith("b") and "gate" in b:
                out.append("back-inside-window"); break
    elif c[0] == "c04.hbstress":
        out.append("real-heartbeat-goroutine")
    elif c[0] == "c04.burst":
        out.append("pool=" + c[1])
    elif c[0] == "c04.stream":
        if any(t.startswith("U") for t in c[3:]): out.append("burst-of-charges")
        out.append("procs=" + c[1])
        for k in ("pop", "att", "leave", "det", "to", "park", "bwait", "stale"):
            if k in i: out.append("op:" + k)
    return out


# ---------------------------------------------------------------- source fact
# VerifStreamer.Heartbeat (pipeline/export_verif_c04.go) is a copy of one iteration of streamer.heartbeat's
# loop (which cannot be called without its Sleep and endless loop). The fact: both, comments and blanks
# removed, are the same statements (the hook additionally counts the time-outs). A change of the real loop
# breaks the tie; the stress family c04.hbstress runs the real goroutine.
import os as _os, re as _re


def _strip_go(src):
    src = _re.sub(r"/\*.*?\*/", "", src, flags=_re.S)
    src = _re.sub(r"//[^\n]*", "", src)
    return [_re.sub(r"\s+", " ", l).strip() for l in src.split("\n") if l.strip()]


def fact_heartbeat_iteration(repo):
    d = _os.path.join(repo, "pipeline")
    real = _strip_go(open(_os.path.join(d, "streamer.go")).read())
    raw = open(_os.path.join(d, "export_verif_c04.go")).read()
    try:
        a = real.index("func (s *streamer) heartbeat() {")
        a = real.index("for {", a)
        e = real.index("func (s *streamer) dump() string {", a)
        # loop body = lines after the shouldStop test up to the two closing braces of loop and func
        k = real.index("if s.shouldStop.Load() {", a)
        body = real[k + 3:e]
        while body and body[-1] == "}":
            body.pop()
        body.append("}")  # the range loop's own brace
        ha = raw.index("// heartbeat-iteration-begin")
        hb = raw.index("// heartbeat-iteration-end")
        hook = _strip_go(raw[ha:hb])
    except ValueError as ex:
        return False, "heartbeat loop / hook not found in the expected shape: %s" % ex
    txt = " ".join(hook).replace("if stream.tryUnblock() { n++ }", "stream.tryUnblock()")
    if " ".join(body) != txt:
        return False, "streamer.heartbeat iteration differs from VerifStreamer.Heartbeat: real=%r hook=%r" % (" ".join(body), txt)
    if "go s.heartbeat()" not in real:
        return False, "streamer.start no longer runs heartbeat"
    return True, ""


CFG = {
    "manifest": {
        "text": "Proof: Lean theorems (Props/C04.lean) over transition-system models of both event pools (one op per atomic operation, Cond.Wait split into enqueue-and-unlock / re-lock) and of stream.go + streamer.go (one op per trace point). Pools: lowmem_waiter_resumes (repaired heartbeat notifies every parked reader when inUse < capacity, every reachable state; the unchanged heartbeat is refuted by lowmem_heartbeat_counterexample / lowmem_unfixed_wedged_forever from the lost-wake-up state), lowmem_woken_gets, std_waiter_resumes, std_woken_takes. Streams: charged_exact, single_owner, detach_only_when_caught_up, no_sleeping_proc_with_work, charge_signals, no_blocked_owner_with_work, blocked_gets_timeout, stream_never_panics. Tie: gated sequential schedules on the real pools (gate between availability check and Cond.Wait, shortened and switched-off heartbeat) and on the real streamer (gate between pop and attach), replayed op by op through the models on every run. Processor side (Props/C04Proc.lean, model M3 of processor.go shared with C02): timeout_flushes_held_event — in a chain with one holding action a time-out event is delivered to the busy holder whatever action handled the previous event, the held event is re-injected and leaves the processor, and processEvent returns with nothing busy (the repaired timeoutAction); timeout_releases_collapser — a collapse-only action (busy without holding an event) answers the time-out with a discard and its busy flag is reset, so the processor leaves the silent stream; a c04.run case ends idle only when every processor has left its stream; M3 is tied to the code by predicting the processor-side operations of every c04.run trace.",
        "note": "Liveness is bounded response in logical heartbeat ticks; scheduler fairness and real-time bounds are assumed. The batcher flush clause belongs to C08. Trusted: sync.Cond / sync.Mutex / atomic semantics as modelled.",
        "technique": "Lean 4 proof (inductive invariants over all op lists, bounded response) + gated trace replay against the real pools and streamer",
    },
    "props_modules": ["FileD.Props.C04", "FileD.Props.C04Proc"],
    "trace": True,
    "nontrivial": c04_nontrivial,
    "classify": c04_classify,
    "parallel": 8,
    "chunk": 4000,
    "timeout": 1200,
    "widen_seeds": 1,
    "widen_cases": 600,
    "rule": "pool schedules: the lost-wake-up window at capacities 1..4 on both pools, every op sequence of length 2 (quick) / 3 (thorough) over {get, gated get, release, back} x 3 readers after a first get at capacity 1, then random gated schedules (capacity 1..8, cap+1..cap+3 readers, 5-14 ops); stream schedules: random put/join/get/commit/timeout schedules with 1..3 processors and 1..3 streams; non-trivial = some reader waited or stood at the gate / the stream trace has more than 4 ops",
    "corr_name": "Pool.LM / Pool.Std macro replay = real lowMemoryEventPool / eventPool under gated sequential schedules; Stream model = real streamer+stream under sequential schedules",
    "trusted_base": [
        "Go runtime semantics as modelled: sync.Cond.Wait = enqueue-and-unlock then re-lock after a notify; Broadcast without waiters is lost; atomic Inc/Dec/CAS are single steps",
        "the heartbeat goroutines are observed through a shortened interval (1 ms): a block is observed after at least two rounds; real-time bounds (5 s / 200 ms) and scheduler fairness are assumed, not proved",
        "a reader at the verif gate holds the pool mutex exactly as it would inside the window; the gate adds no synchronisation when no harness is installed",
    ],
    "assumptions": ["weak fairness of the Go scheduler and firing timers", "the output keeps acknowledging batches (C08 covers the batcher flush)"],
    "signatures": {},
}
