// Package hx: token codec and deterministic PRNG shared by all harness commands.
package hx

import (
	"encoding/hex"
	"fmt"
	"strconv"
	"strings"
)

// Enc encodes a byte string as one token ("-" for empty).
func Enc(b []byte) string {
	if len(b) == 0 {
		return "-"
	}
	return hex.EncodeToString(b)
}

// Dec decodes a token produced by Enc.
func Dec(s string) ([]byte, error) {
	if s == "-" {
		return []byte{}, nil
	}
	return hex.DecodeString(s)
}

func B(b bool) string {
	if b {
		return "1"
	}
	return "0"
}

// Toks is a cursor over the tokens of a case line.
type Toks struct {
	T   []string
	Pos int
	Err error
}

func NewToks(line string) *Toks { return &Toks{T: strings.Fields(line)} }

func (t *Toks) Next() string {
	if t.Err != nil {
		return ""
	}
	if t.Pos >= len(t.T) {
		t.Err = fmt.Errorf("unexpected end of case line")
		return ""
	}
	s := t.T[t.Pos]
	t.Pos++
	return s
}

func (t *Toks) Int() int {
	s := t.Next()
	if t.Err != nil {
		return 0
	}
	n, err := strconv.Atoi(s)
	if err != nil {
		t.Err = err
	}
	return n
}

func (t *Toks) Int64() int64 {
	s := t.Next()
	if t.Err != nil {
		return 0
	}
	n, err := strconv.ParseInt(s, 10, 64)
	if err != nil {
		t.Err = err
	}
	return n
}

func (t *Toks) Uint64() uint64 {
	s := t.Next()
	if t.Err != nil {
		return 0
	}
	n, err := strconv.ParseUint(s, 10, 64)
	if err != nil {
		t.Err = err
	}
	return n
}

func (t *Toks) Bool() bool { return t.Next() == "1" }

func (t *Toks) Bytes() []byte {
	s := t.Next()
	if t.Err != nil {
		return nil
	}
	b, err := Dec(s)
	if err != nil {
		t.Err = err
	}
	return b
}

func (t *Toks) Done() bool { return t.Pos >= len(t.T) }

// Rng is splitmix64: every random choice of a run derives from one seed.
type Rng struct{ s uint64 }

func NewRng(seed uint64) *Rng {
	// the seed is mixed first: consecutive seeds must not give shifted copies of one stream
	z := seed + 0x632BE59BD9B4E019
	z = (z ^ (z >> 30)) * 0xBF58476D1CE4E5B9
	z = (z ^ (z >> 27)) * 0x94D049BB133111EB
	return &Rng{s: z ^ (z >> 31)}
}

func (r *Rng) U64() uint64 {
	r.s += 0x9E3779B97F4A7C15
	z := r.s
	z = (z ^ (z >> 30)) * 0xBF58476D1CE4E5B9
	z = (z ^ (z >> 27)) * 0x94D049BB133111EB
	return z ^ (z >> 31)
}

// Intn returns a value in [0,n).
func (r *Rng) Intn(n int) int {
	if n <= 0 {
		return 0
	}
	return int(r.U64() % uint64(n))
}

// Range returns a value in [lo,hi].
func (r *Rng) Range(lo, hi int) int { return lo + r.Intn(hi-lo+1) }

func (r *Rng) Bool() bool { return r.U64()&1 == 1 }

// Chance returns true with probability num/den.
func (r *Rng) Chance(num, den int) bool { return r.Intn(den) < num }

func (r *Rng) Pick(xs []string) string { return xs[r.Intn(len(xs))] }

// Bytes returns n bytes drawn from alphabet.
func (r *Rng) Bytes(n int, alphabet []byte) []byte {
	b := make([]byte, n)
	for i := range b {
		b[i] = alphabet[r.Intn(len(alphabet))]
	}
	return b
}
