// Package jt: JSON trees that preserve key order and duplicate keys, their prefix token form
// (same as lean/FileD/Prelude/JTree.lean), a JSON text encoder, a structured generator and the
// conversion from insane-json nodes.
package jt

import (
	"fmt"
	"strconv"
	"strings"
	"unicode/utf8"

	insaneJSON "github.com/ozontech/insane-json"

	"verifharness/internal/hx"
)

type Kind int

const (
	Null Kind = iota
	Bool
	Num
	Str
	Arr
	Obj
)

type KV struct {
	K []byte
	V *Tree
}

type Tree struct {
	Kind Kind
	B    bool
	Raw  []byte // Num: literal text; Str: decoded bytes
	Arr  []*Tree
	Obj  []KV
}

func N() *Tree               { return &Tree{Kind: Null} }
func Bo(b bool) *Tree        { return &Tree{Kind: Bool, B: b} }
func Nu(raw string) *Tree    { return &Tree{Kind: Num, Raw: []byte(raw)} }
func S(s string) *Tree       { return &Tree{Kind: Str, Raw: []byte(s)} }
func A(xs ...*Tree) *Tree    { return &Tree{Kind: Arr, Arr: xs} }
func O(kvs ...KV) *Tree      { return &Tree{Kind: Obj, Obj: kvs} }
func F(k string, v *Tree) KV { return KV{K: []byte(k), V: v} }

// Tok writes the prefix token form.
func (t *Tree) Tok() string {
	var sb strings.Builder
	t.tok(&sb)
	return strings.TrimSpace(sb.String())
}

func (t *Tree) tok(sb *strings.Builder) {
	switch t.Kind {
	case Null:
		sb.WriteString("Z ")
	case Bool:
		if t.B {
			sb.WriteString("T ")
		} else {
			sb.WriteString("F ")
		}
	case Num:
		sb.WriteString("N " + hx.Enc(t.Raw) + " ")
	case Str:
		sb.WriteString("S " + hx.Enc(t.Raw) + " ")
	case Arr:
		sb.WriteString("A " + strconv.Itoa(len(t.Arr)) + " ")
		for _, x := range t.Arr {
			x.tok(sb)
		}
	case Obj:
		sb.WriteString("O " + strconv.Itoa(len(t.Obj)) + " ")
		for _, kv := range t.Obj {
			sb.WriteString(hx.Enc(kv.K) + " ")
			kv.V.tok(sb)
		}
	}
}

// Parse reads one tree from a token cursor.
func Parse(t *hx.Toks) *Tree {
	switch t.Next() {
	case "Z":
		return N()
	case "T":
		return Bo(true)
	case "F":
		return Bo(false)
	case "N":
		return &Tree{Kind: Num, Raw: t.Bytes()}
	case "S":
		return &Tree{Kind: Str, Raw: t.Bytes()}
	case "A":
		n := t.Int()
		r := &Tree{Kind: Arr}
		for i := 0; i < n && t.Err == nil; i++ {
			r.Arr = append(r.Arr, Parse(t))
		}
		return r
	case "O":
		n := t.Int()
		r := &Tree{Kind: Obj}
		for i := 0; i < n && t.Err == nil; i++ {
			k := t.Bytes()
			r.Obj = append(r.Obj, KV{K: k, V: Parse(t)})
		}
		return r
	default:
		if t.Err == nil {
			t.Err = fmt.Errorf("bad tree token")
		}
		return N()
	}
}

// JSON renders JSON text. Strings are escaped minimally (quote, backslash, control bytes);
// bytes >= 0x80 are written raw, so invalid UTF-8 stays invalid UTF-8 in the text.
func (t *Tree) JSON() []byte { return t.AppendJSON(nil) }

func (t *Tree) AppendJSON(out []byte) []byte {
	switch t.Kind {
	case Null:
		return append(out, "null"...)
	case Bool:
		if t.B {
			return append(out, "true"...)
		}
		return append(out, "false"...)
	case Num:
		return append(out, t.Raw...)
	case Str:
		return AppendQuoted(out, t.Raw)
	case Arr:
		out = append(out, '[')
		for i, x := range t.Arr {
			if i > 0 {
				out = append(out, ',')
			}
			out = x.AppendJSON(out)
		}
		return append(out, ']')
	default:
		out = append(out, '{')
		for i, kv := range t.Obj {
			if i > 0 {
				out = append(out, ',')
			}
			out = AppendQuoted(out, kv.K)
			out = append(out, ':')
			out = kv.V.AppendJSON(out)
		}
		return append(out, '}')
	}
}

const hexd = "0123456789abcdef"

func AppendQuoted(out, s []byte) []byte {
	out = append(out, '"')
	for _, c := range s {
		switch {
		case c == '"':
			out = append(out, '\\', '"')
		case c == '\\':
			out = append(out, '\\', '\\')
		case c == '\n':
			out = append(out, '\\', 'n')
		case c == '\r':
			out = append(out, '\\', 'r')
		case c == '\t':
			out = append(out, '\\', 't')
		case c < 0x20:
			out = append(out, '\\', 'u', '0', '0', hexd[c>>4], hexd[c&15])
		default:
			out = append(out, c)
		}
	}
	return append(out, '"')
}

// FromNode converts an insane-json node (keys and strings decoded).
func FromNode(n *insaneJSON.Node) *Tree {
	switch {
	case n == nil || n.IsNil():
		return N()
	case n.IsObject():
		r := &Tree{Kind: Obj}
		for _, f := range n.AsFields() {
			r.Obj = append(r.Obj, KV{K: []byte(f.AsString()), V: FromNode(f.AsFieldValue())})
		}
		return r
	case n.IsArray():
		r := &Tree{Kind: Arr}
		for _, e := range n.AsArray() {
			r.Arr = append(r.Arr, FromNode(e))
		}
		return r
	case n.IsString():
		return &Tree{Kind: Str, Raw: []byte(n.AsString())}
	case n.IsNumber():
		return &Tree{Kind: Num, Raw: []byte(n.AsString())}
	case n.IsTrue():
		return Bo(true)
	case n.IsFalse():
		return Bo(false)
	default:
		return N()
	}
}

// Equal is exact equality (key order and duplicates included).
func Equal(a, b *Tree) bool { return a.Tok() == b.Tok() }

// Gen parameters.
type GenCfg struct {
	MaxDepth   int
	MaxWidth   int
	Keys       []string // key pool (unique keys are drawn without replacement)
	Strings    []string // string pool; random strings are mixed in
	UniqueKeys bool
	BadUTF8    bool // allow invalid UTF-8 bytes in string values
}

var DefaultKeys = []string{"a", "b", "c", "d", "e", "level", "msg", "ts", "k.dot", "k\\esc", "ключ", ""}
var DefaultStrings = []string{"", "x", "abc", "error", "ERROR", "a b", "line\n2", "q\"uote", "back\\slash", "tab\t", "юникод", "Ⱥ", "K", "0", "123", "-1", "null", "true", "\x00"}

func (c GenCfg) withDefaults() GenCfg {
	if c.MaxDepth == 0 {
		c.MaxDepth = 3
	}
	if c.MaxWidth == 0 {
		c.MaxWidth = 4
	}
	if c.Keys == nil {
		c.Keys = DefaultKeys
	}
	if c.Strings == nil {
		c.Strings = DefaultStrings
	}
	return c
}

var numbers = []string{"0", "1", "-1", "42", "3.14", "1e5", "-0", "123456789012345678901234567890", "9223372036854775807", "1E-3", "0.0"}

// GenObj generates a random object.
func GenObj(r *hx.Rng, c GenCfg) *Tree {
	c = c.withDefaults()
	return genObj(r, c, 0)
}

// GenValue generates a random value of any kind.
func GenValue(r *hx.Rng, c GenCfg) *Tree {
	c = c.withDefaults()
	return genVal(r, c, 0)
}

func genStr(r *hx.Rng, c GenCfg) []byte {
	if r.Chance(2, 3) {
		return []byte(c.Strings[r.Intn(len(c.Strings))])
	}
	n := r.Range(0, 12)
	alpha := []byte("abcXYZ019 _-.:/\"\\\n{}[],")
	b := r.Bytes(n, alpha)
	if c.BadUTF8 && r.Chance(1, 4) {
		b = append(b, 0xff, 0xc3)
	}
	if !c.BadUTF8 && !utf8.Valid(b) {
		return []byte("v")
	}
	return b
}

func genObj(r *hx.Rng, c GenCfg, depth int) *Tree {
	t := &Tree{Kind: Obj}
	w := r.Range(0, c.MaxWidth)
	used := map[string]bool{}
	for i := 0; i < w; i++ {
		k := c.Keys[r.Intn(len(c.Keys))]
		if c.UniqueKeys && used[k] {
			continue
		}
		used[k] = true
		t.Obj = append(t.Obj, KV{K: []byte(k), V: genVal(r, c, depth+1)})
	}
	return t
}

func genVal(r *hx.Rng, c GenCfg, depth int) *Tree {
	k := r.Intn(10)
	if depth >= c.MaxDepth && k >= 7 {
		k = r.Intn(7)
	}
	switch k {
	case 0:
		return N()
	case 1:
		return Bo(r.Bool())
	case 2, 3:
		return Nu(numbers[r.Intn(len(numbers))])
	case 4, 5, 6:
		return &Tree{Kind: Str, Raw: genStr(r, c)}
	case 7:
		t := &Tree{Kind: Arr}
		n := r.Range(0, c.MaxWidth)
		for i := 0; i < n; i++ {
			t.Arr = append(t.Arr, genVal(r, c, depth+1))
		}
		return t
	default:
		return genObj(r, c, depth)
	}
}
