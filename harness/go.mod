module verifharness

go 1.25

toolchain go1.25.5

require (
	github.com/bitly/go-simplejson v0.5.1
	github.com/klauspost/compress v1.18.4
	github.com/ozontech/file.d v0.0.0
	github.com/ozontech/insane-json v0.1.9
	github.com/prometheus/client_golang v1.16.0
	github.com/tidwall/gjson v1.18.0
	github.com/twmb/franz-go v1.20.7
	github.com/twmb/franz-go/pkg/kmsg v1.12.0
	go.uber.org/zap v1.27.0
	k8s.io/api v0.34.2
)

require (
	github.com/andybalholm/brotli v1.0.5 // indirect
	github.com/armon/go-radix v0.0.0-20180808171621-7fddfc383310 // indirect
	github.com/beorn7/perks v1.0.1 // indirect
	github.com/bmatcuk/doublestar/v4 v4.8.1 // indirect
	github.com/bufbuild/protocompile v0.13.0 // indirect
	github.com/cenkalti/backoff/v4 v4.3.0 // indirect
	github.com/cespare/xxhash/v2 v2.3.0 // indirect
	github.com/davecgh/go-spew v1.1.2-0.20180830191138-d8f796af33cc // indirect
	github.com/dgryski/go-rendezvous v0.0.0-20200823014737-9f7001d12a5f // indirect
	github.com/dominikbraun/graph v0.23.0 // indirect
	github.com/elliotchance/orderedmap/v2 v2.4.0 // indirect
	github.com/emicklei/go-restful/v3 v3.12.2 // indirect
	github.com/fxamacker/cbor/v2 v2.9.0 // indirect
	github.com/go-faster/errors v0.7.1 // indirect
	github.com/go-faster/jx v1.1.0 // indirect
	github.com/go-jose/go-jose/v4 v4.1.1 // indirect
	github.com/go-logr/logr v1.4.2 // indirect
	github.com/go-openapi/jsonpointer v0.21.0 // indirect
	github.com/go-openapi/jsonreference v0.20.2 // indirect
	github.com/go-openapi/swag v0.23.0 // indirect
	github.com/gogo/protobuf v1.3.2 // indirect
	github.com/golang/protobuf v1.5.4 // indirect
	github.com/google/gnostic-models v0.7.0 // indirect
	github.com/google/uuid v1.6.0 // indirect
	github.com/hashicorp/errwrap v1.1.0 // indirect
	github.com/hashicorp/go-cleanhttp v0.5.2 // indirect
	github.com/hashicorp/go-multierror v1.1.1 // indirect
	github.com/hashicorp/go-retryablehttp v0.7.8 // indirect
	github.com/hashicorp/go-rootcerts v1.0.2 // indirect
	github.com/hashicorp/go-secure-stdlib/parseutil v0.2.0 // indirect
	github.com/hashicorp/go-secure-stdlib/strutil v0.1.2 // indirect
	github.com/hashicorp/go-sockaddr v1.0.7 // indirect
	github.com/hashicorp/golang-lru/v2 v2.0.7 // indirect
	github.com/hashicorp/hcl v1.0.1-vault-7 // indirect
	github.com/hashicorp/vault/api v1.22.0 // indirect
	github.com/josharian/intern v1.0.0 // indirect
	github.com/json-iterator/go v1.1.12 // indirect
	github.com/mailru/easyjson v0.7.7 // indirect
	github.com/matttproud/golang_protobuf_extensions v1.0.4 // indirect
	github.com/mitchellh/mapstructure v1.5.0 // indirect
	github.com/modern-go/concurrent v0.0.0-20180306012644-bacd9c7ef1dd // indirect
	github.com/modern-go/reflect2 v1.0.3-0.20250322232337-35a7c28c31ee // indirect
	github.com/munnerz/goautoneg v0.0.0-20191010083416-a7dc8b61c822 // indirect
	github.com/pierrec/lz4/v4 v4.1.25 // indirect
	github.com/pkg/errors v0.9.1 // indirect
	github.com/pmezard/go-difflib v1.0.1-0.20181226105442-5d4384ee4fb2 // indirect
	github.com/prometheus/client_model v0.3.0 // indirect
	github.com/prometheus/common v0.42.0 // indirect
	github.com/prometheus/procfs v0.10.1 // indirect
	github.com/redis/go-redis/v9 v9.8.0 // indirect
	github.com/rjeczalik/notify v0.9.3 // indirect
	github.com/ryanuber/go-glob v1.0.0 // indirect
	github.com/segmentio/asm v1.2.0 // indirect
	github.com/spf13/pflag v1.0.6 // indirect
	github.com/stretchr/testify v1.10.0 // indirect
	github.com/tidwall/match v1.1.1 // indirect
	github.com/tidwall/pretty v1.2.1 // indirect
	github.com/timtadh/data-structures v0.6.1 // indirect
	github.com/timtadh/lexmachine v0.2.3 // indirect
	github.com/twmb/franz-go/plugin/kzap v1.1.2 // indirect
	github.com/twmb/tlscfg v1.2.1 // indirect
	github.com/valyala/bytebufferpool v1.0.0 // indirect
	github.com/valyala/fasthttp v1.48.0 // indirect
	github.com/x448/float16 v0.8.4 // indirect
	go.uber.org/atomic v1.11.0 // indirect
	go.uber.org/multierr v1.11.0 // indirect
	go.yaml.in/yaml/v2 v2.4.2 // indirect
	go.yaml.in/yaml/v3 v3.0.4 // indirect
	golang.org/x/crypto v0.48.0 // indirect
	golang.org/x/net v0.49.0 // indirect
	golang.org/x/oauth2 v0.27.0 // indirect
	golang.org/x/sync v0.19.0 // indirect
	golang.org/x/sys v0.41.0 // indirect
	golang.org/x/term v0.40.0 // indirect
	golang.org/x/text v0.34.0 // indirect
	golang.org/x/time v0.12.0 // indirect
	google.golang.org/protobuf v1.36.5 // indirect
	gopkg.in/evanphx/json-patch.v4 v4.12.0 // indirect
	gopkg.in/inf.v0 v0.9.1 // indirect
	gopkg.in/yaml.v2 v2.4.0 // indirect
	gopkg.in/yaml.v3 v3.0.1 // indirect
	k8s.io/apimachinery v0.34.2 // indirect
	k8s.io/client-go v0.34.2 // indirect
	k8s.io/klog/v2 v2.130.1 // indirect
	k8s.io/kube-openapi v0.0.0-20250710124328-f3f2b991d03b // indirect
	k8s.io/utils v0.0.0-20250604170112-4c0f3b243397 // indirect
	sigs.k8s.io/json v0.0.0-20241014173422-cfa47c3a1cc8 // indirect
	sigs.k8s.io/randfill v1.0.0 // indirect
	sigs.k8s.io/structured-merge-diff/v6 v6.3.0 // indirect
	sigs.k8s.io/yaml v1.6.0 // indirect
)

replace github.com/ozontech/file.d => /repo
