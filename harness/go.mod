module verifharness

go 1.25

toolchain go1.25.5

require github.com/ozontech/file.d v0.0.0

replace github.com/ozontech/file.d => /repo
