// fdharness: correspondence harness between /repo (built with -tags verif) and the Lean model.
//
//	fdharness gen  <PROP> -seed N -tier quick|thorough   → case lines (arguments only) on stdout
//	fdharness exec                                       → reads case lines on stdin, runs the real
//	                                                       code, prints "<case> | <impl result>"
//
// A case line is self-contained: `exec` needs nothing but the line, so corpus entries, shrunk
// cases and replays are all just case lines.
package main

import (
	"bufio"
	"flag"
	"fmt"
	"os"
	"runtime/debug"
	"strings"

	"verifharness/internal/hx"
)

// execFn runs the implementation on one case (tokens after the command) and returns the
// canonical implementation result.
type execFn func(t *hx.Toks) string

// genFn writes case lines (without the "| impl" part).
type genFn func(w *bufio.Writer, rng *hx.Rng, tier string)

var execs = map[string]execFn{}
var gens = map[string]genFn{}

func safeExec(f execFn, t *hx.Toks) (res string) {
	defer func() {
		if r := recover(); r != nil {
			res = "panic:" + panicKind(r)
			if os.Getenv("VERIF_DEBUG") != "" {
				fmt.Fprintf(os.Stderr, "panic: %v\n%s\n", r, debug.Stack())
			}
		}
	}()
	return f(t)
}

func panicKind(r any) string {
	s := fmt.Sprint(r)
	switch {
	case strings.Contains(s, "out of range"):
		return "bounds"
	case strings.Contains(s, "nil pointer"):
		return "nil"
	case strings.Contains(s, "closed channel"):
		return "closed-channel"
	case strings.Contains(s, "divide by zero"):
		return "div0"
	default:
		return "other"
	}
}

func main() {
	if len(os.Args) < 2 {
		fmt.Fprintln(os.Stderr, "usage: fdharness gen <PROP> [-seed N] [-tier T] | fdharness exec")
		os.Exit(2)
	}
	switch os.Args[1] {
	case "gen":
		fs := flag.NewFlagSet("gen", flag.ExitOnError)
		seed := fs.Uint64("seed", 1, "PRNG seed")
		tier := fs.String("tier", "quick", "quick|thorough")
		if len(os.Args) < 3 {
			os.Exit(2)
		}
		prop := os.Args[2]
		_ = fs.Parse(os.Args[3:])
		g, ok := gens[prop]
		if !ok {
			fmt.Fprintf(os.Stderr, "no generator for %s\n", prop)
			os.Exit(2)
		}
		w := bufio.NewWriterSize(os.Stdout, 1<<20)
		g(w, hx.NewRng(*seed), *tier)
		w.Flush()
	case "exec":
		in := bufio.NewScanner(os.Stdin)
		in.Buffer(make([]byte, 1<<20), 1<<28)
		w := bufio.NewWriterSize(os.Stdout, 1<<20)
		defer w.Flush()
		for in.Scan() {
			line := strings.TrimSpace(in.Text())
			if line == "" {
				continue
			}
			if i := strings.Index(line, " | "); i >= 0 {
				line = line[:i]
			}
			t := hx.NewToks(line)
			cmd := t.Next()
			f, ok := execs[cmd]
			var res string
			if !ok {
				res = "no-such-cmd"
			} else {
				res = safeExec(f, t)
			}
			fmt.Fprintf(w, "%s | %s\n", line, res)
			w.Flush()
		}
	default:
		os.Exit(2)
	}
}
