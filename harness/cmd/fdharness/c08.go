package main

import (
	"bufio"
	"context"
	"fmt"
	"os"
	"runtime"
	"strings"
	"sync"
	"time"

	"github.com/ozontech/file.d/metric"
	"github.com/ozontech/file.d/pipeline"
	"github.com/prometheus/client_golang/prometheus"

	"verifharness/internal/hx"
)

// C08: Batcher — bounded size, bounded staleness, in-order commit.
//
// case: c08.trace <workers> <count> <bytes> <tmode> <adders> <seed> <stopAt> <race> <nev> (<size> <kind>)*n
//
//	tmode  0: FlushTimeout 1h (no timeout flush)   1: FlushTimeout 3ms (heartbeat / Add flush by age)
//	stopAt Stop is called when that many Adds have been started (-1: only at the end of the case)
//	race   1: the Stop is placed inside the window of the `b.enqueue` gate of the next sealing Add
//
// The real pipeline.Batcher runs with a harness OutFn that blocks per batch until the scheduler
// releases it, a controller that logs Commit, and the verif gates of batch.go. The result is the
// boundary log (vocabulary: lean/FileD/Model/BatcherTrace.lean).

func init() {
	execs["c08.trace"] = execC08
	gens["C08"] = genC08
}

// ---------------------------------------------------------------- trace log shared by C08 / C09

type tEntry struct {
	tok   string   // token name (already carrying the batcher's letter case)
	k     int64    // batch seq (s, q, o, d, cb)
	st    int      // status of `s` (-1 until known)
	ids   []uint64 // o, cb
	extra string   // preformatted tail
}

type tLog struct {
	mu      sync.Mutex
	entries []*tEntry
	seals   map[string]*tEntry // tag:seq -> `s` entry
	curCB   map[string]*tEntry // tag -> open cb entry
	nAdded  map[string]int
	nCommit map[string]int
}

func newTLog() *tLog {
	return &tLog{seals: map[string]*tEntry{}, curCB: map[string]*tEntry{}, nAdded: map[string]int{}, nCommit: map[string]int{}}
}

func (l *tLog) add(e *tEntry) {
	l.mu.Lock()
	l.entries = append(l.entries, e)
	l.mu.Unlock()
}

func (l *tLog) render() string {
	// statuses of `s` tokens arrive through the enqueue gate, which runs after the Unlock
	for i := 0; i < 400; i++ {
		l.mu.Lock()
		missing := false
		for _, e := range l.entries {
			if (e.tok == "s" || e.tok == "S") && e.st < 0 {
				missing = true
			}
		}
		l.mu.Unlock()
		if !missing {
			break
		}
		time.Sleep(500 * time.Microsecond)
	}
	l.mu.Lock()
	defer l.mu.Unlock()
	var sb strings.Builder
	for i, e := range l.entries {
		if i > 0 {
			sb.WriteByte(' ')
		}
		sb.WriteString(e.tok)
		switch strings.ToLower(e.tok) {
		case "s":
			fmt.Fprintf(&sb, " %d %d", e.k, e.st)
		case "q":
			fmt.Fprintf(&sb, " %d", e.k)
		case "o", "cb", "e":
			fmt.Fprintf(&sb, " %d %d", e.k, len(e.ids))
			for _, id := range e.ids {
				fmt.Fprintf(&sb, " %d", id)
			}
		case "d":
			fmt.Fprintf(&sb, " %d", e.k)
		}
		if e.extra != "" {
			sb.WriteByte(' ')
			sb.WriteString(e.extra)
		}
	}
	return sb.String()
}

// bRig wires one real Batcher to the log: trace sink entries for its id, the controller, letters.
type bRig struct {
	log     *tLog
	upper   bool // dead-queue batcher: upper-case tokens
	id      uint64
	batcher *pipeline.Batcher
	evs     map[uint64]*evSpec
	// notifications to the scheduler
	note chan note
	// gate control
	mu          sync.Mutex
	outRelease  map[int64]chan struct{}
	cmtRelease  map[int64]chan struct{}
	holdEnqueue bool // hold the next enqueue gate (Stop race)
	enqRelease  chan struct{}
	freeRun     bool // no blocking at all (used when a case is being torn down)
}

type evSpec struct {
	id   uint64
	size int
	kind int
}

type note struct {
	kind string // "add-done", "out", "cgate", "egate", "stop-done", "x"
	k    int64
	who  int
}

func (r *bRig) t(s string) string {
	if r.upper {
		return strings.ToUpper(s)
	}
	return s
}

func (r *bRig) tag() string {
	if r.upper {
		return "D"
	}
	return "m"
}

// trace is called from the verifTrace points of batch.go (inside the serialising lock)
func (r *bRig) trace(kind string, a uint64) {
	switch kind {
	case "b.add":
		ev := r.evs[a]
		e := &tEntry{tok: r.t("a")}
		if ev != nil {
			e.extra = fmt.Sprintf("%d %d %d", ev.id, ev.size, ev.kind)
		} else {
			e.extra = fmt.Sprintf("%d 0 0", a)
		}
		r.log.mu.Lock()
		r.log.entries = append(r.log.entries, e)
		r.log.nAdded[r.tag()]++
		r.log.mu.Unlock()
	case "b.hb":
		r.log.add(&tEntry{tok: r.t("h")})
	case "b.seal":
		e := &tEntry{tok: r.t("s"), k: int64(a), st: -1}
		if r.batcher != nil {
			e.st = r.batcher.VerifCurBatchStatus() // we are inside b.mu here
		}
		r.log.mu.Lock()
		r.log.entries = append(r.log.entries, e)
		r.log.seals[fmt.Sprintf("%s:%d", r.tag(), a)] = e
		r.log.mu.Unlock()
	case "b.commit":
		e := &tEntry{tok: r.t("cb"), k: int64(a)}
		r.log.mu.Lock()
		r.log.entries = append(r.log.entries, e)
		r.log.curCB[r.tag()] = e
		r.log.mu.Unlock()
		r.notify(note{kind: "cb", k: int64(a)})
	case "b.stop":
		r.log.add(&tEntry{tok: r.t("x")})
		r.notify(note{kind: "x"})
	}
}

func (r *bRig) notify(n note) {
	select {
	case r.note <- n:
	default: // scheduler gone or flooded: never block the code under test on a notification
	}
}

// gate is called from the verifGate points of batch.go
func (r *bRig) gate(point string, a uint64) {
	switch point {
	case "b.enqueue":
		seq, st := int64(a>>2), int(a&3)
		r.log.mu.Lock()
		if e := r.log.seals[fmt.Sprintf("%s:%d", r.tag(), seq)]; e != nil && e.st < 0 {
			e.st = st
		}
		r.log.mu.Unlock()
		r.mu.Lock()
		hold := r.holdEnqueue && st == 1 && !r.freeRun
		var ch chan struct{}
		if hold {
			r.holdEnqueue = false
			ch = make(chan struct{})
			r.enqRelease = ch
		}
		r.mu.Unlock()
		if hold {
			r.notify(note{kind: "egate", k: seq})
			select {
			case <-ch:
			case <-time.After(2 * time.Second):
			}
		}
	case "b.commit":
		seq := int64(a)
		r.mu.Lock()
		if r.freeRun {
			r.mu.Unlock()
			return
		}
		ch := make(chan struct{})
		r.cmtRelease[seq] = ch
		r.mu.Unlock()
		r.notify(note{kind: "cgate", k: seq})
		select {
		case <-ch:
		case <-time.After(5 * time.Second):
		}
	}
}

// Commit / Error: pipeline.OutputPluginController
func (r *bRig) Commit(ev *pipeline.Event) {
	r.log.mu.Lock()
	if e := r.log.curCB[r.tag()]; e != nil {
		e.ids = append(e.ids, uint64(ev.Offset))
	}
	r.log.nCommit[r.tag()]++
	r.log.mu.Unlock()
}
func (r *bRig) Error(string) {}

// outEnter / outLeave bracket an OutFn call
func (r *bRig) outEnter(batch *pipeline.Batch) (int64, chan struct{}) {
	seq := pipeline.VerifBatchSeq(batch)
	var ids []uint64
	batch.ForEach(func(e *pipeline.Event) { ids = append(ids, uint64(e.Offset)) })
	st := int(pipeline.VerifBatchStatus(batch))
	r.log.mu.Lock()
	r.log.entries = append(r.log.entries, &tEntry{tok: r.t("o"), k: seq, ids: ids})
	if e := r.log.seals[fmt.Sprintf("%s:%d", r.tag(), seq)]; e != nil && e.st < 0 {
		e.st = st
	}
	r.log.mu.Unlock()
	r.mu.Lock()
	var ch chan struct{}
	if !r.freeRun {
		ch = make(chan struct{})
		r.outRelease[seq] = ch
	}
	r.mu.Unlock()
	return seq, ch
}

func (r *bRig) outLeave(seq int64, batch *pipeline.Batch) {
	keep := "1"
	if pipeline.VerifBatchStatus(batch) == pipeline.BatchStatusInDeadQueue {
		keep = "0"
	}
	r.log.add(&tEntry{tok: r.t("d"), k: seq, extra: keep})
}

func (r *bRig) release(m map[int64]chan struct{}, k int64) {
	r.mu.Lock()
	ch := m[k]
	delete(m, k)
	r.mu.Unlock()
	if ch != nil {
		close(ch)
	}
}

func (r *bRig) setFreeRun() {
	r.mu.Lock()
	r.freeRun = true
	outs, cmts, enq := r.outRelease, r.cmtRelease, r.enqRelease
	r.outRelease, r.cmtRelease, r.enqRelease = map[int64]chan struct{}{}, map[int64]chan struct{}{}, nil
	r.mu.Unlock()
	for _, ch := range outs {
		close(ch)
	}
	for _, ch := range cmts {
		close(ch)
	}
	if enq != nil {
		close(enq)
	}
}

func newRig(log *tLog, upper bool, note chan note, evs map[uint64]*evSpec) *bRig {
	return &bRig{log: log, upper: upper, note: note, evs: evs,
		outRelease: map[int64]chan struct{}{}, cmtRelease: map[int64]chan struct{}{}}
}

// installSinks routes the global trace/gate hooks of package pipeline to the rigs of this case
func installSinks(rigs ...*bRig) func() {
	byID := map[uint64]*bRig{}
	for _, r := range rigs {
		byID[r.id] = r
	}
	pipeline.VerifSetTrace(func(kind string, a, b uint64) {
		if r := byID[b]; r != nil {
			r.trace(kind, a)
		}
	})
	pipeline.VerifSetGate(func(point string, a, b uint64) {
		if r := byID[b]; r != nil {
			r.gate(point, a)
		}
	})
	return func() {
		pipeline.VerifSetTrace(nil)
		pipeline.VerifSetGate(nil)
	}
}

func mkEvent(s *evSpec) *pipeline.Event {
	e := &pipeline.Event{SeqID: s.id, Offset: int64(s.id), Size: s.size}
	switch s.kind {
	case 1:
		e.SetChildKind()
	case 2:
		e.SetChildParentKind()
	}
	return e
}

// ---------------------------------------------------------------- C08 exec

func execC08(t *hx.Toks) string {
	workers, count, bytes, tmode, adders := t.Int(), t.Int(), t.Int(), t.Int(), t.Int()
	seed := t.Uint64()
	stopAt := t.Int()
	race := t.Bool()
	n := t.Int()
	if t.Err != nil || n < 0 || n > 10000 {
		return "bad-case"
	}
	specs := make([]*evSpec, n)
	evs := map[uint64]*evSpec{}
	for i := range specs {
		specs[i] = &evSpec{id: uint64(i + 1), size: t.Int(), kind: t.Int()}
		evs[specs[i].id] = specs[i]
	}
	if t.Err != nil || !t.Done() || workers < 1 || adders < 1 || (count == 0 && bytes == 0) || count < 0 || bytes < 0 {
		return "bad-case"
	}
	rng := hx.NewRng(seed)
	log := newTLog()
	notes := make(chan note, 4096)
	rig := newRig(log, false, notes, evs)
	timeout := time.Hour
	if tmode == 1 {
		timeout = 3 * time.Millisecond
	}
	batcher := pipeline.NewBatcher(pipeline.BatcherOptions{
		PipelineName: "verif", OutputType: "c08",
		OutFn: func(_ *pipeline.WorkerData, batch *pipeline.Batch) {
			seq, ch := rig.outEnter(batch)
			if ch != nil {
				rig.notify(note{kind: "out", k: seq})
				select {
				case <-ch:
				case <-time.After(5 * time.Second):
				}
			}
			rig.outLeave(seq, batch)
		},
		Controller: rig, Workers: workers, BatchSizeCount: count, BatchSizeBytes: bytes,
		FlushTimeout: timeout,
		MetricCtl:    metric.NewCtl("", prometheus.NewRegistry(), time.Minute, 0),
	})
	rig.id = pipeline.VerifBatcherID(batcher)
	rig.batcher = batcher
	uninstall := installSinks(rig)
	defer uninstall()
	ctx, cancel := context.WithCancel(context.Background())
	defer cancel()
	batcher.Start(ctx)

	// adders: each owns a slice of the events (round robin) and performs one Add per "go"
	type adder struct {
		queue []*evSpec
		goCh  chan *evSpec
		busy  bool
	}
	ads := make([]*adder, adders)
	for i := range ads {
		ads[i] = &adder{goCh: make(chan *evSpec)}
	}
	for i, s := range specs {
		a := ads[i%adders]
		a.queue = append(a.queue, s)
	}
	var wg sync.WaitGroup
	for i, a := range ads {
		wg.Add(1)
		go func(i int, a *adder) {
			defer wg.Done()
			for s := range a.goCh {
				func() {
					defer func() {
						if r := recover(); r != nil {
							log.add(&tEntry{tok: "panic:" + panicKind(r)})
						}
					}()
					batcher.Add(mkEvent(s))
				}()
				rig.notify(note{kind: "add-done", who: i})
			}
		}(i, a)
	}

	outW, cmtW := map[int64]bool{}, map[int64]bool{}
	started := 0
	stopCalled, stopDone, sawX := false, false, false
	var egate *int64
	handle := func(nt note) {
		switch nt.kind {
		case "add-done":
			ads[nt.who].busy = false
		case "out":
			outW[nt.k] = true
		case "cgate":
			cmtW[nt.k] = true
		case "egate":
			k := nt.k
			egate = &k
		case "stop-done":
			stopDone = true
		case "x":
			sawX = true
		}
	}
	// settle: take notifications until none arrives for a short while
	settle := func(d time.Duration) {
		for {
			select {
			case nt := <-notes:
				handle(nt)
			case <-time.After(d):
				return
			}
		}
	}
	waitOne := func(d time.Duration) bool {
		select {
		case nt := <-notes:
			handle(nt)
			return true
		case <-time.After(d):
			return false
		}
	}
	callStop := func() {
		stopCalled = true
		go func() {
			batcher.Stop()
			rig.notify(note{kind: "stop-done"})
		}()
	}
	quiet := 150 * time.Microsecond
	stuck := false
	idleLeft := 0
	if tmode == 1 {
		idleLeft = 1 + rng.Intn(2)
	}
	drain := func() {
		for {
			select {
			case nt := <-notes:
				handle(nt)
			default:
				return
			}
		}
	}
	for step := 0; step < 100000; step++ {
		// event driven: act on what is known now; quiescence is only awaited when nothing is enabled
		runtime.Gosched()
		drain()
		if egate != nil {
			// an Add is held between Unlock and the channel send: this is where Stop goes
			if !stopCalled {
				callStop()
				for i := 0; i < 40 && !sawX; i++ {
					waitOne(250 * time.Microsecond)
				}
			}
			rig.mu.Lock()
			ch := rig.enqRelease
			rig.enqRelease = nil
			rig.mu.Unlock()
			if ch != nil {
				close(ch)
			}
			egate = nil
			continue
		}
		if !stopCalled && stopAt >= 0 && started >= stopAt {
			if race {
				rig.mu.Lock()
				rig.holdEnqueue = true
				rig.mu.Unlock()
				race = false
				stopAt = started + 1 + rng.Intn(3) // fall back to a plain Stop if no Add seals soon
			} else {
				callStop()
				continue
			}
		}
		// enabled actions
		type act struct {
			kind string
			k    int64
			who  int
		}
		var acts []act
		if !stopDone {
			for i, a := range ads {
				if !a.busy && len(a.queue) > 0 {
					acts = append(acts, act{kind: "add", who: i})
				}
			}
		}
		for k := range outW {
			acts = append(acts, act{kind: "out", k: k})
		}
		for k := range cmtW {
			acts = append(acts, act{kind: "cmt", k: k})
		}
		// deterministic order of the candidates before the PRNG picks (maps iterate randomly)
		sortActs := func() {
			for i := 1; i < len(acts); i++ {
				for j := i; j > 0; j-- {
					a, b := acts[j-1], acts[j]
					if a.kind > b.kind || (a.kind == b.kind && (a.k > b.k || (a.k == b.k && a.who > b.who))) {
						acts[j-1], acts[j] = b, a
					} else {
						break
					}
				}
			}
		}
		sortActs()
		if len(acts) == 0 {
			busy := false
			for _, a := range ads {
				busy = busy || a.busy
			}
			log.mu.Lock()
			inflight := len(log.seals) > 0 && func() bool {
				ncb := 0
				for _, e := range log.entries {
					if e.tok == "cb" {
						ncb++
					}
				}
				return ncb < len(log.seals)
			}()
			log.mu.Unlock()
			if busy || inflight || (stopCalled && !stopDone) {
				// something is still moving (a worker between channel receive and OutFn, …)
				// three silent periods in a row (a stalled machine makes one timer fire late, not three)
				if !waitOne(2*time.Second) && !waitOne(2*time.Second) && !waitOne(2*time.Second) {
					stuck = true
					if os.Getenv("VERIF_DEBUG") != "" {
						fmt.Fprintf(os.Stderr, "stuck: busy=%v inflight=%v stopCalled=%v stopDone=%v outW=%v cmtW=%v\n", busy, inflight, stopCalled, stopDone, outW, cmtW)
					}
					break
				}
				continue
			}
			break // all adds issued, nothing in flight
		}
		if idleLeft > 0 && !stopCalled && rng.Chance(1, 12) {
			// let traffic pause: the heartbeat has to flush the current batch
			idleLeft--
			before := len(log.seals)
			for i := 0; i < 300; i++ {
				time.Sleep(time.Millisecond)
				log.mu.Lock()
				nb := len(log.seals)
				log.mu.Unlock()
				if nb > before {
					break
				}
			}
			continue
		}
		a := acts[rng.Intn(len(acts))]
		switch a.kind {
		case "add":
			ad := ads[a.who]
			s := ad.queue[0]
			ad.queue = ad.queue[1:]
			ad.busy = true
			started++
			ad.goCh <- s
			// wait for the Add to return, unless it blocks (no free batch / b.mu held)
			for i := 0; i < 2 && ad.busy; i++ {
				waitOne(quiet)
			}
		case "out":
			delete(outW, a.k)
			rig.release(rig.outRelease, a.k)
		case "cmt":
			delete(cmtW, a.k)
			rig.release(rig.cmtRelease, a.k)
		}
	}

	// final phase: idle flush (tmode 1, not stopped), then Stop
	if !stuck && tmode == 1 && !stopCalled {
		// bounded response in heartbeat ticks, not wall time: the batch left in `cur` must be sealed by
		// the second heartbeat after the last Add at the latest (the first one may come before the 3 ms
		// have passed); 5 ticks leave room for the workers. A stalled machine stalls the ticks too.
		countH := func() int {
			log.mu.Lock()
			defer log.mu.Unlock()
			n := 0
			for _, e := range log.entries {
				if e.tok == "h" {
					n++
				}
			}
			return n
		}
		h0 := countH()
		wallCap := time.Now().Add(20 * time.Second)
		ok := false
		for countH() < h0+5 && time.Now().Before(wallCap) {
			settle(quiet)
			for k := range outW {
				delete(outW, k)
				rig.release(rig.outRelease, k)
			}
			for k := range cmtW {
				delete(cmtW, k)
				rig.release(rig.cmtRelease, k)
			}
			log.mu.Lock()
			ok = log.nCommit["m"] == log.nAdded["m"]
			log.mu.Unlock()
			if ok {
				break
			}
			time.Sleep(time.Millisecond)
		}
		w := "0"
		if ok {
			w = "1"
		}
		log.add(&tEntry{tok: "w", extra: w})
	}
	rig.setFreeRun()
	for _, a := range ads {
		close(a.goCh)
	}
	if !stopCalled {
		callStop()
	}
	deadline := time.After(5 * time.Second)
	for !stopDone {
		select {
		case nt := <-notes:
			handle(nt)
		case <-deadline:
			stuck = true
			stopDone = true
		}
	}
	wg.Wait()
	if stuck {
		log.add(&tEntry{tok: "panic:stuck"})
	}
	return log.render()
}

// ---------------------------------------------------------------- C08 gen

func c08Line(w *bufio.Writer, workers, count, bytes, tmode, adders int, seed uint64, stopAt int, race bool, evs []evSpec) {
	fmt.Fprintf(w, "c08.trace %d %d %d %d %d %d %d %s %d", workers, count, bytes, tmode, adders, seed, stopAt, hx.B(race), len(evs))
	for _, e := range evs {
		fmt.Fprintf(w, " %d %d", e.size, e.kind)
	}
	w.WriteByte('\n')
}

func genC08(w *bufio.Writer, rng *hx.Rng, tier string) {
	nsmall, nrand := 200, 1600
	if tier == "thorough" {
		nsmall, nrand = 2000, 12000
	}
	mkEvs := func(n int, mix int) []evSpec {
		evs := make([]evSpec, n)
		for i := range evs {
			sz := 0
			switch rng.Intn(4) {
			case 0:
				sz = rng.Range(0, 3)
			case 1:
				sz = rng.Range(0, 40)
			default:
				sz = rng.Range(5, 25)
			}
			kind := 0
			switch mix {
			case 1: // children with their parents
				kind = rng.Intn(3)
			case 2: // mostly parents: batches without iterable events
				if rng.Chance(3, 4) {
					kind = 2
				}
			}
			evs[i] = evSpec{size: sz, kind: kind}
		}
		return evs
	}
	// gate-free Stop stress first (also what the widened search of ./check reaches first)
	nstress, rounds := 6, 150
	ntrickle := 5
	if tier == "thorough" {
		nstress, rounds, ntrickle = 40, 300, 30
	}
	for i := 0; i < nstress; i++ {
		fmt.Fprintf(w, "c08.stopstress %d %d %d %d %d\n", rounds, 4+i%5, 2+i%3, 30, rng.U64())
	}
	// heartbeat period against the harness's reference clock, FlushTimeout far above 100 ms
	nhb := 3
	if tier == "thorough" {
		nhb = 12
	}
	for i := 0; i < nhb; i++ {
		n := i % 3
		fmt.Fprintf(w, "c08.hbperiod %d %d %d %d", 1+i%3, []int{1000, 600, 5000, 3600000}[i%4], 100, n)
		for j := 0; j < n; j++ {
			fmt.Fprintf(w, " %d %d", rng.Range(0, 30), rng.Intn(2))
		}
		w.WriteByte('\n')
	}
	// slow trickles: gaps a fraction of the flush timeout, limits far above what arrives; zero-size and
	// child events (what Spawn produces) first, last, mixed
	for i := 0; i < ntrickle; i++ {
		timeoutMs := []int{150, 120, 200}[i%3]
		gapMs := timeoutMs / []int{4, 3, 5}[(i/3)%3]
		n := 900/gapMs + 2
		if i >= 5 {
			n = rng.Range(8, 1100/gapMs)
		}
		nbytes := 0
		if i%2 == 1 {
			nbytes = 1000000
		}
		fmt.Fprintf(w, "c08.trickle %d %d %d %d %d %d", 1+i%3, timeoutMs, gapMs, 1000, nbytes, n)
		for j := 0; j < n; j++ {
			size, kind := 0, 0
			switch i % 5 {
			case 0: // all zero-size children
				size, kind = 0, 1
			case 1: // zero-size first, sized later
				if j >= n/2 {
					size = rng.Range(1, 40)
				}
			case 2: // sized first, zero-size later
				if j < 2 {
					size = rng.Range(1, 40)
				} else {
					kind = 1
				}
			case 3: // all sized regular
				size = rng.Range(1, 40)
			default: // mixed
				if rng.Chance(1, 2) {
					size = rng.Range(1, 40)
				}
				kind = rng.Intn(2)
			}
			fmt.Fprintf(w, " %d %d", size, kind)
		}
		w.WriteByte('\n')
	}
	// small scope: every (workers, count) with few events, no timeout, no stop
	for i := 0; i < nsmall; i++ {
		workers := 1 + i%4
		count := 1 + (i/4)%5
		bytes := []int{0, 0, 16, 64}[(i/20)%4]
		c08Line(w, workers, count, bytes, 0, 1+i%3, rng.U64(), -1, false, mkEvs(rng.Range(1, 12), (i/7)%3))
	}
	for i := 0; i < nrand; i++ {
		workers := rng.Range(1, 4)
		count := rng.Range(0, 5)
		bytes := 0
		if count == 0 || rng.Chance(1, 2) {
			bytes = rng.Range(1, 64)
		}
		tmode := 0
		if rng.Chance(1, 32) {
			tmode = 1
		}
		n := rng.Range(1, 30)
		stopAt, race := -1, false
		if tmode == 0 && rng.Chance(1, 3) {
			stopAt = rng.Range(0, n)
			race = rng.Chance(2, 3)
		}
		c08Line(w, workers, count, bytes, tmode, rng.Range(1, 3), rng.U64(), stopAt, race, mkEvs(n, rng.Intn(3)))
	}
}
