package main

import (
	"bufio"
	"fmt"
	"sort"
	"strconv"
	"strings"
	"sync/atomic"
	"time"

	"github.com/ozontech/file.d/cfg"
	"github.com/ozontech/file.d/fd"
	"github.com/ozontech/file.d/pipeline"
	"github.com/ozontech/file.d/plugin/action/throttle"
	"github.com/ozontech/file.d/test"
	insaneJSON "github.com/ozontech/insane-json"
	"go.uber.org/zap"
	"go.uber.org/zap/zapcore"

	"verifharness/internal/hx"
)

// C16: throttle never passes more than the limit per key and time bucket (in-memory backend).
//
// case: c16.run <count> <interval ns> <expMs> <nrules> RULE… <nops> OP…
//
//	RULE := <limit> <c|s> <nconds> (<field> <value>)… <dfield> <nratios> (<pct> <share> <nvals> <value>…)… <defshare>
//	OP   := E <key> <ts> <now> <size> <nfields> (<field> <value>)…  |  X<ticks>
//
// The last rule is the plugin's default rule (default_limit, limit_kind, limit_distribution).
// The real throttle.Plugin is created by its factory, started, and every E op is one Do call
// on an event {"time":"<ts>","k":"<key>",<fields>} with nowFn() = <now>. X<n> waits for n runs
// of the limiters map's wall-clock maintenance and reports the limiter keys it deleted.
// result: H <nrules> (<defshare> <n> <share>…)… R <p|d|x:…|panic:…>… S <nlims> (<key> <minID> <maxID> <nrows> <ncols> <v>…)…

func init() {
	execs["c16.run"] = execC16
	gens["C16"] = genC16
}

type c16Ratio struct {
	pct   int
	share int64
	vals  []string
}

type c16Rule struct {
	limit    int64
	kind     string // "c" | "s"
	conds    [][2]string
	dfield   string
	ratios   []c16Ratio
	defShare int64
}

type c16Op struct {
	tick   bool // a T op: one maintenance iteration at wall clock tickUs
	tickUs int64
	ticks  int // > 0: an X op
	key    string
	ts     int64
	now    int64
	size   int
	fields [][2]string
}

type c16Case struct {
	g0       int64 // initial generation of the limiters map (I<gen> op), µs
	hasI     bool
	count    int
	interval int64
	expMs    int
	rules    []c16Rule
	ops      []c16Op
}

func c16Str(t *hx.Toks) string { return string(t.Bytes()) }

func c16Pairs(t *hx.Toks) [][2]string {
	n := t.Int()
	var out [][2]string
	for i := 0; i < n && t.Err == nil; i++ {
		f := c16Str(t)
		v := c16Str(t)
		out = append(out, [2]string{f, v})
	}
	return out
}

func parseC16(t *hx.Toks) (*c16Case, bool) {
	c := &c16Case{}
	c.count = t.Int()
	c.interval = t.Int64()
	c.expMs = t.Int()
	nr := t.Int()
	for i := 0; i < nr && t.Err == nil; i++ {
		var r c16Rule
		r.limit = t.Int64()
		r.kind = t.Next()
		r.conds = c16Pairs(t)
		r.dfield = c16Str(t)
		nrat := t.Int()
		for j := 0; j < nrat && t.Err == nil; j++ {
			var ra c16Ratio
			ra.pct = t.Int()
			ra.share = t.Int64()
			nv := t.Int()
			for k := 0; k < nv && t.Err == nil; k++ {
				ra.vals = append(ra.vals, c16Str(t))
			}
			r.ratios = append(r.ratios, ra)
		}
		r.defShare = t.Int64()
		c.rules = append(c.rules, r)
	}
	no := t.Int()
	for i := 0; i < no && t.Err == nil; i++ {
		k := t.Next()
		var op c16Op
		switch {
		case k == "E":
			op.key = c16Str(t)
			op.ts = t.Int64()
			op.now = t.Int64()
			op.size = t.Int()
			op.fields = c16Pairs(t)
		case strings.HasPrefix(k, "X"):
			n, err := strconv.Atoi(k[1:])
			if err != nil || n < 1 || n > 5 {
				return nil, false
			}
			op.ticks = n
		case strings.HasPrefix(k, "T"):
			n, err := strconv.ParseInt(k[1:], 10, 64)
			if err != nil {
				return nil, false
			}
			op.tick, op.tickUs = true, n
		case strings.HasPrefix(k, "I") && i == 0:
			n, err := strconv.ParseInt(k[1:], 10, 64)
			if err != nil {
				return nil, false
			}
			c.g0, c.hasI = n, true
			continue
		default:
			return nil, false
		}
		c.ops = append(c.ops, op)
	}
	if t.Err != nil || !t.Done() || len(c.rules) < 1 || c.count < 1 || c.interval < 1 || c.expMs < 1 {
		return nil, false
	}
	return c, true
}

func c16Plain(s string) bool {
	for i := 0; i < len(s); i++ {
		ch := s[i]
		if !(ch >= 'a' && ch <= 'z' || ch >= '0' && ch <= '9' || ch == '_') {
			return false
		}
	}
	return true
}

func c16FieldName(s string) bool {
	return s != "" && s != "time" && s != "k" && c16Plain(s)
}

func c16Valid(c *c16Case) bool {
	for i, r := range c.rules {
		if r.kind != "c" && r.kind != "s" {
			return false
		}
		if i == len(c.rules)-1 && len(r.conds) != 0 {
			return false
		}
		seen := map[string]bool{}
		for _, cd := range r.conds {
			if !c16FieldName(cd[0]) || !c16Plain(cd[1]) || seen[cd[0]] {
				return false
			}
			seen[cd[0]] = true
		}
		if r.dfield == "" {
			if len(r.ratios) != 0 {
				return false
			}
			continue
		}
		if !c16FieldName(r.dfield) {
			return false
		}
		for _, ra := range r.ratios {
			if ra.pct < 1 || ra.pct > 100 || len(ra.vals) == 0 { // ratio is `required`: 0 is rejected by cfg.Parse
				return false
			}
			for _, v := range ra.vals {
				if !c16Plain(v) {
					return false
				}
			}
		}
	}
	hasX, hasT := false, c.hasI
	for _, op := range c.ops {
		hasX = hasX || op.ticks > 0
		hasT = hasT || op.tick
	}
	if hasX && hasT {
		return false
	}
	for _, op := range c.ops {
		if op.ticks > 0 || op.tick {
			continue
		}
		if !c16Plain(op.key) || op.size < 0 {
			return false
		}
		seen := map[string]bool{}
		for _, f := range op.fields {
			if !c16FieldName(f[0]) || !c16Plain(f[1]) || seen[f[0]] {
				return false
			}
			seen[f[0]] = true
		}
	}
	return true
}

func c16Distr(r *c16Rule) throttle.LimitDistributionConfig {
	d := throttle.LimitDistributionConfig{Field: cfg.FieldSelector(r.dfield)}
	for _, ra := range r.ratios {
		d.Ratios = append(d.Ratios, throttle.ComplexRatio{Ratio: float64(ra.pct) / 100, Values: ra.vals})
	}
	return d
}

// c16Shares runs the real parseLimitDistribution on the rule's ratios.
func c16Shares(r *c16Rule) (throttle.VerifShares, error) {
	if r.dfield == "" {
		return throttle.VerifShares{}, nil
	}
	var ratios []float64
	var vals [][]string
	for _, ra := range r.ratios {
		ratios = append(ratios, float64(ra.pct)/100)
		vals = append(vals, ra.vals)
	}
	return throttle.VerifParseShares(r.dfield, ratios, vals, r.limit)
}

func c16Kind(k string) string {
	if k == "s" {
		return "size"
	}
	return "count"
}

var c16Seq atomic.Int64

func c16Logger() *zap.SugaredLogger {
	core := zapcore.NewNopCore()
	// a Fatal of the plugin must not exit the harness: turn it into a (recovered) panic
	return zap.New(core, zap.WithFatalHook(zapcore.WriteThenPanic)).Sugar()
}

func execC16(t *hx.Toks) string {
	c, ok := parseC16(t)
	if !ok || !c16Valid(c) {
		return "bad-case"
	}
	// a distribution the real parser rejects would make Start call logger.Fatal
	for i := range c.rules {
		if _, err := c16Shares(&c.rules[i]); err != nil {
			return "bad-case:distribution"
		}
	}
	for attempt := 0; attempt < 4; attempt++ {
		res, retry := runC16(c)
		if !retry {
			return res
		}
	}
	return "unstable-maintenance-tick"
}

func c16Do(p *throttle.Plugin, op *c16Op) (res string) {
	defer func() {
		if r := recover(); r != nil {
			res = "panic:" + panicKind(r)
		}
	}()
	var sb strings.Builder
	fmt.Fprintf(&sb, `{"time":"%d"`, op.ts)
	if op.key != "" && op.key != "-" {
		fmt.Fprintf(&sb, `,"k":"%s"`, op.key)
	}
	for _, f := range op.fields {
		fmt.Fprintf(&sb, `,"%s":"%s"`, f[0], f[1])
	}
	sb.WriteString("}")
	root := insaneJSON.Spawn()
	defer insaneJSON.Release(root)
	if err := root.DecodeString(sb.String()); err != nil {
		return "bad-json"
	}
	ev := &pipeline.Event{Root: root, Size: op.size}
	switch p.Do(ev) {
	case pipeline.ActionPass:
		return "p"
	case pipeline.ActionDiscard:
		return "d"
	}
	return "other"
}

func runC16(c *c16Case) (result string, retry bool) {
	def := c.rules[len(c.rules)-1]
	conf := &throttle.Config{
		ThrottleField:     "k",
		TimeField:         "time",
		TimeFieldFormat:   "unixtimenano",
		DefaultLimit:      def.limit,
		LimitKind:         c16Kind(def.kind),
		LimiterBackend:    "memory",
		BucketsCount:      c.count,
		BucketInterval:    cfg.Duration(fmt.Sprintf("%dns", c.interval)),
		LimiterExpiration: cfg.Duration(fmt.Sprintf("%dms", c.expMs)),
		LimitDistribution: c16Distr(&def),
	}
	for i := 0; i < len(c.rules)-1; i++ {
		r := &c.rules[i]
		conds := map[string]string{}
		for _, cd := range r.conds {
			conds[cd[0]] = cd[1]
		}
		conf.Rules = append(conf.Rules, throttle.RuleConfig{
			Limit: r.limit, LimitKind: c16Kind(r.kind), Conditions: conds, LimitDistribution: c16Distr(r),
		})
	}
	test.NewConfig(conf, nil)

	name := fmt.Sprintf("verif-c16-%d", c16Seq.Add(1))
	params := test.NewEmptyActionPluginParams()
	params.PipelineName = name
	params.Logger = c16Logger()

	info, err := fd.DefaultPluginRegistry.GetActionByType("throttle")
	if err != nil {
		return "no-throttle-plugin", false
	}
	pl, _ := info.Factory()
	p := pl.(*throttle.Plugin)
	p.Start(conf, params)
	defer func() {
		p.Stop()
		throttle.VerifCleanup(name)
	}()

	var now atomic.Int64
	throttle.VerifSetNow(p, func() time.Time { return time.Unix(0, now.Load()) })

	hasX := false
	for i := range c.ops {
		if c.ops[i].ticks > 0 {
			hasX = true
		}
	}
	if !hasX {
		// logical life cycle of the limiters map: no wall-clock maintenance, the generation
		// starts at the case's I value and advances only by the case's T ops
		throttle.VerifStopMaintenance(p)
		throttle.VerifSetCurGen(p, c.g0)
	}

	var sb strings.Builder
	shares := throttle.VerifRuleShares(p)
	fmt.Fprintf(&sb, "H %d", len(shares))
	for _, s := range shares {
		fmt.Fprintf(&sb, " %d %d", s.Default, len(s.Listed))
		for _, v := range s.Listed {
			fmt.Fprintf(&sb, " %d", v)
		}
	}
	fmt.Fprintf(&sb, " E %d R", throttle.VerifLimitersExp(p))

	// a maintenance run in the middle of a segment of events would delete limiters at a point
	// the case line does not name: detect it through the map generation and run the case again
	gen := throttle.VerifCurGen(p)
	for i := range c.ops {
		op := &c.ops[i]
		if op.ticks > 0 {
			if g := throttle.VerifCurGen(p); g != gen {
				return "", true
			}
			before := throttle.VerifKeys(p)
			for n := 0; n < op.ticks; n++ {
				deadline := time.Now().Add(5 * time.Second)
				for throttle.VerifCurGen(p) == gen {
					if time.Now().After(deadline) {
						return "no-maintenance-tick", false
					}
					time.Sleep(2 * time.Millisecond)
				}
				gen = throttle.VerifCurGen(p)
			}
			after := map[string]bool{}
			for _, k := range throttle.VerifKeys(p) {
				after[k] = true
			}
			var gone []string
			for _, k := range before {
				if !after[k] {
					gone = append(gone, hx.Enc([]byte(k)))
				}
			}
			sort.Strings(gone)
			sb.WriteString(" x:" + strings.Join(gone, ","))
			continue
		}
		if op.tick {
			var gone []string
			for _, k := range throttle.VerifMaintenanceOnce(p, op.tickUs) {
				gone = append(gone, hx.Enc([]byte(k)))
			}
			sb.WriteString(" t:" + strings.Join(gone, ","))
			continue
		}
		now.Store(op.now)
		r := c16Do(p, op)
		sb.WriteString(" " + r)
		if strings.HasPrefix(r, "panic") || r == "bad-json" || r == "other" {
			return sb.String(), false
		}
	}
	if hasX {
		if g := throttle.VerifCurGen(p); g != gen {
			return "", true
		}
	}
	dump := throttle.VerifDump(p)
	fmt.Fprintf(&sb, " S %d", len(dump))
	for _, l := range dump {
		ncols := 0
		if len(l.Rows) > 0 {
			ncols = len(l.Rows[0])
		}
		fmt.Fprintf(&sb, " %s %d %d %d %d", hx.Enc([]byte(l.Key)), l.MinID, l.MaxID, len(l.Rows), ncols)
		for _, row := range l.Rows {
			for _, v := range row {
				fmt.Fprintf(&sb, " %d", v)
			}
		}
	}
	if !hasX {
		keys, gens := throttle.VerifGens(p)
		fmt.Fprintf(&sb, " G %d %d", throttle.VerifCurGen(p), len(keys))
		for _, g := range gens {
			fmt.Fprintf(&sb, " %d", g)
		}
	}
	return sb.String(), false
}

// ---------------------------------------------------------------- generators

func c16Line(w *bufio.Writer, c *c16Case) {
	fmt.Fprintf(w, "c16.run %d %d %d %d", c.count, c.interval, c.expMs, len(c.rules))
	for _, r := range c.rules {
		fmt.Fprintf(w, " %d %s %d", r.limit, r.kind, len(r.conds))
		for _, cd := range r.conds {
			fmt.Fprintf(w, " %s %s", hx.Enc([]byte(cd[0])), hx.Enc([]byte(cd[1])))
		}
		fmt.Fprintf(w, " %s %d", hx.Enc([]byte(r.dfield)), len(r.ratios))
		for _, ra := range r.ratios {
			fmt.Fprintf(w, " %d %d %d", ra.pct, ra.share, len(ra.vals))
			for _, v := range ra.vals {
				fmt.Fprintf(w, " %s", hx.Enc([]byte(v)))
			}
		}
		fmt.Fprintf(w, " %d", r.defShare)
	}
	if c.hasI {
		fmt.Fprintf(w, " %d I%d", len(c.ops)+1, c.g0)
	} else {
		fmt.Fprintf(w, " %d", len(c.ops))
	}
	for _, op := range c.ops {
		if op.ticks > 0 {
			fmt.Fprintf(w, " X%d", op.ticks)
			continue
		}
		if op.tick {
			fmt.Fprintf(w, " T%d", op.tickUs)
			continue
		}
		key := op.key
		if key == "-" {
			key = ""
		}
		fmt.Fprintf(w, " E %s %d %d %d %d", hx.Enc([]byte(key)), op.ts, op.now, op.size, len(op.fields))
		for _, f := range op.fields {
			fmt.Fprintf(w, " %s %s", hx.Enc([]byte(f[0])), hx.Enc([]byte(f[1])))
		}
	}
	w.WriteByte('\n')
}

const c16NoExpiry = 3600000000 // limiter_expiration of cases without X ops: 1000h

// c16FillShares asks the real parseLimitDistribution for the per-value limits; false when the
// real parser rejects the distribution.
func c16FillShares(r *c16Rule) bool {
	s, err := c16Shares(r)
	if err != nil {
		return false
	}
	r.defShare = s.Default
	for i := range r.ratios {
		r.ratios[i].share = s.Listed[i]
	}
	return true
}

func genC16(w *bufio.Writer, rng *hx.Rng, tier string) {
	nSmallLen, nRand, nEpoch, nX, nTick := 3, 2000, 300, 5, 1500
	if tier == "thorough" {
		nSmallLen, nRand, nEpoch, nX, nTick = 4, 40000, 6000, 60, 30000
	}
	genC16Small(w, nSmallLen)
	for i := 0; i < nRand; i++ {
		c16Line(w, genC16Random(rng, false))
	}
	for i := 0; i < nEpoch; i++ {
		c16Line(w, genC16Random(rng, true))
	}
	for i := 0; i < nX; i++ {
		c16Line(w, genC16Expiry(rng))
	}
	for i := 0; i < nTick; i++ {
		c16Line(w, genC16Ticks(rng))
	}
}

// life cycle of the limiters map on a logical wall clock: I sets the map's generation, T ops are
// single maintenance iterations, events happen between them with nowFn = the same clock (as in
// production). Busy keys are accessed between (almost) all ticks with their bucket exhausted and
// must never lose their limiter; idle keys expire and come back after a real silence.
func genC16Ticks(rng *hx.Rng) *c16Case {
	c := &c16Case{hasI: true}
	c.count = rng.Range(1, 3)
	c.interval = []int64{2e9, 3e9, 5e9, 7300e6, 60e9}[rng.Intn(5)]
	window := int64(c.count) * c.interval
	tickGap := int64(1e6) // µs: maintenanceInterval
	irregular := rng.Chance(1, 4)
	// configured expiration: far below the window (raised to it by Start), just above the window
	// plus one tick (a stamp is at most one tick old), or large
	switch rng.Intn(4) {
	case 0:
		c.expMs = rng.Range(1, 1000)
	case 1, 2:
		c.expMs = int(window/1e6) + 2000 + rng.Intn(3000)
	default:
		c.expMs = int(window/1e6)*2 + 4000
	}
	effUs := int64(c.expMs) * 1000
	if effUs < window/1000 {
		effUs = window / 1000
	}
	c.rules = []c16Rule{{limit: int64(rng.Range(1, 3)), kind: "c"}}
	if rng.Chance(1, 3) {
		c.rules = append([]c16Rule{{limit: int64(rng.Range(1, 2)), kind: "c", conds: [][2]string{{"ra", "x"}}}}, c.rules...)
	}
	wall := int64(1700000000e6) + int64(rng.Intn(5000000)) // µs
	c.g0 = wall
	// per key: busy (accessed every tick), idle phases
	type keyPlan struct {
		name      string
		busy      bool
		silentTil int64 // wall µs until which the key stays silent
	}
	plans := []keyPlan{{name: "a", busy: true}, {name: "b"}, {name: "c"}}
	if rng.Chance(1, 3) {
		plans[2].busy = true
	}
	horizon := wall + effUs*int64(rng.Range(2, 4)) + 3*tickGap
	nev := 0
	for wall < horizon && nev < 280 {
		gap := tickGap
		if irregular {
			gap = tickGap/4 + rnd64(rng, 2*tickGap)
		}
		// events between this tick and the next one
		nslots := rng.Range(0, 3)
		for sIdx := 0; sIdx < nslots; sIdx++ {
			off := rnd64(rng, gap) // µs after the last tick
			_ = off
		}
		offs := make([]int64, 0, 6)
		for _, pl := range plans {
			n := 0
			if pl.busy {
				n = rng.Range(1, 2)
				if rng.Chance(1, 25) {
					n = 0
				}
			} else if wall >= pl.silentTil && rng.Chance(1, 2) {
				n = rng.Range(1, 3)
			}
			for j := 0; j < n; j++ {
				offs = append(offs, rnd64(rng, gap))
			}
		}
		// sort offsets, assign keys round robin among the keys that asked for events
		for i := 1; i < len(offs); i++ {
			for j := i; j > 0 && offs[j] < offs[j-1]; j-- {
				offs[j], offs[j-1] = offs[j-1], offs[j]
			}
		}
		var askers []string
		for pi := range plans {
			pl := &plans[pi]
			if pl.busy {
				askers = append(askers, pl.name)
			} else if wall >= pl.silentTil {
				askers = append(askers, pl.name)
				if rng.Chance(1, 6) {
					// go silent for a while: sometimes longer than the expiration
					pl.silentTil = wall + effUs/2 + rnd64(rng, effUs*2)
				}
			}
		}
		for i, off := range offs {
			now := (wall+off)*1000 + rnd64(rng, 1000)
			ts := now
			switch rng.Intn(6) {
			case 0:
				ts = now - rnd64(rng, window)
			case 1:
				ts = now - rnd64(rng, c.interval)
			}
			op := c16Op{key: askers[(i+int(off))%len(askers)], ts: ts, now: now, size: 1}
			if len(c.rules) > 1 && rng.Chance(1, 3) {
				op.fields = append(op.fields, [2]string{"ra", "x"})
			}
			c.ops = append(c.ops, op)
			nev++
		}
		wall += gap
		c.ops = append(c.ops, c16Op{tick: true, tickUs: wall})
	}
	return c
}

// exhaustive small scope: one key, one rule, every sequence up to maxLen over the alphabet
// (event time relative to the window) × (clock step), for every buckets count 1..3 and limit 0..2
func genC16Small(w *bufio.Writer, maxLen int) {
	const interval = 10
	const base = 1000 // bucket id 100: far from the minID = 0 sentinel
	type sym struct {
		tsRel   int // in buckets relative to now's bucket
		nowStep int // in buckets; -1 = count+1
	}
	for count := 1; count <= 3; count++ {
		var alpha []sym
		for _, tsRel := range []int{-count, -1, 0, 1} {
			for _, step := range []int{0, 1, -1} {
				alpha = append(alpha, sym{tsRel, step})
			}
		}
		for limit := int64(0); limit <= 2; limit++ {
			var rec func(seq []sym)
			emit := func(seq []sym) {
				c := &c16Case{count: count, interval: interval, expMs: c16NoExpiry,
					rules: []c16Rule{{limit: limit, kind: "c"}}}
				now := int64(base)
				for _, s := range seq {
					st := s.nowStep
					if st < 0 {
						st = count + 1
					}
					now += int64(st) * interval
					c.ops = append(c.ops, c16Op{key: "a", ts: now + int64(s.tsRel)*interval + 3, now: now + 3, size: 1})
				}
				c16Line(w, c)
			}
			rec = func(seq []sym) {
				if len(seq) > 0 {
					emit(seq)
				}
				if len(seq) == maxLen {
					return
				}
				for _, s := range alpha {
					rec(append(seq[:len(seq):len(seq)], s))
				}
			}
			rec(nil)
		}
	}
}

var c16Pcts = []int{1, 5, 10, 20, 25, 30, 33, 40, 50, 60, 70, 100}

func genC16Rule(rng *hx.Rng, isDefault bool, condIdx int) c16Rule {
	var r c16Rule
	r.kind = "c"
	if rng.Chance(1, 3) {
		r.kind = "s"
	}
	switch rng.Intn(8) {
	case 0:
		r.limit = -1
	case 1:
		r.limit = 0
	case 2, 3:
		r.limit = int64(rng.Range(1, 3))
	default:
		r.limit = int64(rng.Range(1, 12))
	}
	if r.kind == "s" && r.limit > 0 {
		r.limit *= int64(rng.Range(1, 40))
	}
	if !isDefault {
		// conditions on the fields ra / rb
		r.conds = append(r.conds, [2]string{"ra", []string{"x", "y", ""}[(condIdx+rng.Intn(2))%3]})
		if rng.Chance(1, 3) {
			r.conds = append(r.conds, [2]string{"rb", rng.Pick([]string{"x", "y"})})
		}
	}
	if rng.Chance(2, 5) {
		r.dfield = "d"
		vals := []string{"e", "w", "i", "t"}
		nr := rng.Intn(4)
		left := 100
		vi := 0
		for j := 0; j < nr && vi < len(vals); j++ {
			pct := c16Pcts[rng.Intn(len(c16Pcts))]
			if pct > left {
				pct = left
			}
			if pct < 1 {
				break
			}
			left -= pct
			ra := c16Ratio{pct: pct, vals: []string{vals[vi]}}
			vi++
			if vi < len(vals) && rng.Chance(1, 4) {
				ra.vals = append(ra.vals, vals[vi])
				vi++
			}
			r.ratios = append(r.ratios, ra)
		}
		if !c16FillShares(&r) {
			// the real parser rejected the ratios (float sum > 1): no distribution
			r.dfield, r.ratios = "", nil
		}
	}
	return r
}

func genC16Random(rng *hx.Rng, nearEpoch bool) *c16Case {
	c := &c16Case{expMs: c16NoExpiry}
	c.count = rng.Range(1, 6)
	c.interval = []int64{1, 7, 10, 1000, 60e9, 3600e9}[rng.Intn(6)]
	window := int64(c.count) * c.interval
	nrules := rng.Range(1, 3)
	for i := 0; i < nrules; i++ {
		c.rules = append(c.rules, genC16Rule(rng, i == nrules-1, i))
	}
	nkeys := rng.Range(1, 5)
	keys := []string{"a", "b", "-", "default", "c"}[:nkeys]
	var nev int
	switch rng.Intn(4) {
	case 0:
		nev = rng.Range(1, 8)
	case 1, 2:
		nev = rng.Range(5, 60)
	default:
		nev = rng.Range(40, 300)
	}
	var now int64
	if nearEpoch {
		// around the minID == 0 sentinel of rebuildBuckets: bucket ids 0 … 3×count
		now = int64(rng.Range(0, 3*c.count)) * c.interval
		if c.interval > 1 {
			now += int64(rng.Intn(int(min64(c.interval, 1000))))
		}
	} else {
		now = 1700000000e9 + int64(rng.Intn(1000000))
	}
	for i := 0; i < nev; i++ {
		switch rng.Intn(10) {
		case 0, 1, 2, 3:
		case 4, 5:
			now += rnd64(rng, c.interval)
		case 6, 7:
			now += c.interval
		case 8:
			now += rnd64(rng, window+c.interval)
		default:
			now += rnd64(rng, 3*window+1)
		}
		var ts int64
		switch rng.Intn(12) {
		case 0, 1, 2, 3:
			ts = now
		case 4, 5, 6:
			ts = now - rnd64(rng, window)
		case 7:
			ts = now - window - rnd64(rng, 2*c.interval+1)
		case 8:
			ts = now + rnd64(rng, 2*c.interval+1)
		case 9:
			ts = now + rnd64(rng, 3*window+1)
		case 10:
			ts = int64(rng.Range(-3, 3)) * c.interval
		default:
			ts = now - rnd64(rng, 4*window+1)
		}
		op := c16Op{key: keys[rng.Intn(len(keys))], ts: ts, now: now, size: rng.Range(0, 30)}
		if rng.Chance(1, 12) {
			op.size = 0
		}
		if v := rng.Pick([]string{"x", "x", "y", "z", "", "-"}); v != "-" {
			op.fields = append(op.fields, [2]string{"ra", v})
		}
		if v := rng.Pick([]string{"x", "y", "-", "-"}); v != "-" {
			op.fields = append(op.fields, [2]string{"rb", v})
		}
		if v := rng.Pick([]string{"e", "w", "i", "t", "q", "", "-"}); v != "-" {
			op.fields = append(op.fields, [2]string{"d", v})
		}
		c.ops = append(c.ops, op)
	}
	return c
}

func min64(a, b int64) int64 {
	if a < b {
		return a
	}
	return b
}

func rnd64(rng *hx.Rng, n int64) int64 {
	if n <= 0 {
		return 0
	}
	return int64(rng.U64() % uint64(n))
}

// cases with X ops: wall-clock maintenance of the limiters map between bursts. The logical
// clock advances by at least the wall time the X op may take, as it does in production where
// nowFn is the wall clock.
func genC16Expiry(rng *hx.Rng) *c16Case {
	c := &c16Case{}
	c.count = rng.Range(1, 3)
	if rng.Bool() {
		c.interval = 3600e9 // window far longer than the wait
	} else {
		c.interval = int64(rng.Range(20, 100)) * 1e6 // window 20..300 ms
	}
	c.expMs = []int{1, 300, 1000}[rng.Intn(3)]
	c.rules = []c16Rule{{limit: int64(rng.Range(1, 2)), kind: "c"}}
	keys := []string{"a", "b"}
	now := int64(1700000000e9)
	now -= now % c.interval
	burst := func() {
		n := rng.Range(2, 6)
		for i := 0; i < n; i++ {
			now += rnd64(rng, 1000)
			c.ops = append(c.ops, c16Op{key: keys[rng.Intn(2)], ts: now - rnd64(rng, 2000), now: now, size: 1})
		}
	}
	burst()
	ticks := rng.Range(1, 2)
	c.ops = append(c.ops, c16Op{ticks: ticks})
	now += int64(ticks+1) * 2e9
	burst()
	return c
}
