package main

import (
	"bufio"
	"strconv"
	"strings"

	"verifharness/internal/hx"
)

// c02.proc: processor logic only. Same case format and execution as c02.run; the model side
// compares what M3 (lean/FileD/Model/Proc.lean: dischargeStream / processEvent / doActions /
// Propagate / Spawn with plain, join-like and split-like actions) predicts for the events the
// processor took with the processor-side operations of the trace. There is no order oracle
// on these cases, so the generator may leave the discipline the C01/C02 cases keep: a scripted
// ActionBreak upstream of a busy join (the event overtakes the held one). Such chains run on
// one processor and ONE stream (M3 keeps one set of action instances for one stream; the real
// processor keeps its join instance across streams, so an event left in it when the processor
// leaves a stream is flushed by the next stream's event) and the stream ends with two events
// that no action holds, so that everything held is flushed and the run goes idle.

func init() {
	execs["c02.proc"] = execC01
	if old, ok := gens["C02"]; ok {
		gens["C02"] = func(w *bufio.Writer, rng *hx.Rng, tier string) {
			old(w, rng, tier)
			n := 120
			if tier == "thorough" {
				n = 2000
			}
			r2 := hx.NewRng(rng.U64())
			for i := 0; i < n; i++ {
				genProcCase(r2).write(w, "c02.proc")
			}
		}
	}
}

func genProcCase(rng *hx.Rng) *c01Gen {
	g := genC01Case(rng, false)
	g.procs = 1
	g.failpat = ""
	g.retry = 0
	nact := 0
	joinAt := -1
	join2At := -1
	if g.chain != "" {
		acts := strings.Split(g.chain, ",")
		nact = len(acts)
		for i, a := range acts {
			if a[0] == 'j' {
				join2At = joinAt
				joinAt = i
			}
		}
	}
	if nact == 0 {
		return g
	}
	streams := map[string]bool{}
	g.nsrc = 1
	for i := range g.events {
		e := &g.events[i]
		e.src = 0
		e.spec = []byte(strings.Replace(string(e.spec), `"stream":"`+e.stream+`"`, `"stream":"s0"`, 1))
		e.stream = "s0"
		streams[strconv.Itoa(e.src)+" "+e.stream] = true
		// rewrite the verdict string: breaks anywhere, more discards around the join
		spec := string(e.spec)
		k := strings.Index(spec, `"v":"`)
		if k < 0 {
			continue
		}
		k += len(`"v":"`)
		v := []byte(spec[k : k+nact])
		for j := range v {
			switch {
			case rng.Chance(1, 6):
				v[j] = 'D'
			case rng.Chance(1, 10) && j != joinAt && j != join2At:
				v[j] = 'B'
			}
		}
		e.spec = []byte(spec[:k] + string(v) + spec[k+nact:])
	}
	// two closing events per stream that pass everything and that the join neither holds nor collapses
	pass := strings.Repeat("P", nact)
	keys := make([]string, 0, len(streams))
	for _, e := range g.events {
		key := strconv.Itoa(e.src) + " " + e.stream
		if streams[key] {
			streams[key] = false
			keys = append(keys, key)
		}
	}
	for round := 0; round < 2; round++ {
		for _, key := range keys {
			parts := strings.Split(key, " ")
			src, _ := strconv.Atoi(parts[0])
			spec := c01Spec(parts[1], pass, []string{"x" + strconv.Itoa(round), "x" + strconv.Itoa(round)})
			var ks strings.Builder
			for p, a := range strings.Split(g.chain, ",") {
				if strings.HasSuffix(a, ":c") {
					ks.WriteString(`,"k` + strconv.Itoa(p) + `":"y"`)
				}
			}
			if ks.Len() > 0 {
				spec = append(spec[:len(spec)-1], []byte(ks.String()+"}")...)
			}
			g.events = append(g.events, c01Event{src: src, stream: parts[1], spec: spec})
		}
	}
	return g
}
