package main

import (
	"context"
	"fmt"
	"os"
	"runtime"
	"sync"
	"sync/atomic"
	"time"

	"github.com/ozontech/file.d/metric"
	"github.com/ozontech/file.d/pipeline"
	"github.com/prometheus/client_golang/prometheus"

	"verifharness/internal/hx"
)

// c08.stopstress <rounds> <adders> <workers> <perAdder> <seed>
//
// Gate-free stress of "Stop while events are still being added" on the real Batcher: every round
// starts a fresh Batcher (BatchSizeCount 1: every Add seals and hands a batch to the workers),
// 4–8 goroutines call Add concurrently, Stop is issued when a PRNG-chosen number of Adds has
// happened. No verif gate or trace is installed: nothing depends on where a gate line sits.
// Result: `ok`, `panic:<kind>` (an Add panicked), `unsent-commit` (an event was committed that had
// not been handed to OutFn), `stuck`.

func init() {
	execs["c08.stopstress"] = execC08Stress
	execs["c08.trickle"] = execC08Trickle
}

type stressCtl struct {
	sent   *sync.Map
	unsent *atomic.Int64
}

func (c *stressCtl) Commit(ev *pipeline.Event) {
	if _, ok := c.sent.Load(ev.SeqID); !ok {
		c.unsent.Add(1)
	}
}
func (c *stressCtl) Error(string) {}

func execC08Stress(t *hx.Toks) string {
	rounds, adders, workers, perAdder := t.Int(), t.Int(), t.Int(), t.Int()
	seed := t.Uint64()
	if t.Err != nil || !t.Done() || rounds < 1 || rounds > 100000 || adders < 1 || adders > 64 || workers < 1 || workers > 16 || perAdder < 1 || perAdder > 10000 {
		return "bad-case"
	}
	pipeline.VerifSetTrace(nil)
	pipeline.VerifSetGate(nil)
	rng := hx.NewRng(seed)
	mctl := metric.NewCtl("", prometheus.NewRegistry(), time.Minute, 0)
	for r := 0; r < rounds; r++ {
		sent := &sync.Map{}
		unsent := &atomic.Int64{}
		batcher := pipeline.NewBatcher(pipeline.BatcherOptions{
			PipelineName: "verif", OutputType: fmt.Sprintf("c08stress%d", r),
			OutFn: func(_ *pipeline.WorkerData, batch *pipeline.Batch) {
				batch.ForEach(func(e *pipeline.Event) { sent.Store(e.SeqID, true) })
			},
			Controller: &stressCtl{sent: sent, unsent: unsent}, Workers: workers, BatchSizeCount: 1,
			FlushTimeout: time.Hour, MetricCtl: mctl,
		})
		ctx, cancel := context.WithCancel(context.Background())
		batcher.Start(ctx)
		var total atomic.Int64
		var panicKindSeen atomic.Value
		stopAfter := int64(rng.Intn(adders*perAdder*3/4 + 1))
		var wg sync.WaitGroup
		for a := 0; a < adders; a++ {
			wg.Add(1)
			go func(a int) {
				defer wg.Done()
				for i := 0; i < perAdder; i++ {
					func() {
						defer func() {
							if p := recover(); p != nil {
								panicKindSeen.Store(panicKind(p))
							}
						}()
						batcher.Add(&pipeline.Event{SeqID: uint64(a*perAdder + i + 1), Offset: int64(a*perAdder + i + 1), Size: 1})
					}()
					total.Add(1)
				}
			}(a)
		}
		stopped := make(chan struct{})
		go func() {
			for total.Load() < stopAfter {
				runtime.Gosched()
			}
			batcher.Stop()
			close(stopped)
		}()
		wg.Wait()
		stuck := false
		select {
		case <-stopped:
		case <-time.After(10 * time.Second):
			stuck = true
		}
		cancel()
		if k := panicKindSeen.Load(); k != nil {
			if os.Getenv("VERIF_DEBUG") != "" {
				fmt.Fprintf(os.Stderr, "stopstress: panic in round %d\n", r)
			}
			return "panic:" + k.(string)
		}
		if unsent.Load() > 0 {
			return "unsent-commit"
		}
		if stuck {
			return "stuck"
		}
	}
	return "ok"
}

// c08.trickle <workers> <timeoutMs> <gapMs> <count> <bytes> <n> (<size> <kind>)*n
//
// A slow trickle on the real Batcher: one adder, an Add every gapMs (a fraction of the flush timeout),
// count/byte limits far above what arrives, free-running OutFn. Result: the C08 boundary trace. The
// oracle reads the staleness clause literally off the trace: between the `a` of an event and the `s`
// of its batch at most timeoutMs/100 + 4 heartbeat iterations (`h`) may be logged.
func execC08Trickle(t *hx.Toks) string {
	workers, timeoutMs, gapMs, count, nbytes, n := t.Int(), t.Int(), t.Int(), t.Int(), t.Int(), t.Int()
	if t.Err != nil || n < 1 || n > 2000 {
		return "bad-case"
	}
	specs := make([]*evSpec, n)
	evs := map[uint64]*evSpec{}
	for i := range specs {
		specs[i] = &evSpec{id: uint64(i + 1), size: t.Int(), kind: t.Int()}
		evs[specs[i].id] = specs[i]
	}
	if t.Err != nil || !t.Done() || workers < 1 || timeoutMs < 1 || timeoutMs > 5000 || gapMs < 0 || gapMs > 1000 || (count == 0 && nbytes == 0) || count < 0 || nbytes < 0 {
		return "bad-case"
	}
	log := newTLog()
	rig := newRig(log, false, make(chan note, 16), evs)
	rig.freeRun = true
	batcher := pipeline.NewBatcher(pipeline.BatcherOptions{
		PipelineName: "verif", OutputType: "c08trickle",
		OutFn: func(_ *pipeline.WorkerData, batch *pipeline.Batch) {
			seq, _ := rig.outEnter(batch)
			rig.outLeave(seq, batch)
		},
		Controller: rig, Workers: workers, BatchSizeCount: count, BatchSizeBytes: nbytes,
		FlushTimeout: time.Duration(timeoutMs) * time.Millisecond,
		MetricCtl:    metric.NewCtl("", prometheus.NewRegistry(), time.Minute, 0),
	})
	rig.id = pipeline.VerifBatcherID(batcher)
	rig.batcher = batcher
	uninstall := installSinks(rig)
	defer uninstall()
	ctx, cancel := context.WithCancel(context.Background())
	defer cancel()
	batcher.Start(ctx)
	for _, s := range specs {
		batcher.Add(mkEvent(s))
		time.Sleep(time.Duration(gapMs) * time.Millisecond)
	}
	countH := func() int {
		log.mu.Lock()
		defer log.mu.Unlock()
		c := 0
		for _, e := range log.entries {
			if e.tok == "h" {
				c++
			}
		}
		return c
	}
	h0 := countH()
	limit := timeoutMs/100 + 8
	wallCap := time.Now().Add(30 * time.Second)
	ok := false
	for countH() < h0+limit && time.Now().Before(wallCap) {
		log.mu.Lock()
		ok = log.nCommit["m"] == log.nAdded["m"]
		log.mu.Unlock()
		if ok {
			break
		}
		time.Sleep(time.Millisecond)
	}
	w := "0"
	if ok {
		w = "1"
	}
	log.add(&tEntry{tok: "w", extra: w})
	stopped := make(chan struct{})
	go func() { batcher.Stop(); close(stopped) }()
	select {
	case <-stopped:
	case <-time.After(10 * time.Second):
		log.add(&tEntry{tok: "panic:stuck"})
	}
	return log.render()
}

// c08.hbperiod <workers> <timeoutMs> <count> <n> (<size> <kind>)*n
//
// The heartbeat period read off the trace. FlushTimeout is far above 100 ms; n (< count) events are added
// at once and stay in the current batch. A goroutine of the harness sleeping 100 ms per tick logs `k`
// (reference clock in the same process: load slows both sleepers alike); the case ends after 5 heartbeat
// iterations or 14 clock ticks, whichever comes first — it never waits for the flush. Oracle: never more
// than 4 clock ticks without a heartbeat iteration (the bound `timeout + H` of the staleness clause needs a
// heartbeat period H that does not grow with FlushTimeout).
func init() {
	execs["c08.hbperiod"] = execC08HbPeriod
}

func execC08HbPeriod(t *hx.Toks) string {
	workers, timeoutMs, count, n := t.Int(), t.Int(), t.Int(), t.Int()
	if t.Err != nil || n < 0 || n > 1000 {
		return "bad-case"
	}
	specs := make([]*evSpec, n)
	evs := map[uint64]*evSpec{}
	for i := range specs {
		specs[i] = &evSpec{id: uint64(i + 1), size: t.Int(), kind: t.Int()}
		evs[specs[i].id] = specs[i]
	}
	if t.Err != nil || !t.Done() || workers < 1 || timeoutMs < 1 || timeoutMs > 3600000 || count <= n {
		return "bad-case"
	}
	log := newTLog()
	rig := newRig(log, false, make(chan note, 16), evs)
	rig.freeRun = true
	batcher := pipeline.NewBatcher(pipeline.BatcherOptions{
		PipelineName: "verif", OutputType: "c08hb",
		OutFn: func(_ *pipeline.WorkerData, batch *pipeline.Batch) {
			seq, _ := rig.outEnter(batch)
			rig.outLeave(seq, batch)
		},
		Controller: rig, Workers: workers, BatchSizeCount: count,
		FlushTimeout: time.Duration(timeoutMs) * time.Millisecond,
		MetricCtl:    metric.NewCtl("", prometheus.NewRegistry(), time.Minute, 0),
	})
	rig.id = pipeline.VerifBatcherID(batcher)
	rig.batcher = batcher
	uninstall := installSinks(rig)
	defer uninstall()
	ctx, cancel := context.WithCancel(context.Background())
	defer cancel()
	clockStop := make(chan struct{})
	clockDone := make(chan struct{})
	var ticks atomic.Int64
	go func() {
		defer close(clockDone)
		for {
			time.Sleep(100 * time.Millisecond)
			select {
			case <-clockStop:
				return
			default:
			}
			log.add(&tEntry{tok: "k"})
			ticks.Add(1)
		}
	}()
	batcher.Start(ctx)
	for _, s := range specs {
		batcher.Add(mkEvent(s))
	}
	countH := func() int {
		log.mu.Lock()
		defer log.mu.Unlock()
		c := 0
		for _, e := range log.entries {
			if e.tok == "h" {
				c++
			}
		}
		return c
	}
	for countH() < 5 && ticks.Load() < 14 {
		time.Sleep(2 * time.Millisecond)
	}
	close(clockStop)
	stopped := make(chan struct{})
	go func() { batcher.Stop(); close(stopped) }()
	select {
	case <-stopped:
	case <-time.After(10 * time.Second):
		log.add(&tEntry{tok: "panic:stuck"})
	}
	<-clockDone
	return log.render()
}
