package main

import (
	"bufio"
	"bytes"
	"fmt"
	"sort"
	"strconv"
	"strings"

	"go.uber.org/zap"

	insaneJSON "github.com/ozontech/insane-json"

	"github.com/ozontech/file.d/cfg"
	"github.com/ozontech/file.d/fd"
	"github.com/ozontech/file.d/logger"
	"github.com/ozontech/file.d/pipeline"
	"github.com/ozontech/file.d/plugin/action/keep_fields"
	"github.com/ozontech/file.d/plugin/action/remove_fields"

	"verifharness/internal/hx"
	"verifharness/internal/jt"
)

// C18: keep_fields / remove_fields select exactly the configured paths.
//
//	c18.parse  <sel>                 → <n> <seg>…                    cfg.ParseFieldSelector
//	c18.rt     <n> <field>…          → <sel> <n> <seg>…              Parse(BuildFieldSelector(fields))
//	c18.remove <n> <sel>… <tree>     → cfgerr | ok <n> <perm>… <np> (<len> <seg>…)… <tree>
//	c18.keep   <n> <sel>… <tree>       (real plugin: factory, Start, Do on an event decoded from the tree)
//
// perm: the permutation sort.Slice applies inside cfg.ParseNestedFields (oracle parameter of the model);
// recomputed here with the same comparator on the same lengths. The paths are the real ParseNestedFields
// result. The tree is the event after Do as insane-json ENCODES it, re-decoded; if walking the node arrays
// (AsFields) gives a different tree the result is `split …` (never produced by the model).

func init() {
	execs["c18.parse"] = execC18Parse
	execs["c18.rt"] = execC18RT
	execs["c18.remove"] = func(t *hx.Toks) string { return execC18Sel(t, false) }
	execs["c18.keep"] = func(t *hx.Toks) string { return execC18Sel(t, true) }
	gens["C18"] = genC18
}

func c18Segs(p []string) string {
	var sb strings.Builder
	sb.WriteString(strconv.Itoa(len(p)))
	for _, s := range p {
		sb.WriteByte(' ')
		sb.WriteString(hx.Enc([]byte(s)))
	}
	return sb.String()
}

func execC18Parse(t *hx.Toks) string {
	sel := t.Bytes()
	if t.Err != nil || !t.Done() {
		return "bad-case"
	}
	return c18Segs(cfg.ParseFieldSelector(string(sel)))
}

func execC18RT(t *hx.Toks) string {
	n := t.Int()
	var fields []string
	for i := 0; i < n && t.Err == nil; i++ {
		fields = append(fields, string(t.Bytes()))
	}
	if t.Err != nil || !t.Done() {
		return "bad-case"
	}
	sel := cfg.BuildFieldSelector(fields)
	return hx.Enc([]byte(sel)) + " " + c18Segs(cfg.ParseFieldSelector(sel))
}

// sortPerm re-runs the sort of ParseNestedFields and returns the permutation it applied.
func c18SortPerm(sels []string) []int {
	type ent struct {
		path []string
		idx  int
	}
	paths := make([]ent, 0, len(sels))
	for i, s := range sels {
		paths = append(paths, ent{cfg.ParseFieldSelector(s), i})
	}
	sort.Slice(paths, func(i, j int) bool {
		return len(paths[i].path) < len(paths[j].path)
	})
	perm := make([]int, len(paths))
	for i, e := range paths {
		perm[i] = e.idx
	}
	return perm
}

func execC18Sel(t *hx.Toks, keep bool) string {
	logger.Level.SetLevel(zap.FatalLevel) // ParseNestedFields warns about every covered path
	n := t.Int()
	var sels []string
	for i := 0; i < n && t.Err == nil; i++ {
		sels = append(sels, string(t.Bytes()))
	}
	tree := jt.Parse(t)
	if t.Err != nil || !t.Done() {
		return "bad-case"
	}
	paths, err := cfg.ParseNestedFields(sels)
	if err != nil {
		return "cfgerr" // Start would logger.Fatal
	}
	perm := c18SortPerm(sels)

	typ := "remove_fields"
	if keep {
		typ = "keep_fields"
	}
	info, err := fd.DefaultPluginRegistry.Get(pipeline.PluginKindAction, typ)
	if err != nil {
		return "no-plugin"
	}
	plug, config := info.Factory()
	switch c := config.(type) {
	case *remove_fields.Config:
		c.Fields = sels
	case *keep_fields.Config:
		c.Fields = sels
	default:
		return "bad-config-type"
	}
	action := plug.(pipeline.ActionPlugin)
	action.Start(config, &pipeline.ActionPluginParams{
		PluginDefaultParams: pipeline.PluginDefaultParams{PipelineName: "verif"},
		Logger:              zap.NewNop().Sugar(),
	})
	defer action.Stop()

	root, err := insaneJSON.DecodeBytes(tree.JSON())
	if err != nil {
		return "bad-json"
	}
	defer insaneJSON.Release(root)
	ev := &pipeline.Event{Root: root}
	if res := action.Do(ev); res != pipeline.ActionPass {
		return "not-pass"
	}
	// what leaves the pipeline is the encoding; the node arrays are what later actions see
	enc := root.Encode(nil)
	root2, err := insaneJSON.DecodeBytes(enc)
	if err != nil {
		return "split invalid-json " + hx.Enc(enc)
	}
	defer insaneJSON.Release(root2)
	outEnc := jt.FromNode(root2.Node)
	outWalk := jt.FromNode(root.Node)
	if outEnc.Tok() != outWalk.Tok() {
		return "split " + outEnc.Tok() + " / " + outWalk.Tok()
	}

	var sb strings.Builder
	sb.WriteString("ok ")
	sb.WriteString(strconv.Itoa(len(perm)))
	for _, i := range perm {
		sb.WriteByte(' ')
		sb.WriteString(strconv.Itoa(i))
	}
	sb.WriteByte(' ')
	sb.WriteString(strconv.Itoa(len(paths)))
	for _, p := range paths {
		sb.WriteByte(' ')
		sb.WriteString(c18Segs(p))
	}
	sb.WriteByte(' ')
	sb.WriteString(outEnc.Tok())
	return sb.String()
}

// ---------------------------------------------------------------------------- generators

func c18Line(w *bufio.Writer, keep bool, sels [][]byte, t *jt.Tree) {
	cmd := "c18.remove"
	if keep {
		cmd = "c18.keep"
	}
	fmt.Fprintf(w, "%s %d", cmd, len(sels))
	for _, s := range sels {
		fmt.Fprintf(w, " %s", hx.Enc(s))
	}
	fmt.Fprintf(w, " %s\n", t.Tok())
}

func c18Escape(path [][]byte) []byte {
	var out []byte
	for i, f := range path {
		if i > 0 {
			out = append(out, '.')
		}
		out = append(out, bytes.ReplaceAll(f, []byte("."), []byte(`\.`))...)
	}
	return out
}

type c18Node struct {
	path [][]byte
	t    *jt.Tree
}

// every node reachable through objects (arrays and scalars are listed but not entered)
func c18Nodes(t *jt.Tree, prefix [][]byte, out *[]c18Node) {
	if t.Kind != jt.Obj {
		return
	}
	for _, kv := range t.Obj {
		p := append(append([][]byte(nil), prefix...), kv.K)
		*out = append(*out, c18Node{p, kv.V})
		c18Nodes(kv.V, p, out)
	}
}

var c18Idx = []string{"0", "1", "2", "-0", "+1", "00", "01", "7", "-1", "x", "1x", "", "+", "9999999999999999999999"}
var c18Weird = []string{"", ".", "..", "...", "a..b", `\`, `a\`, `a\.`, ".a", "a.", `a\\.b`, `\.`, `a\.b..c`, "a.b..", `..a`, `a\..b`, `a.\.b`}

func c18Selectors(r *hx.Rng, t *jt.Tree, n int, keys []string) [][]byte {
	var nodes []c18Node
	c18Nodes(t, nil, &nodes)
	var sels [][]byte
	for len(sels) < n {
		kind := r.Intn(12)
		if len(nodes) == 0 && kind < 9 {
			kind = 9 + r.Intn(3)
		}
		switch kind {
		case 0, 1, 2, 3: // an existing path
			sels = append(sels, c18Escape(nodes[r.Intn(len(nodes))].path))
		case 4: // existing path + missing element
			p := nodes[r.Intn(len(nodes))].path
			sels = append(sels, c18Escape(append(append([][]byte(nil), p...), []byte(keys[r.Intn(len(keys))]))))
		case 5: // ancestor of an existing path
			p := nodes[r.Intn(len(nodes))].path
			sels = append(sels, c18Escape(p[:r.Range(1, len(p))]))
		case 6, 7: // through an array / a scalar
			var cands []c18Node
			for _, nd := range nodes {
				if (kind == 6 && nd.t.Kind == jt.Arr) || (kind == 7 && nd.t.Kind != jt.Arr && nd.t.Kind != jt.Obj) {
					cands = append(cands, nd)
				}
			}
			if len(cands) == 0 {
				continue
			}
			nd := cands[r.Intn(len(cands))]
			p := append(append([][]byte(nil), nd.path...), []byte(c18Idx[r.Intn(len(c18Idx))]))
			if r.Chance(1, 3) {
				p = append(p, []byte(keys[r.Intn(len(keys))]))
			}
			sels = append(sels, c18Escape(p))
		case 8: // a sibling that does not exist
			p := nodes[r.Intn(len(nodes))].path
			q := append(append([][]byte(nil), p[:len(p)-1]...), []byte("nope"))
			sels = append(sels, c18Escape(q))
		case 9: // missing top-level key / random path over the key pool
			k := r.Range(1, 3)
			var p [][]byte
			for i := 0; i < k; i++ {
				p = append(p, []byte(keys[r.Intn(len(keys))]))
			}
			sels = append(sels, c18Escape(p))
		case 10: // raw selector text with dots and backslashes
			sels = append(sels, r.Bytes(r.Range(1, 6), []byte(`ab.\`)))
		default:
			if r.Chance(1, 4) {
				sels = append(sels, []byte(c18Weird[r.Intn(len(c18Weird))]))
			} else if len(sels) > 0 { // duplicate of an earlier selector
				sels = append(sels, sels[r.Intn(len(sels))])
			}
		}
	}
	// sort.Slice keeps the input order of equal-length paths only for n ≤ 12: shuffle to vary it
	for i := len(sels) - 1; i > 0; i-- {
		j := r.Intn(i + 1)
		sels[i], sels[j] = sels[j], sels[i]
	}
	return sels
}

var c18Wide = func() []string {
	var ks []string
	for i := 0; i < 40; i++ {
		ks = append(ks, "k"+strconv.Itoa(i))
	}
	return append(ks, "a", "b", "0", "k.dot")
}()

var c18Keys = []string{"a", "b", "c", "d", "e", "f", "k.dot", `k\esc`, "a.b", "0", "1", "", "ключ", `t\`, ".", "x.y.z", "level", "msg"}

// small exhaustive scope: root {a,b,c} with values from a fixed menu, all subsets of the 12 selectors
// a, b, c, a.a … c.c, both plugins (every subset in the thorough tier; subsets of size ≤ 2 plus a 1% sample in quick)
func c18Exhaustive(w *bufio.Writer, r *hx.Rng, tier string) {
	menu := func() []*jt.Tree {
		return []*jt.Tree{
			jt.Nu("1"),
			jt.O(jt.F("a", jt.Nu("1")), jt.F("b", jt.S("x")), jt.F("c", jt.N())),
			jt.O(jt.F("b", jt.Nu("2"))),
			jt.A(jt.Nu("1"), jt.Nu("2")),
			jt.O(),
		}
	}
	names := []string{"a", "b", "c"}
	var universe [][]byte
	for _, x := range names {
		universe = append(universe, []byte(x))
	}
	for _, x := range names {
		for _, y := range names {
			universe = append(universe, []byte(x+"."+y))
		}
	}
	m := len(menu())
	for ai := 0; ai < m; ai++ {
		for bi := 0; bi < m; bi++ {
			for ci := 0; ci < m; ci++ {
				obj := jt.O(jt.F("a", menu()[ai]), jt.F("b", menu()[bi]), jt.F("c", menu()[ci]))
				for mask := 1; mask < 1<<len(universe); mask++ {
					pop := 0
					for x := mask; x > 0; x &= x - 1 {
						pop++
					}
					if tier != "thorough" && pop > 2 && !r.Chance(1, 100) {
						continue
					}
					var sels [][]byte
					for i := range universe {
						if mask&(1<<i) != 0 {
							sels = append(sels, universe[i])
						}
					}
					c18Line(w, false, sels, obj)
					c18Line(w, true, sels, obj)
				}
			}
		}
	}
}

func genC18(w *bufio.Writer, rng *hx.Rng, tier string) {
	// hx.NewRng(seed) starts at seed*G and steps by G: the streams of seeds n and n+1 are the same stream
	// shifted by one draw. Re-key from the first (mixed) output so that seeds give unrelated runs.
	rng = hx.NewRng(rng.U64())
	// 1. selector grammar: every string over {a . \} up to length n
	maxLen, nrand, nrt := 7, 40000, 3000
	if tier == "thorough" {
		maxLen, nrand, nrt = 9, 700000, 30000
	}
	alpha := []byte(`a.\`)
	var rec func(cur []byte)
	rec = func(cur []byte) {
		fmt.Fprintf(w, "c18.parse %s\n", hx.Enc(cur))
		if len(cur) == maxLen {
			return
		}
		for _, c := range alpha {
			rec(append(cur, c))
		}
	}
	rec(nil)
	// 2. round trip: field-name lists over {a . \} (exhaustive for short lists) and random ones
	var names [][]byte
	var recN func(cur []byte, n int)
	recN = func(cur []byte, n int) {
		names = append(names, append([]byte(nil), cur...))
		if len(cur) == n {
			return
		}
		for _, c := range alpha {
			recN(append(cur, c), n)
		}
	}
	recN(nil, 2)
	for _, a := range names {
		fmt.Fprintf(w, "c18.rt 1 %s\n", hx.Enc(a))
		for _, b := range names {
			fmt.Fprintf(w, "c18.rt 2 %s %s\n", hx.Enc(a), hx.Enc(b))
		}
	}
	for i := 0; i < nrt; i++ {
		n := rng.Range(0, 4)
		fmt.Fprintf(w, "c18.rt %d", n)
		for j := 0; j < n; j++ {
			var f []byte
			if rng.Chance(1, 2) {
				f = []byte(c18Keys[rng.Intn(len(c18Keys))])
			} else {
				f = rng.Bytes(rng.Range(0, 5), []byte(`ab.\`))
			}
			fmt.Fprintf(w, " %s", hx.Enc(f))
		}
		w.WriteByte('\n')
	}
	// 3. exhaustive small objects × selector subsets
	c18Exhaustive(w, rng, tier)
	// 4. structured random events: unique keys (with dots, backslashes, digits, empty), depth ≤ 4, width ≤ 5
	for i := 0; i < nrand; i++ {
		gc := jt.GenCfg{MaxDepth: 4, MaxWidth: 5, Keys: c18Keys, UniqueKeys: true}
		switch rng.Intn(12) {
		case 0:
			gc.MaxWidth = 30 // insane-json switches Dig to its map index above 16 fields
			gc.MaxDepth = 2
			gc.Keys = c18Wide
		case 1, 2:
			gc.Keys = []string{"a", "b", "c", "d", "e"}
		}
		obj := jt.GenObj(rng, gc)
		if rng.Chance(1, 60) { // Do passes a root that is not an object through
			obj = jt.GenValue(rng, gc)
		}
		n := rng.Range(1, 6)
		if rng.Chance(1, 25) {
			n = rng.Range(13, 20) // sort.Slice leaves insertion sort above 12 elements
		}
		sels := c18Selectors(rng, obj, n, gc.Keys)
		c18Line(w, rng.Bool(), sels, obj)
	}
}
