package main

import (
	"bufio"
	"fmt"
	"runtime"
	"sort"
	"strconv"
	"strings"
	"sync"
	"time"

	"github.com/ozontech/file.d/pipeline"
	"github.com/ozontech/file.d/pipeline/metadata"
	"github.com/ozontech/file.d/plugin/input/kafka"
	"github.com/prometheus/client_golang/prometheus"
	"github.com/twmb/franz-go/pkg/kgo"
	"go.uber.org/zap"

	"verifharness/internal/hx"
)

// C10: Kafka input never acknowledges a record that is not finished.
//
//	c10.pack  <index> <partition> <offset> <epoch>
//	   real assembleSourceID / disassembleSourceID / assembleOffset / disassembleOffset
//	c10.marks <ntopics> <nrec> (<topic> <part> <offset> <epoch>)… <ncommit> <i>…
//	   real Plugin.Commit against an offline kgo.Client, in the given order; marks after each commit
//	c10.pipe  <procs> <async> <capacity> <ntopics> <nrec> (<topic> <part> <offset> <epoch> <discard>)… <nchoice> <c>…
//	   real pipeline in spread mode: records enter through the real pconsumer.consume loop, a harness
//	   output acknowledges in the order chosen by the choice list, Commit goes to the real kafka plugin
//	   (offline client). The result is the observed trace.

func init() {
	execs["c10.pack"] = execC10Pack
	execs["c10.marks"] = execC10Marks
	execs["c10.pipe"] = execC10Pipe
	gens["C10"] = genC10
}

type c10Rec struct {
	topic   int
	part    int32
	off     int64
	epoch   int32
	discard bool
	kind    int // c10.live: 0 ordinary, 1 tombstone (empty value), 2 malformed JSON
}

func (r c10Rec) record() *kgo.Record {
	return &kgo.Record{Partition: r.part, Offset: r.off, LeaderEpoch: r.epoch}
}

func c10Int32(t *hx.Toks) int32 {
	v := t.Int64()
	if v < -1<<31 || v > 1<<31-1 {
		t.Err = fmt.Errorf("int32 out of range")
	}
	return int32(v)
}

func execC10Pack(t *hx.Toks) string {
	index := t.Int64()
	part := c10Int32(t)
	off := t.Int64()
	epoch := c10Int32(t)
	if t.Err != nil || !t.Done() {
		return "bad-case"
	}
	sid := kafka.VerifAssembleSourceID(int(index), part)
	i2, p2 := kafka.VerifDisassembleSourceID(sid)
	asm := kafka.VerifAssembleOffset(&kgo.Record{Partition: part, Offset: off, LeaderEpoch: epoch})
	eo := kafka.VerifDisassembleOffset(asm)
	return fmt.Sprintf("%d %d %d %d %d %d", uint64(sid), i2, p2, asm, eo.Offset, eo.Epoch)
}

// offline client: consumer group configured, no reachable broker. MarkCommitOffsets / MarkedOffsets
// work on the client's own state.
func c10Client(topics []string) (*kgo.Client, error) {
	return kgo.NewClient(
		kgo.SeedBrokers("127.0.0.1:1"),
		kgo.ConsumerGroup("verif-c10"),
		kgo.ConsumeTopics(topics...),
		kgo.AutoCommitMarks(),
		kgo.BlockRebalanceOnPoll(),
	)
}

func c10Topics(n int) []string {
	ts := make([]string, n)
	for i := range ts {
		ts[i] = "t" + strconv.Itoa(i)
	}
	return ts
}

func c10Marks(cl *kgo.Client) string {
	type row struct {
		t    int
		p    int32
		e    int32
		o    int64
		name string
	}
	var rows []row
	for name, parts := range cl.MarkedOffsets() {
		ti := -1
		if strings.HasPrefix(name, "t") {
			if v, err := strconv.Atoi(name[1:]); err == nil {
				ti = v
			}
		}
		for p, eo := range parts {
			rows = append(rows, row{ti, p, eo.Epoch, eo.Offset, name})
		}
	}
	sort.Slice(rows, func(i, j int) bool {
		if rows[i].t != rows[j].t {
			return rows[i].t < rows[j].t
		}
		return rows[i].p < rows[j].p
	})
	var sb strings.Builder
	sb.WriteString(strconv.Itoa(len(rows)))
	for _, r := range rows {
		fmt.Fprintf(&sb, " %d %d %d %d", r.t, r.p, r.e, r.o)
	}
	return sb.String()
}

func c10ParseRecs(t *hx.Toks, n int, withDiscard bool) []c10Rec {
	var recs []c10Rec
	for i := 0; i < n && t.Err == nil; i++ {
		r := c10Rec{topic: t.Int(), part: c10Int32(t), off: t.Int64(), epoch: c10Int32(t)}
		if withDiscard {
			r.discard = t.Bool()
		}
		recs = append(recs, r)
	}
	return recs
}

func execC10Marks(t *hx.Toks) string {
	ntopics := t.Int()
	nrec := t.Int()
	if t.Err != nil || ntopics < 1 || ntopics > 64 || nrec < 0 || nrec > 10000 {
		return "bad-case"
	}
	recs := c10ParseRecs(t, nrec, false)
	nc := t.Int()
	var order []int
	for i := 0; i < nc && t.Err == nil; i++ {
		order = append(order, t.Int())
	}
	if t.Err != nil || !t.Done() {
		return "bad-case"
	}
	for _, i := range order {
		if i < 0 || i >= len(recs) {
			return "bad-case"
		}
	}
	topics := c10Topics(ntopics)
	cl, err := c10Client(topics)
	if err != nil {
		return "err-client"
	}
	defer cl.Close()
	plugin := kafka.VerifNewPlugin(topics, cl)
	var sb strings.Builder
	sb.WriteString(strconv.Itoa(len(order)))
	for _, i := range order {
		r := recs[i]
		// the event carries what pconsumer.consume hands to controller.In
		ev := &pipeline.Event{
			SourceID: kafka.VerifAssembleSourceID(r.topic, r.part),
			Offset:   kafka.VerifAssembleOffset(r.record()),
		}
		plugin.Commit(ev)
		sb.WriteString(" " + c10Marks(cl))
	}
	return sb.String()
}

// ------------------------------------------------------------------------------- pipeline trace

type c10Op struct {
	kind  string // in out drop ack
	i     int
	a     uint64 // in: packed source id
	b     int64  // in: packed offset
	marks string // ack
}

type c10Run struct {
	mu       sync.Mutex
	ops      []c10Op
	streamOf map[int]uint64
	waiting  []int                   // records at the output, not yet acknowledged, in arrival order
	events   map[int]*pipeline.Event // async mode
	release  map[int]chan struct{}   // sync mode
	arrived  int                     // out + drop events so far
	finished int
	acked    chan struct{}
	inDone   chan struct{}
	feeding  int
	async    bool
	client   *kgo.Client
	ctl      pipeline.OutputPluginController
}

func (h *c10Run) log(op c10Op) { h.ops = append(h.ops, op) }

type c10Input struct{ real *kafka.Plugin }

// Start does what kafka.Plugin.Start does to the pipeline (source fact `kafka-start-spread`);
// the client, which Start would create against a reachable broker, is the offline one.
func (in *c10Input) Start(_ pipeline.AnyConfig, params *pipeline.InputPluginParams) {
	params.Controller.UseSpread()
	params.Controller.DisableStreams()
}
func (in *c10Input) Stop()                            {}
func (in *c10Input) Commit(e *pipeline.Event)         { in.real.Commit(e) }
func (in *c10Input) PassEvent(e *pipeline.Event) bool { return in.real.PassEvent(e) }

// c10Ctl sits between the real pconsumer.consume loop and the real pipeline: it records what
// consume hands to In.
type c10Ctl struct {
	pipeline.InputPluginController
	h *c10Run
}

func (c *c10Ctl) In(sourceID pipeline.SourceID, sourceName string, offsets pipeline.Offsets, data []byte, isNew bool, meta metadata.MetaData) uint64 {
	c.h.mu.Lock()
	c.h.log(c10Op{kind: "in", i: c.h.feeding, a: uint64(sourceID), b: pipeline.VerifOffsetsCurrent(offsets)})
	c.h.mu.Unlock()
	seq := c.InputPluginController.In(sourceID, sourceName, offsets, data, isNew, meta)
	c.h.inDone <- struct{}{}
	return seq
}

type c10Action struct{ h *c10Run }

func (a *c10Action) Start(_ pipeline.AnyConfig, _ *pipeline.ActionPluginParams) {}
func (a *c10Action) Stop()                                                      {}
func (a *c10Action) Do(e *pipeline.Event) pipeline.ActionResult {
	if e.Root.Dig("d").AsInt() != 1 {
		return pipeline.ActionPass
	}
	i := e.Root.Dig("i").AsInt()
	a.h.mu.Lock()
	a.h.streamOf[i] = pipeline.VerifEventStreamID(e)
	a.h.log(c10Op{kind: "drop", i: i})
	a.h.arrived++
	a.h.finished++
	a.h.mu.Unlock()
	return pipeline.ActionDiscard
}

type c10Output struct{ h *c10Run }

func (o *c10Output) Start(_ pipeline.AnyConfig, params *pipeline.OutputPluginParams) {
	o.h.ctl = params.Controller
}
func (o *c10Output) Stop() {}
func (o *c10Output) Out(e *pipeline.Event) {
	h := o.h
	i := e.Root.Dig("i").AsInt()
	ch := make(chan struct{})
	h.mu.Lock()
	h.streamOf[i] = pipeline.VerifEventStreamID(e)
	h.log(c10Op{kind: "out", i: i})
	h.waiting = append(h.waiting, i)
	h.arrived++
	if h.async {
		h.events[i] = e
	} else {
		h.release[i] = ch
	}
	h.mu.Unlock()
	if h.async {
		return // acknowledged later by the harness, like an output that queues events
	}
	<-ch
	h.commit(i, e)
}

// commit acknowledges record i: the real pipeline.Commit → real kafka Plugin.Commit → offline client
func (h *c10Run) commit(i int, e *pipeline.Event) {
	h.ctl.Commit(e)
	m := c10Marks(h.client)
	h.mu.Lock()
	h.log(c10Op{kind: "ack", i: i, marks: m})
	h.finished++
	h.mu.Unlock()
	h.acked <- struct{}{}
}

func execC10Pipe(t *hx.Toks) string {
	procs := t.Int()
	async := t.Bool()
	capacity := t.Int()
	ntopics := t.Int()
	nrec := t.Int()
	if t.Err != nil || ntopics < 1 || ntopics > 64 || nrec < 0 || nrec > 2000 || capacity < 1 || capacity > 4096 ||
		procs < 1 || (procs > 1 && procs%2 == 1) || procs > 16 {
		return "bad-case"
	}
	recs := c10ParseRecs(t, nrec, true)
	nch := t.Int()
	var choices []int
	for i := 0; i < nch && t.Err == nil; i++ {
		choices = append(choices, t.Int())
	}
	if t.Err != nil || !t.Done() {
		return "bad-case"
	}
	for _, r := range recs {
		if r.topic < 0 || r.topic >= ntopics {
			return "bad-case"
		}
	}
	topics := c10Topics(ntopics)
	cl, err := c10Client(topics)
	if err != nil {
		return "err-client"
	}
	defer cl.Close()
	h := &c10Run{
		streamOf: map[int]uint64{}, events: map[int]*pipeline.Event{}, release: map[int]chan struct{}{},
		acked: make(chan struct{}, 1), inDone: make(chan struct{}, 1), async: async, client: cl,
	}
	settings := &pipeline.Settings{
		Capacity:            capacity,
		Pool:                pipeline.PoolTypeStd,
		MaintenanceInterval: 200 * time.Millisecond,
		EventTimeout:        pipeline.DefaultEventTimeout,
		Antispam:            pipeline.AntispamSettings{Threshold: pipeline.DefaultAntispamThreshold, MaintenanceInterval: 200 * time.Millisecond},
		AvgEventSize:        128,
		MetaCacheSize:       8,
		StreamField:         "stream",
		Decoder:             "json",
		Metric: &pipeline.MetricSettings{
			HoldDuration:        pipeline.DefaultMetricHoldDuration,
			MaxLabelValueLength: pipeline.DefaultMetricMaxLabelValueLength,
		},
	}
	p := pipeline.New("c10", settings, prometheus.NewRegistry(), zap.NewNop())
	p.SetInput(&pipeline.InputPluginInfo{
		PluginStaticInfo:  &pipeline.PluginStaticInfo{Type: "kafka"},
		PluginRuntimeInfo: &pipeline.PluginRuntimeInfo{Plugin: &c10Input{real: kafka.VerifNewPlugin(topics, cl)}},
	})
	p.SetOutput(&pipeline.OutputPluginInfo{
		PluginStaticInfo:  &pipeline.PluginStaticInfo{Type: "c10out"},
		PluginRuntimeInfo: &pipeline.PluginRuntimeInfo{Plugin: &c10Output{h: h}},
	})
	p.AddAction(&pipeline.ActionPluginStaticInfo{
		PluginStaticInfo: &pipeline.PluginStaticInfo{
			Type:    "c10act",
			Factory: func() (pipeline.AnyPlugin, pipeline.AnyConfig) { return &c10Action{h: h}, nil },
		},
		MatchMode: pipeline.MatchModeAnd,
	})
	// processor count is fixed at Start: 1 (DisableParallelism) or 2*GOMAXPROCS
	if procs == 1 {
		p.DisableParallelism()
		p.Start()
	} else {
		old := runtime.GOMAXPROCS(procs / 2)
		p.Start()
		runtime.GOMAXPROCS(old)
	}
	stopped := false
	stop := func() {
		if !stopped {
			stopped = true
			p.Stop()
		}
	}
	defer stop()

	// one real per-partition consume loop per topic/partition of the case
	type tpKey struct {
		t int
		p int32
	}
	ctl := &c10Ctl{InputPluginController: p, h: h}
	consumers := map[tpKey]*kafka.VerifPConsumer{}
	for _, r := range recs {
		k := tpKey{r.topic, r.part}
		if consumers[k] == nil {
			consumers[k] = kafka.VerifNewPConsumer(topics[r.topic], r.part, r.topic, ctl)
		}
	}
	defer func() {
		for _, c := range consumers {
			c.Stop()
		}
	}()

	fed, step := 0, 0
	pick := func(n int) int {
		if len(choices) == 0 {
			return 0
		}
		c := choices[step%len(choices)]
		step++
		if c < 0 {
			c = -c
		}
		return c % n
	}
	wait := func(ch chan struct{}) bool {
		select {
		case <-ch:
			return true
		case <-time.After(10 * time.Second):
			return false
		}
	}
	// settle: let events that are between In and the output arrive (bounded; the trace is
	// whatever the pipeline did)
	settle := func() {
		last, stable := -1, 0
		for k := 0; k < 200 && stable < 4; k++ {
			h.mu.Lock()
			a := h.arrived
			h.mu.Unlock()
			if a == fed {
				return
			}
			if a == last {
				stable++
			} else {
				last, stable = a, 0
			}
			time.Sleep(50 * time.Microsecond)
		}
	}
	deadline := time.Now().Add(20 * time.Second)
	for {
		settle()
		h.mu.Lock()
		fin := h.finished
		w := append([]int(nil), h.waiting...)
		h.mu.Unlock()
		if fin == len(recs) {
			break
		}
		if time.Now().After(deadline) {
			return "stuck"
		}
		canFeed := fed < len(recs) && fed-fin < capacity
		n := len(w)
		if canFeed {
			n++
		}
		if n == 0 {
			time.Sleep(100 * time.Microsecond) // events in transit
			continue
		}
		c := pick(n)
		if canFeed && c == n-1 {
			r := recs[fed]
			h.mu.Lock()
			h.feeding = fed
			h.mu.Unlock()
			d := 0
			if r.discard {
				d = 1
			}
			rec := r.record()
			rec.Value = []byte(fmt.Sprintf(`{"i":%d,"d":%d}`, fed, d))
			consumers[tpKey{r.topic, r.part}].Feed([]*kgo.Record{rec})
			if !wait(h.inDone) {
				return "stuck-in"
			}
			fed++
			continue
		}
		i := w[c]
		h.mu.Lock()
		for k, x := range h.waiting {
			if x == i {
				h.waiting = append(h.waiting[:k], h.waiting[k+1:]...)
				break
			}
		}
		ev, ch := h.events[i], h.release[i]
		h.mu.Unlock()
		if async {
			go h.commit(i, ev)
		} else {
			close(ch)
		}
		if !wait(h.acked) {
			return "stuck-ack"
		}
	}
	stop()

	h.mu.Lock()
	defer h.mu.Unlock()
	var sb strings.Builder
	sb.WriteString(strconv.Itoa(len(h.ops)))
	for _, op := range h.ops {
		switch op.kind {
		case "in":
			fmt.Fprintf(&sb, " in %d %d %d %d", op.i, h.streamOf[op.i], op.a, op.b)
		case "ack":
			fmt.Fprintf(&sb, " ack %d %s", op.i, op.marks)
		default:
			fmt.Fprintf(&sb, " %s %d", op.kind, op.i)
		}
	}
	return sb.String()
}

// ------------------------------------------------------------------------------- generators

func c10PackLine(w *bufio.Writer, index int64, part int32, off int64, epoch int32) {
	fmt.Fprintf(w, "c10.pack %d %d %d %d\n", index, part, off, epoch)
}

func c10MarksLine(w *bufio.Writer, ntopics int, recs []c10Rec, order []int) {
	fmt.Fprintf(w, "c10.marks %d %d", ntopics, len(recs))
	for _, r := range recs {
		fmt.Fprintf(w, " %d %d %d %d", r.topic, r.part, r.off, r.epoch)
	}
	fmt.Fprintf(w, " %d", len(order))
	for _, i := range order {
		fmt.Fprintf(w, " %d", i)
	}
	w.WriteByte('\n')
}

func c10PipeLine(w *bufio.Writer, procs int, async bool, capacity, ntopics int, recs []c10Rec, choices []int) {
	fmt.Fprintf(w, "c10.pipe %d %s %d %d %d", procs, hx.B(async), capacity, ntopics, len(recs))
	for _, r := range recs {
		fmt.Fprintf(w, " %d %d %d %d %s", r.topic, r.part, r.off, r.epoch, hx.B(r.discard))
	}
	fmt.Fprintf(w, " %d", len(choices))
	for _, c := range choices {
		fmt.Fprintf(w, " %d", c)
	}
	w.WriteByte('\n')
}

// records of a few topic/partitions, offsets strictly increasing per partition (broker order),
// epochs non-decreasing
func c10GenRecs(rng *hx.Rng, ntopics, nparts, n int, discards bool) []c10Rec {
	type tpKey struct {
		t int
		p int32
	}
	partIDs := []int32{0, 1, 2, 7, 255, 256, 65535, 32768}
	var tps []tpKey
	for i := 0; i < nparts; i++ {
		tps = append(tps, tpKey{rng.Intn(ntopics), partIDs[rng.Intn(len(partIDs))]})
	}
	next := map[tpKey]int64{}
	ep := map[tpKey]int32{}
	bases := []int64{0, 1, 10, 65535, 65536, 1 << 31, 1<<47 - 4000}
	var recs []c10Rec
	for i := 0; i < n; i++ {
		k := tps[rng.Intn(len(tps))]
		if _, ok := next[k]; !ok {
			next[k] = bases[rng.Intn(len(bases))]
			ep[k] = []int32{0, 0, 1, 7, 65534}[rng.Intn(5)]
		}
		off := next[k]
		next[k] = off + 1 + int64(rng.Intn(3))*int64(rng.Intn(3))
		if rng.Chance(1, 8) && ep[k] < 65535 {
			ep[k]++
		}
		recs = append(recs, c10Rec{topic: k.t, part: k.p, off: off, epoch: ep[k], discard: discards && rng.Chance(1, 6)})
	}
	return recs
}

func genC10(w *bufio.Writer, rng *hx.Rng, tier string) {
	thorough := tier == "thorough"
	// hx.NewRng(seed+1) is hx.NewRng(seed) advanced by one draw (state = seed*step + c, step added per
	// draw): re-seed from a mixed output so that different seeds give unrelated streams
	rng = hx.NewRng(rng.U64())
	// ---- packing: boundary grid, then random
	idxB := []int64{0, 1, 2, 65535, 65536, 1<<31 - 1, 1 << 31, 1<<47 - 1, 1 << 47, 1<<48 - 1}
	partB := []int32{0, 1, 255, 256, 32767, 32768, 65534, 65535}
	offB := []int64{0, 1, 65535, 65536, 1<<31 - 1, 1 << 31, 1<<32 - 1, 1 << 32, 1<<46 - 1, 1 << 46, 1<<47 - 2, 1<<47 - 1}
	epB := []int32{0, 1, 255, 256, 32767, 32768, 65534, 65535}
	for _, a := range idxB {
		for _, b := range partB {
			for _, c := range offB {
				for _, d := range epB {
					if thorough || (a+int64(b)+c+int64(d))%3 == 0 {
						c10PackLine(w, a, b, c, d)
					}
				}
			}
		}
	}
	// outside the property's range: compared with the generated definitions only
	outIdx := []int64{-1, 1 << 48, 1<<48 + 5, 1<<63 - 1, -1 << 63, -65536}
	outPart := []int32{-1, 65536, 1<<31 - 1, -1 << 31, 70000}
	outOff := []int64{-1, 1 << 47, 1<<47 + 1, 1<<63 - 1, -1 << 63, -2}
	outEp := []int32{-1, 65536, 1<<31 - 1, -1 << 31}
	for _, a := range append(outIdx, 0, 5) {
		for _, b := range append(outPart, 0, 9) {
			for _, c := range append(outOff, 0, 1234567) {
				for _, d := range append(outEp, 0, 3) {
					c10PackLine(w, a, b, c, d)
				}
			}
		}
	}
	npack := 20000
	if thorough {
		npack = 300000
	}
	bits := func(max int) int64 { // random value with a random bit length up to max
		n := rng.Range(0, max)
		if n == 0 {
			return 0
		}
		return int64(rng.U64() & (1<<uint(n) - 1))
	}
	for i := 0; i < npack; i++ {
		switch rng.Intn(8) {
		case 0: // anything the types allow
			c10PackLine(w, int64(rng.U64()), int32(rng.U64()), int64(rng.U64()), int32(rng.U64()))
		case 1: // one component out of range
			a, b, c, d := bits(48), int32(bits(16)), bits(47), int32(bits(16))
			switch rng.Intn(4) {
			case 0:
				a = int64(rng.U64())
			case 1:
				b = int32(rng.U64())
			case 2:
				c = int64(rng.U64())
			default:
				d = int32(rng.U64())
			}
			c10PackLine(w, a, b, c, d)
		default:
			c10PackLine(w, bits(48), int32(bits(16)), bits(47), int32(bits(16)))
		}
	}

	// ---- direct commits
	// exhaustive small scope: one partition, n records, every commit order of every subset size
	maxN := 4
	if thorough {
		maxN = 5
	}
	for n := 1; n <= maxN; n++ {
		recs := make([]c10Rec, n)
		for i := range recs {
			recs[i] = c10Rec{topic: 0, part: 3, off: int64(10 + 2*i), epoch: int32(i / 2)}
		}
		var perm func(cur []int, used int)
		perm = func(cur []int, used int) {
			if len(cur) > 0 {
				c10MarksLine(w, 1, recs, cur)
			}
			for i := 0; i < n; i++ {
				if used&(1<<i) == 0 {
					perm(append(append([]int(nil), cur...), i), used|1<<i)
				}
			}
		}
		perm(nil, 0)
	}
	nmarks := 4000
	if thorough {
		nmarks = 60000
	}
	for i := 0; i < nmarks; i++ {
		ntopics := rng.Range(1, 4)
		recs := c10GenRecs(rng, ntopics, rng.Range(1, 4), rng.Range(1, 14), false)
		order := make([]int, len(recs))
		for j := range order {
			order[j] = j
		}
		switch rng.Intn(4) {
		case 0: // consumption order: the property must hold
		case 1: // a few adjacent swaps
			for k := 0; k < 2 && len(order) > 1; k++ {
				j := rng.Intn(len(order) - 1)
				order[j], order[j+1] = order[j+1], order[j]
			}
		default:
			for j := len(order) - 1; j > 0; j-- {
				k := rng.Intn(j + 1)
				order[j], order[k] = order[k], order[j]
			}
		}
		if rng.Chance(1, 3) {
			order = order[:rng.Range(1, len(order))]
		}
		c10MarksLine(w, ntopics, recs, order)
	}
	// a record outside the packing range changes topic / partition: model (generated definitions)
	// and implementation must still agree
	for i := 0; i < nmarks/10; i++ {
		recs := c10GenRecs(rng, 3, 2, rng.Range(1, 5), false)
		j := rng.Intn(len(recs))
		switch rng.Intn(3) {
		case 0:
			recs[j].part = []int32{65536, 65537, 131072, -1, 70000}[rng.Intn(5)]
		case 1:
			recs[j].epoch = []int32{-1, 65536, 65537, 1 << 20}[rng.Intn(4)]
		default:
			recs[j].off = []int64{-1, 1 << 47, 1<<47 + 3, -5}[rng.Intn(4)]
		}
		order := make([]int, len(recs))
		for k := range order {
			order[k] = k
		}
		c10MarksLine(w, 3, recs, order)
	}

	// ---- the real Start -> Assigned -> consume -> Commit path, topic lists with duplicates
	genC10Start(w, rng, thorough)

	// ---- the real plugin end to end against an in-process group broker, stopped while records are in flight
	genC10Stop(w, rng, thorough)

	// ---- real pipeline + real plugin + group broker: records the pipeline rejects at the input
	genC10Live(w, rng, thorough)

	// ---- the real pipeline in spread mode
	npipe := 700
	if thorough {
		npipe = 9000
	}
	for i := 0; i < npipe; i++ {
		procs := []int{1, 2, 2, 4}[rng.Intn(4)]
		async := rng.Chance(1, 3)
		capacity := rng.Range(1, 6)
		ntopics := rng.Range(1, 3)
		recs := c10GenRecs(rng, ntopics, rng.Range(1, 3), rng.Range(1, 16), true)
		nch := rng.Range(1, 24)
		choices := make([]int, nch)
		for j := range choices {
			choices[j] = rng.Intn(64)
		}
		if rng.Chance(1, 5) {
			choices = []int{0} // always the oldest waiting record: consumption order when one processor
		}
		c10PipeLine(w, procs, async, capacity, ntopics, recs, choices)
	}
}
