package main

// C13: no event content can crash or corrupt an action plugin.
//
// case   c13.act <plugin> <cfg hex JSON> <ps> <n> (E <JTree> | R <hex raw JSON text> | T)…
//          ps = pipeline settings seen by the plugin:  <maxEventSize>:<cutOff 0|1>:<cutOffField hex>:<maxLabelLen>
// result cfg-rejected                                   (validation refused the configuration)
//        <n> (<res> <status>)… <stability>
//          res       pass|collapse|discard|hold|break|undef<k>|-      (ActionResult of Do; - when Do did not return)
//                    t:<the same>                                      (result for a time-out event: only t:discard is safe)
//          status    ok | skip:undecodable | skip:no-timeout | skip:after-panic
//                    | badjson:<insane|std|both|propagated|spawned>   (std: only for events that came in valid for encoding/json)
//                    | encpanic:<kind>                                 (Encode of the event panicked: corrupt tree)
//                    | panic:<kind>@<site>:<alone|seq>                 (Do panicked; alone = also when run as the only event)
//                    | exit@<site>                                     (logger.Fatal*: the collector would have exited)
//          stability st:ok | st:changed@<i>                            (an event that had left the plugin was altered later)
//        crash:<what> / hang / oom                                     (the isolated child process died / did not finish)
//
// Every case runs in a child process (same binary, VERIF_C13_CHILD=1) so that os.Exit, runtime
// fatal errors (stack overflow, concurrent map writes), endless loops and memory blow-ups are
// observed as a result instead of killing the harness. logger.Fatal* is turned into a panic of
// type fatalExit by a zap fatal hook, both for logger.Instance and for the params.Logger handed
// to the plugin, so "the process would have exited" is observed in-process with its call site.

import (
	"bufio"
	"bytes"
	"encoding/json"
	"fmt"
	"hash/fnv"
	"io"
	"os"
	"os/exec"
	"runtime"
	"runtime/metrics"
	"sort"
	"strconv"
	"strings"
	"sync"
	"sync/atomic"
	"time"

	"github.com/ozontech/file.d/cfg"
	"github.com/ozontech/file.d/fd"
	"github.com/ozontech/file.d/logger"
	"github.com/ozontech/file.d/metric"
	"github.com/ozontech/file.d/pipeline"
	"github.com/ozontech/file.d/plugin/input/k8s"
	"github.com/ozontech/file.d/plugin/input/k8s/meta"
	insaneJSON "github.com/ozontech/insane-json"
	"github.com/prometheus/client_golang/prometheus"
	"go.uber.org/zap"
	"go.uber.org/zap/zapcore"
	corev1 "k8s.io/api/core/v1"

	_ "github.com/ozontech/file.d/plugin/action/add_file_name"
	_ "github.com/ozontech/file.d/plugin/action/add_host"
	_ "github.com/ozontech/file.d/plugin/action/cardinality"
	_ "github.com/ozontech/file.d/plugin/action/convert_date"
	_ "github.com/ozontech/file.d/plugin/action/convert_log_level"
	_ "github.com/ozontech/file.d/plugin/action/convert_utf8_bytes"
	_ "github.com/ozontech/file.d/plugin/action/debug"
	_ "github.com/ozontech/file.d/plugin/action/decode"
	_ "github.com/ozontech/file.d/plugin/action/discard"
	_ "github.com/ozontech/file.d/plugin/action/flatten"
	_ "github.com/ozontech/file.d/plugin/action/hash"
	_ "github.com/ozontech/file.d/plugin/action/join"
	_ "github.com/ozontech/file.d/plugin/action/join_template"
	_ "github.com/ozontech/file.d/plugin/action/json_decode"
	_ "github.com/ozontech/file.d/plugin/action/json_encode"
	_ "github.com/ozontech/file.d/plugin/action/json_extract"
	_ "github.com/ozontech/file.d/plugin/action/keep_fields"
	_ "github.com/ozontech/file.d/plugin/action/mask"
	_ "github.com/ozontech/file.d/plugin/action/modify"
	_ "github.com/ozontech/file.d/plugin/action/move"
	_ "github.com/ozontech/file.d/plugin/action/parse_es"
	_ "github.com/ozontech/file.d/plugin/action/parse_re2"
	_ "github.com/ozontech/file.d/plugin/action/remove_fields"
	_ "github.com/ozontech/file.d/plugin/action/rename"
	_ "github.com/ozontech/file.d/plugin/action/set_time"
	_ "github.com/ozontech/file.d/plugin/action/split"
	_ "github.com/ozontech/file.d/plugin/action/throttle"

	"verifharness/internal/hx"
	"verifharness/internal/jt"
)

func init() {
	execs["c13.act"] = execC13Act
	execs["c13.registry"] = execC13Registry
}

// ---------------------------------------------------------------- logger: Fatal → panic(fatalExit)

type fatalExit struct{ msg string }

type c13FatalHook struct{}

func (c13FatalHook) OnWrite(ce *zapcore.CheckedEntry, _ []zapcore.Field) {
	panic(fatalExit{ce.Message})
}

var c13LoggerOnce sync.Once
var c13Log *zap.Logger

// c13SetupLogger installs loggers that format every message (level debug, so the arguments of
// every log statement are evaluated), write nowhere and panic instead of exiting on Fatal.
func c13SetupLogger() *zap.Logger {
	c13LoggerOnce.Do(func() {
		enc := zapcore.NewJSONEncoder(zap.NewProductionEncoderConfig())
		core := zapcore.NewCore(enc, zapcore.AddSync(io.Discard), zapcore.DebugLevel)
		c13Log = zap.New(core, zap.WithFatalHook(c13FatalHook{}))
		logger.Instance = c13Log.Sugar().Named("fd")
		// k8s meta: the multiline action asks the gatherer for pod meta; no cluster here.
		meta.DisableMetaUpdates = true
		meta.EnableGatherer(c13Log.Sugar())
		meta.SelfNodeName = "node_1"
		meta.MetaData.NodeLabels = map[string]string{"zone": "z34"}
		pod := &corev1.Pod{}
		pod.Namespace = c13K8sNS
		pod.Name = c13K8sPod
		pod.Status.ContainerStatuses = make([]corev1.ContainerStatus, 1)
		pod.Status.ContainerStatuses[0].Name = c13K8sContainer
		pod.Status.ContainerStatuses[0].ContainerID = "containerd://" + c13K8sCID
		pod.Labels = map[string]string{"allowed_label": "allowed_value", "other": "v"}
		meta.PutMeta(pod)
	})
	return c13Log
}

const (
	c13K8sNS        = "sre"
	c13K8sPod       = "advanced-logs-checker-1111111111-trtrq"
	c13K8sContainer = "duty-bot"
	c13K8sCID       = "4e0301b633eaa2bfdcafdeba59ba0c72a3815911a6a820bf273534b0f32d98e0"
)

// ---------------------------------------------------------------- panic classification

func c13PanicKind(r any) string {
	if _, ok := r.(fatalExit); ok {
		return "exit"
	}
	s := fmt.Sprint(r)
	switch {
	case strings.Contains(s, "out of range"):
		return "bounds"
	case strings.Contains(s, "nil pointer") || strings.Contains(s, "nil map"):
		return "nil"
	case strings.Contains(s, "divide by zero"):
		return "div0"
	case strings.Contains(s, "label") || strings.Contains(s, "cardinality"):
		return "promlabel"
	case strings.Contains(s, "interface conversion"):
		return "typeassert"
	case strings.Contains(s, "insane json"):
		return "insane"
	default:
		return "other"
	}
}

// c13PanicSite names the innermost file.d function on the panicking stack (function name only:
// stable against edits that move lines). Called from the deferred recover handler, where the
// panicking frames are still on the stack.
func c13PanicSite() string {
	pcs := make([]uintptr, 64)
	n := runtime.Callers(3, pcs)
	frames := runtime.CallersFrames(pcs[:n])
	first := ""
	for {
		f, more := frames.Next()
		fn := f.Function
		switch {
		case fn == "" || strings.HasPrefix(fn, "runtime.") || strings.HasPrefix(fn, "go.uber.org/zap"):
		case strings.HasPrefix(fn, "github.com/ozontech/file.d/logger."):
		case strings.HasPrefix(fn, "main."):
			// reached the harness: no file.d frame at all
			if first == "" {
				first = "harness"
			}
			return first
		case strings.HasPrefix(fn, "github.com/ozontech/file.d/"):
			s := strings.TrimPrefix(fn, "github.com/ozontech/file.d/")
			s = strings.TrimPrefix(s, "plugin/action/")
			s = strings.TrimPrefix(s, "plugin/input/")
			// closures: keep the enclosing function
			if i := strings.Index(s, ".func"); i > 0 {
				s = s[:i]
			}
			return s
		default:
			if first == "" {
				if i := strings.LastIndex(fn, "/"); i >= 0 {
					fn = fn[i+1:]
				}
				first = "lib:" + fn
			}
		}
		if !more {
			break
		}
	}
	if first == "" {
		first = "unknown"
	}
	return first
}

// ---------------------------------------------------------------- mock controller

type c13Ctl struct {
	bad      string // first malformed thing handed to the controller
	resetBus bool   // Propagate resets the busy flag of the action (processor.Propagate)
}

func (c *c13Ctl) Propagate(e *pipeline.Event) {
	c.resetBus = true
	if e == nil || e.Root == nil {
		return
	}
	if st := c13CheckNode(e.Root.Node); st != "ok" && c.bad == "" {
		c.bad = "badjson:propagated"
	}
}

func (c *c13Ctl) Spawn(parent *pipeline.Event, nodes []*insaneJSON.Node) {
	for _, n := range nodes {
		if st := c13CheckNode(n); st != "ok" && c.bad == "" {
			c.bad = "badjson:spawned"
		}
	}
}

func (c *c13Ctl) IncMaxEventSizeExceeded(lvs ...string) {}

// ---------------------------------------------------------------- well-formedness of an event

func c13Encode(n *insaneJSON.Node) (out []byte, st string) {
	defer func() {
		if r := recover(); r != nil {
			st = "encpanic:" + c13PanicKind(r)
		}
	}()
	return n.Encode(nil), "ok"
}

// c13CheckBytes: the encoded event must re-parse with insane-json and be valid for
// encoding/json (which, like insane-json, tolerates invalid UTF-8 inside strings).
func c13CheckBytes(out []byte) string {
	r, err := insaneJSON.DecodeBytes(out)
	if err == nil {
		insaneJSON.Release(r)
	}
	std := json.Valid(out)
	switch {
	case err != nil && !std:
		return "badjson:both"
	case err != nil:
		return "badjson:insane"
	case !std:
		return "badjson:std"
	}
	return "ok"
}

func c13CheckNode(n *insaneJSON.Node) string {
	if n == nil {
		return "ok"
	}
	out, st := c13Encode(n)
	if st != "ok" {
		return st
	}
	return c13CheckBytes(out)
}

// ---------------------------------------------------------------- plugin instances

type c13PS struct {
	maxEventSize int
	cutOff       bool
	cutOffField  string
	maxLabelLen  int
}

func c13ParsePS(s string) (c13PS, bool) {
	parts := strings.Split(s, ":")
	if len(parts) != 4 {
		return c13PS{}, false
	}
	var ps c13PS
	var err error
	if ps.maxEventSize, err = strconv.Atoi(parts[0]); err != nil {
		return ps, false
	}
	ps.cutOff = parts[1] == "1"
	b, err := hx.Dec(parts[2])
	if err != nil {
		return ps, false
	}
	ps.cutOffField = string(b)
	if ps.maxLabelLen, err = strconv.Atoi(parts[3]); err != nil {
		return ps, false
	}
	return ps, true
}

func (ps c13PS) tok() string {
	return fmt.Sprintf("%d:%s:%s:%d", ps.maxEventSize, hx.B(ps.cutOff), hx.Enc([]byte(ps.cutOffField)), ps.maxLabelLen)
}

type c13Inst struct {
	name   string
	plugin pipeline.ActionPlugin
	ctl    *c13Ctl
}

var c13InstSeq atomic.Int64

// c13Start builds the plugin the way fd.setupAction + processor.start do: registry lookup,
// pipeline.GetConfig (DecodeConfig with defaults, DisallowUnknownFields, cfg.Parse) and Start.
// Any error, panic or Fatal on this path means "validation did not accept the configuration".
func c13Start(name string, cfgJSON []byte, ps c13PS) (inst *c13Inst, ok bool) {
	lg := c13SetupLogger()
	dbg := os.Getenv("VERIF_DEBUG") != ""
	defer func() {
		if r := recover(); r != nil {
			if dbg {
				fmt.Fprintf(os.Stderr, "c13 cfg rejected (%s %s): start: %v\n", name, cfgJSON, r)
			}
			inst, ok = nil, false
		}
	}()
	info, err := fd.DefaultPluginRegistry.GetActionByType(name)
	if err != nil {
		return nil, false
	}
	values := map[string]int{"capacity": 256, "gomaxprocs": 1}
	config, err := pipeline.GetConfig(info, cfgJSON, values)
	if err != nil {
		if dbg {
			fmt.Fprintf(os.Stderr, "c13 cfg rejected (%s %s): %v\n", name, cfgJSON, err)
		}
		return nil, false
	}
	anyPlugin, _ := info.Factory()
	plugin, isAction := anyPlugin.(pipeline.ActionPlugin)
	if !isAction {
		return nil, false
	}
	ctl := &c13Ctl{}
	pname := c13PipelineName(name, cfgJSON)
	settings := &pipeline.Settings{
		Capacity:                256,
		AvgEventSize:            2048,
		MaxEventSize:            ps.maxEventSize,
		CutOffEventByLimit:      ps.cutOff,
		CutOffEventByLimitField: ps.cutOffField,
		StreamField:             "stream",
		Decoder:                 "json",
		Metric: &pipeline.MetricSettings{
			HoldDuration:        pipeline.DefaultMetricHoldDuration,
			MaxLabelValueLength: ps.maxLabelLen,
		},
	}
	params := &pipeline.ActionPluginParams{
		PluginDefaultParams: pipeline.PluginDefaultParams{
			PipelineName:     pname,
			PipelineSettings: settings,
			MetricCtl:        metric.NewCtl("pipeline_"+pname, prometheus.NewRegistry(), settings.Metric.HoldDuration, ps.maxLabelLen),
		},
		Controller: ctl,
		Logger:     lg.Sugar().Named("action").Named(name),
		Index:      0,
	}
	plugin.Start(config, params)
	return &c13Inst{name: name, plugin: plugin, ctl: ctl}, true
}

// c13PipelineName: a fresh pipeline name per instance (throttle keeps its limiters per pipeline
// name), except for hash, which caches its stateless, slow to compile normalizer by pipeline name
// + action index: one name per normalizer configuration lets the plugin's own cache work as in
// production (compiling the default "all" pattern set takes ~15 s).
func c13PipelineName(name string, cfgJSON []byte) string {
	if name == "hash" {
		var hc struct {
			Normalizer json.RawMessage `json:"normalizer"`
		}
		_ = json.Unmarshal(cfgJSON, &hc)
		h := fnv.New64a()
		h.Write(hc.Normalizer)
		return "c13_hash_" + strconv.FormatUint(h.Sum64(), 16)
	}
	return "c13_" + strconv.FormatInt(c13InstSeq.Add(1), 10)
}

func (in *c13Inst) stop() {
	defer func() { _ = recover() }()
	in.plugin.Stop()
}

var c13ResNames = map[pipeline.ActionResult]string{
	pipeline.ActionPass:     "pass",
	pipeline.ActionCollapse: "collapse",
	pipeline.ActionDiscard:  "discard",
	pipeline.ActionHold:     "hold",
	pipeline.ActionBreak:    "break",
}

func c13ResName(r pipeline.ActionResult) string {
	if s, ok := c13ResNames[r]; ok {
		return s
	}
	return "undef" + strconv.Itoa(int(r))
}

// c13Do calls Do under recover. status "" = returned normally.
func (in *c13Inst) do(ev *pipeline.Event) (res string, status string) {
	defer func() {
		if r := recover(); r != nil {
			kind := c13PanicKind(r)
			site := c13PanicSite()
			if kind == "bounds" {
				stk := make([]byte, 1<<14)
				stk = stk[:runtime.Stack(stk, false)]
				if bytes.Contains(stk, []byte("insane-json.(*decoder).getNode")) {
					kind = "insane-nodepool" // see c13ViaChild: crash:insane-nodepool
				}
			}
			res = "-"
			if kind == "exit" {
				status = "exit@" + site
			} else {
				status = "panic:" + kind + "@" + site
			}
			if os.Getenv("VERIF_DEBUG") != "" {
				buf := make([]byte, 1<<16)
				buf = buf[:runtime.Stack(buf, false)]
				fmt.Fprintf(os.Stderr, "c13 panic in %s: %v\n%s\n", in.name, r, buf)
			}
		}
	}()
	return c13ResName(in.plugin.Do(ev)), ""
}

// ---------------------------------------------------------------- events of a case

type c13Ev struct {
	kind byte // 'E' tree, 'R' raw text, 'T' timeout
	text []byte
}

func c13ParseEvents(t *hx.Toks) ([]c13Ev, bool) {
	n := t.Int()
	if t.Err != nil || n < 0 || n > 100000 {
		return nil, false
	}
	evs := make([]c13Ev, 0, n)
	for i := 0; i < n; i++ {
		switch t.Next() {
		case "E":
			tr := jt.Parse(t)
			if t.Err != nil {
				return nil, false
			}
			evs = append(evs, c13Ev{'E', tr.JSON()})
		case "R":
			b := t.Bytes()
			if t.Err != nil {
				return nil, false
			}
			evs = append(evs, c13Ev{'R', b})
		case "T":
			evs = append(evs, c13Ev{'T', nil})
		default:
			return nil, false
		}
	}
	if t.Err != nil || !t.Done() {
		return nil, false
	}
	return evs, true
}

func c13MakeEvent(name string, e c13Ev, i int) (*pipeline.Event, bool) {
	if e.kind == 'T' {
		ev := &pipeline.Event{SourceName: "timeout"}
		ev.SetTimeoutKind()
		return ev, true
	}
	ev := &pipeline.Event{Root: insaneJSON.Spawn(), Offset: int64(i+1) * 10, SourceID: 1, Size: len(e.text)}
	ev.SourceName = "/k8s-logs/" + c13K8sPod + "_" + c13K8sNS + "_" + c13K8sContainer + "-" + c13K8sCID + ".log"
	if err := ev.Root.DecodeBytes(e.text); err != nil {
		return nil, false
	}
	if name == "k8s-multiline" {
		// what the k8s input adds from the file name before the action runs (k8s.go: meta);
		// the action relies on it (Fatal otherwise), so it is part of the case's precondition.
		if ev.Root.IsObject() {
			ev.Root.AddFieldNoAlloc(ev.Root, "k8s_namespace").MutateToString(c13K8sNS)
			ev.Root.AddFieldNoAlloc(ev.Root, "k8s_pod").MutateToString(c13K8sPod)
			ev.Root.AddFieldNoAlloc(ev.Root, "k8s_container_id").MutateToString(c13K8sCID)
			ev.Root.AddFieldNoAlloc(ev.Root, "k8s_container").MutateToString(c13K8sContainer)
		}
	}
	return ev, true
}

// plugins that are known to hold / collapse events (the generator aims time-out events at them; exec
// delivers a time-out to ANY plugin that is busy at that point of the sequence). Source fact
// holding-plugins-get-timeouts keeps the list in step with the code.
var c13Busyable = map[string]bool{"join": true, "join_template": true, "parse_es": true, "k8s-multiline": true}

type c13Sent struct {
	ev  *pipeline.Event
	enc []byte // encoding right after Do, for events that left the plugin (pass/break)
	idx int
}

// c13RunSeq runs the events through one plugin instance. Stops at the first panic/exit.
func c13RunSeq(name string, cfgJSON []byte, ps c13PS, evs []c13Ev) string {
	inst, ok := c13Start(name, cfgJSON, ps)
	if !ok {
		return "cfg-rejected"
	}
	defer inst.stop()
	var sb strings.Builder
	sb.WriteString(strconv.Itoa(len(evs)))
	busy := false
	var sent []c13Sent
	for i, e := range evs {
		ev, okd := c13MakeEvent(name, e, i)
		if !okd {
			sb.WriteString(" - skip:undecodable")
			continue
		}
		// a time-out event is sent to whichever action is busy (answered Collapse / Hold and has not
		// passed / discarded / propagated since): processor.processEvent, timeoutAction, Spawn
		if e.kind == 'T' && !busy {
			sb.WriteString(" - skip:no-timeout")
			continue
		}
		if name == "k8s-multiline" && e.kind != 'T' && !ev.Root.IsObject() {
			// the k8s input only produces objects (CRI/docker-json decoded + meta fields)
			sb.WriteString(" - skip:undecodable")
			continue
		}
		inst.ctl.bad = ""
		inst.ctl.resetBus = false
		res, st := inst.do(ev)
		if st != "" {
			// Do did not return: decide whether the event alone does it too
			if strings.HasPrefix(st, "panic:") {
				alone := "seq"
				if i == 0 || c13AlonePanics(name, cfgJSON, ps, e, i) {
					alone = "alone"
				}
				st += ":" + alone
			}
			fmt.Fprintf(&sb, " %s %s", res, st)
			// the plugin's state is undefined after a panic: the rest of the sequence is not run
			for j := i + 1; j < len(evs); j++ {
				sb.WriteString(" - skip:after-panic")
			}
			sb.WriteString(" st:ok")
			return sb.String()
		}
		switch res {
		case "collapse", "hold":
			busy = true
		default:
			busy = false
		}
		if inst.ctl.resetBus && res != "collapse" && res != "hold" {
			busy = false
		}
		if e.kind == 'T' {
			// results of a time-out event are reported apart: only Discard keeps the document-less
			// event (Root == nil) from being forwarded (Pass: next actions, Break: output), kept
			// (Hold: a later Propagate) or from pinning the processor to the silent stream (Collapse)
			res = "t:" + res
		}
		st = "ok"
		var enc []byte
		if ev.Root != nil {
			var est string
			enc, est = c13Encode(ev.Root.Node)
			if est != "ok" {
				st = est
			} else {
				st = c13CheckBytes(enc)
			}
			// insane-json accepts (and re-emits verbatim) documents encoding/json rejects: numbers
			// like .5 or 1e, raw control bytes and unknown escapes in strings. An event that came in
			// that way is not expected to leave in a better shape: the encoding/json half of the
			// check applies to events that were valid for encoding/json when they came in.
			if st == "badjson:std" && !json.Valid(e.text) {
				st = "ok"
			}
		}
		if st == "ok" && inst.ctl.bad != "" {
			st = inst.ctl.bad
		}
		if st == "ok" && (res == "pass" || res == "break") && ev.Root != nil {
			sent = append(sent, c13Sent{ev, enc, i})
		}
		fmt.Fprintf(&sb, " %s %s", res, st)
	}
	// stability: events that left the plugin must not change afterwards
	stab := "st:ok"
	for _, s := range sent {
		now, est := c13Encode(s.ev.Root.Node)
		if est != "ok" || !bytes.Equal(now, s.enc) {
			stab = "st:changed@" + strconv.Itoa(s.idx)
			break
		}
	}
	sb.WriteString(" " + stab)
	return sb.String()
}

func c13AlonePanics(name string, cfgJSON []byte, ps c13PS, e c13Ev, i int) bool {
	inst, ok := c13Start(name, cfgJSON, ps)
	if !ok {
		return false
	}
	defer inst.stop()
	ev, okd := c13MakeEvent(name, e, i)
	if !okd || e.kind == 'T' {
		return false
	}
	_, st := inst.do(ev)
	return st != ""
}

// ---------------------------------------------------------------- exec (parent: isolate in a child)

func c13ActDirect(t *hx.Toks) string {
	name := t.Next()
	cfgJSON := t.Bytes()
	ps, okp := c13ParsePS(t.Next())
	if t.Err != nil || !okp {
		return "bad-case"
	}
	evs, ok := c13ParseEvents(t)
	if !ok {
		return "bad-case"
	}
	return c13RunSeq(name, cfgJSON, ps, evs)
}

type c13Child struct {
	cmd    *exec.Cmd
	in     io.WriteCloser
	out    *bufio.Reader
	stderr *bytes.Buffer
}

var c13TheChild *c13Child

const (
	c13ExitHang = 97
	c13ExitOOM  = 98
)

func c13StartChild() (*c13Child, error) {
	exe, err := os.Executable()
	if err != nil {
		return nil, err
	}
	cmd := exec.Command(exe, "exec")
	cmd.Env = append(os.Environ(), "VERIF_C13_CHILD=1", "GOMEMLIMIT=3GiB")
	in, err := cmd.StdinPipe()
	if err != nil {
		return nil, err
	}
	outp, err := cmd.StdoutPipe()
	if err != nil {
		return nil, err
	}
	eb := &bytes.Buffer{}
	cmd.Stderr = &c13TailWriter{buf: eb}
	if err := cmd.Start(); err != nil {
		return nil, err
	}
	return &c13Child{cmd: cmd, in: in, out: bufio.NewReaderSize(outp, 1<<20), stderr: eb}, nil
}

// c13TailWriter keeps the last few KiB of the child's stderr (runtime fatal error text).
type c13TailWriter struct {
	mu  sync.Mutex
	buf *bytes.Buffer
}

func (w *c13TailWriter) Write(p []byte) (int, error) {
	w.mu.Lock()
	defer w.mu.Unlock()
	w.buf.Write(p)
	if w.buf.Len() > 1<<16 {
		b := w.buf.Bytes()
		keep := append([]byte(nil), b[len(b)-(1<<15):]...)
		w.buf.Reset()
		w.buf.Write(keep)
	}
	return len(p), nil
}

func (c *c13Child) kill() {
	_ = c.in.Close()
	_ = c.cmd.Process.Kill()
	_ = c.cmd.Wait()
}

func c13ViaChild(cmdName string, t *hx.Toks) string {
	line := cmdName + " " + strings.Join(t.T[t.Pos:], " ")
	for attempt := 0; attempt < 2; attempt++ {
		if c13TheChild == nil {
			c, err := c13StartChild()
			if err != nil {
				return "err-child"
			}
			c13TheChild = c
		}
		c := c13TheChild
		if _, err := io.WriteString(c.in, line+"\n"); err != nil {
			c.kill()
			c13TheChild = nil
			continue // the child had died before this case: restart once
		}
		type rd struct {
			s   string
			err error
		}
		ch := make(chan rd, 1)
		go func() {
			s, err := c.out.ReadString('\n')
			ch <- rd{s, err}
		}()
		select {
		case r := <-ch:
			if r.err == nil {
				s := strings.TrimRight(r.s, "\n")
				if i := strings.LastIndex(s, " | "); i >= 0 {
					return s[i+3:]
				}
				return "bad-child-output"
			}
			// child died while running this case
			_ = c.cmd.Wait()
			code := c.cmd.ProcessState.ExitCode()
			tail := c.stderr.String()
			c13TheChild = nil
			switch {
			case code == c13ExitHang:
				return "hang"
			case code == c13ExitOOM:
				return "oom"
			case strings.Contains(tail, "insane-json.(*decoder).getNode") && strings.Contains(tail, "index out of range"):
				// insane-json v0.1.9: a document whose node count ends exactly at the node pool's
				// length leaves no spare node; the next getNode() (any AddField) indexes past it
				return "crash:insane-nodepool"
			case strings.Contains(tail, "stack overflow") || strings.Contains(tail, "stack exceeds"):
				return "crash:stack-overflow"
			case strings.Contains(tail, "concurrent map"):
				return "crash:concurrent-map"
			case strings.Contains(tail, "out of memory"):
				return "oom"
			case strings.Contains(tail, "fatal error"):
				return "crash:fatal-error"
			case code >= 0:
				return "crash:exit" + strconv.Itoa(code)
			default:
				return "crash:signal"
			}
		case <-time.After(60 * time.Second):
			c.kill()
			c13TheChild = nil
			return "hang"
		}
	}
	return "err-child"
}

var c13WatchOnce sync.Once
var c13CaseStart atomic.Int64 // unix nanos of the running case, 0 when idle

// c13Watchdog (child only): a case that runs for more than 20 s or drives the heap above
// 2 GiB ends the child with a distinctive exit code; the parent reports hang / oom for it.
func c13Watchdog() {
	c13WatchOnce.Do(func() {
		go func() {
			sample := []metrics.Sample{{Name: "/memory/classes/heap/objects:bytes"}}
			for {
				time.Sleep(50 * time.Millisecond)
				st := c13CaseStart.Load()
				if st == 0 {
					continue
				}
				if time.Since(time.Unix(0, st)) > 20*time.Second {
					os.Exit(c13ExitHang)
				}
				metrics.Read(sample)
				if sample[0].Value.Kind() == metrics.KindUint64 && sample[0].Value.Uint64() > 2<<30 {
					os.Exit(c13ExitOOM)
				}
			}
		}()
	})
}

func c13Isolated(cmdName string, direct func(*hx.Toks) string) execFn {
	return func(t *hx.Toks) string {
		if os.Getenv("VERIF_C13_CHILD") == "" && os.Getenv("VERIF_C13_INPROC") == "" {
			return c13ViaChild(cmdName, t)
		}
		c13Watchdog()
		c13CaseStart.Store(time.Now().UnixNano())
		defer c13CaseStart.Store(0)
		return direct(t)
	}
}

var execC13Act = c13Isolated("c13.act", c13ActDirect)

// c13.registry <n> <name>…  → same list when the registered action types are exactly these
func execC13Registry(t *hx.Toks) string {
	reg := fd.VerifActionTypes()
	sort.Strings(reg)
	return strconv.Itoa(len(reg)) + " " + strings.Join(reg, " ")
}

var _ = cfg.ParseFieldSelector
var _ = k8s.MultilineActionFactory
