package main

import (
	"bufio"
	"bytes"
	"encoding/json"
	"fmt"
	"regexp"
	"slices"
	"strconv"
	"strings"
	"time"

	"github.com/ozontech/file.d/cfg"
	"github.com/ozontech/file.d/cfg/matchrule"
	"github.com/ozontech/file.d/fd"
	"github.com/ozontech/file.d/logger"
	"github.com/ozontech/file.d/metric"
	"github.com/ozontech/file.d/pipeline"
	"github.com/ozontech/file.d/pipeline/doif"
	_ "github.com/ozontech/file.d/plugin/action/mask"
	insaneJSON "github.com/ozontech/insane-json"
	"github.com/prometheus/client_golang/prometheus"
	"go.uber.org/zap"
	"go.uber.org/zap/zapcore"

	"verifharness/internal/hx"
	"verifharness/internal/jt"
)

// C17: mask hides every matched secret and touches nothing else.
//
// case line (all byte strings hex, "-" = empty):
//
//	c17.do <gField> <gValue> <metricOn> <gkind> <paths> <nmasks> <mask>… <root tree> @ <oracle>
//	 <paths>  := <n> (<len> <elem>…)…           parsed field paths (what cfg.ParseNestedFields yields)
//	 <mask>   := <re> <ng> <g>… <maxCount> <word> <cut> <aField> <aValue> <metric>
//	             <doif 0 | 1 <field> <value>> <fkind> <paths> <nrs> (<or> <nrules> (<mode> <ci> <inv> <nv> <v>…)…)…
//	 <oracle> := (<nsub> <use>)×nmasks <nent> (<maskIdx> <value> <nmatch> (<len> <int>…)…)…
//
// gkind/fkind: 0 no list, 1 ignore_fields, 2 process_fields. The oracle part carries the results
// of library calls evaluated on this very case: regexp NumSubexp, do_if verdict for the event and
// FindAllSubmatchIndex of mask i on every value the mask can be handed. exec recomputes all of it
// with the real libraries and rejects the case (bad-oracle) when a shipped entry differs, and checks
// the RE2 shape assumptions on every entry (shape-violated).
//
// result: ok <root tree after Do> <global metric delta> <nmasks> <per-mask metric delta>…

func init() {
	execs["c17.do"] = execC17
	gens["C17"] = genC17
	gens["C17W"] = genC17Witness
}

type c17Rule struct {
	mode    int
	ci, inv bool
	values  [][]byte
}

type c17RuleSet struct {
	or    bool
	rules []c17Rule
}

type c17Mask struct {
	re       []byte
	groups   []int
	maxCount int
	word     []byte
	cut      bool
	aField   []byte
	aValue   []byte
	metric   bool
	doif     bool
	dField   []byte
	dValue   []byte
	fkind    int
	paths    [][][]byte
	rulesets []c17RuleSet
	// oracle
	nsub int
	use  bool
}

type c17Ent struct {
	mask    int
	value   []byte
	matches [][]int
}

type c17Case struct {
	gField   []byte
	gValue   []byte
	metricOn bool
	gkind    int
	gpaths   [][][]byte
	masks    []c17Mask
	root     *jt.Tree
	table    []c17Ent
}

func c17ParsePaths(t *hx.Toks) [][][]byte {
	n := t.Int()
	var out [][][]byte
	for i := 0; i < n && t.Err == nil; i++ {
		l := t.Int()
		var p [][]byte
		for j := 0; j < l && t.Err == nil; j++ {
			p = append(p, t.Bytes())
		}
		out = append(out, p)
	}
	return out
}

func c17WritePaths(sb *strings.Builder, ps [][][]byte) {
	fmt.Fprintf(sb, " %d", len(ps))
	for _, p := range ps {
		fmt.Fprintf(sb, " %d", len(p))
		for _, e := range p {
			sb.WriteString(" " + hx.Enc(e))
		}
	}
}

func c17Parse(t *hx.Toks) *c17Case {
	c := &c17Case{}
	c.gField = t.Bytes()
	c.gValue = t.Bytes()
	c.metricOn = t.Bool()
	c.gkind = t.Int()
	c.gpaths = c17ParsePaths(t)
	nm := t.Int()
	for i := 0; i < nm && t.Err == nil; i++ {
		var m c17Mask
		m.re = t.Bytes()
		ng := t.Int()
		for j := 0; j < ng && t.Err == nil; j++ {
			m.groups = append(m.groups, t.Int())
		}
		m.maxCount = t.Int()
		m.word = t.Bytes()
		m.cut = t.Bool()
		m.aField = t.Bytes()
		m.aValue = t.Bytes()
		m.metric = t.Bool()
		m.doif = t.Bool()
		if m.doif {
			m.dField = t.Bytes()
			m.dValue = t.Bytes()
		}
		m.fkind = t.Int()
		m.paths = c17ParsePaths(t)
		nrs := t.Int()
		for j := 0; j < nrs && t.Err == nil; j++ {
			var rs c17RuleSet
			rs.or = t.Bool()
			nr := t.Int()
			for k := 0; k < nr && t.Err == nil; k++ {
				var r c17Rule
				r.mode = t.Int()
				r.ci = t.Bool()
				r.inv = t.Bool()
				nv := t.Int()
				for l := 0; l < nv && t.Err == nil; l++ {
					r.values = append(r.values, t.Bytes())
				}
				rs.rules = append(rs.rules, r)
			}
			m.rulesets = append(m.rulesets, rs)
		}
		c.masks = append(c.masks, m)
	}
	c.root = jt.Parse(t)
	if t.Next() != "@" {
		if t.Err == nil {
			t.Err = fmt.Errorf("missing @")
		}
		return c
	}
	for i := range c.masks {
		c.masks[i].nsub = t.Int()
		c.masks[i].use = t.Bool()
	}
	ne := t.Int()
	for i := 0; i < ne && t.Err == nil; i++ {
		var e c17Ent
		e.mask = t.Int()
		e.value = t.Bytes()
		nmm := t.Int()
		for j := 0; j < nmm && t.Err == nil; j++ {
			l := t.Int()
			var idx []int
			for k := 0; k < l && t.Err == nil; k++ {
				idx = append(idx, t.Int())
			}
			e.matches = append(e.matches, idx)
		}
		c.table = append(c.table, e)
	}
	return c
}

func (c *c17Case) line() string {
	var sb strings.Builder
	fmt.Fprintf(&sb, "c17.do %s %s %s %d", hx.Enc(c.gField), hx.Enc(c.gValue), hx.B(c.metricOn), c.gkind)
	c17WritePaths(&sb, c.gpaths)
	fmt.Fprintf(&sb, " %d", len(c.masks))
	for _, m := range c.masks {
		fmt.Fprintf(&sb, " %s %d", hx.Enc(m.re), len(m.groups))
		for _, g := range m.groups {
			fmt.Fprintf(&sb, " %d", g)
		}
		fmt.Fprintf(&sb, " %d %s %s %s %s %s", m.maxCount, hx.Enc(m.word), hx.B(m.cut), hx.Enc(m.aField), hx.Enc(m.aValue), hx.B(m.metric))
		if m.doif {
			fmt.Fprintf(&sb, " 1 %s %s", hx.Enc(m.dField), hx.Enc(m.dValue))
		} else {
			sb.WriteString(" 0")
		}
		fmt.Fprintf(&sb, " %d", m.fkind)
		c17WritePaths(&sb, m.paths)
		fmt.Fprintf(&sb, " %d", len(m.rulesets))
		for _, rs := range m.rulesets {
			fmt.Fprintf(&sb, " %s %d", hx.B(rs.or), len(rs.rules))
			for _, r := range rs.rules {
				fmt.Fprintf(&sb, " %d %s %s %d", r.mode, hx.B(r.ci), hx.B(r.inv), len(r.values))
				for _, v := range r.values {
					sb.WriteString(" " + hx.Enc(v))
				}
			}
		}
	}
	sb.WriteString(" " + c.root.Tok() + " @")
	for _, m := range c.masks {
		fmt.Fprintf(&sb, " %d %s", m.nsub, hx.B(m.use))
	}
	fmt.Fprintf(&sb, " %d", len(c.table))
	for _, e := range c.table {
		fmt.Fprintf(&sb, " %d %s %d", e.mask, hx.Enc(e.value), len(e.matches))
		for _, idx := range e.matches {
			fmt.Fprintf(&sb, " %d", len(idx))
			for _, x := range idx {
				fmt.Fprintf(&sb, " %d", x)
			}
		}
	}
	return sb.String()
}

func c17Selectors(ps [][][]byte) []string {
	out := make([]string, 0, len(ps))
	for _, p := range ps {
		ss := make([]string, len(p))
		for i, e := range p {
			ss[i] = string(e)
		}
		out = append(out, cfg.BuildFieldSelector(ss))
	}
	return out
}

func c17PathsEqual(ps [][][]byte, got [][]string) bool {
	if len(ps) != len(got) {
		return false
	}
	for i := range ps {
		if len(ps[i]) != len(got[i]) {
			return false
		}
		for j := range ps[i] {
			if string(ps[i][j]) != got[i][j] {
				return false
			}
		}
	}
	return true
}

// c17CheckPaths: the shipped parsed paths must be exactly what the plugin's own parser makes of the
// selectors we hand it (so that the model, which only sees the parsed paths, sees the same lists).
func c17CheckPaths(kind int, ps [][][]byte) bool {
	if kind == 0 {
		return len(ps) == 0
	}
	if len(ps) == 0 {
		return false
	}
	got, err := cfg.ParseNestedFields(c17Selectors(ps))
	if err != nil {
		return false
	}
	return c17PathsEqual(ps, got)
}

var c17ModeNames = []string{"prefix", "contains", "suffix"}

func (c *c17Case) doifMap(m *c17Mask) map[string]any {
	return map[string]any{"op": "equal", "field": string(m.dField), "values": []any{string(m.dValue)}}
}

// configJSON renders the plugin configuration the way a pipeline config file would carry it.
func (c *c17Case) configJSON() ([]byte, bool) {
	conf := map[string]any{
		"mask_applied_field": string(c.gField),
		"mask_applied_value": string(c.gValue),
	}
	if c.metricOn {
		conf["applied_metric_name"] = "mask_applied_total"
	} else {
		conf["applied_metric_name"] = ""
	}
	switch c.gkind {
	case 1:
		conf["ignore_fields"] = c17Selectors(c.gpaths)
	case 2:
		conf["process_fields"] = c17Selectors(c.gpaths)
	}
	var masks []any
	for i := range c.masks {
		m := &c.masks[i]
		mm := map[string]any{
			"re":            string(m.re),
			"groups":        append([]int{}, m.groups...),
			"max_count":     m.maxCount,
			"replace_word":  string(m.word),
			"cut_values":    m.cut,
			"applied_field": string(m.aField),
			"applied_value": string(m.aValue),
		}
		if m.metric {
			mm["metric_name"] = "m" + strconv.Itoa(i)
		}
		if m.doif {
			mm["do_if"] = c.doifMap(m)
		}
		switch m.fkind {
		case 1:
			mm["ignore_fields"] = c17Selectors(m.paths)
		case 2:
			mm["process_fields"] = c17Selectors(m.paths)
		}
		var rss []any
		for _, rs := range m.rulesets {
			var rules []any
			for _, r := range rs.rules {
				vals := make([]string, len(r.values))
				for k, v := range r.values {
					vals[k] = string(v)
				}
				rules = append(rules, map[string]any{"values": vals, "mode": c17ModeNames[r.mode], "case_insensitive": r.ci, "invert": r.inv})
			}
			cond := "and"
			if rs.or {
				cond = "or"
			}
			rss = append(rss, map[string]any{"cond": cond, "rules": rules})
		}
		if rss != nil {
			mm["match_rules"] = rss
		}
		masks = append(masks, mm)
	}
	conf["masks"] = masks
	b, err := json.Marshal(conf)
	return b, err == nil
}

// valid mirrors every logger.Fatal of the plugin's Start (a Fatal would end the harness process).
func (c *c17Case) valid() bool {
	if c.gkind < 0 || c.gkind > 2 || !c17CheckPaths(c.gkind, c.gpaths) {
		return false
	}
	if len(c.masks) == 0 {
		return false
	}
	for i := range c.masks {
		m := &c.masks[i]
		if m.maxCount < 0 || (m.maxCount > 0 && len(m.word) > 0) || (len(m.word) > 0 && m.cut) {
			return false
		}
		if len(m.re) == 0 && len(m.rulesets) == 0 {
			return false
		}
		if m.fkind < 0 || m.fkind > 2 || !c17CheckPaths(m.fkind, m.paths) {
			return false
		}
		if !utf8ok(m.re) || !utf8ok(m.word) || !utf8ok(m.aField) || !utf8ok(m.aValue) || !utf8ok(m.dField) || !utf8ok(m.dValue) {
			return false
		}
		if len(m.re) > 0 {
			re, err := regexp.Compile(string(m.re))
			if err != nil {
				return false
			}
			seen := map[int]bool{}
			for _, g := range m.groups {
				if seen[g] || g < 0 || g > re.NumSubexp() {
					return false
				}
				seen[g] = true
			}
			if len(m.groups) > re.NumSubexp() {
				return false
			}
		}
		for _, rs := range m.rulesets {
			if len(rs.rules) == 0 {
				return false
			}
			for _, r := range rs.rules {
				if len(r.values) == 0 || r.mode < 0 || r.mode > 2 {
					return false
				}
				for _, v := range r.values {
					if !utf8ok(v) {
						return false
					}
				}
			}
		}
	}
	if !utf8ok(c.gField) || !utf8ok(c.gValue) {
		return false
	}
	return true
}

func utf8ok(b []byte) bool { return strings.ToValidUTF8(string(b), "�") == string(b) }

// c17Shape: the assumptions about FindAllSubmatchIndex the theorems are stated under.
func c17Shape(value []byte, nsub int, ms [][]int) bool {
	prevEnd := 0
	for _, idx := range ms {
		if len(idx) != 2*(nsub+1) {
			return false
		}
		s0, e0 := idx[0], idx[1]
		if !(prevEnd <= s0 && s0 <= e0 && e0 <= len(value)) {
			return false
		}
		for g := 1; g <= nsub; g++ {
			s, e := idx[2*g], idx[2*g+1]
			if s == -1 && e == -1 {
				continue
			}
			if !(s0 <= s && s <= e && e <= e0) {
				return false
			}
		}
		prevEnd = e0
	}
	return true
}

func asciiLower(b []byte) []byte {
	out := make([]byte, len(b))
	for i, c := range b {
		if 'A' <= c && c <= 'Z' {
			c += 'a' - 'A'
		}
		out[i] = c
	}
	return out
}

func (c *c17Case) hasCI() bool {
	for _, m := range c.masks {
		for _, rs := range m.rulesets {
			for _, r := range rs.rules {
				if r.ci {
					return true
				}
			}
		}
	}
	return false
}

// lowerIsASCII: the model lowers ASCII letters only; case-insensitive rules are exercised on events
// where bytes.ToLower and strings.ToLower do exactly that on every leaf value and rule value.
func (c *c17Case) lowerIsASCII() bool {
	ok := true
	var walk func(t *jt.Tree)
	walk = func(t *jt.Tree) {
		switch t.Kind {
		case jt.Str, jt.Num:
			if !bytes.Equal(bytes.ToLower(t.Raw), asciiLower(t.Raw)) {
				ok = false
			}
		case jt.Arr:
			for _, x := range t.Arr {
				walk(x)
			}
		case jt.Obj:
			for _, kv := range t.Obj {
				walk(kv.V)
			}
		}
	}
	walk(c.root)
	for _, m := range c.masks {
		if !bytes.Equal(bytes.ToLower(m.aValue), asciiLower(m.aValue)) {
			ok = false
		}
		for _, rs := range m.rulesets {
			for _, r := range rs.rules {
				for _, v := range r.values {
					if strings.ToLower(string(v)) != string(asciiLower(v)) {
						ok = false
					}
				}
			}
		}
	}
	return ok
}

func (c *c17Case) useOf(m *c17Mask) (bool, bool) {
	if !m.doif {
		return true, true
	}
	ch, err := doif.NewFromMap(c.doifMap(m))
	if err != nil {
		return false, false
	}
	root, err := insaneJSON.DecodeBytes(c.root.JSON())
	if err != nil {
		return false, false
	}
	defer insaneJSON.Release(root)
	return ch.Check(doif.NewEventData(root)), true
}

func execC17(t *hx.Toks) string {
	logger.Level.SetLevel(zapcore.ErrorLevel)
	c := c17Parse(t)
	if t.Err != nil || !t.Done() {
		return "bad-case"
	}
	if !c.valid() {
		return "bad-case"
	}
	if c.hasCI() && !c.lowerIsASCII() {
		return "bad-case:lower"
	}
	// oracle columns: recompute with the real libraries
	res := make([]*regexp.Regexp, len(c.masks))
	for i := range c.masks {
		m := &c.masks[i]
		if len(m.re) > 0 {
			res[i] = regexp.MustCompile(string(m.re))
			if m.nsub != res[i].NumSubexp() {
				return "bad-oracle"
			}
		} else if m.nsub != -1 {
			return "bad-oracle"
		}
		use, ok := c.useOf(m)
		if !ok {
			return "bad-case"
		}
		if use != m.use {
			return "bad-oracle"
		}
	}
	for _, e := range c.table {
		if e.mask < 0 || e.mask >= len(c.masks) || res[e.mask] == nil {
			return "bad-oracle"
		}
		got := res[e.mask].FindAllSubmatchIndex(e.value, -1)
		if len(got) != len(e.matches) {
			return "bad-oracle"
		}
		for k := range got {
			if !slices.Equal(got[k], e.matches[k]) {
				return "bad-oracle"
			}
		}
		if !c17Shape(e.value, c.masks[e.mask].nsub, got) {
			return "shape-violated"
		}
	}

	info, err := fd.DefaultPluginRegistry.GetActionByType("mask")
	if err != nil {
		return "err-registry"
	}
	confJSON, ok := c.configJSON()
	if !ok {
		return "bad-case"
	}
	config, err := pipeline.GetConfig(info, confJSON, nil)
	if err != nil {
		return "bad-case:config"
	}
	anyPlugin, _ := info.Factory()
	plugin := anyPlugin.(pipeline.ActionPlugin)
	reg := prometheus.NewRegistry()
	params := &pipeline.ActionPluginParams{
		PluginDefaultParams: pipeline.PluginDefaultParams{
			PipelineName:     "verif",
			PipelineSettings: &pipeline.Settings{AvgEventSize: 64},
			MetricCtl:        metric.NewCtl("verif", reg, time.Duration(0), 0),
		},
		Logger: zap.NewNop().Sugar(),
	}
	plugin.Start(config, params)
	defer plugin.Stop()

	root, err := insaneJSON.DecodeBytes(c.root.JSON())
	if err != nil {
		return "bad-case:json"
	}
	defer insaneJSON.Release(root)
	if !jt.Equal(jt.FromNode(root.Node), c.root) {
		return "bad-case:roundtrip"
	}
	stable := false
	if r0, err := insaneJSON.DecodeBytes(root.Encode(nil)); err == nil {
		stable = jt.Equal(jt.FromNode(r0.Node), c.root)
		insaneJSON.Release(r0)
	}
	event := &pipeline.Event{Root: root}
	if r := plugin.Do(event); r != pipeline.ActionPass {
		return "result:" + strconv.Itoa(int(r))
	}
	// the event must still encode and re-parse to the same tree
	after := jt.FromNode(root.Node)
	enc := root.Encode(nil)
	re2, err := insaneJSON.DecodeBytes(enc)
	if err != nil {
		return "not-wellformed"
	}
	if stable && !jt.Equal(jt.FromNode(re2.Node), after) {
		insaneJSON.Release(re2)
		return "not-wellformed"
	}
	insaneJSON.Release(re2)

	global := 0
	per := make([]int, len(c.masks))
	mfs, err := reg.Gather()
	if err != nil {
		return "err-metrics"
	}
	for _, mf := range mfs {
		sum := 0.0
		for _, mm := range mf.GetMetric() {
			if mm.GetCounter() != nil {
				sum += mm.GetCounter().GetValue()
			}
		}
		name := mf.GetName()
		if strings.HasSuffix(name, "_mask_applied_total") {
			global = int(sum)
		}
		for i := range c.masks {
			if strings.HasSuffix(name, "_verif_m"+strconv.Itoa(i)) {
				per[i] = int(sum)
			}
		}
	}
	var sb strings.Builder
	fmt.Fprintf(&sb, "ok %s %d %d", after.Tok(), global, len(per))
	for _, x := range per {
		fmt.Fprintf(&sb, " %d", x)
	}
	return sb.String()
}

var _ = matchrule.ModePrefix

// ---------------------------------------------------------------------------------------------
// oracle columns

// c17Verified mirrors cfg.VerifyGroupNumbers for configurations that passed valid().
func c17Verified(groups []int) []int {
	for _, g := range groups {
		if g == 0 {
			return []int{0}
		}
	}
	return groups
}

// c17RefSections / c17RefMask: plain range replacement, used ONLY to find out on which intermediate
// values the later masks of a list will be asked for matches (the rows of the oracle table). A
// wrong row set shows up as `oracle-miss` in the model column, never silently.
func c17RefSections(groups []int, idx []int) [][2]int {
	var secs [][2]int
	for _, g := range groups {
		if 2*g+1 >= len(idx) {
			continue
		}
		s, e := idx[2*g], idx[2*g+1]
		if s < 0 || e < 0 {
			continue
		}
		secs = append(secs, [2]int{s, e})
	}
	slices.SortFunc(secs, func(a, b [2]int) int {
		if a[0] != b[0] {
			return a[0] - b[0]
		}
		return a[1] - b[1]
	})
	var out [][2]int
	for _, s := range secs {
		if n := len(out); n > 0 && s[0] < out[n-1][1] {
			if s[1] > out[n-1][1] {
				out[n-1][1] = s[1]
			}
			continue
		}
		out = append(out, s)
	}
	return out
}

func c17RefMask(m *c17Mask, value []byte, ms [][]int) []byte {
	groups := c17Verified(m.groups)
	var out []byte
	prev := 0
	for _, idx := range ms {
		for _, s := range c17RefSections(groups, idx) {
			if s[0] < prev || s[1] > len(value) {
				continue
			}
			out = append(out, value[prev:s[0]]...)
			prev = s[1]
			switch {
			case len(m.word) > 0:
				out = append(out, m.word...)
			case m.cut:
			default:
				n := 0
				for range string(value[s[0]:s[1]]) {
					n++
				}
				if m.maxCount > 0 && n > m.maxCount {
					n = m.maxCount
				}
				for i := 0; i < n; i++ {
					out = append(out, '*')
				}
			}
		}
	}
	return append(out, value[prev:]...)
}

// fillOracle computes NumSubexp, the do_if verdicts and the match table. false = not a usable case.
func (c *c17Case) fillOracle() bool {
	res := make([]*regexp.Regexp, len(c.masks))
	for i := range c.masks {
		m := &c.masks[i]
		m.nsub = -1
		if len(m.re) > 0 {
			re, err := regexp.Compile(string(m.re))
			if err != nil {
				return false
			}
			res[i] = re
			m.nsub = re.NumSubexp()
		}
		use, ok := c.useOf(m)
		if !ok {
			return false
		}
		m.use = use
	}
	c.table = nil
	seen := map[string]bool{}
	var dfs func(i int, cur []byte)
	dfs = func(i int, cur []byte) {
		if i == len(c.masks) || len(c.table) > 400 {
			return
		}
		dfs(i+1, cur)
		m := &c.masks[i]
		if res[i] == nil || len(m.groups) == 0 {
			return
		}
		key := strconv.Itoa(i) + ":" + string(cur)
		ms := res[i].FindAllSubmatchIndex(cur, -1)
		if !seen[key] {
			seen[key] = true
			c.table = append(c.table, c17Ent{mask: i, value: append([]byte{}, cur...), matches: ms})
		}
		if len(ms) > 0 {
			dfs(i+1, c17RefMask(m, cur, ms))
		}
	}
	var walk func(t *jt.Tree)
	walk = func(t *jt.Tree) {
		switch t.Kind {
		case jt.Str, jt.Num:
			if len(t.Raw) > 0 {
				dfs(0, t.Raw)
			}
		case jt.Arr:
			for _, x := range t.Arr {
				walk(x)
			}
		case jt.Obj:
			for _, kv := range t.Obj {
				walk(kv.V)
			}
		}
	}
	walk(c.root)
	for i := range c.masks {
		if len(c.masks[i].aField) > 0 && len(c.masks[i].aValue) > 0 {
			dfs(0, c.masks[i].aValue)
		}
	}
	return true
}

func (c *c17Case) emit(w *bufio.Writer) bool {
	if !c.valid() {
		return false
	}
	if c.hasCI() && !c.lowerIsASCII() {
		for i := range c.masks {
			for j := range c.masks[i].rulesets {
				for k := range c.masks[i].rulesets[j].rules {
					c.masks[i].rulesets[j].rules[k].ci = false
				}
			}
		}
	}
	if !c.fillOracle() {
		return false
	}
	w.WriteString(c.line())
	w.WriteByte('\n')
	return true
}

// ---------------------------------------------------------------------------------------------
// generators

// permutations of every non-empty subset of 1..n, plus [0]
func c17GroupLists(n int) [][]int {
	out := [][]int{{0}}
	var rec func(cur []int, used int)
	rec = func(cur []int, used int) {
		if len(cur) > 0 {
			out = append(out, append([]int{}, cur...))
		}
		for g := 1; g <= n; g++ {
			if used&(1<<g) == 0 {
				rec(append(cur, g), used|1<<g)
			}
		}
	}
	rec(nil, 0)
	return out
}

func c17Strings(alpha []string, maxLen int) []string {
	out := []string{""}
	level := []string{""}
	for l := 1; l <= maxLen; l++ {
		var next []string
		for _, p := range level {
			for _, a := range alpha {
				next = append(next, p+a)
			}
		}
		out = append(out, next...)
		level = next
	}
	return out
}

// regexps of the exhaustive stream: groups nested, alternated, optional, empty, repeated (stale
// captures of an earlier iteration), adjacent, and a multi-byte atom
var c17SmallRes = []string{
	`(a)`, `(a)|(b)`, `(a)(b)`, `(a(b))`, `((a)b)`, `(a)?b`, `(a*)`, `()`, `(a)?(b)?`,
	`((a)|b)+`, `(?:(a)|(b))+`, `(a|(b))x`, `(a(b)?)`, `((a)|(b))`, `(é)(a)?`, `(a+)(b*)`,
	`x(a)|(b)x`, `(a)(b)(x)`, `((a)(b))`, `(a|b)*(x)`, `(.)(.)`, `(\w+)`,
}

func c17Single(value []byte, masks ...c17Mask) *c17Case {
	return &c17Case{metricOn: true, masks: masks, root: jt.O(jt.KV{K: []byte("f"), V: &jt.Tree{Kind: jt.Str, Raw: value}})}
}

func c17Mode(m *c17Mask, mode int) {
	switch mode {
	case 0:
	case 1:
		m.maxCount = 1
	case 2:
		m.word = []byte("<é>")
	case 3:
		m.cut = true
	}
}

func genC17(w *bufio.Writer, rng *hx.Rng, tier string) {
	logger.Level.SetLevel(zapcore.ErrorLevel)
	thorough := tier == "thorough"
	// --- A: exhaustive small scope, one mask on one leaf
	maxLen := 3
	if thorough {
		maxLen = 5
	}
	values := c17Strings([]string{"a", "b", "x"}, maxLen)
	values = append(values, "é", "éa", "aéb", "ébx", "a\xffb", "\xc3", "aé", "界a", "b😀a")
	idx := 0
	for _, re := range c17SmallRes {
		nsub := regexp.MustCompile(re).NumSubexp()
		for _, gl := range c17GroupLists(nsub) {
			for _, v := range values {
				idx++
				for mode := 0; mode < 4; mode++ {
					if !thorough && idx%4 != mode {
						continue // quick: one mode per (regexp, groups, value), rotating
					}
					m := c17Mask{re: []byte(re), groups: gl}
					c17Mode(&m, mode)
					c17Single([]byte(v), m).emit(w)
				}
			}
		}
	}
	// --- B: mask lists on one leaf (hand-over between masks, emptied values)
	pool := []c17Mask{
		{re: []byte(`(a+)`), groups: []int{1}, cut: true},
		{re: []byte(`(a)|(b)`), groups: []int{2, 1}, cut: true},
		{re: []byte(`([abx]+)`), groups: []int{0}, cut: true},
		{re: []byte(`(b)`), groups: []int{1}},
		{re: []byte(`(x)`), groups: []int{1}, word: []byte("ab")},
		{re: []byte(`(\*+)`), groups: []int{1}, word: []byte("x")},
		{re: []byte(`(a)(b)?`), groups: []int{2, 1}, maxCount: 1},
		{re: []byte(`(z)`), groups: []int{1}},
		{re: []byte(`()`), groups: []int{1}, word: []byte("a")},
		{rulesets: []c17RuleSet{{rules: []c17Rule{{mode: 0, values: [][]byte{[]byte("a")}}}}}, aField: []byte("hit"), aValue: []byte("ab")},
	}
	bvals := c17Strings([]string{"a", "b", "x"}, 3)
	for i := range pool {
		for j := range pool {
			for _, v := range bvals {
				if !thorough && rng.Intn(3) != 0 {
					continue
				}
				c17Single([]byte(v), pool[i], pool[j]).emit(w)
				if thorough || rng.Intn(6) == 0 {
					k := rng.Intn(len(pool))
					c17Single([]byte(v), pool[i], pool[j], pool[k]).emit(w)
				}
			}
		}
	}
	// --- C: random structured cases
	n := 25000
	if thorough {
		n = 250000
	}
	for i := 0; i < n; i++ {
		c17Random(rng).emit(w)
	}
}

var c17Atoms = []string{"a", "b", "x", "é", ".", "[ab]", `\d`, "1", "-"}

func c17RandRe(rng *hx.Rng, depth int, groups *int) string {
	k := rng.Intn(10)
	if depth <= 0 {
		k = 0
	}
	switch k {
	case 0, 1:
		return c17Atoms[rng.Intn(len(c17Atoms))]
	case 2, 3:
		return c17RandRe(rng, depth-1, groups) + c17RandRe(rng, depth-1, groups)
	case 4:
		return "(?:" + c17RandRe(rng, depth-1, groups) + "|" + c17RandRe(rng, depth-1, groups) + ")"
	case 5, 6, 7:
		if *groups >= 4 {
			return c17Atoms[rng.Intn(len(c17Atoms))]
		}
		*groups++
		if rng.Chance(1, 12) {
			return "()"
		}
		return "(" + c17RandRe(rng, depth-1, groups) + ")"
	case 8:
		return "(?:" + c17RandRe(rng, depth-1, groups) + ")" + []string{"?", "*", "+"}[rng.Intn(3)]
	default:
		if *groups >= 4 {
			return "a?"
		}
		*groups++
		return "(" + c17RandRe(rng, depth-1, groups) + "|" + c17RandRe(rng, depth-1, groups) + ")" + []string{"", "?", "*", "+"}[rng.Intn(4)]
	}
}

var c17Keys = []string{"a", "b", "c", "msg", "k.dot", "ключ", "0", "1", "hit", "sel"}
var c17Texts = []string{"", "a", "ab", "xax", "abab", "aab1", "b-a", "éa", "aéb", "12-34", "x", "bbb", "ab\xffa", "界ab", "AB", "Ab1", "a b", "q\"a", "a\\b", "line\na", "1", "yes", "***"}

func c17Paths(rng *hx.Rng, root *jt.Tree) [][][]byte {
	// candidate paths: every node of the event, plus a few that do not exist
	var all [][]string
	var walk func(t *jt.Tree, p []string)
	walk = func(t *jt.Tree, p []string) {
		if len(p) > 0 {
			all = append(all, append([]string{}, p...))
		}
		switch t.Kind {
		case jt.Arr:
			for i, x := range t.Arr {
				walk(x, append(p, strconv.Itoa(i)))
			}
		case jt.Obj:
			for _, kv := range t.Obj {
				walk(kv.V, append(p, string(kv.K)))
			}
		}
	}
	walk(root, nil)
	all = append(all, []string{"nope"}, []string{"a", "nope"}, []string{"a", "7"}, []string{"msg", "x"})
	n := rng.Range(1, 3)
	var sels []string
	for i := 0; i < n; i++ {
		p := all[rng.Intn(len(all))]
		if p[0] == "" {
			continue
		}
		ok := true
		for _, e := range p {
			if e == "" || strings.Contains(e, "\\") {
				ok = false
			}
		}
		if ok {
			sels = append(sels, cfg.BuildFieldSelector(p))
		}
	}
	if len(sels) == 0 {
		return nil
	}
	got, err := cfg.ParseNestedFields(sels)
	if err != nil {
		return nil
	}
	var out [][][]byte
	for _, p := range got {
		var bp [][]byte
		for _, e := range p {
			bp = append(bp, []byte(e))
		}
		out = append(out, bp)
	}
	return out
}

func c17Random(rng *hx.Rng) *c17Case {
	c := &c17Case{metricOn: rng.Chance(3, 4)}
	gc := jt.GenCfg{MaxDepth: 3, MaxWidth: 4, Keys: c17Keys, Strings: c17Texts, UniqueKeys: true, BadUTF8: true}
	c.root = jt.GenObj(rng, gc)
	if rng.Chance(1, 2) {
		c.gField = []byte([]string{"masked", "a", "msg", "hit"}[rng.Intn(4)])
		c.gValue = []byte([]string{"yes", "ab", ""}[rng.Intn(3)])
	}
	if rng.Chance(1, 2) {
		c.gkind = rng.Range(1, 2)
		c.gpaths = c17Paths(rng, c.root)
		if c.gpaths == nil {
			c.gkind = 0
		}
	}
	nm := rng.Range(1, 3)
	for i := 0; i < nm; i++ {
		var m c17Mask
		if rng.Chance(7, 8) {
			g := 0
			if rng.Chance(1, 3) {
				m.re = []byte(c17SmallRes[rng.Intn(len(c17SmallRes))])
			} else {
				m.re = []byte(c17RandRe(rng, 3, &g))
			}
			re, err := regexp.Compile(string(m.re))
			if err != nil {
				m.re = []byte("(a)")
				re = regexp.MustCompile("(a)")
			}
			ns := re.NumSubexp()
			if ns == 0 {
				m.re = []byte("(" + string(m.re) + ")")
				ns = 1
			}
			gls := c17GroupLists(ns)
			m.groups = gls[rng.Intn(len(gls))]
			if rng.Chance(1, 25) {
				m.groups = nil
			}
		}
		c17Mode(&m, rng.Intn(4))
		if m.maxCount == 1 {
			m.maxCount = rng.Range(1, 3)
		}
		if len(m.re) == 0 || rng.Chance(1, 4) {
			nrs := rng.Range(1, 2)
			for j := 0; j < nrs; j++ {
				rs := c17RuleSet{or: rng.Bool()}
				nr := rng.Range(1, 2)
				for k := 0; k < nr; k++ {
					r := c17Rule{mode: rng.Intn(3), ci: rng.Chance(1, 3), inv: rng.Chance(1, 4)}
					nv := rng.Range(1, 2)
					for l := 0; l < nv; l++ {
						r.values = append(r.values, []byte([]string{"a", "ab", "A", "x", "1", "b-", "é", "aB"}[rng.Intn(8)]))
					}
					rs.rules = append(rs.rules, r)
				}
				m.rulesets = append(m.rulesets, rs)
			}
		}
		if rng.Chance(1, 3) {
			m.aField = []byte([]string{"hit", "a", "msg", "b", "m_applied"}[rng.Intn(5)])
			m.aValue = []byte([]string{"ab", "1", "xax", ""}[rng.Intn(4)])
		}
		m.metric = rng.Chance(1, 3)
		if rng.Chance(1, 6) {
			m.doif = true
			m.dField = []byte("sel")
			m.dValue = []byte([]string{"1", "yes", "a"}[rng.Intn(3)])
		}
		if rng.Chance(1, 3) {
			m.fkind = rng.Range(1, 2)
			m.paths = c17Paths(rng, c.root)
			if m.paths == nil {
				m.fkind = 0
			}
		}
		c.masks = append(c.masks, m)
	}
	return c
}

// genC17Witness prints the witnesses of the defects found (kept in corpus/C17/).
func genC17Witness(w *bufio.Writer, _ *hx.Rng, _ string) {
	logger.Level.SetLevel(zapcore.ErrorLevel)
	c17Single([]byte("xax"), c17Mask{re: []byte(`(a)|(b)`), groups: []int{1, 2}}).emit(w)
	c17Single([]byte("xabx"), c17Mask{re: []byte(`(a)(b)`), groups: []int{2, 1}}).emit(w)
	c17Single([]byte("xabx"), c17Mask{re: []byte(`(a(b))`), groups: []int{1, 2}}).emit(w)
	c17Single([]byte("secret"), c17Mask{re: []byte(`(secret)`), groups: []int{1}, cut: true}, c17Mask{re: []byte(`(z)`), groups: []int{1}}).emit(w)
	// a listed path must cover its whole subtree even when another list goes deeper through it
	ab := [][][]byte{{[]byte("a"), []byte("b")}}
	a := [][][]byte{{[]byte("a")}}
	ev := jt.O(jt.F("a", jt.O(jt.F("b", jt.S("k")), jt.F("c", jt.S("secret")))))
	(&c17Case{metricOn: true, root: ev, masks: []c17Mask{
		{re: []byte(`(secret)`), groups: []int{1}, fkind: 2, paths: a},
		{re: []byte(`(z)`), groups: []int{1}, fkind: 2, paths: ab}}}).emit(w)
	(&c17Case{metricOn: true, root: ev, masks: []c17Mask{
		{re: []byte(`(secret)`), groups: []int{1}, fkind: 1, paths: a},
		{re: []byte(`(z)`), groups: []int{1}, fkind: 2, paths: ab}}}).emit(w)
	(&c17Case{metricOn: true, root: ev, gkind: 1, gpaths: a, masks: []c17Mask{
		{re: []byte(`(secret)`), groups: []int{1}},
		{re: []byte(`(z)`), groups: []int{1}, fkind: 2, paths: ab}}}).emit(w)
}
