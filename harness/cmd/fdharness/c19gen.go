package main

// C19 generator: batches of 0..8 events built from internal/jt trees, adversarial values in the
// routing fields, child / child-parent kinds, successive batches through one worker, PRNG-scripted
// HTTP answers. The ORACLE values of the model (insane-json Encode, Dig(..).AsString(), key
// escaping, encoding/json of the Loki entry, the GELF field conversion) are evaluated here on the
// concrete event and shipped inside the case line.

import (
	"bufio"
	"bytes"
	"encoding/json"
	"fmt"
	"strconv"
	"strings"
	"time"

	"github.com/ozontech/file.d/cfg"
	"github.com/ozontech/file.d/plugin/output/gelf"
	insaneJSON "github.com/ozontech/insane-json"

	"verifharness/internal/hx"
	"verifharness/internal/jt"
)

func init() {
	gens["C19"] = genC19
}

var c19Adversarial = []string{
	"a\"}}\n{\"delete\":{\"_index\":\"x", "q\"uote", "line\nbreak", "nul\x00byte", "bad\xffutf8",
	"back\\slash", "", "plain", "Ünï-код", "tab\t", " sep", "<&>", "%", "a b", "\r\n", "\\", "\"",
}

// c19Enc: the event as the outputs encode it (nil, false when insane-json rejects the text).
func c19Enc(src []byte) ([]byte, bool) {
	root, err := insaneJSON.DecodeBytes(append([]byte(nil), src...))
	if err != nil {
		return nil, false
	}
	defer insaneJSON.Release(root)
	return root.Encode(nil), true
}

type c19GenEv struct {
	kind  int
	src   []byte
	enc   []byte
	route [][]byte
}

func (e *c19GenEv) tok() string {
	var sb strings.Builder
	fmt.Fprintf(&sb, "%d %s %s %d", e.kind, hx.Enc(e.src), hx.Enc(e.enc), len(e.route))
	for _, r := range e.route {
		sb.WriteString(" " + hx.Enc(r))
	}
	return sb.String()
}

func c19BatchesTok(bs [][]*c19GenEv) string {
	var sb strings.Builder
	sb.WriteString(strconv.Itoa(len(bs)))
	for _, b := range bs {
		fmt.Fprintf(&sb, " %d", len(b))
		for _, e := range b {
			sb.WriteString(" " + e.tok())
		}
	}
	return sb.String()
}

func c19ScriptTok(sc []int) string {
	var sb strings.Builder
	sb.WriteString(strconv.Itoa(len(sc)))
	for _, s := range sc {
		fmt.Fprintf(&sb, " %d", s)
	}
	return sb.String()
}

// c19RoutingValue: what is put under a routing key (index / topic / label / message field).
func c19RoutingValue(r *hx.Rng) *jt.Tree {
	switch r.Intn(12) {
	case 0:
		return jt.Nu("42")
	case 1:
		return jt.O(jt.F("x", jt.S("y")))
	case 2:
		return jt.A(jt.S("e"), jt.Nu("1"))
	case 3:
		return jt.N()
	case 4:
		return jt.Bo(true)
	case 5, 6:
		return jt.S("svc-" + strconv.Itoa(r.Intn(3)))
	default:
		return jt.S(c19Adversarial[r.Intn(len(c19Adversarial))])
	}
}

// c19Source: JSON text of one event. `keys` are the routing keys of the sink; each is present with
// probability 3/4. rawCtl: put a raw control byte inside a string (accepted by insane-json).
func c19Source(r *hx.Rng, keys []string, fixed map[string]func(*hx.Rng) *jt.Tree, rawCtl bool) []byte {
	t := jt.GenObj(r, jt.GenCfg{MaxDepth: 2, MaxWidth: 3, UniqueKeys: true, BadUTF8: true,
		Keys: []string{"a", "b", "c", "msg", "k.dot", "ключ", "q\"k", ""}})
	for _, k := range keys {
		if !strings.HasPrefix(k, "!") && !r.Chance(3, 4) {
			continue
		}
		k = strings.TrimPrefix(k, "!") // "!key": always present
		var v *jt.Tree
		if f, ok := fixed[k]; ok {
			v = f(r)
		} else {
			v = c19RoutingValue(r)
		}
		if v == nil {
			continue
		}
		kv := jt.KV{K: []byte(k), V: v}
		pos := r.Intn(len(t.Obj) + 1)
		t.Obj = append(t.Obj[:pos], append([]jt.KV{kv}, t.Obj[pos:]...)...)
	}
	src := t.JSON()
	if rawCtl {
		for _, rep := range [][2]string{{`\n`, "\n"}, {`\u0000`, "\x00"}, {`\t`, "\t"}} {
			if i := bytes.Index(src, []byte(rep[0])); i >= 0 && (i == 0 || src[i-1] != '\\') {
				alt := append(append(append([]byte(nil), src[:i]...), rep[1]...), src[i+len(rep[0]):]...)
				if _, ok := c19Enc(alt); ok {
					return alt
				}
			}
		}
	}
	return src
}

func c19Kind(r *hx.Rng) int {
	switch r.Intn(8) {
	case 0:
		return 1
	case 1, 2:
		return 2
	default:
		return 0
	}
}

// c19GenBatches: nb batches of 0..maxEv events; route computes the sink's oracle values.
func c19GenBatches(r *hx.Rng, maxEv int, keys []string, fixed map[string]func(*hx.Rng) *jt.Tree, rawCtl bool,
	route func(src []byte) ([][]byte, bool)) [][]*c19GenEv {
	nb := r.Range(1, 3)
	var bs [][]*c19GenEv
	for i := 0; i < nb; i++ {
		n := r.Range(0, maxEv)
		if r.Chance(1, 3) {
			n = r.Range(0, 3)
		}
		b := []*c19GenEv{}
		for len(b) < n {
			src := c19Source(r, keys, fixed, rawCtl && r.Chance(1, 2))
			enc, ok := c19Enc(src)
			if !ok {
				continue
			}
			rt, ok := route(src)
			if !ok {
				continue
			}
			b = append(b, &c19GenEv{kind: c19Kind(r), src: src, enc: enc, route: rt})
		}
		bs = append(bs, b)
	}
	return bs
}

func c19Script(r *hx.Rng, n int, pool []int) []int {
	var sc []int
	for i := 0; i < n; i++ {
		sc = append(sc, pool[r.Intn(len(pool))])
	}
	return sc
}

func c19Lim(r *hx.Rng) int { return []int{0, 1, 16, 64, 256, 4096}[r.Intn(6)] }

func c19WithRoot(src []byte, f func(root *insaneJSON.Root)) bool {
	root, err := insaneJSON.DecodeBytes(append([]byte(nil), src...))
	if err != nil {
		return false
	}
	defer insaneJSON.Release(root)
	f(root)
	return true
}

func c19NoRoute(_ []byte) ([][]byte, bool) { return nil, true }

// ---------------------------------------------------------------- per sink case writers

func c19GenFile(w *bufio.Writer, r *hx.Rng, rawCtl bool) {
	bs := c19GenBatches(r, 8, []string{"message"}, nil, rawCtl, c19NoRoute)
	fmt.Fprintf(w, "c19.file %d %s\n", c19Lim(r), c19BatchesTok(bs))
}

var c19GelfFields = [6]string{"host", "message", "not set", "", "time", "level"}

func c19GelfFixed() map[string]func(*hx.Rng) *jt.Tree {
	return map[string]func(*hx.Rng) *jt.Tree{
		// a timestamp the plugin does not replace by time.Now()
		"time": func(r *hx.Rng) *jt.Tree {
			switch r.Intn(3) {
			case 0:
				return jt.Nu("1700000000")
			case 1:
				return jt.Nu("1700000000123")
			default:
				return jt.S("2024-01-02T03:04:05.123456789Z")
			}
		},
		"level": func(r *hx.Rng) *jt.Tree {
			switch r.Intn(4) {
			case 0:
				return jt.Nu("3")
			case 1:
				return jt.S("error")
			case 2:
				return jt.S("weird")
			default:
				return jt.O()
			}
		},
	}
}

func c19GenGelf(w *bufio.Writer, r *hx.Rng, rawCtl bool, gp *gelf.Plugin, failFirst bool) {
	route := func(src []byte) ([][]byte, bool) {
		ev, err := c19MkEvent(0, src)
		if err != nil {
			return nil, false
		}
		defer insaneJSON.Release(ev.Root)
		return [][]byte{append([]byte(nil), gp.VerifFormat(ev)...)}, true
	}
	bs := c19GenBatches(r, 8, []string{"host", "message", "time", "level", "_extra"}, c19GelfFixed(), rawCtl, route)
	fmt.Fprintf(w, "c19.gelf %d %s", c19Lim(r), hx.B(failFirst))
	for _, f := range c19GelfFields {
		fmt.Fprintf(w, " %s", hx.Enc([]byte(f)))
	}
	fmt.Fprintf(w, " %s\n", c19BatchesTok(bs))
}

func c19GenKafka(w *bufio.Writer, r *hx.Rng, rawCtl bool) {
	useField := r.Chance(3, 4)
	route := func(src []byte) ([][]byte, bool) {
		var v []byte
		ok := c19WithRoot(src, func(root *insaneJSON.Root) { v = []byte(root.Dig("topic").AsString()) })
		return [][]byte{v}, ok
	}
	bs := c19GenBatches(r, 8, []string{"topic"}, nil, rawCtl, route)
	bsz := []int{8, 8, 16, 4}[r.Intn(4)]
	avg := []int{0, 1, 8, 64}[r.Intn(4)]
	fmt.Fprintf(w, "c19.kafka %d %d %s %s %s %s\n", bsz*avg, bsz, hx.Enc([]byte("dflt")), hx.B(useField),
		hx.Enc([]byte("topic")), c19BatchesTok(bs))
}

// c19GenKafkaSlots: successive batches through one worker in which the same record slot is used by
// an event with a topic field, then by events without one (or with an empty / non-string one):
// the worker's kgo.Record objects are reused, the topic must not be.
func c19GenKafkaSlots(w *bufio.Writer, r *hx.Rng) {
	nb := r.Range(2, 4)
	width := r.Range(1, 4)
	var bs [][]*c19GenEv
	for b := 0; b < nb; b++ {
		var evs []*c19GenEv
		for i := 0; i < width; i++ {
			var src string
			var topic []byte
			switch {
			case b == 0 || r.Chance(1, 4):
				t := "t" + strconv.Itoa(b) + "-" + strconv.Itoa(i)
				if r.Chance(1, 4) {
					t = c19Adversarial[r.Intn(len(c19Adversarial))]
				}
				tree := jt.O(jt.F("topic", jt.S(t)), jt.F("n", jt.Nu(strconv.Itoa(b*10+i))))
				src, topic = string(tree.JSON()), []byte(t)
			case r.Chance(1, 3):
				src = `{"topic":"","n":` + strconv.Itoa(b*10+i) + `}`
			case r.Chance(1, 3):
				src = `{"topic":{"x":1},"n":` + strconv.Itoa(b*10+i) + `}`
			default:
				src = `{"n":` + strconv.Itoa(b*10+i) + `}`
			}
			enc, ok := c19Enc([]byte(src))
			if !ok {
				continue
			}
			kind := 0
			if r.Chance(1, 8) {
				kind = 2
			}
			evs = append(evs, &c19GenEv{kind: kind, src: []byte(src), enc: enc, route: [][]byte{topic}})
		}
		bs = append(bs, evs)
	}
	fmt.Fprintf(w, "c19.kafka %d %d %s 1 %s %s\n", 8*[]int{0, 8, 64}[r.Intn(3)], 8, hx.Enc([]byte("dflt")),
		hx.Enc([]byte("topic")), c19BatchesTok(bs))
}

func c19GenHTTP(w *bufio.Writer, r *hx.Rng, rawCtl bool, split bool, script []int, maxEv int) {
	raw := r.Chance(1, 3)
	route := c19NoRoute
	if raw {
		route = func(src []byte) ([][]byte, bool) {
			var rt [][]byte
			ok := c19WithRoot(src, func(root *insaneJSON.Root) {
				if n := root.Dig("message"); n != nil {
					rt = [][]byte{n.Encode(nil)}
				}
			})
			return rt, ok
		}
	}
	bs := c19GenBatches(r, maxEv, []string{"message"}, nil, rawCtl, route)
	fmt.Fprintf(w, "c19.http %s %s %s %d %s %s\n", hx.B(raw), hx.Enc([]byte("message")), hx.B(split), c19Lim(r),
		c19ScriptTok(script), c19BatchesTok(bs))
}

var c19ESFormats = []struct {
	format string
	values []string
}{
	{"file-d-%", []string{"idx"}},
	{"file-d-%", []string{"@time"}},
	{"%-%", []string{"idx", "@time"}},
	{"logs-%-%-x", []string{"svc", "idx"}},
	{"plain", []string{"@time"}},
	{"%", []string{"idx", "svc"}},
}

func c19GenES(w *bufio.Writer, r *hx.Rng, rawCtl bool, split bool, script []int, maxEv int) {
	f := c19ESFormats[r.Intn(len(c19ESFormats))]
	route := func(src []byte) ([][]byte, bool) {
		var rt [][]byte
		ok := c19WithRoot(src, func(root *insaneJSON.Root) {
			for _, v := range f.values {
				if v == "@time" {
					rt = append(rt, nil)
				} else {
					rt = append(rt, []byte(root.Dig(v).AsString()))
				}
			}
		})
		return rt, ok
	}
	bs := c19GenBatches(r, maxEv, []string{"idx", "svc"}, nil, rawCtl, route)
	op := []string{"index", "create"}[r.Intn(2)]
	fmt.Fprintf(w, "c19.es %s %d %s %s %s %d", hx.B(split), c19Lim(r), hx.Enc([]byte(op)), hx.Enc([]byte(f.format)),
		hx.Enc([]byte("2026-09-25")), len(f.values))
	for _, v := range f.values {
		fmt.Fprintf(w, " %s", hx.Enc([]byte(v)))
	}
	fmt.Fprintf(w, " %s %s\n", c19ScriptTok(script), c19BatchesTok(bs))
}

// c19KeyQ: a field name as insane-json encodes it.
func c19KeyQ(name string) []byte {
	root := insaneJSON.Spawn()
	defer insaneJSON.Release(root)
	_ = root.DecodeString("{}")
	root.AddFieldNoAlloc(root, name).MutateToNull()
	enc := root.Encode(nil) // {"name":null}
	return append([]byte(nil), enc[1:len(enc)-len(":null}")]...)
}

func c19GenSplunk(w *bufio.Writer, r *hx.Rng, rawCtl bool, script []int) {
	all := [][2]string{{"ts", "time"}, {"svc", "svc_name"}, {"nested.a", "q\"k"}, {"message", "source"}}
	var cfs [][2]string
	for _, cf := range all {
		if r.Chance(1, 2) {
			cfs = append(cfs, cf)
		}
	}
	route := func(src []byte) ([][]byte, bool) {
		var rt [][]byte
		ok := c19WithRoot(src, func(root *insaneJSON.Root) {
			for _, cf := range cfs {
				n := root.Dig(cfg.ParseFieldSelector(cf[0])...)
				if n == nil {
					rt = append(rt, []byte{0}, nil)
				} else {
					rt = append(rt, []byte{1}, n.Encode(nil))
				}
			}
		})
		return rt, ok
	}
	fixed := map[string]func(*hx.Rng) *jt.Tree{
		"nested": func(r *hx.Rng) *jt.Tree {
			if r.Bool() {
				return jt.O(jt.F("a", c19RoutingValue(r)))
			}
			return jt.S("flat")
		},
	}
	bs := c19GenBatches(r, 8, []string{"ts", "svc", "nested", "message"}, fixed, rawCtl, route)
	fmt.Fprintf(w, "c19.splunk %d %d", c19Lim(r), len(cfs))
	for _, cf := range cfs {
		fmt.Fprintf(w, " %s %s %s", hx.Enc([]byte(cf[0])), hx.Enc([]byte(cf[1])), hx.Enc(c19KeyQ(cf[1])))
	}
	fmt.Fprintf(w, " %s %s\n", c19ScriptTok(script), c19BatchesTok(bs))
}

func c19IsUnixNano(ts string) bool {
	nano, err := strconv.ParseInt(ts, 10, 64)
	if err != nil {
		return false
	}
	t := time.Unix(0, nano)
	return t.After(time.Unix(0, 0)) && t.Before(time.Now())
}

func c19GenLoki(w *bufio.Writer, r *hx.Rng, script []int, badTS bool) {
	labels := [][2]string{{"app", "file-d"}}
	if r.Bool() {
		labels = append(labels, [2]string{"e\"nv", "a\nb"})
	}
	lm := map[string]string{}
	for _, l := range labels {
		lm[l[0]] = l[1]
	}
	labelsJSON, _ := json.Marshal(lm)
	route := func(src []byte) ([][]byte, bool) {
		var rt [][]byte
		good := true
		ok := c19WithRoot(src, func(root *insaneJSON.Root) {
			tsNode := root.Dig("ts")
			ts := tsNode.AsString()
			tsNode.Suicide()
			if ts == "" {
				good = false // the plugin substitutes time.Now(): not reproducible
				return
			}
			flag := byte(0)
			if !c19IsUnixNano(ts) {
				flag = 1
			}
			logNode := root.Dig("message")
			msg := logNode.AsString()
			logNode.Suicide()
			tsQ, _ := json.Marshal(ts)
			msgQ, _ := json.Marshal(msg)
			rest, err := json.Marshal(json.RawMessage(root.EncodeToString()))
			if err != nil {
				good = false
				return
			}
			rt = [][]byte{{flag}, tsQ, msgQ, rest}
		})
		return rt, ok && good
	}
	fixed := map[string]func(*hx.Rng) *jt.Tree{
		"ts": func(r *hx.Rng) *jt.Tree {
			if badTS && r.Chance(1, 6) {
				return []*jt.Tree{jt.S("yesterday"), jt.Nu("-5"), jt.S("99999999999999999999")}[r.Intn(3)]
			}
			if r.Bool() {
				return jt.S("1700000000000000000")
			}
			return jt.Nu("1700000000123456789")
		},
	}
	bs := c19GenBatches(r, 8, []string{"!ts", "message", "svc"}, fixed, false, route)
	fmt.Fprintf(w, "c19.loki %d %s %d", c19Lim(r), hx.Enc(labelsJSON), len(labels))
	for _, l := range labels {
		fmt.Fprintf(w, " %s %s", hx.Enc([]byte(l[0])), hx.Enc([]byte(l[1])))
	}
	fmt.Fprintf(w, " %s %s %s %s\n", hx.Enc([]byte("ts")), hx.Enc([]byte("message")), c19ScriptTok(script), c19BatchesTok(bs))
}

// ---------------------------------------------------------------- the generator

// c19AllScripts: every script over `alpha` of length 0..n.
func c19AllScripts(alpha []int, n int) [][]int {
	out := [][]int{{}}
	prev := [][]int{{}}
	for l := 1; l <= n; l++ {
		var cur [][]int
		for _, p := range prev {
			for _, a := range alpha {
				cur = append(cur, append(append([]int(nil), p...), a))
			}
		}
		out = append(out, cur...)
		prev = cur
	}
	return out
}

// c19SplitCase: one batch of n plain events through the split path with the given script.
func c19SplitCase(w *bufio.Writer, es bool, n int, script []int) {
	var b []*c19GenEv
	for i := 0; i < n; i++ {
		src := []byte(fmt.Sprintf(`{"i":%d,"idx":"x%d"}`, i, i))
		enc, _ := c19Enc(src)
		e := &c19GenEv{kind: 0, src: src, enc: enc}
		if es {
			e.route = [][]byte{[]byte(fmt.Sprintf("x%d", i))}
		}
		b = append(b, e)
	}
	bs := [][]*c19GenEv{b}
	if es {
		fmt.Fprintf(w, "c19.es 1 64 %s %s %s 1 %s %s %s\n", hx.Enc([]byte("index")), hx.Enc([]byte("i-%")),
			hx.Enc([]byte("t")), hx.Enc([]byte("idx")), c19ScriptTok(script), c19BatchesTok(bs))
	} else {
		fmt.Fprintf(w, "c19.http 0 %s 1 64 %s %s\n", hx.Enc([]byte("message")), c19ScriptTok(script), c19BatchesTok(bs))
	}
}

func genC19(w *bufio.Writer, rng *hx.Rng, tier string) {
	thorough := tier == "thorough"
	// 1. exhaustive small scope of the split recursion: every script over {200, 413} (thorough: and
	//    500) long enough to answer every request, batches of 1..4 (thorough 1..6) events
	maxN, alpha := 4, []int{200, 413}
	if thorough {
		maxN = 5
	}
	for n := 1; n <= maxN; n++ {
		for _, sc := range c19AllScripts(alpha, 2*n-1) {
			c19SplitCase(w, (n+len(sc))%2 == 0, n, sc)
		}
	}
	if thorough {
		for n := 1; n <= 3; n++ {
			for _, sc := range c19AllScripts([]int{200, 413, 500, 400}, 2*n-1) {
				c19SplitCase(w, (n+len(sc))%2 == 1, n, sc)
			}
		}
	}
	// 2. structured random cases per sink
	nrand := 1200
	if thorough {
		nrand = 12000
	}
	gp := &gelf.Plugin{}
	var gf [6][]byte
	for i, f := range c19GelfFields {
		gf[i] = []byte(f)
	}
	gp.Start(c19GelfConfig("127.0.0.1:1", 8, gf), c19Params(1))
	defer gp.Stop()
	okPool := []int{200, 200, 200, 200, 201, 202}
	mixPool := []int{200, 200, 200, 413, 413, 500, 503, 400, 429}
	for i := 0; i < nrand; i++ {
		c19GenFile(w, rng, false)
		c19GenGelf(w, rng, false, gp, false)
		c19GenKafka(w, rng, false)
		if i%4 == 0 {
			c19GenKafkaSlots(w, rng)
		}
		c19GenHTTP(w, rng, false, false, c19Script(rng, rng.Range(0, 3), okPool), 8)
		c19GenHTTP(w, rng, false, rng.Bool(), c19Script(rng, rng.Range(0, 12), mixPool), 8)
		c19GenES(w, rng, false, false, c19Script(rng, rng.Range(0, 3), okPool), 8)
		c19GenES(w, rng, false, rng.Bool(), c19Script(rng, rng.Range(0, 12), mixPool), 8)
		c19GenSplunk(w, rng, false, c19Script(rng, rng.Range(0, 4), []int{200, 200, 200, 500, 400, 413}))
		c19GenLoki(w, rng, c19Script(rng, rng.Range(0, 4), []int{204, 204, 204, 500, 400, 200}), false)
	}
	// 2b. gelf: the first attempt finds the endpoint down (each such case costs the plugin's 1 s sleep)
	nfail := 2
	if thorough {
		nfail = 12
	}
	for i := 0; i < nfail; i++ {
		c19GenGelf(w, rng, false, gp, true)
	}
	// 3. malformed stream: raw control bytes inside JSON strings (insane-json accepts them), Loki
	//    timestamps that are not UnixNano
	nmal := nrand / 4
	for i := 0; i < nmal; i++ {
		c19GenFile(w, rng, true)
		c19GenGelf(w, rng, true, gp, false)
		c19GenKafka(w, rng, true)
		c19GenHTTP(w, rng, true, false, nil, 6)
		c19GenES(w, rng, true, false, nil, 6)
		c19GenSplunk(w, rng, true, nil)
		c19GenLoki(w, rng, nil, true)
	}
}
