package main

import (
	"bytes"
	"fmt"
	"sort"
	"strconv"
	"strings"
	"unicode"

	"github.com/ozontech/file.d/decoder"
	insaneJSON "github.com/ozontech/insane-json"
	"github.com/tidwall/gjson"

	"verifharness/internal/hx"
	"verifharness/internal/jt"
)

// C12: decoders are total and faithful. The exec side calls the real exported decoder functions.
// Case lines and result forms are documented in lean/FileD/Drv/C12.lean.
//
// Every scanner is called on a line that sits inside a larger buffer (guard bytes on both sides,
// capacity reaching into the trailing guard, the way the file input hands sub-slices of its read
// buffer to the pipeline); the guards must be intact afterwards and the line's bytes after the
// call are part of the result (`B <hex>`).

func init() {
	execs["c12.cri"] = execC12CRI
	execs["c12.pg"] = execC12PG
	execs["c12.nginx"] = execC12Nginx
	execs["c12.s3164"] = func(t *hx.Toks) string { return execC12Syslog(t, false) }
	execs["c12.s5424"] = func(t *hx.Toks) string { return execC12Syslog(t, true) }
	execs["c12.csv"] = execC12CSV
	execs["c12.jcut"] = execC12JCut
	execs["c12.json"] = execC12JSON
	execs["c12.pb"] = execC12PB
}

const c12Guard = 8

type guarded struct {
	full []byte
	n    int
}

func newGuarded(line []byte) *guarded {
	full := make([]byte, 0, len(line)+2*c12Guard)
	for i := 0; i < c12Guard; i++ {
		full = append(full, 0xA5)
	}
	full = append(full, line...)
	for i := 0; i < c12Guard; i++ {
		full = append(full, 0x5A)
	}
	return &guarded{full: full, n: len(line)}
}

// view is the line as a sub-slice whose capacity extends into the trailing guard.
func (g *guarded) view() []byte { return g.full[c12Guard : c12Guard+g.n] }

func (g *guarded) intact() bool {
	for i := 0; i < c12Guard; i++ {
		if g.full[i] != 0xA5 || g.full[c12Guard+g.n+i] != 0x5A {
			return false
		}
	}
	return true
}

func (g *guarded) after() string { return hx.Enc(g.full[c12Guard : c12Guard+g.n]) }

// jsonView runs f (a DecodeToJson call) on a root holding `{}` and renders the event it built:
// object, fields stably sorted by key. `err` when f reports an error, `panic:<kind>` on a panic.
func jsonView(f func(root *insaneJSON.Root) error) (res string) {
	defer func() {
		if r := recover(); r != nil {
			res = "panic:" + panicKind(r)
		}
	}()
	root := insaneJSON.Spawn()
	defer insaneJSON.Release(root)
	_ = root.DecodeString("{}")
	if err := f(root); err != nil {
		return "err"
	}
	t := jt.FromNode(root.Node)
	sortTree(t)
	return t.Tok()
}

func sortTree(t *jt.Tree) {
	if t.Kind == jt.Obj {
		sort.SliceStable(t.Obj, func(i, j int) bool { return bytes.Compare(t.Obj[i].K, t.Obj[j].K) < 0 })
		for _, kv := range t.Obj {
			sortTree(kv.V)
		}
	}
	for _, x := range t.Arr {
		sortTree(x)
	}
}

// finish assembles the canonical scanner result.
func finish(g *guarded, err error, toks string, gj *guarded, j string) string {
	if !g.intact() || (gj != nil && !gj.intact()) {
		return "frame-violated"
	}
	var sb strings.Builder
	if err != nil {
		sb.WriteString("err")
	} else {
		sb.WriteString("ok " + toks)
	}
	sb.WriteString(" B " + g.after())
	if gj != nil {
		sb.WriteString(" J " + j)
	}
	return sb.String()
}

func execC12CRI(t *hx.Toks) string {
	data := t.Bytes()
	if t.Err != nil || !t.Done() {
		return "bad-case"
	}
	g := newGuarded(data)
	row, err := decoder.DecodeCRI(g.view())
	toks := ""
	if err == nil {
		toks = fmt.Sprintf("%s %s %s %s", hx.Enc(row.Time), hx.Enc(row.Stream), hx.B(row.IsPartial), hx.Enc(row.Log))
	}
	return finish(g, err, toks, nil, "")
}

func execC12PG(t *hx.Toks) string {
	data := t.Bytes()
	if t.Err != nil || !t.Done() {
		return "bad-case"
	}
	g := newGuarded(data)
	row, err := decoder.DecodePostgres(g.view())
	toks := ""
	if err == nil {
		toks = strings.Join([]string{hx.Enc(row.Time), hx.Enc(row.PID), hx.Enc(row.PIDMessageNumber), hx.Enc(row.Client),
			hx.Enc(row.DB), hx.Enc(row.User), hx.Enc(row.Log)}, " ")
	}
	gj := newGuarded(data)
	j := jsonView(func(root *insaneJSON.Root) error { return decoder.DecodePostgresToJson(root, gj.view()) })
	return finish(g, err, toks, gj, j)
}

func kvToks(m map[string][]byte) string {
	keys := make([]string, 0, len(m))
	for k := range m {
		keys = append(keys, k)
	}
	sort.Strings(keys)
	var sb strings.Builder
	sb.WriteString(strconv.Itoa(len(keys)))
	for _, k := range keys {
		sb.WriteString(" " + hx.Enc([]byte(k)) + " " + hx.Enc(m[k]))
	}
	return sb.String()
}

func execC12Nginx(t *hx.Toks) string {
	custom := t.Bool()
	n := t.Int()
	for i := 0; i < n; i++ { // the letters table is for the model only
		_ = t.Bytes()
		_ = t.Bool()
	}
	data := t.Bytes()
	if t.Err != nil || !t.Done() {
		return "bad-case"
	}
	d, err := c12New(decoder.NGINX_ERROR, decoder.Params{"nginx_with_custom_fields": custom})
	if err != nil {
		return "bad-case"
	}
	g := newGuarded(data)
	rowRaw, err := d.Decode(g.view())
	toks := ""
	if err == nil {
		row := rowRaw.(decoder.NginxErrorRow)
		toks = strings.Join([]string{hx.Enc(row.Time), hx.Enc(row.Level), hx.Enc(row.PID), hx.Enc(row.TID), hx.Enc(row.CID),
			hx.Enc(row.Message), kvToks(row.CustomFields)}, " ")
	}
	gj := newGuarded(data)
	j := jsonView(func(root *insaneJSON.Root) error { return d.DecodeToJson(root, gj.view()) })
	return finish(g, err, toks, gj, j)
}

func spf(asString bool) string {
	if asString {
		return "string"
	}
	return "number"
}

func execC12Syslog(t *hx.Toks, rfc5424 bool) string {
	fs := t.Bool()
	ss := t.Bool()
	data := t.Bytes()
	if t.Err != nil || !t.Done() {
		return "bad-case"
	}
	params := decoder.Params{"syslog_facility_format": spf(fs), "syslog_severity_format": spf(ss)}
	var d decoder.Decoder
	var err error
	if rfc5424 {
		d, err = c12New(decoder.SYSLOG_RFC5424, params)
	} else {
		d, err = c12New(decoder.SYSLOG_RFC3164, params)
	}
	if err != nil {
		return "bad-case"
	}
	g := newGuarded(data)
	rowRaw, err := d.Decode(g.view())
	toks := ""
	if err == nil {
		var r3 decoder.SyslogRFC3164Row
		if rfc5424 {
			r3 = rowRaw.(decoder.SyslogRFC5424Row).SyslogRFC3164Row
		} else {
			r3 = rowRaw.(decoder.SyslogRFC3164Row)
		}
		if !rfc5424 {
			toks = strings.Join([]string{hx.Enc(r3.Priority), hx.Enc([]byte(r3.Facility)), hx.Enc([]byte(r3.Severity)),
				hx.Enc(r3.Timestamp), hx.Enc(r3.Hostname), hx.Enc(r3.AppName), hx.Enc(r3.ProcID), hx.Enc(r3.Message)}, " ")
		} else {
			r5 := rowRaw.(decoder.SyslogRFC5424Row)
			ids := make([]string, 0, len(r5.StructuredData))
			for id := range r5.StructuredData {
				ids = append(ids, id)
			}
			sort.Strings(ids)
			sd := strconv.Itoa(len(ids))
			for _, id := range ids {
				sd += " " + hx.Enc([]byte(id)) + " " + kvToks(r5.StructuredData[id])
			}
			toks = strings.Join([]string{hx.Enc(r3.Priority), hx.Enc([]byte(r3.Facility)), hx.Enc([]byte(r3.Severity)),
				hx.Enc(r5.ProtoVersion), hx.Enc(r3.Timestamp), hx.Enc(r3.Hostname), hx.Enc(r3.AppName), hx.Enc(r3.ProcID),
				hx.Enc(r5.MsgID), hx.Enc(r3.Message), sd}, " ")
		}
	}
	gj := newGuarded(data)
	j := jsonView(func(root *insaneJSON.Root) error { return d.DecodeToJson(root, gj.view()) })
	return finish(g, err, toks, gj, j)
}

// c12CSVTrimmed evaluates the TrimSpace oracle of the CSV model: bytes.TrimSpace applied to the
// bytes after the last delimiter of the (CRLF-rewritten) line.
func c12CSVTrimmed(delim byte, line []byte) []byte {
	d := append([]byte(nil), line...)
	if n := len(d); n >= 2 && d[n-2] == '\r' && d[n-1] == '\n' {
		d[n-2] = '\n'
		d = d[:n-1]
	}
	p := bytes.LastIndexByte(d, delim) + 1
	return bytes.TrimSpace(d[p:])
}

func execC12CSV(t *hx.Toks) string {
	delim := t.Int()
	cont := t.Bool()
	prefix := t.Bytes()
	nc := t.Int()
	cols := make([]any, 0, nc)
	for i := 0; i < nc && t.Err == nil; i++ {
		cols = append(cols, string(t.Bytes()))
	}
	_ = t.Bytes() // TrimSpace oracle: for the model only
	data := t.Bytes()
	if t.Err != nil || !t.Done() || delim < 1 || delim > 255 {
		return "bad-case"
	}
	mode := "default"
	if cont {
		mode = "continue"
	}
	d, err := c12New(decoder.CSV, decoder.Params{"columns": cols, "prefix": string(prefix), "delimiter": string([]byte{byte(delim)}),
		"invalid_line_mode": mode})
	if err != nil {
		return "bad-case"
	}
	g := newGuarded(data)
	rowRaw, err := d.Decode(g.view())
	toks := ""
	if err == nil {
		row := rowRaw.(decoder.CSVRow)
		toks = strconv.Itoa(len(row))
		for _, f := range row {
			toks += " " + hx.Enc([]byte(f))
		}
	}
	gj := newGuarded(data)
	j := jsonView(func(root *insaneJSON.Root) error { return d.DecodeToJson(root, gj.view()) })
	return finish(g, err, toks, gj, j)
}

// c12Probe is what gjson reports for one configured path (oracle parameters of the JsonCut model).
func c12Probe(data []byte, path string) (found bool, index, strLen, rawLen int) {
	if path == "" {
		return false, 0, 0, 0
	}
	v := gjson.GetBytes(data, path)
	return v.Exists() && v.Type == gjson.String, v.Index, len(v.Str), len(v.Raw)
}

func execC12JCut(t *hx.Toks) string {
	_ = t.Bool() // valid: for the model only
	n := t.Int()
	m := map[string]any{}
	for i := 0; i < n && t.Err == nil; i++ {
		path := string(t.Bytes())
		limit := t.Int()
		_ = t.Bool()
		_ = t.Int()
		_ = t.Int()
		_ = t.Int()
		if _, dup := m[path]; dup {
			return "bad-case"
		}
		m[path] = limit
	}
	data := t.Bytes()
	if t.Err != nil || !t.Done() {
		return "bad-case"
	}
	d, err := c12New(decoder.JSON, decoder.Params{"json_max_fields_size": m})
	if err != nil {
		return "bad-case"
	}
	g := newGuarded(data)
	res := decoder.VerifCutFieldsBySize(d, g.view())
	out := hx.Enc(res)
	if !g.intact() {
		return "frame-violated"
	}
	return out
}

func execC12JSON(t *hx.Toks) string {
	tree := jt.Parse(t)
	if t.Err != nil || !t.Done() {
		return "bad-case"
	}
	d, err := c12New(decoder.JSON, decoder.Params{})
	if err != nil {
		return "bad-case"
	}
	text := tree.JSON()
	root := insaneJSON.Spawn()
	defer insaneJSON.Release(root)
	if err := d.DecodeToJson(root, append([]byte(nil), text...)); err != nil {
		return "err"
	}
	t1 := jt.FromNode(root.Node)
	// encode, decode again: the full decode∘encode cycle
	enc := root.Encode(nil)
	root2 := insaneJSON.Spawn()
	defer insaneJSON.Release(root2)
	if err := d.DecodeToJson(root2, append([]byte(nil), enc...)); err != nil {
		return "ok " + t1.Tok() + " reencode-err"
	}
	t2 := jt.FromNode(root2.Node)
	if !jt.Equal(t1, t2) {
		return "ok " + t1.Tok() + " reencode-diff " + t2.Tok()
	}
	return "ok " + t1.Tok()
}

const c12Proto = `syntax = "proto3";
package verif;
message Inner { string name = 1; repeated int64 nums = 2; }
message Msg {
  string s = 1; int32 i = 2; bool b = 3; bytes raw = 4; double d = 5;
  Inner inner = 6; repeated string tags = 7; map<string, int32> m = 8; sint64 z = 9; fixed32 f = 10;
}`

var c12PB decoder.Decoder

func execC12PB(t *hx.Toks) string {
	data := t.Bytes()
	if t.Err != nil || !t.Done() {
		return "bad-case"
	}
	if c12PB == nil {
		d, err := decoder.NewProtobufDecoder(decoder.Params{"proto_file": c12Proto, "proto_message": "Msg"})
		if err != nil {
			return "bad-case"
		}
		c12PB = d
	}
	g := newGuarded(data)
	out, err := c12PB.Decode(g.view())
	if !g.intact() || !bytes.Equal(g.full[c12Guard:c12Guard+g.n], data) {
		return "frame-violated"
	}
	if err != nil {
		return "err"
	}
	if !gjson.ValidBytes(out.([]byte)) {
		return "ok invalid-json"
	}
	j := jsonView(func(root *insaneJSON.Root) error { return c12PB.DecodeToJson(root, append([]byte(nil), data...)) })
	if strings.HasPrefix(j, "panic") || j == "err" {
		return "ok tojson-" + j
	}
	return "ok"
}

// c12NginxLetters builds the letters-oracle table for the nginx model: every candidate key
// (between ", " and the next ':') that contains a non-ASCII byte, with unicode.IsLetter's verdict.
func c12NginxLetters(line []byte) string {
	data := bytes.TrimSuffix(line, []byte("\n"))
	seen := map[string]bool{}
	var keys []string
	for s := 0; s+1 < len(data); s++ {
		if data[s] != ',' || data[s+1] != ' ' {
			continue
		}
		field := data[s+2:]
		idx := bytes.IndexByte(field, ':')
		if idx < 0 {
			continue
		}
		key := field[:idx]
		ascii := true
		for _, c := range key {
			if c >= 0x80 {
				ascii = false
			}
		}
		if ascii || seen[string(key)] {
			continue
		}
		seen[string(key)] = true
		keys = append(keys, string(key))
	}
	var sb strings.Builder
	sb.WriteString(strconv.Itoa(len(keys)))
	for _, k := range keys {
		ok := !bytes.ContainsFunc([]byte(k), func(r rune) bool { return !unicode.IsLetter(r) })
		sb.WriteString(" " + hx.Enc([]byte(k)) + " " + hx.B(ok))
	}
	return sb.String()
}
