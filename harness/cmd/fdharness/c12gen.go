package main

import (
	"bufio"
	"bytes"
	"fmt"
	"strconv"
	"strings"

	"github.com/tidwall/gjson"

	"verifharness/internal/hx"
	"verifharness/internal/jt"
)

func init() { gens["C12"] = genC12 }

// ---- case line writers --------------------------------------------------------------------

func c12CRI(w *bufio.Writer, line []byte)  { fmt.Fprintf(w, "c12.cri %s\n", hx.Enc(line)) }
func c12PG(w *bufio.Writer, line []byte)   { fmt.Fprintf(w, "c12.pg %s\n", hx.Enc(line)) }
func c12Raw(w *bufio.Writer, line []byte)  { fmt.Fprintf(w, "c12.raw %s\n", hx.Enc(line)) }
func c12PBc(w *bufio.Writer, line []byte)  { fmt.Fprintf(w, "c12.pb %s\n", hx.Enc(line)) }
func c12JSONc(w *bufio.Writer, t *jt.Tree) { fmt.Fprintf(w, "c12.json %s\n", t.Tok()) }

func c12Nginx(w *bufio.Writer, custom bool, line []byte) {
	fmt.Fprintf(w, "c12.nginx %s %s %s\n", hx.B(custom), c12NginxLetters(line), hx.Enc(line))
}

func c12Syslog(w *bufio.Writer, rfc5424 bool, fs, ss bool, line []byte) {
	cmd := "c12.s3164"
	if rfc5424 {
		cmd = "c12.s5424"
	}
	fmt.Fprintf(w, "%s %s %s %s\n", cmd, hx.B(fs), hx.B(ss), hx.Enc(line))
}

type csvCfg struct {
	delim  byte
	cont   bool
	prefix string
	cols   []string
}

func c12CSV(w *bufio.Writer, c csvCfg, line []byte) {
	fmt.Fprintf(w, "c12.csv %d %s %s %d", c.delim, hx.B(c.cont), hx.Enc([]byte(c.prefix)), len(c.cols))
	for _, col := range c.cols {
		fmt.Fprintf(w, " %s", hx.Enc([]byte(col)))
	}
	fmt.Fprintf(w, " %s %s\n", hx.Enc(c12CSVTrimmed(c.delim, line)), hx.Enc(line))
}

type cutPath struct {
	path  string
	limit int
}

func c12JCut(w *bufio.Writer, paths []cutPath, data []byte) {
	fmt.Fprintf(w, "c12.jcut %s %d", hx.B(gjson.ValidBytes(data)), len(paths))
	for _, p := range paths {
		found, index, strLen, rawLen := c12Probe(data, p.path)
		fmt.Fprintf(w, " %s %d %s %d %d %d", hx.Enc([]byte(p.path)), p.limit, hx.B(found), index, strLen, rawLen)
	}
	fmt.Fprintf(w, " %s\n", hx.Enc(data))
}

// exhaustive enumerates every string over alpha (tokens, possibly multi-byte) of 0..maxLen tokens.
func exhaustive(alpha []string, maxLen int, f func(s []byte)) {
	var rec func(cur []byte, n int)
	rec = func(cur []byte, n int) {
		f(append([]byte(nil), cur...))
		if n == maxLen {
			return
		}
		for _, a := range alpha {
			rec(append(cur, a...), n+1)
		}
	}
	rec(nil, 0)
}

// ---- structured rows ----------------------------------------------------------------------

var c12Words = []string{"", "a", "x1", "stdout", "stderr", "host", "app", "myproc", "10", "abc def", "юни", "k8s", "UTF-8 é", "#", ":", "[", "]", "=", ",", "\"", "\\", "*", "-", "<", ">", "  "}

func word(r *hx.Rng, avoid string) []byte {
	for tries := 0; tries < 20; tries++ {
		var s string
		if r.Chance(2, 3) {
			s = c12Words[r.Intn(len(c12Words))]
		} else {
			s = string(r.Bytes(r.Range(0, 10), []byte("abcXYZ019_-./é\xff\x00 \t:[]=,\"\\#*<>")))
		}
		if !strings.ContainsAny(s, avoid) {
			return []byte(s)
		}
	}
	return []byte("w")
}

func criLine(r *hx.Rng) []byte {
	streams := []string{"stdout", "stderr", "stdout", "stderr", "stdin", "abcdefg", "", "sixsix"}
	tags := []string{"F", "P", "F", "P", "PF", "", "x", "P:1"}
	times := []string{"2016-10-06T00:17:09.669794202Z", "2016-10-06T00:17:09Z", "t", ""}
	var b []byte
	b = append(b, times[r.Intn(len(times))]...)
	b = append(b, ' ')
	b = append(b, streams[r.Intn(len(streams))]...)
	b = append(b, ' ')
	b = append(b, tags[r.Intn(len(tags))]...)
	b = append(b, ' ')
	b = append(b, word(r, "\n")...)
	if r.Chance(1, 3) {
		b = append(b, ' ')
		b = append(b, word(r, "\n")...)
	}
	return b
}

func pgLine(r *hx.Rng) []byte {
	w := func(avoid string) string { return string(word(r, avoid+"\n")) }
	return []byte(fmt.Sprintf("%s %s %s [%s] => [%s] client=%s,db=%s,user=%s LOG:  %s",
		w(" "), w(" "), w(" "), w("]"), w("]"), w(",="), w(",="), w(" ="), w("")))
}

func nginxLine(r *hx.Rng) []byte {
	w := func(avoid string) string { return string(word(r, avoid+"\n")) }
	levels := []string{"error", "warn", "e", "", "crit", "info"}
	s := fmt.Sprintf("2022/08/17 10:49:27 [%s] %s#%s:", levels[r.Intn(len(levels))], w(" #:"), w(" #:"))
	switch r.Intn(5) {
	case 0:
	case 1:
		s += " *" + w(" ")
	case 2:
		s += " *" + w(" ") + " " + w("")
	default:
		s += " "
		if r.Bool() {
			s += "*" + w(" ") + " "
		}
		s += w("")
		nf := r.Range(0, 4)
		keys := []string{"client", "server", "request", "upstream", "host", "ключ", "k1", "", "a b", "é"}
		for i := 0; i < nf; i++ {
			s += ", " + keys[r.Intn(len(keys))] + ":"
			switch r.Intn(4) {
			case 0:
			case 1:
				s += " " + w(",")
			case 2:
				s += " \"" + w(",\"") + "\""
			default:
				s += w(",")
			}
		}
	}
	return []byte(s)
}

var months = []string{"Jan", "Oct", "Dec", "Feb", "jan", "OCT", "Xyz"}

func stamp3164(r *hx.Rng) string {
	if r.Chance(1, 8) {
		return string(r.Bytes(15, []byte("Oct 1:25")))
	}
	day := fmt.Sprintf("%2d", r.Range(1, 31))
	if r.Chance(1, 4) {
		day = fmt.Sprintf("%02d", r.Range(0, 40))
	}
	return fmt.Sprintf("%s %s %02d:%02d:%02d", months[r.Intn(len(months))], day, r.Range(0, 25), r.Range(0, 61), r.Range(0, 61))
}

func priStr(r *hx.Rng) string {
	switch r.Intn(8) {
	case 0:
		return "<" + strconv.Itoa(r.Range(0, 999)) + ">"
	case 1:
		return []string{"<>", "<a>", "<1234>", "34>", "<34", "<-1>", "< 3>", "<192>", "<191>", "<0>"}[r.Intn(10)]
	default:
		return "<" + strconv.Itoa(r.Range(0, 191)) + ">"
	}
}

func s3164Line(r *hx.Rng) []byte {
	w := func(avoid string) string { return string(word(r, avoid+"\n")) }
	s := priStr(r) + stamp3164(r) + " " + w(" ") + " " + w(" [:")
	switch r.Intn(4) {
	case 0:
		s += "[" + w("]") + "]:"
	case 1:
		s += "[" + w("]") + "]"
	case 2:
		s += ":"
	default:
		s += " "
	}
	if r.Chance(3, 4) {
		s += " " + w("")
	}
	return []byte(s)
}

func stamp5424(r *hx.Rng) string {
	if r.Chance(1, 6) {
		return "-"
	}
	s := fmt.Sprintf("%04d-%02d-%02dT%02d:%02d:%02d", r.Range(0, 9999), r.Range(0, 13), r.Range(0, 32), r.Range(0, 24), r.Range(0, 60), r.Range(0, 60))
	if r.Chance(1, 10) {
		s = string(r.Bytes(19, []byte("2003-1T:5")))
	}
	if r.Bool() {
		s += "." + string(r.Bytes(r.Range(0, 8), []byte("0123456789")))
	}
	switch r.Intn(5) {
	case 0, 1:
		s += "Z"
	case 2:
		s += fmt.Sprintf("+%02d:%02d", r.Range(0, 24), r.Range(0, 60))
	case 3:
		s += fmt.Sprintf("-%02d:%02d", r.Range(0, 23), r.Range(0, 59))
	default:
		s += string(r.Bytes(r.Range(0, 6), []byte("Z+-:07")))
	}
	return s
}

func s5424Line(r *hx.Rng) []byte {
	hw := func() string {
		if r.Chance(1, 4) {
			return "-"
		}
		return string(word(r, " \n"))
	}
	s := priStr(r) + []string{"1", "1", "12", "", "x", "99999999999999999999"}[r.Intn(6)] + " " + stamp5424(r) + " " + hw() + " " + hw() + " " + hw() + " " + hw() + " "
	switch r.Intn(4) {
	case 0:
		s += "-"
	default:
		ne := r.Range(1, 3)
		for e := 0; e < ne; e++ {
			ids := []string{"exampleSDID@32473", "id", "ab", "a", "", "x y"}
			s += "[" + ids[r.Intn(len(ids))]
			np := r.Range(0, 3)
			for p := 0; p < np; p++ {
				s += " " + string(word(r, " =\"]\n")) + "=\"" + string(word(r, "\"]\n")) + "\""
			}
			if np == 0 && r.Bool() {
				s += " "
			}
			s += "]"
		}
	}
	if r.Chance(3, 4) {
		s += " "
		if r.Chance(1, 4) {
			s += "\xEF\xBB\xBF"
		}
		s += string(word(r, "\n"))
	}
	return []byte(s)
}

func csvField(r *hx.Rng, delim byte) string {
	v := string(word(r, "\n\r"))
	if strings.ContainsAny(v, "\""+string(delim)) || r.Chance(1, 4) {
		return "\"" + strings.ReplaceAll(v, "\"", "\"\"") + "\""
	}
	return v
}

func csvLine(r *hx.Rng, delim byte) []byte {
	n := r.Range(1, 5)
	var parts []string
	for i := 0; i < n; i++ {
		parts = append(parts, csvField(r, delim))
	}
	return []byte(strings.Join(parts, string(delim)))
}

func randCSVCfg(r *hx.Rng) csvCfg {
	c := csvCfg{delim: []byte{',', ',', ';', '\t', ' ', 'a'}[r.Intn(6)], cont: r.Bool()}
	if r.Bool() {
		c.prefix = []string{"csv_", "", "p"}[r.Intn(3)]
	}
	nc := r.Intn(5)
	for i := 0; i < nc; i++ {
		c.cols = append(c.cols, []string{"a", "b", "service", "time", "", "a"}[r.Intn(6)])
	}
	return c
}

// mutate: truncation, byte flips, delimiter injection, duplication
func mutate(r *hx.Rng, line []byte, delims []byte) []byte {
	b := append([]byte(nil), line...)
	switch r.Intn(6) {
	case 0: // truncate
		if len(b) > 0 {
			b = b[:r.Intn(len(b))]
		}
	case 1: // flip
		for k := r.Range(1, 3); k > 0 && len(b) > 0; k-- {
			b[r.Intn(len(b))] = byte(r.Intn(256))
		}
	case 2: // inject delimiter
		for k := r.Range(1, 3); k > 0; k-- {
			p := r.Intn(len(b) + 1)
			b = append(b[:p], append([]byte{delims[r.Intn(len(delims))]}, b[p:]...)...)
		}
	case 3: // delete a byte
		if len(b) > 0 {
			p := r.Intn(len(b))
			b = append(b[:p], b[p+1:]...)
		}
	case 4: // replace a byte by a delimiter
		if len(b) > 0 {
			b[r.Intn(len(b))] = delims[r.Intn(len(delims))]
		}
	default: // cut the head
		if len(b) > 0 {
			b = b[r.Intn(len(b)):]
		}
	}
	return b
}

func withNL(r *hx.Rng, b []byte) []byte {
	switch r.Intn(4) {
	case 0:
		return b
	case 1:
		return append(append([]byte(nil), b...), '\r', '\n')
	default:
		return append(append([]byte(nil), b...), '\n')
	}
}

// ---- protobuf wire helpers ------------------------------------------------------------------

func pbVarint(b []byte, v uint64) []byte {
	for v >= 0x80 {
		b = append(b, byte(v)|0x80)
		v >>= 7
	}
	return append(b, byte(v))
}

func pbMsg(r *hx.Rng) []byte {
	var b []byte
	n := r.Range(0, 6)
	for i := 0; i < n; i++ {
		switch r.Intn(6) {
		case 0:
			s := word(r, "")
			b = pbVarint(b, 1<<3|2)
			b = pbVarint(b, uint64(len(s)))
			b = append(b, s...)
		case 1:
			b = pbVarint(b, 2<<3|0)
			b = pbVarint(b, r.U64()>>uint(r.Intn(64)))
		case 2:
			b = pbVarint(b, 3<<3|0)
			b = pbVarint(b, uint64(r.Intn(2)))
		case 3:
			s := word(r, "")
			inner := pbVarint(nil, 1<<3|2)
			inner = pbVarint(inner, uint64(len(s)))
			inner = append(inner, s...)
			b = pbVarint(b, 6<<3|2)
			b = pbVarint(b, uint64(len(inner)))
			b = append(b, inner...)
		case 4:
			b = pbVarint(b, 10<<3|5)
			b = append(b, r.Bytes(4, []byte{0, 1, 0xff, 0x7f})...)
		default:
			s := word(r, "")
			b = pbVarint(b, 7<<3|2)
			b = pbVarint(b, uint64(len(s)))
			b = append(b, s...)
		}
	}
	return b
}

// ---- the generator --------------------------------------------------------------------------

func genC12(w *bufio.Writer, rng *hx.Rng, tier string) {
	thorough := tier == "thorough"
	pick := func(q, t int) int {
		if thorough {
			return t
		}
		return q
	}

	// ===== 1. exhaustive small scopes over each format's delimiter alphabet =====
	// CRI: bare strings, and tails after a complete "time stream " head
	exhaustive([]string{" ", "P", "a", "\n"}, pick(7, 8), func(s []byte) { c12CRI(w, s) })
	exhaustive([]string{" ", "P", "F", "\n", "x"}, pick(4, 6), func(s []byte) {
		c12CRI(w, append([]byte("t stdout "), s...))
	})
	exhaustive([]string{" ", "abcdef", "P"}, pick(5, 7), func(s []byte) { c12CRI(w, s) })
	// Postgres: bare strings and tails after the three timestamp words
	exhaustive([]string{" ", "[", "]", "=", ",", "a"}, pick(5, 6), func(s []byte) { c12PG(w, s) })
	exhaustive([]string{" ", "[", "]", "=", ",", "a"}, pick(6, 7), func(s []byte) {
		c12PG(w, append([]byte("a b c "), s...))
	})
	exhaustive([]string{" ", "=", ",", "a"}, pick(8, 9), func(s []byte) {
		c12PG(w, append([]byte("a b c [1] [2] "), s...))
	})
	// nginx
	exhaustive([]string{" ", "[", "#", ":", "*", "a", "\n"}, pick(5, 6), func(s []byte) { c12Nginx(w, len(s)%2 == 0, s) })
	exhaustive([]string{" ", "#", ":", "*", "1", ", "}, pick(6, 7), func(s []byte) {
		c12Nginx(w, true, append([]byte("2022/08/17 10:49:27 [error] "), s...))
	})
	exhaustive([]string{", ", "k", ":", " ", "\"", ",", "é"}, pick(5, 6), func(s []byte) {
		c12Nginx(w, true, append([]byte("d t [error] 1#2: *3 m"), s...))
	})
	// syslog priority (shared), rfc3164 tail, rfc5424 header and structured data
	exhaustive([]string{"<", ">", "1", "9", " ", "a"}, pick(5, 6), func(s []byte) {
		c12Syslog(w, false, false, false, s)
		c12Syslog(w, true, false, true, s)
	})
	exhaustive([]string{" ", "[", "]", ":", "a"}, pick(7, 8), func(s []byte) {
		c12Syslog(w, false, len(s)%2 == 0, false, append([]byte("<34>Oct 11 22:14:15 "), s...))
	})
	exhaustive([]string{" ", "-", "a", "1"}, pick(8, 9), func(s []byte) {
		c12Syslog(w, true, false, false, append([]byte("<34>"), s...))
	})
	exhaustive([]string{"[", "]", " ", "\"", "=", "\\", "a", "-"}, pick(5, 6), func(s []byte) {
		c12Syslog(w, true, false, false, append([]byte("<34>1 - - - - - "), s...))
	})
	exhaustive([]string{"]", " ", "\"", "=", "\\", "a", "[ab "}, pick(5, 6), func(s []byte) {
		c12Syslog(w, true, true, true, append([]byte("<165>1 - h a p m [id "), s...))
	})
	// rfc5424 timestamp tails after a fixed date-time
	exhaustive([]string{".", "1", "Z", "+", "-", ":", "07"}, pick(5, 6), func(s []byte) {
		c12Syslog(w, true, false, false, append(append([]byte("<1>1 2003-10-11T22:14:15"), s...), " h - - - -"...))
	})
	// CSV
	csvDef := csvCfg{delim: ','}
	exhaustive([]string{",", "\"", "a", "\n", "\r", " "}, pick(6, 7), func(s []byte) { c12CSV(w, csvDef, s) })
	exhaustive([]string{";", "\"", "a", "\n"}, pick(7, 8), func(s []byte) {
		c12CSV(w, csvCfg{delim: ';', cols: []string{"x", "y"}, prefix: "c_", cont: len(s)%2 == 0}, s)
	})
	// json_max_fields_size: every string body over escape tokens × every limit
	exhaustive([]string{"x", `\"`, `\\`, `\u00e9`, `\n`, "é", "/"}, pick(4, 5), func(body []byte) {
		doc := append(append([]byte(`{"k":1,"a":"`), body...), `","z":"zz"}`...)
		for limit := 0; limit <= len(body)+1; limit++ {
			c12JCut(w, []cutPath{{"a", limit}}, doc)
		}
	})
	// json_max_fields_size: paths that resolve to the same value / to a computed value (gjson
	// wildcards and modifiers), on small documents, every limit
	for _, doc := range []string{`{"a":"xxxxxxxx"}`, `{"a":"xxxxxxxx","b":"yyyy"}`, `{"b":{"a":"q\"q\"q"},"a":"zzzzzz"}`, `["s1","s2"]`} {
		special := []string{"a", "*", "a|@this", "a.@this", "b.@tostr", "b", "b.a", "@this", "0", "#", "?", "b.*"}
		for i, p1 := range special {
			for limit := 0; limit <= 3; limit++ {
				c12JCut(w, []cutPath{{p1, limit}}, []byte(doc))
				for _, p2 := range special[i+1:] {
					c12JCut(w, []cutPath{{p1, limit}, {p2, (limit + 1) % 4}}, []byte(doc))
					c12JCut(w, []cutPath{{p2, limit}, {p1, limit}}, []byte(doc))
				}
			}
		}
	}
	// RAW
	exhaustive([]string{"a", "\n", "\r"}, pick(5, 7), func(s []byte) { c12Raw(w, s) })

	// ===== 2. structured, mostly valid lines; 3. malformed stream =====
	n := pick(6000, 60000)
	for i := 0; i < n; i++ {
		l := criLine(rng)
		c12CRI(w, withNL(rng, l))
		c12CRI(w, mutate(rng, withNL(rng, l), []byte(" \nPF")))
		l = pgLine(rng)
		c12PG(w, withNL(rng, l))
		c12PG(w, mutate(rng, withNL(rng, l), []byte(" []=,")))
		l = nginxLine(rng)
		c12Nginx(w, rng.Bool(), withNL(rng, l))
		c12Nginx(w, rng.Bool(), mutate(rng, withNL(rng, l), []byte(" #:*,[]\n")))
		l = s3164Line(rng)
		c12Syslog(w, false, rng.Bool(), rng.Bool(), withNL(rng, l))
		c12Syslog(w, false, rng.Bool(), rng.Bool(), mutate(rng, withNL(rng, l), []byte(" <>[]:\n")))
		l = s5424Line(rng)
		c12Syslog(w, true, rng.Bool(), rng.Bool(), withNL(rng, l))
		c12Syslog(w, true, rng.Bool(), rng.Bool(), mutate(rng, withNL(rng, l), []byte(" <>[]\"=\\-\n")))
		cfg := randCSVCfg(rng)
		l = csvLine(rng, cfg.delim)
		c12CSV(w, cfg, withNL(rng, l))
		c12CSV(w, cfg, mutate(rng, withNL(rng, l), []byte{cfg.delim, '"', '\n', '\r', ' '}))
		c12Raw(w, withNL(rng, word(rng, "\n")))
	}

	// ===== 2b. well-formed rows with their expected fields: the fidelity clause on the implementation =====
	genC12Rows(w, rng, pick(4000, 50000))

	// ===== 2d. the real Pipeline.In on a sub-slice of a larger buffer, sizes around max_event_size =====
	genC12In(w, rng, thorough)

	// ===== 2c. one shared decoder, concurrent callers =====
	genC12Conc(w, rng, thorough)

	// ===== JSON: fidelity through insane-json, and field cutting on generated documents =====
	nj := pick(1500, 40000)
	simpleKeys := []string{"a", "b", "c", "msg", "level", "f_1", "k2"}
	for i := 0; i < nj; i++ {
		t := jt.GenObj(rng, jt.GenCfg{UniqueKeys: true})
		if rng.Chance(1, 5) {
			t = jt.GenValue(rng, jt.GenCfg{UniqueKeys: true})
		}
		c12JSONc(w, t)
		// cutting: documents with simple keys, 1..3 configured paths
		doc := jt.GenObj(rng, jt.GenCfg{UniqueKeys: true, Keys: simpleKeys, MaxDepth: 3})
		text := doc.JSON()
		if rng.Chance(1, 6) {
			text = mutate(rng, text, []byte("\"\\{}[],:"))
		}
		var paths []cutPath
		used := map[string]bool{}
		for k := rng.Range(1, 3); k > 0; k-- {
			p := simpleKeys[rng.Intn(len(simpleKeys))]
			if rng.Chance(1, 3) {
				p += "." + simpleKeys[rng.Intn(len(simpleKeys))]
			}
			if used[p] {
				continue
			}
			used[p] = true
			paths = append(paths, cutPath{p, rng.Range(0, 8)})
		}
		c12JCut(w, paths, text)
	}

	// ===== protobuf (library): valid wire messages and mutations, judged for "no panic" only =====
	np := pick(300, 5000)
	for i := 0; i < np; i++ {
		m := pbMsg(rng)
		c12PBc(w, m)
		c12PBc(w, mutate(rng, m, []byte{0, 0x80, 0xff, 0x0a}))
	}
	_ = bytes.MinRead
}
