package main

// C03: file input loses no line across kill and restart (process harness).
//
// case:  c03.hist <mode a|s> <workers> <bufsize> <procs> <kill> <nlines> (<id> <streamhex> <linehex>)… <nsteps> <step>…
//
//   mode      persistence_mode async | sync
//   kill      x       the child of run 1 dies only at its X step
//             e<k>    the child of run 1 SIGKILLs itself right after writing its k-th trace record
//             t<us>   the parent SIGKILLs the child of run 1 <us> microseconds after it finished its start-up scan
//             r<k>    the child of run 1 runs under strace and is SIGKILLed on entering its k-th rename (offsets save)
//             f<k>    … on entering its k-th fsync (offsets save; the trace log is not fsync'ed in this mode)
//   line table: every line that is ever written (id = its "n" field, stream = its "stream" field)
//   steps     C f      create file f (empty)                A f hex  append bytes to file f
//             R f g    rename file f away, create g at its old path      T f   truncate f to 0
//             DS f hex (while down) delete file f; a new file with the SAME inode number and content hex is staged
//                      outside the watched directory (inode reuse; `bad-harness` if the filesystem does not reuse it)
//             MV f     (while up) move the staged file f into the watched directory: a late file
//             RO f g   move file f out of the watched directory, create g at its old path
//             O f      move file f out of the watched directory          D f   unlink f (a hard link outside the directory keeps it observable)
//             U        start file.d (a child process)       X        the child kills itself (SIGKILL)
//             W        wait until idle                      K n      ack+commit the n-th eligible event
//             KA       ack+commit everything pending        S        wait until the offsets file is up to date
//             P        pause for several maintenance passes (the idle jobs are closed, re-opened and re-positioned)
//             KQ       ack+commit until every passed event has reached the output and is acked
//   Steps between X and U (and before the first U) are executed by the parent: the system is down.
//   The last run has no X: the child waits until idle and exits.
//
//   If the last run dies (a panic), one more run without steps follows (a supervisor restarts file.d).
//
// result: `bad-harness` when the harness itself could not attribute an event to a file (not evaluated); else
// the observed trace (records in the order the code serialised them), then the summary
//   `lost <n> (<id> <cls>)…` — complete lines that are neither acked in any run nor handed to the
//   output in the last run; cls 0 = at some crash the line's stream is absent from the saved offsets of its
//   file and the line ends at or before the minimum saved offset, 1 = anything else.
//
// records: reuse f (f's inode now belongs to a new, empty, staged file) | back f (staged f enters the directory) |
//   up | disc f | scan | new f | app f hex | ren f g | trunc f | away f (f left the watched directory) |
//   gone f (an away file has no job any more) | in f off pass | out f off seq id |
//   ack f off id | com f off id | eof f size | idle | stuck | crash | saved f n (streamhex off)… | died

import (
	"bufio"
	"bytes"
	"fmt"
	"os"
	"os/exec"
	"path/filepath"
	"runtime"
	"sort"
	"strconv"
	"strings"
	"sync"
	"sync/atomic"
	"syscall"
	"time"

	"github.com/ozontech/file.d/cfg"
	"github.com/ozontech/file.d/pipeline"
	"github.com/ozontech/file.d/pipeline/metadata"
	"github.com/ozontech/file.d/plugin/input/file"
	"github.com/prometheus/client_golang/prometheus"
	"go.uber.org/zap"

	"verifharness/internal/hx"
)

func init() {
	if len(os.Args) >= 4 && os.Args[1] == "c03child" {
		run, _ := strconv.Atoi(os.Args[3])
		c03ChildMain(os.Args[2], run)
		os.Exit(0)
	}
	execs["c03.hist"] = execC03
	gens["C03"] = genC03
}

// ------------------------------------------------------------------ case

type c03Line struct {
	id     int
	stream string
	data   []byte
}

type c03Step struct {
	op   string
	f, g int
	n    int
	data []byte
}

type c03Case struct {
	mode    string
	workers int
	buf     int
	procs   int
	kill    string
	lines   []c03Line
	steps   []c03Step
}

func parseC03(t *hx.Toks) (*c03Case, bool) {
	c := &c03Case{}
	c.mode = t.Next()
	c.workers = t.Int()
	c.buf = t.Int()
	c.procs = t.Int()
	c.kill = t.Next()
	nl := t.Int()
	if t.Err != nil || nl < 0 || nl > 100000 {
		return nil, false
	}
	for i := 0; i < nl; i++ {
		id := t.Int()
		st := t.Bytes()
		d := t.Bytes()
		c.lines = append(c.lines, c03Line{id, string(st), d})
	}
	ns := t.Int()
	if t.Err != nil || ns < 0 || ns > 100000 {
		return nil, false
	}
	for i := 0; i < ns; i++ {
		op := t.Next()
		s := c03Step{op: op}
		switch op {
		case "C", "T", "O", "D", "MV":
			s.f = t.Int()
		case "DS":
			s.f = t.Int()
			s.data = t.Bytes()
		case "A":
			s.f = t.Int()
			s.data = t.Bytes()
		case "R", "RO":
			s.f = t.Int()
			s.g = t.Int()
		case "K":
			s.n = t.Int()
		case "U", "X", "W", "KA", "KQ", "S", "P":
		default:
			return nil, false
		}
		c.steps = append(c.steps, s)
	}
	if t.Err != nil || !t.Done() || (c.mode != "a" && c.mode != "s") || c.workers < 1 || c.buf < 1 || c.procs < 1 {
		return nil, false
	}
	return c, true
}

// paths of the files after the file-op steps steps[:upto] (naming is a function of the steps)
func c03Paths(c *c03Case, logs string, upto int) map[int]string {
	p := map[int]string{}
	for _, s := range c.steps[:upto] {
		switch s.op {
		case "C":
			p[s.f] = filepath.Join(logs, fmt.Sprintf("s%d.log", s.f))
		case "R":
			old := p[s.f]
			p[s.f] = old + fmt.Sprintf(".r%d", s.g)
			p[s.g] = old
		case "RO":
			old := p[s.f]
			p[s.f] = c03AwayPath(logs, s.f)
			p[s.g] = old
		case "O", "D":
			p[s.f] = c03AwayPath(logs, s.f)
		case "DS":
			p[s.f] = c03StagePath(logs, s.f)
		case "MV":
			p[s.f] = filepath.Join(logs, fmt.Sprintf("s%d.log", s.f))
		}
	}
	return p
}

func c03StagePath(logs string, f int) string {
	return filepath.Join(filepath.Dir(logs), "stage", fmt.Sprintf("f%d", f))
}

var errNoInodeReuse = fmt.Errorf("inode number not reused")

// delete the file at path and create a new file with the same inode number (the filesystem hands a freed
// inode number to one of the next files created in the same directory), holding `data`, at `staged`
func c03ReuseInode(path, staged string, data []byte) error {
	ino, ok := c03Inode(path)
	if !ok {
		return fmt.Errorf("no such file")
	}
	if err := os.MkdirAll(filepath.Dir(staged), 0o755); err != nil {
		return err
	}
	if err := os.Remove(path); err != nil {
		return err
	}
	var junk []string
	defer func() {
		for _, j := range junk {
			_ = os.Remove(j)
		}
	}()
	for k := 0; k < 20; k++ {
		tmp := fmt.Sprintf("%s.reuse%d", path, k)
		if err := os.WriteFile(tmp, data, 0o644); err != nil {
			return err
		}
		if got, _ := c03Inode(tmp); got == ino {
			return os.Rename(tmp, staged)
		}
		junk = append(junk, tmp) // kept until the end so that the next attempt gets another number
	}
	return errNoInodeReuse
}

// where a file that left the watched directory lives (a sibling directory)
func c03AwayPath(logs string, f int) string {
	return filepath.Join(filepath.Dir(logs), "away", fmt.Sprintf("f%d", f))
}

func c03Watched(logs, path string) bool { return strings.HasPrefix(path, logs+string(os.PathSeparator)) }

func c03Inode(path string) (uint64, bool) {
	st, err := os.Stat(path)
	if err != nil {
		return 0, false
	}
	return st.Sys().(*syscall.Stat_t).Ino, true
}

// perform one file-op step (parent while down, child while up)
func c03FileOp(s c03Step, paths map[int]string, logs string) error {
	switch s.op {
	case "C":
		paths[s.f] = filepath.Join(logs, fmt.Sprintf("s%d.log", s.f))
		f, err := os.OpenFile(paths[s.f], os.O_CREATE|os.O_EXCL|os.O_WRONLY, 0o644)
		if err != nil {
			return err
		}
		return f.Close()
	case "A":
		f, err := os.OpenFile(paths[s.f], os.O_WRONLY|os.O_APPEND, 0o644)
		if err != nil {
			return err
		}
		if _, err = f.Write(s.data); err != nil {
			f.Close()
			return err
		}
		return f.Close()
	case "R":
		old := paths[s.f]
		nw := old + fmt.Sprintf(".r%d", s.g)
		if err := os.Rename(old, nw); err != nil {
			return err
		}
		paths[s.f] = nw
		paths[s.g] = old
		f, err := os.OpenFile(old, os.O_CREATE|os.O_EXCL|os.O_WRONLY, 0o644)
		if err != nil {
			return err
		}
		return f.Close()
	case "T":
		return os.Truncate(paths[s.f], 0)
	case "DS":
		staged := c03StagePath(logs, s.f)
		if err := c03ReuseInode(paths[s.f], staged, s.data); err != nil {
			return err
		}
		paths[s.f] = staged
	case "MV":
		nw := filepath.Join(logs, fmt.Sprintf("s%d.log", s.f))
		if err := os.Rename(paths[s.f], nw); err != nil {
			return err
		}
		paths[s.f] = nw
	case "RO", "O", "D":
		old := paths[s.f]
		nw := c03AwayPath(logs, s.f)
		if err := os.MkdirAll(filepath.Dir(nw), 0o755); err != nil {
			return err
		}
		if s.op == "D" {
			if err := os.Link(old, nw); err != nil {
				return err
			}
			if err := os.Remove(old); err != nil {
				return err
			}
		} else if err := os.Rename(old, nw); err != nil {
			return err
		}
		paths[s.f] = nw
		if s.op == "RO" {
			paths[s.g] = old
			f, err := os.OpenFile(old, os.O_CREATE|os.O_EXCL|os.O_WRONLY, 0o644)
			if err != nil {
				return err
			}
			return f.Close()
		}
	}
	return nil
}

func c03FileRec(s c03Step) string {
	switch s.op {
	case "C":
		return fmt.Sprintf("new %d", s.f)
	case "A":
		return fmt.Sprintf("app %d %s", s.f, hx.Enc(s.data))
	case "R":
		return fmt.Sprintf("ren %d %d", s.f, s.g)
	case "T":
		return fmt.Sprintf("trunc %d", s.f)
	case "RO":
		return fmt.Sprintf("away %d ren %d %d", s.f, s.f, s.g)
	case "O", "D":
		return fmt.Sprintf("away %d", s.f)
	case "DS":
		return fmt.Sprintf("reuse %d app %d %s", s.f, s.f, hx.Enc(s.data))
	case "MV":
		// one record line written BEFORE the move: the file has content, the watcher can add the job and a
		// worker can read it before the driver goroutine runs again (seen under load)
		return fmt.Sprintf("back %d disc %d", s.f, s.f)
	}
	return ""
}

// ------------------------------------------------------------------ parent

func c03ReadTrace(path string) []string {
	b, err := os.ReadFile(path)
	if err != nil {
		return nil
	}
	var out []string
	for len(b) > 0 {
		i := bytes.IndexByte(b, '\n')
		if i < 0 {
			break // torn last record
		}
		if l := strings.TrimSpace(string(b[:i])); l != "" {
			out = append(out, l)
		}
		b = b[i+1:]
	}
	return out
}

type c03Saved struct {
	inode   uint64
	streams map[string]int64
}

// a small independent parser of the offsets file format (only what the harness needs)
func c03ParseOffsets(path string) ([]c03Saved, bool) {
	b, err := os.ReadFile(path)
	if err != nil {
		return nil, os.IsNotExist(err)
	}
	var out []c03Saved
	var cur *c03Saved
	inStreams := false
	for _, l := range strings.Split(string(b), "\n") {
		switch {
		case l == "":
		case strings.HasPrefix(l, "- file: "):
			out = append(out, c03Saved{streams: map[string]int64{}})
			cur = &out[len(out)-1]
			inStreams = false
		case cur == nil:
			return nil, false
		case strings.HasPrefix(l, "  inode: "):
			v, err := strconv.ParseUint(l[len("  inode: "):], 10, 64)
			if err != nil {
				return nil, false
			}
			cur.inode = v
		case strings.HasPrefix(l, "  streams:"):
			inStreams = true
		case inStreams && strings.HasPrefix(l, "    "):
			i := strings.LastIndexByte(l, ':')
			if i < 4 || i+2 > len(l) {
				return nil, false
			}
			v, err := strconv.ParseInt(l[i+2:], 10, 64)
			if err != nil {
				return nil, false
			}
			cur.streams[l[4:i]] = v
		case strings.HasPrefix(l, "  "):
		default:
			return nil, false
		}
	}
	return out, true
}

// view of the history the parent keeps for the summary
type c03View struct {
	content  map[int][]byte
	acked    map[int]bool
	outLast  map[int]bool
	saved    map[int]map[string]int64 // at the last crash
	snaps    []map[int]map[string]int64 // at every crash
	hadCrash bool
}

func (v *c03View) apply(rec string) {
	t := strings.Fields(rec)
	if len(t) == 0 {
		return
	}
	atoi := func(s string) int { n, _ := strconv.Atoi(s); return n }
	switch t[0] {
	case "new":
		v.content[atoi(t[1])] = []byte{}
	case "app":
		d, _ := hx.Dec(t[2])
		v.content[atoi(t[1])] = append(v.content[atoi(t[1])], d...)
	case "ren":
		v.content[atoi(t[2])] = []byte{}
	case "away":
		if len(t) >= 5 && t[2] == "ren" {
			v.content[atoi(t[4])] = []byte{}
		}
	case "reuse":
		v.content[atoi(t[1])] = []byte{}
		if len(t) >= 5 && t[2] == "app" {
			d, _ := hx.Dec(t[4])
			v.content[atoi(t[1])] = d
		}
	case "trunc":
		v.content[atoi(t[1])] = []byte{}
	case "ack":
		v.acked[atoi(t[3])] = true
	case "out":
		v.outLast[atoi(t[4])] = true
	case "crash":
		v.outLast = map[int]bool{}
		v.saved = map[int]map[string]int64{}
		v.snaps = append(v.snaps, v.saved)
		v.hadCrash = true
	case "saved":
		m := map[string]int64{}
		for i := 0; i < atoi(t[2]); i++ {
			s, _ := hx.Dec(t[3+2*i])
			o, _ := strconv.ParseInt(t[4+2*i], 10, 64)
			m[string(s)] = o
		}
		v.saved[atoi(t[1])] = m
	}
}

func execC03(t *hx.Toks) string {
	c, ok := parseC03(t)
	if !ok {
		return "bad-case"
	}
	dir, err := os.MkdirTemp(scratchDir(), "c03-")
	if err != nil {
		return "err-io"
	}
	if os.Getenv("VERIF_KEEP") == "" {
		defer os.RemoveAll(dir)
	} else {
		fmt.Fprintln(os.Stderr, "c03 dir:", dir)
	}
	logs := filepath.Join(dir, "logs")
	offDir := filepath.Join(dir, "off")
	if os.Mkdir(logs, 0o755) != nil || os.Mkdir(offDir, 0o755) != nil {
		return "err-io"
	}
	if os.WriteFile(filepath.Join(dir, "case.txt"), []byte(strings.Join(t.T, " ")), 0o644) != nil {
		return "err-io"
	}
	offsetsFile := filepath.Join(offDir, "offsets.yaml")

	var recs []string
	view := &c03View{content: map[int][]byte{}, acked: map[int]bool{}, outLast: map[int]bool{}, saved: map[int]map[string]int64{}}
	add := func(r string) { recs = append(recs, r); view.apply(r) }
	paths := map[int]string{}
	run := 0
	pos := 0
	for pos < len(c.steps) {
		s := c.steps[pos]
		switch s.op {
		case "C", "A", "R", "T", "RO", "O", "D", "DS":
			if err := c03FileOp(s, paths, logs); err != nil {
				if err == errNoInodeReuse {
					return "bad-harness" // the family needs a filesystem that reuses inode numbers
				}
				return "bad-case"
			}
			add(c03FileRec(s))
			pos++
		case "U":
			run++
			segEnd := len(c.steps)
			for j := pos + 1; j < len(c.steps); j++ {
				if c.steps[j].op == "X" {
					segEnd = j
					break
				}
			}
			tr := filepath.Join(dir, fmt.Sprintf("trace%d.log", run))
			killed, code := c03RunChild(c, dir, run, tr)
			lines := c03ReadTrace(tr)
			// the paths after the file ops the child logged
			for _, l := range lines {
				tk := strings.Fields(l)
				switch tk[0] {
				case "new":
					f, _ := strconv.Atoi(tk[1])
					paths[f] = filepath.Join(logs, fmt.Sprintf("s%d.log", f))
				case "ren":
					f, _ := strconv.Atoi(tk[1])
					g, _ := strconv.Atoi(tk[2])
					old := paths[f]
					paths[f] = old + fmt.Sprintf(".r%d", g)
					paths[g] = old
				case "back":
					f, _ := strconv.Atoi(tk[1])
					paths[f] = filepath.Join(logs, fmt.Sprintf("s%d.log", f))
				case "away":
					f, _ := strconv.Atoi(tk[1])
					old := paths[f]
					paths[f] = c03AwayPath(logs, f)
					if len(tk) >= 5 && tk[2] == "ren" {
						g, _ := strconv.Atoi(tk[4])
						paths[g] = old
					}
				}
			}
			// a parent-side kill may fall between logging a file op and doing it: drop an undone last op
			if killed && len(lines) > 0 {
				last := -1
				for i, l := range lines {
					if strings.HasPrefix(l, "app ") || strings.HasPrefix(l, "trunc ") {
						last = i
					}
				}
				if last >= 0 {
					tmp := &c03View{content: map[int][]byte{}, acked: map[int]bool{}, outLast: map[int]bool{}, saved: map[int]map[string]int64{}}
					for f, b := range view.content {
						tmp.content[f] = append([]byte{}, b...)
					}
					for _, l := range lines {
						tmp.apply(l)
					}
					f, _ := strconv.Atoi(strings.Fields(lines[last])[1])
					if st, err := os.Stat(paths[f]); err == nil && st.Size() != int64(len(tmp.content[f])) {
						lines = append(lines[:last], lines[last+1:]...)
					}
				}
			}
			for _, l := range lines {
				add(l)
			}
			final := segEnd == len(c.steps)
			if !killed && code == 0 && final {
				pos = len(c.steps)
				break
			}
			if !killed {
				add("died")
			}
			add("crash")
			saved, okp := c03ParseOffsets(offsetsFile)
			if !okp {
				add("saved-unreadable")
			}
			inoToF := map[uint64]int{}
			for f, p := range paths {
				if ino, ok := c03Inode(p); ok {
					inoToF[ino] = f
				}
			}
			sort.Slice(saved, func(i, j int) bool { return inoToF[saved[i].inode] < inoToF[saved[j].inode] })
			for _, sv := range saved {
				f, ok := inoToF[sv.inode]
				if !ok {
					add("saved-unknown-inode")
					continue
				}
				var names []string
				for n := range sv.streams {
					names = append(names, n)
				}
				sort.Strings(names)
				r := fmt.Sprintf("saved %d %d", f, len(names))
				for _, n := range names {
					r += fmt.Sprintf(" %s %d", hx.Enc([]byte(n)), sv.streams[n])
				}
				add(r)
			}
			// the writer keeps writing while file.d is down: file steps the dead child did not
			// reach are done now, in order (a truncation ends that: it is never done while down)
			nfile := 0
			for _, l := range lines {
				switch strings.Fields(l)[0] {
				case "new", "app", "ren", "trunc", "away", "back":
					nfile++
				}
			}
			for j := pos + 1; j < segEnd; j++ {
				sj := c.steps[j]
				switch sj.op {
				case "C", "A", "R", "T", "RO", "O", "D":
					if nfile > 0 {
						nfile--
						continue
					}
					if sj.op == "T" {
						j = segEnd
						continue
					}
					if err := c03FileOp(sj, paths, logs); err != nil {
						return "bad-case"
					}
					add(c03FileRec(sj))
				}
			}
			if final {
				// the last run died (it has no kill of its own): a supervisor would start file.d again.
				// One recovery run, so that the summary is taken at an idle state and not at the death.
				pos = len(c.steps)
				run++
				tr2 := filepath.Join(dir, fmt.Sprintf("trace%d.log", run))
				killed2, code2 := c03RunChild(c, dir, run, tr2)
				for _, l := range c03ReadTrace(tr2) {
					add(l)
				}
				if killed2 || code2 != 0 {
					add("died")
					add("crash")
				}
			} else {
				pos = segEnd + 1
			}
		default:
			pos++ // X/W/K/S outside a run
		}
	}

	// summary: complete lines neither acked nor handed to the output of the last run
	byData := map[string]c03Line{}
	for _, l := range c.lines {
		byData[string(l.data)] = l
	}
	type lost struct{ id, cls int }
	var ls []lost
	var fs []int
	for f := range view.content {
		fs = append(fs, f)
	}
	sort.Ints(fs)
	for _, f := range fs {
		b := view.content[f]
		off := 0
		for {
			i := bytes.IndexByte(b[off:], '\n')
			if i < 0 {
				break
			}
			line := b[off : off+i+1]
			off += i + 1
			l, known := byData[string(line)]
			if !known {
				ls = append(ls, lost{-1, 1})
				continue
			}
			if view.acked[l.id] || view.outLast[l.id] {
				continue
			}
			cls := 1
			for _, snap := range view.snaps {
				sv, has := snap[f]
				if !has {
					continue
				}
				_, listed := sv[l.stream]
				min := int64(-1)
				for _, o := range sv {
					if min < 0 || o < min {
						min = o
					}
				}
				if !listed && int64(off) <= min {
					cls = 0
				}
			}
			ls = append(ls, lost{l.id, cls})
		}
	}
	for _, r := range recs {
		if r == "bad-harness" {
			// the harness could not attribute an event to a file: the case says nothing about file.d
			return "bad-harness"
		}
	}
	res := strings.Join(recs, " ") + fmt.Sprintf(" lost %d", len(ls))
	for _, l := range ls {
		res += fmt.Sprintf(" %d %d", l.id, l.cls)
	}
	return strings.TrimSpace(res)
}

// runs one child; returns (killed by SIGKILL, exit code)
func c03RunChild(c *c03Case, dir string, run int, trace string) (bool, int) {
	cmd := exec.Command(os.Args[0], "c03child", dir, strconv.Itoa(run))
	env := append(os.Environ(), "LOG_LEVEL=error")
	if run == 1 && len(c.kill) > 1 && (c.kill[0] == 'r' || c.kill[0] == 'f') {
		if st, err := exec.LookPath("strace"); err == nil {
			calls := "rename,renameat,renameat2"
			if c.kill[0] == 'f' {
				calls = "fsync"
			}
			cmd = exec.Command(st, "-f", "-o", "/dev/null", "-e", "trace="+calls,
				"-e", "inject="+calls+":signal=KILL:when="+c.kill[1:], os.Args[0], "c03child", dir, strconv.Itoa(run))
			env = append(env, "C03_NOSYNC=1")
		}
	}
	errf, _ := os.Create(filepath.Join(dir, fmt.Sprintf("stderr%d.log", run)))
	if errf != nil {
		defer errf.Close()
	}
	cmd.Stderr = errf
	cmd.Stdout = errf
	cmd.Env = env
	if err := cmd.Start(); err != nil {
		return false, 99
	}
	done := make(chan error, 1)
	go func() { done <- cmd.Wait() }()
	if run == 1 && strings.HasPrefix(c.kill, "t") {
		us, _ := strconv.Atoi(c.kill[1:])
		// wait for the start-up scan to finish, then kill at the chosen instant
		deadline := time.Now().Add(20 * time.Second)
	wait:
		for time.Now().Before(deadline) {
			select {
			case err := <-done:
				done <- err
				break wait
			default:
			}
			if b, err := os.ReadFile(trace); err == nil && bytes.Contains(b, []byte("\nscan\n")) {
				time.Sleep(time.Duration(us) * time.Microsecond)
				_ = cmd.Process.Kill()
				break wait
			}
			time.Sleep(200 * time.Microsecond)
		}
	}
	var err error
	select {
	case err = <-done:
	case <-time.After(60 * time.Second):
		_ = cmd.Process.Kill()
		err = <-done
		if os.Getenv("VERIF_DEBUG") != "" {
			fmt.Fprintln(os.Stderr, "c03: child timeout")
		}
		return false, 98
	}
	if os.Getenv("VERIF_DEBUG") != "" {
		b, _ := os.ReadFile(filepath.Join(dir, fmt.Sprintf("stderr%d.log", run)))
		fmt.Fprintf(os.Stderr, "--- child %d stderr:\n%s\n", run, b)
	}
	if err == nil {
		return false, 0
	}
	if ee, ok := err.(*exec.ExitError); ok {
		if ws, ok := ee.Sys().(syscall.WaitStatus); ok {
			if ws.Signaled() && ws.Signal() == syscall.SIGKILL {
				return true, -1
			}
			return false, ws.ExitStatus() + 1000*boolInt(ws.Signaled())
		}
	}
	return false, 97
}

func boolInt(b bool) int {
	if b {
		return 1
	}
	return 0
}

// ------------------------------------------------------------------ child

type c03Pending struct {
	ev     *pipeline.Event
	f      int
	off    int64
	id     int
	stream string
	acked  bool
}

type c03Child struct {
	c     *c03Case
	dir   string
	logs  string
	run   int
	paths map[int]string

	logMu   sync.Mutex
	trace   *os.File
	nrec    int
	killAt  int
	noSync  bool
	mu      sync.Mutex // serialises PassEvent / Commit / Out with their trace records
	fp      *file.Plugin
	octl    pipeline.OutputPluginController
	pending []*c03Pending
	srcToF  map[uint64]int
	goneSent map[int]bool
	inoMu    sync.Mutex
	inoToF   map[uint64]int // inode → file index, filled when the harness first knows a file
	badHarness atomic.Bool  // an event could not be attributed to a file: the case is not evaluated
	passed  map[string]int // per (file, stream), guarded by mu
	outs    map[string]int
}

func c03Key(f int, stream string) string { return fmt.Sprintf("%d/%s", f, stream) }

func (h *c03Child) die() {
	_ = syscall.Kill(os.Getpid(), syscall.SIGKILL)
	select {}
}

// log one record; `do` (a file operation) runs between the write and the kill check
func (h *c03Child) rec(sync bool, do func(), format string, a ...any) {
	h.logMu.Lock()
	fmt.Fprintf(h.trace, format+"\n", a...)
	if sync && !h.noSync {
		_ = h.trace.Sync()
	}
	h.nrec++
	n := h.nrec
	h.logMu.Unlock()
	if do != nil {
		do()
	}
	if h.killAt > 0 && n == h.killAt {
		h.die()
	}
}

// The file index of a source id. A file keeps its inode for its whole life, whatever its name and
// directory, so the index is resolved through the inode recorded when the harness first knew the file
// (child start / creation), never through the current names; the source id ↔ inode pair comes from
// the plugin's job table the first time the source is seen (PassEvent: the job exists then) and is
// kept, because the job may be released before its last events are handed out, acked and committed.
func (h *c03Child) fileOf(src uint64) int {
	if f, ok := h.srcToF[src]; ok {
		return f
	}
	h.inoMu.Lock()
	inoToF := make(map[uint64]int, len(h.inoToF))
	for k, v := range h.inoToF {
		inoToF[k] = v
	}
	h.inoMu.Unlock()
	for _, st := range file.VerifJobStates(h.fp) {
		if f, ok := inoToF[st.Inode]; ok {
			h.srcToF[st.SourceID] = f
		}
	}
	if f, ok := h.srcToF[src]; ok {
		return f
	}
	if !h.badHarness.Swap(true) {
		h.rec(false, nil, "bad-harness")
	}
	if os.Getenv("C03_DEBUG") != "" {
		fmt.Fprintf(os.Stderr, "fileOf(%d) unresolved: inoToF=%v jobs=%+v\n", src, inoToF, file.VerifJobStates(h.fp))
	}
	return -1
}

// record the inode of file f (at child start and right after the harness created the file)
func (h *c03Child) learnInode(f int) {
	if ino, ok := c03Inode(h.paths[f]); ok {
		h.inoMu.Lock()
		h.inoToF[ino] = f
		h.inoMu.Unlock()
	}
}

// input wrapper: the real file.Plugin behind a plugin that logs PassEvent and Commit
type c03Input struct {
	h  *c03Child
	fp *file.Plugin
	fc *file.Config
}

func (w *c03Input) Start(_ pipeline.AnyConfig, params *pipeline.InputPluginParams) {
	w.fp.Start(w.fc, params)
}
func (w *c03Input) Stop() { w.fp.Stop() }
func (w *c03Input) PassEvent(e *pipeline.Event) bool {
	h := w.h
	h.mu.Lock()
	defer h.mu.Unlock()
	r := w.fp.PassEvent(e)
	f := h.fileOf(uint64(e.SourceID))
	if r {
		h.passed[c03Key(f, string(e.StreamNameBytes()))]++
	}
	h.rec(false, nil, "in %d %d %s", f, e.Offset, hx.B(r))
	return r
}
func (w *c03Input) Commit(e *pipeline.Event) {
	h := w.h
	h.mu.Lock()
	defer h.mu.Unlock()
	f, off, id := h.fileOf(uint64(e.SourceID)), e.Offset, c03EventID(e)
	w.fp.Commit(e)
	h.rec(false, nil, "com %d %d %d", f, off, id)
}

// the id of the line the event is (its "n" field) — provided the event is that whole line: the
// re-encoded event must be the line's bytes (the generated lines are canonical JSON). A remainder
// of a line, or a garbled event, gets -2 and matches nothing.
func c03EventID(e *pipeline.Event) int {
	n := e.Root.Dig("n")
	if n == nil {
		return -1
	}
	id := n.AsInt()
	if c03LineByID != nil {
		if want, ok := c03LineByID[id]; !ok || e.Root.EncodeToString()+"\n" != want {
			return -2
		}
	}
	return id
}

var c03LineByID map[int]string

type c03Output struct{ h *c03Child }

func (o *c03Output) Start(_ pipeline.AnyConfig, params *pipeline.OutputPluginParams) {
	o.h.octl = params.Controller
}
func (o *c03Output) Stop() {}
func (o *c03Output) Out(e *pipeline.Event) {
	h := o.h
	h.mu.Lock()
	defer h.mu.Unlock()
	id := c03EventID(e)
	p := &c03Pending{ev: e, f: h.fileOf(uint64(e.SourceID)), off: e.Offset, id: id, stream: string(e.StreamNameBytes())}
	h.pending = append(h.pending, p)
	h.outs[c03Key(p.f, p.stream)]++
	h.rec(false, nil, "out %d %d %d %d", p.f, p.off, e.SeqID, id)
}

var _ = metadata.MetaData{}

// the oldest un-acked event of every (file, stream), sorted by (file, stream)
func (h *c03Child) eligible() []*c03Pending {
	h.mu.Lock()
	defer h.mu.Unlock()
	seen := map[string]bool{}
	var out []*c03Pending
	for _, p := range h.pending {
		if p.acked {
			continue
		}
		k := c03Key(p.f, p.stream)
		if seen[k] {
			continue
		}
		seen[k] = true
		out = append(out, p)
	}
	sort.Slice(out, func(i, j int) bool {
		if out[i].f != out[j].f {
			return out[i].f < out[j].f
		}
		return out[i].stream < out[j].stream
	})
	return out
}

func (h *c03Child) ack(p *c03Pending) {
	h.mu.Lock()
	p.acked = true
	h.mu.Unlock()
	h.rec(true, nil, "ack %d %d %d", p.f, p.off, p.id) // the sink's durable write …
	h.octl.Commit(p.ev)                                // … then the acknowledgement
}

func (h *c03Child) fileSizes() map[int]int64 {
	out := map[int]int64{}
	for f, p := range h.paths {
		if st, err := os.Stat(p); err == nil {
			out[f] = st.Size()
		}
	}
	return out
}

// idle: every file has a job that is done and has read up to the file size, and every stream's
// passed events have reached the output — or the output still holds an un-acked event of that stream
// (the pipeline does not hand out later events of a stream before the earlier ones are committed).
// In `final` mode everything pending is acked until every passed event has reached the output.
// Polls observable state only.
func (h *c03Child) waitIdle(final bool) bool {
	deadline := time.Now().Add(15 * time.Second)
	for time.Now().Before(deadline) {
		sizes := h.fileSizes()
		h.inoMu.Lock()
		inoToF := make(map[uint64]int, len(h.inoToF))
		for k, v := range h.inoToF {
			inoToF[k] = v
		}
		h.inoMu.Unlock()
		okc := 0
		hasJob := map[int]bool{}
		for _, st := range file.VerifJobStates(h.fp) {
			f, known := inoToF[st.Inode]
			if known {
				hasJob[f] = true
			}
			if known && st.IsDone && st.CurOffset == sizes[f] {
				okc++
			}
		}
		// a file that left the watched directory may have lost its job (maintenance releases it
		// once it has been read to its end): that is idle too
		for f := range sizes {
			if !hasJob[f] && !c03Watched(h.logs, h.paths[f]) {
				okc++
			}
		}
		if okc == len(sizes) {
			h.mu.Lock()
			held := map[string]bool{}
			for _, p := range h.pending {
				if !p.acked {
					held[c03Key(p.f, p.stream)] = true
				}
			}
			settled, all := true, true
			for k, n := range h.passed {
				if h.outs[k] != n {
					all = false
					if !held[k] {
						settled = false
					}
				}
			}
			h.mu.Unlock()
			if settled && (all || !final) {
				for _, f := range sortedKeys(sizes) {
					if hasJob[f] {
						h.rec(false, nil, "eof %d %d", f, sizes[f])
					} else if !h.goneSent[f] {
						h.goneSent[f] = true
						h.rec(false, nil, "gone %d", f)
					}
				}
				return true
			}
			if settled && final {
				for _, p := range h.eligible() {
					h.ack(p)
				}
			}
		}
		time.Sleep(500 * time.Microsecond)
	}
	h.rec(false, nil, "stuck")
	return false
}

func sortedKeys(m map[int]int64) []int {
	var ks []int
	for k := range m {
		ks = append(ks, k)
	}
	sort.Ints(ks)
	return ks
}

// the offsets file lists exactly the current committed offsets of every job that has some
func (h *c03Child) waitSaved(offsetsFile string) bool {
	deadline := time.Now().Add(10 * time.Second)
	for time.Now().Before(deadline) {
		saved, ok := c03ParseOffsets(offsetsFile)
		if ok {
			byIno := map[uint64]map[string]int64{}
			for _, s := range saved {
				byIno[s.inode] = s.streams
			}
			same := true
			for _, st := range file.VerifJobStates(h.fp) {
				if len(st.Streams) == 0 {
					continue
				}
				sv := byIno[st.Inode]
				if len(sv) != len(st.Streams) {
					same = false
					break
				}
				for i, n := range st.Streams {
					if v, has := sv[n]; !has || v != st.Offsets[i] {
						same = false
					}
				}
			}
			if same {
				return true
			}
		}
		time.Sleep(500 * time.Microsecond)
	}
	h.rec(false, nil, "stuck")
	return false
}

func c03ChildMain(dir string, run int) {
	b, err := os.ReadFile(filepath.Join(dir, "case.txt"))
	if err != nil {
		os.Exit(4)
	}
	t := hx.NewToks(string(b))
	t.Next()
	c, ok := parseC03(t)
	if !ok {
		os.Exit(4)
	}
	// locate this run's segment
	start, u := -1, 0
	for i, s := range c.steps {
		if s.op == "U" {
			u++
			if u == run {
				start = i + 1
				break
			}
		}
	}
	if start < 0 {
		if run != u+1 {
			os.Exit(4)
		}
		start = len(c.steps) // recovery run after a death of the last scripted run: no steps, run until idle
	}
	logs := filepath.Join(dir, "logs")
	h := &c03Child{c: c, dir: dir, logs: logs, run: run, paths: c03Paths(c, logs, start), srcToF: map[uint64]int{}, passed: map[string]int{}, outs: map[string]int{}, goneSent: map[int]bool{}, inoToF: map[uint64]int{}}
	c03LineByID = map[int]string{}
	for _, l := range c.lines {
		c03LineByID[l.id] = string(l.data)
	}
	h.trace, err = os.OpenFile(filepath.Join(dir, fmt.Sprintf("trace%d.log", run)), os.O_CREATE|os.O_WRONLY|os.O_APPEND, 0o644)
	if err != nil {
		os.Exit(4)
	}
	h.noSync = os.Getenv("C03_NOSYNC") != ""
	if run == 1 && strings.HasPrefix(c.kill, "e") {
		h.killAt, _ = strconv.Atoi(c.kill[1:])
	}
	offsetsFile := filepath.Join(dir, "off", "offsets.yaml")

	settings := &pipeline.Settings{
		Capacity:            512,
		MaintenanceInterval: time.Second * 5,
		EventTimeout:        pipeline.DefaultEventTimeout,
		Antispam:            pipeline.AntispamSettings{Threshold: pipeline.DefaultAntispamThreshold},
		AvgEventSize:        256,
		MetaCacheSize:       32,
		StreamField:         "stream",
		Decoder:             "json",
		Metric: &pipeline.MetricSettings{
			HoldDuration:        pipeline.DefaultMetricHoldDuration,
			MaxLabelValueLength: pipeline.DefaultMetricMaxLabelValueLength,
		},
	}
	runtime.GOMAXPROCS(c.procs)
	p := pipeline.New("c03", settings, prometheus.NewRegistry(), zap.NewNop())
	if c.procs == 1 {
		p.DisableParallelism()
	}
	mode := "async"
	if c.mode == "s" {
		mode = "sync"
	}
	fc := &file.Config{
		WatchingDir:         logs,
		OffsetsFile:         offsetsFile,
		PersistenceMode:     mode,
		AsyncInterval:       "3ms",
		OffsetsOp:           "continue",
		MaintenanceInterval: "3ms",
		ReadBufferSize:      c.buf,
		WorkersCount:        cfg.Expression(strconv.Itoa(c.workers)),
		RemoveAfter:         "0",
	}
	if err := cfg.SetDefaultValues(fc); err != nil {
		os.Exit(5)
	}
	if err := cfg.Parse(fc, map[string]int{"gomaxprocs": c.procs}); err != nil {
		os.Exit(5)
	}
	in, _ := file.Factory()
	h.fp = in.(*file.Plugin)
	wrap := &c03Input{h: h, fp: h.fp, fc: fc}
	p.SetInput(&pipeline.InputPluginInfo{
		PluginStaticInfo:  &pipeline.PluginStaticInfo{Type: "file", Config: fc},
		PluginRuntimeInfo: &pipeline.PluginRuntimeInfo{Plugin: wrap},
	})
	p.SetOutput(&pipeline.OutputPluginInfo{
		PluginStaticInfo:  &pipeline.PluginStaticInfo{Type: "c03out", Config: struct{}{}},
		PluginRuntimeInfo: &pipeline.PluginRuntimeInfo{Plugin: &c03Output{h: h}},
	})

	h.rec(false, nil, "up")
	var fs []int
	for f := range h.paths {
		fs = append(fs, f)
	}
	sort.Ints(fs)
	for _, f := range fs {
		h.learnInode(f)
		if c03Watched(logs, h.paths[f]) {
			h.rec(false, nil, "disc %d", f)
		}
	}
	p.Start()
	h.rec(false, nil, "scan")

	final := true
	for i := start; i < len(c.steps); i++ {
		s := c.steps[i]
		if s.op == "U" {
			break
		}
		if s.op == "X" {
			final = false
			h.die()
		}
		switch s.op {
		case "C", "A", "R", "T", "RO", "O", "D", "MV":
			s := s
			h.rec(false, func() {
				if err := c03FileOp(s, h.paths, logs); err != nil {
					os.Exit(6)
				}
				switch s.op {
				case "C":
					h.learnInode(s.f)
				case "R", "RO":
					h.learnInode(s.g)
				}
			}, "%s", c03FileRec(s))
			if s.op == "C" {
				h.rec(false, nil, "disc %d", s.f)
			}
			if s.op == "R" || s.op == "RO" {
				h.rec(false, nil, "disc %d", s.g)
			}
		case "W":
			if !h.waitIdle(false) {
				os.Exit(3)
			}
		case "K":
			if el := h.eligible(); len(el) > 0 {
				h.ack(el[s.n%len(el)])
			}
		case "KA":
			for {
				el := h.eligible()
				if len(el) == 0 {
					break
				}
				h.ack(el[0])
			}
		case "P":
			time.Sleep(25 * time.Millisecond) // maintenance_interval is 3 ms
		case "KQ":
			for {
				if !h.waitIdle(true) {
					os.Exit(3)
				}
				el := h.eligible()
				if len(el) == 0 {
					break
				}
				for _, p := range el {
					h.ack(p)
				}
			}
		case "S":
			if !h.waitSaved(offsetsFile) {
				os.Exit(3)
			}
		}
	}
	if final {
		if !h.waitIdle(true) {
			os.Exit(3)
		}
		h.rec(true, nil, "idle")
	}
	os.Exit(0)
}

// ------------------------------------------------------------------ generator (filled in below)

func genC03(w *bufio.Writer, rng *hx.Rng, tier string) {
	genC03Cases(w, rng, tier)
}
