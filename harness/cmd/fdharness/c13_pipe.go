package main

// C13, end to end through the real processor (pipeline/processor.go: doActions, countEvent with
// metric labels taken from the event, Propagate / Spawn, real stream time-outs):
//
//   c13.pipe <plugin> <cfg hex JSON> <ps> <nl> <metric label field hex>… <n> (E <JTree> | R <hex>)…
//   c13.pipeout …same…        with the real stdout output plugin instead of devnull (out=0: no per-event check)
//   result   cfg-rejected | in=<accepted> out=<k> <status>×k left=<events still in flight>
//
// The action runs inside a real pipeline (fake input, devnull output, one processor, event
// time-out 15 ms, action metric `c13m` with the given event fields as labels, add_host as a second
// action downstream). A `T` in the event list is silence for 260 ms (heartbeat 200 ms + 4 time-outs): if the action is
// busy the processor sends it a time-out event; the events after it must still flow. Do is called on the
// processor goroutine, which has no recover: a panic there ends the (child) process and is
// reported as crash:*. Every event handed to the output is checked like in c13.act.

import (
	"encoding/json"
	"fmt"
	"os"
	"strings"
	"sync"
	"time"

	"github.com/ozontech/file.d/fd"
	"github.com/ozontech/file.d/pipeline"
	"github.com/ozontech/file.d/plugin/input/fake"
	"github.com/ozontech/file.d/plugin/output/devnull"
	"github.com/ozontech/file.d/plugin/output/stdout"
	"github.com/prometheus/client_golang/prometheus"

	"verifharness/internal/hx"
)

func init() {
	execs["c13.pipe"] = c13Isolated("c13.pipe", func(t *hx.Toks) string { return c13PipeDirect(t, false) })
	// the same with the real `stdout` output plugin (it encodes every event it is given, without a
	// batcher in between); os.Stdout points to /dev/null while the pipeline runs
	execs["c13.pipeout"] = c13Isolated("c13.pipeout", func(t *hx.Toks) string { return c13PipeDirect(t, true) })
}

func c13PipeDirect(t *hx.Toks, realStdout bool) string {
	lg := c13SetupLogger()
	name := t.Next()
	cfgJSON := t.Bytes()
	ps, okp := c13ParsePS(t.Next())
	nl := t.Int()
	if t.Err != nil || !okp || nl < 0 || nl > 16 {
		return "bad-case"
	}
	labels := make([]string, 0, nl)
	for i := 0; i < nl; i++ {
		labels = append(labels, string(t.Bytes()))
	}
	evs, ok := c13ParseEvents(t)
	if !ok {
		return "bad-case"
	}
	// the configuration must be one the plugin accepts (checked on a throw-away instance)
	if inst, ok := c13Start(name, cfgJSON, ps); ok {
		inst.stop()
	} else {
		return "cfg-rejected"
	}
	info, err := fd.DefaultPluginRegistry.GetActionByType(name)
	if err != nil {
		return "cfg-rejected"
	}
	config, err := pipeline.GetConfig(info, cfgJSON, map[string]int{"capacity": 64, "gomaxprocs": 1})
	if err != nil {
		return "cfg-rejected"
	}
	pname := c13PipelineName(name, cfgJSON)
	settings := &pipeline.Settings{
		Capacity:                64,
		MaintenanceInterval:     5 * time.Second,
		EventTimeout:            15 * time.Millisecond,
		Antispam:                pipeline.AntispamSettings{Threshold: -1},
		AvgEventSize:            2048,
		MaxEventSize:            ps.maxEventSize,
		CutOffEventByLimit:      ps.cutOff,
		CutOffEventByLimitField: ps.cutOffField,
		MetaCacheSize:           32,
		StreamField:             "stream",
		Decoder:                 "json",
		Metric:                  &pipeline.MetricSettings{HoldDuration: pipeline.DefaultMetricHoldDuration, MaxLabelValueLength: ps.maxLabelLen},
	}
	p := pipeline.New(pname, settings, prometheus.NewRegistry(), lg)
	p.DisableParallelism()

	inAny, _ := fake.Factory()
	input := inAny.(*fake.Plugin)
	p.SetInput(&pipeline.InputPluginInfo{
		PluginStaticInfo:  &pipeline.PluginStaticInfo{Type: "fake"},
		PluginRuntimeInfo: &pipeline.PluginRuntimeInfo{Plugin: input},
	})
	outAny, _ := devnull.Factory()
	output := outAny.(*devnull.Plugin)
	if realStdout {
		so, _ := stdout.Factory()
		p.SetOutput(&pipeline.OutputPluginInfo{
			PluginStaticInfo:  &pipeline.PluginStaticInfo{Type: "stdout"},
			PluginRuntimeInfo: &pipeline.PluginRuntimeInfo{Plugin: so},
		})
		if null, err := os.OpenFile(os.DevNull, os.O_WRONLY, 0); err == nil {
			saved := os.Stdout
			os.Stdout = null
			defer func() { os.Stdout = saved; null.Close() }()
		}
	} else {
		p.SetOutput(&pipeline.OutputPluginInfo{
			PluginStaticInfo:  &pipeline.PluginStaticInfo{Type: "devnull"},
			PluginRuntimeInfo: &pipeline.PluginRuntimeInfo{Plugin: output},
		})
	}
	allStd := true
	for _, e := range evs {
		if e.kind != 'T' && !json.Valid(e.text) {
			allStd = false
		}
	}
	var mu sync.Mutex
	var statuses []string
	output.SetOutFn(func(e *pipeline.Event) {
		// the parent of spawned children ("Parent event will be discarded", split) is handed to the
		// output for commit accounting only: Batch.ForEach skips it, so does this check
		if e.IsChildParentKind() {
			return
		}
		st := "ok"
		if e.Root != nil {
			enc, est := c13Encode(e.Root.Node)
			if est != "ok" {
				st = est
			} else {
				st = c13CheckBytes(enc)
				if st == "badjson:std" && !allStd {
					st = "ok"
				}
			}
		}
		mu.Lock()
		statuses = append(statuses, st)
		mu.Unlock()
	})
	infoCopy := *info
	infoCopy.Config = config
	infoCopy.Type = name
	// a second action downstream (add_host): whatever the action under test lets through — a
	// time-out event included — reaches a plugin that touches event.Root
	ahInfo, err := fd.DefaultPluginRegistry.GetActionByType("add_host")
	if err != nil {
		return "bad-case"
	}
	ahConfig, err := pipeline.GetConfig(ahInfo, []byte(`{"field":"c13_host"}`), map[string]int{"capacity": 64, "gomaxprocs": 1})
	if err != nil {
		return "bad-case"
	}
	ahCopy := *ahInfo
	ahCopy.Config = ahConfig
	started := func() (ok bool) {
		// metric registration refuses invalid / duplicate label names by panicking: start-up
		// validation, not event processing
		defer func() {
			if r := recover(); r != nil {
				ok = false
			}
		}()
		p.AddAction(&pipeline.ActionPluginStaticInfo{
			PluginStaticInfo: &infoCopy,
			MetricName:       "c13m",
			MetricLabels:     labels,
			MatchConditions:  pipeline.MatchConditions{},
			MatchMode:        pipeline.MatchModeAnd,
		})
		p.AddAction(&pipeline.ActionPluginStaticInfo{
			PluginStaticInfo: &ahCopy,
			MetricName:       "c13h",
			MatchConditions:  pipeline.MatchConditions{},
			MatchMode:        pipeline.MatchModeAnd,
		})
		p.Start()
		return true
	}()
	if !started {
		return "cfg-rejected"
	}
	accepted := 0
	src := "/k8s-logs/" + c13K8sPod + "_" + c13K8sNS + "_" + c13K8sContainer + "-" + c13K8sCID + ".log"
	for i, e := range evs {
		if e.kind == 'T' {
			// silence on the stream for longer than the event time-out: a busy action gets a
			// time-out event from the processor (stream.blockGet), then traffic goes on
			// (the streamer's heartbeat looks for timed-out streams every 200 ms)
			time.Sleep(200*time.Millisecond + 4*settings.EventTimeout)
			continue
		}
		text := e.text
		if name == "k8s-multiline" {
			// the k8s input's meta fields
			var obj map[string]json.RawMessage
			if json.Unmarshal(text, &obj) != nil || obj == nil {
				continue
			}
			obj["k8s_namespace"], _ = json.Marshal(c13K8sNS)
			obj["k8s_pod"], _ = json.Marshal(c13K8sPod)
			obj["k8s_container_id"], _ = json.Marshal(c13K8sCID)
			obj["k8s_container"], _ = json.Marshal(c13K8sContainer)
			text, _ = json.Marshal(obj)
		}
		input.In(1, src, pipeline.NewOffsets(int64(i+1)*10, nil), text)
		accepted++
	}
	// wait until every event is back in the pool (held ones are flushed by the stream time-out)
	left := int64(-1)
	deadline := time.Now().Add(3 * time.Second)
	for time.Now().Before(deadline) {
		inUse, _ := pipeline.VerifPipelinePool(p)
		left = inUse
		if inUse == 0 {
			break
		}
		time.Sleep(2 * time.Millisecond)
	}
	p.Stop()
	mu.Lock()
	defer mu.Unlock()
	var sb strings.Builder
	fmt.Fprintf(&sb, "in=%d out=%d", accepted, len(statuses))
	for _, s := range statuses {
		sb.WriteString(" " + s)
	}
	fmt.Fprintf(&sb, " left=%d", left)
	return sb.String()
}
