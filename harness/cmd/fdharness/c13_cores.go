package main

// C13, modelled cores (diffed against fdmodel): the real plugin is run through its public path
// (GetConfig + Start + Do), the value it leaves in the event is the implementation result.
//
//   c13.subst <nf> <filter>… <src hex>          modify with {"out": "${in|f1|…|fn}"} on {"in": src}
//        filter: cut first|last <n> | trimto all|left|right <cutset hex> | trim all|left|right <ascii cutset hex>
//              | re <limit> <sep hex> <0|1> <ng> <g>… <re hex> <nsub> <nm> (<2(nsub+1) ints>)…    (first filter only)
//        the `re` tokens carry regexp.FindAllSubmatchIndex(src, limit) as the model's oracle;
//        exec recomputes it and answers bad-oracle when the line is stale
//   c13.utf8 <n> <src hex>×n                      convert_utf8_bytes with fields f0…f(n-1) on one event
//   c13.tok <mask 1..63> <data hex>               hash normalizer restricted to the by-bytes patterns of mask
//        (bit 0 curly, 1 square, 2 parenthesized, 3 double, 4 single, 5 grave quoted): Normalize(nil, data)
//   c13.rename <preserve 0|1> <n> (<plen> <key hex>… <name hex>)… <JTree>      rename with override = !preserve
//   c13.move allow <tlen> <key hex>… <nf> (<plen> <key hex>…)… <JTree>          move, mode allow
//   c13.move block <target key hex> <nb> <key hex>… <JTree>                     move, mode block
//        result of the last three: ok <JTree of the re-decoded Encode output>
//   result: ok <hex>… | panic:<kind> | cfg-rejected

import (
	"bufio"
	"encoding/json"
	"fmt"
	"regexp"
	"strconv"
	"strings"

	"github.com/ozontech/file.d/pipeline"
	"github.com/ozontech/file.d/plugin/action/hash/normalize"
	insaneJSON "github.com/ozontech/insane-json"

	"verifharness/internal/hx"
	"verifharness/internal/jt"
)

func init() {
	execs["c13.subst"] = c13Isolated("c13.subst", c13SubstDirect)
	execs["c13.utf8"] = c13Isolated("c13.utf8", c13Utf8Direct)
	execs["c13.tok"] = c13Isolated("c13.tok", c13TokDirect)
	execs["c13.rename"] = c13Isolated("c13.rename", c13RenameDirect)
	execs["c13.move"] = c13Isolated("c13.move", c13MoveDirect)
}

// c13Lit renders s as a JSON string literal that survives the substitution argument parser:
// everything but plain letters, digits and a few harmless signs is written as \u00XX.
func c13Lit(s string) string {
	var sb strings.Builder
	sb.WriteByte('"')
	for _, r := range s {
		switch {
		case r >= 0x80:
			sb.WriteRune(r)
		case r >= 'a' && r <= 'z', r >= 'A' && r <= 'Z', r >= '0' && r <= '9', r == ' ', r == '_', r == '-', r == '.', r == ':', r == '!', r == '*', r == '+', r == '^', r == '?':
			sb.WriteRune(r)
		default:
			fmt.Fprintf(&sb, "\\u%04x", r)
		}
	}
	sb.WriteByte('"')
	return sb.String()
}

type c13Filter struct {
	expr string // filter in substitution syntax
}

// c13ParseFilters reads the filters of a c13.subst case and renders them; for `re` it checks the
// oracle against the library.
func c13ParseFilters(t *hx.Toks, n int, src func() []byte) (exprs []string, status string) {
	for i := 0; i < n; i++ {
		switch t.Next() {
		case "cut":
			mode := t.Next()
			cnt := t.Int()
			exprs = append(exprs, fmt.Sprintf(`cut("%s",%d)`, mode, cnt))
		case "trimto":
			mode := t.Next()
			cs := t.Bytes()
			exprs = append(exprs, fmt.Sprintf(`trim_to("%s",%s)`, mode, c13Lit(string(cs))))
		case "trim":
			mode := t.Next()
			cs := t.Bytes()
			exprs = append(exprs, fmt.Sprintf(`trim("%s",%s)`, mode, c13Lit(string(cs))))
		case "re":
			if i != 0 {
				return nil, "bad-case"
			}
			limit := t.Int()
			sep := t.Bytes()
			eonm := t.Bool()
			ng := t.Int()
			groups := make([]string, 0, ng)
			for j := 0; j < ng && t.Err == nil; j++ {
				groups = append(groups, strconv.Itoa(t.Int()))
			}
			reS := string(t.Bytes())
			nsub := t.Int()
			nm := t.Int()
			if t.Err != nil || nm < 0 || nm > 1<<20 || nsub < 0 || nsub > 1000 {
				return nil, "bad-case"
			}
			var oracle [][]int
			for j := 0; j < nm && t.Err == nil; j++ {
				row := make([]int, 2*(nsub+1))
				for k := range row {
					row[k] = t.Int()
				}
				oracle = append(oracle, row)
			}
			if t.Err != nil {
				return nil, "bad-case"
			}
			re, err := regexp.Compile(reS)
			if err != nil {
				return nil, "cfg-rejected"
			}
			got := re.FindAllSubmatchIndex(src(), limit)
			if re.NumSubexp() != nsub || len(got) != len(oracle) {
				return nil, "bad-oracle"
			}
			for j := range got {
				for k := range got[j] {
					if got[j][k] != oracle[j][k] {
						return nil, "bad-oracle"
					}
				}
			}
			exprs = append(exprs, fmt.Sprintf(`re(%s,%d,[%s],%s,%v)`, c13Lit(reS), limit, strings.Join(groups, ","), c13Lit(string(sep)), eonm))
		default:
			return nil, "bad-case"
		}
		if t.Err != nil {
			return nil, "bad-case"
		}
	}
	return exprs, ""
}

func c13RunOne(plugin string, cfgJSON []byte, ev *jt.Tree, read func(root *insaneJSON.Root) string) string {
	inst, ok := c13Start(plugin, cfgJSON, c13PS{})
	if !ok {
		return "cfg-rejected"
	}
	defer inst.stop()
	e := &pipeline.Event{Root: insaneJSON.Spawn(), SourceName: "src"}
	text := ev.JSON()
	e.Size = len(text)
	if err := e.Root.DecodeBytes(text); err != nil {
		return "bad-case"
	}
	_, st := inst.do(e)
	if st != "" {
		// panic:<kind>@site → panic:<kind> (the model's token)
		if i := strings.Index(st, "@"); i >= 0 {
			st = st[:i]
		}
		return st
	}
	return read(e.Root)
}

func c13SubstDirect(t *hx.Toks) string {
	n := t.Int()
	if t.Err != nil || n < 0 || n > 64 {
		return "bad-case"
	}
	// the source is the last token
	if len(t.T) == 0 {
		return "bad-case"
	}
	srcB, err := hx.Dec(t.T[len(t.T)-1])
	if err != nil {
		return "bad-case"
	}
	exprs, st := c13ParseFilters(t, n, func() []byte { return srcB })
	if st != "" {
		return st
	}
	_ = t.Bytes() // src
	if t.Err != nil || !t.Done() {
		return "bad-case"
	}
	expr := "${in"
	for _, e := range exprs {
		expr += "|" + e
	}
	expr += "}"
	cfgJSON, _ := json.Marshal(map[string]string{"out": expr})
	ev := jt.O(jt.KV{K: []byte("in"), V: &jt.Tree{Kind: jt.Str, Raw: srcB}})
	return c13RunOne("modify", cfgJSON, ev, func(root *insaneJSON.Root) string {
		node := root.Dig("out")
		if node == nil {
			return "no-out"
		}
		return "ok " + hx.Enc([]byte(node.AsString()))
	})
}

func c13Utf8Direct(t *hx.Toks) string {
	n := t.Int()
	if t.Err != nil || n < 1 || n > 16 {
		return "bad-case"
	}
	ev := jt.O()
	fields := make([]string, n)
	for i := 0; i < n; i++ {
		b := t.Bytes()
		fields[i] = "f" + strconv.Itoa(i)
		ev.Obj = append(ev.Obj, jt.KV{K: []byte(fields[i]), V: &jt.Tree{Kind: jt.Str, Raw: b}})
	}
	if t.Err != nil || !t.Done() {
		return "bad-case"
	}
	cfgJSON, _ := json.Marshal(map[string]any{"fields": fields})
	return c13RunOne("convert_utf8_bytes", cfgJSON, ev, func(root *insaneJSON.Root) string {
		var sb strings.Builder
		sb.WriteString("ok")
		for _, f := range fields {
			sb.WriteString(" " + hx.Enc([]byte(root.Dig(f).AsString())))
		}
		return sb.String()
	})
}

var c13TokNames = []string{"curly_bracketed", "square_bracketed", "parenthesized", "double_quoted", "single_quoted", "grave_quoted"}

var c13TokCache = map[int]normalize.Normalizer{}

func c13TokDirect(t *hx.Toks) (res string) {
	mask := t.Int()
	data := t.Bytes()
	if t.Err != nil || !t.Done() || mask < 1 || mask > 63 {
		return "bad-case"
	}
	n, ok := c13TokCache[mask]
	if !ok {
		var names []string
		for i, nm := range c13TokNames {
			if mask&(1<<i) != 0 {
				names = append(names, nm)
			}
		}
		var err error
		n, err = normalize.NewTokenNormalizer(normalize.TokenNormalizerParams{BuiltinPatterns: strings.Join(names, "|")})
		if err != nil || n == nil {
			return "cfg-rejected"
		}
		c13TokCache[mask] = n
	}
	defer func() {
		if r := recover(); r != nil {
			res = "panic:" + c13PanicKind(r)
		}
	}()
	out := n.Normalize(nil, data)
	return "ok " + hx.Enc(out)
}

func c13Selector(path [][]byte) string {
	parts := make([]string, len(path))
	for i, p := range path {
		parts[i] = strings.ReplaceAll(string(p), ".", `\.`)
	}
	return strings.Join(parts, ".")
}

func c13ReadPath(t *hx.Toks) [][]byte {
	n := t.Int()
	if t.Err != nil || n < 0 || n > 64 {
		return nil
	}
	out := make([][]byte, 0, n)
	for i := 0; i < n; i++ {
		out = append(out, t.Bytes())
	}
	return out
}

// c13TreeResult: what a consumer of the event sees: Encode, re-decode, token form
func c13TreeResult(root *insaneJSON.Root) string {
	out, st := c13Encode(root.Node)
	if st != "ok" {
		return st
	}
	r, err := insaneJSON.DecodeBytes(out)
	if err != nil {
		return "badjson:insane"
	}
	defer insaneJSON.Release(r)
	return "ok " + jt.FromNode(r.Node).Tok()
}

func c13RenameDirect(t *hx.Toks) string {
	preserve := t.Bool()
	n := t.Int()
	if t.Err != nil || n < 0 || n > 64 {
		return "bad-case"
	}
	var sb strings.Builder
	fmt.Fprintf(&sb, `{"override":"%v"`, !preserve)
	for i := 0; i < n; i++ {
		path := c13ReadPath(t)
		name := t.Bytes()
		if t.Err != nil {
			return "bad-case"
		}
		k, _ := json.Marshal(c13Selector(path))
		v, _ := json.Marshal(string(name))
		sb.WriteString(",")
		sb.Write(k)
		sb.WriteString(":")
		sb.Write(v)
	}
	sb.WriteString("}")
	ev := jt.Parse(t)
	if t.Err != nil || !t.Done() {
		return "bad-case"
	}
	return c13RunOne("rename", []byte(sb.String()), ev, c13TreeResult)
}

func c13MoveDirect(t *hx.Toks) string {
	mode := t.Next()
	cfg := map[string]any{"mode": mode}
	switch mode {
	case "allow":
		cfg["target"] = c13Selector(c13ReadPath(t))
		nf := t.Int()
		fields := make([]string, 0)
		for i := 0; i < nf && t.Err == nil; i++ {
			fields = append(fields, c13Selector(c13ReadPath(t)))
		}
		cfg["fields"] = fields
	case "block":
		cfg["target"] = c13Selector([][]byte{t.Bytes()})
		nb := t.Int()
		fields := make([]string, 0)
		for i := 0; i < nb && t.Err == nil; i++ {
			fields = append(fields, c13Selector([][]byte{t.Bytes()}))
		}
		cfg["fields"] = fields
	default:
		return "bad-case"
	}
	ev := jt.Parse(t)
	if t.Err != nil || !t.Done() {
		return "bad-case"
	}
	cfgJSON, _ := json.Marshal(cfg)
	return c13RunOne("move", cfgJSON, ev, c13TreeResult)
}

// ---------------------------------------------------------------- generators

func c13AllStrings(alpha []string, maxLen int, f func(s string)) {
	var rec func(cur string, n int)
	rec = func(cur string, n int) {
		f(cur)
		if n == 0 {
			return
		}
		for _, a := range alpha {
			rec(cur+a, n-1)
		}
	}
	rec("", maxLen)
}

func c13ReTok(reS string, limit int, groups []int, sep string, eonm bool, src []byte) (string, bool) {
	re, err := regexp.Compile(reS)
	if err != nil {
		return "", false
	}
	ms := re.FindAllSubmatchIndex(src, limit)
	var sb strings.Builder
	fmt.Fprintf(&sb, "re %d %s %s %d", limit, hx.Enc([]byte(sep)), hx.B(eonm), len(groups))
	for _, g := range groups {
		fmt.Fprintf(&sb, " %d", g)
	}
	fmt.Fprintf(&sb, " %s %d %d", hx.Enc([]byte(reS)), re.NumSubexp(), len(ms))
	for _, m := range ms {
		for _, x := range m {
			fmt.Fprintf(&sb, " %d", x)
		}
	}
	return sb.String(), true
}

func genC13Cores(w *bufio.Writer, rng *hx.Rng, tier string) {
	full := tier == "thorough"
	modes := []string{"all", "left", "right"}

	// ---- substitution filters, exhaustive small scope
	maxLen := 4
	if full {
		maxLen = 6
	}
	var small []string
	c13AllStrings([]string{"a", "b"}, maxLen, func(s string) { small = append(small, s) })
	for _, src := range small {
		for cnt := 1; cnt <= 3; cnt++ {
			fmt.Fprintf(w, "c13.subst 1 cut first %d %s\n", cnt, hx.Enc([]byte(src)))
			fmt.Fprintf(w, "c13.subst 1 cut last %d %s\n", cnt, hx.Enc([]byte(src)))
		}
		for _, mode := range modes {
			for _, cs := range []string{"", "a", "ab", "b", "aa", "aba"} {
				fmt.Fprintf(w, "c13.subst 1 trimto %s %s %s\n", mode, hx.Enc([]byte(cs)), hx.Enc([]byte(src)))
			}
			for _, cs := range []string{"", "a", "ab"} {
				fmt.Fprintf(w, "c13.subst 1 trim %s %s %s\n", mode, hx.Enc([]byte(cs)), hx.Enc([]byte(src)))
			}
		}
	}
	// regex filter: every group subset / order of small regexps, limits, separators
	type reCase struct {
		re     string
		groups [][]int
	}
	reCases := []reCase{
		{`(a)|(b)`, [][]int{{1}, {2}, {1, 2}, {2, 1}, {0}}},
		{`((a)b)?`, [][]int{{1, 2}, {2, 1}, {2}, {0}}},
		{`(a*)`, [][]int{{0}, {1}}},
		{`(a)(b)?`, [][]int{{2}, {1, 2}, {2, 1}, {}}},
		{`()`, [][]int{{0}, {1}}},
	}
	for _, rc := range reCases {
		for _, gs := range rc.groups {
			for _, limit := range []int{-1, 0, 1, 2} {
				for si, sep := range []string{",", ""} {
					for _, src := range small {
						if !full && (len(src)+limit+si)%2 == 0 {
							continue
						}
						tok, ok := c13ReTok(rc.re, limit, gs, sep, (len(src)+limit)%2 == 0, []byte(src))
						if ok {
							fmt.Fprintf(w, "c13.subst 1 %s %s\n", tok, hx.Enc([]byte(src)))
						}
					}
				}
			}
		}
	}
	// random chains on longer values (cap-sensitive lengths 7, 8, 9, 15, 16, 17 … included)
	nrand := 1500
	if full {
		nrand = 60000
	}
	wide := []byte("ab{}\"\\ \n,x1я\xff")
	cutsets := []string{"", "a", "{", "}", "\"", "ab", "x1", " ", "\n", "я"}
	asciiSets := []string{"", "a", " \n", "ab", "{}", "x", "\"\\"}
	res := []string{`(a)|(b)`, `(\w+)`, `(x)(1)?`, `([^ ]*) ?`, `(.)`, `(я+)`, `(\{)([^}]*)(\})`}
	for i := 0; i < nrand; i++ {
		n := []int{0, 1, 2, 3, 5, 7, 8, 9, 15, 16, 17, 24, 31, 32, 33, 48, 64, 100}[rng.Intn(18)]
		src := rng.Bytes(n, wide)
		nf := rng.Range(1, 4)
		var toks []string
		for j := 0; j < nf; j++ {
			k := rng.Intn(4)
			if j == 0 && rng.Chance(1, 3) {
				k = 4
			}
			switch k {
			case 0:
				toks = append(toks, fmt.Sprintf("cut %s %d", []string{"first", "last"}[rng.Intn(2)], rng.Range(1, 20)))
			case 1, 2:
				toks = append(toks, fmt.Sprintf("trimto %s %s", modes[rng.Intn(3)], hx.Enc([]byte(cutsets[rng.Intn(len(cutsets))]))))
			case 3:
				toks = append(toks, fmt.Sprintf("trim %s %s", modes[rng.Intn(3)], hx.Enc([]byte(asciiSets[rng.Intn(len(asciiSets))]))))
			case 4:
				reS := res[rng.Intn(len(res))]
				re := regexp.MustCompile(reS)
				var gs []int
				perm := []int{0, 1, 2, 3}
				for _, g := range perm[:rng.Range(0, re.NumSubexp())] {
					if g <= re.NumSubexp() {
						gs = append(gs, g)
					}
				}
				if rng.Bool() && len(gs) > 1 {
					gs[0], gs[len(gs)-1] = gs[len(gs)-1], gs[0]
				}
				tok, _ := c13ReTok(reS, rng.Range(-1, 3), gs, []string{",", "", "--"}[rng.Intn(3)], rng.Bool(), src)
				toks = append(toks, tok)
			}
		}
		fmt.Fprintf(w, "c13.subst %d %s %s\n", nf, strings.Join(toks, " "), hx.Enc(src))
	}

	// ---- hash normalizer tokenizer: every string over quotes / brackets / backslash, every mask on short ones
	tlen := 6
	if full {
		tlen = 7
	}
	c13AllStrings([]string{"\"", "{", "}", "\\", "a"}, tlen, func(s string) {
		for _, mask := range []int{63, 8, 1, 9} {
			if len(s) > 4 && mask != 63 && !full {
				continue
			}
			fmt.Fprintf(w, "c13.tok %d %s\n", mask, hx.Enc([]byte(s)))
		}
	})
	tokAlpha := []string{"\"", "'", "`", "{", "}", "[", "]", "(", ")", "\\", "a", " ", "\"\"", "''", "\xff"}
	ntok := 4000
	if full {
		ntok = 100000
	}
	for i := 0; i < ntok; i++ {
		var sb strings.Builder
		for k := rng.Range(0, 14); k > 0; k-- {
			sb.WriteString(tokAlpha[rng.Intn(len(tokAlpha))])
		}
		fmt.Fprintf(w, "c13.tok %d %s\n", rng.Range(1, 63), hx.Enc([]byte(sb.String())))
	}

	// ---- rename / move over trees with unique keys from a small pool
	keys := []string{"a", "b", "c", "d", "t"}
	pathTok := func(p []string) string {
		var sb strings.Builder
		fmt.Fprintf(&sb, "%d", len(p))
		for _, k := range p {
			sb.WriteString(" " + hx.Enc([]byte(k)))
		}
		return sb.String()
	}
	randPath := func(maxLen int) []string {
		n := rng.Range(1, maxLen)
		p := make([]string, n)
		for i := range p {
			p[i] = keys[rng.Intn(len(keys))]
		}
		return p
	}
	nf := 2500
	if full {
		nf = 60000
	}
	treeCfg := jt.GenCfg{MaxDepth: 3, MaxWidth: 5, Keys: keys, UniqueKeys: true, Strings: []string{"x", "", "v w"}}
	for i := 0; i < nf; i++ {
		var root *jt.Tree
		switch {
		case rng.Chance(1, 12):
			root = jt.GenValue(rng, treeCfg)
		case rng.Chance(1, 6):
			// wide root (insane-json keeps a key map for objects above its threshold)
			root = jt.GenObj(rng, treeCfg)
			for k := 0; k < 20; k++ {
				root.Obj = append(root.Obj, jt.F(fmt.Sprintf("w%d", k), jt.Nu(fmt.Sprint(k))))
			}
		default:
			root = jt.GenObj(rng, treeCfg)
		}
		switch rng.Intn(3) {
		case 0:
			n := rng.Range(1, 3)
			fmt.Fprintf(w, "c13.rename %s %d", hx.B(rng.Bool()), n)
			for j := 0; j < n; j++ {
				fmt.Fprintf(w, " %s %s", pathTok(randPath(3)), hx.Enc([]byte(keys[rng.Intn(len(keys))])))
			}
			fmt.Fprintf(w, " %s\n", root.Tok())
		case 1:
			n := rng.Range(0, 3)
			fmt.Fprintf(w, "c13.move allow %s %d", pathTok(randPath(3)), n)
			for j := 0; j < n; j++ {
				fmt.Fprintf(w, " %s", pathTok(randPath(3)))
			}
			fmt.Fprintf(w, " %s\n", root.Tok())
		default:
			n := rng.Range(0, 3)
			fmt.Fprintf(w, "c13.move block %s %d", hx.Enc([]byte(keys[rng.Intn(len(keys))])), n)
			for j := 0; j < n; j++ {
				fmt.Fprintf(w, " %s", hx.Enc([]byte(keys[rng.Intn(len(keys))])))
			}
			fmt.Fprintf(w, " %s\n", root.Tok())
		}
	}

	// ---- convert_utf8_bytes: every string over the scanner's alphabet, then escape-rich random ones
	ulen := 5
	if full {
		ulen = 6
	}
	c13AllStrings([]string{"\\", "u", "x", "0", "d", "8"}, ulen, func(s string) {
		fmt.Fprintf(w, "c13.utf8 1 %s\n", hx.Enc([]byte(s)))
	})
	for _, sq := range c13Pools["utf8esc"] {
		fmt.Fprintf(w, "c13.utf8 1 %s\n", hx.Enc([]byte(sq)))
	}
	pieces := []string{"\\", "\\\\", "\\u", "\\U", "\\x", "u", "x", "0041", "d801", "dc01", "D83D", "DE00", "00e9", "zz", "41", "4", "f", "g", "110", "377", "400", "8", "0001F600", "0011FFFF", "FFFFFFFF", "0000d800", "+123", "я", "\xff", " ", "a"}
	nu := 3000
	if full {
		nu = 80000
	}
	for i := 0; i < nu; i++ {
		nfields := 1
		if rng.Chance(1, 4) {
			nfields = rng.Range(2, 3)
		}
		fmt.Fprintf(w, "c13.utf8 %d", nfields)
		for f := 0; f < nfields; f++ {
			var sb strings.Builder
			for k := rng.Range(0, 8); k > 0; k-- {
				sb.WriteString(pieces[rng.Intn(len(pieces))])
			}
			fmt.Fprintf(w, " %s", hx.Enc([]byte(sb.String())))
		}
		w.WriteByte('\n')
	}
}
