package main

import (
	"bufio"

	"verifharness/internal/hx"
)

func genC13Cores(w *bufio.Writer, rng *hx.Rng, tier string) {}
