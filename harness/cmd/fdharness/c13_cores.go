package main

// C13, modelled cores (diffed against fdmodel): the real plugin is run through its public path
// (GetConfig + Start + Do), the value it leaves in the event is the implementation result.
//
//   c13.subst <nf> <filter>… <src hex>          modify with {"out": "${in|f1|…|fn}"} on {"in": src}
//        filter: cut first|last <n> | trimto all|left|right <cutset hex> | trim all|left|right <ascii cutset hex>
//              | re <limit> <sep hex> <0|1> <ng> <g>… <re hex> <nsub> <nm> (<2(nsub+1) ints>)…    (first filter only)
//        the `re` tokens carry regexp.FindAllSubmatchIndex(src, limit) as the model's oracle;
//        exec recomputes it and answers bad-oracle when the line is stale
//   c13.utf8 <n> <src hex>×n                      convert_utf8_bytes with fields f0…f(n-1) on one event
//   result: ok <hex>… | panic:<kind> | cfg-rejected

import (
	"bufio"
	"encoding/json"
	"fmt"
	"regexp"
	"strconv"
	"strings"

	"github.com/ozontech/file.d/pipeline"
	insaneJSON "github.com/ozontech/insane-json"

	"verifharness/internal/hx"
	"verifharness/internal/jt"
)

func init() {
	execs["c13.subst"] = c13Isolated("c13.subst", c13SubstDirect)
	execs["c13.utf8"] = c13Isolated("c13.utf8", c13Utf8Direct)
}

// c13Lit renders s as a JSON string literal that survives the substitution argument parser:
// everything but plain letters, digits and a few harmless signs is written as \u00XX.
func c13Lit(s string) string {
	var sb strings.Builder
	sb.WriteByte('"')
	for _, r := range s {
		switch {
		case r >= 0x80:
			sb.WriteRune(r)
		case r >= 'a' && r <= 'z', r >= 'A' && r <= 'Z', r >= '0' && r <= '9', r == ' ', r == '_', r == '-', r == '.', r == ':', r == '!', r == '*', r == '+', r == '^', r == '?':
			sb.WriteRune(r)
		default:
			fmt.Fprintf(&sb, "\\u%04x", r)
		}
	}
	sb.WriteByte('"')
	return sb.String()
}

type c13Filter struct {
	expr string // filter in substitution syntax
}

// c13ParseFilters reads the filters of a c13.subst case and renders them; for `re` it checks the
// oracle against the library.
func c13ParseFilters(t *hx.Toks, n int, src func() []byte) (exprs []string, status string) {
	for i := 0; i < n; i++ {
		switch t.Next() {
		case "cut":
			mode := t.Next()
			cnt := t.Int()
			exprs = append(exprs, fmt.Sprintf(`cut("%s",%d)`, mode, cnt))
		case "trimto":
			mode := t.Next()
			cs := t.Bytes()
			exprs = append(exprs, fmt.Sprintf(`trim_to("%s",%s)`, mode, c13Lit(string(cs))))
		case "trim":
			mode := t.Next()
			cs := t.Bytes()
			exprs = append(exprs, fmt.Sprintf(`trim("%s",%s)`, mode, c13Lit(string(cs))))
		case "re":
			if i != 0 {
				return nil, "bad-case"
			}
			limit := t.Int()
			sep := t.Bytes()
			eonm := t.Bool()
			ng := t.Int()
			groups := make([]string, 0, ng)
			for j := 0; j < ng && t.Err == nil; j++ {
				groups = append(groups, strconv.Itoa(t.Int()))
			}
			reS := string(t.Bytes())
			nsub := t.Int()
			nm := t.Int()
			if t.Err != nil || nm < 0 || nm > 1<<20 || nsub < 0 || nsub > 1000 {
				return nil, "bad-case"
			}
			var oracle [][]int
			for j := 0; j < nm && t.Err == nil; j++ {
				row := make([]int, 2*(nsub+1))
				for k := range row {
					row[k] = t.Int()
				}
				oracle = append(oracle, row)
			}
			if t.Err != nil {
				return nil, "bad-case"
			}
			re, err := regexp.Compile(reS)
			if err != nil {
				return nil, "cfg-rejected"
			}
			got := re.FindAllSubmatchIndex(src(), limit)
			if re.NumSubexp() != nsub || len(got) != len(oracle) {
				return nil, "bad-oracle"
			}
			for j := range got {
				for k := range got[j] {
					if got[j][k] != oracle[j][k] {
						return nil, "bad-oracle"
					}
				}
			}
			exprs = append(exprs, fmt.Sprintf(`re(%s,%d,[%s],%s,%v)`, c13Lit(reS), limit, strings.Join(groups, ","), c13Lit(string(sep)), eonm))
		default:
			return nil, "bad-case"
		}
		if t.Err != nil {
			return nil, "bad-case"
		}
	}
	return exprs, ""
}

func c13RunOne(plugin string, cfgJSON []byte, ev *jt.Tree, read func(root *insaneJSON.Root) string) string {
	inst, ok := c13Start(plugin, cfgJSON, c13PS{})
	if !ok {
		return "cfg-rejected"
	}
	defer inst.stop()
	e := &pipeline.Event{Root: insaneJSON.Spawn(), SourceName: "src"}
	text := ev.JSON()
	e.Size = len(text)
	if err := e.Root.DecodeBytes(text); err != nil {
		return "bad-case"
	}
	_, st := inst.do(e)
	if st != "" {
		// panic:<kind>@site → panic:<kind> (the model's token)
		if i := strings.Index(st, "@"); i >= 0 {
			st = st[:i]
		}
		return st
	}
	return read(e.Root)
}

func c13SubstDirect(t *hx.Toks) string {
	n := t.Int()
	if t.Err != nil || n < 0 || n > 64 {
		return "bad-case"
	}
	// the source is the last token
	if len(t.T) == 0 {
		return "bad-case"
	}
	srcB, err := hx.Dec(t.T[len(t.T)-1])
	if err != nil {
		return "bad-case"
	}
	exprs, st := c13ParseFilters(t, n, func() []byte { return srcB })
	if st != "" {
		return st
	}
	_ = t.Bytes() // src
	if t.Err != nil || !t.Done() {
		return "bad-case"
	}
	expr := "${in"
	for _, e := range exprs {
		expr += "|" + e
	}
	expr += "}"
	cfgJSON, _ := json.Marshal(map[string]string{"out": expr})
	ev := jt.O(jt.KV{K: []byte("in"), V: &jt.Tree{Kind: jt.Str, Raw: srcB}})
	return c13RunOne("modify", cfgJSON, ev, func(root *insaneJSON.Root) string {
		node := root.Dig("out")
		if node == nil {
			return "no-out"
		}
		return "ok " + hx.Enc([]byte(node.AsString()))
	})
}

func c13Utf8Direct(t *hx.Toks) string {
	n := t.Int()
	if t.Err != nil || n < 1 || n > 16 {
		return "bad-case"
	}
	ev := jt.O()
	fields := make([]string, n)
	for i := 0; i < n; i++ {
		b := t.Bytes()
		fields[i] = "f" + strconv.Itoa(i)
		ev.Obj = append(ev.Obj, jt.KV{K: []byte(fields[i]), V: &jt.Tree{Kind: jt.Str, Raw: b}})
	}
	if t.Err != nil || !t.Done() {
		return "bad-case"
	}
	cfgJSON, _ := json.Marshal(map[string]any{"fields": fields})
	return c13RunOne("convert_utf8_bytes", cfgJSON, ev, func(root *insaneJSON.Root) string {
		var sb strings.Builder
		sb.WriteString("ok")
		for _, f := range fields {
			sb.WriteString(" " + hx.Enc([]byte(root.Dig(f).AsString())))
		}
		return sb.String()
	})
}

// ---------------------------------------------------------------- generators

func c13AllStrings(alpha []string, maxLen int, f func(s string)) {
	var rec func(cur string, n int)
	rec = func(cur string, n int) {
		f(cur)
		if n == 0 {
			return
		}
		for _, a := range alpha {
			rec(cur+a, n-1)
		}
	}
	rec("", maxLen)
}

func c13ReTok(reS string, limit int, groups []int, sep string, eonm bool, src []byte) (string, bool) {
	re, err := regexp.Compile(reS)
	if err != nil {
		return "", false
	}
	ms := re.FindAllSubmatchIndex(src, limit)
	var sb strings.Builder
	fmt.Fprintf(&sb, "re %d %s %s %d", limit, hx.Enc([]byte(sep)), hx.B(eonm), len(groups))
	for _, g := range groups {
		fmt.Fprintf(&sb, " %d", g)
	}
	fmt.Fprintf(&sb, " %s %d %d", hx.Enc([]byte(reS)), re.NumSubexp(), len(ms))
	for _, m := range ms {
		for _, x := range m {
			fmt.Fprintf(&sb, " %d", x)
		}
	}
	return sb.String(), true
}

func genC13Cores(w *bufio.Writer, rng *hx.Rng, tier string) {
	full := tier == "thorough"
	modes := []string{"all", "left", "right"}

	// ---- substitution filters, exhaustive small scope
	maxLen := 4
	if full {
		maxLen = 6
	}
	var small []string
	c13AllStrings([]string{"a", "b"}, maxLen, func(s string) { small = append(small, s) })
	for _, src := range small {
		for cnt := 1; cnt <= 3; cnt++ {
			fmt.Fprintf(w, "c13.subst 1 cut first %d %s\n", cnt, hx.Enc([]byte(src)))
			fmt.Fprintf(w, "c13.subst 1 cut last %d %s\n", cnt, hx.Enc([]byte(src)))
		}
		for _, mode := range modes {
			for _, cs := range []string{"", "a", "ab", "b", "aa", "aba"} {
				fmt.Fprintf(w, "c13.subst 1 trimto %s %s %s\n", mode, hx.Enc([]byte(cs)), hx.Enc([]byte(src)))
			}
			for _, cs := range []string{"", "a", "ab"} {
				fmt.Fprintf(w, "c13.subst 1 trim %s %s %s\n", mode, hx.Enc([]byte(cs)), hx.Enc([]byte(src)))
			}
		}
	}
	// regex filter: every group subset / order of small regexps, limits, separators
	type reCase struct {
		re     string
		groups [][]int
	}
	reCases := []reCase{
		{`(a)|(b)`, [][]int{{1}, {2}, {1, 2}, {2, 1}, {0}}},
		{`((a)b)?`, [][]int{{1, 2}, {2, 1}, {2}, {0}}},
		{`(a*)`, [][]int{{0}, {1}}},
		{`(a)(b)?`, [][]int{{2}, {1, 2}, {2, 1}, {}}},
		{`()`, [][]int{{0}, {1}}},
	}
	for _, rc := range reCases {
		for _, gs := range rc.groups {
			for _, limit := range []int{-1, 0, 1, 2} {
				for si, sep := range []string{",", ""} {
					for _, src := range small {
						if !full && (len(src)+limit+si)%2 == 0 {
							continue
						}
						tok, ok := c13ReTok(rc.re, limit, gs, sep, (len(src)+limit)%2 == 0, []byte(src))
						if ok {
							fmt.Fprintf(w, "c13.subst 1 %s %s\n", tok, hx.Enc([]byte(src)))
						}
					}
				}
			}
		}
	}
	// random chains on longer values (cap-sensitive lengths 7, 8, 9, 15, 16, 17 … included)
	nrand := 1500
	if full {
		nrand = 60000
	}
	wide := []byte("ab{}\"\\ \n,x1я\xff")
	cutsets := []string{"", "a", "{", "}", "\"", "ab", "x1", " ", "\n", "я"}
	asciiSets := []string{"", "a", " \n", "ab", "{}", "x", "\"\\"}
	res := []string{`(a)|(b)`, `(\w+)`, `(x)(1)?`, `([^ ]*) ?`, `(.)`, `(я+)`, `(\{)([^}]*)(\})`}
	for i := 0; i < nrand; i++ {
		n := []int{0, 1, 2, 3, 5, 7, 8, 9, 15, 16, 17, 24, 31, 32, 33, 48, 64, 100}[rng.Intn(18)]
		src := rng.Bytes(n, wide)
		nf := rng.Range(1, 4)
		var toks []string
		for j := 0; j < nf; j++ {
			k := rng.Intn(4)
			if j == 0 && rng.Chance(1, 3) {
				k = 4
			}
			switch k {
			case 0:
				toks = append(toks, fmt.Sprintf("cut %s %d", []string{"first", "last"}[rng.Intn(2)], rng.Range(1, 20)))
			case 1, 2:
				toks = append(toks, fmt.Sprintf("trimto %s %s", modes[rng.Intn(3)], hx.Enc([]byte(cutsets[rng.Intn(len(cutsets))]))))
			case 3:
				toks = append(toks, fmt.Sprintf("trim %s %s", modes[rng.Intn(3)], hx.Enc([]byte(asciiSets[rng.Intn(len(asciiSets))]))))
			case 4:
				reS := res[rng.Intn(len(res))]
				re := regexp.MustCompile(reS)
				var gs []int
				perm := []int{0, 1, 2, 3}
				for _, g := range perm[:rng.Range(0, re.NumSubexp())] {
					if g <= re.NumSubexp() {
						gs = append(gs, g)
					}
				}
				if rng.Bool() && len(gs) > 1 {
					gs[0], gs[len(gs)-1] = gs[len(gs)-1], gs[0]
				}
				tok, _ := c13ReTok(reS, rng.Range(-1, 3), gs, []string{",", "", "--"}[rng.Intn(3)], rng.Bool(), src)
				toks = append(toks, tok)
			}
		}
		fmt.Fprintf(w, "c13.subst %d %s %s\n", nf, strings.Join(toks, " "), hx.Enc(src))
	}

	// ---- convert_utf8_bytes: every string over the scanner's alphabet, then escape-rich random ones
	ulen := 5
	if full {
		ulen = 6
	}
	c13AllStrings([]string{"\\", "u", "x", "0", "d", "8"}, ulen, func(s string) {
		fmt.Fprintf(w, "c13.utf8 1 %s\n", hx.Enc([]byte(s)))
	})
	pieces := []string{"\\", "\\\\", "\\u", "\\U", "\\x", "u", "x", "0041", "d801", "dc01", "D83D", "DE00", "00e9", "zz", "41", "4", "f", "g", "110", "377", "400", "8", "0001F600", "0011FFFF", "FFFFFFFF", "0000d800", "+123", "я", "\xff", " ", "a"}
	nu := 3000
	if full {
		nu = 80000
	}
	for i := 0; i < nu; i++ {
		nfields := 1
		if rng.Chance(1, 4) {
			nfields = rng.Range(2, 3)
		}
		fmt.Fprintf(w, "c13.utf8 %d", nfields)
		for f := 0; f < nfields; f++ {
			var sb strings.Builder
			for k := rng.Range(0, 8); k > 0; k-- {
				sb.WriteString(pieces[rng.Intn(len(pieces))])
			}
			fmt.Fprintf(w, " %s", hx.Enc([]byte(sb.String())))
		}
		w.WriteByte('\n')
	}
}
