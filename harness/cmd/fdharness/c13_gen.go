package main

// C13 generators: a small configuration grammar per action plugin (every documented option is
// covered by the systematic list; random combinations follow), and event sequences aimed at the
// fields the configuration names: adversarial values of every JSON kind, plugin-specific
// strings, raw JSON texts with escapes, time-out events for the plugins that can get them.
// A generated configuration is kept only if the plugin's own validation accepts it (the real
// GetConfig + Start is run on it at generation time).

import (
	"bufio"
	"encoding/json"
	"fmt"
	"sort"
	"strings"

	"github.com/ozontech/file.d/cfg"

	"verifharness/internal/hx"
	"verifharness/internal/jt"
)

func init() {
	gens["C13"] = genC13
}

type c13Cfg struct {
	plugin string
	js     map[string]any
	raw    string   // when set, used instead of js (key order matters for rename)
	paths  []string // selectors at which interesting values are injected
	ps     c13PS
	pool   []string // plugin-specific string pool id list
}

func (c c13Cfg) jsonBytes() []byte {
	if c.raw != "" {
		return []byte(c.raw)
	}
	if c.js == nil {
		return []byte("{}")
	}
	b, err := json.Marshal(c.js)
	if err != nil {
		panic(err)
	}
	return b
}

type m = map[string]any

// ---------------------------------------------------------------- value pools

var c13Sel = []string{"a", "b", "c", "level", "msg", "ts", "k\\.dot", "ключ", "a.b", "a.b.c", "c.d", "x.y", "log", "message", "time"}

func c13LongStr(n int, unit string) string { return strings.Repeat(unit, n) }

// generic adversarial values (every JSON kind, empty, long, control bytes, invalid UTF-8, nesting)
func c13GenericValues() []*jt.Tree {
	deep := jt.S("leaf")
	for i := 0; i < 40; i++ {
		if i%2 == 0 {
			deep = jt.O(jt.F("a", deep))
		} else {
			deep = jt.A(deep)
		}
	}
	return []*jt.Tree{
		jt.N(), jt.Bo(true), jt.Bo(false),
		jt.Nu("0"), jt.Nu("-1"), jt.Nu("1"), jt.Nu("12"), jt.Nu("123"), jt.Nu("3.14"), jt.Nu("1e5"), jt.Nu("-0"), jt.Nu("1E+400"),
		jt.Nu("123456789012345678901234567890"), jt.Nu("9223372036854775807"), jt.Nu("-9223372036854775808"), jt.Nu("18446744073709551616"),
		jt.S(""), jt.S("x"), jt.S("ab"), jt.S("abc"), jt.S(" "), jt.S("\n"), jt.S("a\n"), jt.S("\\"), jt.S("\\n"), jt.S("\""), jt.S("a\"b\\c/d"),
		jt.S("\x00"), jt.S("\x1f\x7f"), jt.S("tab\there"), jt.S("юникод"), jt.S("日本語テキスト"), jt.S("\xff"), jt.S("\xff\xfe\xfd"), jt.S("ab\xc3"), jt.S("\xed\xa0\x80"),
		jt.S(c13LongStr(300, "a")), jt.S(c13LongStr(120, "я")), jt.S(c13LongStr(33, "\xff")),
		jt.S("null"), jt.S("true"), jt.S("0"), jt.S("-1"), jt.S("{}"), jt.S("[]"),
		jt.A(), jt.A(jt.Nu("1"), jt.S("a"), jt.O(), jt.N()), jt.A(jt.O(jt.F("a", jt.Nu("1"))), jt.O(jt.F("b", jt.S("x")))),
		jt.O(), jt.O(jt.F("n", jt.O(jt.F("m", jt.Nu("1"))))), jt.O(jt.F("a", jt.S("1")), jt.F("a", jt.S("2"))), jt.O(jt.F("", jt.S(""))),
		deep,
	}
}

var c13Pools = map[string][]string{
	"time": {
		"2023-10-30T13:35:33.638720813Z", "2023-10-30T13:35:33Z", "2023-10-30T13:35:33+03:00", "1698672933", "1698672933.123", "1698672933.",
		".5", "1.2.3", "99999999999999999999", "-1", "-1.5", "1.-5", "1.99999999999999999999", "Mon Jan  2 15:04:05 2006", "2006/01/02 15:04:05",
		"0000-00-00T00:00:00Z", "9999-12-31T23:59:59.999999999+14:00", "0001-01-01T00:00:00Z", "1698672933123", "1698672933123456", "1698672933123456789",
		"Oct 11 22:14:15", "3:04PM", "now", "2023-10-30", "1e3", "0x10", "+5", " 1698672933",
	},
	"level": {"info", "INFO", "warn", "Warning", "err", "error", "crit", "emerg", "alert", "notice", "debug", "trace", "3", "7", "8", "-1", "", "  info ", "Info", "informational", "fatal", "panic"},
	"utf8esc": {
		"\\xD0\\xA1\\xD0\\x98.xml", "\\\\xD0\\\\xA1", "$\\110\\145\\154\\154\\157!", "\\u0048\\u0065\\ud801\\udc01!", "\\U0001F600", "\\U0011FFFF", "\\UFFFFFFFF", "\\u", "\\u12", "\\uzzzz", "\\ud801", "\\ud801\\u", "\\ud801\\uzzzz", "\\ud801x",
		"\\x", "\\x4", "\\xzz", "\\x41\\x", "\\x41\\x4", "\\x41\\xzz", "\\1", "\\12", "\\128", "\\377", "\\400", "\\0", "\\", "\\\\", "a\\", "\\q", "\\u0000", "\\u+123", "\\u-123", "\\U+1234567", "\\x+1", "\\u00e9\\", "\\udc01\\ud801", "\\uD83D\\uDE00", "\\x41\\x42\\x43tail",
	},
	"json": {
		`{"a":1}`, `{"a":{"b":[1,2,{"c":null}]},"x":"y"}`, `[1,2]`, `"str"`, `{`, `{"a":}`, `{"a":1,"a":2}`, `{"k\u0041":"v\n"}`, ``, `{"a":1e999}`, `{"a":-0}`, `{"a":12345678901234567890}`,
		`{"a":"\ud800"}`, `{"":""}`, `{"a":true,"b":false,"c":null,"level":"x","msg":{"k":"v"},"ts":[1]}`, `{"a":1.5,"b":"s","c":{"d":{"e":2}},"x":{"y":"z"}}`, ` {"a" : 1 } `, `{"a":1}trailing`, `nul`, `1`, `-`, `{"a":"` + c13LongStr(200, "q") + `"}`,
		`{"a":{"b":{"c":"deep"}},"a":{"b":1}}`, `{"a":[{"b":1}],"c":{"d":[]}}`, `{"a.b":1,"k.dot":2}`, `{"a":"x","b":"\xff"}`, strings.Repeat(`{"a":`, 60) + "1" + strings.Repeat("}", 60), strings.Repeat("[", 200),
		`{"level":"info","message":"m","time":"2023-10-30T13:35:33Z"}`, `{"a":0.1e-2,"b":-1E+2}`, `{"a":01}`, `{"a":1.}`, `{"a":.5}`, "{\"a\":\"\t\"}", `{"a":"\x"}`,
		// protobuf wire bytes for message M { string a = 1; int32 b = 2; M c = 3; repeated string d = 4; } (decode, decoder protobuf)
		"\x0a\x01x", "\x0a\x05ab", "\x10\x96\x01", "\x1a\x03\x0a\x01y", "\x22\x01p\x22\x01q", "\x0a\x01x\x10\x01\x1a\x05\x0a\x01y\x10\x02", "\x08", "\xff\xff\xff\xff\xff\xff\xff\xff\xff\xff\x01",
	},
	"syslog3164": {"<34>Oct 11 22:14:15 mymachine su: 'su root' failed for lonvick on /dev/pts/8", "<34>Oct 11 22:14:15 host app[10]", "<34>Oct 11 22:14:15 host app[10]: msg", "<34>", "<>", "<999>Oct 11 22:14:15 h a: m", "<34>Oct  1 22:14:15 h a: m", "Oct 11 22:14:15 h a: m", "<34>Oct 11 22:14:15", "<34>Oct 11 22:14:15 h", "<34>Oct 11 22:14:15 h a[", "<34>Oct 11 22:14:15 h a[1", "<3"},
	"syslog5424": {`<165>1 2003-10-11T22:14:15.003Z mymachine.example.com myproc - ID47 [exampleSDID iut="3" eventSource="Application" eventID="1011"] An application event`, "<34>1 - - - - - [ab ]", `<34>1 - - - - - [ab "`, "<34>1 - - - - - -", "<34>1 - - - - - - msg", "<34>1", "<34>1 2003-10-11T22:14:15.003Z h a p m [x y=\"\\\"\"] m", `<34>1 - - - - - [a b="c"][d e="f"]`, `<34>1 - - - - - [a b="c`, "<34>1 - - - - - [", "<34>1 - - - - - []", `<34>1 - - - - - [a b=]`, "<34>0 - - - - - -"},
	"nginx":      {"2022/08/17 10:49:27 [error] 2725122#2725122: *792412315 lua udp socket read timed out, context: ngx.timer", "2022/08/17 10:49:27 [error] 1#2: msg", "2022/08/17 10:49:27 [error] 1#2: *3 m, client: 1.1.1.1, server: s, request: \"GET / HTTP/1.1\", host: \"h\"", "2022/08/17 10:49:27 [error]", "2022/08/17 10:49:27 [", "2022/08/17", "2022/08/17 10:49:27 [error] 1#", "2022/08/17 10:49:27 [error] 1", "x", "2022/08/17 10:49:27 [error] 1#2: *"},
	"postgres":   {"2021-06-22 16:24:27 GMT [7291] => [3-1] client=test_client,db=test_db,user=test_user LOG:  listening on IPv4 address \"0.0.0.0\", port 5432", "a b c ] x", "a b c [1] [2] ,= x", "a b c [1] => [2] client=x", "a b c", "a", "a b c [", "a b c [1]", "a b c [1] => [", "a b c [1] => [2] client=c,db=d,user=u ", "a b c [1] => [2] ,,"},
	"csv":        {"a,b,\"c,d\"", "a,", "\"abc\"", "a,b\n", "\"a", "a\"b", ",", ",,,", "\"a\"\"b\",c", "a;b", "a b \"c d\"", "\"\"", "a,\"b\nc\",d", "\r\n", "a,b,c,d,e,f"},
	"es":         {`{"index":{}}`, `{"create":{"_index":"x"}}`, `{"update":{}}`, `{"delete":{}}`, `{"doc":1}`},
	"join":       {"panic: runtime error: x", "  at foo", "goroutine 1 [running]:", "other", "\tat bar", "Traceback", "", " ", "start", "start2", " cont"},
	"tmpl": {
		"panic: runtime error: index out of range [5] with length 3", "goroutine 1 [running]:", "main.main()", "\t/path/file.go:12 +0x1d", "created by main.main", "exit status 2", "panic: x [recovered]", "fatal error: all goroutines are asleep - deadlock!", "runtime.gopark(0x0?, 0x0?)", "        /usr/local/go/src/runtime/proc.go:381 +0xd6 fp=0xc000 sp=0xc000 pc=0x43",
		"Unhandled exception. System.NullReferenceException: Object reference not set to an instance of an object.", "   at Program.Main(String[] args) in /src/Program.cs:line 12", "   --- End of inner exception stack trace ---", "System.Exception: x", " ---> System.Exception: inner",
		"WARNING: DATA RACE", "==================", "Read at 0x00c000012345 by goroutine 7:", "Previous write at 0x00c000012345 by main goroutine:", "Goroutine 7 (running) created at:", "  main.main()", "      /src/main.go:10 +0x5c", "plain line", "", "http: panic serving 127.0.0.1:1: x", "[signal SIGSEGV: segmentation violation code=0x1 addr=0x0 pc=0x1]",
	},
	"k8slog": {"line\n", "part", "", "\n", "a", "ab", "abc", "a\n", "\\n", "\\", "q\"uote\n", "юни\n", "\xff\n", "tab\tx", c13LongStr(40, "x"), c13LongStr(40, "y") + "\n", "n", "\r\n", "\\\n"},
	"mask":   {"4000 1234 5678 9012", "user@example.com", "xax", "пароль 123", "a", "b", "ab", "aaa", "1", "12345", "card 4000123456789012 end", "", "x1y22z333", "\xff1\xfe", "secret=abc token=def", "🔥123🔥"},
	// case mappings that change the UTF-8 length (Kelvin sign, Ohm, Angstrom, İ, ẞ shrink; Ⱥ grows;
	// an invalid byte becomes U+FFFD) at the start / end, lengths around the rule values' sizes
	"maskci": {
		"t=4.2\u212a", "\u212a", "\u212a\u212a", "4.2\u212a", "x\u212a", "degree\u212a", "degrees\u212a", "\u212adegrees", "\u2126", "ab\u2126", "\u212b\u212b\u212b", "\u0130", "a\u0130", "\u1e9e", "stra\u1e9e", "\u023a", "\u023ax", "x\u023a\u023a", "\u2c65",
		"DEGREES", "12 Degrees", "degrees", "degree", "K", "4.2K", "4.2k", "ЯБ", "яб", "\xff", "\xff\xff4.2k", "4.2k\xff", "\xffdegrees", "degrees\xff", "", "k", "AB", "abcdefgh", "ABCDEFG\u212a",
	},
	"hashn": {
		`"abc`, `""a""`, `{{}`, `'\''`, "```x```", `a"b\"c"d`, `"`, `""`, `"""`, `""""`, `"a""`, `""a"`, `'''a''`, "`", "``", "{", "}", "}{", "{}", "{a{b}c}", "[[]", "(()", "([{)]}", `{"a":"b"}`, `"{'[`, `\"`, `x\"y"`, `"x\"`, `"a"'b'` + "`c`",
		"user@example.com", "https://a.b/c?d=e", "host.example.com", "/var/log/x.log", "123e4567-e89b-12d3-a456-426614174000", "d41d8cd98f00b204e9800998ecf8427e", "2023-10-30T13:35:33Z", "10.0.0.1", "5m30s", "0xdeadbeef", "3.14", "42", "true", "a1b2", "x 42 y", "µs", "-", "1.2.3.4.5", "\xff\"\xfe",
	},
	"re2":      {"2023-10-30 message text", "x", "y", "xy", "", "2023-10-30", "2023-10-30 ", "abc 123 def", "\xff 1", "юни 12"},
	"throttle": {"k1", "k2", "k3", "", "\xff", c13LongStr(100, "k")},
	"plain":    {"x", "abc", "", "error", "0", "k.dot", "a b", "line\n2"},
}

// token alphabets for random strings aimed at the hand-written scanners behind a plugin
var c13FuzzToks = map[string][]string{
	"tmpl":       {"panic", "panic:", "0x", "goroutine ", " [", ".go:", "created by ", "(", ")", ".", "1", "a", "_", " ", "\t", "fatal error:", "[signal", "<autogenerated>:", "   at ", "---", "==================", "WARNING: DATA RACE", "System.", "Exception", ":", "f"},
	"hashn":      {"\"", "'", "`", "{", "}", "[", "]", "(", ")", "\\", "a", "1", " ", ".", "@", ":", "/", "-", "\xff"},
	"utf8esc":    {"\\", "u", "U", "x", "0", "1", "3", "7", "8", "d", "D", "c", "f", "g", "4", "\\\\", "\\x", "\\u", "\\ud8", "\\udc", "\\x4", "\\1"},
	"k8slog":     {"\\", "n", "\n", "a", "\"", "\\n", " ", "я"},
	"json":       {"{", "}", "[", "]", "\"", ":", ",", "a", "1", ".", "-", "e", " ", "\\", "u", "null", "true", "\"a\":", "\n"},
	"time":       {"1", "9", "0", ".", "-", ":", "T", "Z", "+", " ", "2023", "Jan", "/", "e"},
	"mask":       {"a", "b", "x", "1", "2", " ", "я", "\xff", "@", "."},
	"maskci":     {"\u212a", "\u2126", "\u212b", "\u0130", "\u1e9e", "\u023a", "degrees", "4.2", "k", "K", "t=", "\xff", "я", "AB"},
	"csv":        {",", "\"", "\n", "a", " ", "\r", ";", "\"\""},
	"syslog5424": {"<", "34", ">", "1", " ", "-", "[", "]", "\"", "=", "a", "\\", "2003-10-11T22:14:15.003Z"},
	"syslog3164": {"<", "34", ">", "Oct", " ", "11", "22:14:15", "h", "a", "[", "]", ":", "1"},
	"nginx":      {"2022/08/17", " ", "10:49:27", "[", "error", "]", "1", "#", ":", "*", ",", "a", "client"},
	"postgres":   {"a", " ", "[", "]", "=>", "=", ",", "1", "-", "client", "db", "user", "LOG:", "2021-06-22", "GMT"},
	"join":       {"panic:", " ", "\t", "a", "start", "x", "y", "\n"},
	"re2":        {"2023-10-30", " ", "x", "y", "1", "a", "\xff", "я"},
	"level":      {"info", "warn", "err", " ", "3", "I", "O"},
}

func c13FuzzString(r *hx.Rng, c c13Cfg) (string, bool) {
	for _, p := range c.pool {
		if toks, ok := c13FuzzToks[p]; ok {
			n := r.Range(0, 9)
			var sb strings.Builder
			for i := 0; i < n; i++ {
				sb.WriteString(toks[r.Intn(len(toks))])
			}
			return sb.String(), true
		}
	}
	return "", false
}

func init() {
	// every prefix of valid escape sequences, alone and after a high surrogate
	for _, full := range []string{"\\ud801\\udc01", "\\x41\\x42", "\\U0001F600", "\\101", "\\u00e9"} {
		for i := 1; i <= len(full); i++ {
			c13Pools["utf8esc"] = append(c13Pools["utf8esc"], full[:i], "\\ud801"+full[:i], "a"+full[:i]+"\\")
		}
	}
}

// ---------------------------------------------------------------- tree helpers

func c13SelPath(sel string) []string { return cfg.ParseFieldSelector(sel) }

// c13Set puts v at path, replacing the first existing key, creating objects on the way
// (a non-object on the way is replaced).
func c13Set(root *jt.Tree, path []string, v *jt.Tree) {
	if len(path) == 0 || root.Kind != jt.Obj {
		return
	}
	cur := root
	for i, p := range path {
		idx := -1
		for j, kv := range cur.Obj {
			if string(kv.K) == p {
				idx = j
				break
			}
		}
		if i == len(path)-1 {
			if idx >= 0 {
				cur.Obj[idx].V = v
			} else {
				cur.Obj = append(cur.Obj, jt.KV{K: []byte(p), V: v})
			}
			return
		}
		if idx < 0 {
			n := jt.O()
			cur.Obj = append(cur.Obj, jt.KV{K: []byte(p), V: n})
			cur = n
		} else {
			if cur.Obj[idx].V.Kind != jt.Obj {
				cur.Obj[idx].V = jt.O()
			}
			cur = cur.Obj[idx].V
		}
	}
}

// keys beyond jt.DefaultKeys: invalid UTF-8, quote, newline, backslash, a dot, a long one
var c13Keys = append(append([]string(nil), jt.DefaultKeys...), "\xff", "q\"k", "n\nl", "\\", "a.b", "log", "time", "message", "x", "y", strings.Repeat("k", 70))

func c13BaseObj(r *hx.Rng) *jt.Tree {
	switch r.Intn(8) {
	case 0:
		return jt.O()
	case 1:
		return jt.O(jt.F("a", jt.S("x")), jt.F("b", jt.Nu("1")), jt.F("c", jt.O(jt.F("d", jt.S("y")))), jt.F("level", jt.S("info")), jt.F("msg", jt.S("m")))
	case 2:
		// wide object: insane-json switches to a key map above its threshold of fields
		t := jt.O()
		n := r.Range(17, 40)
		for i := 0; i < n; i++ {
			t.Obj = append(t.Obj, jt.F(fmt.Sprintf("k%d", i), jt.GenValue(r, jt.GenCfg{MaxDepth: 1, MaxWidth: 2})))
		}
		for _, k := range []string{"a", "b", "c", "level", "log"} {
			if r.Bool() {
				t.Obj = append(t.Obj, jt.F(k, jt.GenValue(r, jt.GenCfg{MaxDepth: 2, MaxWidth: 3})))
			}
		}
		return t
	case 3:
		return jt.GenObj(r, jt.GenCfg{MaxDepth: 3, MaxWidth: 6, Keys: c13Keys, BadUTF8: true})
	default:
		return jt.GenObj(r, jt.GenCfg{MaxDepth: 3, MaxWidth: 5, BadUTF8: r.Chance(1, 3)})
	}
}

// ---------------------------------------------------------------- configuration grammars

func c13PickSel(r *hx.Rng) string { return c13Sel[r.Intn(len(c13Sel))] }

func c13PickSels(r *hx.Rng, lo, hi int) []string {
	n := r.Range(lo, hi)
	out := make([]string, 0, n)
	for i := 0; i < n; i++ {
		out = append(out, c13PickSel(r))
	}
	return out
}

func toAny(ss []string) []any {
	out := make([]any, len(ss))
	for i, s := range ss {
		out[i] = s
	}
	return out
}

var c13TimeFormats = []string{"rfc3339nano", "rfc3339", "unixtime", "unixtimemilli", "unixtimemicro", "unixtimenano", "ansic", "unixdate", "rubydate", "rfc822", "rfc822z", "rfc850", "rfc1123", "rfc1123z", "kitchen", "stamp", "stampmilli", "stampmicro", "stampnano", "nginx_errorlog", "2006-01-02", "custom 15h", "timestampmilli", "timestampmicro", "timestampnano", " RFC3339 "}

var c13Res = []string{`\d`, `(a)|(b)`, `(\d{4}) (\d{4})`, `((a)b)?`, `x*`, `(?P<n>\w+)@(?P<d>\w+)`, `.`, `^`, `$`, `я`, `[^ ]+`, `(.)(.)`, `a|`, `\b`}

// c13Systematic: for every plugin, configurations that switch every documented option at least once.
func c13Systematic(plugin string) []c13Cfg {
	mk := func(js m, pool string, paths ...string) c13Cfg {
		return c13Cfg{plugin: plugin, js: js, paths: paths, pool: []string{pool}}
	}
	var out []c13Cfg
	switch plugin {
	case "add_file_name":
		out = append(out, mk(m{}, "plain", "file_name"), mk(m{"field": "a"}, "plain", "a"), mk(m{"field": "a.b.c"}, "plain", "a.b.c", "a", "a.b"), mk(m{"field": "k\\.dot"}, "plain", "k\\.dot"))
	case "add_host":
		out = append(out, mk(m{}, "plain", "host"), mk(m{"field": "a"}, "plain", "a"), mk(m{"field": "a.b"}, "plain", "a.b"), mk(m{"field": "ключ"}, "plain", "ключ"))
	case "cardinality":
		for _, act := range []string{"discard", "remove_fields", "nothing"} {
			for _, lim := range []int{0, 1, 2, -1, 10000} {
				out = append(out, mk(m{"key": []any{"a"}, "fields": []any{"b"}, "action": act, "limit": lim}, "throttle", "a", "b"))
			}
		}
		out = append(out,
			mk(m{"key": []any{"a", "c.d"}, "fields": []any{"b", "level"}, "ttl": "1ms", "metric_prefix": "p1", "limit": 1, "action": "remove_fields"}, "throttle", "a", "c.d", "b", "level"),
			mk(m{"key": []any{"a.b", "a_b"}, "fields": []any{"b"}}, "throttle", "a.b", "a_b", "b"),
			mk(m{"key": []any{"a", "a"}, "fields": []any{"b", "b"}}, "throttle", "a", "b"),
			mk(m{"key": []any{""}, "fields": []any{"b"}}, "throttle", "b"),
			mk(m{"key": []any{"a"}, "fields": []any{"", "b"}, "ttl": "1h"}, "throttle", "a", "b"),
		)
	case "convert_date":
		out = append(out, mk(m{}, "time", "time"))
		for _, tf := range c13TimeFormats {
			out = append(out, mk(m{"field": "ts", "source_formats": toAny(c13TimeFormats[:8]), "target_format": tf}, "time", "ts"))
		}
		for _, sf := range c13TimeFormats {
			out = append(out, mk(m{"field": "a.b", "source_formats": []any{sf}, "remove_on_fail": true}, "time", "a.b", "a"))
		}
		out = append(out, mk(m{"field": "ts", "source_formats": []any{}, "target_format": "rfc3339nano"}, "time", "ts"))
	case "convert_log_level":
		for _, style := range []string{"number", "string"} {
			for _, dl := range []string{"", "info", "bogus", "3"} {
				for _, rof := range []bool{false, true} {
					out = append(out, mk(m{"style": style, "default_level": dl, "remove_on_fail": rof}, "level", "level"))
				}
			}
		}
		out = append(out, mk(m{"field": "a.b", "style": "string", "default_level": "warn"}, "level", "a.b", "a"))
	case "convert_utf8_bytes":
		out = append(out,
			mk(m{"fields": []any{"a"}}, "utf8esc", "a"),
			mk(m{"fields": []any{"a"}, "replace_non_graphic": true}, "utf8esc", "a"),
			mk(m{"fields": []any{"a", "b", "c.d"}}, "utf8esc", "a", "b", "c.d"),
			mk(m{"fields": []any{"a", "a"}, "replace_non_graphic": true}, "utf8esc", "a"),
		)
	case "debug":
		out = append(out, mk(m{}, "plain", "a"), mk(m{"interval": "1s", "first": 2, "thereafter": 3, "message": "m"}, "plain", "a"), mk(m{"interval": "1ms", "first": 0, "thereafter": 0}, "plain", "a"))
	case "decode":
		for _, d := range []struct{ dec, pool string }{{"json", "json"}, {"postgres", "postgres"}, {"nginx_error", "nginx"}, {"syslog_rfc3164", "syslog3164"}, {"syslog_rfc5424", "syslog5424"}, {"csv", "csv"}} {
			out = append(out, mk(m{"field": "log", "decoder": d.dec}, d.pool, "log"))
			out = append(out, mk(m{"field": "a.b", "decoder": d.dec, "prefix": "p_", "keep_origin": true}, d.pool, "a.b"))
			for _, mode := range []string{"erronly", "withnode"} {
				out = append(out, mk(m{"field": "log", "decoder": d.dec, "log_decode_error_mode": mode}, d.pool, "log"))
			}
		}
		out = append(out,
			mk(m{"field": "log"}, "json", "log"),
			mk(m{"field": "log", "decoder": "json", "params": m{"json_max_fields_size": m{"a": 3, "x": 1, "c.d": 2}}}, "json", "log"),
			mk(m{"field": "log", "decoder": "nginx_error", "params": m{"nginx_with_custom_fields": true}}, "nginx", "log"),
			mk(m{"field": "log", "decoder": "syslog_rfc3164", "params": m{"syslog_facility_format": "string", "syslog_severity_format": "string"}}, "syslog3164", "log"),
			mk(m{"field": "log", "decoder": "syslog_rfc5424", "params": m{"syslog_facility_format": "string", "syslog_severity_format": "number"}}, "syslog5424", "log"),
			mk(m{"field": "log", "decoder": "csv", "params": m{"columns": []any{"a", "b", "c", "d"}, "invalid_line_mode": "continue"}}, "csv", "log"),

			mk(m{"field": "log", "decoder": "csv", "params": m{"columns": []any{"a", "b"}, "invalid_line_mode": "default"}}, "csv", "log"),
			mk(m{"field": "log", "decoder": "csv", "params": m{"prefix": "csv_", "delimiter": " "}}, "csv", "log"),
			mk(m{"field": "log", "decoder": "csv", "params": m{"delimiter": ";"}, "prefix": "q"}, "csv", "log"),
			mk(m{"field": "log", "decoder": "protobuf", "params": m{"proto_file": "syntax = \"proto3\";\npackage t;\nmessage M { string a = 1; int32 b = 2; M c = 3; repeated string d = 4; }\n", "proto_message": "M"}}, "json", "log"),
		)
	case "discard":
		out = append(out, mk(m{}, "plain", "a"))
	case "flatten":
		out = append(out, mk(m{"field": "a"}, "plain", "a"), mk(m{"field": "c", "prefix": "pet_"}, "plain", "c"), mk(m{"field": "a.b", "prefix": ""}, "plain", "a.b", "a"), mk(m{"field": "msg", "prefix": "msg"}, "plain", "msg"))
	case "hash":
		out = append(out,
			mk(m{"fields": []any{m{"field": "a", "format": "no"}}, "result_field": "h"}, "hashn", "a"),
			mk(m{"fields": []any{m{"field": "a", "format": "no", "max_size": 3}, m{"field": "b", "format": "no"}}, "result_field": "a.h"}, "hashn", "a", "b"),
			mk(m{"fields": []any{m{"field": "a", "format": "normalize"}}, "result_field": "h"}, "hashn", "a"),
			mk(m{"fields": []any{m{"field": "a", "format": "normalize", "max_size": 5}, m{"field": "b", "format": "no"}}, "result_field": "a"}, "hashn", "a", "b"),
			mk(m{"fields": []any{m{"field": "a", "format": "normalize"}}, "result_field": "h", "normalizer": m{"builtin_patterns": "curly_bracketed|square_bracketed|parenthesized|double_quoted|single_quoted|grave_quoted"}}, "hashn", "a"),
			mk(m{"fields": []any{m{"field": "a", "format": "normalize"}}, "result_field": "h", "normalizer": m{"builtin_patterns": "double_quoted"}}, "hashn", "a"),
			mk(m{"fields": []any{m{"field": "a", "format": "normalize"}}, "result_field": "h", "normalizer": m{"builtin_patterns": "int|float|ip"}}, "hashn", "a"),
			mk(m{"fields": []any{m{"field": "a", "format": "normalize"}}, "result_field": "h", "normalizer": m{"builtin_patterns": "no", "custom_patterns": []any{m{"placeholder": "<x>", "re": "x+", "priority": "first"}}}}, "hashn", "a"),
			mk(m{"fields": []any{m{"field": "a", "format": "normalize"}}, "result_field": "h", "normalizer": m{"builtin_patterns": "int|double_quoted", "custom_patterns": []any{m{"placeholder": "<x>", "re": "x+", "priority": "last"}, m{"placeholder": "<y>", "re": "y", "priority": "first"}}}}, "hashn", "a"),
		)
	case "join":
		out = append(out,
			mk(m{"field": "log", "start": "/^panic:/", "continue": "/^\\s/"}, "join", "log"),
			mk(m{"field": "log", "start": "/^start/", "continue": "/^ /", "max_event_size": 10}, "join", "log"),
			mk(m{"field": "a.b", "start": "/./", "continue": "/./", "negate": true}, "join", "a.b"),
			mk(m{"field": "log", "start": "/^$/", "continue": "/^$/", "max_event_size": 1}, "join", "log"),
			mk(m{"field": "log", "start": "/x/", "continue": "/y/", "negate": true, "max_event_size": 0}, "join", "log"),
		)
	case "join_template":
		for _, t := range []string{"go_panic", "cs_exception", "go_data_race"} {
			out = append(out, mk(m{"template": t}, "tmpl", "log"), mk(m{"field": "msg", "templates": []any{t}, "max_event_size": 50}, "tmpl", "msg"))
		}
		out = append(out, mk(m{"templates": []any{"go_panic", "cs_exception", "go_data_race"}}, "tmpl", "log"), mk(m{"template": "go_panic", "templates": []any{"cs_exception"}}, "tmpl", "log"))
	case "json_decode":
		out = append(out, mk(m{"field": "log"}, "json", "log"), mk(m{"field": "a.b", "prefix": "p_"}, "json", "a.b"),
			mk(m{"field": "log", "log_json_parse_error_mode": "erronly"}, "json", "log"), mk(m{"field": "log", "log_json_parse_error_mode": "withnode", "prefix": "x"}, "json", "log"), mk(m{"field": "log", "log_json_parse_error_mode": "off"}, "json", "log"))
	case "json_encode":
		out = append(out, mk(m{"field": "a"}, "json", "a"), mk(m{"field": "a.b"}, "json", "a.b", "a"), mk(m{"field": "c"}, "json", "c"))
	case "json_extract":
		out = append(out,
			mk(m{"field": "log", "extract_field": "a"}, "json", "log"),
			mk(m{"field": "log", "extract_field": "c.d.e"}, "json", "log"),
			mk(m{"field": "log", "extract_fields": []any{"a", "c.d", "c.d.e", "x.y", "level"}, "prefix": "p_"}, "json", "log"),
			mk(m{"field": "log", "extract_field": "a", "extract_fields": []any{"a", "b"}}, "json", "log"),
			mk(m{"field": "a.b", "extract_fields": []any{"a.b", "a.c", "a"}}, "json", "a.b"),
			mk(m{"field": "log", "extract_fields": []any{"", "a"}}, "json", "log"),
			mk(m{"field": "log", "extract_fields": []any{"log"}, "prefix": ""}, "json", "log"),
		)
	case "keep_fields":
		out = append(out, mk(m{"fields": []any{"a"}}, "plain", "a"), mk(m{"fields": []any{"a.b", "c", "a"}}, "plain", "a.b", "c"), mk(m{"fields": []any{"a.b.c", "a.b.d", "x.y", "level"}}, "plain", "a.b.c", "a.b.d", "level"), mk(m{"fields": []any{"k\\.dot", "ключ"}}, "plain", "k\\.dot"))
	case "mask":
		out = append(out,
			mk(m{"masks": []any{m{"re": `(\d)`, "groups": []any{0}}}}, "mask", "a"),
			mk(m{"masks": []any{m{"re": `(a)|(b)`, "groups": []any{1, 2}}}}, "mask", "a"),
			mk(m{"masks": []any{m{"re": `(a)|(b)`, "groups": []any{2, 1}}}}, "mask", "a"),
			mk(m{"masks": []any{m{"re": `((a)b)?`, "groups": []any{1, 2}}}}, "mask", "a"),
			mk(m{"masks": []any{m{"re": `(\d{4}) (\d{4})`, "groups": []any{1, 2}, "max_count": 2}}, "skip_mismatched": true}, "mask", "a"),
			mk(m{"masks": []any{m{"re": `(\d+)`, "groups": []any{0}, "replace_word": "***"}}, "mask_applied_field": "masked", "mask_applied_value": "yes"}, "mask", "a"),
			mk(m{"masks": []any{m{"re": `(\d+)`, "groups": []any{0}, "cut_values": true}, m{"re": `(a)`, "groups": []any{1}}}}, "mask", "a"),
			mk(m{"masks": []any{m{"re": `(.)`, "groups": []any{0}, "cut_values": true}, m{"re": `(x*)`, "groups": []any{0}}}}, "mask", "a"),
			mk(m{"masks": []any{m{"re": `(\w+)`, "groups": []any{1}, "applied_field": "af", "applied_value": "av", "metric_name": "m1", "metric_labels": []any{"level"}}}, "applied_metric_labels": []any{"a", "level"}}, "mask", "a", "level"),
			mk(m{"masks": []any{m{"re": `(\d)`, "groups": []any{0}}}, "ignore_fields": []any{"b", "c.d"}}, "mask", "a", "b", "c.d"),
			mk(m{"masks": []any{m{"re": `(\d)`, "groups": []any{0}}}, "process_fields": []any{"a", "c.d"}}, "mask", "a", "c.d"),
			mk(m{"masks": []any{m{"re": `(\d)`, "groups": []any{0}, "process_fields": []any{"a"}}, m{"re": `(a)`, "groups": []any{0}, "ignore_fields": []any{"b"}}}}, "mask", "a", "b"),
			mk(m{"masks": []any{m{"match_rules": []any{m{"rules": []any{m{"values": []any{"a", "1"}, "mode": "contains"}}}}, "applied_field": "af"}}}, "mask", "a"),
			mk(m{"masks": []any{m{"re": `(\d)`, "groups": []any{0}, "match_rules": []any{m{"cond": "or", "rules": []any{m{"values": []any{"x"}, "mode": "prefix", "case_insensitive": true}, m{"values": []any{"3"}, "mode": "suffix", "invert": true}}}}}}}, "mask", "a"),
			mk(m{"masks": []any{m{"match_rules": []any{m{"rules": []any{m{"values": []any{"degrees"}, "mode": "suffix", "case_insensitive": true}}}}, "applied_field": "af"}}}, "maskci", "a"),
			mk(m{"masks": []any{m{"match_rules": []any{m{"rules": []any{m{"values": []any{"degrees", "k"}, "mode": "prefix", "case_insensitive": true}}}}, "applied_field": "af"}}}, "maskci", "a"),
			mk(m{"masks": []any{m{"match_rules": []any{m{"rules": []any{m{"values": []any{"4.2k"}, "mode": "contains", "case_insensitive": true, "invert": true}}}}, "applied_field": "af"}}}, "maskci", "a"),
			mk(m{"masks": []any{m{"re": `(\d)`, "groups": []any{0}, "do_if": m{"op": "equal", "field": "level", "values": []any{"info"}}}}}, "mask", "a", "level"),
		)
	case "modify":
		for _, f := range []string{
			`${a}`, `pre ${a} mid ${b} post`, `$$ ${a} $`, `plain`, `${a|cut("first",3)}`, `${a|cut("last",2)}`, `${a|cut("first",1)|cut("last",1)}`, `${a|trim("all","\n ")}`, `${a|trim("left","x")}`, `${a|trim("right","я")}`, `${a|trim("all","")}`,
			`${a|trim_to("left","{")|trim_to("right","}")}`, `${a|trim_to("all","\"")}`, `${a|trim_to("all","ab")}`, `${a|trim_to("right","")}`, `${a|trim_to("left","")}`,
			`${a|re("(\\w+):.*",-1,[1],",")}`, `${a|re("(re\\d+)",2,[1],",")}`, `${a|re("(test)",1,[0],",",true)}`, `${a|re("(a)|(b)",-1,[1,2],"")}`, `${a|re("((a)b)?",-1,[2,1],"-")}`, `${a|re("(a)(b)?(c)?",-1,[3,1,2],"-")}`, `${a|re("(x*)",0,[0],",")}`, `${a|re("(x*)",-1,[1],",")}`, `${a|re("()",-1,[0],"|")}`, `${a|re("(.)",-1,[],",")}`,
			`${a|re("(\\d)",-1,[1],",")|trim("all",",")|cut("first",5)}`, `${a.b}${c.d}`, `${x.y|cut("last",1)}`,
		} {
			out = append(out, mk(m{"out": f}, "mask", "a", "b"))
		}
		out = append(out, mk(m{"a": `${a|cut("first",2)}`, "_skip_empty": "true"}, "mask", "a"), mk(m{"a.b.c": `v=${a}`, "a": "${b}", "_skip_empty": "false"}, "mask", "a", "b"))
	case "move":
		out = append(out,
			mk(m{"fields": []any{"a", "b"}, "mode": "allow", "target": "t"}, "plain", "a", "b", "t"),
			mk(m{"fields": []any{"a.b", "c.d", "x.y", ""}, "mode": "allow", "target": "a.t.u"}, "plain", "a.b", "c.d", "a"),
			mk(m{"fields": []any{"a"}, "mode": "allow", "target": "a.b"}, "plain", "a", "a.b"),
			mk(m{"fields": []any{"a", "a.b"}, "mode": "allow", "target": "a"}, "plain", "a", "a.b"),
			mk(m{"fields": []any{"a", "b"}, "mode": "block", "target": "t"}, "plain", "a", "b", "t"),
			mk(m{"fields": []any{"a.b", "level"}, "mode": "block", "target": "level"}, "plain", "a.b", "level"),
			mk(m{"fields": []any{}, "mode": "block", "target": "a"}, "plain", "a"),
		)
	case "parse_es":
		out = append(out, c13Cfg{plugin: plugin, js: m{}, paths: nil, pool: []string{"es"}})
	case "parse_re2":
		out = append(out,
			mk(m{"field": "log", "re2": `(?P<date>[\d]{4}-[\d]{2}-[\d]{2}) (?P<msg>.*)`}, "re2", "log"),
			mk(m{"field": "log", "re2": `(?P<a>x)?(?P<b>y)`, "prefix": "p_"}, "re2", "log"),
			mk(m{"field": "a.b", "re2": `(\d+)`}, "re2", "a.b"),
			mk(m{"field": "log", "re2": `(?P<log>.*)`}, "re2", "log"),
			mk(m{"field": "log", "re2": `(?P<a>.)(?P<a>.)?`}, "re2", "log"),
		)
	case "remove_fields":
		out = append(out, mk(m{"fields": []any{"a"}}, "plain", "a"), mk(m{"fields": []any{"a.b", "c", "a"}}, "plain", "a.b", "c"), mk(m{"fields": []any{"a.b.c", "a.b.d", "x.y", "level"}}, "plain", "a.b.c", "a.b.d", "level"), mk(m{"fields": []any{"k\\.dot", "ключ"}}, "plain", "k\\.dot"))
	case "rename":
		for _, raw := range []string{
			`{"a":"z"}`, `{"override":"false","a":"b"}`, `{"override":"true","a":"b"}`, `{"a.b":"c","c":"a"}`, `{"a":"a"}`, `{"__a":"b","___b":"c"}`, `{"a":"b","b":"a","override":"true"}`, `{"a.b.c":"a"}`, `{"c.d":"c","override":"true"}`, `{"":"x","a":""}`, `{"a":"b","a":"c"}`, `{"x.y":"q"}`, `{"_":"x"}`, `{"_":""}`, `{"_a":"x","override":"true"}`,
		} {
			out = append(out, c13Cfg{plugin: plugin, raw: raw, paths: []string{"a", "b", "c", "a.b", "a.b.c", "c.d", "_a", "__b"}, pool: []string{"plain"}})
		}
	case "set_time":
		for _, f := range c13TimeFormats {
			out = append(out, mk(m{"field": "ts", "format": f}, "time", "ts"))
		}
		out = append(out, mk(m{}, "time", "time"), mk(m{"field": "a", "override": false}, "time", "a"), mk(m{"field": "a.b", "format": "unixtime"}, "time", "a.b"))
	case "split":
		out = append(out, mk(m{"field": "a"}, "plain", "a"), mk(m{"field": "a.b"}, "plain", "a.b"), mk(m{}, "plain", "a"), mk(m{"field": ""}, "plain", "a"))
	case "throttle":
		out = append(out,
			mk(m{"default_limit": 2, "bucket_interval": "1m", "buckets_count": 2}, "time", "time"),
			mk(m{"throttle_field": "a", "time_field": "ts", "time_field_format": "unixtime", "default_limit": 1, "limit_kind": "size"}, "time", "ts", "a"),
			mk(m{"throttle_field": "a.b", "time_field": "", "default_limit": 0, "buckets_count": 1, "bucket_interval": "1s", "limiter_expiration": "1s"}, "throttle", "a.b"),
			mk(m{"throttle_field": "a", "rules": []any{m{"limit": 1, "limit_kind": "count", "conditions": m{"level": "error"}}, m{"limit": 2, "limit_kind": "size", "conditions": m{"level": "info", "b": "x"}}, m{"limit": -1, "limit_kind": "count"}}, "default_limit": 3}, "level", "level", "a", "b"),
			mk(m{"throttle_field": "a", "default_limit": 10, "limit_distribution": m{"field": "level", "ratios": []any{m{"ratio": 0.5, "values": []any{"error"}}, m{"ratio": 0.3, "values": []any{"warn", "info"}}}, "metric_labels": []any{"l1"}}}, "level", "level", "a"),
			mk(m{"time_field": "ts", "time_field_format": "2006-01-02", "default_limit": 5, "rules": []any{m{"limit": 4, "limit_kind": "count", "conditions": m{"a": "x"}, "limit_distribution": m{"field": "b", "ratios": []any{m{"ratio": 1.0, "values": []any{"x"}}}}}}}, "time", "ts", "a", "b"),
		)
	case "k8s-multiline":
		mkk := func(js m, ps c13PS) c13Cfg {
			js["offsets_file"] = "/tmp/c13-offsets.yaml"
			return c13Cfg{plugin: plugin, js: js, paths: []string{"log"}, ps: ps, pool: []string{"k8slog"}}
		}
		out = append(out,
			mkk(m{}, c13PS{}),
			mkk(m{"only_node": true}, c13PS{}),
			mkk(m{"allowed_pod_labels": []any{"allowed_label"}, "allowed_node_labels": []any{"zone", "nope"}}, c13PS{}),
			mkk(m{"split_event_size": 131080}, c13PS{}),
			mkk(m{"split_event_size": 524288}, c13PS{maxEventSize: 20}),
			mkk(m{"split_event_size": 524288}, c13PS{maxEventSize: 20, cutOff: true, cutOffField: "cut"}),
			mkk(m{"split_event_size": 524288}, c13PS{maxEventSize: 8, cutOff: true}),
			mkk(m{"split_event_size": 1}, c13PS{maxEventSize: 5}),
		)
	}
	return out
}

// c13RandomCfg: random combinations of the same options.
func c13RandomCfg(plugin string, r *hx.Rng) c13Cfg {
	sys := c13Systematic(plugin)
	base := sys[r.Intn(len(sys))]
	c := c13Cfg{plugin: plugin, raw: base.raw, paths: append([]string(nil), base.paths...), ps: base.ps, pool: base.pool}
	if base.js != nil {
		b, _ := json.Marshal(base.js)
		c.js = m{}
		_ = json.Unmarshal(b, &c.js)
	}
	sel := c13PickSel(r)
	re := c13Res[r.Intn(len(c13Res))]
	switch plugin {
	case "add_file_name", "add_host", "flatten", "json_encode", "split":
		c.js["field"] = sel
		c.paths = []string{sel}
	case "convert_date":
		c.js["field"] = sel
		c.js["source_formats"] = toAny([]string{c13TimeFormats[r.Intn(len(c13TimeFormats))], c13TimeFormats[r.Intn(len(c13TimeFormats))]})
		c.js["target_format"] = c13TimeFormats[r.Intn(len(c13TimeFormats))]
		c.js["remove_on_fail"] = r.Bool()
		c.paths = []string{sel}
	case "convert_log_level", "json_decode", "parse_re2":
		c.js["field"] = sel
		c.paths = []string{sel}
	case "convert_utf8_bytes":
		s := c13PickSels(r, 1, 3)
		c.js["fields"] = toAny(s)
		c.js["replace_non_graphic"] = r.Bool()
		c.paths = s
	case "cardinality":
		k, f := c13PickSels(r, 1, 2), c13PickSels(r, 1, 2)
		c.js["key"], c.js["fields"] = toAny(k), toAny(f)
		c.js["limit"] = r.Range(-1, 3)
		c.paths = append(k, f...)
	case "decode":
		c.js["field"] = sel
		c.js["keep_origin"] = r.Bool()
		if r.Bool() {
			c.js["prefix"] = "p."
		}
		c.paths = []string{sel}
	case "hash":
		c.js["result_field"] = c13PickSel(r)
		fs := c.js["fields"].([]any)
		fs[0].(m)["field"] = sel
		fs[0].(m)["max_size"] = r.Range(0, 12)
		c.paths = []string{sel}
	case "join":
		c.js["field"] = sel
		c.js["max_event_size"] = r.Range(0, 12)
		c.js["negate"] = r.Bool()
		c.paths = []string{sel}
	case "join_template":
		c.js["field"] = sel
		c.js["max_event_size"] = r.Range(0, 80)
		c.paths = []string{sel}
	case "json_extract":
		c.js["field"] = sel
		c.js["extract_fields"] = toAny(c13PickSels(r, 1, 4))
		c.paths = []string{sel}
	case "keep_fields", "remove_fields":
		s := c13PickSels(r, 1, 4)
		c.js["fields"] = toAny(s)
		c.paths = s
	case "mask":
		groups := []any{0}
		if strings.Count(re, "(") >= 2 && !strings.Contains(re, "?P") {
			groups = []any{r.Range(0, 3), r.Range(0, 3)}
			if groups[0] == groups[1] {
				groups = groups[:1]
			}
		}
		mk := m{"re": "(" + re + ")", "groups": groups}
		switch r.Intn(4) {
		case 0:
			mk["replace_word"] = "<r>"
		case 1:
			mk["cut_values"] = true
		case 2:
			mk["max_count"] = r.Range(1, 3)
		}
		if r.Chance(2, 3) {
			vals := [][]any{{"k"}, {"degrees"}, {"ab", "degrees"}, {"\u212a"}, {"4.2k", "x"}, {"\u023ax"}, {"я"}, {"abcdefgh", "b"}}[r.Intn(8)]
			rule := m{"values": vals, "mode": []string{"prefix", "contains", "suffix"}[r.Intn(3)], "case_insensitive": r.Chance(2, 3), "invert": r.Chance(1, 4)}
			mk["match_rules"] = []any{m{"cond": []string{"and", "or"}[r.Intn(2)], "rules": []any{rule, m{"values": []any{"a", "ZZ"}, "mode": []string{"prefix", "contains", "suffix"}[r.Intn(3)], "case_insensitive": r.Bool()}}}}
			c.pool = []string{"maskci", "mask"}
		}
		c.js = m{"masks": []any{mk, m{"re": "(" + c13Res[r.Intn(len(c13Res))] + ")", "groups": []any{0}}}, "skip_mismatched": r.Bool()}
		if r.Bool() {
			c.js["process_fields"] = toAny([]string{sel})
		}
		c.paths = []string{sel, "a"}
	case "modify":
		filters := []string{`cut("first",` + fmt.Sprint(r.Range(1, 9)) + `)`, `cut("last",` + fmt.Sprint(r.Range(1, 9)) + `)`, `trim("all"," \n")`, `trim("left","a")`, `trim("right","яx")`, `trim_to("left","a")`, `trim_to("right","b")`, `trim_to("all","\"")`, `trim_to("all","xy")`,
			`re("(` + strings.ReplaceAll(re, `\`, `\\`) + `)",` + fmt.Sprint(r.Range(-1, 3)) + `,[0],",")`, `re("(a)|(b)",-1,[1,2],";",true)`}
		expr := "${" + sel
		for i := r.Range(0, 3); i > 0; i-- {
			expr += "|" + filters[r.Intn(len(filters))]
		}
		expr += "}"
		c.js = m{c13PickSel(r): "x" + expr + "y", "_skip_empty": fmt.Sprint(r.Bool())}
		c.paths = []string{sel}
	case "move":
		s := c13PickSels(r, 0, 3)
		c.js["fields"] = toAny(s)
		if r.Bool() {
			c.js["mode"] = "allow"
			c.js["target"] = c13PickSel(r)
		} else {
			c.js["mode"] = "block"
			c.js["target"] = []string{"a", "b", "t", "level", "ключ"}[r.Intn(5)]
		}
		c.paths = append(s, c.js["target"].(string))
	case "rename":
		var sb strings.Builder
		sb.WriteString("{")
		n := r.Range(1, 3)
		if r.Bool() {
			fmt.Fprintf(&sb, `"override":"%v",`, r.Bool())
		}
		for i := 0; i < n; i++ {
			if i > 0 {
				sb.WriteString(",")
			}
			k, _ := json.Marshal(c13PickSel(r))
			v, _ := json.Marshal([]string{"a", "b", "c", "z", "a.b", ""}[r.Intn(6)])
			sb.Write(k)
			sb.WriteString(":")
			sb.Write(v)
		}
		sb.WriteString("}")
		c.raw = sb.String()
	case "set_time":
		c.js["field"] = []string{"a", "ts", "time", "k.dot", "ключ"}[r.Intn(5)]
		c.js["format"] = c13TimeFormats[r.Intn(len(c13TimeFormats))]
		c.js["override"] = r.Bool()
		c.paths = []string{"a", "ts", "time"}
	case "throttle":
		c.js["default_limit"] = r.Range(0, 3)
		c.js["throttle_field"] = sel
		c.js["limit_kind"] = []string{"count", "size"}[r.Intn(2)]
		c.paths = append(c.paths, sel)
	case "k8s-multiline":
		c.js["split_event_size"] = []int{1, 131080, 131200, 524288, 1000000}[r.Intn(5)]
		c.js["only_node"] = r.Chance(1, 8)
		c.ps = c13PS{maxEventSize: []int{0, 0, 5, 8, 20, 64}[r.Intn(6)], cutOff: r.Bool()}
		if r.Bool() {
			c.ps.cutOffField = "cut"
		}
	}
	if r.Chance(1, 6) && plugin != "k8s-multiline" {
		c.ps.maxLabelLen = []int{1, 3, 8}[r.Intn(3)]
	}
	return c
}

// ---------------------------------------------------------------- events

func c13PoolStrings(c c13Cfg) []string {
	var out []string
	for _, p := range c.pool {
		out = append(out, c13Pools[p]...)
	}
	if len(out) == 0 {
		out = c13Pools["plain"]
	}
	return out
}

// c13ValueList: all values that are injected at the configured paths by the systematic part.
func c13ValueList(c c13Cfg) []*jt.Tree {
	vals := c13GenericValues()
	for _, s := range c13PoolStrings(c) {
		vals = append(vals, jt.S(s))
	}
	return vals
}

type c13EvTok string

func c13TreeEv(t *jt.Tree) c13EvTok { return c13EvTok("E " + t.Tok()) }
func c13RawEv(text string) c13EvTok { return c13EvTok("R " + hx.Enc([]byte(text))) }

func c13Line(w *bufio.Writer, c c13Cfg, evs []c13EvTok) {
	fmt.Fprintf(w, "c13.act %s %s %s %d", c.plugin, hx.Enc(c.jsonBytes()), c.ps.tok(), len(evs))
	for _, e := range evs {
		w.WriteByte(' ')
		w.WriteString(string(e))
	}
	w.WriteByte('\n')
}

// c13EventFor builds one event: a base object with value v injected at one or several of the
// configured paths (other configured paths get random pool values or stay absent).
func c13EventFor(r *hx.Rng, c c13Cfg, v *jt.Tree, pool []string) *jt.Tree {
	root := c13BaseObj(r)
	if len(c.paths) == 0 {
		return root
	}
	main := r.Intn(len(c.paths))
	for i, sel := range c.paths {
		switch {
		case i == main:
			c13Set(root, c13SelPath(sel), v)
		case r.Chance(1, 2):
			c13Set(root, c13SelPath(sel), jt.S(pool[r.Intn(len(pool))]))
		}
	}
	return root
}

var c13RootShapes = []string{`[]`, `[{"a":1,"log":"x"}]`, `"str"`, `123`, `null`, `true`, `{}`, `[[{"a":[]}]]`, ` {"a":1}`, `{"a":"\u0041\n","k\u002edot":"\ud83d\ude00","c":{"d":"\\x41"},"level":"\u0069nfo","log":"l\\n\n"}`, `{"a":1,"a":2,"a":{"b":3}}`, `{"log":"\u0000","a":"\/"}`}

// c13Sequences writes the systematic sequences of one configuration: every value of the value
// list at the configured paths (chunks of `chunk` events so that a finding does not hide the
// rest), root shapes and raw texts, then plugin-specific stateful sequences.
func c13Sequences(w *bufio.Writer, r *hx.Rng, c c13Cfg, chunk int, full bool) {
	pool := c13PoolStrings(c)
	vals := c13ValueList(c)
	if !full {
		// a rotating third of the values in the quick tier (different third per seed)
		off := r.Intn(3)
		var sub []*jt.Tree
		for i, v := range vals {
			if i%3 == off {
				sub = append(sub, v)
			}
		}
		vals = sub
	}
	var evs []c13EvTok
	flush := func() {
		if len(evs) > 0 {
			c13Line(w, c, evs)
			evs = nil
		}
	}
	for _, v := range vals {
		evs = append(evs, c13TreeEv(c13EventFor(r, c, v, pool)))
		// a time-out event after any event: exec delivers it only when the plugin is busy there
		if (c13Busyable[c.plugin] && r.Chance(1, 3)) || r.Chance(1, 10) {
			evs = append(evs, "T")
		}
		if len(evs) >= chunk {
			flush()
		}
	}
	flush()
	for _, s := range c13RootShapes {
		evs = append(evs, c13RawEv(s))
	}
	flush()
}

// c13RandomSeq: a random event sequence for a configuration.
func c13RandomSeq(r *hx.Rng, c c13Cfg) []c13EvTok {
	pool := c13PoolStrings(c)
	gen := c13GenericValues()
	n := r.Range(1, 10)
	var evs []c13EvTok
	for i := 0; i < n; i++ {
		switch {
		case (c13Busyable[c.plugin] && r.Chance(1, 4)) || r.Chance(1, 12):
			evs = append(evs, "T")
		case r.Chance(1, 12):
			evs = append(evs, c13RawEv(c13RootShapes[r.Intn(len(c13RootShapes))]))
		case r.Chance(1, 10):
			evs = append(evs, c13TreeEv(jt.GenValue(r, jt.GenCfg{MaxDepth: 4, MaxWidth: 5, BadUTF8: true})))
		default:
			var v *jt.Tree
			if fs, ok := c13FuzzString(r, c); ok && r.Chance(2, 5) {
				v = jt.S(fs)
			} else if r.Chance(2, 3) {
				v = jt.S(pool[r.Intn(len(pool))])
			} else {
				v = gen[r.Intn(len(gen))]
			}
			ev := c13EventFor(r, c, v, pool)
			if c.plugin == "parse_es" {
				// the bulk stream: action lines and documents
				if r.Bool() {
					evs = append(evs, c13RawEv(c13Pools["es"][r.Intn(len(c13Pools["es"]))]))
					continue
				}
			}
			evs = append(evs, c13TreeEv(ev))
		}
	}
	return evs
}

// c13TimeoutVariants: the sequence with a time-out event injected at every point (one variant per
// position; the rest of the sequence follows the time-out).
func c13TimeoutVariants(w *bufio.Writer, c c13Cfg, evs []c13EvTok) {
	var plain []c13EvTok
	for _, e := range evs {
		if e != "T" {
			plain = append(plain, e)
		}
	}
	for k := 1; k <= len(plain); k++ {
		v := make([]c13EvTok, 0, len(plain)+1)
		v = append(v, plain[:k]...)
		v = append(v, "T")
		v = append(v, plain[k:]...)
		c13Line(w, c, v)
	}
}

// c13StatefulTimeouts: for the plugins that wait for a next line, every short run of every kind of
// line with a time-out after every prefix.
func c13StatefulTimeouts(w *bufio.Writer, r *hx.Rng, c c13Cfg, full bool) {
	var lines []string
	maxLen := 3
	switch c.plugin {
	case "parse_es":
		// action lines of the bulk API (index / create wait for a source line, update for a line to
		// drop, delete for nothing), a source line, something else
		lines = []string{`{"index":{}}`, `{"create":{"_index":"x"}}`, `{"update":{"_id":"1"}}`, `{"delete":{"_id":"1"}}`, `{"doc":1}`, `[]`}
	case "join":
		// starts / continuations for the systematic start/continue patterns of the grammar
		lines = []string{`{"log":"panic: x"}`, `{"log":"  at foo"}`, `{"log":"start"}`, `{"log":" cont"}`, `{"log":"other"}`, `{"x":1}`, `{"log":12}`}
		if !full {
			maxLen = 2
		}
	case "join_template":
		lines = []string{`{"log":"panic: runtime error: x"}`, `{"log":"goroutine 1 [running]:"}`, `{"log":"main.main()"}`, `{"log":"\t/path/file.go:12 +0x1d"}`, `{"log":"Unhandled exception. System.Exception: x"}`, `{"log":"   at Program.Main()"}`, `{"log":"WARNING: DATA RACE"}`, `{"log":"plain"}`, `{"x":1}`}
		maxLen = 2
	case "k8s-multiline":
		lines = []string{`{"log":"part"}`, `{"log":"line\n"}`, `{"log":"` + c13LongStr(30, "x") + `"}`, `{"log":""}`, `{"log":12}`, `{"x":1}`}
		if !full {
			maxLen = 2
		}
	default:
		return
	}
	tail := []c13EvTok{c13RawEv(lines[0]), c13RawEv(lines[len(lines)-2]), c13RawEv(lines[1])}
	var rec func(cur []c13EvTok, n int)
	rec = func(cur []c13EvTok, n int) {
		if len(cur) > 0 {
			// time-out right after this run, then traffic goes on
			v := append(append(append([]c13EvTok(nil), cur...), "T"), tail...)
			c13Line(w, c, v)
			// and a second time-out in a row
			c13Line(w, c, append(append(append([]c13EvTok(nil), cur...), "T", "T"), tail[0]))
		}
		if n == 0 {
			return
		}
		for _, l := range lines {
			rec(append(append([]c13EvTok(nil), cur...), c13RawEv(l)), n-1)
		}
	}
	rec(nil, maxLen)
	_ = r
}

// c13WaitingStream: lines that leave the plugin waiting for the next line of the stream, then
// silence (time-out), then more lines (they must still come out).
func c13WaitingStream(r *hx.Rng, plugin string) []c13EvTok {
	var waiting, after [][]string
	switch plugin {
	case "parse_es":
		waiting = [][]string{{`{"index":{}}`}, {`{"create":{"_index":"x"}}`}, {`{"update":{"_id":"1"}}`}, {`{"delete":{"_id":"1"}}`}, {`{"index":{}}`, `{"doc":1}`, `{"update":{}}`}, {`{"index":{}}`, `{"doc":1}`, `{"create":{}}`}}
		after = [][]string{{`{"index":{}}`, `{"doc":2}`}, {`{"doc":3}`, `{"index":{}}`, `{"doc":4}`}, {`{"delete":{}}`, `{"create":{}}`, `{"doc":5}`}}
	case "join", "join_template":
		waiting = [][]string{{`{"log":"panic: x"}`}, {`{"log":"panic: x"}`, `{"log":"  at foo"}`}, {`{"log":"start"}`, `{"log":" cont"}`}, {`{"log":"panic: runtime error: x"}`, `{"log":"goroutine 1 [running]:"}`}, {`{"log":"WARNING: DATA RACE"}`}}
		after = [][]string{{`{"log":"other"}`}, {`{"log":"panic: y"}`, `{"log":"plain"}`}, {`{"x":1}`}}
	default: // k8s-multiline
		waiting = [][]string{{`{"log":"part"}`}, {`{"log":"part"}`, `{"log":"more"}`}, {`{"log":"` + c13LongStr(40, "x") + `"}`}}
		after = [][]string{{`{"log":"line\n"}`}, {`{"log":"p2"}`, `{"log":"end\n"}`}}
	}
	var evs []c13EvTok
	for _, l := range waiting[r.Intn(len(waiting))] {
		evs = append(evs, c13RawEv(l))
	}
	evs = append(evs, "T")
	for _, l := range after[r.Intn(len(after))] {
		evs = append(evs, c13RawEv(l))
	}
	if r.Chance(1, 3) {
		for _, l := range waiting[r.Intn(len(waiting))] {
			evs = append(evs, c13RawEv(l))
		}
		evs = append(evs, "T")
	}
	return evs
}

var c13Plugins = []string{
	"add_file_name", "add_host", "cardinality", "convert_date", "convert_log_level", "convert_utf8_bytes", "debug", "decode", "discard", "flatten",
	"hash", "join", "join_template", "json_decode", "json_encode", "json_extract", "k8s-multiline", "keep_fields", "mask", "modify", "move", "parse_es",
	"parse_re2", "remove_fields", "rename", "set_time", "split", "throttle",
}

func c13Valid(c c13Cfg) bool {
	if c.plugin == "hash" {
		// valid by construction; starting it would compile the normalizer's lexer (15 s for "all")
		return true
	}
	inst, ok := c13Start(c.plugin, c.jsonBytes(), c.ps)
	if ok {
		inst.stop()
	}
	return ok
}

func genC13(w *bufio.Writer, rng *hx.Rng, tier string) {
	// hx.NewRng(n) and hx.NewRng(n+1) produce the same stream shifted by one draw (the state
	// starts at n*K and every draw adds K): re-seed from the first output so that different
	// seeds give unrelated streams
	rng = hx.NewRng(rng.U64())
	full := tier == "thorough"
	names := append([]string(nil), c13Plugins...)
	sort.Strings(names)
	fmt.Fprintf(w, "c13.registry %d %s\n", len(names), strings.Join(names, " "))

	nRandCfg, nSeqPerCfg, chunk := 150, 6, 14
	if full {
		nRandCfg, nSeqPerCfg, chunk = 1200, 10, 14
	}
	for _, p := range c13Plugins {
		for _, c := range c13Systematic(p) {
			if !c13Valid(c) {
				// a systematic configuration is expected to be accepted; keep one case so that exec
				// reports cfg-rejected for it (visible in the distribution), then move on
				c13Line(w, c, []c13EvTok{c13RawEv("{}")})
				continue
			}
			c13Sequences(w, rng, c, chunk, full)
			rs := c13RandomSeq(rng, c)
			c13Line(w, c, rs)
			if c13Busyable[p] {
				c13TimeoutVariants(w, c, rs)
				c13StatefulTimeouts(w, rng, c, full)
			}
		}
		for i := 0; i < nRandCfg; i++ {
			c := c13RandomCfg(p, rng)
			if !c13Valid(c) {
				continue
			}
			for j := 0; j < nSeqPerCfg; j++ {
				rs := c13RandomSeq(rng, c)
				c13Line(w, c, rs)
				// a time-out at every point of the sequence (all of them for the plugins known to
				// hold events, a sample for the others: exec delivers it wherever the plugin is busy)
				if (c13Busyable[p] && (full || j < 2)) || (j == 0 && rng.Chance(1, 8)) {
					c13TimeoutVariants(w, c, rs)
				}
			}
		}
	}
	// end to end through the real processor: a few configurations per plugin, metric labels taken
	// from event fields (countEvent), real Propagate / Spawn / stream time-outs
	nPipe := 20
	if full {
		nPipe = 120
	}
	for _, p := range c13Plugins {
		sys := c13Systematic(p)
		for i := 0; i < nPipe; i++ {
			var c c13Cfg
			if i < 3 || rng.Chance(1, 3) {
				c = sys[(i+rng.Intn(len(sys)))%len(sys)]
			} else {
				c = c13RandomCfg(p, rng)
			}
			if !c13Valid(c) {
				continue
			}
			// metric label names must be valid and distinct (the registry refuses others at start-up);
			// their values come from the events
			var labels []string
			names := []string{"level", "a", "b", "msg", "c", "log"}
			first := rng.Intn(len(names))
			for k := rng.Range(0, 2); k > 0; k-- {
				labels = append(labels, names[(first+k)%len(names)])
			}
			var evs []c13EvTok
			nT := 0
			for _, e := range c13RandomSeq(rng, c) {
				// T = silence longer than heartbeat + event time-out (260 ms each: used sparingly)
				if e != "T" {
					evs = append(evs, e)
				} else if c13Busyable[p] && nT < 1 && i%4 == 1 {
					evs = append(evs, e)
					nT++
				}
			}
			if c13Busyable[p] && i%2 == 0 {
				// a stream that stops in a "waiting for the next line" state, silence, then traffic again
				evs = c13WaitingStream(rng, p)
			}
			cmd := "c13.pipe"
			if i%4 == 3 {
				cmd = "c13.pipeout" // real stdout output plugin
			}
			fmt.Fprintf(w, "%s %s %s %s %d", cmd, c.plugin, hx.Enc(c.jsonBytes()), c.ps.tok(), len(labels))
			for _, l := range labels {
				fmt.Fprintf(w, " %s", hx.Enc([]byte(l)))
			}
			fmt.Fprintf(w, " %d", len(evs))
			for _, e := range evs {
				w.WriteByte(' ')
				w.WriteString(string(e))
			}
			w.WriteByte('\n')
		}
	}
	genC13Cores(w, rng, tier)
	genC13Mrule(w, rng, tier)
}
