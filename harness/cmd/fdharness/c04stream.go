package main

// C04 — sequential schedules on the real streamer + streams (pipeline/stream.go, streamer.go).
//
// case:   c04.stream <nprocs> <nstreams> <op>…
//   ops:  P<s>    put a fresh event on stream s
//         J<p>    processor p calls joinStream (parks, or pops a stream and stops at the st.join gate)
//         A<p>    release p's gate: stream.attach
//         I<p>    owner p calls instantGet        B<p>  owner p calls blockGet
//         C<s>.<k> commit the k-th taken, un-committed event of stream s
//         T       one round of streamer.heartbeat with eventTimeout = 0
//         W<s>    put on stream s IMMEDIATELY followed by one heartbeat round (eventTimeout 0), both under
//                 GOMAXPROCS(1): tryUnblock runs after put() and before the owner waiting in blockGet wakes
//         U<s>.<t>[.<u>]  a burst: puts on streams s, t, u back to back while the process has ONE scheduler
//                 thread (GOMAXPROCS(1)), so that a processor signalled by the first makeCharged cannot pop
//                 before the later ones have charged: the charge, charge, pop order, without timing
// result: the trace, one token group per trace point (vocabulary of Model/Stream.lean):
//   put s off seq | charge s | pop p s | park p | attach p s | get p s off seq k | leave p s |
//   detach s | commit s seq | stale s seq | bwait p s | timeout s   …   end <joinStream sleepers> <len charged>

import (
	"bufio"
	"fmt"
	"runtime"
	"strconv"
	"strings"
	"sync"
	"time"

	"github.com/ozontech/file.d/pipeline"

	"verifharness/internal/hx"
)

func init() {
	execs["c04.stream"] = execStream
}

type strProc struct {
	id      int
	cmd     chan string
	st      string // idle | join | gate | owns | iget | bget
	stream  *pipeline.VerifStream
	sid     int
	release chan struct{}
	woken   bool
	bw      bool
}

type taken struct {
	off int64
	seq uint64
}

type strRun struct {
	wg sync.WaitGroup // the processor goroutines (finish waits for them: a straggler would write into the next case's trace)
	v        *pipeline.VerifStreamer
	mu       sync.Mutex
	trace    []string
	procs    []*strProc
	goids    map[int64]*strProc
	offSid   map[int64]int
	nextOff  []int64
	inflight [][]taken
	parkedQ  []*strProc
	sawCommit bool
	lastCommit map[int]uint64
	tmoSeq     map[int]uint64
}

var curStrRun *strRun
var curStrRunMu sync.Mutex

func getStrRun() *strRun {
	curStrRunMu.Lock()
	defer curStrRunMu.Unlock()
	return curStrRun
}

func (run *strRun) emit(f string, a ...any) { run.trace = append(run.trace, fmt.Sprintf(f, a...)) }

func strTrace(kind string, a, b uint64) {
	run := getStrRun()
	if run == nil {
		return
	}
	if !strings.HasPrefix(kind, "s.") && !strings.HasPrefix(kind, "st.") {
		return
	}
	id := goidC04()
	run.mu.Lock()
	defer run.mu.Unlock()
	p := run.goids[id]
	switch kind {
	case "s.put":
		run.emit("put %d %d %d", run.offSid[int64(a)], a, b)
	case "st.charge":
		run.emit("charge %d", a)
		if len(run.parkedQ) > 0 {
			run.parkedQ[0].woken = true
			run.parkedQ = run.parkedQ[1:]
		}
	case "st.pop":
		if p != nil {
			p.woken = false
			run.emit("pop %d %d", p.id, a)
		} else {
			run.emit("pop ? %d", a)
		}
	case "s.attach":
		if p != nil {
			run.emit("attach %d %d", p.id, a)
		}
	case "s.get":
		if p != nil {
			run.inflight[p.sid] = append(run.inflight[p.sid], taken{int64(a), b})
			run.emit("get %d %d %d %d 0", p.id, p.sid, a, b)
		}
	case "s.gettmo":
		// a time-out event: Offset 0, SeqID = commitSeq when tryUnblock made it
		if p != nil {
			run.emit("get %d %d 0 %d 1", p.id, a, run.tmoSeq[int(a)])
		}
	case "s.leave":
		if p != nil {
			run.emit("leave %d %d", p.id, a)
		}
	case "s.detach":
		run.emit("detach %d", a)
	case "s.commit":
		run.sawCommit = true
		run.lastCommit[run.offSid[int64(a)]] = b
		run.emit("commit %d %d", run.offSid[int64(a)], b)
	case "s.timeout":
		run.tmoSeq[int(a)] = run.lastCommit[int(a)]
		run.emit("timeout %d", a)
	}
}

func strGate(point string, a, b uint64) {
	if point != "st.join" {
		return
	}
	run := getStrRun()
	if run == nil {
		return
	}
	id := goidC04()
	run.mu.Lock()
	p := run.goids[id]
	if p == nil {
		run.mu.Unlock()
		return
	}
	p.st = "gate"
	p.sid = int(a)
	ch := p.release
	run.mu.Unlock()
	<-ch
}

func newStrRun(nprocs, nstreams int) *strRun {
	run := &strRun{goids: map[int64]*strProc{}, offSid: map[int64]int{}, lastCommit: map[int]uint64{}, tmoSeq: map[int]uint64{}}
	run.v = pipeline.VerifNewStreamer(time.Hour)
	run.nextOff = make([]int64, nstreams)
	run.inflight = make([][]taken, nstreams)
	ready := make(chan struct{})
	for i := 0; i < nprocs; i++ {
		p := &strProc{id: i, cmd: make(chan string, 1), st: "idle"}
		run.procs = append(run.procs, p)
		run.wg.Add(1)
		go func() {
			defer run.wg.Done()
			run.mu.Lock()
			run.goids[goidC04()] = p
			run.mu.Unlock()
			ready <- struct{}{}
			for c := range p.cmd {
				switch c {
				case "join":
					st := run.v.Join()
					run.mu.Lock()
					if st == nil {
						p.st = "idle"
					} else {
						p.stream, p.st, p.sid = st, "owns", int(st.ID())
					}
					run.mu.Unlock()
				case "iget":
					_, _, _, ok := p.stream.InstantGet()
					run.mu.Lock()
					if ok {
						p.st = "owns"
					} else {
						p.st, p.stream = "idle", nil
					}
					run.mu.Unlock()
				case "bget":
					p.stream.BlockGet()
					run.mu.Lock()
					p.st, p.bw = "owns", false
					run.mu.Unlock()
				}
			}
		}()
	}
	for i := 0; i < nprocs; i++ {
		<-ready
	}
	curStrRunMu.Lock()
	curStrRun = run
	curStrRunMu.Unlock()
	pipeline.VerifSetTrace(strTrace)
	pipeline.VerifSetGate(strGate)
	return run
}

// settle waits until every processor is back, at the gate, or asleep in a Cond.Wait.
func (run *strRun) settle() bool {
	deadline := time.Now().Add(6 * time.Second)
	stable := 0
	for {
		run.mu.Lock()
		joining, bgetting, other := 0, 0, 0
		var bstreams []*pipeline.VerifStream
		for _, p := range run.procs {
			switch p.st {
			case "join":
				joining++
			case "bget":
				bgetting++
				bstreams = append(bstreams, p.stream)
			case "iget":
				other++
			}
		}
		n := len(run.trace)
		run.mu.Unlock()
		bw := 0
		for _, s := range bstreams {
			bw += s.BlockWaiters()
		}
		if other == 0 && run.v.JoinWaiters() == joining && bw == bgetting {
			stable++
		} else {
			stable = 0
		}
		if stable >= 3 {
			run.mu.Lock()
			same := n == len(run.trace)
			run.mu.Unlock()
			if same {
				return true
			}
			stable = 0
		}
		if time.Now().After(deadline) {
			return false
		}
		time.Sleep(100 * time.Microsecond)
	}
}

// afterSettle records the sleeps that have no trace point of their own.
func (run *strRun) afterSettle() {
	run.mu.Lock()
	defer run.mu.Unlock()
	for _, p := range run.procs {
		if p.st == "bget" && !p.bw {
			p.bw = true
			run.emit("bwait %d %d", p.id, p.sid)
		}
		if p.st == "join" {
			inQ := false
			for _, q := range run.parkedQ {
				if q == p {
					inQ = true
				}
			}
			if !inQ {
				// first time asleep, or signalled and asleep again
				p.woken = false
				run.parkedQ = append(run.parkedQ, p)
				run.emit("park %d", p.id)
			}
		}
	}
}

func (run *strRun) apply(op string) bool {
	if op == "T" {
		// only when no blocked stream would hit the awaySeq != commitSeq panic
		run.mu.Lock()
		ok := true
		any := false
		for _, p := range run.procs {
			if p.st == "bget" {
				any = true
				f := strings.Fields(run.v.StreamState(uint64(p.sid), ""))
				if len(f) == 7 && f[2] != f[3] {
					ok = false
				}
			}
		}
		run.mu.Unlock()
		if !ok || !any {
			return false
		}
		run.v.SetEventTimeout(0)
		run.v.Heartbeat()
		run.v.SetEventTimeout(time.Hour)
		return true
	}
	if len(op) < 2 {
		return false
	}
	if op[0] == 'W' {
		id, err := strconv.Atoi(op[1:])
		if err != nil || id < 0 || id >= len(run.nextOff) {
			return false
		}
		// needs the owner of stream id asleep in blockGet, and no blocked stream that would hit
		// tryUnblock's awaySeq != commitSeq Panicf
		run.mu.Lock()
		owner := false
		ok := true
		for _, p := range run.procs {
			if p.st == "bget" {
				if p.sid == id && p.bw {
					owner = true
				}
				f := strings.Fields(run.v.StreamState(uint64(p.sid), ""))
				if len(f) == 7 && f[2] != f[3] {
					ok = false
				}
			}
		}
		if !owner || !ok {
			run.mu.Unlock()
			return false
		}
		run.nextOff[id]++
		off := int64(id+1)*1000 + run.nextOff[id]
		run.offSid[off] = id
		run.mu.Unlock()
		run.v.SetEventTimeout(0)
		prev := runtime.GOMAXPROCS(1)
		run.v.Put(uint64(id), "", off)
		run.v.Heartbeat()
		runtime.GOMAXPROCS(prev)
		run.v.SetEventTimeout(time.Hour)
		return true
	}
	if op[0] == 'U' {
		var sids []int
		for _, f := range strings.Split(op[1:], ".") {
			id, err := strconv.Atoi(f)
			if err != nil || id < 0 || id >= len(run.nextOff) {
				return false
			}
			sids = append(sids, id)
		}
		type pe struct {
			sid int
			off int64
		}
		var puts []pe
		run.mu.Lock()
		for _, id := range sids {
			run.nextOff[id]++
			off := int64(id+1)*1000 + run.nextOff[id]
			run.offSid[off] = id
			puts = append(puts, pe{id, off})
		}
		run.mu.Unlock()
		prev := runtime.GOMAXPROCS(1)
		for _, q := range puts {
			run.v.Put(uint64(q.sid), "", q.off)
		}
		runtime.GOMAXPROCS(prev)
		return true
	}
	arg := op[1:]
	k := 0
	if i := strings.IndexByte(arg, '.'); i >= 0 {
		k, _ = strconv.Atoi(arg[i+1:])
		arg = arg[:i]
	}
	id, err := strconv.Atoi(arg)
	if err != nil || id < 0 {
		return false
	}
	switch op[0] {
	case 'P':
		if id >= len(run.nextOff) {
			return false
		}
		run.mu.Lock()
		run.nextOff[id]++
		off := int64(id+1)*1000 + run.nextOff[id]
		run.offSid[off] = id
		run.mu.Unlock()
		run.v.Put(uint64(id), "", off)
		return true
	case 'C':
		if id >= len(run.inflight) {
			return false
		}
		run.mu.Lock()
		if len(run.inflight[id]) == 0 {
			run.mu.Unlock()
			return false
		}
		k = k % len(run.inflight[id])
		tk := run.inflight[id][k]
		run.inflight[id] = append(append([]taken(nil), run.inflight[id][:k]...), run.inflight[id][k+1:]...)
		run.sawCommit = false
		run.mu.Unlock()
		run.v.Commit(tk.off)
		run.mu.Lock()
		if !run.sawCommit {
			run.emit("stale %d %d", id, tk.seq)
		}
		run.mu.Unlock()
		return true
	}
	if id >= len(run.procs) {
		return false
	}
	p := run.procs[id]
	run.mu.Lock()
	st := p.st
	switch op[0] {
	case 'J':
		if st != "idle" {
			run.mu.Unlock()
			return false
		}
		p.st = "join"
		p.release = make(chan struct{})
		run.mu.Unlock()
		p.cmd <- "join"
	case 'A':
		if st != "gate" {
			run.mu.Unlock()
			return false
		}
		p.st = "join"
		ch := p.release
		// it is past the pop: not in the cond queue
		run.mu.Unlock()
		close(ch)
		for i := 0; i < 20000; i++ {
			run.mu.Lock()
			done := p.st == "owns"
			run.mu.Unlock()
			if done {
				break
			}
			time.Sleep(50 * time.Microsecond)
		}
	case 'I':
		if st != "owns" {
			run.mu.Unlock()
			return false
		}
		p.st = "iget"
		run.mu.Unlock()
		p.cmd <- "iget"
	case 'B':
		if st != "owns" {
			run.mu.Unlock()
			return false
		}
		p.st = "bget"
		run.mu.Unlock()
		p.cmd <- "bget"
	default:
		run.mu.Unlock()
		return false
	}
	return true
}

func (run *strRun) finish() {
	// wake every sleeper so that no goroutine stays behind
	run.mu.Lock()
	for _, p := range run.procs {
		if p.st == "gate" {
			close(p.release)
			p.st = "join"
		}
	}
	run.mu.Unlock()
	time.Sleep(300 * time.Microsecond)
	pipeline.VerifSetGate(nil)
	pipeline.VerifSetTrace(nil)
	curStrRunMu.Lock()
	curStrRun = nil
	curStrRunMu.Unlock()
	run.mu.Lock()
	var blocked []int
	for _, p := range run.procs {
		if p.st == "bget" {
			blocked = append(blocked, p.sid)
		}
	}
	run.mu.Unlock()
	for _, sid := range blocked {
		run.v.Put(uint64(sid), "", 999999)
	}
	run.v.Release()
	time.Sleep(300 * time.Microsecond)
	for _, p := range run.procs {
		close(p.cmd)
	}
	// no straggler may outlive the case: its trace points would land in the next case's trace
	gone := make(chan struct{})
	go func() { run.wg.Wait(); close(gone) }()
	select {
	case <-gone:
	case <-time.After(2 * time.Second):
	}
}

func execStream(t *hx.Toks) string {
	nprocs := t.Int()
	nstreams := t.Int()
	if t.Err != nil || nprocs < 1 || nprocs > 16 || nstreams < 1 || nstreams > 16 {
		return "bad-case"
	}
	var ops []string
	for !t.Done() {
		ops = append(ops, t.Next())
	}
	run := newStrRun(nprocs, nstreams)
	defer run.finish()
	unsettled := false
	for _, op := range ops {
		if run.apply(op) {
			if !run.settle() {
				unsettled = true
				break
			}
			run.afterSettle()
		}
	}
	run.mu.Lock()
	defer run.mu.Unlock()
	// bwait: blockGet sleeps have no trace point; they are placed where the sleep was observed
	out := strings.Join(run.trace, " ")
	if unsettled {
		out += " unsettled"
	}
	// the streamer's own state at the quiescent end
	out = strings.TrimSpace(out + fmt.Sprintf(" end %d %d", run.v.JoinWaiters(), len(run.v.Charged())))
	return out
}

func genStreams(w *bufio.Writer, rng *hx.Rng, tier string) {
	n := 250
	if tier == "thorough" {
		n = 5000
	}
	// fixed shapes: put-during-detach, pop/attach window with puts, time-out
	fixed := []string{
		"c04.stream 1 1 P0 J0 A0 I0 I0 C0.0 J0",
		"c04.stream 1 1 P0 J0 A0 I0 I0 P0 C0.0 J0 A0 I0 C0.0 I0",
		"c04.stream 2 1 J0 J1 P0 P0 A0 I0 I0 C0.1 C0.0 I0 P0 A1 I1",
		"c04.stream 1 1 P0 J0 P0 A0 I0 B0 C0.0 B0 C0.0 B0 T B0 T I0 J0",
		"c04.stream 2 2 J0 J1 P0 P1 A0 A1 I0 I1 C0.0 C1.0 B0 B1 T P1 I0 I1",
		"c04.stream 3 2 P0 P1 J0 J1 J2 A1 A0 I0 I1 I0 I1 P0 C0.0 C1.0 A2 I2",
	}
	for _, f := range fixed {
		fmt.Fprintln(w, f)
	}
	// back-to-back charges while several processors sleep in joinStream: every sleeper that is
	// needed must be signalled (one Signal per makeCharged), every charged stream attended
	for np := 2; np <= 4; np++ {
		for ns := 2; ns <= np; ns++ {
			var ops []string
			for p := 0; p < np; p++ {
				ops = append(ops, fmt.Sprintf("J%d", p))
			}
			var b []string
			for s := 0; s < ns; s++ {
				b = append(b, strconv.Itoa(s))
			}
			ops = append(ops, "U"+strings.Join(b, "."))
			for p := 0; p < np; p++ {
				ops = append(ops, fmt.Sprintf("A%d", p))
			}
			for p := 0; p < np; p++ {
				ops = append(ops, fmt.Sprintf("I%d", p))
			}
			fmt.Fprintf(w, "c04.stream %d %d %s\n", np, ns, strings.Join(ops, " "))
			// a busy stream plus another one charged in the same burst; the owner of the busy one
			// blocks behind it (blockGet), the other stream must still be attended
			ops2 := append(append([]string(nil), ops[:np]...), "U"+strings.Join(b, "."), "A0", "I0", "B0", fmt.Sprintf("P%d", ns-1), "B0")
			for p := 1; p < np; p++ {
				ops2 = append(ops2, fmt.Sprintf("A%d", p), fmt.Sprintf("I%d", p))
			}
			fmt.Fprintf(w, "c04.stream %d %d %s\n", np, ns, strings.Join(ops2, " "))
		}
	}
	genC04PutHeartbeat(w, rng, tier, "c04.stream")
	// the real heartbeat goroutine against many owners in blockGet (lock order blockedMu / stream.mu)
	fmt.Fprintln(w, "c04.hbstress 1500 4 1300")
	fmt.Fprintln(w, "c04.hbstress 600 3 1100")
	if tier == "thorough" {
		for i := 0; i < 6; i++ {
			fmt.Fprintf(w, "c04.hbstress %d %d %d\n", 400+300*i, 2+i%4, 1200+100*i)
		}
	}
	// whole pipeline: a never-drying stream and another one charged in the same burst
	nb := 4
	if tier == "thorough" {
		nb = 24
	}
	for i := 0; i < nb; i++ {
		fmt.Fprintf(w, "c04.burst %s %d %d\n", []string{"lowmem", "std"}[i%2], 300+100*(i%3), 400+100*(i%3))
	}
	for i := 0; i < n; i++ {
		np := rng.Range(1, 3)
		ns := rng.Range(1, 3)
		if rng.Chance(1, 8) {
			np, ns = rng.Range(3, 5), rng.Range(2, 5)
		}
		fmt.Fprintf(w, "c04.stream %d %d %s\n", np, ns, strings.Join(genStreamScript(rng, np, ns, rng.Range(8, 30)), " "))
	}
}

// genC04PutHeartbeat: a put immediately followed by the streamer heartbeat while the stream's owner sleeps in
// blockGet, on streams that have (0, 1, 2 …) consumed time-outs behind them. cmd = the command token to emit
// (the family is also run under other properties).
func genC04PutHeartbeat(w *bufio.Writer, rng *hx.Rng, tier string, cmd string) {
	nrand := 12
	if tier == "thorough" {
		nrand = 200
	}
	// one stream, one processor: k consumed time-outs, then put+heartbeat, then the event must be got
	for k := 0; k <= 3; k++ {
		ops := []string{"P0", "J0", "A0", "I0", "C0.0", "B0"}
		for i := 0; i < k; i++ {
			ops = append(ops, "T", "B0")
		}
		ops = append(ops, "W0", "C0.0", "B0", "W0", "C0.0", "I0")
		fmt.Fprintf(w, "%s 1 1 %s\n", cmd, strings.Join(ops, " "))
	}
	// two streams / two processors: the other stream is blocked too (gets a legitimate time-out in the same round)
	fmt.Fprintf(w, "%s 2 2 P0 P1 J0 J1 A0 A1 I0 I1 C0.0 C1.0 B0 B1 T B0 B1 W0 C0.0 B0 W1 C1.0 I0 I1\n", cmd)
	fmt.Fprintf(w, "%s 2 2 P0 P1 J0 J1 A0 A1 I0 I1 C0.0 C1.0 B0 B1 T B0 B1 T B0 B1 W1 W0 C0.0 C1.0 B0 B1 W0 W1\n", cmd)
	for i := 0; i < nrand; i++ {
		ns := rng.Range(1, 2)
		var ops []string
		for s := 0; s < ns; s++ {
			ops = append(ops, fmt.Sprintf("P%d", s))
		}
		for s := 0; s < ns; s++ {
			ops = append(ops, fmt.Sprintf("J%d", s))
		}
		for s := 0; s < ns; s++ {
			ops = append(ops, fmt.Sprintf("A%d", s), fmt.Sprintf("I%d", s))
		}
		for s := 0; s < ns; s++ {
			ops = append(ops, fmt.Sprintf("C%d.0", s), fmt.Sprintf("B%d", s))
		}
		for j := rng.Range(6, 18); j > 0; j-- {
			s := rng.Intn(ns)
			switch rng.Intn(7) {
			case 0, 1:
				ops = append(ops, "T")
			case 2, 3:
				ops = append(ops, fmt.Sprintf("W%d", s))
			case 4:
				ops = append(ops, fmt.Sprintf("P%d", s))
			case 5:
				ops = append(ops, fmt.Sprintf("C%d.%d", s, rng.Intn(2)))
			default:
				ops = append(ops, fmt.Sprintf("B%d", rng.Intn(ns)))
			}
			if rng.Chance(1, 2) {
				ops = append(ops, fmt.Sprintf("C%d.0", s), fmt.Sprintf("B%d", rng.Intn(ns)))
			}
		}
		fmt.Fprintf(w, "%s %d %d %s\n", cmd, ns, ns, strings.Join(ops, " "))
	}
}

// genStreamScript draws ops that apply in a coarse simulation of the streamer, so that most of
// the script is executed (an op that does not apply on the real thing is dropped by exec).
func genStreamScript(rng *hx.Rng, np, ns, nops int) []string {
	type sst struct {
		q                   []int
		cur, away, commit   int
		attached, detaching bool
		inflight            []int
	}
	ss := make([]sst, ns)
	pst := make([]byte, np) // i idle, k parked, g gate, o owns, b blocked
	psid := make([]int, np)
	for i := range pst {
		pst[i] = 'i'
	}
	var charged, parkedQ []int
	charge := func(s int) {
		charged = append(charged, s)
		if len(parkedQ) > 0 {
			p := parkedQ[0]
			parkedQ = parkedQ[1:]
			// woken: pops at once
			pst[p], psid[p] = 'g', charged[len(charged)-1]
			charged = charged[:len(charged)-1]
		}
	}
	tryDetach := func(s int) {
		x := &ss[s]
		if x.away != x.commit {
			return
		}
		x.attached, x.detaching = false, false
		if len(x.q) > 0 {
			charge(s)
		}
	}
	take := func(p, s int) {
		x := &ss[s]
		e := x.q[0]
		x.q = x.q[1:]
		if e > 0 {
			x.away = e
			x.inflight = append(x.inflight, e)
		} else {
			x.away = x.commit
		}
		pst[p] = 'o'
	}
	var ops []string
	for len(ops) < nops {
		var cand []string
		for s := 0; s < ns; s++ {
			cand = append(cand, fmt.Sprintf("P%d", s), fmt.Sprintf("P%d", s))
			for k := range ss[s].inflight {
				cand = append(cand, fmt.Sprintf("C%d.%d", s, k))
			}
		}
		anyBlocked := false
		for p := 0; p < np; p++ {
			switch pst[p] {
			case 'i':
				cand = append(cand, fmt.Sprintf("J%d", p), fmt.Sprintf("J%d", p))
			case 'g':
				cand = append(cand, fmt.Sprintf("A%d", p), fmt.Sprintf("A%d", p))
			case 'o':
				cand = append(cand, fmt.Sprintf("I%d", p), fmt.Sprintf("I%d", p), fmt.Sprintf("I%d", p), fmt.Sprintf("B%d", p))
			case 'b':
				anyBlocked = true
			}
		}
		if anyBlocked {
			cand = append(cand, "T", "T")
		}
		if ns >= 2 {
			a, b := rng.Intn(ns), rng.Intn(ns)
			if a != b {
				cand = append(cand, fmt.Sprintf("U%d.%d", a, b), fmt.Sprintf("U%d.%d", a, b))
			}
		}
		if rng.Chance(1, 12) {
			// an op that may not apply
			cand = []string{fmt.Sprintf("%c%d", "JAIB"[rng.Intn(4)], rng.Intn(np))}
		}
		op := cand[rng.Intn(len(cand))]
		ops = append(ops, op)
		var a, k int
		fmt.Sscanf(strings.Replace(op[1:], ".", " ", 1), "%d %d", &a, &k)
		if op[0] == 'U' {
			// coarse: as two puts (the generator's simulation only steers applicability)
			for _, sid := range []int{a, k} {
				x := &ss[sid]
				x.cur++
				empty := len(x.q) == 0
				x.q = append(x.q, x.cur)
				if empty {
					if !x.attached {
						charge(sid)
					}
					for p := 0; p < np; p++ {
						if pst[p] == 'b' && psid[p] == sid {
							take(p, sid)
						}
					}
				}
			}
			continue
		}
		switch op[0] {
		case 'P':
			x := &ss[a]
			x.cur++
			empty := len(x.q) == 0
			x.q = append(x.q, x.cur)
			if empty {
				if !x.attached {
					charge(a)
				}
				for p := 0; p < np; p++ {
					if pst[p] == 'b' && psid[p] == a {
						take(p, a)
					}
				}
			}
		case 'J':
			if pst[a] != 'i' {
				break
			}
			if len(charged) == 0 {
				pst[a] = 'k'
				parkedQ = append(parkedQ, a)
			} else {
				pst[a], psid[a] = 'g', charged[len(charged)-1]
				charged = charged[:len(charged)-1]
			}
		case 'A':
			if pst[a] == 'g' {
				pst[a] = 'o'
				ss[psid[a]].attached = true
			}
		case 'I':
			if pst[a] != 'o' {
				break
			}
			x := &ss[psid[a]]
			if len(x.q) == 0 {
				x.detaching = true
				pst[a] = 'i'
				tryDetach(psid[a])
			} else {
				take(a, psid[a])
			}
		case 'B':
			if pst[a] != 'o' {
				break
			}
			if len(ss[psid[a]].q) == 0 {
				pst[a] = 'b'
			} else {
				take(a, psid[a])
			}
		case 'C':
			x := &ss[a]
			if k >= len(x.inflight) {
				break
			}
			e := x.inflight[k]
			x.inflight = append(append([]int(nil), x.inflight[:k]...), x.inflight[k+1:]...)
			if e >= x.commit {
				x.commit = e
				if x.detaching {
					tryDetach(a)
				}
			}
		case 'T':
			for p := 0; p < np; p++ {
				if pst[p] == 'b' && len(ss[psid[p]].q) == 0 && ss[psid[p]].away == ss[psid[p]].commit {
					ss[psid[p]].q = []int{0}
					take(p, psid[p])
				}
			}
		}
	}
	return ops
}
