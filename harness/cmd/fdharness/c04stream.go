package main

import (
	"bufio"

	"verifharness/internal/hx"
)

func genStreams(w *bufio.Writer, rng *hx.Rng, tier string) {}
