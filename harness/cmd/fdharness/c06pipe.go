package main

import (
	"bufio"
	"fmt"
	"os"
	"path/filepath"
	"strconv"
	"strings"
	"sync/atomic"
	"time"

	"github.com/ozontech/file.d/pipeline"
	"github.com/ozontech/file.d/pipeline/metadata"
	"github.com/ozontech/file.d/plugin/input/file"
	"github.com/ozontech/file.d/plugin/output/devnull"
	"github.com/prometheus/client_golang/prometheus"
	"go.uber.org/zap"

	"verifharness/internal/hx"
)

// C06, worker in front of the REAL pipeline.
//
// case: c06.pipe <max> <cut> <skip> <base> <bufsize> <nturns> (<nreads> <hex>…)…   (as c06.turns)
//
// The real worker.work (hook file.VerifWorkerTurnsWith) reads a real temp file and hands every
// line to the real Pipeline.In of a started pipeline: decoder raw, max_event_size / cut_off_event_by_limit
// = the worker's, antispam off, a harness-owned input plugin (PassEvent true) and the devnull
// output whose OutFn records (event.Offset, message). The worker's In call returns only after the
// event it produced (if the pipeline accepted the line) has reached the output, so the record is in
// file order without any timing. The slice the worker passes aliases its read buffer, as in
// production: what Pipeline.In does to those bytes is part of what is observed.
//
// result: <nevents> (<off> <messagehex>)… <curOffset> <tailhex> <skip>

func init() {
	execs["c06.pipe"] = execC06Pipe
}

type c06Input struct{}

func (p *c06Input) Start(_ pipeline.AnyConfig, _ *pipeline.InputPluginParams) {}
func (p *c06Input) Stop()                                                     {}
func (p *c06Input) Commit(_ *pipeline.Event)                                  {}
func (p *c06Input) PassEvent(_ *pipeline.Event) bool                          { return true }

type c06Event struct {
	off int64
	msg []byte
}

// c06Ctl forwards the worker's calls to the real pipeline and waits for each accepted event.
type c06Ctl struct {
	p       *pipeline.Pipeline
	out     chan c06Event
	events  []c06Event
	timeout bool
}

func (c *c06Ctl) IncReadOps()                           { c.p.IncReadOps() }
func (c *c06Ctl) IncMaxEventSizeExceeded(lvs ...string) { c.p.IncMaxEventSizeExceeded(lvs...) }
func (c *c06Ctl) In(sid pipeline.SourceID, name string, off pipeline.Offsets, data []byte, isNew bool, meta metadata.MetaData) uint64 {
	seq := c.p.In(sid, name, off, data, isNew, meta)
	if seq == pipeline.EventSeqIDError {
		return seq
	}
	select {
	case e := <-c.out:
		c.events = append(c.events, e)
	case <-time.After(20 * time.Second):
		c.timeout = true
	}
	return seq
}

var c06Seq atomic.Int64

func execC06Pipe(t *hx.Toks) string {
	max := t.Int()
	cut := t.Bool()
	skip := t.Bool()
	base := t.Int64()
	bufSize := t.Int()
	nturns := t.Int()
	var appends [][]byte
	for i := 0; i < nturns; i++ {
		n := t.Int()
		var app []byte
		for j := 0; j < n; j++ {
			c := t.Bytes()
			if len(c) == 0 || len(c) > bufSize || (j < n-1 && len(c) != bufSize) {
				return "bad-case"
			}
			app = append(app, c...)
		}
		appends = append(appends, app)
	}
	if t.Err != nil || !t.Done() || bufSize < 1 {
		return "bad-case"
	}
	f, err := os.CreateTemp(scratchDir(), "c06p-*")
	if err != nil {
		return "err-io"
	}
	path := f.Name()
	defer os.Remove(path)
	if base > 0 {
		prefix := make([]byte, base)
		for i := range prefix {
			prefix[i] = 'p'
		}
		prefix[base-1] = '\n'
		if _, err := f.Write(prefix); err != nil {
			return "err-io"
		}
	}
	f.Close()

	settings := &pipeline.Settings{
		Capacity:            8,
		MaintenanceInterval: time.Hour,
		EventTimeout:        pipeline.DefaultEventTimeout,
		Antispam:            pipeline.AntispamSettings{Threshold: pipeline.DefaultAntispamThreshold},
		AvgEventSize:        64,
		MetaCacheSize:       32,
		StreamField:         "stream",
		Decoder:             "raw",
		MaxEventSize:        max,
		CutOffEventByLimit:  cut,
		Metric: &pipeline.MetricSettings{
			HoldDuration:        pipeline.DefaultMetricHoldDuration,
			MaxLabelValueLength: pipeline.DefaultMetricMaxLabelValueLength,
		},
	}
	p := pipeline.New("c06_"+strconv.FormatInt(c06Seq.Add(1), 10), settings, prometheus.NewRegistry(), zap.NewNop())
	p.DisableParallelism()
	p.SetInput(&pipeline.InputPluginInfo{
		PluginStaticInfo:  &pipeline.PluginStaticInfo{Type: "c06"},
		PluginRuntimeInfo: &pipeline.PluginRuntimeInfo{Plugin: &c06Input{}},
	})
	anyPlugin, config := devnull.Factory()
	outPlugin := anyPlugin.(*devnull.Plugin)
	p.SetOutput(&pipeline.OutputPluginInfo{
		PluginStaticInfo:  &pipeline.PluginStaticInfo{Type: "devnull", Config: config},
		PluginRuntimeInfo: &pipeline.PluginRuntimeInfo{Plugin: outPlugin},
	})
	ctl := &c06Ctl{p: p, out: make(chan c06Event, 4)}
	outPlugin.SetOutFn(func(e *pipeline.Event) {
		var msg []byte
		if n := e.Root.Dig("message"); n != nil {
			msg = append([]byte(nil), n.AsBytes()...)
		}
		ctl.out <- c06Event{off: e.Offset, msg: msg}
	})
	p.Start()
	defer p.Stop()

	cur, tail, sk, err := file.VerifWorkerTurnsWith(ctl, max, cut, bufSize, filepath.Clean(path), base, skip, appends)
	if err != nil {
		return "err-io"
	}
	if ctl.timeout {
		return "timeout"
	}
	var sb strings.Builder
	sb.WriteString(strconv.Itoa(len(ctl.events)))
	for _, e := range ctl.events {
		fmt.Fprintf(&sb, " %d %s", e.off, hx.Enc(e.msg))
	}
	fmt.Fprintf(&sb, " %d %s %s", cur, hx.Enc(tail), hx.B(sk))
	return sb.String()
}

func c06PipeLine(w *bufio.Writer, max int, cut, skip bool, base int, bufSize int, appends [][]byte) {
	fmt.Fprintf(w, "c06.pipe %d %s %s %d %d %d", max, hx.B(cut), hx.B(skip), base, bufSize, len(appends))
	for _, a := range appends {
		n := (len(a) + bufSize - 1) / bufSize
		fmt.Fprintf(w, " %d", n)
		for i := 0; i < len(a); i += bufSize {
			e := i + bufSize
			if e > len(a) {
				e = len(a)
			}
			fmt.Fprintf(w, " %s", hx.Enc(a[i:e]))
		}
	}
	w.WriteByte('\n')
}

// genC06Pipe: the size limit as seen by worker AND pipeline. Lines of length max-1, max, max+1
// (newline included) and around 2*max, empty lines, followed by further lines in the same read;
// both modes and no limit; read buffers around the line boundaries (1, max-1, max, max+1, the whole
// content, larger); an append point inside or after the at-limit line; a resume offset; shouldSkip.
func genC06Pipe(w *bufio.Writer, rng *hx.Rng, tier string) {
	maxes := []int{2, 3, 8}
	nrand := 600
	if tier == "thorough" {
		maxes = []int{1, 2, 3, 4, 8, 16}
		nrand = 15000
	}
	letters := []byte("abcdefgh")
	mkLine := func(n int, li int) []byte { // n bytes including the newline
		b := make([]byte, n)
		for i := range b {
			b[i] = letters[(li+i)%len(letters)]
		}
		b[n-1] = '\n'
		return b
	}
	for _, max := range maxes {
		lens := []int{1, max - 1, max, max + 1, 2*max + 1}
		var uniq []int
		seen := map[int]bool{}
		for _, l := range lens {
			if l >= 1 && !seen[l] {
				seen[l] = true
				uniq = append(uniq, l)
			}
		}
		var contents [][]byte
		var rec func(cur []byte, depth int)
		rec = func(cur []byte, depth int) {
			if depth > 0 {
				contents = append(contents, append([]byte(nil), cur...))
				contents = append(contents, append(append([]byte(nil), cur...), 'z')) // unterminated tail
			}
			if depth == 3 {
				return
			}
			for _, l := range uniq {
				rec(append(cur, mkLine(l, depth)...), depth+1)
			}
		}
		rec(nil, 0)
		idx := 0
		for _, content := range contents {
			bufs := map[int]bool{1: true, max: true, max + 1: true, len(content): true, len(content) + 3: true}
			if max > 1 {
				bufs[max-1] = true
			}
			for buf := range bufs {
				if buf < 1 {
					continue
				}
				for _, mode := range []struct {
					max int
					cut bool
				}{{max, false}, {max, true}, {0, false}} {
					if mode.max == 0 && idx%4 != 0 {
						idx++
						continue
					}
					idx++
					apps := [][]byte{content}
					if len(content) > 2 && idx%3 == 0 {
						k := 1 + idx%(len(content)-1)
						apps = [][]byte{content[:k], content[k:]}
					}
					c06PipeLine(w, mode.max, mode.cut, false, 0, buf, apps)
				}
			}
		}
	}
	// random: as the straddle stream of c06.turns, through the pipeline
	for i := 0; i < nrand; i++ {
		max := rng.Range(1, 12)
		if rng.Chance(1, 8) {
			max = 0
		}
		buf := rng.Range(1, max+4)
		nlines := rng.Range(1, 7)
		var content []byte
		for l := 0; l < nlines; l++ {
			var n int
			switch rng.Intn(5) {
			case 0:
				n = 1
			case 1:
				n = max
			case 2:
				n = rng.Range(max-1, max+1)
			case 3:
				n = rng.Range(1, max+1)
			default:
				n = rng.Range(max+1, max+3*buf+2)
			}
			if n < 1 {
				n = 1
			}
			content = append(content, mkLine(n, rng.Intn(8))...)
		}
		if rng.Chance(1, 3) {
			content = append(content, rng.Bytes(rng.Range(1, max+buf+1), []byte("xyz"))...)
		}
		nApp := rng.Range(1, 3)
		var apps [][]byte
		rest := content
		for a := 0; a < nApp-1 && len(rest) > 1; a++ {
			k := rng.Range(1, len(rest)-1)
			apps = append(apps, rest[:k])
			rest = rest[k:]
		}
		apps = append(apps, rest)
		base := 0
		if rng.Chance(1, 5) {
			base = rng.Range(1, 20)
		}
		c06PipeLine(w, max, rng.Bool(), rng.Chance(1, 8), base, buf, apps)
	}
}
