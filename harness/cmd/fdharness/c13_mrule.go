package main

// C13: the match rules of a mask (cfg/matchrule, called from mask.Do via Mask.checkMatchRules)
// run through the real plugin and diffed against the Lean model of matchrule
// (lean/FileD/Model/MatchRule.lean, bytes.ToLower as an oracle table).
//
//   c13.mrule <isOr> <nRules> (<mode 0 prefix|1 contains|2 suffix> <ci> <invert> <nVals> <value>…)… <data>
//             <nLower> (<bytes> <lowered bytes>)…                     (same layout as c20.mr)
//   result    ok 0|1 | panic:<kind> | cfg-rejected
//
// exec: mask with one mask {match_rules:[that rule set], applied_field:"af"} (no regexp) on the
// event {"v": data}; the rule set's decision is whether `af` was added.

import (
	"bufio"
	"bytes"
	"encoding/json"
	"strings"
	"unicode/utf8"

	insaneJSON "github.com/ozontech/insane-json"

	"verifharness/internal/hx"
	"verifharness/internal/jt"
)

func init() {
	execs["c13.mrule"] = c13Isolated("c13.mrule", c13MruleDirect)
}

var c13ModeNames = []string{"prefix", "contains", "suffix"}

func c13MruleDirect(t *hx.Toks) string {
	isOr := t.Bool()
	n := t.Int()
	if t.Err != nil || n < 0 || n > 32 {
		return "bad-case"
	}
	var rules []any
	for i := 0; i < n && t.Err == nil; i++ {
		mode := t.Int()
		ci := t.Bool()
		inv := t.Bool()
		nv := t.Int()
		var vals []any
		for j := 0; j < nv && t.Err == nil; j++ {
			v := t.Bytes()
			if !utf8.Valid(v) {
				return "bad-case" // a JSON configuration cannot carry it
			}
			if ci && (strings.ToLower(string(v)) != string(bytes.ToLower(v)) || len(bytes.ToLower(v)) != len(v)) {
				// Prepare lowers with strings.ToLower, the table holds bytes.ToLower; and the model
				// (Model/MatchRule.lean) takes min/max value size from the lowered values, while Prepare
				// starts them from the un-lowered first value: configured values keep their length here
				// (the event data is what carries the length-changing runes)
				return "bad-case"
			}
			vals = append(vals, string(v))
		}
		if mode < 0 || mode > 2 {
			return "bad-case"
		}
		rules = append(rules, map[string]any{"values": vals, "mode": c13ModeNames[mode], "case_insensitive": ci, "invert": inv})
	}
	data := t.Bytes()
	nl := t.Int()
	for i := 0; i < nl && t.Err == nil; i++ {
		b := t.Bytes()
		l := t.Bytes()
		if !bytes.Equal(bytes.ToLower(b), l) {
			return "bad-oracle"
		}
	}
	if t.Err != nil || !t.Done() || len(data) == 0 {
		return "bad-case" // mask does not look at empty values
	}
	cond := "and"
	if isOr {
		cond = "or"
	}
	cfgJSON, _ := json.Marshal(map[string]any{"masks": []any{map[string]any{
		"match_rules":   []any{map[string]any{"cond": cond, "rules": rules}},
		"applied_field": "af", "applied_value": "1",
	}}})
	ev := jt.O(jt.KV{K: []byte("v"), V: &jt.Tree{Kind: jt.Str, Raw: data}})
	return c13RunOne("mask", cfgJSON, ev, func(root *insaneJSON.Root) string {
		if root.Dig("af") != nil {
			return "ok 1"
		}
		return "ok 0"
	})
}

// c13MruleLine writes a c13.mrule line (c20MrLine computes the ToLower table the model needs).
func c13MruleLine(w *bufio.Writer, isOr bool, rules []c20MRule, data []byte) {
	if len(data) == 0 {
		return
	}
	for _, r := range rules {
		for _, v := range r.Values {
			if r.CI && len(bytes.ToLower([]byte(v))) != len(v) {
				return
			}
		}
	}
	var buf bytes.Buffer
	bw := bufio.NewWriter(&buf)
	c20MrLine(bw, isOr, rules, data)
	bw.Flush()
	w.WriteString("c13.mrule" + strings.TrimPrefix(buf.String(), "c20.mr"))
}

// strings whose lower-case form has another length in UTF-8: Kelvin sign U+212A (3 → 1 byte),
// Ohm U+2126 and Angstrom U+212B (3 → 2), İ U+0130 (2 → 1... i + combining dot in strings.ToLower
// special casing is not used: 2 → 1), ẞ U+1E9E (3 → 2), Ⱥ U+023A (2 → 3: grows), plus runes that
// keep their length (ASCII, Cyrillic) and a byte that is not UTF-8 (1 → 3: U+FFFD)
var c13CaseRunes = []string{"\u212a", "\u2126", "\u212b", "\u0130", "\u1e9e", "\u023a", "\u2c65", "K", "k", "\u042f", "\u044f", "A", "-", "4", "\xff"}

// c13CaseStrings: values with such runes at the start / the end, of lengths around n bytes
func c13CaseStrings(r *hx.Rng, around int) []byte {
	body := r.Bytes(r.Range(0, around+2), []byte("ab.= 42"))
	s := append([]byte(nil), body...)
	for k := r.Range(0, 2); k > 0; k-- {
		s = append(s, c13CaseRunes[r.Intn(len(c13CaseRunes))]...)
	}
	if r.Bool() {
		p := []byte(c13CaseRunes[r.Intn(len(c13CaseRunes))])
		s = append(p, s...)
	}
	return s
}

func genC13Mrule(w *bufio.Writer, rng *hx.Rng, tier string) {
	full := tier == "thorough"
	values := [][]string{{"k"}, {"degrees"}, {"ab", "degrees"}, {"K"}, {"\u212a"}, {"4.2k"}, {"\u023ax"}, {"\u044f", "ab"}, {"x", "abcdefgh"}, {"ss"}, {"\u00e5"}, {"\u2c65"}}
	// systematic: every mode x case_insensitive x invert x value set, data = every short string over
	// the case runes placed at the start / end so that len(raw) straddles the min / max value size
	var datas [][]byte
	for _, a := range append([]string{""}, c13CaseRunes...) {
		for _, b := range append([]string{""}, c13CaseRunes...) {
			for _, mid := range []string{"", "4.2", "t=4.2", "degree", "abcdefg"} {
				datas = append(datas, []byte(a+mid+b))
			}
		}
	}
	idx := 0
	for _, vals := range values {
		for mode := 0; mode < 3; mode++ {
			for _, ci := range []bool{false, true} {
				for _, inv := range []bool{false, true} {
					for _, d := range datas {
						idx++
						if (!full && idx%6 != 0) || (full && idx%2 != 0) {
							continue
						}
						c13MruleLine(w, false, []c20MRule{{Mode: mode, Values: vals, CI: ci, Inv: inv}}, d)
					}
				}
			}
		}
	}
	// random rule sets (and / or, 1-3 rules, values cut from the data or from the value pool)
	n := 4000
	if full {
		n = 30000
	}
	for i := 0; i < n; i++ {
		data := c13CaseStrings(rng, []int{1, 3, 7, 8}[rng.Intn(4)])
		var rules []c20MRule
		for k := rng.Range(1, 3); k > 0; k-- {
			r := c20MRule{Mode: rng.Intn(3), CI: rng.Chance(2, 3), Inv: rng.Chance(1, 4)}
			for nv := rng.Range(1, 3); nv > 0; nv-- {
				var v []byte
				switch rng.Intn(4) {
				case 0:
					vs := values[rng.Intn(len(values))]
					v = []byte(vs[rng.Intn(len(vs))])
				case 1:
					v = bytes.ToLower(data[len(data)-rng.Intn(len(data)+1):])
				case 2:
					v = data[:rng.Intn(len(data)+1)]
				default:
					v = c13CaseStrings(rng, 2)
				}
				if !utf8.Valid(v) || strings.ToLower(string(v)) != string(bytes.ToLower(v)) {
					v = []byte("k")
				}
				r.Values = append(r.Values, string(v))
			}
			rules = append(rules, r)
		}
		c13MruleLine(w, rng.Bool(), rules, data)
	}
}
