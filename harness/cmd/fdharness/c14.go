package main

import (
	"bytes"
	"fmt"
	"regexp"
	"strconv"
	"strings"
	"time"

	"github.com/bitly/go-simplejson"
	"github.com/ozontech/file.d/cfg"
	"github.com/ozontech/file.d/fd"
	"github.com/ozontech/file.d/pipeline"
	"github.com/ozontech/file.d/pipeline/doif"
	"github.com/ozontech/file.d/xtime"
	insaneJSON "github.com/ozontech/insane-json"

	"verifharness/internal/hx"
	"verifharness/internal/jt"
)

// C14: action selection follows the documented boolean semantics.
//
//	c14.doif  <now> <oracle> <tree> E <event>          → 0 | 1 | err
//	c14.match <mode> <invert> R … <nconds> <cond>… E <event> → 0 | 1
//
// (token grammar: lean/FileD/Drv/C14.lean). The oracle tables hold the results of the library
// calls the code makes on this case (bytes.ToLower, regexp, bytes.ContainsAny, xtime.ParseTime,
// insane-json AsInt); exec recomputes them and answers `bad-oracle` when the case's tables are
// not exactly the recomputed ones, so a case line cannot carry a wrong or missing entry.

func init() {
	execs["c14.doif"] = execC14DoIf
	execs["c14.match"] = execC14Match
	gens["C14"] = genC14
}

// ---------------------------------------------------------------- rule tree

type c14Rule struct {
	Kind                  string // f l t y and or not
	Op                    string // f: eq co ca pr su re
	CS                    bool
	Sel                   string
	Path                  [][]byte
	Vals                  [][]byte // f, y; a nil entry is a nil value
	LKind                 string   // l: b a i
	Cmp                   string
	IVal                  int64
	Fmt                   string
	Mode                  string // t: n c
	CVal, Shift, Interval int64
	Ops                   []*c14Rule
	// generator only (not part of the case line): the timestamp the leaf will parse from the event
	aimLhs int64
	hasAim bool
}

var c14OpName = map[string]string{"eq": "equal", "co": "contains", "ca": "contains_any", "pr": "prefix", "su": "suffix", "re": "regex"}
var c14LenName = map[string]string{"b": "byte_len_cmp", "a": "array_len_cmp", "i": "int_val_cmp"}

func c14PathTok(sb *strings.Builder, sel string, path [][]byte) {
	sb.WriteString(hx.Enc([]byte(sel)) + " " + strconv.Itoa(len(path)) + " ")
	for _, p := range path {
		sb.WriteString(hx.Enc(p) + " ")
	}
}

func c14ValTok(v []byte) string {
	if v == nil {
		return "~"
	}
	return hx.Enc(v)
}

func (r *c14Rule) tok(sb *strings.Builder) {
	switch r.Kind {
	case "f":
		sb.WriteString("f " + r.Op + " " + hx.B(r.CS) + " ")
		c14PathTok(sb, r.Sel, r.Path)
		sb.WriteString(strconv.Itoa(len(r.Vals)) + " ")
		for _, v := range r.Vals {
			sb.WriteString(c14ValTok(v) + " ")
		}
	case "l":
		sb.WriteString("l " + r.LKind + " ")
		c14PathTok(sb, r.Sel, r.Path)
		sb.WriteString(r.Cmp + " " + strconv.FormatInt(r.IVal, 10) + " ")
	case "t":
		sb.WriteString("t ")
		c14PathTok(sb, r.Sel, r.Path)
		sb.WriteString(hx.Enc([]byte(r.Fmt)) + " " + r.Cmp + " " + r.Mode + " ")
		sb.WriteString(fmt.Sprintf("%d %d %d ", r.CVal, r.Shift, r.Interval))
	case "y":
		sb.WriteString("y ")
		c14PathTok(sb, r.Sel, r.Path)
		sb.WriteString(strconv.Itoa(len(r.Vals)) + " ")
		for _, v := range r.Vals {
			sb.WriteString(hx.Enc(v) + " ")
		}
	default:
		sb.WriteString(r.Kind + " " + strconv.Itoa(len(r.Ops)) + " ")
		for _, o := range r.Ops {
			o.tok(sb)
		}
	}
}

func c14ParsePath(t *hx.Toks) (string, [][]byte) {
	sel := string(t.Bytes())
	n := t.Int()
	var path [][]byte
	for i := 0; i < n && t.Err == nil; i++ {
		path = append(path, t.Bytes())
	}
	return sel, path
}

func c14ParseVal(t *hx.Toks) []byte {
	s := t.Next()
	if s == "~" {
		return nil
	}
	b, err := hx.Dec(s)
	if err != nil {
		t.Err = err
	}
	if b == nil {
		b = []byte{}
	}
	return b
}

func c14ParseRule(t *hx.Toks, depth int) *c14Rule {
	if depth > 64 {
		t.Err = fmt.Errorf("tree too deep")
		return nil
	}
	r := &c14Rule{Kind: t.Next()}
	switch r.Kind {
	case "f":
		r.Op = t.Next()
		if _, ok := c14OpName[r.Op]; !ok && t.Err == nil {
			t.Err = fmt.Errorf("bad field op")
		}
		r.CS = t.Bool()
		r.Sel, r.Path = c14ParsePath(t)
		n := t.Int()
		for i := 0; i < n && t.Err == nil; i++ {
			r.Vals = append(r.Vals, c14ParseVal(t))
		}
	case "l":
		r.LKind = t.Next()
		if _, ok := c14LenName[r.LKind]; !ok && t.Err == nil {
			t.Err = fmt.Errorf("bad len kind")
		}
		r.Sel, r.Path = c14ParsePath(t)
		r.Cmp = t.Next()
		r.IVal = t.Int64()
	case "t":
		r.Sel, r.Path = c14ParsePath(t)
		r.Fmt = string(t.Bytes())
		r.Cmp = t.Next()
		r.Mode = t.Next()
		r.CVal, r.Shift, r.Interval = t.Int64(), t.Int64(), t.Int64()
	case "y":
		r.Sel, r.Path = c14ParsePath(t)
		n := t.Int()
		for i := 0; i < n && t.Err == nil; i++ {
			r.Vals = append(r.Vals, t.Bytes())
		}
	case "and", "or", "not":
		n := t.Int()
		for i := 0; i < n && t.Err == nil; i++ {
			r.Ops = append(r.Ops, c14ParseRule(t, depth+1))
		}
	default:
		if t.Err == nil {
			t.Err = fmt.Errorf("bad rule token %q", r.Kind)
		}
	}
	return r
}

func c14PathOK(sel string, path [][]byte) bool {
	want := cfg.ParseFieldSelector(sel)
	if len(want) != len(path) {
		return false
	}
	for i := range want {
		if want[i] != string(path[i]) {
			return false
		}
	}
	return true
}

var c14Cmps = map[string]bool{"lt": true, "le": true, "gt": true, "ge": true, "eq": true, "ne": true}

// wellFormed: everything the model takes for granted about a case line
func (r *c14Rule) wellFormed() bool {
	switch r.Kind {
	case "f", "y":
		return c14PathOK(r.Sel, r.Path)
	case "l":
		return c14PathOK(r.Sel, r.Path) && c14Cmps[r.Cmp]
	case "t":
		if !c14PathOK(r.Sel, r.Path) || !c14Cmps[r.Cmp] {
			return false
		}
		if r.Mode == "n" {
			// the node's updater goroutine sleeps update_interval between stores: keep it asleep
			return r.Interval >= int64(time.Minute)
		}
		if r.Mode != "c" {
			return false
		}
		back, err := time.Parse(time.RFC3339Nano, time.Unix(0, r.CVal).UTC().Format(time.RFC3339Nano))
		return err == nil && back.UnixNano() == r.CVal
	default:
		for _, o := range r.Ops {
			if !o.wellFormed() {
				return false
			}
		}
		return true
	}
}

func (r *c14Rule) hasByteLen() bool {
	if r.Kind == "l" && r.LKind == "b" {
		return true
	}
	for _, o := range r.Ops {
		if o.hasByteLen() {
			return true
		}
	}
	return false
}

// toMap builds the configuration map the way a decoded YAML/JSON do_if section looks.
func (r *c14Rule) toMap() map[string]any {
	m := map[string]any{}
	switch r.Kind {
	case "f":
		m["op"] = c14OpName[r.Op]
		m["field"] = r.Sel
		if !r.CS || len(r.Sel)%2 == 0 {
			m["case_sensitive"] = r.CS
		}
		m["values"] = c14ValuesAny(r.Vals, len(r.Sel)%3 == 0)
	case "l":
		m["op"] = c14LenName[r.LKind]
		m["field"] = r.Sel
		m["cmp_op"] = r.Cmp
		m["value"] = int(r.IVal)
	case "t":
		m["op"] = "ts_cmp"
		m["field"] = r.Sel
		m["cmp_op"] = r.Cmp
		m["format"] = r.Fmt
		if r.Mode == "n" {
			m["value"] = "now"
		} else {
			m["value"] = time.Unix(0, r.CVal).UTC().Format(time.RFC3339Nano)
		}
		m["value_shift"] = fmt.Sprintf("%dns", r.Shift)
		m["update_interval"] = fmt.Sprintf("%dns", r.Interval)
	case "y":
		m["op"] = "check_type"
		m["field"] = r.Sel
		m["values"] = c14ValuesAny(r.Vals, false)
	default:
		m["op"] = r.Kind
		ops := make([]any, 0, len(r.Ops))
		for _, o := range r.Ops {
			ops = append(ops, o.toMap())
		}
		m["operands"] = ops
	}
	return m
}

// a one-element list may be written as a scalar in the configuration
func c14ValuesAny(vals [][]byte, scalarOK bool) any {
	if scalarOK && len(vals) == 1 {
		if vals[0] == nil {
			return nil
		}
		return string(vals[0])
	}
	out := make([]any, 0, len(vals))
	for _, v := range vals {
		if v == nil {
			out = append(out, nil)
		} else {
			out = append(out, string(v))
		}
	}
	return out
}

// ---------------------------------------------------------------- oracle tables

type c14Tables struct {
	seen  map[string]bool
	lower []string
	re    []string
	bad   []string
	cany  []string
	tm    []string
	ints  []string
}

func (tb *c14Tables) add(list *[]string, entry string) {
	if tb.seen == nil {
		tb.seen = map[string]bool{}
	}
	k := fmt.Sprintf("%p|%s", list, entry)
	if tb.seen[k] {
		return
	}
	tb.seen[k] = true
	*list = append(*list, entry)
}

func (tb *c14Tables) addLower(b []byte) []byte {
	l := bytes.ToLower(b)
	tb.add(&tb.lower, hx.Enc(b)+" "+hx.Enc(l))
	return l
}

func c14Sec(tag string, l []string) string {
	s := tag + " " + strconv.Itoa(len(l))
	if len(l) > 0 {
		s += " " + strings.Join(l, " ")
	}
	return s
}

func (tb *c14Tables) reTok() string { return c14Sec("R", tb.re) }

func (tb *c14Tables) tok() string {
	return strings.Join([]string{c14Sec("L", tb.lower), c14Sec("R", tb.re), c14Sec("X", tb.bad),
		c14Sec("C", tb.cany), c14Sec("T", tb.tm), c14Sec("I", tb.ints)}, " ")
}

func c14ReadSec(t *hx.Toks, tag string, width int) []string {
	if t.Next() != tag && t.Err == nil {
		t.Err = fmt.Errorf("expected table %s", tag)
	}
	n := t.Int()
	var out []string
	for i := 0; i < n && t.Err == nil; i++ {
		var parts []string
		for j := 0; j < width; j++ {
			parts = append(parts, t.Next())
		}
		out = append(out, strings.Join(parts, " "))
	}
	return out
}

func c14ParseTables(t *hx.Toks) *c14Tables {
	tb := &c14Tables{}
	tb.lower = c14ReadSec(t, "L", 2)
	tb.re = c14ReadSec(t, "R", 3)
	tb.bad = c14ReadSec(t, "X", 1)
	tb.cany = c14ReadSec(t, "C", 3)
	tb.tm = c14ReadSec(t, "T", 4)
	tb.ints = c14ReadSec(t, "I", 2)
	return tb
}

func c14Strs(path [][]byte) []string {
	out := make([]string, len(path))
	for i, p := range path {
		out[i] = string(p)
	}
	return out
}

// collect evaluates every library call the code (and the spec) makes for rule r on the event.
func (tb *c14Tables) collect(r *c14Rule, root *insaneJSON.Root) {
	switch r.Kind {
	case "f":
		d := doif.NewEventData(root).Get(c14Strs(r.Path)...)
		if d == nil {
			d = []byte{}
		}
		dl := d
		if !r.CS {
			for _, v := range r.Vals {
				if v != nil {
					tb.addLower(v)
				}
			}
			dl = tb.addLower(d)
			max := 0
			for _, v := range r.Vals {
				if len(v) > max {
					max = len(v)
				}
			}
			if r.Op == "pr" && len(d) > max {
				tb.addLower(d[:max])
			}
			if r.Op == "su" && len(d) > max {
				tb.addLower(d[len(d)-max:])
			}
		}
		if r.Op == "ca" && len(r.Vals) > 0 {
			chars := r.Vals[0]
			if !r.CS && chars != nil {
				chars = bytes.ToLower(chars)
			}
			tb.add(&tb.cany, hx.Enc(dl)+" "+hx.Enc(chars)+" "+hx.B(bytes.ContainsAny(dl, string(chars))))
		}
		if r.Op == "re" {
			for _, v := range r.Vals {
				re, err := regexp.Compile(string(v))
				if err != nil {
					tb.add(&tb.bad, hx.Enc(v))
					continue
				}
				tb.add(&tb.re, hx.Enc(v)+" "+hx.Enc(d)+" "+hx.B(re.Match(d)))
			}
		}
	case "l":
		if r.LKind == "i" {
			n := root.Dig(c14Strs(r.Path)...)
			if n != nil && (n.IsNumber() || n.IsString()) {
				text := n.AsString()
				tb.add(&tb.ints, hx.Enc([]byte(text))+" "+strconv.Itoa(n.AsInt()))
			}
		}
	case "t":
		n := root.Dig(c14Strs(r.Path)...)
		if n != nil && n.IsString() {
			val := n.AsString()
			format, err := xtime.ParseFormatName(r.Fmt)
			if err != nil {
				format = r.Fmt
			}
			tm, err := xtime.ParseTime(format, val)
			if err != nil {
				tb.add(&tb.tm, hx.Enc([]byte(r.Fmt))+" "+hx.Enc([]byte(val))+" 0 0")
			} else {
				tb.add(&tb.tm, hx.Enc([]byte(r.Fmt))+" "+hx.Enc([]byte(val))+" 1 "+strconv.FormatInt(tm.UnixNano(), 10))
			}
		}
	case "y":
	default:
		for _, o := range r.Ops {
			tb.collect(o, root)
		}
	}
}

// ---------------------------------------------------------------- exec

func c14Decode(text []byte) *insaneJSON.Root {
	root := insaneJSON.Spawn()
	if err := root.DecodeBytes(text); err != nil {
		insaneJSON.Release(root)
		return nil
	}
	return root
}

func execC14DoIf(t *hx.Toks) string {
	now := t.Int64()
	given := c14ParseTables(t)
	rule := c14ParseRule(t, 0)
	if t.Next() != "E" {
		return "bad-case"
	}
	ev := jt.Parse(t)
	if t.Err != nil || !t.Done() || !rule.wellFormed() {
		return "bad-case"
	}
	text := ev.JSON()
	scratch := c14Decode(text)
	if scratch == nil {
		return "bad-case"
	}
	defer insaneJSON.Release(scratch)
	want := &c14Tables{}
	want.collect(rule, scratch)
	if want.tok() != given.tok() {
		return "bad-oracle"
	}
	// the tree the model sees must be the tree insane-json sees
	if !jt.Equal(jt.FromNode(scratch.Node), ev) {
		return "bad-case"
	}
	chk, err := doif.NewFromMap(rule.toMap())
	if err != nil {
		return "err"
	}
	for attempt := 0; attempt < 8; attempt++ {
		root := c14Decode(text) // a fresh decode: Check unescapes strings in place
		if root == nil {
			return "bad-case"
		}
		doif.VerifSetNow(chk, now)
		res := chk.Check(doif.NewEventData(root))
		pinned := doif.VerifNowIs(chk, now)
		insaneJSON.Release(root)
		if pinned {
			return hx.B(res)
		}
	}
	return "now-not-pinned"
}

type c14Cond struct {
	Sel  string
	Path [][]byte
	Kind string // r s v
	Vals [][]byte
}

func (c *c14Cond) tok(sb *strings.Builder) {
	c14PathTok(sb, c.Sel, c.Path)
	switch c.Kind {
	case "r", "s":
		sb.WriteString(c.Kind + " " + hx.Enc(c.Vals[0]) + " ")
	default:
		sb.WriteString("v " + strconv.Itoa(len(c.Vals)) + " ")
		for _, v := range c.Vals {
			sb.WriteString(hx.Enc(v) + " ")
		}
	}
}

func c14MatchTables(conds []*c14Cond, root *insaneJSON.Root) *c14Tables {
	tb := &c14Tables{}
	for _, c := range conds {
		if c.Kind != "r" {
			continue
		}
		n := root.Dig(c14Strs(c.Path)...)
		if n == nil {
			continue
		}
		re, err := regexp.Compile(string(c.Vals[0]))
		if err != nil {
			continue
		}
		val := n.AsString()
		tb.add(&tb.re, hx.Enc(c.Vals[0])+" "+hx.Enc([]byte(val))+" "+hx.B(re.MatchString(val)))
	}
	return tb
}

func execC14Match(t *hx.Toks) string {
	mode := t.Next()
	invert := t.Bool()
	given := &c14Tables{re: c14ReadSec(t, "R", 3)}
	n := t.Int()
	var conds []*c14Cond
	for i := 0; i < n && t.Err == nil; i++ {
		c := &c14Cond{}
		c.Sel, c.Path = c14ParsePath(t)
		c.Kind = t.Next()
		switch c.Kind {
		case "r", "s":
			c.Vals = [][]byte{t.Bytes()}
		case "v":
			k := t.Int()
			for j := 0; j < k && t.Err == nil; j++ {
				c.Vals = append(c.Vals, t.Bytes())
			}
		default:
			return "bad-case"
		}
		conds = append(conds, c)
	}
	if t.Next() != "E" {
		return "bad-case"
	}
	ev := jt.Parse(t)
	if t.Err != nil || !t.Done() {
		return "bad-case"
	}
	// the action configuration, as decoded from the pipeline config
	mf := map[string]any{}
	for _, c := range conds {
		if _, dup := mf[c.Sel]; dup || !c14PathOK(c.Sel, c.Path) {
			return "bad-case"
		}
		switch c.Kind {
		case "r":
			mf[c.Sel] = "/" + string(c.Vals[0]) + "/"
		case "s":
			if len(c.Vals[0]) > 0 && c.Vals[0][0] == '/' {
				return "bad-case" // would be read as a regular expression
			}
			mf[c.Sel] = string(c.Vals[0])
		default:
			l := make([]any, 0, len(c.Vals))
			for _, v := range c.Vals {
				l = append(l, string(v))
			}
			mf[c.Sel] = l
		}
	}
	action := simplejson.New()
	action.Set("match_fields", mf)
	if mode != "default" {
		action.Set("match_mode", mode)
	}
	action.Set("match_invert", invert)
	mconds, mm, inv, err := fd.VerifExtractMatch(action)
	if err != nil || mm == pipeline.MatchModeUnknown {
		return "bad-case"
	}
	text := ev.JSON()
	scratch := c14Decode(text)
	if scratch == nil {
		return "bad-case"
	}
	defer insaneJSON.Release(scratch)
	if c14MatchTables(conds, scratch).reTok() != given.reTok() {
		return "bad-oracle"
	}
	if !jt.Equal(jt.FromNode(scratch.Node), ev) {
		return "bad-case"
	}
	root := c14Decode(text)
	if root == nil {
		return "bad-case"
	}
	defer insaneJSON.Release(root)
	info := &pipeline.ActionPluginStaticInfo{MatchConditions: mconds, MatchMode: mm, MatchInvert: inv}
	return hx.B(pipeline.VerifIsMatch(info, root))
}
