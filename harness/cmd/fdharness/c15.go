package main

import (
	"bufio"
	"fmt"
	"regexp"
	"runtime"
	"strconv"
	"strings"
	"sync"
	"sync/atomic"
	"time"
	"unicode/utf8"

	"github.com/ozontech/file.d/cfg"
	"github.com/ozontech/file.d/fd"
	"github.com/ozontech/file.d/metric"
	"github.com/ozontech/file.d/pipeline"
	"github.com/ozontech/file.d/plugin/action/join"
	"github.com/ozontech/file.d/plugin/action/join_template"
	"github.com/ozontech/file.d/plugin/action/join_template/ascii"
	"github.com/ozontech/file.d/plugin/action/join_template/template"
	"github.com/ozontech/file.d/plugin/input/k8s"
	"github.com/ozontech/file.d/plugin/input/fake"
	"github.com/ozontech/file.d/plugin/input/k8s/meta"
	insaneJSON "github.com/ozontech/insane-json"
	"github.com/prometheus/client_golang/prometheus"
	"go.uber.org/zap"
	"go.uber.org/zap/zapcore"
	corev1 "k8s.io/api/core/v1"

	"verifharness/internal/hx"
	"verifharness/internal/jt"
)

// C15: multi-line reassembly (join, join_template, k8s MultilineAction).
//
// Function cases drive ONE real plugin instance (registry factory + Start + Do) with a mock
// ActionPluginController that records Propagate calls:
//
//	c15.join <negate> <max> <startRe> <contRe> <npath> <key>… <n> item…
//	    item = T <tag> | E <tag> <startOK> <contOK> <tree>
//	c15.jt <max> <ntpl> (<name> <negate>)… <npath> <key>… <n> item…
//	    item = T <tag> | E <tag> <starts…> <conts…> <tree>
//	result = (R <res> <nprop> (<tag> <tree>)… (N | E <tag> <tree>))… (ok | changed | panic:<kind> | fatal)
//	         changed = an event read again at the end of the case differs from what it was when it
//	         was handed over (propagated / passed)
//
// The oracle bits in the case line are recomputed here with the real regexps / template
// functions; a case whose bits disagree is rejected (`bad-case`), so a corpus line cannot lie.

func init() {
	execs["c15.join"] = execC15Join
	execs["c15.jt"] = execC15JT
	execs["c15.k8s"] = execC15K8s
	execs["c15.pipe"] = execC15Pipe
	execs["c15.ascii"] = execC15Ascii
	execs["c15.tpl"] = execC15Tpl
	gens["C15"] = genC15
}

// ---------------------------------------------------------------- shared plumbing

type c15Fatal struct{}

type c15FatalHook struct{}

func (c15FatalHook) OnWrite(*zapcore.CheckedEntry, []zapcore.Field) { panic(c15Fatal{}) }

// a silent logger whose Panicf panics (zap does that itself) and whose Fatalf panics with a
// marker instead of exiting the process
func c15Logger() *zap.SugaredLogger {
	return zap.NewNop().WithOptions(zap.WithFatalHook(c15FatalHook{})).Sugar()
}

type c15Prop struct {
	ev   *pipeline.Event
	tree string
}

type c15Ctl struct {
	props   []c15Prop
	exceeds int
}

func (c *c15Ctl) Propagate(e *pipeline.Event) {
	c.props = append(c.props, c15Prop{e, jt.FromNode(e.Root.Node).Tok()})
}
func (c *c15Ctl) Spawn(*pipeline.Event, []*insaneJSON.Node) {}
func (c *c15Ctl) IncMaxEventSizeExceeded(...string)         { c.exceeds++ }

var c15Metrics = metric.NewCtl("c15", prometheus.NewRegistry(), 0, 0)

func c15Params(ctl pipeline.ActionPluginController, settings *pipeline.Settings) *pipeline.ActionPluginParams {
	return &pipeline.ActionPluginParams{
		PluginDefaultParams: pipeline.PluginDefaultParams{
			PipelineName:     "c15",
			PipelineSettings: settings,
			MetricCtl:        c15Metrics,
		},
		Controller: ctl,
		Logger:     c15Logger(),
	}
}

func c15ResTok(r pipeline.ActionResult) string {
	switch r {
	case pipeline.ActionPass:
		return "pass"
	case pipeline.ActionCollapse:
		return "collapse"
	case pipeline.ActionDiscard:
		return "discard"
	case pipeline.ActionHold:
		return "hold"
	case pipeline.ActionBreak:
		return "break"
	}
	return "res" + strconv.Itoa(int(r))
}

// one Do call with panics and Fatalf turned into an end marker
func c15Do(p pipeline.ActionPlugin, e *pipeline.Event) (res pipeline.ActionResult, end string) {
	defer func() {
		if r := recover(); r != nil {
			if _, ok := r.(c15Fatal); ok {
				end = "fatal"
				return
			}
			end = "panic:" + panicKind(r)
		}
	}()
	return p.Do(e), ""
}

func c15Path(t *hx.Toks) []string {
	n := t.Int()
	var path []string
	for i := 0; i < n && t.Err == nil; i++ {
		path = append(path, string(t.Bytes()))
	}
	return path
}

func c15NewEvent(tree *jt.Tree) (*pipeline.Event, bool) {
	root := insaneJSON.Spawn()
	text := tree.JSON()
	if err := root.DecodeBytes(text); err != nil {
		insaneJSON.Release(root)
		return nil, false
	}
	return &pipeline.Event{Root: root, Size: len(text)}, true
}

func c15Timeout() *pipeline.Event {
	e := &pipeline.Event{SourceName: "timeout"}
	e.SetTimeoutKind()
	return e
}

// runs the calls on a started plugin and renders the result
type c15Call struct {
	timeout bool
	tag     int
	tree    *jt.Tree
}

func c15Run(p pipeline.ActionPlugin, ctl *c15Ctl, calls []c15Call) string {
	var sb strings.Builder
	tags := map[*pipeline.Event]int{}
	var roots []*insaneJSON.Root
	defer func() {
		for _, r := range roots {
			insaneJSON.Release(r)
		}
	}()
	// deferred observation: every event that left the instance (propagated, or passed) is kept
	// and read a SECOND time at the end of the case, after all later runs were processed; an
	// output encodes an event whenever it likes, so the value must be stable after hand-over
	type handed struct {
		ev   *pipeline.Event
		tree string
	}
	var watch []handed
	for _, c := range calls {
		var e *pipeline.Event
		if c.timeout {
			e = c15Timeout()
		} else {
			var ok bool
			e, ok = c15NewEvent(c.tree)
			if !ok {
				return "bad-case"
			}
			roots = append(roots, e.Root)
		}
		tags[e] = c.tag
		ctl.props = ctl.props[:0]
		res, end := c15Do(p, e)
		if end != "" {
			sb.WriteString(end)
			return sb.String()
		}
		fmt.Fprintf(&sb, "R %s %d", c15ResTok(res), len(ctl.props))
		for _, pr := range ctl.props {
			fmt.Fprintf(&sb, " %d %s", tags[pr.ev], pr.tree)
			watch = append(watch, handed{pr.ev, pr.tree})
		}
		if c.timeout {
			sb.WriteString(" N ")
		} else {
			self := jt.FromNode(e.Root.Node).Tok()
			fmt.Fprintf(&sb, " E %d %s ", c.tag, self)
			if res == pipeline.ActionPass {
				watch = append(watch, handed{e, self})
			}
		}
	}
	for _, h := range watch {
		if jt.FromNode(h.ev.Root.Node).Tok() != h.tree {
			sb.WriteString("changed")
			return sb.String()
		}
	}
	sb.WriteString("ok")
	return sb.String()
}

// the value `Do` looks at: (node found, IsString, AsString) computed on a fresh decode
func c15Field(tree *jt.Tree, path []string) (found, isStr bool, val string) {
	root := insaneJSON.Spawn()
	defer insaneJSON.Release(root)
	if err := root.DecodeBytes(tree.JSON()); err != nil {
		return false, false, ""
	}
	n := root.Dig(path...)
	if n == nil {
		return false, false, ""
	}
	return true, n.IsString(), n.AsString()
}

// ---------------------------------------------------------------- join

func execC15Join(t *hx.Toks) string {
	negate := t.Bool()
	max := t.Int()
	startRe := string(t.Bytes())
	contRe := string(t.Bytes())
	path := c15Path(t)
	n := t.Int()
	if t.Err != nil || len(path) == 0 {
		return "bad-case"
	}
	sre, err1 := regexp.Compile(startRe)
	cre, err2 := regexp.Compile(contRe)
	if err1 != nil || err2 != nil {
		return "bad-case"
	}
	var calls []c15Call
	for i := 0; i < n && t.Err == nil; i++ {
		switch t.Next() {
		case "T":
			calls = append(calls, c15Call{timeout: true, tag: t.Int()})
		case "E":
			tag := t.Int()
			sOK, cOK := t.Bool(), t.Bool()
			tree := jt.Parse(t)
			if t.Err != nil {
				return "bad-case"
			}
			found, _, val := c15Field(tree, path)
			if found && (sre.MatchString(val) != sOK || cre.MatchString(val) != cOK) {
				return "bad-case"
			}
			calls = append(calls, c15Call{tag: tag, tree: tree})
		default:
			return "bad-case"
		}
	}
	if t.Err != nil || !t.Done() {
		return "bad-case"
	}
	info, err := fd.DefaultPluginRegistry.GetActionByType("join")
	if err != nil {
		return "bad-case"
	}
	plugin, config := info.Factory()
	jc := config.(*join.Config)
	jc.Field = cfg.FieldSelector(cfg.BuildFieldSelector(path))
	jc.Start = cfg.Regexp("/" + startRe + "/")
	jc.Continue = cfg.Regexp("/" + contRe + "/")
	jc.MaxEventSize = max
	jc.Negate = negate
	if err := cfg.Parse(jc, nil); err != nil {
		return "bad-case"
	}
	ctl := &c15Ctl{}
	ap := plugin.(pipeline.ActionPlugin)
	ap.Start(jc, c15Params(ctl, &pipeline.Settings{AvgEventSize: 16}))
	defer ap.Stop()
	return c15Run(ap, ctl, calls)
}

// ---------------------------------------------------------------- join_template

func execC15JT(t *hx.Toks) string {
	max := t.Int()
	ntpl := t.Int()
	var names []string
	var tpls []template.Template
	for i := 0; i < ntpl && t.Err == nil; i++ {
		name := string(t.Bytes())
		neg := t.Bool()
		tp, err := template.InitTemplate(name)
		if err != nil || tp.Negate != neg {
			return "bad-case"
		}
		names = append(names, name)
		tpls = append(tpls, tp)
	}
	path := c15Path(t)
	n := t.Int()
	if t.Err != nil || len(path) == 0 || ntpl == 0 {
		return "bad-case"
	}
	var calls []c15Call
	for i := 0; i < n && t.Err == nil; i++ {
		switch t.Next() {
		case "T":
			calls = append(calls, c15Call{timeout: true, tag: t.Int()})
		case "E":
			tag := t.Int()
			starts := make([]bool, ntpl)
			conts := make([]bool, ntpl)
			for k := range starts {
				starts[k] = t.Bool()
			}
			for k := range conts {
				conts[k] = t.Bool()
			}
			tree := jt.Parse(t)
			if t.Err != nil {
				return "bad-case"
			}
			found, _, val := c15Field(tree, path)
			if found {
				for k, tp := range tpls {
					if tp.StartCheck(val) != starts[k] || tp.ContinueCheck(val) != conts[k] {
						return "bad-case"
					}
				}
			}
			calls = append(calls, c15Call{tag: tag, tree: tree})
		default:
			return "bad-case"
		}
	}
	if t.Err != nil || !t.Done() {
		return "bad-case"
	}
	info, err := fd.DefaultPluginRegistry.GetActionByType("join_template")
	if err != nil {
		return "bad-case"
	}
	plugin, config := info.Factory()
	jc := config.(*join_template.Config)
	jc.Field = cfg.FieldSelector(cfg.BuildFieldSelector(path))
	jc.MaxEventSize = max
	jc.Templates = names
	if err := cfg.Parse(jc, nil); err != nil {
		return "bad-case"
	}
	ctl := &c15Ctl{}
	ap := plugin.(pipeline.ActionPlugin)
	ap.Start(jc, c15Params(ctl, &pipeline.Settings{AvgEventSize: 16}))
	defer ap.Stop()
	return c15Run(ap, ctl, calls)
}

// ---------------------------------------------------------------- generators

type c15JoinCfg struct {
	negate           bool
	max              int
	startRe, contRe  string
	sre, cre         *regexp.Regexp
	path             []string
}

func (c *c15JoinCfg) compile() {
	c.sre = regexp.MustCompile(c.startRe)
	c.cre = regexp.MustCompile(c.contRe)
}

// wraps a field value into an event object at the configured path (nil = field absent)
func c15Wrap(path []string, v *jt.Tree, id int, extra bool) *jt.Tree {
	var inner *jt.Tree
	if v != nil {
		inner = jt.O(jt.F(path[len(path)-1], v))
	} else {
		inner = jt.O()
	}
	if extra {
		inner.Obj = append([]jt.KV{jt.F("pre", jt.S("x"))}, inner.Obj...)
		inner.Obj = append(inner.Obj, jt.F("post", jt.Nu("1")))
	}
	for i := len(path) - 2; i >= 0; i-- {
		inner = jt.O(jt.F(path[i], inner))
	}
	inner.Obj = append(inner.Obj, jt.F("id", jt.Nu(strconv.Itoa(id))))
	return inner
}

type c15Item struct {
	timeout bool
	tag     int
	tree    *jt.Tree
}

func c15JoinLine(w *bufio.Writer, c *c15JoinCfg, items []c15Item) {
	fmt.Fprintf(w, "c15.join %s %d %s %s %d", hx.B(c.negate), c.max, hx.Enc([]byte(c.startRe)), hx.Enc([]byte(c.contRe)), len(c.path))
	for _, k := range c.path {
		fmt.Fprintf(w, " %s", hx.Enc([]byte(k)))
	}
	fmt.Fprintf(w, " %d", len(items))
	for _, it := range items {
		if it.timeout {
			fmt.Fprintf(w, " T %d", it.tag)
			continue
		}
		_, _, val := c15Field(it.tree, c.path)
		fmt.Fprintf(w, " E %d %s %s %s", it.tag, hx.B(c.sre.MatchString(val)), hx.B(c.cre.MatchString(val)), it.tree.Tok())
	}
	w.WriteByte('\n')
}

// is the instance mid-run after this item (generator-side bookkeeping for placing time-outs)
func (c *c15JoinCfg) busyAfter(busy bool, it c15Item) bool {
	if it.timeout {
		return false
	}
	found, isStr, val := c15Field(it.tree, c.path)
	if !found {
		return false
	}
	if isStr && c.sre.MatchString(val) {
		return true
	}
	if c.cre.MatchString(val) != c.negate {
		return busy
	}
	return false
}

var c15Regexps = []string{`^a`, `^b`, `a$`, `^[ab]`, `c`, `^$`, `^\s`, `.`, `^[^a]`, `b+c`, `^(a|bc)`, `^1`, `x`, `^(true|null)$`}

func c15RandValue(rng *hx.Rng) *jt.Tree {
	switch rng.Intn(14) {
	case 0:
		return nil // absent
	case 1:
		return jt.Nu([]string{"1", "12", "0", "1e3"}[rng.Intn(4)])
	case 2:
		return []*jt.Tree{jt.Bo(true), jt.Bo(false), jt.N()}[rng.Intn(3)]
	case 3:
		if rng.Bool() {
			return jt.O(jt.F("a", jt.S("a")))
		}
		return jt.A(jt.S("a"), jt.Nu("1"))
	default:
		n := rng.Range(0, 6)
		if rng.Chance(1, 10) {
			n = rng.Range(6, 40)
		}
		return jt.S(string(rng.Bytes(n, []byte("aabbc \n1\"\\é"[:]))))
	}
}

func genC15Join(w *bufio.Writer, rng *hx.Rng, tier string) {
	// exhaustive small scope: every call sequence over {start line, continuation line, other
	// line, line that is both, number, absent field, time-out} up to length L, for negate x limits
	alpha := []func(id int) c15Item{
		func(id int) c15Item { return c15Item{tree: c15Wrap([]string{"log"}, jt.S("a1"), id, false)} },
		func(id int) c15Item { return c15Item{tree: c15Wrap([]string{"log"}, jt.S("b2"), id, false)} },
		func(id int) c15Item { return c15Item{tree: c15Wrap([]string{"log"}, jt.S("c"), id, false)} },
		func(id int) c15Item { return c15Item{tree: c15Wrap([]string{"log"}, jt.S("ab"), id, false)} },
		func(id int) c15Item { return c15Item{tree: c15Wrap([]string{"log"}, jt.Nu("12"), id, false)} },
		func(id int) c15Item { return c15Item{tree: c15Wrap([]string{"log"}, nil, id, false)} },
		func(id int) c15Item { return c15Item{timeout: true} },
	}
	maxLen := 4
	if tier == "thorough" {
		maxLen = 5
	}
	cfgs := []*c15JoinCfg{
		{startRe: `^a`, contRe: `b|1`, max: 0},
		{startRe: `^a`, contRe: `b|1`, max: 3},
		{startRe: `^a`, contRe: `b|1`, max: 2, negate: true},
		{startRe: `^a`, contRe: `^a|c`, max: 0, negate: true},
		{startRe: `a`, contRe: `.`, max: 5},
	}
	for _, c := range cfgs {
		c.path = []string{"log"}
		c.compile()
	}
	var rec func(cur []int)
	rec = func(cur []int) {
		if len(cur) > 0 {
			for _, c := range cfgs {
				items := make([]c15Item, len(cur))
				for i, a := range cur {
					items[i] = alpha[a](i)
				}
				c15JoinLine(w, c, items)
			}
		}
		if len(cur) == maxLen {
			return
		}
		for a := range alpha {
			rec(append(cur, a))
		}
	}
	rec(nil)

	// random: longer sequences, PRNG classifiers, nested paths, several stream tags, time-outs
	// placed where the instance is busy (and a few where it is not: the documented panic)
	nrand := 3000
	if tier == "thorough" {
		nrand = 40000
	}
	for i := 0; i < nrand; i++ {
		c := &c15JoinCfg{
			negate:  rng.Chance(1, 4),
			max:     []int{0, 0, 8, 64, 1, 3}[rng.Intn(6)],
			startRe: c15Regexps[rng.Intn(len(c15Regexps))],
			contRe:  c15Regexps[rng.Intn(len(c15Regexps))],
			path:    [][]string{{"log"}, {"log"}, {"k", "log"}, {"a", "b", "c"}, {"k.dot"}}[rng.Intn(5)],
		}
		c.compile()
		n := rng.Range(1, 30)
		ntags := rng.Range(1, 3)
		tag := 0
		busy := false
		var items []c15Item
		for len(items) < n {
			if !busy && ntags > 1 && rng.Chance(1, 3) {
				tag = rng.Intn(ntags)
			}
			var it c15Item
			switch {
			case busy && rng.Chance(1, 6), !busy && rng.Chance(1, 150):
				it = c15Item{timeout: true, tag: tag}
			default:
				it = c15Item{tag: tag, tree: c15Wrap(c.path, c15RandValue(rng), len(items), rng.Chance(1, 3))}
			}
			items = append(items, it)
			busy = c.busyAfter(busy, it)
		}
		c15JoinLine(w, c, items)
	}
}

var c15TplLines = []string{
	"panic: runtime error: index out of range", "fatal error: all goroutines are asleep", "http: panic serving 1.2.3.4",
	"goroutine 1 [running]:", "main.main()", "\t/app/main.go:10 +0x1d", "created by net/http.(*Server).Serve", "[signal SIGSEGV: segmentation violation]",
	"panic(0x1234, 0xabc)", "", "   ", "\t", "plain text", "WARNING: DATA RACE", "==================", "Read at 0x00c by goroutine 7:",
	"Unhandled exception. System.NullReferenceException: x", "  unhandled EXCEPTION", "   at Foo.Bar() in /x.cs:line 1", " ---> System.Exception: y",
	"   --- End of inner exception stack trace ---", "System.IO.IOException: z", ".Exception:", "x.Exception:", "at", " at ", "<autogenerated>:1", "a.b(c)", "(a).b()", ").x()",
	"goroutine x [", "goroutine 12 ", ".go:", ".go:x", "panic 0x", "panic0xg", "created by ", "===", "WARNING: DATA RAC",
	// first / last members and outside neighbours of the classes the fast-path checks use
	"panic(0xf6afc0, 0xd7c240)", "panic(0xa6afc0, 0x1)", "panic(0x06afc0, 0x1)", "panic(0x9c, 0x1)", "panic({0xf1, 0x2})",
	"panic(0xg1)", "panic(0x`1)", "panic(0x/1)", "panic(0x:1)", "panic(0x,1)", "panic(0xF1)",
	"x.go:0", "x.go:9", "x.go:/", "x.go::", "goroutine 0 [x", "goroutine 9 [x", "goroutine / [x", "goroutine : [x",
	"\r", "\f", " \r", "a.z()", "A.Z()", "_._()", "@.a()", "[.a()", "`.a()", "{.a()", "a0.b9()", "a/.b()", "a:.b()",
	"UNHANDLED EXCEPTION", "unhandled exceptioN", "Unhandled@exception", "--- END OF", "--- end of", "zException:", "ZException:", "9Exception:", "_Exception:", "/Exception:", "{Exception:",
}

func genC15JT(w *bufio.Writer, rng *hx.Rng, tier string) {
	all := []string{"go_panic", "cs_exception", "go_data_race"}
	nrand := 1500
	if tier == "thorough" {
		nrand = 15000
	}
	for i := 0; i < nrand; i++ {
		// a non-empty ordered selection of templates (repetitions allowed)
		ntpl := rng.Range(1, 3)
		var names []string
		var tpls []template.Template
		for k := 0; k < ntpl; k++ {
			name := all[rng.Intn(len(all))]
			tp, _ := template.InitTemplate(name)
			names = append(names, name)
			tpls = append(tpls, tp)
		}
		path := [][]string{{"log"}, {"log"}, {"k", "msg"}}[rng.Intn(3)]
		max := []int{0, 0, 8, 64}[rng.Intn(4)]
		n := rng.Range(1, 25)
		type titem struct {
			c15Item
			starts, conts []bool
		}
		var items []titem
		busy := false
		cur := -1
		for len(items) < n {
			var it titem
			if busy && rng.Chance(1, 7) || !busy && rng.Chance(1, 200) {
				it.timeout = true
				busy = false
				items = append(items, it)
				continue
			}
			var v *jt.Tree
			switch rng.Intn(12) {
			case 0:
				v = nil
			case 1:
				v = c15RandValue(rng)
			default:
				s := c15TplLines[rng.Intn(len(c15TplLines))]
				if rng.Chance(1, 5) {
					s = s + c15TplLines[rng.Intn(len(c15TplLines))]
				}
				if rng.Chance(1, 8) && len(s) > 0 {
					s = s[:rng.Intn(len(s))]
				}
				v = jt.S(s)
			}
			it.tree = c15Wrap(path, v, len(items), rng.Chance(1, 4))
			found, isStr, val := c15Field(it.tree, path)
			it.starts = make([]bool, ntpl)
			it.conts = make([]bool, ntpl)
			first := -1
			if found {
				for k, tp := range tpls {
					it.starts[k] = tp.StartCheck(val)
					it.conts[k] = tp.ContinueCheck(val)
					if it.starts[k] && first < 0 {
						first = k
					}
				}
			}
			switch {
			case !found:
				busy = false
			case isStr && first >= 0:
				busy, cur = true, first
			case busy && cur >= 0 && it.conts[cur] != tpls[cur].Negate:
			default:
				busy = false
			}
			items = append(items, it)
		}
		fmt.Fprintf(w, "c15.jt %d %d", max, ntpl)
		for k, name := range names {
			fmt.Fprintf(w, " %s %s", hx.Enc([]byte(name)), hx.B(tpls[k].Negate))
		}
		fmt.Fprintf(w, " %d", len(path))
		for _, k := range path {
			fmt.Fprintf(w, " %s", hx.Enc([]byte(k)))
		}
		fmt.Fprintf(w, " %d", len(items))
		for _, it := range items {
			if it.timeout {
				fmt.Fprintf(w, " T 0")
				continue
			}
			fmt.Fprintf(w, " E 0")
			for _, b := range it.starts {
				fmt.Fprintf(w, " %s", hx.B(b))
			}
			for _, b := range it.conts {
				fmt.Fprintf(w, " %s", hx.B(b))
			}
			fmt.Fprintf(w, " %s", it.tree.Tok())
		}
		w.WriteByte('\n')
	}
}

// ---------------------------------------------------------------- join_template classifiers
//
//	c15.ascii <helper>   → the real ascii helper on every byte 0..255 (ToLower: the byte it returns)
//	c15.tpl <value>      → StartCheck / ContinueCheck (before Negate) of go_panic, cs_exception,
//	                       go_data_race on the value: 6 bits

var c15AsciiHelpers = []struct {
	name string
	f    func(byte) bool
}{
	{"IsSpace", ascii.IsSpace}, {"IsDigit", ascii.IsDigit}, {"IsHexDigit", ascii.IsHexDigit},
	{"IsLowerCaseLetter", ascii.IsLowerCaseLetter}, {"IsUpperCaseLetter", ascii.IsUpperCaseLetter},
	{"IsLetter", ascii.IsLetter}, {"IsLetterOrUnderscore", ascii.IsLetterOrUnderscore},
	{"IsLetterOrUnderscoreOrDigit", ascii.IsLetterOrUnderscoreOrDigit},
}

func execC15Ascii(t *hx.Toks) string {
	name := t.Next()
	if t.Err != nil || !t.Done() {
		return "bad-case"
	}
	var sb strings.Builder
	if name == "ToLower" {
		for c := 0; c < 256; c++ {
			fmt.Fprintf(&sb, "%d ", ascii.ToLower(byte(c)))
		}
		return strings.TrimSpace(sb.String())
	}
	for _, h := range c15AsciiHelpers {
		if h.name == name {
			for c := 0; c < 256; c++ {
				sb.WriteString(hx.B(h.f(byte(c))) + " ")
			}
			return strings.TrimSpace(sb.String())
		}
	}
	return "bad-case"
}

var c15TplNames = []string{"go_panic", "cs_exception", "go_data_race"}

func execC15Tpl(t *hx.Toks) string {
	v := string(t.Bytes())
	if t.Err != nil || !t.Done() {
		return "bad-case"
	}
	var out []string
	for _, name := range c15TplNames {
		tp, err := template.InitTemplate(name)
		if err != nil {
			return "bad-case"
		}
		out = append(out, hx.B(tp.StartCheck(v)), hx.B(tp.ContinueCheck(v)))
	}
	return strings.Join(out, " ")
}

// frames in which ONE byte decides a character class or a literal of a fast-path check:
// the byte at `\x00` is replaced by every byte 0..255
var c15TplFrames = []string{
	// go_panic continue: panic address `panic.+0x[0-9,a-f]+`
	"panic(0x\x006afc0, 0xd7c240)", "panic({0x\x00, 0x1})", "panic\x000x1", "panic(0\x00f1)", "runtime.panic 0x\x00",
	// line number `\.go:[0-9]+`, goroutine id `goroutine [0-9]+ \[`
	"/app/main.go:\x00", "x.go\x001", "goroutine \x00 [running]:", "goroutine 1\x00 [running]:", "goroutine 12\x00[x", "goroutine 7 \x00",
	// only spaces `^\s*$`
	"\x00", "  \x00", "\x00\t", " \x00 \n",
	// call `[A-Za-z_]+[A-Za-z0-9_]*\)?\.[A-Za-z0-9_]+\(.*\)`
	"pkg\x00fn(x)", "pkg.f\x00(x)", "pkg.\x00(x)", "pk\x00.fn(x)", "p\x001.fn()", "\x0012.fn()", "(*T\x00.m()", "pkg.fn(x\x00", "pkg.fn\x00x)",
	// created by `created by .*\.`, prefixes and literals
	"created by a\x00b", "created by\x00a.b", "\x00signal SIGSEGV", "[signa\x00", "panic\x00 x", "\x00panic: x", "fatal error\x00", "http: panic servin\x00", "<autogenerated>\x001",
	// cs_exception
	"\x00at x", " at\x00x", "\x00 at x", "a\x00 x", "\x00--->", " ---\x00", "\x00Exception:", "\x00.Exception:", "a\x00Exception:", "Sys\x00tem.IO\x00.Exception:",
	// go_data_race
	"WARNING: DATA RAC\x00", "\x00WARNING: DATA RACE", "=================\x00", "\x00==================",
}

// literals compared case-insensitively: every position replaced by every byte
var c15TplFolded = []string{"Unhandled exception", "  unhandled exception. x", "--- End of", "\t--- end of inner"}

func c15TplLine(w *bufio.Writer, v []byte) {
	fmt.Fprintf(w, "c15.tpl %s\n", hx.Enc(v))
}

func genC15Tpl(w *bufio.Writer, rng *hx.Rng, tier string) {
	for _, h := range c15AsciiHelpers {
		fmt.Fprintf(w, "c15.ascii %s\n", h.name)
	}
	fmt.Fprintf(w, "c15.ascii ToLower\n")
	for _, f := range c15TplFrames {
		for c := 0; c < 256; c++ {
			c15TplLine(w, []byte(strings.ReplaceAll(f, "\x00", string([]byte{byte(c)}))))
		}
	}
	for _, f := range c15TplFolded {
		for k := 0; k < len(f); k++ {
			for c := 0; c < 256; c++ {
				v := []byte(f)
				v[k] = byte(c)
				c15TplLine(w, v)
			}
		}
	}
	// the line pool of the join_template sequences, pairs of them, and random cuts / splices
	for _, a := range c15TplLines {
		c15TplLine(w, []byte(a))
	}
	nrand := 3000
	if tier == "thorough" {
		nrand = 60000
	}
	edge := []byte("/09:@AFGZ[_`afgz{ ,.()\t\n\r\f\\x")
	for i := 0; i < nrand; i++ {
		v := []byte(c15TplLines[rng.Intn(len(c15TplLines))])
		if rng.Chance(1, 2) {
			v = append(v, c15TplLines[rng.Intn(len(c15TplLines))]...)
		}
		for k := rng.Intn(3); k > 0 && len(v) > 0; k-- {
			v[rng.Intn(len(v))] = edge[rng.Intn(len(edge))]
		}
		if rng.Chance(1, 6) && len(v) > 0 {
			v = v[rng.Intn(len(v)):]
		}
		c15TplLine(w, v)
	}
}

// a join_template case over plain string lines, bits from the real template functions
func c15JTLine(w *bufio.Writer, names []string, lines [][]byte) {
	var tpls []template.Template
	for _, n := range names {
		tp, _ := template.InitTemplate(n)
		tpls = append(tpls, tp)
	}
	fmt.Fprintf(w, "c15.jt 0 %d", len(names))
	for k, name := range names {
		fmt.Fprintf(w, " %s %s", hx.Enc([]byte(name)), hx.B(tpls[k].Negate))
	}
	fmt.Fprintf(w, " 1 %s %d", hx.Enc([]byte("log")), len(lines))
	for i, l := range lines {
		fmt.Fprintf(w, " E 0")
		for _, tp := range tpls {
			fmt.Fprintf(w, " %s", hx.B(tp.StartCheck(string(l))))
		}
		for _, tp := range tpls {
			fmt.Fprintf(w, " %s", hx.B(tp.ContinueCheck(string(l))))
		}
		fmt.Fprintf(w, " %s", jt.O(jt.KV{K: []byte("log"), V: &jt.Tree{Kind: jt.Str, Raw: l}}, jt.F("id", jt.Nu(strconv.Itoa(i)))).Tok())
	}
	w.WriteByte('\n')
}

// every class-deciding frame of c15.tpl inside a real run: [start line, frame, plain line] — is
// the frame line a continuation? — and [frame, continuation, plain line] — does the frame start
// a run? — per template; the deciding byte runs over the class boundaries (all 256 in thorough)
func genC15JTFrames(w *bufio.Writer, tier string) {
	edge := []byte("/09:@AFGZ[_`afgz{ ,.()\t\n\r\f\\x-=|\x00\x7f\x80\xff")
	if tier == "thorough" {
		edge = edge[:0]
		for c := 0; c < 256; c++ {
			edge = append(edge, byte(c))
		}
	}
	shapes := []struct {
		name        string
		start, cont string
	}{
		{"go_panic", "panic: runtime error: x", "main.main()"},
		{"cs_exception", "Unhandled exception. System.X: y", "   at Foo.Bar() in /x.cs:line 1"},
		{"go_data_race", "WARNING: DATA RACE", "Read at 0x00c by goroutine 7:"},
	}
	frames := append([]string{}, c15TplFrames...)
	for _, f := range c15TplFolded {
		for k := 0; k < len(f); k++ {
			frames = append(frames, f[:k]+"\x00"+f[k+1:])
		}
	}
	for _, f := range frames {
		for _, c := range edge {
			line := []byte(strings.ReplaceAll(f, "\x00", string([]byte{c})))
			if !utf8.Valid(line) {
				continue // the line travels as a JSON string value
			}
			for _, sh := range shapes {
				c15JTLine(w, []string{sh.name}, [][]byte{[]byte(sh.start), line, []byte("plain text")})
				c15JTLine(w, []string{sh.name}, [][]byte{line, []byte(sh.cont), []byte("plain text")})
			}
		}
	}
}

// several runs back to back on one stream, the first one long and the later ones shorter (so
// that they fit the capacity the plugin's reusable buffer has reached) and all with different
// text: an event flushed earlier must not change when the instance goes on to the next run
func c15RunValues(rng *hx.Rng, startPrefix, contPrefix string) [][]string {
	nruns := rng.Range(2, 5)
	size := rng.Range(24, 90)
	var runs [][]string
	for r := 0; r < nruns; r++ {
		fill := func(n int, c byte) string { return strings.Repeat(string([]byte{c}), n) }
		letter := byte('A' + (r*7+rng.Intn(5))%26)
		nconts := rng.Range(0, 3)
		per := size / (nconts + 1)
		if per < 1 {
			per = 1
		}
		run := []string{startPrefix + fill(per, letter) + strconv.Itoa(r)}
		for k := 0; k < nconts; k++ {
			run = append(run, contPrefix+fill(per, letter+1)+strconv.Itoa(k))
		}
		runs = append(runs, run)
		size = size * rng.Range(40, 90) / 100
	}
	return runs
}

func genC15Runs(w *bufio.Writer, rng *hx.Rng, tier string) {
	n := 250
	if tier == "thorough" {
		n = 4000
	}
	for i := 0; i < n; i++ {
		// join, action level
		c := &c15JoinCfg{startRe: `^a`, contRe: `^b`, max: []int{0, 0, 64}[rng.Intn(3)], path: []string{"log"}}
		c.compile()
		var items []c15Item
		for _, run := range c15RunValues(rng, "a", "b") {
			for _, v := range run {
				items = append(items, c15Item{tree: c15Wrap(c.path, jt.S(v), len(items), false)})
			}
			if rng.Chance(1, 4) {
				items = append(items, c15Item{tree: c15Wrap(c.path, jt.S("closing line"), len(items), false)})
			}
		}
		if rng.Bool() {
			items = append(items, c15Item{tree: c15Wrap(c.path, jt.S("x"), len(items), false)})
		} else {
			items = append(items, c15Item{timeout: true})
		}
		c15JoinLine(w, c, items)
		// join_template (go_panic), action level
		var lines [][]byte
		for _, run := range c15RunValues(rng, "panic: ", "main.f() ") {
			for _, v := range run {
				lines = append(lines, []byte(v))
			}
		}
		lines = append(lines, []byte("plain text"))
		c15JTLine(w, []string{"go_panic"}, lines)
	}
	// the same through a real pipeline: one stream, fed without pauses, an output that reads later
	np := 12
	if tier == "thorough" {
		np = 120
	}
	for i := 0; i < np; i++ {
		c := &c15JoinCfg{startRe: `^a`, contRe: `^b`, path: []string{"log"}}
		c.compile()
		var sb strings.Builder
		id := 0
		for rep := rng.Range(1, 3); rep > 0; rep-- {
			for _, run := range c15RunValues(rng, "a", "b") {
				for _, v := range run {
					id++
					obj := jt.O(jt.F("log", jt.S(v)), jt.F("stream", jt.S("s")), jt.F("id", jt.Nu(strconv.Itoa(id))))
					fmt.Fprintf(&sb, " E %d %s %s %s", id, hx.B(c.sre.MatchString(v)), hx.B(c.cre.MatchString(v)), obj.Tok())
				}
			}
		}
		id++
		obj := jt.O(jt.F("log", jt.S("x")), jt.F("stream", jt.S("s")), jt.F("id", jt.Nu(strconv.Itoa(id))))
		fmt.Fprintf(&sb, " E %d 0 0 %s", id, obj.Tok())
		fmt.Fprintf(w, "c15.pipe %d 0 0 %s %s %s 1 1 %s %d%s\n", []int{1, 1, 2}[rng.Intn(3)], hx.Enc([]byte(c.startRe)), hx.Enc([]byte(c.contRe)),
			[]string{"j", "jv"}[rng.Intn(2)], hx.Enc([]byte("s")), id, sb.String())
	}
}

func genC15(w *bufio.Writer, rng *hx.Rng, tier string) {
	genC15Runs(w, rng, tier)
	genC15Tpl(w, rng, tier)
	genC15JTFrames(w, tier)
	genC15Join(w, rng, tier)
	genC15JT(w, rng, tier)
	genC15K8s(w, rng, tier)
	genC15Pipe(w, rng, tier)
}

// ---------------------------------------------------------------- real pipeline (trace cases)
//
//	c15.pipe <nprocs> <negate> <max> <startRe> <contRe> <chain> <nstreams> stream…
//	    chain  = string over {v, j, J} with exactly one j or J: the action chain; j = the real join,
//	             J = the real join with the match condition k = "y" (match_fields, mode and),
//	             v = a scripted verdict action: it discards the event iff character <position in
//	             the chain> of the event's "v" field is 'D' (field or character absent = pass)
//	    stream = <sourceID> <streamName> <n> item…
//	    item   = P | E <id> <startOK> <contOK> <tree>     (tree = {"log":…,"stream":<name>,"id":<id>,"v":…})
//	result = <ncalls> call… <nstreams> (<nout> <tree>…)… (ok | changed | stuck | panic)
//	    call = <instance> (T <tag> | E <id>) R <res> <nprop> (<tag> <tree>)… (N | E <tag> <tree>)
//
// A real pipeline (fake input, devnull output, one `join` action) runs with <nprocs> processors.
// Every processor's join instance is the REAL plugin wrapped by a recorder that logs each Do
// call (in one global order), the Propagate calls made during it, and its answer; the output
// plugin logs what arrives per stream. One feeder goroutine per stream; `P` = the feeder waits
// until the stream is quiet (if the instance is mid-run that means: until the stream time-out
// has been delivered). tag = index of the stream in the case. Time-outs the scheduler adds on
// its own are simply part of the observed trace.

type c15PipeCall struct {
	inst    int
	timeout bool
	tag     int
	id      int
	res     pipeline.ActionResult
	props   []string // "<tag> <tree>"
	self    string   // tree after the call
}

type c15Rec struct {
	mu       sync.Mutex
	calls    []*c15PipeCall
	ninst    int
	tagOf    map[string]int // "<sourceID>/<streamName>" -> tag
	outs     [][]string     // per tag: trees in arrival order
	nout     int
	lastRes  map[int]pipeline.ActionResult // per tag: answer to the stream's latest call
	doneEv   map[int]int                   // per tag: regular events seen by Do
	timeouts map[int]int                   // per tag: time-out calls seen
	cur      map[int][]*c15PipeCall        // per instance: calls in progress (a stack: Propagate may re-enter Do)
	chain    string
	jpos     int
	wantOut  int  // events that must reach the output: sent on by join and passed by every later action
	panicked bool // some Do call panicked (recovered by the recorder, answered Discard)
	changed  bool // an event read by the output later differs from what it was when it arrived
}

// does every verdict action at the given chain positions pass the event
func c15VerdictPass(v string, chain string, from, to int) bool {
	for k := from; k < to && k < len(chain); k++ {
		if chain[k] == 'v' && k < len(v) && v[k] == 'D' {
			return false
		}
	}
	return true
}

func c15VerdictOf(e *pipeline.Event) string {
	if e.Root == nil {
		return ""
	}
	return e.Root.Dig("v").AsString()
}

// scripted verdict action
type c15Verdict struct{ pos int }
type c15VerdictCfg struct{ pos int }

func (a *c15Verdict) Start(config pipeline.AnyConfig, _ *pipeline.ActionPluginParams) {
	a.pos = config.(*c15VerdictCfg).pos
}
func (a *c15Verdict) Stop() {}
func (a *c15Verdict) Do(e *pipeline.Event) pipeline.ActionResult {
	if e.IsTimeoutKind() {
		return pipeline.ActionDiscard
	}
	v := c15VerdictOf(e)
	if a.pos < len(v) && v[a.pos] == 'D' {
		return pipeline.ActionDiscard
	}
	return pipeline.ActionPass
}

func c15StreamKey(e *pipeline.Event) string {
	return strconv.FormatUint(uint64(e.SourceID), 10) + "/" + string(e.StreamNameBytes())
}

type c15RecCfg struct {
	inner pipeline.AnyConfig
	rec   *c15Rec
}

type c15RecPlugin struct {
	inner pipeline.ActionPlugin
	rec   *c15Rec
	idx   int
}

type c15RecCtl struct {
	inner pipeline.ActionPluginController
	w     *c15RecPlugin
}

func (c *c15RecCtl) Propagate(e *pipeline.Event) {
	r := c.w.rec
	r.mu.Lock()
	tag := r.tagOf[c15StreamKey(e)]
	if st := r.cur[c.w.idx]; len(st) > 0 {
		call := st[len(st)-1]
		call.props = append(call.props, strconv.Itoa(tag)+" "+jt.FromNode(e.Root.Node).Tok())
		if c15VerdictPass(c15VerdictOf(e), r.chain, r.jpos+1, len(r.chain)) {
			r.wantOut++
		}
	}
	r.mu.Unlock()
	c.inner.Propagate(e)
}
func (c *c15RecCtl) Spawn(p *pipeline.Event, n []*insaneJSON.Node) { c.inner.Spawn(p, n) }
func (c *c15RecCtl) IncMaxEventSizeExceeded(lvs ...string)         { c.inner.IncMaxEventSizeExceeded(lvs...) }

func (w *c15RecPlugin) Start(config pipeline.AnyConfig, params *pipeline.ActionPluginParams) {
	c := config.(*c15RecCfg)
	w.rec = c.rec
	w.rec.mu.Lock()
	w.idx = w.rec.ninst
	w.rec.ninst++
	w.rec.mu.Unlock()
	p2 := *params
	p2.Controller = &c15RecCtl{inner: params.Controller, w: w}
	w.inner.Start(c.inner, &p2)
}

func (w *c15RecPlugin) Stop() { w.inner.Stop() }

func (w *c15RecPlugin) Do(e *pipeline.Event) pipeline.ActionResult {
	r := w.rec
	call := &c15PipeCall{inst: w.idx, timeout: e.IsTimeoutKind()}
	r.mu.Lock()
	call.tag = r.tagOf[c15StreamKey(e)]
	if !call.timeout {
		call.id = e.Root.Dig("id").AsInt()
	}
	r.calls = append(r.calls, call) // global order = order of Do entries
	r.cur[w.idx] = append(r.cur[w.idx], call)
	r.mu.Unlock()

	res, end := c15Do(w.inner, e)

	r.mu.Lock()
	if end != "" {
		// Panicf inside the plugin: keep the process alive, the run is reported as `panic`
		r.panicked = true
		res = pipeline.ActionDiscard
	}
	if res == pipeline.ActionPass && !call.timeout && c15VerdictPass(c15VerdictOf(e), r.chain, r.jpos+1, len(r.chain)) {
		r.wantOut++
	}
	call.res = res
	if !call.timeout {
		call.self = jt.FromNode(e.Root.Node).Tok()
		r.doneEv[call.tag]++
	} else {
		r.timeouts[call.tag]++
	}
	r.lastRes[call.tag] = res
	if st := r.cur[w.idx]; len(st) > 0 {
		r.cur[w.idx] = st[:len(st)-1]
	}
	r.mu.Unlock()
	return res
}

// output that behaves like a batching output: it keeps the events it is given and reads
// ("encodes") and commits them LATER — when the feeders wait for the pipeline (a stream whose
// events are not committed cannot be re-attached) and at the end of the case. What is recorded
// as the output of a stream is that later reading; `changed` = it differs from what the event
// was when it arrived.
type c15HeldEvent struct {
	ev      *pipeline.Event
	tag     int
	arrival string
}

type c15HoldOutput struct {
	rec  *c15Rec
	ctl  pipeline.OutputPluginController
	mu      sync.Mutex
	flushMu sync.Mutex
	held    []c15HeldEvent
}

func (o *c15HoldOutput) Start(_ pipeline.AnyConfig, params *pipeline.OutputPluginParams) {
	o.ctl = params.Controller
}
func (o *c15HoldOutput) Stop() {}
func (o *c15HoldOutput) Out(e *pipeline.Event) {
	o.rec.mu.Lock()
	tag := o.rec.tagOf[c15StreamKey(e)]
	o.rec.mu.Unlock()
	h := c15HeldEvent{ev: e, tag: tag, arrival: jt.FromNode(e.Root.Node).Tok()}
	o.mu.Lock()
	o.held = append(o.held, h)
	o.mu.Unlock()
}

func (o *c15HoldOutput) flush() {
	// one flush at a time: the feeders call it concurrently and the per-stream order of what is
	// recorded must be the order of arrival
	o.flushMu.Lock()
	defer o.flushMu.Unlock()
	o.mu.Lock()
	held := o.held
	o.held = nil
	o.mu.Unlock()
	for _, h := range held {
		now := jt.FromNode(h.ev.Root.Node).Tok()
		o.rec.mu.Lock()
		if now != h.arrival {
			o.rec.changed = true
		}
		o.rec.outs[h.tag] = append(o.rec.outs[h.tag], now)
		o.rec.nout++
		o.rec.mu.Unlock()
		o.ctl.Commit(h.ev)
	}
}

type c15PipeItem struct {
	pause   bool
	id      int
	tree    *jt.Tree
	reaches bool // no verdict action before the join discards it
}

type c15PipeStream struct {
	source int
	name   string
	items  []c15PipeItem
}

var c15PipeSeq atomic.Int64

func execC15Pipe(t *hx.Toks) string {
	nprocs := t.Int()
	negate := t.Bool()
	max := t.Int()
	startRe := string(t.Bytes())
	contRe := string(t.Bytes())
	chain := t.Next()
	nstreams := t.Int()
	if t.Err != nil || nprocs < 1 || nprocs > 8 || strings.Count(chain, "j")+strings.Count(chain, "J") != 1 || strings.Trim(chain, "vjJ") != "" {
		return "bad-case"
	}
	jpos := strings.IndexAny(chain, "jJ")
	sre, err1 := regexp.Compile(startRe)
	cre, err2 := regexp.Compile(contRe)
	if err1 != nil || err2 != nil {
		return "bad-case"
	}
	var streams []c15PipeStream
	nevents := 0
	seen := map[int]bool{}
	for s := 0; s < nstreams && t.Err == nil; s++ {
		st := c15PipeStream{source: t.Int(), name: string(t.Bytes())}
		n := t.Int()
		for i := 0; i < n && t.Err == nil; i++ {
			switch t.Next() {
			case "P":
				st.items = append(st.items, c15PipeItem{pause: true})
			case "E":
				id := t.Int()
				sOK, cOK := t.Bool(), t.Bool()
				tree := jt.Parse(t)
				if t.Err != nil || seen[id] {
					return "bad-case"
				}
				seen[id] = true
				found, _, val := c15Field(tree, []string{"log"})
				if found && (sre.MatchString(val) != sOK || cre.MatchString(val) != cOK) {
					return "bad-case"
				}
				_, isStr, sname := c15Field(tree, []string{"stream"})
				_, _, sid := c15Field(tree, []string{"id"})
				if !isStr || sname != st.name || sid != strconv.Itoa(id) {
					return "bad-case"
				}
				_, _, verdict := c15Field(tree, []string{"v"})
				reaches := c15VerdictPass(verdict, chain, 0, jpos)
				st.items = append(st.items, c15PipeItem{id: id, tree: tree, reaches: reaches})
				if reaches {
					nevents++ // events the join instance must see
				}
			default:
				return "bad-case"
			}
		}
		streams = append(streams, st)
	}
	if t.Err != nil || !t.Done() {
		return "bad-case"
	}

	rec := &c15Rec{
		tagOf: map[string]int{}, outs: make([][]string, len(streams)),
		lastRes: map[int]pipeline.ActionResult{}, doneEv: map[int]int{}, timeouts: map[int]int{},
		cur: map[int][]*c15PipeCall{}, chain: chain, jpos: jpos,
	}
	for i, st := range streams {
		key := strconv.Itoa(st.source) + "/" + st.name
		if _, dup := rec.tagOf[key]; dup {
			return "bad-case"
		}
		rec.tagOf[key] = i
	}

	info, err := fd.DefaultPluginRegistry.GetActionByType("join")
	if err != nil {
		return "bad-case"
	}
	_, config := info.Factory()
	jc := config.(*join.Config)
	jc.Field = "log"
	jc.Start = cfg.Regexp("/" + startRe + "/")
	jc.Continue = cfg.Regexp("/" + contRe + "/")
	jc.MaxEventSize = max
	jc.Negate = negate
	if err := cfg.Parse(jc, nil); err != nil {
		return "bad-case"
	}

	settings := &pipeline.Settings{
		Capacity:            1024,
		MaintenanceInterval: time.Second * 5,
		EventTimeout:        5 * time.Millisecond,
		Antispam:            pipeline.AntispamSettings{Threshold: pipeline.DefaultAntispamThreshold},
		AvgEventSize:        256,
		MetaCacheSize:       32,
		StreamField:         "stream",
		Decoder:             "json",
		Metric: &pipeline.MetricSettings{
			HoldDuration:        pipeline.DefaultMetricHoldDuration,
			MaxLabelValueLength: pipeline.DefaultMetricMaxLabelValueLength,
		},
	}
	name := "c15_" + strconv.FormatInt(c15PipeSeq.Add(1), 10)
	p := pipeline.New(name, settings, prometheus.NewRegistry(), zap.NewNop().WithOptions(zap.WithFatalHook(c15FatalHook{})))
	in, _ := fake.Factory()
	input := in.(*fake.Plugin)
	p.SetInput(&pipeline.InputPluginInfo{
		PluginStaticInfo:  &pipeline.PluginStaticInfo{Type: "fake"},
		PluginRuntimeInfo: &pipeline.PluginRuntimeInfo{Plugin: input},
	})
	output := &c15HoldOutput{rec: rec}
	p.SetOutput(&pipeline.OutputPluginInfo{
		PluginStaticInfo:  &pipeline.PluginStaticInfo{Type: "c15-hold"},
		PluginRuntimeInfo: &pipeline.PluginRuntimeInfo{Plugin: output},
	})
	for pos := range chain {
		if chain[pos] == 'v' {
			k := pos
			p.AddAction(&pipeline.ActionPluginStaticInfo{
				PluginStaticInfo: &pipeline.PluginStaticInfo{
					Type:    "verdict",
					Factory: func() (pipeline.AnyPlugin, pipeline.AnyConfig) { return &c15Verdict{}, nil },
					Config:  &c15VerdictCfg{pos: k},
				},
				MatchMode: pipeline.MatchModeAnd,
			})
			continue
		}
		// `J`: the join carries the match condition k = "y" (match_fields, mode and): an idle join
		// is skipped by events that fail it, a busy join still gets every event of its stream
		var conds pipeline.MatchConditions
		if chain[pos] == 'J' {
			conds = pipeline.MatchConditions{{Field: []string{"k"}, Values: []string{"y"}}}
		}
		p.AddAction(&pipeline.ActionPluginStaticInfo{
			MatchConditions: conds,
			PluginStaticInfo: &pipeline.PluginStaticInfo{
				Type: "join",
				Factory: func() (pipeline.AnyPlugin, pipeline.AnyConfig) {
					pl, _ := info.Factory()
					return &c15RecPlugin{inner: pl.(pipeline.ActionPlugin)}, nil
				},
				Config: &c15RecCfg{inner: jc, rec: rec},
			},
			MatchMode: pipeline.MatchModeAnd,
		})
	}
	// processor count = GOMAXPROCS*2 at Start (1 when parallelism is disabled)
	old := runtime.GOMAXPROCS(0)
	if nprocs == 1 {
		p.DisableParallelism()
	} else {
		runtime.GOMAXPROCS(nprocs / 2)
	}
	p.Start()
	runtime.GOMAXPROCS(old)

	deadline := func(d time.Duration, cond func() bool) bool {
		end := time.Now().Add(d)
		for time.Now().Before(end) {
			output.flush() // the pipeline is being waited for: the "batch" is sent now
			rec.mu.Lock()
			ok := cond()
			rec.mu.Unlock()
			if ok {
				return true
			}
			time.Sleep(2 * time.Millisecond)
		}
		return false
	}
	stuck := false
	var wg sync.WaitGroup
	for tag, st := range streams {
		wg.Add(1)
		go func(_ int, st c15PipeStream) {
			defer wg.Done()
			for k, it := range st.items {
				if it.pause {
					// quiet = no event is in the pipeline any more (every event fed so far was finalized:
					// committed or dropped; an open run was closed by the stream time-out)
					if !deadline(10*time.Second, func() bool { n, _ := pipeline.VerifPipelinePool(p); return n == 0 }) {
						stuck = true
					}
					continue
				}
				input.In(pipeline.SourceID(st.source), "src"+strconv.Itoa(st.source), pipeline.NewOffsets(int64(k+1), nil), it.tree.JSON())
			}
		}(tag, st)
	}
	wg.Wait()
	// the end: every event seen, no run open (pending runs are closed by the stream time-out),
	// and everything that was sent on has arrived at the output
	done := deadline(15*time.Second, func() bool { n, _ := pipeline.VerifPipelinePool(p); return n == 0 })
	p.Stop()
	end := "ok"
	if !done || stuck {
		end = "stuck" // the trace so far is still reported: the oracle can say which hypothesis broke
	}
	rec.mu.Lock()
	if rec.changed {
		end = "changed"
	}
	if rec.panicked {
		end = "panic"
	}
	rec.mu.Unlock()

	rec.mu.Lock()
	defer rec.mu.Unlock()
	var sb strings.Builder
	fmt.Fprintf(&sb, "%d", len(rec.calls))
	for _, c := range rec.calls {
		if c.timeout {
			fmt.Fprintf(&sb, " %d T %d", c.inst, c.tag)
		} else {
			fmt.Fprintf(&sb, " %d E %d", c.inst, c.id)
		}
		fmt.Fprintf(&sb, " R %s %d", c15ResTok(c.res), len(c.props))
		for _, pr := range c.props {
			fmt.Fprintf(&sb, " %s", pr)
		}
		if c.timeout {
			sb.WriteString(" N")
		} else {
			fmt.Fprintf(&sb, " E %d %s", c.tag, c.self)
		}
	}
	fmt.Fprintf(&sb, " %d", len(streams))
	for _, o := range rec.outs {
		fmt.Fprintf(&sb, " %d", len(o))
		for _, tr := range o {
			fmt.Fprintf(&sb, " %s", tr)
		}
	}
	sb.WriteString(" " + end)
	return sb.String()
}

func genC15Pipe(w *bufio.Writer, rng *hx.Rng, tier string) {
	ncases := 50
	if tier == "thorough" {
		ncases = 320
	}
	names := []string{"stdout", "stderr", "a"}
	for i := 0; i < ncases; i++ {
		c := &c15JoinCfg{
			negate:  rng.Chance(1, 5),
			max:     []int{0, 0, 8, 64}[rng.Intn(4)],
			startRe: []string{`^a`, `^[ab]`, `a$`, `^(a|bc)`}[rng.Intn(4)],
			contRe:  []string{`^b`, `^\s`, `c`, `^[^a]`, `.`}[rng.Intn(5)],
			path:    []string{"log"},
		}
		c.compile()
		nprocs := []int{1, 2, 2, 4, 4, 8}[rng.Intn(6)]
		nstreams := rng.Range(1, 6)
		// the join alone, or with scripted verdict actions before / after it: an event discarded
		// upstream never reaches the join (the run goes on across it), a joined event discarded
		// downstream (verdict of its start line) must vanish without disturbing the next run
		chain := []string{"j", "jv", "jv", "jv", "vj", "vjv", "vjv", "jvv", "J", "Jv", "Jv", "vJ", "vJv", "J"}[rng.Intn(14)]
		fmt.Fprintf(w, "c15.pipe %d %s %d %s %s %s %d", nprocs, hx.B(c.negate), c.max, hx.Enc([]byte(c.startRe)), hx.Enc([]byte(c.contRe)), chain, nstreams)
		id := 0
		used := map[string]bool{}
		for s := 0; s < nstreams; s++ {
			var src int
			var name string
			for {
				src = rng.Range(1, 3)
				name = names[rng.Intn(len(names))]
				if !used[strconv.Itoa(src)+"/"+name] {
					break
				}
			}
			used[strconv.Itoa(src)+"/"+name] = true
			n := rng.Range(3, 40)
			var sb strings.Builder
			cnt := 0
			pauses := 0
			for k := 0; k < n; k++ {
				if pauses < 2 && rng.Chance(1, 12) {
					sb.WriteString(" P")
					cnt++
					pauses++
					continue
				}
				id++
				v := c15RandValue(rng)
				obj := jt.O()
				if v != nil {
					obj.Obj = append(obj.Obj, jt.F("log", v))
				}
				obj.Obj = append(obj.Obj, jt.F("stream", jt.S(name)), jt.F("id", jt.Nu(strconv.Itoa(id))))
				if strings.Contains(chain, "J") && !rng.Chance(1, 4) {
					obj.Obj = append(obj.Obj, jt.F("k", jt.S("y"))) // three quarters satisfy the join's condition
				} else if strings.Contains(chain, "J") && rng.Chance(1, 3) {
					obj.Obj = append(obj.Obj, jt.F("k", jt.S("n")))
				}
				_, isStr, val := c15Field(obj, c.path)
				if len(chain) > 1 && !rng.Chance(1, 8) {
					// verdict per chain position; start lines are discarded downstream more often
					vb := []byte(strings.Repeat("P", len(chain)))
					for k := range vb {
						den := 6
						if isStr && c.sre.MatchString(val) && k > strings.IndexAny(chain, "jJ") {
							den = 2
						}
						if chain[k] == 'v' && rng.Chance(1, den) {
							vb[k] = 'D'
						}
					}
					obj.Obj = append(obj.Obj, jt.F("v", jt.S(string(vb))))
				}
				fmt.Fprintf(&sb, " E %d %s %s %s", id, hx.B(c.sre.MatchString(val)), hx.B(c.cre.MatchString(val)), obj.Tok())
				cnt++
			}
			fmt.Fprintf(w, " %d %s %d%s", src, hx.Enc([]byte(name)), cnt, sb.String())
		}
		w.WriteByte('\n')
	}
}

// ---------------------------------------------------------------- k8s MultilineAction
//
//	c15.k8s <split> <max> <cutOff> <cutField|-> <n> item…
//	    item = T <tag> | E <tag> <size> <kind A|N|S> <frag> <raw JSON text of the log value|->
//	result = (R <res> (N | L <escaped log>) <cut> <exceeded>)… (ok | changed | panic:<kind> | fatal)
//
// <frag> is the oracle: what insane-json AppendEscapedString yields for the `log` node
// (recomputed here; a case whose oracle disagrees is rejected).

const (
	c15Pod = "pod-1"
	c15NS  = "ns"
	c15Ctr = "ctr"
	c15CID = "4e0301b633eaa2bfdcafdeba59ba0c72a3815911a6a820bf273534b0f32d98e0"
)

var c15MetaOnce bool

func c15K8sMeta() {
	if c15MetaOnce {
		return
	}
	c15MetaOnce = true
	meta.DisableMetaUpdates = true
	meta.MetaExpireDuration = 24 * time.Hour
	meta.EnableGatherer(c15Logger()) // creates the deleted-pods cache GetPodMeta consults; no k8s client
	pod := &corev1.Pod{}
	pod.Namespace = c15NS
	pod.Name = c15Pod
	pod.Status.ContainerStatuses = make([]corev1.ContainerStatus, 1)
	pod.Status.ContainerStatuses[0].Name = c15Ctr
	pod.Status.ContainerStatuses[0].ContainerID = "containerd://" + c15CID
	meta.PutMeta(pod)
	meta.SelfNodeName = "node-1"
}

func c15K8sJSON(raw []byte, absent bool) []byte {
	var b []byte
	b = append(b, '{')
	if !absent {
		b = append(b, `"log":`...)
		b = append(b, raw...)
		b = append(b, ',')
	}
	b = append(b, fmt.Sprintf(`"k8s_pod":%q,"k8s_namespace":%q,"k8s_container":%q,"k8s_container_id":%q}`, c15Pod, c15NS, c15Ctr, c15CID)...)
	return b
}

// (kind, frag) as the real library sees the value
func c15K8sOracle(text []byte) (kind string, frag []byte, ok bool) {
	root := insaneJSON.Spawn()
	defer insaneJSON.Release(root)
	if err := root.DecodeBytes(text); err != nil {
		return "", nil, false
	}
	n := root.Dig("log")
	switch {
	case n == nil:
		return "A", nil, true
	case n.IsString():
		return "S", n.AppendEscapedString(nil), true
	default:
		return "N", n.AppendEscapedString(nil), true
	}
}

type c15KItem struct {
	timeout bool
	tag     int
	size    int
	absent  bool
	raw     []byte
}

func execC15K8s(t *hx.Toks) string {
	split := t.Int()
	max := t.Int()
	cutOff := t.Bool()
	cutField := string(t.Bytes())
	n := t.Int()
	if t.Err != nil {
		return "bad-case"
	}
	var items []c15KItem
	for i := 0; i < n && t.Err == nil; i++ {
		switch t.Next() {
		case "T":
			items = append(items, c15KItem{timeout: true, tag: t.Int()})
		case "E":
			it := c15KItem{tag: t.Int(), size: t.Int()}
			kind := t.Next()
			frag := t.Bytes()
			raw := t.Next()
			if t.Err != nil {
				return "bad-case"
			}
			if raw == "-" {
				it.absent = true
			} else {
				b, err := hx.Dec(raw)
				if err != nil {
					return "bad-case"
				}
				it.raw = b
			}
			k, f, ok := c15K8sOracle(c15K8sJSON(it.raw, it.absent))
			if !ok || k != kind || (k == "S" && string(f) != string(frag)) {
				return "bad-case"
			}
			items = append(items, it)
		default:
			return "bad-case"
		}
	}
	if t.Err != nil || !t.Done() {
		return "bad-case"
	}
	c15K8sMeta()
	plugin, _ := k8s.MultilineActionFactory()
	ap := plugin.(pipeline.ActionPlugin)
	ctl := &c15Ctl{}
	ap.Start(&k8s.Config{SplitEventSize: split}, c15Params(ctl, &pipeline.Settings{
		MaxEventSize:            max,
		CutOffEventByLimit:      cutOff,
		CutOffEventByLimitField: cutField,
	}))
	defer ap.Stop()
	var sb strings.Builder
	type handed struct {
		root *insaneJSON.Root
		log  string
	}
	var watch []handed // passed events, read again at the end of the case
	var roots []*insaneJSON.Root
	defer func() {
		for _, r := range roots {
			insaneJSON.Release(r)
		}
	}()
	for _, it := range items {
		var e *pipeline.Event
		var root *insaneJSON.Root
		if it.timeout {
			e = c15Timeout()
		} else {
			root = insaneJSON.Spawn()
			roots = append(roots, root)
			if err := root.DecodeBytes(c15K8sJSON(it.raw, it.absent)); err != nil {
				return "bad-case"
			}
			e = &pipeline.Event{Root: root, Size: it.size, SourceName: "k8s/x.log"}
		}
		ctl.exceeds = 0
		res, end := c15Do(ap, e)
		if end != "" {
			sb.WriteString(end)
			return sb.String()
		}
		fmt.Fprintf(&sb, "R %s ", c15ResTok(res))
		if res == pipeline.ActionPass && root != nil {
			log := root.Dig("log").AsEscapedString()
			fmt.Fprintf(&sb, "L %s %s ", hx.Enc([]byte(log)), hx.B(cutField != "" && root.Dig(cutField) != nil))
			watch = append(watch, handed{root, strings.Clone(log)})
		} else {
			sb.WriteString("N 0 ")
		}
		fmt.Fprintf(&sb, "%s ", hx.B(ctl.exceeds > 0))
	}
	for _, h := range watch {
		if h.root.Dig("log").AsEscapedString() != h.log {
			sb.WriteString("changed")
			return sb.String()
		}
	}
	sb.WriteString("ok")
	return sb.String()
}

func c15K8sLine(w *bufio.Writer, split, max int, cutOff bool, cutField string, items []c15KItem) {
	fmt.Fprintf(w, "c15.k8s %d %d %s %s %d", split, max, hx.B(cutOff), hx.Enc([]byte(cutField)), len(items))
	for _, it := range items {
		if it.timeout {
			fmt.Fprintf(w, " T %d", it.tag)
			continue
		}
		k, f, ok := c15K8sOracle(c15K8sJSON(it.raw, it.absent))
		if !ok {
			k, f = "A", nil // never generated: raw values are valid JSON
		}
		if k != "S" {
			f = nil
		}
		raw := "-"
		if !it.absent {
			raw = hx.Enc(it.raw)
		}
		fmt.Fprintf(w, " E %d %d %s %s %s", it.tag, it.size, k, hx.Enc(f), raw)
	}
	w.WriteByte('\n')
}

const c15LA = 128 * 1024

func genC15K8s(w *bufio.Writer, rng *hx.Rng, tier string) {
	// exhaustive small scope over chunk shapes x limit modes
	raws := []string{`"a"`, `"bc"`, `"d\n"`, `""`, `"\\n"`, `"\n"`, `"x\\\n"`, `5`, `12`, `123`, `null`, `true`, `{"a":1}`, `[1]`, "-", "T"}
	type kcfg struct {
		split, max int
		cut        bool
		field      string
	}
	cfgs := []kcfg{
		{1000000, 0, false, ""},
		{1000000, 8, false, ""},
		{1000000, 8, true, "cut"},
		{c15LA + 25, 0, false, ""},
		{c15LA + 25, 12, true, ""},
	}
	maxLen := 3
	if tier == "thorough" {
		maxLen = 4
	}
	mk := func(r string) c15KItem {
		switch r {
		case "T":
			return c15KItem{timeout: true}
		case "-":
			return c15KItem{absent: true, size: 10}
		}
		return c15KItem{raw: []byte(r), size: 10}
	}
	var rec func(cur []int)
	rec = func(cur []int) {
		if len(cur) > 0 {
			for _, c := range cfgs {
				items := make([]c15KItem, len(cur))
				for i, a := range cur {
					items[i] = mk(raws[a])
				}
				c15K8sLine(w, c.split, c.max, c.cut, c.field, items)
			}
		}
		if len(cur) == maxLen {
			return
		}
		for a := range raws {
			rec(append(cur, a))
		}
	}
	rec(nil)

	nrand := 3000
	if tier == "thorough" {
		nrand = 40000
	}
	alpha := []byte("abc \\n\n\"\t<é")
	for i := 0; i < nrand; i++ {
		max := []int{0, 0, 8, 64, 64, 20, 4}[rng.Intn(7)]
		cut := rng.Bool()
		field := ""
		if cut && rng.Bool() {
			field = "cutoff"
		}
		split := 1000000
		if rng.Chance(1, 3) {
			split = c15LA + rng.Range(0, 120)
		}
		n := rng.Range(1, 14)
		var items []c15KItem
		for len(items) < n {
			var it c15KItem
			it.tag = 0
			switch r := rng.Intn(40); {
			case r == 0:
				it.timeout = true
			case r == 1:
				it.absent = true
			case r == 2:
				it.raw = []byte([]string{"1", "12", "123", "null", "true", "false", `{"log":"x"}`, `["a\n"]`, "1e9"}[rng.Intn(9)])
			default:
				// a chunk: mostly partial, sometimes ending the line; content from a small alphabet
				// with backslashes, quotes and real newlines so that escapes land on chunk borders
				k := rng.Range(0, 9)
				if rng.Chance(1, 8) {
					k = rng.Range(10, 70)
				}
				content := rng.Bytes(k, alpha)
				if rng.Chance(2, 5) {
					content = append(content, '\n')
				}
				if rng.Chance(1, 12) {
					content = append(content, '\\', 'n')
				}
				it.raw = jt.AppendQuoted(nil, content)
			}
			if !it.timeout {
				it.size = len(it.raw) + rng.Range(0, 40)
			}
			items = append(items, it)
		}
		c15K8sLine(w, split, max, cut, field, items)
	}
}
