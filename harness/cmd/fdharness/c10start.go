package main

import (
	"bufio"
	"encoding/binary"
	"fmt"
	"io"
	"net"
	"strconv"
	"strings"
	"sync"
	"time"

	"github.com/ozontech/file.d/cfg"
	"github.com/ozontech/file.d/decoder"
	"github.com/ozontech/file.d/metric"
	"github.com/ozontech/file.d/pipeline"
	"github.com/ozontech/file.d/pipeline/metadata"
	"github.com/ozontech/file.d/plugin/input/kafka"
	"github.com/prometheus/client_golang/prometheus"
	"github.com/twmb/franz-go/pkg/kgo"
	"github.com/twmb/franz-go/pkg/kmsg"
	"go.uber.org/zap"
	"go.uber.org/zap/zapcore"

	"verifharness/internal/hx"
)

// c10.start <ntopics> <name>… <nrec> (<name> <part> <offset> <epoch>)… <ncommit> <i>…
//
// The whole acknowledgement path of the real plugin, nothing built by the harness: the REAL
// Plugin.Start (topic ids, consumer set, client — against an in-process fake broker that answers
// ApiVersions and Metadata, which is all Start's Ping needs), the real OnPartitionsAssigned callback,
// the real per-partition consume loops, the real Commit, then the client's marked offsets.
// The configured topic list is given as name ids and may contain duplicates; records name their
// topic by name id. Result: what `In` received per record, then the marks (by name id) after each
// commit:  <nrec> (<sourceID> <offset>)… <ncommit> (<k> (<name> <part> <epoch> <offset>)*k)…

func init() {
	execs["c10.start"] = execC10Start
}

// ---- fake broker: ApiVersions + Metadata only

func c10ServeBroker(ln net.Listener) {
	host, portStr, _ := net.SplitHostPort(ln.Addr().String())
	port, _ := strconv.Atoi(portStr)
	for {
		conn, err := ln.Accept()
		if err != nil {
			return
		}
		go c10BrokerConn(conn, host, int32(port))
	}
}

func c10BrokerConn(conn net.Conn, host string, port int32) {
	defer conn.Close()
	for {
		var sizeBuf [4]byte
		if _, err := io.ReadFull(conn, sizeBuf[:]); err != nil {
			return
		}
		n := binary.BigEndian.Uint32(sizeBuf[:])
		if n < 10 || n > 1<<20 {
			return
		}
		buf := make([]byte, n)
		if _, err := io.ReadFull(conn, buf); err != nil {
			return
		}
		key := int16(binary.BigEndian.Uint16(buf[0:]))
		ver := int16(binary.BigEndian.Uint16(buf[2:]))
		corr := buf[4:8]
		pos := 10
		if l := int16(binary.BigEndian.Uint16(buf[8:])); l > 0 {
			pos += int(l)
		}
		req := kmsg.RequestForKey(key)
		if req == nil {
			return
		}
		req.SetVersion(ver)
		if req.IsFlexible() {
			pos++ // empty tagged fields of the request header
		}
		if pos > len(buf) {
			return
		}
		if err := req.ReadFrom(buf[pos:]); err != nil {
			return
		}
		var resp kmsg.Response
		switch r := req.(type) {
		case *kmsg.ApiVersionsRequest:
			out := r.ResponseKind().(*kmsg.ApiVersionsResponse)
			for _, k := range []struct{ key, max int16 }{{18, ver}, {3, 7}} {
				ak := kmsg.NewApiVersionsResponseApiKey()
				ak.ApiKey, ak.MinVersion, ak.MaxVersion = k.key, 0, k.max
				out.ApiKeys = append(out.ApiKeys, ak)
			}
			resp = out
		case *kmsg.MetadataRequest:
			out := r.ResponseKind().(*kmsg.MetadataResponse)
			b := kmsg.NewMetadataResponseBroker()
			b.NodeID, b.Host, b.Port = 1, host, port
			out.Brokers = append(out.Brokers, b)
			out.ControllerID = 1
			for _, rt := range r.Topics {
				mt := kmsg.NewMetadataResponseTopic()
				mt.Topic = rt.Topic
				mt.ErrorCode = 3 // UNKNOWN_TOPIC_OR_PARTITION: partitions are assigned by the harness
				out.Topics = append(out.Topics, mt)
			}
			resp = out
		default:
			return
		}
		payload := append([]byte{}, corr...)
		if resp.IsFlexible() && key != 18 {
			payload = append(payload, 0)
		}
		payload = resp.AppendTo(payload)
		binary.BigEndian.PutUint32(sizeBuf[:], uint32(len(payload)))
		if _, err := conn.Write(append(sizeBuf[:], payload...)); err != nil {
			return
		}
	}
}

// ---- controller capturing what the consume loops hand to the pipeline

type c10Seen struct {
	sid uint64
	off int64
	ok  bool
}

type c10StartCtl struct {
	mu   sync.Mutex
	seen []c10Seen
	n    int
}

func (c *c10StartCtl) In(sourceID pipeline.SourceID, _ string, offsets pipeline.Offsets, data []byte, _ bool, _ metadata.MetaData) uint64 {
	i, err := strconv.Atoi(string(data))
	c.mu.Lock()
	defer c.mu.Unlock()
	if err == nil && i >= 0 && i < len(c.seen) && !c.seen[i].ok {
		c.seen[i] = c10Seen{uint64(sourceID), pipeline.VerifOffsetsCurrent(offsets), true}
		c.n++
	}
	return uint64(c.n)
}
func (c *c10StartCtl) UseSpread()                          {}
func (c *c10StartCtl) DisableStreams()                     {}
func (c *c10StartCtl) SuggestDecoder(_ decoder.Type)       {}
func (c *c10StartCtl) IncReadOps()                         {}
func (c *c10StartCtl) IncMaxEventSizeExceeded(_ ...string) {}

func execC10Start(t *hx.Toks) (res string) {
	nt := t.Int()
	if t.Err != nil || nt < 1 || nt > 64 {
		return "bad-case"
	}
	var names []int
	for i := 0; i < nt && t.Err == nil; i++ {
		names = append(names, t.Int())
	}
	nrec := t.Int()
	if t.Err != nil || nrec < 0 || nrec > 1000 {
		return "bad-case"
	}
	recs := c10ParseRecs(t, nrec, false) // .topic is the name id
	nc := t.Int()
	var order []int
	for i := 0; i < nc && t.Err == nil; i++ {
		order = append(order, t.Int())
	}
	if t.Err != nil || !t.Done() {
		return "bad-case"
	}
	configured := map[int]bool{}
	var topics []string
	for _, n := range names {
		if n < 0 || n > 1000 {
			return "bad-case"
		}
		configured[n] = true
		topics = append(topics, "t"+strconv.Itoa(n))
	}
	for _, r := range recs {
		if !configured[r.topic] {
			return "bad-case"
		}
	}
	for _, i := range order {
		if i < 0 || i >= len(recs) {
			return "bad-case"
		}
	}

	ln, err := net.Listen("tcp", "127.0.0.1:0")
	if err != nil {
		return "err-listen"
	}
	defer ln.Close()
	go c10ServeBroker(ln)

	config := &kafka.Config{Brokers: []string{ln.Addr().String()}, Topics: topics, ConsumerGroup: "verif-c10"}
	if err := cfg.SetDefaultValues(config); err != nil {
		return "err-config"
	}
	if err := cfg.Parse(config, nil); err != nil {
		return "err-config"
	}
	// Start ends the process through logger.Fatal when the broker cannot be reached: panic instead
	lg := zap.New(zapcore.NewNopCore(), zap.WithFatalHook(zapcore.WriteThenPanic))
	ctl := &c10StartCtl{seen: make([]c10Seen, len(recs))}
	p := &kafka.Plugin{}
	p.Start(config, &pipeline.InputPluginParams{
		PluginDefaultParams: pipeline.PluginDefaultParams{
			PipelineName:     "c10start",
			PipelineSettings: &pipeline.Settings{},
			MetricCtl:        metric.NewCtl("c10start", prometheus.NewRegistry(), time.Minute, 0),
		},
		Controller: ctl,
		Logger:     lg.Sugar(),
	})
	defer kafka.VerifShutdown(p)

	// the group assigns every partition the records live in
	type tpKey struct {
		t string
		p int32
	}
	assigned := map[string][]int32{}
	fetches := map[tpKey][]*kgo.Record{}
	var keys []tpKey
	for i, r := range recs {
		k := tpKey{"t" + strconv.Itoa(r.topic), r.part}
		if _, ok := fetches[k]; !ok {
			assigned[k.t] = append(assigned[k.t], k.p)
			keys = append(keys, k)
		}
		rec := r.record()
		rec.Topic = k.t
		rec.Value = []byte(strconv.Itoa(i))
		fetches[k] = append(fetches[k], rec)
	}
	kafka.VerifAssigned(p, assigned)
	defer kafka.VerifLost(p, assigned)
	for _, k := range keys {
		if !kafka.VerifFeedStarted(p, k.t, k.p, fetches[k]) {
			return "no-consumer"
		}
	}
	deadline := time.Now().Add(10 * time.Second)
	for {
		ctl.mu.Lock()
		n := ctl.n
		ctl.mu.Unlock()
		if n == len(recs) {
			break
		}
		if time.Now().After(deadline) {
			return "stuck-in"
		}
		time.Sleep(50 * time.Microsecond)
	}
	var sb strings.Builder
	sb.WriteString(strconv.Itoa(len(recs)))
	for _, s := range ctl.seen {
		fmt.Fprintf(&sb, " %d %d", s.sid, s.off)
	}
	fmt.Fprintf(&sb, " %d", len(order))
	cl := kafka.VerifClient(p)
	for _, i := range order {
		s := ctl.seen[i]
		p.Commit(&pipeline.Event{SourceID: pipeline.SourceID(s.sid), Offset: s.off})
		sb.WriteString(" " + c10Marks(cl))
	}
	return sb.String()
}

func c10StartLine(w *bufio.Writer, names []int, recs []c10Rec, order []int) {
	fmt.Fprintf(w, "c10.start %d", len(names))
	for _, n := range names {
		fmt.Fprintf(w, " %d", n)
	}
	fmt.Fprintf(w, " %d", len(recs))
	for _, r := range recs {
		fmt.Fprintf(w, " %d %d %d %d", r.topic, r.part, r.off, r.epoch)
	}
	fmt.Fprintf(w, " %d", len(order))
	for _, i := range order {
		fmt.Fprintf(w, " %d", i)
	}
	w.WriteByte('\n')
}

// genC10Start: every topic list over up to three names up to length 4 (duplicates included) with one
// record per configured name, then random longer lists / record sets committed in consumption order.
func genC10Start(w *bufio.Writer, rng *hx.Rng, thorough bool) {
	maxLen := 4
	if thorough {
		maxLen = 5
	}
	var rec func(cur []int)
	rec = func(cur []int) {
		if len(cur) > 0 {
			seen := map[int]bool{}
			var recs []c10Rec
			for _, n := range cur {
				if !seen[n] {
					seen[n] = true
					recs = append(recs, c10Rec{topic: n, part: 0, off: int64(40 + 10*n), epoch: int32(2 + n)})
				}
			}
			order := make([]int, len(recs))
			for i := range order {
				order[i] = i
			}
			c10StartLine(w, cur, recs, order)
		}
		if len(cur) == maxLen {
			return
		}
		for n := 0; n < 3; n++ {
			rec(append(append([]int(nil), cur...), n))
		}
	}
	rec(nil)
	nrand := 150
	if thorough {
		nrand = 2500
	}
	for i := 0; i < nrand; i++ {
		nnames := rng.Range(1, 5)
		l := rng.Range(nnames, nnames+4)
		names := make([]int, l)
		for j := range names {
			names[j] = rng.Intn(nnames)
		}
		// c10GenRecs draws topics 0..nnames-1; keep records of configured names only
		configured := map[int]bool{}
		for _, n := range names {
			configured[n] = true
		}
		var recs []c10Rec
		for _, r := range c10GenRecs(rng, nnames, rng.Range(1, 4), rng.Range(1, 10), false) {
			if configured[r.topic] {
				recs = append(recs, r)
			}
		}
		if len(recs) == 0 {
			continue
		}
		order := make([]int, len(recs))
		for j := range order {
			order[j] = j
		}
		if rng.Chance(1, 3) { // also out of order: the known finding must still be recognised
			for j := len(order) - 1; j > 0; j-- {
				k := rng.Intn(j + 1)
				order[j], order[k] = order[k], order[j]
			}
		}
		c10StartLine(w, names, recs, order)
	}
}
