package main

import (
	"fmt"
	"net/http"
	"net/http/httptest"
	"strings"
	"sync"
	"sync/atomic"
	"time"

	"github.com/ozontech/file.d/cfg"
	"github.com/ozontech/file.d/metric"
	"github.com/ozontech/file.d/pipeline"
	"github.com/ozontech/file.d/plugin/output/elasticsearch"
	insaneJSON "github.com/ozontech/insane-json"
	"github.com/prometheus/client_golang/prometheus"
	"go.uber.org/zap"

	"verifharness/internal/hx"
)

// c09.es <retry> <dq> <n> (<kind>)*n
//
// The real elasticsearch output (its own RetriableBatcher wiring and its onError callback) behind a
// real Router, against an httptest endpoint that always answers 500; one batch of n events.
// Result: `sends <attempts> f <n> ids… c <n> ids… C <n> ids…`
//   f = events the dead-queue output received through Router.Fail, c = events committed through the
//   main output's batcher, C = events committed by the (synchronous) dead-queue output.

func init() {
	execs["c09.es"] = execC09ES
}

type esDQ struct {
	mu   sync.Mutex
	ids  []uint64
	ctl  pipeline.OutputPluginController
	inDQ *atomic.Bool
}

func (p *esDQ) Start(_ pipeline.AnyConfig, params *pipeline.OutputPluginParams) {
	p.ctl = params.Controller
}
func (p *esDQ) Stop() {}
func (p *esDQ) Out(ev *pipeline.Event) {
	p.mu.Lock()
	p.ids = append(p.ids, uint64(ev.Offset))
	p.mu.Unlock()
	p.inDQ.Store(true)
	p.ctl.Commit(ev)
	p.inDQ.Store(false)
}

type esCtl struct {
	mu   sync.Mutex
	main []uint64
	dq   []uint64
	inDQ *atomic.Bool
}

func (c *esCtl) Commit(ev *pipeline.Event) {
	c.mu.Lock()
	if c.inDQ.Load() {
		c.dq = append(c.dq, uint64(ev.Offset))
	} else {
		c.main = append(c.main, uint64(ev.Offset))
	}
	c.mu.Unlock()
}
func (c *esCtl) Error(string) {}

func execC09ES(t *hx.Toks) string {
	retry := t.Int()
	dq := t.Bool()
	n := t.Int()
	if t.Err != nil || n < 1 || n > 200 || retry < 0 || retry > 6 {
		return "bad-case"
	}
	kinds := make([]int, n)
	for i := range kinds {
		kinds[i] = t.Int()
	}
	if t.Err != nil || !t.Done() {
		return "bad-case"
	}
	var attempts atomic.Int64
	srv := httptest.NewServer(http.HandlerFunc(func(w http.ResponseWriter, r *http.Request) {
		attempts.Add(1)
		w.WriteHeader(http.StatusInternalServerError)
	}))
	defer srv.Close()

	config := &elasticsearch.Config{
		Endpoints:         []string{srv.URL},
		BatchSize:         cfg.Expression(fmt.Sprint(n)),
		WorkersCount:      "1",
		Retry:             retry,
		Retention:         "1ms",
		BatchFlushTimeout: "1h",
	}
	if err := cfg.SetDefaultValues(config); err != nil {
		return "err-config"
	}
	config.Retry = retry // the default (10) replaces a zero value
	if err := cfg.Parse(config, map[string]int{"gomaxprocs": 1, "capacity": 64}); err != nil {
		return "err-config"
	}
	inDQ := &atomic.Bool{}
	ctl := &esCtl{inDQ: inDQ}
	plugin := &elasticsearch.Plugin{}
	router := pipeline.NewRouter()
	router.SetOutput(&pipeline.OutputPluginInfo{PluginStaticInfo: &pipeline.PluginStaticInfo{Type: "elasticsearch", Config: config},
		PluginRuntimeInfo: &pipeline.PluginRuntimeInfo{Plugin: plugin, ID: "es"}})
	dqP := &esDQ{inDQ: inDQ}
	if dq {
		router.SetDeadQueueOutput(&pipeline.OutputPluginInfo{PluginStaticInfo: &pipeline.PluginStaticInfo{Type: "dq"},
			PluginRuntimeInfo: &pipeline.PluginRuntimeInfo{Plugin: dqP, ID: "dq"}})
	}
	router.Start(&pipeline.OutputPluginParams{
		PluginDefaultParams: pipeline.PluginDefaultParams{PipelineName: "verif",
			PipelineSettings: &pipeline.Settings{AvgEventSize: 64},
			MetricCtl:        metric.NewCtl("", prometheus.NewRegistry(), time.Minute, 0)},
		Controller: ctl, Router: router, Logger: zap.NewNop().Sugar()})
	roots := make([]*insaneJSON.Root, n)
	for i := 0; i < n; i++ {
		root, err := insaneJSON.DecodeString(fmt.Sprintf(`{"id":%d}`, i+1))
		if err != nil {
			return "err-json"
		}
		roots[i] = root
		ev := mkEvent(&evSpec{id: uint64(i + 1), size: 8, kind: kinds[i]})
		ev.Root = root
		router.Out(ev)
	}
	deadline := time.Now().Add(20 * time.Second)
	for time.Now().Before(deadline) {
		ctl.mu.Lock()
		done := len(ctl.main)+len(ctl.dq) >= n
		ctl.mu.Unlock()
		if done {
			break
		}
		time.Sleep(time.Millisecond)
	}
	stopped := make(chan struct{})
	go func() { router.Stop(); close(stopped) }()
	select {
	case <-stopped:
	case <-time.After(10 * time.Second):
		return "panic:stuck"
	}
	for _, r := range roots {
		insaneJSON.Release(r)
	}
	var sb strings.Builder
	fmt.Fprintf(&sb, "sends %d", attempts.Load())
	wr := func(tag string, ids []uint64) {
		fmt.Fprintf(&sb, " %s %d", tag, len(ids))
		for _, id := range ids {
			fmt.Fprintf(&sb, " %d", id)
		}
	}
	dqP.mu.Lock()
	wr("f", dqP.ids)
	dqP.mu.Unlock()
	ctl.mu.Lock()
	wr("c", ctl.main)
	wr("C", ctl.dq)
	ctl.mu.Unlock()
	return sb.String()
}
