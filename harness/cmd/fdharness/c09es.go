package main

import (
	"fmt"
	"io"
	"net/http"
	"net/http/httptest"
	"regexp"
	"strconv"
	"strings"
	"sync"
	"sync/atomic"
	"time"

	"github.com/ozontech/file.d/cfg"
	"github.com/ozontech/file.d/metric"
	"github.com/ozontech/file.d/pipeline"
	"github.com/ozontech/file.d/plugin/output/elasticsearch"
	insaneJSON "github.com/ozontech/insane-json"
	"github.com/prometheus/client_golang/prometheus"
	"go.uber.org/zap"

	"verifharness/internal/hx"
)

// c09.es <retry> <dq> <n> (<kind>)*n
//
// The real elasticsearch output (its own RetriableBatcher wiring and its onError callback) behind a
// real Router, against an httptest endpoint that always answers 500; one batch of n events.
// Result: `sends <attempts> f <n> ids… c <n> ids… C <n> ids…`
//   f = events the dead-queue output received through Router.Fail, c = events committed through the
//   main output's batcher, C = events committed by the (synchronous) dead-queue output.

func init() {
	execs["c09.es"] = func(t *hx.Toks) string {
		return runWatched(8*time.Second, 8*time.Second, func(*watched) string { return execC09ES(t) })
	}
}

type esDQ struct {
	mu   sync.Mutex
	ids  []uint64
	ctl  pipeline.OutputPluginController
	inDQ *atomic.Bool
}

func (p *esDQ) Start(_ pipeline.AnyConfig, params *pipeline.OutputPluginParams) {
	p.ctl = params.Controller
}
func (p *esDQ) Stop() {}
func (p *esDQ) Out(ev *pipeline.Event) {
	p.mu.Lock()
	p.ids = append(p.ids, uint64(ev.Offset))
	p.mu.Unlock()
	p.inDQ.Store(true)
	p.ctl.Commit(ev)
	p.inDQ.Store(false)
}

type esCtl struct {
	mu   sync.Mutex
	main []uint64
	dq   []uint64
	inDQ *atomic.Bool
}

func (c *esCtl) Commit(ev *pipeline.Event) {
	c.mu.Lock()
	if c.inDQ.Load() {
		c.dq = append(c.dq, uint64(ev.Offset))
	} else {
		c.main = append(c.main, uint64(ev.Offset))
	}
	c.mu.Unlock()
}
func (c *esCtl) Error(string) {}

func execC09ES(t *hx.Toks) string {
	retry := t.Int()
	dq := t.Bool()
	n := t.Int()
	if t.Err != nil || n < 1 || n > 200 || retry < 0 || retry > 6 {
		return "bad-case"
	}
	kinds := make([]int, n)
	for i := range kinds {
		kinds[i] = t.Int()
	}
	if t.Err != nil || !t.Done() {
		return "bad-case"
	}
	var attempts atomic.Int64
	srv := httptest.NewServer(http.HandlerFunc(func(w http.ResponseWriter, r *http.Request) {
		attempts.Add(1)
		w.WriteHeader(http.StatusInternalServerError)
	}))
	defer srv.Close()

	config := &elasticsearch.Config{
		Endpoints:         []string{srv.URL},
		BatchSize:         cfg.Expression(fmt.Sprint(n)),
		WorkersCount:      "1",
		Retry:             retry,
		Retention:         "1ms",
		BatchFlushTimeout: "1h",
	}
	if err := cfg.SetDefaultValues(config); err != nil {
		return "err-config"
	}
	config.Retry = retry // the default (10) replaces a zero value
	if err := cfg.Parse(config, map[string]int{"gomaxprocs": 1, "capacity": 64}); err != nil {
		return "err-config"
	}
	inDQ := &atomic.Bool{}
	ctl := &esCtl{inDQ: inDQ}
	plugin := &elasticsearch.Plugin{}
	router := pipeline.NewRouter()
	router.SetOutput(&pipeline.OutputPluginInfo{PluginStaticInfo: &pipeline.PluginStaticInfo{Type: "elasticsearch", Config: config},
		PluginRuntimeInfo: &pipeline.PluginRuntimeInfo{Plugin: plugin, ID: "es"}})
	dqP := &esDQ{inDQ: inDQ}
	if dq {
		router.SetDeadQueueOutput(&pipeline.OutputPluginInfo{PluginStaticInfo: &pipeline.PluginStaticInfo{Type: "dq"},
			PluginRuntimeInfo: &pipeline.PluginRuntimeInfo{Plugin: dqP, ID: "dq"}})
	}
	router.Start(&pipeline.OutputPluginParams{
		PluginDefaultParams: pipeline.PluginDefaultParams{PipelineName: "verif",
			PipelineSettings: &pipeline.Settings{AvgEventSize: 64},
			MetricCtl:        metric.NewCtl("", prometheus.NewRegistry(), time.Minute, 0)},
		Controller: ctl, Router: router, Logger: zap.NewNop().Sugar()})
	roots := make([]*insaneJSON.Root, n)
	for i := 0; i < n; i++ {
		root, err := insaneJSON.DecodeString(fmt.Sprintf(`{"id":%d}`, i+1))
		if err != nil {
			return "err-json"
		}
		roots[i] = root
		ev := mkEvent(&evSpec{id: uint64(i + 1), size: 8, kind: kinds[i]})
		ev.Root = root
		router.Out(ev)
	}
	deadline := time.Now().Add(20 * time.Second)
	for time.Now().Before(deadline) {
		ctl.mu.Lock()
		done := len(ctl.main)+len(ctl.dq) >= n
		ctl.mu.Unlock()
		if done {
			break
		}
		time.Sleep(time.Millisecond)
	}
	stopped := make(chan struct{})
	go func() { router.Stop(); close(stopped) }()
	select {
	case <-stopped:
	case <-time.After(10 * time.Second):
		return "panic:stuck"
	}
	for _, r := range roots {
		insaneJSON.Release(r)
	}
	var sb strings.Builder
	fmt.Fprintf(&sb, "sends %d", attempts.Load())
	wr := func(tag string, ids []uint64) {
		fmt.Fprintf(&sb, " %s %d", tag, len(ids))
		for _, id := range ids {
			fmt.Fprintf(&sb, " %d", id)
		}
	}
	dqP.mu.Lock()
	wr("f", dqP.ids)
	dqP.mu.Unlock()
	ctl.mu.Lock()
	wr("c", ctl.main)
	wr("C", ctl.dq)
	ctl.mu.Unlock()
	return sb.String()
}

// c09.esdq <retry> <batchsize> <nbatches> (<fail>)*nbatches
//
// The real elasticsearch output behind a real Router with a dead-queue output whose Out BLOCKS on its
// first call (a dead queue that is busy flushing) while several later main batches follow, some of
// them succeeding. Batch k holds the events k*batchsize+1 … (k+1)*batchsize; the endpoint answers 500
// to every request carrying a batch with fail = 1 and 200 otherwise. One main worker (one Batch
// object: the failed batch's backing array is reused by the following batches).
// Result: `f <n> ids…` events received by the dead-queue Out, in call order (0 = nil event),
//         `c <n> ids…` events committed through the main output, `C <n> ids…` committed by the dead queue.

func init() {
	execs["c09.esdq"] = func(t *hx.Toks) string {
		return runWatched(8*time.Second, 8*time.Second, func(*watched) string { return execC09ESDQ(t) })
	}
}

type esSlowDQ struct {
	mu      sync.Mutex
	ids     []uint64
	commits []uint64
	ctl     pipeline.OutputPluginController
	first   sync.Once
	release chan struct{}
	entered chan struct{}
}

func (p *esSlowDQ) Start(_ pipeline.AnyConfig, params *pipeline.OutputPluginParams) {
	p.ctl = params.Controller
}
func (p *esSlowDQ) Stop() {}
func (p *esSlowDQ) Out(ev *pipeline.Event) {
	p.first.Do(func() {
		close(p.entered)
		select {
		case <-p.release:
		case <-time.After(5 * time.Second):
		}
	})
	p.mu.Lock()
	defer p.mu.Unlock()
	if ev == nil {
		p.ids = append(p.ids, 0)
		return
	}
	p.ids = append(p.ids, uint64(ev.Offset))
	p.commits = append(p.commits, uint64(ev.Offset)) // a synchronous dead queue: the event is committed here
}

type esMainCtl struct {
	mu   sync.Mutex
	main []uint64
}

func (c *esMainCtl) Commit(ev *pipeline.Event) {
	c.mu.Lock()
	if ev == nil {
		c.main = append(c.main, 0)
	} else {
		c.main = append(c.main, uint64(ev.Offset))
	}
	c.mu.Unlock()
}
func (c *esMainCtl) Error(string) {}

var esIDRe = regexp.MustCompile(`"id":(\d+)`)

func execC09ESDQ(t *hx.Toks) string {
	retry, bsize, nb := t.Int(), t.Int(), t.Int()
	if t.Err != nil || retry < 0 || retry > 3 || bsize < 1 || bsize > 16 || nb < 1 || nb > 16 {
		return "bad-case"
	}
	fails := make([]bool, nb)
	nOK := 0
	for i := range fails {
		fails[i] = t.Bool()
		if !fails[i] {
			nOK += bsize
		}
	}
	if t.Err != nil || !t.Done() {
		return "bad-case"
	}
	srv := httptest.NewServer(http.HandlerFunc(func(w http.ResponseWriter, r *http.Request) {
		body, _ := io.ReadAll(r.Body)
		code := http.StatusOK
		if m := esIDRe.FindSubmatch(body); m != nil {
			id, _ := strconv.Atoi(string(m[1]))
			if k := (id - 1) / bsize; k >= 0 && k < nb && fails[k] {
				code = http.StatusInternalServerError
			}
		}
		w.WriteHeader(code)
		if code == http.StatusOK {
			_, _ = w.Write([]byte(`{"took":1,"errors":false,"items":[]}`))
		}
	}))
	defer srv.Close()
	config := &elasticsearch.Config{
		Endpoints:         []string{srv.URL},
		BatchSize:         cfg.Expression(fmt.Sprint(bsize)),
		WorkersCount:      "1",
		Retention:         "1ms",
		BatchFlushTimeout: "1h",
	}
	if err := cfg.SetDefaultValues(config); err != nil {
		return "err-config"
	}
	config.Retry = retry
	if err := cfg.Parse(config, map[string]int{"gomaxprocs": 1, "capacity": 64}); err != nil {
		return "err-config"
	}
	ctl := &esMainCtl{}
	dqP := &esSlowDQ{release: make(chan struct{}), entered: make(chan struct{})}
	plugin := &elasticsearch.Plugin{}
	router := pipeline.NewRouter()
	router.SetOutput(&pipeline.OutputPluginInfo{PluginStaticInfo: &pipeline.PluginStaticInfo{Type: "elasticsearch", Config: config},
		PluginRuntimeInfo: &pipeline.PluginRuntimeInfo{Plugin: plugin, ID: "es"}})
	router.SetDeadQueueOutput(&pipeline.OutputPluginInfo{PluginStaticInfo: &pipeline.PluginStaticInfo{Type: "dq"},
		PluginRuntimeInfo: &pipeline.PluginRuntimeInfo{Plugin: dqP, ID: "dq"}})
	router.Start(&pipeline.OutputPluginParams{
		PluginDefaultParams: pipeline.PluginDefaultParams{PipelineName: "verif",
			PipelineSettings: &pipeline.Settings{AvgEventSize: 64},
			MetricCtl:        metric.NewCtl("", prometheus.NewRegistry(), time.Minute, 0)},
		Controller: ctl, Router: router, Logger: zap.NewNop().Sugar()})
	n := nb * bsize
	roots := make([]*insaneJSON.Root, n)
	for i := range roots {
		root, err := insaneJSON.DecodeString(fmt.Sprintf(`{"id":%d}`, i+1))
		if err != nil {
			return "err-json"
		}
		roots[i] = root
	}
	addDone := make(chan struct{})
	go func() {
		defer close(addDone)
		for i := 0; i < n; i++ {
			ev := mkEvent(&evSpec{id: uint64(i + 1), size: 8})
			ev.Root = roots[i]
			router.Out(ev)
		}
	}()
	// hold the dead queue's first Out until the main output has gone through everything it can reach
	// without it (all events of the succeeding batches committed), at most 80 ms
	go func() {
		select {
		case <-dqP.entered:
		case <-time.After(20 * time.Second):
			return
		}
		deadline := time.Now().Add(80 * time.Millisecond)
		for time.Now().Before(deadline) {
			ctl.mu.Lock()
			done := len(ctl.main) >= nOK
			ctl.mu.Unlock()
			if done {
				time.Sleep(2 * time.Millisecond)
				break
			}
			time.Sleep(200 * time.Microsecond)
		}
		close(dqP.release)
	}()
	// settle: all adds issued, then no new dead-queue call / commit for a while
	select {
	case <-addDone:
	case <-time.After(20 * time.Second):
		return "panic:stuck"
	}
	last, lastChange := -1, time.Now()
	for time.Since(lastChange) < 60*time.Millisecond {
		ctl.mu.Lock()
		dqP.mu.Lock()
		cur := len(ctl.main) + len(dqP.ids)
		dqP.mu.Unlock()
		ctl.mu.Unlock()
		if cur != last {
			last, lastChange = cur, time.Now()
		}
		if cur >= n && time.Since(lastChange) > 15*time.Millisecond {
			break
		}
		time.Sleep(time.Millisecond)
	}
	stopped := make(chan struct{})
	go func() { router.Stop(); close(stopped) }()
	select {
	case <-stopped:
	case <-time.After(10 * time.Second):
		return "panic:stuck"
	}
	var sb strings.Builder
	wr := func(tag string, ids []uint64) {
		if sb.Len() > 0 {
			sb.WriteByte(' ')
		}
		fmt.Fprintf(&sb, "%s %d", tag, len(ids))
		for _, id := range ids {
			fmt.Fprintf(&sb, " %d", id)
		}
	}
	dqP.mu.Lock()
	ctl.mu.Lock()
	wr("f", dqP.ids)
	wr("c", ctl.main)
	wr("C", dqP.commits)
	ctl.mu.Unlock()
	dqP.mu.Unlock()
	for _, r := range roots {
		insaneJSON.Release(r)
	}
	return sb.String()
}
