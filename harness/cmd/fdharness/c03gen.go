package main

import (
	"bufio"
	"fmt"
	"strings"

	"verifharness/internal/hx"
)

// builder of one C03 history
type c03B struct {
	lines  []c03Line
	steps  []string
	nextID int
	nfiles int
}

func (b *c03B) line(stream string, pad int) []byte {
	b.nextID++
	d := []byte(fmt.Sprintf(`{"stream":"%s","n":%d,"p":"%s"}`+"\n", stream, b.nextID, strings.Repeat("x", pad)))
	b.lines = append(b.lines, c03Line{b.nextID, stream, d})
	return d
}

func (b *c03B) step(format string, a ...any) { b.steps = append(b.steps, fmt.Sprintf(format, a...)) }

func (b *c03B) newFile() int {
	f := b.nfiles
	b.nfiles++
	b.step("C %d", f)
	return f
}

func (b *c03B) rotate(f int) int {
	g := b.nfiles
	b.nfiles++
	b.step("R %d %d", f, g)
	return g
}

func (b *c03B) app(f int, data []byte) { b.step("A %d %s", f, hx.Enc(data)) }

func (b *c03B) emit(w *bufio.Writer, mode string, workers, buf, procs int, kill string) {
	fmt.Fprintf(w, "c03.hist %s %d %d %d %s %d", mode, workers, buf, procs, kill, len(b.lines))
	for _, l := range b.lines {
		fmt.Fprintf(w, " %d %s %s", l.id, hx.Enc([]byte(l.stream)), hx.Enc(l.data))
	}
	n := 0
	for _, s := range b.steps {
		_ = s
		n++
	}
	fmt.Fprintf(w, " %d %s\n", n, strings.Join(b.steps, " "))
}

// the recorded witness of the known finding: a1 b2 a3, a1 and a3 acked and saved, b2 in flight
func c03Witness(w *bufio.Writer, mode string) {
	b := &c03B{}
	f := b.newFile()
	var d []byte
	d = append(d, b.line("a", 0)...)
	d = append(d, b.line("b", 0)...)
	d = append(d, b.line("a", 0)...)
	b.app(f, d)
	b.step("U")
	b.step("W")
	b.step("K 0")
	b.step("K 0")
	b.step("S")
	b.step("X")
	b.step("U")
	b.emit(w, mode, 1, 64, 1, "x")
}

var c03Streams = []string{"a", "b", "c"}

// appends `n` lines to f in a few A steps, sometimes splitting a line between two steps; returns
// the steps as closures so that the caller can interleave them with other steps
func (b *c03B) appendLines(rng *hx.Rng, f int, n int, nstreams int) {
	var buf []byte
	for i := 0; i < n; i++ {
		buf = append(buf, b.line(c03Streams[rng.Intn(nstreams)], rng.Range(0, 12))...)
		if rng.Chance(1, 3) {
			if rng.Chance(1, 2) && len(buf) > 2 {
				k := rng.Range(1, len(buf)-1)
				b.app(f, buf[:k])
				buf = append([]byte{}, buf[k:]...)
				if rng.Chance(1, 4) {
					// the job goes idle on the unterminated line and lives through maintenance passes
					// (W and P are no-ops while file.d is down)
					b.step("W")
					b.step("P")
				}
			} else {
				b.app(f, buf)
				buf = nil
			}
		}
	}
	if len(buf) > 0 {
		b.app(f, buf)
	}
}

// one random history: 1–3 files, 1–3 streams, run 1 with appends / acks / saves and a kill, downtime
// with appends, new files and rename rotations, run 2 until idle
func c03Random(w *bufio.Writer, rng *hx.Rng, trunc bool) {
	b := &c03B{}
	nfiles := rng.Range(1, 3)
	nstreams := rng.Range(1, 3)
	if rng.Chance(1, 3) {
		nstreams = 1
	}
	var files []int
	for i := 0; i < nfiles; i++ {
		f := b.newFile()
		files = append(files, f)
		if rng.Chance(2, 3) {
			b.appendLines(rng, f, rng.Range(1, 5), nstreams)
		}
	}
	b.step("U")
	// run 1
	rounds := rng.Range(1, 3)
	for r := 0; r < rounds; r++ {
		for _, f := range files {
			if rng.Chance(2, 3) {
				b.appendLines(rng, f, rng.Range(1, 4), nstreams)
			}
		}
		if rng.Chance(5, 6) {
			b.step("W")
		}
		na := rng.Range(0, 6)
		for k := 0; k < na; k++ {
			b.step("K %d", rng.Intn(6))
		}
		if rng.Chance(1, 6) {
			b.step("KA")
		}
		if rng.Chance(1, 2) {
			b.step("S")
		}
	}
	// a partial line may be pending at the crash
	var pendingTail []byte
	pf := files[rng.Intn(len(files))]
	if rng.Chance(1, 3) {
		l := b.line(c03Streams[rng.Intn(nstreams)], rng.Range(0, 8))
		k := rng.Range(1, len(l)-1)
		b.app(pf, l[:k])
		pendingTail = l[k:]
		if rng.Chance(1, 2) {
			b.step("W")
		}
	}
	b.step("X")
	// downtime
	if pendingTail != nil {
		b.app(pf, pendingTail)
	}
	for _, f := range append([]int{}, files...) {
		if rng.Chance(1, 2) {
			b.appendLines(rng, f, rng.Range(1, 3), nstreams)
		}
		if rng.Chance(1, 3) {
			g := b.rotate(f)
			files = append(files, g)
			if rng.Chance(2, 3) {
				b.appendLines(rng, g, rng.Range(1, 3), nstreams)
			}
			if rng.Chance(1, 3) {
				b.appendLines(rng, f, 1, nstreams)
			}
		}
	}
	if rng.Chance(1, 4) && len(files) < 5 {
		f := b.newFile()
		files = append(files, f)
		b.appendLines(rng, f, rng.Range(1, 3), nstreams)
	}
	b.step("U")
	if trunc {
		// dedicated truncation scenario, in the last run (the guarantee does not cover a kill after a
		// truncation): events may be in flight; truncate, wait for the detection, write again
		b.step("W")
		for k := rng.Range(0, 5); k > 0; k-- {
			b.step("K %d", rng.Intn(6))
		}
		f := files[rng.Intn(len(files))]
		if rng.Chance(1, 3) {
			l := b.line(c03Streams[rng.Intn(nstreams)], 3)
			b.app(f, l[:len(l)/2]) // a partial line is pending at the truncation
			b.step("W")
		}
		b.step("T %d", f)
		b.step("W")
		for k := rng.Range(0, 4); k > 0; k-- {
			b.step("K %d", rng.Intn(6))
		}
		b.appendLines(rng, f, rng.Range(1, 4), nstreams)
		b.step("W")
		for k := rng.Range(0, 6); k > 0; k-- {
			b.step("K %d", rng.Intn(6))
		}
		if rng.Chance(1, 2) {
			b.appendLines(rng, f, rng.Range(1, 3), nstreams)
		}
	}
	// run 2: some acks, maybe more data, then idle
	if !trunc && rng.Chance(1, 2) {
		b.step("W")
		for k := rng.Range(0, 4); k > 0; k-- {
			b.step("K %d", rng.Intn(6))
		}
		if rng.Chance(1, 2) {
			f := files[rng.Intn(len(files))]
			b.appendLines(rng, f, rng.Range(1, 2), nstreams)
		}
	}
	mode := "a"
	if rng.Chance(1, 2) {
		mode = "s"
	}
	kill := "x"
	switch rng.Intn(4) {
	case 0:
		kill = fmt.Sprintf("e%d", rng.Range(3, 60))
	case 1:
		kill = fmt.Sprintf("t%d", rng.Range(0, 30000))
	}
	bufs := []int{16, 64, 4096}
	b.emit(w, mode, rng.Range(1, 3), bufs[rng.Intn(len(bufs))], rng.Range(1, 4), kill)
}

// ---- targeted templates

// two streams, both listed in the saved offsets, one lagging with un-acked lines between the two
// offsets: the restart has to seek to the minimum, and must skip exactly the acked lines
func c03TwoListed(w *bufio.Writer, rng *hx.Rng, mode, kill string) {
	b := &c03B{}
	f := b.newFile()
	var d []byte
	pat := []string{"a", "b", "a", "b", "a", "a", "b"}
	for _, st := range pat {
		d = append(d, b.line(st, rng.Range(0, 6))...)
	}
	b.app(f, d)
	b.step("U")
	b.step("W")
	// eligible heads sorted (a, b): ack a1, b2, a3, then a5 a6 (stream a runs ahead), b4 b7 stay in flight
	for _, k := range []int{0, 1, 0, 0, 0} {
		b.step("K %d", k)
	}
	b.step("S")
	b.step("X")
	if rng.Chance(1, 2) {
		b.app(f, b.line("b", 2))
	}
	b.step("U")
	b.emit(w, mode, 1+rng.Intn(2), 64, 1+rng.Intn(3), kill)
}

// a small fixed history used for the crash-point sweep (kill after the k-th boundary record)
func c03Sweep(w *bufio.Writer, mode string, k int, streams []string) {
	b := &c03B{}
	f := b.newFile()
	g := b.newFile()
	var d []byte
	for i, st := range streams {
		d = append(d, b.line(st, i%3)...)
	}
	b.app(f, d)
	b.app(g, b.line(streams[0], 1))
	b.step("U")
	b.step("W")
	b.step("K 0")
	b.step("K 1")
	l := b.line(streams[len(streams)-1], 0)
	b.app(f, l[:7])
	b.step("K 0")
	b.app(f, l[7:])
	b.step("W")
	b.step("K 2")
	b.step("K 0")
	b.step("S")
	b.app(g, b.line(streams[0], 2))
	b.step("W")
	b.step("KA")
	b.step("S")
	b.step("X")
	b.app(f, b.line(streams[0], 0))
	h := b.rotate(g)
	b.app(h, b.line(streams[0], 3))
	b.step("U")
	b.emit(w, mode, 2, 64, 2, fmt.Sprintf("e%d", k))
}

// kill inside an offsets save (strace-injected SIGKILL at rename / fsync entry)
func c03SaveKill(w *bufio.Writer, rng *hx.Rng) {
	b := &c03B{}
	nstreams := rng.Range(1, 2)
	f := b.newFile()
	b.appendLines(rng, f, rng.Range(2, 5), nstreams)
	b.step("U")
	b.step("W")
	for k := rng.Range(1, 4); k > 0; k-- {
		b.step("K %d", rng.Intn(3))
	}
	b.step("S")
	b.appendLines(rng, f, rng.Range(1, 3), nstreams)
	b.step("W")
	b.step("KA")
	b.step("S")
	b.step("X")
	b.appendLines(rng, f, 1, nstreams)
	b.step("U")
	mode := "a"
	if rng.Chance(1, 2) {
		mode = "s"
	}
	kind := "r"
	if rng.Chance(1, 2) {
		kind = "f"
	}
	b.emit(w, mode, 1, 64, 1, fmt.Sprintf("%s%d", kind, rng.Range(1, 3)))
}

// a line is appended to an idle file and at once the file leaves the watched directory (moved out with or
// without a new file under its old name, or unlinked): maintenance must read what is unread on the
// descriptor it holds before it releases the job. Kill only after everything of that file is acked
// (a file outside the directory is not found again by a restart).
func c03Depart(w *bufio.Writer, rng *hx.Rng) {
	b := &c03B{}
	nstreams := rng.Range(1, 2)
	nfiles := rng.Range(1, 2)
	var files []int
	for i := 0; i < nfiles; i++ {
		f := b.newFile()
		files = append(files, f)
		if rng.Chance(1, 2) {
			b.appendLines(rng, f, rng.Range(1, 3), nstreams)
		}
	}
	b.step("U")
	for _, f := range files {
		if rng.Chance(2, 3) {
			b.appendLines(rng, f, rng.Range(1, 3), nstreams)
		}
	}
	b.step("W")
	if rng.Chance(2, 3) {
		b.step("KA")
		b.step("W")
	} else {
		for k := rng.Range(0, 3); k > 0; k-- {
			b.step("K %d", rng.Intn(4))
		}
	}
	f := files[rng.Intn(len(files))]
	// the pending append: whole lines, sometimes completing in two writes
	if rng.Chance(5, 6) {
		var d []byte
		for k := rng.Range(1, 2); k > 0; k-- {
			d = append(d, b.line(c03Streams[rng.Intn(nstreams)], rng.Range(0, 6))...)
		}
		if rng.Chance(1, 4) && len(d) > 4 {
			k := rng.Range(1, len(d)-1)
			b.app(f, d[:k])
			b.app(f, d[k:])
		} else {
			b.app(f, d)
		}
	}
	switch rng.Intn(3) {
	case 0:
		g := b.nfiles
		b.nfiles++
		b.step("RO %d %d", f, g)
		files = append(files, g)
	case 1:
		b.step("O %d", f)
	default:
		b.step("D %d", f)
	}
	for i, x := range files {
		if x == f {
			files = append(files[:i], files[i+1:]...)
			break
		}
	}
	b.step("KQ")
	for _, g := range files {
		if rng.Chance(1, 2) {
			b.appendLines(rng, g, rng.Range(1, 2), nstreams)
		}
	}
	mode := "a"
	if rng.Chance(1, 2) {
		mode = "s"
	}
	if rng.Chance(1, 2) && len(files) > 0 {
		b.step("W")
		for k := rng.Range(0, 3); k > 0; k-- {
			b.step("K %d", rng.Intn(4))
		}
		if rng.Chance(1, 2) {
			b.step("S")
		}
		b.step("X")
		for _, g := range files {
			if rng.Chance(1, 2) {
				b.appendLines(rng, g, rng.Range(1, 2), nstreams)
			}
		}
		b.step("U")
	}
	bufs := []int{16, 64, 4096}
	b.emit(w, mode, rng.Range(1, 2), bufs[rng.Intn(len(bufs))], rng.Range(1, 3), "x")
}

// a line written in two or three writes with the job idle on the unterminated head for several
// maintenance passes (close / re-open / re-position of the descriptor): the buffered head is part of the
// job state and must be joined with the rest. With and without a kill afterwards, with a rotation while
// down, with the file leaving the directory after the line is complete.
func c03MidLine(w *bufio.Writer, rng *hx.Rng) {
	b := &c03B{}
	nstreams := rng.Range(1, 2)
	f := b.newFile()
	if rng.Chance(1, 2) {
		b.appendLines(rng, f, rng.Range(1, 2), nstreams)
	}
	b.step("U")
	if rng.Chance(1, 2) {
		b.appendLines(rng, f, rng.Range(1, 2), nstreams)
	}
	b.step("W")
	for k := rng.Range(0, 3); k > 0; k-- {
		b.step("K %d", rng.Intn(3))
	}
	rounds := rng.Range(1, 2)
	for r := 0; r < rounds; r++ {
		var d []byte
		if rng.Chance(1, 2) {
			d = append(d, b.line(c03Streams[rng.Intn(nstreams)], rng.Range(0, 4))...)
		}
		l := b.line(c03Streams[rng.Intn(nstreams)], rng.Range(0, 10))
		cuts := []int{rng.Range(1, len(l)-2)}
		if rng.Chance(1, 3) && cuts[0]+1 < len(l)-1 {
			cuts = append(cuts, rng.Range(cuts[0]+1, len(l)-1))
		}
		b.app(f, append(d, l[:cuts[0]]...))
		b.step("W")
		b.step("P")
		if len(cuts) == 2 {
			b.app(f, l[cuts[0]:cuts[1]])
			b.step("W")
			b.step("P")
			cuts[0] = cuts[1]
		}
		rest := append([]byte{}, l[cuts[0]:]...)
		if rng.Chance(1, 2) {
			rest = append(rest, b.line(c03Streams[rng.Intn(nstreams)], rng.Range(0, 4))...)
		}
		b.app(f, rest)
		b.step("W")
		for k := rng.Range(0, 3); k > 0; k-- {
			b.step("K %d", rng.Intn(3))
		}
	}
	files := []int{f}
	switch rng.Intn(4) {
	case 0: // the file leaves the directory once the line is complete
		b.app(f, b.line(c03Streams[rng.Intn(nstreams)], 1))
		b.step("O %d", f)
		b.step("KQ")
		files = nil
	case 1, 2: // kill, maybe a rotation while down, restart
		if rng.Chance(1, 2) {
			b.step("S")
		}
		b.step("X")
		if rng.Chance(1, 2) {
			g := b.rotate(f)
			files = append(files, g)
			b.appendLines(rng, g, 1, nstreams)
		}
		b.appendLines(rng, f, 1, nstreams)
		b.step("U")
	}
	_ = files
	mode := "a"
	if rng.Chance(1, 2) {
		mode = "s"
	}
	bufs := []int{16, 64, 4096}
	b.emit(w, mode, rng.Range(1, 2), bufs[rng.Intn(len(bufs))], rng.Range(1, 3), "x")
}

// inode reuse: run 1 reads, acks and saves file f; while down f is deleted and a new file that got f's inode
// number is staged outside the directory; after the start-up scan of run 2 it is moved in: a late file. It must
// be read from its beginning although the offsets loaded at start still hold f's entry. One stream only, so
// that a line lost below the stale offset can never be taken for the unlisted-stream finding.
func c03InodeReuse(w *bufio.Writer, rng *hx.Rng) {
	b := &c03B{}
	f := b.newFile()
	other := -1
	if rng.Chance(1, 2) {
		other = b.newFile()
		b.appendLines(rng, other, rng.Range(1, 2), 1)
	}
	b.appendLines(rng, f, rng.Range(2, 4), 1)
	b.step("U")
	b.step("W")
	b.step("KA")
	b.step("S")
	b.step("X")
	var d []byte
	for k := rng.Range(1, 8); k > 0; k-- { // shorter or longer than the stale offset
		d = append(d, b.line("a", rng.Range(0, 8))...)
	}
	b.step("DS %d %s", f, hx.Enc(d))
	if other >= 0 && rng.Chance(1, 2) {
		b.appendLines(rng, other, 1, 1)
	}
	b.step("U")
	b.step("W")
	b.step("MV %d", f)
	b.step("W")
	for k := rng.Range(0, 3); k > 0; k-- {
		b.step("K %d", rng.Intn(3))
	}
	if rng.Chance(1, 2) {
		b.appendLines(rng, f, rng.Range(1, 2), 1)
	}
	mode := "s"
	if rng.Chance(1, 3) {
		mode = "a"
	}
	bufs := []int{16, 64, 4096}
	b.emit(w, mode, rng.Range(1, 2), bufs[rng.Intn(len(bufs))], rng.Range(1, 3), "x")
}

func genC03Cases(w *bufio.Writer, rng *hx.Rng, tier string) {
	nrand, ntr, nsave, sweepStep := 300, 40, 8, 2
	if tier == "thorough" {
		nrand, ntr, nsave, sweepStep = 2200, 200, 60, 1
	}
	for _, mode := range []string{"a", "s"} {
		c03TwoListed(w, rng, mode, "x")
		c03TwoListed(w, rng, mode, "x")
	}
	for _, mode := range []string{"a", "s"} {
		for k := 1 + rng.Intn(sweepStep); k <= 64; k += sweepStep {
			c03Sweep(w, mode, k, []string{"a", "a", "a"})
			if tier == "thorough" {
				c03Sweep(w, mode, k, []string{"a", "b", "a", "b"})
			}
		}
	}
	for i := 0; i < nsave; i++ {
		c03SaveKill(w, rng)
	}
	ndep := 30
	if tier == "thorough" {
		ndep = 300
	}
	for i := 0; i < ndep; i++ {
		c03Depart(w, rng)
	}
	nreuse := 6
	if tier == "thorough" {
		nreuse = 30
	}
	for i := 0; i < nreuse; i++ {
		c03InodeReuse(w, rng)
	}
	nmid := 30
	if tier == "thorough" {
		nmid = 250
	}
	for i := 0; i < nmid; i++ {
		c03MidLine(w, rng)
	}
	for i := 0; i < nrand; i++ {
		c03Random(w, rng, false)
	}
	for i := 0; i < ntr; i++ {
		c03Random(w, rng, true)
	}
}
func init() {
	gens["C03witness"] = func(w *bufio.Writer, _ *hx.Rng, _ string) {
		c03Witness(w, "a")
		c03Witness(w, "s")
	}
}
