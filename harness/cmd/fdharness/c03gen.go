package main

import (
	"bufio"
	"fmt"
	"strings"

	"verifharness/internal/hx"
)

// builder of one C03 history
type c03B struct {
	lines  []c03Line
	steps  []string
	nextID int
	nfiles int
}

func (b *c03B) line(stream string, pad int) []byte {
	b.nextID++
	d := []byte(fmt.Sprintf(`{"stream":"%s","n":%d,"p":"%s"}`+"\n", stream, b.nextID, strings.Repeat("x", pad)))
	b.lines = append(b.lines, c03Line{b.nextID, stream, d})
	return d
}

func (b *c03B) step(format string, a ...any) { b.steps = append(b.steps, fmt.Sprintf(format, a...)) }

func (b *c03B) newFile() int {
	f := b.nfiles
	b.nfiles++
	b.step("C %d", f)
	return f
}

func (b *c03B) rotate(f int) int {
	g := b.nfiles
	b.nfiles++
	b.step("R %d %d", f, g)
	return g
}

func (b *c03B) app(f int, data []byte) { b.step("A %d %s", f, hx.Enc(data)) }

func (b *c03B) emit(w *bufio.Writer, mode string, workers, buf, procs int, kill string) {
	fmt.Fprintf(w, "c03.hist %s %d %d %d %s %d", mode, workers, buf, procs, kill, len(b.lines))
	for _, l := range b.lines {
		fmt.Fprintf(w, " %d %s %s", l.id, hx.Enc([]byte(l.stream)), hx.Enc(l.data))
	}
	n := 0
	for _, s := range b.steps {
		_ = s
		n++
	}
	fmt.Fprintf(w, " %d %s\n", n, strings.Join(b.steps, " "))
}

// the recorded witness of the known finding: a1 b2 a3, a1 and a3 acked and saved, b2 in flight
func c03Witness(w *bufio.Writer, mode string) {
	b := &c03B{}
	f := b.newFile()
	var d []byte
	d = append(d, b.line("a", 0)...)
	d = append(d, b.line("b", 0)...)
	d = append(d, b.line("a", 0)...)
	b.app(f, d)
	b.step("U")
	b.step("W")
	b.step("K 0")
	b.step("K 0")
	b.step("S")
	b.step("X")
	b.step("U")
	b.emit(w, mode, 1, 64, 1, "x")
}

var c03Streams = []string{"a", "b", "c"}

// appends `n` lines to f in a few A steps, sometimes splitting a line between two steps; returns
// the steps as closures so that the caller can interleave them with other steps
func (b *c03B) appendLines(rng *hx.Rng, f int, n int, nstreams int) {
	var buf []byte
	for i := 0; i < n; i++ {
		buf = append(buf, b.line(c03Streams[rng.Intn(nstreams)], rng.Range(0, 12))...)
		if rng.Chance(1, 3) {
			if rng.Chance(1, 2) && len(buf) > 2 {
				k := rng.Range(1, len(buf)-1)
				b.app(f, buf[:k])
				buf = append([]byte{}, buf[k:]...)
			} else {
				b.app(f, buf)
				buf = nil
			}
		}
	}
	if len(buf) > 0 {
		b.app(f, buf)
	}
}

// one random history: 1–3 files, 1–3 streams, run 1 with appends / acks / saves and a kill, downtime
// with appends, new files and rename rotations, run 2 until idle
func c03Random(w *bufio.Writer, rng *hx.Rng, trunc bool) {
	b := &c03B{}
	nfiles := rng.Range(1, 3)
	nstreams := rng.Range(1, 3)
	if rng.Chance(1, 3) {
		nstreams = 1
	}
	var files []int
	for i := 0; i < nfiles; i++ {
		f := b.newFile()
		files = append(files, f)
		if rng.Chance(2, 3) {
			b.appendLines(rng, f, rng.Range(1, 5), nstreams)
		}
	}
	b.step("U")
	// run 1
	rounds := rng.Range(1, 3)
	for r := 0; r < rounds; r++ {
		for _, f := range files {
			if rng.Chance(2, 3) {
				b.appendLines(rng, f, rng.Range(1, 4), nstreams)
			}
		}
		if rng.Chance(5, 6) {
			b.step("W")
		}
		na := rng.Range(0, 6)
		for k := 0; k < na; k++ {
			b.step("K %d", rng.Intn(6))
		}
		if rng.Chance(1, 6) {
			b.step("KA")
		}
		if rng.Chance(1, 2) {
			b.step("S")
		}
		if trunc && r == 0 {
			// dedicated truncation scenario: quiesce or not, truncate, wait for detection, write again
			f := files[rng.Intn(len(files))]
			b.step("T %d", f)
			b.step("W")
			b.appendLines(rng, f, rng.Range(1, 4), nstreams)
			b.step("W")
			for k := rng.Range(0, 6); k > 0; k-- {
				b.step("K %d", rng.Intn(6))
			}
		}
	}
	// a partial line may be pending at the crash
	var pendingTail []byte
	pf := files[rng.Intn(len(files))]
	if rng.Chance(1, 3) {
		l := b.line(c03Streams[rng.Intn(nstreams)], rng.Range(0, 8))
		k := rng.Range(1, len(l)-1)
		b.app(pf, l[:k])
		pendingTail = l[k:]
		if rng.Chance(1, 2) {
			b.step("W")
		}
	}
	b.step("X")
	// downtime
	if pendingTail != nil {
		b.app(pf, pendingTail)
	}
	for _, f := range append([]int{}, files...) {
		if rng.Chance(1, 2) {
			b.appendLines(rng, f, rng.Range(1, 3), nstreams)
		}
		if rng.Chance(1, 3) {
			g := b.rotate(f)
			files = append(files, g)
			if rng.Chance(2, 3) {
				b.appendLines(rng, g, rng.Range(1, 3), nstreams)
			}
			if rng.Chance(1, 3) {
				b.appendLines(rng, f, 1, nstreams)
			}
		}
	}
	if rng.Chance(1, 4) && len(files) < 5 {
		f := b.newFile()
		files = append(files, f)
		b.appendLines(rng, f, rng.Range(1, 3), nstreams)
	}
	b.step("U")
	// run 2: some acks, maybe more data, then idle
	if rng.Chance(1, 2) {
		b.step("W")
		for k := rng.Range(0, 4); k > 0; k-- {
			b.step("K %d", rng.Intn(6))
		}
		if rng.Chance(1, 2) {
			f := files[rng.Intn(len(files))]
			b.appendLines(rng, f, rng.Range(1, 2), nstreams)
		}
	}
	mode := "a"
	if rng.Chance(1, 2) {
		mode = "s"
	}
	kill := "x"
	switch rng.Intn(4) {
	case 0:
		kill = fmt.Sprintf("e%d", rng.Range(3, 60))
	case 1:
		kill = fmt.Sprintf("t%d", rng.Range(0, 30000))
	}
	bufs := []int{16, 64, 4096}
	b.emit(w, mode, rng.Range(1, 3), bufs[rng.Intn(len(bufs))], rng.Range(1, 4), kill)
}

func genC03Cases(w *bufio.Writer, rng *hx.Rng, tier string) {
	n, ntr := 22, 3
	if tier == "thorough" {
		n, ntr = 260, 40
	}
	for i := 0; i < n; i++ {
		c03Random(w, rng, false)
	}
	for i := 0; i < ntr; i++ {
		c03Random(w, rng, true)
	}
}

func init() {
	gens["C03witness"] = func(w *bufio.Writer, _ *hx.Rng, _ string) {
		c03Witness(w, "a")
		c03Witness(w, "s")
	}
}
