package main

import (
	"bufio"
	"bytes"
	stdgzip "compress/gzip"
	"errors"
	"fmt"
	"io"
	"net/http"
	"net/http/httptest"
	"os"
	"runtime"
	"sort"
	"strconv"
	"strings"
	"sync"
	"time"

	kgzip "github.com/klauspost/compress/gzip"
	"github.com/ozontech/file.d/cfg"
	"github.com/ozontech/file.d/decoder"
	"github.com/ozontech/file.d/metric"
	"github.com/ozontech/file.d/pipeline"
	"github.com/ozontech/file.d/pipeline/metadata"
	httpin "github.com/ozontech/file.d/plugin/input/http"
	"github.com/prometheus/client_golang/prometheus"
	"go.uber.org/zap"

	"verifharness/internal/hx"
)

// C11: HTTP input — the events of a request are the lines of its body, however it is chunked.
//
// case: c11.reqs <es> <conc> <n> (<gz> <ntrans> <rd>… [<hdrerr> <ended> <ndec> <rd>…])…
//
//	<rd> = d:<hex> → Read returns (n, nil) | e:<hex> → (n, io.EOF) | x:<hex> → (n, error)
//
// The real plugin (public Factory / Start / ServeHTTP, Address "off", no hooks) gets a fake
// pipeline.InputPluginController that records every In payload and a request body whose Read
// returns exactly the case's transport reads (then (0, io.EOF) forever). es=1: elasticsearch
// mode, POST /_bulk. conc=1: the n requests run in n goroutines on one plugin instance with a
// barrier at their first read and one at their terminal read, so that all of them are inside
// processBulk (holding a source id and pooled buffers) at the same time; conc=0: one after the
// other on one fresh instance (pooled buffers and the source id are reused). conc=2 (scheduled):
// the case ends with `<nsched> <req>…`; the n requests run in n goroutines but only one at a time:
// every body Read and every controller.In is a park point, step k of the schedule resumes request
// <req> until its next park point (or its end); <req> = n+i runs request i to its end, <req> = 2n
// runs every request that has started to its end, round-robin (a wave of requests completes before
// the next one starts, all on the one plugin instance); when the schedule is used up the requests
// are finished one after the other in index order. GOMAXPROCS is 1 for the duration of such a case, so
// that sync.Pool behaves as on one P (what request A puts back is what request B gets): request A
// parked in the middle of its body while B opens, reads and finishes is then a fixed history, not
// a matter of timing.
//
// For a gzip request the case line also carries the oracle parameter: what the gzip reader
// (the library the plugin uses) returns on that transport stream when read the way
// processBulk reads it, and whether it then has read the transport stream to its end (a corrupt
// stream makes it stop early). exec recomputes it and answers bad-case if the line disagrees.
//
// result: (<nact> <act>…)… sids <const> <k> [<id>…]   with <act> = i:<hex> | r:<status>

const c11ReadBuf = 16 * 1024 // readBufDefaultLen of the plugin

func init() {
	execs["c11.reqs"] = execC11
	gens["C11"] = genC11
}

// ---------------------------------------------------------------- read results

type c11Rd struct {
	kind byte // 'd' data, 'e' data+EOF, 'x' data+error
	b    []byte
}

var errC11 = errors.New("verif: injected read error")

func (r c11Rd) tok() string { return string(r.kind) + ":" + hx.Enc(r.b) }

func c11ParseRd(s string) (c11Rd, bool) {
	if len(s) < 3 || s[1] != ':' || (s[0] != 'd' && s[0] != 'e' && s[0] != 'x') {
		return c11Rd{}, false
	}
	b, err := hx.Dec(s[2:])
	if err != nil {
		return c11Rd{}, false
	}
	return c11Rd{s[0], b}, true
}

func c11ParseRds(t *hx.Toks) ([]c11Rd, bool) {
	n := t.Int()
	if t.Err != nil || n < 0 || n > 1<<20 {
		return nil, false
	}
	out := make([]c11Rd, 0, n)
	for i := 0; i < n; i++ {
		r, ok := c11ParseRd(t.Next())
		if !ok || t.Err != nil {
			return nil, false
		}
		out = append(out, r)
	}
	return out, true
}

// c11Body is a request body whose Read calls return the chosen read results. A data read
// larger than the caller's buffer is delivered in pieces (bufio inside the gzip reader asks for
// what it has room for); plain cases never contain such a read (checked by exec).
type c11Body struct {
	rds      []c11Rd
	pos      int
	off      int // bytes of rds[pos] already delivered
	first    func()
	terminal func()
	started  bool
	ended    bool
	yield    bool
	onRead   func() // scheduled mode: park before every Read
}

func (b *c11Body) Read(p []byte) (int, error) {
	if !b.started {
		b.started = true
		if b.first != nil {
			b.first()
		}
	}
	if b.yield {
		runtime.Gosched()
	}
	if b.onRead != nil {
		b.onRead()
	}
	if b.pos >= len(b.rds) {
		b.term()
		return 0, io.EOF
	}
	r := b.rds[b.pos]
	n := copy(p, r.b[b.off:])
	b.off += n
	if b.off < len(r.b) {
		return n, nil // rest of this read result on the next call
	}
	b.pos++
	b.off = 0
	switch r.kind {
	case 'e':
		b.term()
		return n, io.EOF
	case 'x':
		b.term()
		return n, errC11
	}
	return n, nil
}

func (b *c11Body) term() {
	if !b.ended {
		b.ended = true
		if b.terminal != nil {
			b.terminal()
		}
	}
}

func (b *c11Body) Close() error { return nil }

// c11GzOracle: what the gzip library does on this transport stream, read as processBulk reads.
func c11GzOracle(trans []c11Rd) (hdrErr, ended bool, dec []c11Rd) {
	body := &c11Body{rds: trans}
	defer func() { ended = body.ended }()
	zr, err := kgzip.NewReader(body)
	if err != nil {
		return true, false, nil
	}
	buf := make([]byte, c11ReadBuf)
	for i := 0; i < 1<<16; i++ {
		n, err := zr.Read(buf)
		cp := append([]byte(nil), buf[:n]...)
		switch {
		case err == nil:
			dec = append(dec, c11Rd{'d', cp})
		case err == io.EOF:
			dec = append(dec, c11Rd{'e', cp})
			if n == 0 {
				return false, false, dec
			}
		default:
			dec = append(dec, c11Rd{'x', cp})
			return false, false, dec
		}
	}
	return false, false, dec
}

// ---------------------------------------------------------------- fakes

func c11Gid() uint64 {
	var buf [64]byte
	n := runtime.Stack(buf[:], false)
	// "goroutine 123 [running]:"
	f := strings.Fields(string(buf[:n]))
	if len(f) < 2 {
		return 0
	}
	id, _ := strconv.ParseUint(f[1], 10, 64)
	return id
}

type c11Act struct {
	in   bool
	data []byte
	code int
}

type c11ReqLog struct {
	acts []c11Act
	sids []pipeline.SourceID
	seqs []int  // position of each In call in the order of all In calls of the case
	park func() // scheduled mode: give the turn back and wait to be resumed
}

// c11Ctl is the fake pipeline.InputPluginController: In calls are attributed to the request
// whose goroutine makes them (ServeHTTP calls In synchronously).
type c11Ctl struct {
	mu    sync.Mutex
	byGid map[uint64]*c11ReqLog
	stray int
	// diagnostics only (VERIF_DEBUG): how often consecutive In calls came from different requests
	last     *c11ReqLog
	switches int
	nIn      int
}

func (c *c11Ctl) In(sid pipeline.SourceID, _ string, _ pipeline.Offsets, data []byte, _ bool, _ metadata.MetaData) uint64 {
	g := c11Gid()
	cp := append([]byte(nil), data...) // the plugin reuses the backing buffers
	c.mu.Lock()
	l := c.byGid[g]
	if l == nil {
		c.stray++
		c.mu.Unlock()
		return 0
	}
	if c.last != nil && c.last != l {
		c.switches++
	}
	c.last = l
	l.acts = append(l.acts, c11Act{in: true, data: cp})
	l.sids = append(l.sids, sid)
	l.seqs = append(l.seqs, c.nIn)
	c.nIn++
	n := uint64(len(l.acts))
	c.mu.Unlock()
	if l.park != nil {
		l.park() // the payload is copied: whatever happens to the plugin's buffers now is not ours
	}
	return n
}
// parkCurrent parks the request on whose goroutine it is called (scheduled mode).
func (c *c11Ctl) parkCurrent() {
	g := c11Gid()
	c.mu.Lock()
	l := c.byGid[g]
	c.mu.Unlock()
	if l != nil && l.park != nil {
		l.park()
	}
}

func (c *c11Ctl) UseSpread()                          {}
func (c *c11Ctl) DisableStreams()                     {}
func (c *c11Ctl) SuggestDecoder(_ decoder.Type)       {}
func (c *c11Ctl) IncReadOps()                         {}
func (c *c11Ctl) IncMaxEventSizeExceeded(_ ...string) {}

// c11RW records the status at the first WriteHeader / Write, in the request's action log.
type c11RW struct {
	h     http.Header
	ctl   *c11Ctl
	log   *c11ReqLog
	wrote bool
}

func (w *c11RW) Header() http.Header { return w.h }
func (w *c11RW) WriteHeader(code int) {
	if w.wrote {
		return
	}
	w.wrote = true
	w.ctl.mu.Lock()
	w.log.acts = append(w.log.acts, c11Act{code: code})
	w.ctl.mu.Unlock()
}
func (w *c11RW) Write(b []byte) (int, error) {
	w.WriteHeader(http.StatusOK)
	return len(b), nil
}

func c11NewPlugin(es bool, ctl *c11Ctl) (*httpin.Plugin, error) {
	anyPlugin, anyConfig := httpin.Factory()
	plugin := anyPlugin.(*httpin.Plugin)
	config := anyConfig.(*httpin.Config)
	if err := cfg.SetDefaultValues(config); err != nil {
		return nil, err
	}
	config.Address = "off"
	if es {
		config.EmulateMode = "elasticsearch"
	}
	if err := cfg.Parse(config, map[string]int{}); err != nil {
		return nil, err
	}
	params := &pipeline.InputPluginParams{
		PluginDefaultParams: pipeline.PluginDefaultParams{
			PipelineName:     "verif",
			PipelineSettings: &pipeline.Settings{AvgEventSize: 8, MetaCacheSize: 16},
			MetricCtl:        metric.NewCtl("verif", prometheus.NewRegistry(), 0, 0),
		},
		Controller: ctl,
		Logger:     zap.NewNop().Sugar(),
	}
	plugin.Start(config, params)
	return plugin, nil
}

type c11Req struct {
	gz     bool
	trans  []c11Rd
	hdrErr bool
	ended  bool // gzip: the gzip reader reads the transport stream to its end
	dec    []c11Rd
}

// barrier: released when n parties have arrived (or left), or after a timeout.
type c11Barrier struct {
	mu      sync.Mutex
	n       int
	arrived map[int]bool
	ch      chan struct{}
	timeout bool
}

func newC11Barrier(n int) *c11Barrier {
	return &c11Barrier{n: n, arrived: map[int]bool{}, ch: make(chan struct{})}
}

func (b *c11Barrier) arrive(i int, wait bool) {
	b.mu.Lock()
	if !b.arrived[i] {
		b.arrived[i] = true
		if len(b.arrived) == b.n {
			close(b.ch)
		}
	}
	b.mu.Unlock()
	if wait {
		select {
		case <-b.ch:
		case <-time.After(5 * time.Second):
			b.mu.Lock()
			b.timeout = true
			b.mu.Unlock()
		}
	}
}

// c11RunScheduled runs the requests as coroutines: exactly one of them (or the scheduler) runs at
// any time; a request gives its turn back at every park point and at its end.
func c11RunScheduled(n int, sched []int, logs []*c11ReqLog, serve func(i int, first, terminal func())) (panicked string) {
	prev := runtime.GOMAXPROCS(1)
	defer runtime.GOMAXPROCS(prev)
	type note struct {
		req  int
		done bool
	}
	resume := make([]chan struct{}, n)
	back := make(chan note)
	done := make([]bool, n)
	for i := 0; i < n; i++ {
		i := i
		resume[i] = make(chan struct{})
		logs[i].park = func() {
			back <- note{i, false}
			<-resume[i]
		}
	}
	for i := 0; i < n; i++ {
		go func(i int) {
			<-resume[i]
			defer func() {
				if r := recover(); r != nil {
					panicked = "panic:" + panicKind(r) // only one coroutine runs at a time
				}
				back <- note{i, true}
			}()
			serve(i, nil, nil)
		}(i)
	}
	started := make([]bool, n)
	turn := func(i int) {
		if done[i] {
			return
		}
		started[i] = true
		resume[i] <- struct{}{}
		nt := <-back
		if nt.done {
			done[nt.req] = true
		}
	}
	for _, v := range sched {
		switch {
		case v < n: // one step of request v
			turn(v)
		case v < 2*n: // request v-n to its end
			for !done[v-n] {
				turn(v - n)
			}
		default: // every request that has started, round-robin, to its end (a wave completes)
			for open := true; open; {
				open = false
				for i := 0; i < n; i++ {
					if started[i] && !done[i] {
						turn(i)
						open = true
					}
				}
			}
		}
	}
	for i := 0; i < n; i++ {
		for !done[i] {
			turn(i)
		}
	}
	return panicked
}

func execC11(t *hx.Toks) string {
	es := t.Bool()
	mode := t.Int()
	conc := mode == 1
	n := t.Int()
	if t.Err != nil || n < 0 || n > 64 || mode < 0 || mode > 2 {
		return "bad-case"
	}
	reqs := make([]c11Req, n)
	for i := range reqs {
		q := &reqs[i]
		q.gz = t.Bool()
		var ok bool
		if q.trans, ok = c11ParseRds(t); !ok {
			return "bad-case"
		}
		if q.gz {
			q.hdrErr = t.Bool()
			q.ended = t.Bool()
			if q.dec, ok = c11ParseRds(t); !ok {
				return "bad-case"
			}
			// the oracle parameter must be what the gzip library really does on this stream
			he, en, dec := c11GzOracle(q.trans)
			if he != q.hdrErr || en != q.ended || len(dec) != len(q.dec) {
				return "bad-case"
			}
			for j := range dec {
				if dec[j].kind != q.dec[j].kind || !bytes.Equal(dec[j].b, q.dec[j].b) {
					return "bad-case"
				}
			}
		} else {
			for _, r := range q.trans {
				if len(r.b) > c11ReadBuf {
					return "bad-case" // would not be one Read of the plugin's 16 KiB buffer
				}
			}
		}
	}
	var sched []int
	if mode == 2 {
		k := t.Int()
		if t.Err != nil || k < 0 || k > 1<<22 {
			return "bad-case"
		}
		for j := 0; j < k; j++ {
			r := t.Int()
			if t.Err != nil || r < 0 || r > 2*n {
				return "bad-case"
			}
			sched = append(sched, r)
		}
	}
	if t.Err != nil || !t.Done() {
		return "bad-case"
	}

	ctl := &c11Ctl{byGid: map[uint64]*c11ReqLog{}}
	plugin, err := c11NewPlugin(es, ctl)
	if err != nil {
		return "err-setup"
	}
	path := "/"
	if es {
		path = "/_bulk"
	}
	logs := make([]*c11ReqLog, n)
	bodies := make([]*c11Body, n)
	for i := range logs {
		logs[i] = &c11ReqLog{}
	}
	serve := func(i int, first, terminal func()) {
		body := &c11Body{rds: reqs[i].trans, first: first, terminal: terminal, yield: conc}
		if mode == 2 {
			// park the request that is running, whoever's body it reads
			body.onRead = ctl.parkCurrent
		}
		bodies[i] = body
		r := httptest.NewRequest(http.MethodPost, path, body)
		if reqs[i].gz {
			r.Header.Set("Content-Encoding", "gzip")
		}
		w := &c11RW{h: http.Header{}, ctl: ctl, log: logs[i]}
		g := c11Gid()
		ctl.mu.Lock()
		ctl.byGid[g] = logs[i]
		ctl.mu.Unlock()
		defer func() {
			ctl.mu.Lock()
			delete(ctl.byGid, g)
			ctl.mu.Unlock()
		}()
		plugin.ServeHTTP(w, r)
		// net/http answers 200 when the handler returns without having written anything
		w.WriteHeader(http.StatusOK)
	}
	panicked := ""
	if mode == 2 {
		panicked = c11RunScheduled(n, sched, logs, serve)
	} else if !conc {
		for i := 0; i < n; i++ {
			serve(i, nil, nil)
		}
	} else {
		b1, b2 := newC11Barrier(n), newC11Barrier(n)
		var wg sync.WaitGroup
		var pmu sync.Mutex
		for i := 0; i < n; i++ {
			wg.Add(1)
			go func(i int) {
				defer wg.Done()
				defer func() {
					// a request that is gone no longer holds anybody up
					b1.arrive(i, false)
					b2.arrive(i, false)
					if r := recover(); r != nil {
						pmu.Lock()
						panicked = "panic:" + panicKind(r)
						pmu.Unlock()
					}
				}()
				serve(i, func() { b1.arrive(i, true) }, func() { b2.arrive(i, true) })
			}(i)
		}
		wg.Wait()
		if b1.timeout || b2.timeout {
			return "barrier-timeout"
		}
	}
	if conc && os.Getenv("VERIF_DEBUG") != "" {
		fmt.Fprintf(os.Stderr, "c11: %d requests, %d switches between requests in the In order\n", n, ctl.switches)
	}
	if panicked != "" {
		return panicked
	}
	if ctl.stray != 0 {
		return "stray-in-call"
	}

	var sb strings.Builder
	sidConst := true
	distinct := map[pipeline.SourceID]bool{}
	for i, l := range logs {
		if i > 0 {
			sb.WriteByte(' ')
		}
		sb.WriteString(strconv.Itoa(len(l.acts)))
		for _, a := range l.acts {
			if a.in {
				sb.WriteString(" i:" + hx.Enc(a.data))
			} else {
				sb.WriteString(" r:" + strconv.Itoa(a.code))
			}
		}
		for _, s := range l.sids {
			if s != l.sids[0] {
				sidConst = false
			}
			// concurrent: only requests that were held at their terminal read were in flight together
			if !conc || bodies[i].ended {
				distinct[s] = true
			}
		}
	}
	if n > 0 {
		sb.WriteByte(' ')
	}
	if mode == 2 {
		// two requests whose In calls interleave were in flight together: they must not share an id
		excl := 1
		for i := range logs {
			for j := i + 1; j < len(logs); j++ {
				a, b := logs[i], logs[j]
				if len(a.seqs) == 0 || len(b.seqs) == 0 || a.sids[0] != b.sids[0] {
					continue
				}
				if a.seqs[0] < b.seqs[len(b.seqs)-1] && b.seqs[0] < a.seqs[len(a.seqs)-1] {
					excl = 0
				}
			}
		}
		fmt.Fprintf(&sb, "sids %s %d", hx.B(sidConst), excl)
		return sb.String()
	}
	fmt.Fprintf(&sb, "sids %s %d", hx.B(sidConst), len(distinct))
	if !conc {
		ids := make([]int, 0, len(distinct))
		for s := range distinct {
			ids = append(ids, int(s))
		}
		sort.Ints(ids)
		for _, s := range ids {
			fmt.Fprintf(&sb, " %d", s)
		}
	}
	return sb.String()
}

// ---------------------------------------------------------------- generator

func c11Line(w *bufio.Writer, es, conc bool, reqs []c11Req) {
	mode := 0
	if conc {
		mode = 1
	}
	c11LineMode(w, es, mode, reqs, nil)
}

func c11LineMode(w *bufio.Writer, es bool, mode int, reqs []c11Req, sched []int) {
	fmt.Fprintf(w, "c11.reqs %s %d %d", hx.B(es), mode, len(reqs))
	for _, q := range reqs {
		fmt.Fprintf(w, " %s %d", hx.B(q.gz), len(q.trans))
		for _, r := range q.trans {
			w.WriteString(" " + r.tok())
		}
		if q.gz {
			fmt.Fprintf(w, " %s %s %d", hx.B(q.hdrErr), hx.B(q.ended), len(q.dec))
			for _, r := range q.dec {
				w.WriteString(" " + r.tok())
			}
		}
	}
	if mode == 2 {
		fmt.Fprintf(w, " %d", len(sched))
		for _, i := range sched {
			fmt.Fprintf(w, " %d", i)
		}
	}
	w.WriteByte('\n')
}

func c11Plain(chunks [][]byte) c11Req {
	q := c11Req{}
	for _, c := range chunks {
		q.trans = append(q.trans, c11Rd{'d', c})
	}
	return q
}

// c11Gz builds a gzip request from transport reads and fills in the oracle parameter.
func c11Gz(trans []c11Rd) c11Req {
	q := c11Req{gz: true, trans: trans}
	q.hdrErr, q.ended, q.dec = c11GzOracle(trans)
	return q
}

func c11Compress(body []byte, level int) []byte {
	var buf bytes.Buffer
	zw, _ := stdgzip.NewWriterLevel(&buf, level)
	_, _ = zw.Write(body)
	_ = zw.Close()
	return buf.Bytes()
}

// c11Compositions calls f with every way to cut b into non-empty consecutive chunks.
func c11Compositions(b []byte, f func(chunks [][]byte)) {
	n := len(b)
	if n == 0 {
		f(nil)
		return
	}
	for mask := 0; mask < 1<<(n-1); mask++ {
		var chunks [][]byte
		start := 0
		for i := 0; i < n-1; i++ {
			if mask&(1<<i) != 0 {
				chunks = append(chunks, b[start:i+1])
				start = i + 1
			}
		}
		chunks = append(chunks, b[start:])
		f(chunks)
	}
}

// c11RandChunks cuts b into reads: mode 0 = random sizes up to maxc, 1 = all one byte,
// 2 = around the line ends, 3 = one read (as far as 16 KiB allows); empty reads are sprinkled in.
func c11RandChunks(rng *hx.Rng, b []byte, mode, maxc int) [][]byte {
	var out [][]byte
	if maxc > c11ReadBuf {
		maxc = c11ReadBuf
	}
	for len(b) > 0 {
		k := 1
		switch mode {
		case 0:
			k = rng.Range(1, maxc)
		case 1:
			k = 1
		case 2:
			// cut just before, at, or just after the next newline
			p := bytes.IndexByte(b, '\n')
			if p < 0 {
				k = len(b)
			} else {
				k = p + rng.Range(0, 2)
			}
			if k < 1 {
				k = 1
			}
		case 3:
			k = c11ReadBuf
		}
		if k > len(b) {
			k = len(b)
		}
		if k > c11ReadBuf {
			k = c11ReadBuf
		}
		out = append(out, b[:k])
		b = b[k:]
		if rng.Chance(1, 12) {
			out = append(out, []byte{})
		}
	}
	return out
}

var c11Alphabets = [][]byte{
	[]byte("abc"), []byte("def"), []byte("ghi"), []byte("jkl"), []byte("mno"), []byte("pqr"),
	[]byte("stu"), []byte("vwx"), []byte("ABC"), []byte("DEF"), []byte("GHI"), []byte("JKL"),
	[]byte("MNO"), []byte("PQR"), []byte("STU"), []byte("VWX"),
}

// c11RandBody: lines over the given alphabet; shapes: empty lines, CRLF, long lines (longer than
// the pipeline's AvgEventSize and, with big=true, than the 16 KiB read buffer), with or without a
// trailing newline.
func c11RandBody(rng *hx.Rng, alpha []byte, big bool) []byte {
	var b []byte
	nl := rng.Range(0, 12)
	for i := 0; i < nl; i++ {
		var n int
		switch rng.Intn(8) {
		case 0:
			n = 0
		case 1, 2:
			n = rng.Range(1, 4)
		case 3, 4:
			n = rng.Range(5, 40)
		case 5:
			n = rng.Range(40, 400)
		case 6:
			if big {
				n = rng.Range(c11ReadBuf-3, c11ReadBuf+3)
			} else {
				n = rng.Range(0, 9)
			}
		default:
			if big {
				n = rng.Range(1000, 40000)
			} else {
				n = rng.Range(7, 9) // around AvgEventSize = 8, the initial eventBuff capacity
			}
		}
		b = append(b, rng.Bytes(n, alpha)...)
		if rng.Chance(1, 6) {
			b = append(b, '\r')
		}
		b = append(b, '\n')
	}
	if rng.Chance(1, 2) {
		b = append(b, rng.Bytes(rng.Range(1, 30), alpha)...)
		if rng.Chance(1, 8) {
			b = append(b, '\r')
		}
	}
	return b
}

func c11RandReq(rng *hx.Rng, alpha []byte, big bool) c11Req {
	body := c11RandBody(rng, alpha, big)
	maxc := []int{1, 2, 3, 7, 16, 100, 4096, c11ReadBuf}[rng.Intn(8)]
	plainModes := []int{0, 1, 2, 3}
	if big {
		// the Lean model appends to eventBuff by copying (lists): keep the number of reads of a
		// 40 KiB line in the thousands, not tens of thousands
		maxc = []int{64, 100, 4096, c11ReadBuf}[rng.Intn(4)]
		plainModes = []int{0, 2, 3, 3}
	}
	switch rng.Intn(10) {
	case 0, 1, 2: // gzip
		levels := []int{stdgzip.NoCompression, stdgzip.BestSpeed, stdgzip.DefaultCompression, stdgzip.BestCompression, stdgzip.HuffmanOnly}
		z := c11Compress(body, levels[rng.Intn(len(levels))])
		switch rng.Intn(12) {
		case 0: // truncated stream
			z = z[:rng.Range(0, len(z)-1)]
		case 1: // a flipped byte
			if len(z) > 0 {
				z = append([]byte(nil), z...)
				z[rng.Intn(len(z))] ^= byte(1 << rng.Intn(8))
			}
		case 2: // two members: the body is their concatenation
			z = append(append([]byte(nil), z...), c11Compress(c11RandBody(rng, alpha, false), stdgzip.BestSpeed)...)
		}
		var trans []c11Rd
		for _, c := range c11RandChunks(rng, z, []int{0, 1, 3}[rng.Intn(3)], maxc) {
			trans = append(trans, c11Rd{'d', c})
		}
		if rng.Chance(1, 12) && len(trans) > 0 { // transport error somewhere
			k := rng.Intn(len(trans))
			trans = append(trans[:k:k], c11Rd{'x', nil})
		}
		return c11Gz(trans)
	default:
		q := c11Plain(c11RandChunks(rng, body, plainModes[rng.Intn(4)], maxc))
		switch rng.Intn(10) {
		case 0: // read error after some reads; sometimes bytes come with the error
			k := rng.Intn(len(q.trans) + 1)
			var extra []byte
			if rng.Bool() {
				extra = rng.Bytes(rng.Range(1, 5), append([]byte{'\n'}, alpha...))
			}
			q.trans = append(q.trans[:k:k], c11Rd{'x', extra})
		case 1: // the last data arrives together with io.EOF
			if k := len(q.trans); k > 0 {
				q.trans[k-1].kind = 'e'
			}
		case 2: // explicit (0, EOF), and reads after it that must not be consumed
			q.trans = append(q.trans, c11Rd{'e', nil}, c11Rd{'d', rng.Bytes(3, append([]byte{'\n'}, alpha...))})
		}
		return q
	}
}

// c11SchedReq: a request for the scheduled family: a body of many lines (so that there are many
// park points inside it), sometimes larger than the 16 KiB read buffer / the gzip reader's window,
// gzip with probability 3/4.
func c11SchedReq(rng *hx.Rng, alpha []byte, forceGz bool) c11Req {
	var body []byte
	nl := rng.Range(3, 30)
	lineMax := []int{3, 12, 60, 400, 2500}[rng.Intn(5)] // 30 x 2500 = 75 KB: several read buffers
	for i := 0; i < nl; i++ {
		body = append(body, rng.Bytes(rng.Range(0, lineMax), alpha)...)
		if rng.Chance(1, 8) {
			body = append(body, '\r')
		}
		body = append(body, '\n')
	}
	if rng.Chance(1, 3) {
		body = append(body, rng.Bytes(rng.Range(1, 20), alpha)...)
	}
	maxc := []int{64, 512, 4096, c11ReadBuf}[rng.Intn(4)]
	if forceGz || rng.Chance(3, 4) {
		levels := []int{stdgzip.NoCompression, stdgzip.BestSpeed, stdgzip.DefaultCompression, stdgzip.HuffmanOnly}
		z := c11Compress(body, levels[rng.Intn(len(levels))])
		if rng.Chance(1, 15) {
			z = z[:rng.Range(0, len(z)-1)]
		}
		var trans []c11Rd
		for _, c := range c11RandChunks(rng, z, []int{0, 3}[rng.Intn(2)], maxc) {
			trans = append(trans, c11Rd{'d', c})
		}
		return c11Gz(trans)
	}
	return c11Plain(c11RandChunks(rng, body, []int{0, 2, 3}[rng.Intn(3)], maxc))
}

// c11WaveReq: a request of a wave history: 3-12 short lines (several In calls, so that the In calls
// of overlapping requests interleave), plain or gzip, a few reads.
func c11WaveReq(rng *hx.Rng, alpha []byte) c11Req {
	var body []byte
	nl := rng.Range(3, 12)
	for i := 0; i < nl; i++ {
		body = append(body, rng.Bytes(rng.Range(0, 20), alpha)...)
		body = append(body, '\n')
	}
	if rng.Chance(1, 3) {
		body = append(body, rng.Bytes(rng.Range(1, 8), alpha)...)
	}
	maxc := []int{8, 64, 4096}[rng.Intn(3)]
	if rng.Chance(1, 3) {
		z := c11Compress(body, stdgzip.BestSpeed)
		var trans []c11Rd
		for _, c := range c11RandChunks(rng, z, 0, maxc) {
			trans = append(trans, c11Rd{'d', c})
		}
		return c11Gz(trans)
	}
	return c11Plain(c11RandChunks(rng, body, []int{0, 2}[rng.Intn(2)], maxc))
}

// c11ParkPoints: how many park points (body reads + In calls) a request has at most, for sizing
// schedules; an estimate is enough (a finished request's turns are skipped).
func c11ParkPoints(q c11Req) int {
	n := len(q.trans) + 2
	reads := q.trans
	if q.gz {
		reads = q.dec
	}
	for _, r := range reads {
		n += bytes.Count(r.b, []byte{'\n'})
	}
	return n + 1
}

// c11Schedule: "A for a while, then B for a while, …" (request A parked after k lines while B
// opens, reads, parks or finishes, then A again), strict alternation, or a random walk.
func c11Schedule(rng *hx.Rng, reqs []c11Req) []int {
	var sched []int
	n := len(reqs)
	switch rng.Intn(4) {
	case 0, 1: // blocks
		rounds := rng.Range(1, 4)
		for r := 0; r < rounds; r++ {
			for i := 0; i < n; i++ {
				k := rng.Range(1, c11ParkPoints(reqs[i]))
				if rng.Chance(1, 3) {
					k = rng.Range(1, 12)
				}
				for j := 0; j < k; j++ {
					sched = append(sched, i)
				}
			}
		}
	case 2: // alternation
		tot := 0
		for _, q := range reqs {
			tot += c11ParkPoints(q)
		}
		for j := 0; j < tot; j++ {
			sched = append(sched, j%n)
		}
	default: // random walk with runs
		tot := 0
		for _, q := range reqs {
			tot += c11ParkPoints(q)
		}
		for len(sched) < tot {
			i := rng.Intn(n)
			for k := rng.Range(1, 6); k > 0; k-- {
				sched = append(sched, i)
			}
		}
	}
	return sched
}

func genC11(w *bufio.Writer, rng *hx.Rng, tier string) {
	maxLen, nrand, nbig, nseq, nconc, nsched, nwave := 6, 2000, 150, 300, 150, 400, 400
	if tier == "thorough" {
		maxLen, nrand, nbig, nseq, nconc, nsched, nwave = 8, 40000, 3000, 6000, 3000, 8000, 8000
	}
	// 1. exhaustive: every body over {a, \n, \r} up to maxLen x every chunking into non-empty
	// reads; the two endpoints alternate
	alpha := []byte{'a', '\n', '\r'}
	idx := 0
	var rec func(cur []byte)
	rec = func(cur []byte) {
		body := append([]byte(nil), cur...)
		c11Compositions(body, func(chunks [][]byte) {
			idx++
			c11Line(w, idx%4 == 0, false, []c11Req{c11Plain(chunks)})
		})
		if len(cur) == maxLen {
			return
		}
		for _, c := range alpha {
			rec(append(cur, c))
		}
	}
	rec(nil)
	// 2. the same bodies up to length 4 with empty reads at every position, the final read
	// carrying io.EOF, a read error at every position, and as gzip bodies cut into 1-byte reads
	var rec2 func(cur []byte)
	rec2 = func(cur []byte) {
		body := append([]byte(nil), cur...)
		c11Compositions(body, func(chunks [][]byte) {
			for at := 0; at <= len(chunks); at++ {
				q := c11Plain(chunks)
				q.trans = append(q.trans[:at:at], append([]c11Rd{{'d', nil}}, q.trans[at:]...)...)
				c11Line(w, false, false, []c11Req{q})
				e := c11Plain(chunks)
				e.trans = append(e.trans[:at:at], c11Rd{'x', nil})
				c11Line(w, at%2 == 0, false, []c11Req{e})
			}
			if len(chunks) > 0 {
				q := c11Plain(chunks)
				q.trans[len(q.trans)-1].kind = 'e'
				c11Line(w, false, false, []c11Req{q})
			}
		})
		z := c11Compress(body, stdgzip.BestSpeed)
		c11Line(w, len(cur)%2 == 0, false, []c11Req{c11Gz(c11Plain(c11RandChunks(rng, z, 1, 1)).trans)})
		c11Line(w, false, false, []c11Req{c11Gz([]c11Rd{{'d', z}})})
		if len(cur) == 4 {
			return
		}
		for _, c := range alpha {
			rec2(append(cur, c))
		}
	}
	rec2(nil)
	// 3. random single requests (plain / gzip / failing), small and big
	wide := []byte("abcdefghij \t{}\":,\\\x00\xff")
	for i := 0; i < nrand; i++ {
		c11Line(w, rng.Chance(1, 4), false, []c11Req{c11RandReq(rng, wide, false)})
	}
	for i := 0; i < nbig; i++ {
		c11Line(w, rng.Chance(1, 4), false, []c11Req{c11RandReq(rng, wide, true)})
	}
	// 4. sequences of requests on one plugin instance (buffers and source id are recycled:
	// a long line, then short ones; a failed request, then a good one)
	for i := 0; i < nseq; i++ {
		k := rng.Range(2, 6)
		reqs := make([]c11Req, k)
		for j := range reqs {
			reqs[j] = c11RandReq(rng, c11Alphabets[j], rng.Chance(1, 10))
		}
		c11Line(w, rng.Chance(1, 4), false, reqs)
	}
	// 5. concurrent requests with pairwise distinct alphabets
	for i := 0; i < nconc; i++ {
		k := rng.Range(2, 8)
		if rng.Chance(1, 10) {
			k = 16
		}
		reqs := make([]c11Req, k)
		for j := range reqs {
			reqs[j] = c11RandReq(rng, c11Alphabets[j], rng.Chance(1, 12))
		}
		c11Line(w, rng.Chance(1, 4), true, reqs)
	}
	// 6. scheduled overlap: 2-4 requests (at least two of them gzip in 3 of 4 cases) advanced park
	// point by park point in a fixed order on one P: one request is in the middle of its body (its
	// carry-over non-empty, its pooled buffers and gzip reader in use) while another opens its
	// reader, reads and finishes
	for i := 0; i < nsched; i++ {
		k := rng.Range(2, 4)
		reqs := make([]c11Req, k)
		ngz := 0
		if rng.Chance(3, 4) {
			ngz = 2
		}
		for j := range reqs {
			reqs[j] = c11SchedReq(rng, c11Alphabets[j], j < ngz)
		}
		c11LineMode(w, rng.Chance(1, 4), 2, reqs, c11Schedule(rng, reqs))
	}
	// 7. histories of several waves on one plugin instance: 2-4 waves of 2-4 overlapping requests;
	// a wave completes (its source ids, buffers and gzip readers go back to the free list / pools)
	// before the next starts, or - mixed - one request of the wave is left open while the next
	// wave starts and ends. The free list holds several ids from the second wave on.
	for i := 0; i < nwave; i++ {
		nw := rng.Range(2, 4)
		var reqs []c11Req
		var waves [][]int
		for wv := 0; wv < nw; wv++ {
			k := rng.Range(2, 4)
			var idxs []int
			for j := 0; j < k; j++ {
				idxs = append(idxs, len(reqs))
				reqs = append(reqs, c11WaveReq(rng, c11Alphabets[len(reqs)%len(c11Alphabets)]))
			}
			waves = append(waves, idxs)
		}
		n := len(reqs)
		var sched []int
		for _, idxs := range waves {
			// overlap: every request of the wave takes its first steps before any of them ends
			steps := rng.Range(2, 10)
			for st := 0; st < steps; st++ {
				for _, r := range idxs {
					if rng.Chance(5, 6) {
						sched = append(sched, r)
					}
				}
			}
			if rng.Chance(1, 3) && len(idxs) > 1 {
				// mixed: all but one to their end, the straggler stays open into the next wave
				keep := idxs[rng.Intn(len(idxs))]
				for _, r := range idxs {
					if r != keep {
						sched = append(sched, n+r)
					}
				}
			} else {
				sched = append(sched, 2*n)
			}
		}
		c11LineMode(w, rng.Chance(1, 4), 2, reqs, sched)
	}
}
