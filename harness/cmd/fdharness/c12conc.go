package main

import (
	"bufio"
	"fmt"
	"runtime"
	"sort"
	"strconv"
	"strings"
	"sync"

	"github.com/ozontech/file.d/decoder"

	"verifharness/internal/hx"
	"verifharness/internal/jt"
)

// c12.conc: one decoder instance shared by concurrent callers (in the real pipeline every input
// worker calls Pipeline.In, hence DecodeToJson, on the pipeline's single decoder object).
//
//	c12.conc <workers> <iters> <k> <inner case 1> ;; <inner case 2> ;; … <inner case k>
//
// All inner cases are cases of the same command with the same decoder parameters; the decoder is
// built ONCE and shared. `workers` goroutines decode their documents `iters` times each; the result
// per document is the inner result when every call returned the same answer, otherwise
// `unstable <n> <results…>`. The model computes the (sequential) answer per document: decoding is a
// function of document and parameters, independent of other calls on the same decoder.

func init() { execs["c12.conc"] = execC12Conc }

// c12New builds a decoder; inside a c12.conc case it returns the shared instance for (type, params).
var (
	c12SharedMu sync.Mutex
	c12Shared   map[string]decoder.Decoder // nil outside c12.conc
)

func c12New(t decoder.Type, params decoder.Params) (decoder.Decoder, error) {
	c12SharedMu.Lock()
	defer c12SharedMu.Unlock()
	if c12Shared == nil {
		return decoder.New(t, params)
	}
	key := fmt.Sprintf("%d %v", t, params)
	if d, ok := c12Shared[key]; ok {
		return d, nil
	}
	d, err := decoder.New(t, params)
	if err == nil {
		c12Shared[key] = d
	}
	return d, err
}

var c12ConcAllowed = map[string]bool{"c12.csv": true, "c12.jcut": true, "c12.nginx": true, "c12.s3164": true,
	"c12.s5424": true, "c12.json": true, "c12.pb": true}

func execC12Conc(t *hx.Toks) string {
	workers := t.Int()
	iters := t.Int()
	k := t.Int()
	if t.Err != nil || workers < 1 || workers > 64 || iters < 1 || iters > 100000 || k < 1 {
		return "bad-case"
	}
	var inner [][]string
	var cur []string
	for !t.Done() {
		s := t.Next()
		if s == ";;" {
			inner = append(inner, cur)
			cur = nil
			continue
		}
		cur = append(cur, s)
	}
	inner = append(inner, cur)
	if len(inner) != k {
		return "bad-case"
	}
	for _, c := range inner {
		if len(c) == 0 || c[0] != inner[0][0] || !c12ConcAllowed[c[0]] {
			return "bad-case"
		}
	}
	f := execs[inner[0][0]]
	run := func(i int) string { return safeExec(f, &hx.Toks{T: inner[i][1:]}) }

	c12SharedMu.Lock()
	c12Shared = map[string]decoder.Decoder{}
	c12SharedMu.Unlock()
	defer func() {
		c12SharedMu.Lock()
		nshared := len(c12Shared)
		c12Shared = nil
		c12SharedMu.Unlock()
		_ = nshared
	}()

	// sequential pass first: builds the shared decoder(s) and gives the first answer per document
	results := make([]map[string]int, k)
	for i := range results {
		results[i] = map[string]int{run(i): 1}
	}
	c12SharedMu.Lock()
	nshared := len(c12Shared)
	c12SharedMu.Unlock()
	if nshared > 1 {
		return "bad-case" // the inner cases do not share their decoder parameters
	}
	if runtime.GOMAXPROCS(0) < 2 {
		runtime.GOMAXPROCS(4)
	}
	var mu sync.Mutex
	var wg sync.WaitGroup
	start := make(chan struct{})
	for w := 0; w < workers; w++ {
		var mine []int
		if k >= workers {
			for i := w; i < k; i += workers {
				mine = append(mine, i)
			}
		} else {
			mine = []int{w % k}
		}
		wg.Add(1)
		go func(mine []int) {
			defer wg.Done()
			<-start
			local := make([]map[string]int, len(mine))
			for j := range local {
				local[j] = map[string]int{}
			}
			for it := 0; it < iters; it++ {
				for j, i := range mine {
					local[j][run(i)]++
				}
			}
			mu.Lock()
			for j, i := range mine {
				for r, n := range local[j] {
					results[i][r] += n
				}
			}
			mu.Unlock()
		}(mine)
	}
	close(start)
	wg.Wait()

	parts := make([]string, k)
	for i, m := range results {
		if len(m) == 1 {
			for r := range m {
				parts[i] = r
			}
			continue
		}
		var rs []string
		for r := range m {
			rs = append(rs, r)
		}
		sort.Strings(rs)
		if len(rs) > 3 {
			rs = rs[:3]
		}
		parts[i] = "unstable " + strconv.Itoa(len(m)) + " " + strings.Join(rs, " / ")
	}
	return strings.Join(parts, " ;; ")
}

func c12Conc(w *bufio.Writer, workers, iters int, inner []string) {
	fmt.Fprintf(w, "c12.conc %d %d %d %s\n", workers, iters, len(inner), strings.Join(inner, " ;; "))
}

// genC12Conc: the concurrent family. Decoders with per-instance state that Decode mutates:
// json (cutPositions + mutex when >= 2 json_max_fields_size paths) and csv (sync.Pool of scratch
// buffers); nginx / syslog / json without limits keep only read-only parameters and are included
// with fewer iterations.
func genC12Conc(w *bufio.Writer, r *hx.Rng, thorough bool) {
	rep := func(c string, n int) string { return strings.Repeat(c, n) }
	nj, it := 10, 4000
	if thorough {
		nj, it = 40, 6000
	}
	for c := 0; c < nj; c++ {
		// documents with the limited fields at document-specific offsets and a tail to move
		npaths := []int{2, 2, 3, 2, 1, 0, 2, 3, 2, 2}[c%10]
		all := []cutPath{{"a", r.Range(0, 6)}, {"b", r.Range(0, 9)}, {"o.c", r.Range(0, 4)}}
		paths := all[:npaths]
		ndocs := 8
		var inner []string
		for d := 0; d < ndocs; d++ {
			av := rep("a", 10+d*3+r.Intn(3))
			if r.Chance(1, 3) {
				av = rep(`\"`, 4+d) + av
			}
			doc := fmt.Sprintf(`{"pad":"%s","a":"%s","mid":%d,"b":"%s","o":{"c":"%s","n":null},"tail":"%s"}`,
				rep("p", d*11+r.Intn(5)), av, d, rep("b", 40-d*4), rep(`éx`, 1+d%4), rep("t", (ndocs-d)*40+r.Intn(300)))
			inner = append(inner, capture(func(w *bufio.Writer) { c12JCut(w, paths, []byte(doc)) }))
		}
		c12Conc(w, 8, it, inner)
	}
	// csv: shared sync.Pool of record buffers
	ncsv := 3
	if thorough {
		ncsv = 12
	}
	for c := 0; c < ncsv; c++ {
		cfg := csvCfg{delim: csvDelims[r.Intn(4)], cols: []string{"x", "y"}, cont: true, prefix: "c_"}
		var inner []string
		for d := 0; d < 8; d++ {
			line := withNL(r, csvLine(r, cfg.delim))
			inner = append(inner, capture(func(w *bufio.Writer) { c12CSV(w, cfg, line) }))
		}
		c12Conc(w, 8, 300, inner)
	}
	// nginx (custom fields), rfc3164, rfc5424, json without limits: parameters only
	for c := 0; c < 2; c++ {
		var in1, in2, in3, in4 []string
		for d := 0; d < 4; d++ {
			l1 := withNL(r, nginxLine(r))
			in1 = append(in1, capture(func(w *bufio.Writer) { c12Nginx(w, true, l1) }))
			l2 := withNL(r, s3164Line(r))
			in2 = append(in2, capture(func(w *bufio.Writer) { c12Syslog(w, false, true, false, l2) }))
			l3 := withNL(r, s5424Line(r))
			in3 = append(in3, capture(func(w *bufio.Writer) { c12Syslog(w, true, false, true, l3) }))
			in4 = append(in4, capture(func(w *bufio.Writer) { c12JSONc(w, jt.GenObj(r, jt.GenCfg{UniqueKeys: true})) }))
		}
		c12Conc(w, 4, 100, in1)
		c12Conc(w, 4, 100, in2)
		c12Conc(w, 4, 100, in3)
		c12Conc(w, 4, 100, in4)
	}
}
