package main

// C19: output payloads carry every event of a batch exactly once, well-formed.
//
// exec side: the REAL output plugins (Start with real params, then the batch output function the
// batcher workers call, through the verif export VerifOut) against a scripted HTTP server, a temp
// file, a TCP listener and a fake Kafka client. The case line formats are documented in
// lean/FileD/Drv/C19.lean. A batch whose `out` returns an error is sent again (same Batch object,
// same worker data), as pipeline.RetriableBatcher does, at most c19MaxAttempts times.

import (
	"context"
	"fmt"
	"io"
	"net"
	"net/http"
	"net/http/httptest"
	"os"
	"path/filepath"
	"strconv"
	"strings"
	"sync"
	"time"

	"github.com/ozontech/file.d/metric"
	"github.com/ozontech/file.d/pipeline"
	"github.com/ozontech/file.d/plugin/output/elasticsearch"
	outfile "github.com/ozontech/file.d/plugin/output/file"
	"github.com/ozontech/file.d/plugin/output/gelf"
	outhttp "github.com/ozontech/file.d/plugin/output/http"
	outkafka "github.com/ozontech/file.d/plugin/output/kafka"
	"github.com/ozontech/file.d/plugin/output/loki"
	"github.com/ozontech/file.d/plugin/output/splunk"
	insaneJSON "github.com/ozontech/insane-json"
	"github.com/prometheus/client_golang/prometheus"
	"github.com/twmb/franz-go/pkg/kgo"
	"go.uber.org/zap"

	"verifharness/internal/hx"
)

const c19MaxAttempts = 3

func init() {
	execs["c19.file"] = execC19File
	execs["c19.gelf"] = execC19Gelf
	execs["c19.kafka"] = execC19Kafka
	execs["c19.http"] = execC19HTTP
	execs["c19.es"] = execC19ES
	execs["c19.splunk"] = execC19Splunk
	execs["c19.loki"] = execC19Loki
}

// ---------------------------------------------------------------- case parsing

type c19Ev struct {
	kind  int
	src   []byte
	enc   []byte
	route [][]byte
}

func c19ParseEv(t *hx.Toks) c19Ev {
	e := c19Ev{kind: t.Int(), src: t.Bytes(), enc: t.Bytes()}
	n := t.Int()
	for i := 0; i < n && t.Err == nil; i++ {
		e.route = append(e.route, t.Bytes())
	}
	return e
}

func c19ParseBatches(t *hx.Toks) [][]c19Ev {
	nb := t.Int()
	var bs [][]c19Ev
	for i := 0; i < nb && t.Err == nil; i++ {
		ne := t.Int()
		b := []c19Ev{}
		for j := 0; j < ne && t.Err == nil; j++ {
			b = append(b, c19ParseEv(t))
		}
		bs = append(bs, b)
	}
	return bs
}

func c19ParseScript(t *hx.Toks) []int {
	n := t.Int()
	var sc []int
	for i := 0; i < n && t.Err == nil; i++ {
		sc = append(sc, t.Int())
	}
	return sc
}

// c19MkEvent builds a pipeline event the way the tests of the output plugins do.
func c19MkEvent(kind int, src []byte) (*pipeline.Event, error) {
	root, err := insaneJSON.DecodeBytes(append([]byte(nil), src...))
	if err != nil {
		return nil, err
	}
	ev := &pipeline.Event{Root: root, Buf: make([]byte, 0, 64)}
	switch kind {
	case 1:
		ev.SetChildKind()
	case 2:
		ev.SetChildParentKind()
	}
	return ev, nil
}

func c19MkBatch(b []c19Ev) (*pipeline.Batch, []*pipeline.Event, bool) {
	evs := make([]*pipeline.Event, 0, len(b))
	for _, e := range b {
		ev, err := c19MkEvent(e.kind, e.src)
		if err != nil {
			return nil, nil, false
		}
		evs = append(evs, ev)
	}
	return pipeline.NewPreparedBatch(evs), evs, true
}

func c19Release(evs []*pipeline.Event) {
	for _, e := range evs {
		insaneJSON.Release(e.Root)
	}
}

// ---------------------------------------------------------------- plugin start parameters

type c19Controller struct{}

func (c19Controller) Commit(*pipeline.Event) {}
func (c19Controller) Error(string)           {}

func c19Params(avgEventSize int) *pipeline.OutputPluginParams {
	return &pipeline.OutputPluginParams{
		PluginDefaultParams: pipeline.PluginDefaultParams{
			PipelineName:     "verif_c19",
			PipelineSettings: &pipeline.Settings{AvgEventSize: avgEventSize, Capacity: 64},
			MetricCtl:        metric.NewCtl("verif_c19", prometheus.NewRegistry(), 0, 0),
		},
		Controller: c19Controller{},
		Router:     pipeline.NewRouter(),
		Logger:     zap.NewNop().Sugar(),
	}
}

// ---------------------------------------------------------------- scripted HTTP server

type c19Req struct {
	status int
	body   []byte
}

type c19Server struct {
	mu     sync.Mutex
	srv    *httptest.Server
	script []int
	dflt   int
	seen   []c19Req
}

var c19SrvOnce sync.Once
var c19Srv *c19Server

func c19GetServer() *c19Server {
	c19SrvOnce.Do(func() {
		s := &c19Server{dflt: 200}
		s.srv = httptest.NewServer(http.HandlerFunc(func(w http.ResponseWriter, r *http.Request) {
			body, _ := io.ReadAll(r.Body)
			s.mu.Lock()
			st := s.dflt
			if len(s.script) > 0 {
				st, s.script = s.script[0], s.script[1:]
			}
			if st < 100 || st > 599 {
				st = 500 // not a status a server can answer with
			}
			s.seen = append(s.seen, c19Req{st, body})
			s.mu.Unlock()
			w.WriteHeader(st)
			if st != http.StatusNoContent {
				_, _ = w.Write([]byte(`{"code":0,"errors":false}`))
			}
		}))
		c19Srv = s
	})
	return c19Srv
}

func (s *c19Server) reset(script []int, dflt int) {
	s.mu.Lock()
	s.script, s.dflt, s.seen = append([]int(nil), script...), dflt, nil
	s.mu.Unlock()
}

func (s *c19Server) take() []c19Req {
	s.mu.Lock()
	r := s.seen
	s.seen = nil
	s.mu.Unlock()
	return r
}

// c19Guard runs one `out` call under a watchdog. A call that does not return (an endless loop
// inside the plugin cannot be interrupted) ends the process: ./check then isolates the case as a
// harness crash, which is reported as a failure of that case.
func c19Guard(f func() error) error {
	type res struct {
		err error
		pan any
	}
	done := make(chan res, 1)
	go func() {
		defer func() {
			if r := recover(); r != nil {
				done <- res{pan: r}
			}
		}()
		done <- res{err: f()}
	}()
	select {
	case r := <-done:
		if r.pan != nil {
			panic(r.pan)
		}
		return r.err
	case <-time.After(2500 * time.Millisecond):
		fmt.Fprintln(os.Stderr, "c19: the output function did not return within 2.5s (endless loop?)")
		os.Exit(3)
		return nil
	}
}

// c19RunHTTP drives batches through `out` with the retry loop and renders the observation.
func c19RunHTTP(batches [][]c19Ev, out func(wd *pipeline.WorkerData, b *pipeline.Batch) error) string {
	s := c19GetServer()
	var sb strings.Builder
	sb.WriteString(strconv.Itoa(len(batches)))
	wd := pipeline.WorkerData(nil)
	for _, b := range batches {
		batch, evs, ok := c19MkBatch(b)
		if !ok {
			return "bad-case"
		}
		var atts []string
		for a := 0; a < c19MaxAttempts; a++ {
			err := c19Guard(func() error { return out(&wd, batch) })
			reqs := s.take()
			var ab strings.Builder
			if err == nil {
				ab.WriteString("ok")
			} else {
				ab.WriteString("err")
			}
			fmt.Fprintf(&ab, " %d", len(reqs))
			for _, q := range reqs {
				fmt.Fprintf(&ab, " %d %s", q.status, hx.Enc(q.body))
			}
			atts = append(atts, ab.String())
			if err == nil {
				break
			}
		}
		fmt.Fprintf(&sb, " %d %s", len(atts), strings.Join(atts, " "))
		c19Release(evs)
	}
	return sb.String()
}

// ---------------------------------------------------------------- file

var c19Seq int

func execC19File(t *hx.Toks) string {
	lim := t.Int()
	batches := c19ParseBatches(t)
	if t.Err != nil || !t.Done() {
		return "bad-case"
	}
	c19Seq++
	dir := filepath.Join(scratchDir(), fmt.Sprintf("c19-file-%d-%d", os.Getpid(), c19Seq))
	defer os.RemoveAll(dir)
	p := &outfile.Plugin{}
	cfg := &outfile.Config{
		TargetFile:         filepath.Join(dir, "out.log"),
		RetentionInterval_: time.Hour,
		Layout:             "01-02-2006_15:04:05",
		WorkersCount_:      1,
		BatchSize_:         lim,
		BatchSizeBytes_:    1 << 30,
		BatchFlushTimeout_: time.Hour,
		FileMode_:          0o666,
	}
	p.Start(cfg, c19Params(1))
	defer p.Stop()
	name := p.VerifFileName()
	var sb strings.Builder
	sb.WriteString(strconv.Itoa(len(batches)))
	wd := pipeline.WorkerData(nil)
	seen := 0
	for _, b := range batches {
		batch, evs, ok := c19MkBatch(b)
		if !ok {
			return "bad-case"
		}
		p.VerifOut(&wd, batch)
		c19Release(evs)
		all, err := os.ReadFile(name)
		if err != nil || len(all) < seen {
			return "err-io"
		}
		sb.WriteString(" " + hx.Enc(all[seen:]))
		seen = len(all)
	}
	return sb.String()
}

// ---------------------------------------------------------------- gelf

func c19GelfConfig(endpoint string, lim int, f [6][]byte) *gelf.Config {
	return &gelf.Config{
		Endpoint:                    endpoint,
		ReconnectInterval_:          time.Hour,
		ConnectionTimeout_:          5 * time.Second,
		WriteTimeout_:               5 * time.Second,
		HostField:                   string(f[0]),
		ShortMessageField:           string(f[1]),
		DefaultShortMessageValue:    string(f[2]),
		FullMessageField:            string(f[3]),
		TimestampField:              string(f[4]),
		TimestampFieldFormat:        "rfc3339nano",
		LevelField:                  string(f[5]),
		WorkersCount_:               1,
		BatchSize_:                  lim,
		BatchSizeBytes_:             1 << 30,
		BatchFlushTimeout_:          time.Hour,
		Retention_:                  time.Second,
		RetentionExponentMultiplier: 2,
		Retry:                       1,
	}
}

func execC19Gelf(t *hx.Toks) string {
	lim := t.Int()
	failFirst := t.Bool()
	var f [6][]byte
	for i := range f {
		f[i] = t.Bytes()
	}
	batches := c19ParseBatches(t)
	if t.Err != nil || !t.Done() {
		return "bad-case"
	}
	got := make(chan []byte, 4)
	serve := func(ln net.Listener) {
		for {
			c, err := ln.Accept()
			if err != nil {
				return
			}
			b, _ := io.ReadAll(c)
			c.Close()
			got <- b
		}
	}
	ln, err := net.Listen("tcp", "127.0.0.1:0")
	if err != nil {
		return "err-io"
	}
	addr := ln.Addr().String()
	if failFirst {
		ln.Close() // the first attempt of the first batch finds nobody listening
	} else {
		go serve(ln)
	}
	defer func() { ln.Close() }()
	p := &gelf.Plugin{}
	p.Start(c19GelfConfig(addr, lim, f), c19Params(1))
	defer p.Stop()
	var sb strings.Builder
	sb.WriteString(strconv.Itoa(len(batches)))
	wd := pipeline.WorkerData(nil)
	for i, b := range batches {
		batch, evs, ok := c19MkBatch(b)
		if !ok {
			return "bad-case"
		}
		if i == 0 && failFirst {
			// connection refused: out returns an error after a one second sleep, the batcher retries
			if err := p.VerifOut(&wd, batch); err == nil {
				return "err-io"
			}
			if ln, err = net.Listen("tcp", addr); err != nil {
				return "err-io"
			}
			go serve(ln)
		}
		if err := p.VerifOut(&wd, batch); err != nil {
			return "err-io"
		}
		c19Release(evs)
		p.VerifReconnect(&wd) // closes the connection: the listener side reads to EOF
		select {
		case data := <-got:
			sb.WriteString(" " + hx.Enc(data))
		case <-time.After(5 * time.Second):
			return "err-io"
		}
	}
	return sb.String()
}

// ---------------------------------------------------------------- kafka

type c19KRec struct {
	topic string
	value []byte
}

type c19KafkaClient struct{ got [][]c19KRec }

func (c *c19KafkaClient) ProduceSync(_ context.Context, rs ...*kgo.Record) kgo.ProduceResults {
	// copy at the moment of the call: this is what a producer would put on the wire
	var recs []c19KRec
	res := make(kgo.ProduceResults, 0, len(rs))
	for _, r := range rs {
		recs = append(recs, c19KRec{r.Topic, append([]byte(nil), r.Value...)})
		res = append(res, kgo.ProduceResult{Record: r})
	}
	c.got = append(c.got, recs)
	return res
}

func (c *c19KafkaClient) Close() {}

func execC19Kafka(t *hx.Toks) string {
	lim := t.Int()
	bsz := t.Int()
	defTopic := t.Bytes()
	useField := t.Bool()
	topicField := t.Bytes()
	batches := c19ParseBatches(t)
	if t.Err != nil || !t.Done() || bsz < 0 || (bsz == 0 && lim != 0) || (bsz > 0 && lim%bsz != 0) {
		return "bad-case"
	}
	avg := 0
	if bsz > 0 {
		avg = lim / bsz
	}
	cl := &c19KafkaClient{}
	cfg := &outkafka.Config{
		DefaultTopic:  string(defTopic),
		UseTopicField: useField,
		TopicField:    string(topicField),
		BatchSize_:    bsz,
		Timeout_:      5 * time.Second,
	}
	p := outkafka.VerifNew(cfg, avg, cl, metric.NewCtl("verif_c19", prometheus.NewRegistry(), 0, 0))
	var sb strings.Builder
	sb.WriteString(strconv.Itoa(len(batches)))
	wd := pipeline.WorkerData(nil)
	for _, b := range batches {
		batch, evs, ok := c19MkBatch(b)
		if !ok {
			return "bad-case"
		}
		n := len(cl.got)
		if err := p.VerifOut(&wd, batch); err != nil {
			return "err-io"
		}
		c19Release(evs)
		if len(cl.got) != n+1 {
			return "no-produce"
		}
		recs := cl.got[n]
		fmt.Fprintf(&sb, " %d", len(recs))
		for _, r := range recs {
			fmt.Fprintf(&sb, " %s %s", hx.Enc([]byte(r.topic)), hx.Enc(r.value))
		}
	}
	return sb.String()
}

// ---------------------------------------------------------------- http

func c19HTTPConfig(raw bool, rawField []byte, split bool, lim int) *outhttp.Config {
	cfg := &outhttp.Config{
		Endpoints:                   []string{c19GetServer().srv.URL},
		ContentType:                 "application/json",
		ConnectionTimeout_:          5 * time.Second,
		WorkersCount_:               1,
		BatchSize_:                  lim,
		BatchSizeBytes_:             1 << 30,
		BatchFlushTimeout_:          time.Hour,
		SplitBatch:                  split,
		Retention_:                  time.Second,
		RetentionExponentMultiplier: 2,
		Retry:                       1,
	}
	if raw {
		cfg.Encoding.Type = "raw"
		cfg.Encoding.Params = []byte(`{"field":` + strconv.Quote(string(rawField)) + `}`)
	}
	return cfg
}

func execC19HTTP(t *hx.Toks) string {
	raw := t.Bool()
	rawField := t.Bytes()
	split := t.Bool()
	lim := t.Int()
	script := c19ParseScript(t)
	batches := c19ParseBatches(t)
	if t.Err != nil || !t.Done() {
		return "bad-case"
	}
	c19GetServer().reset(script, 200)
	p := &outhttp.Plugin{}
	p.Start(c19HTTPConfig(raw, rawField, split, lim), c19Params(1))
	defer p.Stop()
	return c19RunHTTP(batches, p.VerifOut)
}

// ---------------------------------------------------------------- elasticsearch

func c19ESConfig(split bool, lim int, op, format []byte, values [][]byte) *elasticsearch.Config {
	cfg := &elasticsearch.Config{
		Endpoints:                   []string{c19GetServer().srv.URL},
		IndexFormat:                 string(format),
		TimeFormat:                  "2006-01-02",
		ConnectionTimeout_:          5 * time.Second,
		WorkersCount_:               1,
		BatchSize_:                  lim,
		BatchSizeBytes_:             1 << 30,
		BatchFlushTimeout_:          time.Hour,
		BatchOpType:                 string(op),
		SplitBatch:                  split,
		Retention_:                  time.Second,
		RetentionExponentMultiplier: 2,
		Retry:                       1,
		ProcessResponse:             true,
	}
	for _, v := range values {
		cfg.IndexValues = append(cfg.IndexValues, string(v))
	}
	return cfg
}

func execC19ES(t *hx.Toks) string {
	split := t.Bool()
	lim := t.Int()
	op := t.Bytes()
	format := t.Bytes()
	tm := t.Bytes()
	nv := t.Int()
	var values [][]byte
	for i := 0; i < nv && t.Err == nil; i++ {
		values = append(values, t.Bytes())
	}
	script := c19ParseScript(t)
	batches := c19ParseBatches(t)
	if t.Err != nil || !t.Done() {
		return "bad-case"
	}
	// more placeholders than values is logger.Fatal (process exit): never run such a case
	nval := len(values)
	if nval == 0 {
		nval = 1
	}
	if strings.Count(string(format), "%") > nval {
		return "bad-case"
	}
	c19GetServer().reset(script, 200)
	p := &elasticsearch.Plugin{}
	p.Start(c19ESConfig(split, lim, op, format, values), c19Params(1))
	defer p.Stop()
	p.VerifSetTime(string(tm))
	return c19RunHTTP(batches, p.VerifOut)
}

// ---------------------------------------------------------------- splunk

type c19CopyField struct{ from, to, keyq []byte }

func c19SplunkConfig(lim int, cfs []c19CopyField) *splunk.Config {
	cfg := &splunk.Config{
		Endpoint:                    c19GetServer().srv.URL,
		Token:                       "t",
		WorkersCount_:               1,
		RequestTimeout_:             5 * time.Second,
		BatchSize_:                  lim,
		BatchSizeBytes_:             1 << 30,
		BatchFlushTimeout_:          time.Hour,
		Retention_:                  time.Second,
		RetentionExponentMultiplier: 2,
		Retry:                       1,
	}
	for _, cf := range cfs {
		cfg.CopyFields = append(cfg.CopyFields, splunk.CopyField{From: string(cf.from), To: string(cf.to)})
	}
	return cfg
}

func execC19Splunk(t *hx.Toks) string {
	lim := t.Int()
	ncf := t.Int()
	var cfs []c19CopyField
	for i := 0; i < ncf && t.Err == nil; i++ {
		cfs = append(cfs, c19CopyField{t.Bytes(), t.Bytes(), t.Bytes()})
	}
	script := c19ParseScript(t)
	batches := c19ParseBatches(t)
	if t.Err != nil || !t.Done() {
		return "bad-case"
	}
	c19GetServer().reset(script, 200)
	p := &splunk.Plugin{}
	p.Start(c19SplunkConfig(lim, cfs), c19Params(1))
	defer p.Stop()
	return c19RunHTTP(batches, p.VerifOut)
}

// ---------------------------------------------------------------- loki

type c19Label struct{ k, v []byte }

func c19LokiConfig(lim int, labels []c19Label, tsField, msgField []byte) *loki.Config {
	cfg := &loki.Config{
		Address:                     c19GetServer().srv.URL,
		MessageField:                string(msgField),
		TimestampField:              string(tsField),
		RequestTimeout_:             5 * time.Second,
		ConnectionTimeout_:          5 * time.Second,
		WorkersCount_:               1,
		BatchSize_:                  lim,
		BatchSizeBytes_:             1 << 30,
		BatchFlushTimeout_:          time.Hour,
		Retention_:                  time.Second,
		RetentionExponentMultiplier: 2,
		Retry:                       1,
	}
	for _, l := range labels {
		cfg.Labels = append(cfg.Labels, loki.Label{Label: string(l.k), Value: string(l.v)})
	}
	return cfg
}

func execC19Loki(t *hx.Toks) string {
	lim := t.Int()
	_ = t.Bytes() // labels JSON (model side)
	nl := t.Int()
	var labels []c19Label
	for i := 0; i < nl && t.Err == nil; i++ {
		labels = append(labels, c19Label{t.Bytes(), t.Bytes()})
	}
	tsField := t.Bytes()
	msgField := t.Bytes()
	script := c19ParseScript(t)
	batches := c19ParseBatches(t)
	if t.Err != nil || !t.Done() {
		return "bad-case"
	}
	c19GetServer().reset(script, 204)
	p := &loki.Plugin{}
	p.Start(c19LokiConfig(lim, labels, tsField, msgField), c19Params(1))
	defer p.Stop()
	return c19RunHTTP(batches, p.VerifOut)
}
