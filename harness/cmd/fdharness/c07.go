package main

import (
	"bufio"
	"fmt"
	"io"
	"os"
	"os/exec"
	"path/filepath"
	"runtime"
	"sort"
	"strconv"
	"strings"
	"sync"
	"sync/atomic"

	"github.com/ozontech/file.d/logger"
	"github.com/ozontech/file.d/offset"
	"github.com/ozontech/file.d/plugin/input/file"
	"github.com/ozontech/file.d/xtime"

	"verifharness/internal/hx"
)

// C07: the offsets file is always a loadable snapshot, never ahead of commits.
//
// Function part (real offsetDB.save / load / parse, real jobProvider.commit):
//   c07.rt <now> T                     save the table, read the file, load it with a fresh offsetDB
//   c07.parse <now> <content>          offsetDB.parse
//   c07.csave <njobs> <m> <nsavers> <iters>  concurrent savers (commit; save) on one offsetDB + a loader
//   c07.seq <nsrc> <nops> ops…         commits / truncations / saves in a sequential schedule
//   c07.conc <nsrc> <m> <nf> <nsaves> <maxcommits>  one committing goroutine per source (jobs with
//                                      m*(1+nf) streams) against the saver; per save: s <lo…> <hi…> <L>
// Process part (this binary re-executed as a child under strace, faults / SIGKILL injected at a
// syscall of the save; the parent then loads what is left on disk):
//   c07.proto file|gen <nf> (<err|kill> <op>)… <hasold> old new
// T = <njobs> (<file> <inode> <src> <ts> <k> (<stream> <off>)…)…

func init() {
	if len(os.Args) > 1 && os.Args[1] == "c07child" {
		// every syscall of the save is issued by the main goroutine on the main thread
		runtime.LockOSThread()
		c07Child(os.Args[2:])
		os.Exit(0)
	}
	execs["c07.rt"] = execC07Rt
	execs["c07.parse"] = execC07Parse
	execs["c07.seq"] = execC07Seq
	execs["c07.proto"] = execC07Proto
	execs["c07.conc"] = execC07Conc
	execs["c07.hist"] = execC07Hist
	execs["c07.csave"] = execC07Csave
	execs["c07.obj"] = execC07Obj
	gens["C07"] = genC07
}

// ------------------------------------------------------------------ tokens

func c07ReadTable(t *hx.Toks) []file.VerifC07Job {
	n := t.Int()
	var jobs []file.VerifC07Job
	for i := 0; i < n && t.Err == nil; i++ {
		j := file.VerifC07Job{}
		j.Filename = string(t.Bytes())
		j.Inode = t.Uint64()
		j.SourceID = t.Uint64()
		j.Timestamp = t.Int64()
		k := t.Int()
		for s := 0; s < k && t.Err == nil; s++ {
			name := string(t.Bytes())
			off := t.Int64()
			j.Streams = append(j.Streams, file.VerifC07Stream{Name: name, Offset: off})
		}
		jobs = append(jobs, j)
	}
	return jobs
}

func c07EncTable(jobs []file.VerifC07Job) string {
	var sb strings.Builder
	sb.WriteString(strconv.Itoa(len(jobs)))
	for _, j := range jobs {
		fmt.Fprintf(&sb, " %s %d %d %d %d", hx.Enc([]byte(j.Filename)), j.Inode, j.SourceID, j.Timestamp, len(j.Streams))
		for _, s := range j.Streams {
			fmt.Fprintf(&sb, " %s %d", hx.Enc([]byte(s.Name)), s.Offset)
		}
	}
	return sb.String()
}

// c07EncLoaded is the canonical load result: jobs by source id, streams by name.
func c07EncLoaded(jobs []file.VerifC07Job, err error) string {
	if err != nil {
		return "err"
	}
	sort.Slice(jobs, func(a, b int) bool { return jobs[a].SourceID < jobs[b].SourceID })
	var sb strings.Builder
	fmt.Fprintf(&sb, "ok %d", len(jobs))
	for _, j := range jobs {
		ss := j.Streams
		sort.Slice(ss, func(a, b int) bool { return ss[a].Name < ss[b].Name })
		fmt.Fprintf(&sb, " %s %d %d %d", hx.Enc([]byte(j.Filename)), j.SourceID, j.Timestamp, len(ss))
		for _, s := range ss {
			fmt.Fprintf(&sb, " %s %d", hx.Enc([]byte(s.Name)), s.Offset)
		}
	}
	return sb.String()
}

func c07EncOrder(order []uint64) string {
	var sb strings.Builder
	sb.WriteString(strconv.Itoa(len(order)))
	for _, o := range order {
		fmt.Fprintf(&sb, " %d", o)
	}
	return sb.String()
}

// withNow runs f with xtime's cached clock pinned to now (the ticker may overwrite it: retry).
func withNow(now int64, f func()) {
	for i := 0; i < 100; i++ {
		xtime.SetNowTime(now)
		f()
		if xtime.GetInaccurateUnixNano() == now {
			return
		}
	}
}

func quietLogs() func() {
	old := logger.Level.Level()
	fatal := old
	fatal = 5 // zapcore.FatalLevel (zap is not imported here: harness/go.mod stays as it is)
	logger.Level.SetLevel(fatal)
	return func() { logger.Level.SetLevel(old) }
}

var c07DirSeq int

func c07Dir() string {
	c07DirSeq++
	d := filepath.Join(scratchDir(), fmt.Sprintf("c07-%d-%d", os.Getpid(), c07DirSeq))
	_ = os.RemoveAll(d)
	_ = os.MkdirAll(d, 0o755)
	return d
}

// ------------------------------------------------------------------ function part

func execC07Rt(t *hx.Toks) string {
	defer quietLogs()()
	now := t.Int64()
	jobs := c07ReadTable(t)
	if t.Err != nil || !t.Done() {
		return "bad-case"
	}
	dir := c07Dir()
	defer os.RemoveAll(dir)
	cur, tmp := filepath.Join(dir, "offsets"), filepath.Join(dir, "offsets.tmp")
	order := file.VerifC07Save(cur, tmp, jobs)
	content, err := os.ReadFile(cur)
	if err != nil {
		return "err-io"
	}
	var res string
	withNow(now, func() {
		res = c07SafeLoad(func() ([]file.VerifC07Job, error) { return file.VerifC07Load(cur) })
	})
	return c07EncOrder(order) + " " + hx.Enc(content) + " " + res
}

func c07SafeLoad(f func() ([]file.VerifC07Job, error)) (res string) {
	defer func() {
		if r := recover(); r != nil {
			res = "panic:" + panicKind(r)
		}
	}()
	jobs, err := f()
	return c07EncLoaded(jobs, err)
}

func execC07Parse(t *hx.Toks) string {
	defer quietLogs()()
	now := t.Int64()
	content := t.Bytes()
	if t.Err != nil || !t.Done() {
		return "bad-case"
	}
	var res string
	withNow(now, func() {
		res = c07SafeLoad(func() ([]file.VerifC07Job, error) { return file.VerifC07Parse(string(content)) })
	})
	return res
}

func execC07Seq(t *hx.Toks) string {
	defer quietLogs()()
	nsrc := t.Int()
	nops := t.Int()
	dir := c07Dir()
	defer os.RemoveAll(dir)
	cur, tmp := filepath.Join(dir, "offsets"), filepath.Join(dir, "offsets.tmp")
	var jobs []file.VerifC07Job
	for i := 1; i <= nsrc; i++ {
		jobs = append(jobs, file.VerifC07Job{Filename: "f" + strconv.Itoa(i), Inode: uint64(i), SourceID: uint64(i)})
	}
	p := file.NewVerifC07Provider(cur, tmp, false, jobs)
	var out []string
	seq := uint64(0)
	for i := 0; i < nops && t.Err == nil; i++ {
		switch t.Next() {
		case "c":
			src := t.Uint64()
			stream := string(t.Bytes())
			off := t.Int64()
			if t.Err != nil {
				return "bad-case"
			}
			seq++
			out = append(out, func() (r string) {
				defer func() {
					if recover() != nil {
						r = "corrupt"
					}
				}()
				p.Commit(src, stream, off, seq)
				return "c"
			}())
		case "t":
			src := t.Uint64()
			p.Truncate(src)
			out = append(out, "t")
		case "s":
			p.Save()
			var res string
			withNow(0, func() {
				res = c07SafeLoad(func() ([]file.VerifC07Job, error) { return file.VerifC07Load(cur) })
			})
			out = append(out, "s "+c07EncOrder(p.SnapshotOrder())+" "+res)
		default:
			return "bad-case"
		}
	}
	if t.Err != nil || !t.Done() {
		return "bad-case"
	}
	return strings.Join(out, " ")
}

// c07ConcName is the name of the stream at position p of a job's SliceMap: zero-padded position
// (so that name order = position order) + 'r' for a stream the racing committer keeps updating,
// 'f' for a filler that is committed once.
func c07ConcName(p, nf int) string {
	kind := "f"
	if p%(1+nf) == 0 {
		kind = "r"
	}
	return fmt.Sprintf("%05d%s", p, kind)
}

// execC07Conc: real concurrency between jobProvider.commit and offsetDB.save on jobs with many
// streams. Every source has m "racing" streams, each followed by nf fillers (P = m*(1+nf) streams).
// Commit number k of a source (k = 1, 2, …) carries offset k: for k <= P it creates the stream at
// position k-1 (set-up, sequential); for k > P it goes round-robin to racing stream (k-P-1) mod m.
// So the job's table after k commits is a function of k alone (`concTable` in Drv/C07.lean), and a
// table that mixes two moments differs from every one of them. One committing goroutine per source
// races the saver; around each save the harness reads lo_i = commits of source i that had returned
// before the save started and hi_i = commits that had started when it returned.
// result: per save `s <lo_1…lo_n> <hi_1…hi_n> <L>`.
func execC07Conc(t *hx.Toks) string {
	defer quietLogs()()
	nsrc, m, nf, nsav, maxc := t.Int(), t.Int(), t.Int(), t.Int(), t.Int()
	if t.Err != nil || !t.Done() || nsrc < 1 || nsrc > 8 || m < 1 || nf < 0 || m*(1+nf) > 60000 {
		return "bad-case"
	}
	dir := c07Dir()
	defer os.RemoveAll(dir)
	cur, tmp := filepath.Join(dir, "offsets"), filepath.Join(dir, "offsets.tmp")
	var jobs []file.VerifC07Job
	for i := 1; i <= nsrc; i++ {
		jobs = append(jobs, file.VerifC07Job{Filename: "f" + strconv.Itoa(i), Inode: uint64(i), SourceID: uint64(i)})
	}
	p := file.NewVerifC07Provider(cur, tmp, false, jobs)
	P := m * (1 + nf)
	names := make([]string, P)
	for q := range names {
		names[q] = c07ConcName(q, nf)
	}
	started := make([]atomic.Int64, nsrc+1)
	done := make([]atomic.Int64, nsrc+1)
	var seq atomic.Uint64
	commit := func(i int, k int64) {
		pos := int(k - 1)
		if k > int64(P) {
			pos = int((k-int64(P)-1)%int64(m)) * (1 + nf)
		}
		started[i].Add(1)
		p.Commit(uint64(i), names[pos], k, seq.Add(1))
		done[i].Add(1)
	}
	for i := 1; i <= nsrc; i++ {
		for k := 1; k <= P; k++ {
			commit(i, int64(k))
		}
	}
	var stop atomic.Bool
	var wg sync.WaitGroup
	for i := 1; i <= nsrc; i++ {
		wg.Add(1)
		go func(i int) {
			defer wg.Done()
			for c := 1; c <= maxc && !stop.Load(); c++ {
				commit(i, int64(P+c))
			}
		}(i)
	}
	// let every committer get going before the first save
	for i := 1; i <= nsrc; i++ {
		for spin := 0; started[i].Load() <= int64(P) && spin < 1000000 && maxc > 0; spin++ {
			runtime.Gosched()
		}
	}
	var out []string
	for s := 0; s < nsav; s++ {
		rec := []string{"s"}
		for i := 1; i <= nsrc; i++ {
			rec = append(rec, strconv.FormatInt(done[i].Load(), 10))
		}
		p.Save()
		for i := 1; i <= nsrc; i++ {
			rec = append(rec, strconv.FormatInt(started[i].Load(), 10))
		}
		var res string
		withNow(0, func() {
			res = c07SafeLoad(func() ([]file.VerifC07Job, error) { return file.VerifC07Load(cur) })
		})
		out = append(out, strings.Join(rec, " ")+" "+res)
	}
	stop.Store(true)
	wg.Wait()
	return strings.Join(out, " ")
}

// execC07Csave: c07.csave <njobs> <m> <nsavers> <iters> — CONCURRENT SAVES on one offsetDB, what
// persistence_mode=sync does when commits arrive from several processors: saver goroutine g owns the
// jobs j with j mod nsavers = g and repeats `commit to one of its jobs; save` (the two calls of
// jobProvider.commit in sync mode). Jobs have m streams, commit k of a job carries offset k
// (set-up k <= m creates stream k-1, then round-robin), so a job's table is a function of k
// (`concTable m 0 k`). A loader goroutine keeps loading the offsets file and records every new
// content: `s <lo_1…lo_n> <hi_1…hi_n> <L>` with lo_j = commits of job j whose save had returned
// before the load started, hi_j = commits started when it ended. Because saves are serialised and
// each formats the snapshot it took, every file names every job once, with lo_j <= k_j <= hi_j.
func execC07Csave(t *hx.Toks) string {
	defer quietLogs()()
	njobs, m, nsavers, iters := t.Int(), t.Int(), t.Int(), t.Int()
	if t.Err != nil || !t.Done() || njobs < 1 || njobs > 4096 || m < 1 || m > 64 || nsavers < 1 || nsavers > 64 {
		return "bad-case"
	}
	dir := c07Dir()
	defer os.RemoveAll(dir)
	cur, tmp := filepath.Join(dir, "offsets"), filepath.Join(dir, "offsets.tmp")
	var jobs []file.VerifC07Job
	for i := 1; i <= njobs; i++ {
		jobs = append(jobs, file.VerifC07Job{Filename: "f" + strconv.Itoa(i), Inode: uint64(i), SourceID: uint64(i)})
	}
	p := file.NewVerifC07Provider(cur, tmp, false, jobs)
	names := make([]string, m)
	for q := range names {
		names[q] = c07ConcName(q, 0)
	}
	started := make([]atomic.Int64, njobs+1)
	done := make([]atomic.Int64, njobs+1)
	next := make([]int64, njobs+1) // owned by the job's saver
	var seq atomic.Uint64
	commit := func(j int) {
		next[j]++
		k := next[j]
		pos := int(k - 1)
		if k > int64(m) {
			pos = int((k - int64(m) - 1) % int64(m))
		}
		started[j].Add(1)
		p.Commit(uint64(j), names[pos], k, seq.Add(1))
	}
	for j := 1; j <= njobs; j++ { // set-up: every stream of every job exists, one save
		for k := 1; k <= m; k++ {
			commit(j)
		}
	}
	p.Save()
	for j := 1; j <= njobs; j++ {
		done[j].Store(int64(m))
	}
	var stop atomic.Bool
	var out []string
	var lwg sync.WaitGroup
	lwg.Add(1)
	go func() { // the loader
		defer lwg.Done()
		var last []byte
		for first := true; first || !stop.Load(); first = false {
			rec := make([]string, 0, 2*njobs+2)
			rec = append(rec, "s")
			for j := 1; j <= njobs; j++ {
				rec = append(rec, strconv.FormatInt(done[j].Load(), 10))
			}
			content, err := os.ReadFile(cur)
			if err != nil || string(content) == string(last) {
				runtime.Gosched()
				continue
			}
			last = content
			// the bytes just read are what is judged: parse them with the real parser
			var res string
			withNow(0, func() {
				res = c07SafeLoad(func() ([]file.VerifC07Job, error) { return file.VerifC07Parse(string(content)) })
			})
			for j := 1; j <= njobs; j++ {
				rec = append(rec, strconv.FormatInt(started[j].Load(), 10))
			}
			out = append(out, strings.Join(rec, " ")+" "+res)
		}
	}()
	var wg sync.WaitGroup
	for g := 0; g < nsavers; g++ {
		wg.Add(1)
		go func(g int) {
			defer wg.Done()
			var own []int
			for j := 1; j <= njobs; j++ {
				if j%nsavers == g {
					own = append(own, j)
				}
			}
			for it := 0; it < iters && len(own) > 0; it++ {
				j := own[it%len(own)]
				commit(j)
				p.Save()
				done[j].Add(1)
			}
		}(g)
	}
	wg.Wait()
	stop.Store(true)
	lwg.Wait()
	// the final file, after everything returned
	rec := []string{"s"}
	for j := 1; j <= njobs; j++ {
		rec = append(rec, strconv.FormatInt(done[j].Load(), 10))
	}
	for j := 1; j <= njobs; j++ {
		rec = append(rec, strconv.FormatInt(started[j].Load(), 10))
	}
	var res string
	withNow(0, func() {
		res = c07SafeLoad(func() ([]file.VerifC07Job, error) { return file.VerifC07Load(cur) })
	})
	out = append(out, strings.Join(rec, " ")+" "+res)
	return strings.Join(out, " ")
}

// ------------------------------------------------------------------ process part

// blobSaver is the LoadSaver of the generic offset.Offset: one Write of the blob, as yamlValue does.
type blobSaver struct {
	data   []byte
	loaded []byte
	called bool
}

func (b *blobSaver) Save(w io.Writer) error {
	_, err := w.Write(b.data)
	return err
}

func (b *blobSaver) Load(r io.Reader) error {
	d, err := io.ReadAll(r)
	b.loaded, b.called = d, true
	return err
}

func c07GenSave(cur string, data []byte) error {
	o := offset.NewOffset(cur)
	o.Callback = &blobSaver{data: data}
	return o.Save()
}

// c07Child: `c07child file <cur> <tmp> <table tokens…>` | `c07child gen <cur> <hex>` — one save.
func c07Child(args []string) {
	if len(args) > 0 && args[0] == "obj" {
		c07ChildObj(args[1:])
		return
	}
	if len(args) < 3 {
		os.Exit(3)
	}
	switch args[0] {
	case "file":
		t := hx.NewToks(strings.Join(args[3:], " "))
		jobs := c07ReadTable(t)
		if t.Err != nil {
			os.Exit(3)
		}
		file.VerifC07Save(args[1], args[2], jobs)
	case "gen":
		data, err := hx.Dec(args[2])
		if err != nil {
			os.Exit(3)
		}
		_ = c07GenSave(args[1], data)
	case "yaml": // c07child yaml <cur> <cursor hex> <offset>: the real SaveYAML (simple_offset.go)
		if len(args) < 4 {
			os.Exit(3)
		}
		cursor, err := hx.Dec(args[2])
		off, err2 := strconv.ParseInt(args[3], 10, 64)
		if err != nil || err2 != nil {
			os.Exit(3)
		}
		_ = offset.SaveYAML(args[1], &c07YamlState{Offset: off, Cursor: string(cursor)})
	default:
		os.Exit(3)
	}
}

type c07Sys struct {
	name   string // strace syscall name
	idx    int    // how many calls of that syscall the traced thread had made, this one included
	op     string // open|write|fsync|rename|close|unlink when it belongs to the save, else ""
	ret    int64
	failed bool
	killed bool // "= ?": the process died at the entry of this syscall (it was not executed)
}

const c07Traced = "openat,write,fsync,fdatasync,rename,renameat,renameat2,close,unlink,unlinkat"

// c07ParseTrace maps strace output to the syscalls of the traced thread and marks those of the save
// (the ones on the temp file: by path prefix, then by the fd the open returned).
func c07ParseTrace(text, tmpPrefix string) (calls []c07Sys, killed bool) {
	counts := map[string]int{}
	tmpFd := int64(-1)
	for _, line := range strings.Split(text, "\n") {
		line = strings.TrimSpace(line)
		if strings.HasPrefix(line, "+++ killed") {
			killed = true
			continue
		}
		if line == "" || strings.HasPrefix(line, "+++") || strings.HasPrefix(line, "---") {
			continue
		}
		// optional pid prefix
		if sp := strings.IndexByte(line, ' '); sp > 0 {
			if _, err := strconv.Atoi(line[:sp]); err == nil {
				line = strings.TrimSpace(line[sp+1:])
			}
		}
		par := strings.IndexByte(line, '(')
		eq := strings.LastIndex(line, " = ")
		if par <= 0 || eq < par {
			continue
		}
		name := line[:par]
		args := strings.TrimSpace(line[par+1 : eq])
		args = strings.TrimSuffix(args, ")")
		result := strings.Fields(line[eq+3:])
		if len(result) == 0 {
			continue
		}
		c := c07Sys{name: name}
		if result[0] == "?" {
			c.killed = true
		} else {
			r, err := strconv.ParseInt(result[0], 10, 64)
			if err != nil {
				continue
			}
			c.ret = r
			c.failed = r < 0
			if c.failed && len(result) > 1 && (result[1] == "EINTR" || strings.HasPrefix(result[1], "ERESTART")) {
				continue // restarted by the runtime, not an outcome
			}
		}
		counts[name]++
		c.idx = counts[name]
		fdArg := int64(-2)
		if i := strings.IndexByte(args, ','); i > 0 {
			fdArg, _ = strconv.ParseInt(strings.TrimSpace(args[:i]), 10, 64)
		} else if v, err := strconv.ParseInt(strings.TrimSpace(args), 10, 64); err == nil {
			fdArg = v
		}
		onTmpPath := strings.Contains(args, "\""+tmpPrefix)
		switch name {
		case "openat":
			if onTmpPath {
				c.op = "open"
				if !strings.Contains(args, "O_TRUNC") {
					c.op = "openk" // opened without truncation: a left-over temp file keeps its bytes
				}
				if !c.failed && !c.killed {
					tmpFd = c.ret
				}
			}
		case "write":
			if tmpFd >= 0 && fdArg == tmpFd {
				c.op = "write"
			}
		case "fsync", "fdatasync":
			if tmpFd >= 0 && fdArg == tmpFd {
				c.op = "fsync"
			}
		case "close":
			if tmpFd >= 0 && fdArg == tmpFd {
				c.op = "close"
				if !c.killed {
					tmpFd = -1
				}
			}
		case "rename", "renameat", "renameat2":
			if onTmpPath {
				c.op = "rename"
			}
		case "unlink", "unlinkat":
			if onTmpPath && !strings.Contains(args, "AT_REMOVEDIR") {
				c.op = "unlink"
			}
		}
		calls = append(calls, c)
	}
	return calls, killed
}

func c07TraceTokens(calls []c07Sys) []string {
	var out []string
	for _, c := range calls {
		if c.op == "" || c.killed {
			continue
		}
		ok := hx.B(!c.failed)
		if c.op == "write" {
			n := c.ret
			if n < 0 {
				n = 0
			}
			out = append(out, fmt.Sprintf("write.%d.%s", n, ok))
		} else {
			out = append(out, c.op+"."+ok)
		}
	}
	return out
}

func c07Strace(injects []string, traceFile string, childArgs []string) (string, error) {
	self, err := os.Executable()
	if err != nil {
		return "", err
	}
	args := []string{"-o", traceFile, "-s", "0", "-e", "trace=" + c07Traced}
	for _, in := range injects {
		args = append(args, "-e", "inject="+in)
	}
	args = append(args, self, "c07child")
	args = append(args, childArgs...)
	cmd := exec.Command("strace", args...)
	_ = cmd.Run() // strace ends with the tracee's signal when it was killed
	b, err := os.ReadFile(traceFile)
	return string(b), err
}

func execC07Proto(t *hx.Toks) string {
	defer quietLogs()()
	variant := t.Next()
	nf := t.Int()
	type fault struct{ act, op string }
	var faults []fault
	for i := 0; i < nf && t.Err == nil; i++ {
		faults = append(faults, fault{t.Next(), t.Next()})
	}
	hasOld := t.Bool()
	var told, tnew []file.VerifC07Job
	var bold, bnew []byte
	switch variant {
	case "file":
		told = c07ReadTable(t)
		tnew = c07ReadTable(t)
	case "gen":
		bold = t.Bytes()
		bnew = t.Bytes()
	default:
		return "bad-case"
	}
	if t.Err != nil || !t.Done() {
		return "bad-case"
	}
	dir := c07Dir()
	defer os.RemoveAll(dir)
	work := filepath.Join(dir, "w")
	cur, tmp := filepath.Join(work, "offsets"), filepath.Join(work, "offsets.tmp")
	traceFile := filepath.Join(dir, "trace")
	var childArgs []string
	tmpPrefix := tmp + "."
	if variant == "file" {
		childArgs = append([]string{"file", cur, tmp}, strings.Fields(c07EncTable(tnew))...)
	} else {
		childArgs = []string{"gen", cur, hx.Enc(bnew)}
		tmpPrefix = cur + ".tmp"
	}
	prepare := func() bool {
		_ = os.RemoveAll(work)
		if os.MkdirAll(work, 0o755) != nil {
			return false
		}
		if !hasOld {
			return true
		}
		// the previous snapshot is written by the real save, not under injection
		if variant == "file" {
			file.VerifC07Save(cur, tmp, told)
		} else if c07GenSave(cur, bold) != nil {
			return false
		}
		_, err := os.Stat(cur)
		return err == nil
	}
	// each fault is placed on the syscall the save issues for that op in a run that already
	// carries the earlier faults (an earlier fault can change what is issued afterwards)
	var injects []string
	for _, f := range faults {
		if !prepare() {
			return "err-io"
		}
		text, err := c07Strace(injects, traceFile, childArgs)
		if err != nil {
			return "err-strace"
		}
		calls, _ := c07ParseTrace(text, tmpPrefix)
		for _, c := range calls {
			if c.op == f.op || (f.op == "open" && c.op == "openk") {
				if f.act == "kill" {
					injects = append(injects, fmt.Sprintf("%s:signal=KILL:when=%d", c.name, c.idx))
				} else {
					injects = append(injects, fmt.Sprintf("%s:error=EIO:when=%d", c.name, c.idx))
				}
				break
			}
		}
	}
	if !prepare() {
		return "err-io"
	}
	text, err := c07Strace(injects, traceFile, childArgs)
	if err != nil {
		return "err-strace"
	}
	calls, killed := c07ParseTrace(text, tmpPrefix)
	toks := c07TraceTokens(calls)
	disk := "none"
	content, rerr := os.ReadFile(cur)
	if rerr == nil {
		disk = hx.Enc(content)
	}
	var load string
	if variant == "file" {
		withNow(0, func() {
			load = c07SafeLoad(func() ([]file.VerifC07Job, error) { return file.VerifC07Load(cur) })
		})
	} else {
		bs := &blobSaver{}
		o := offset.NewOffset(cur)
		o.Callback = bs
		switch err := o.Load(); {
		case err != nil:
			load = "err"
		case !bs.called:
			load = "none"
		default:
			load = hx.Enc(bs.loaded)
		}
	}
	parts := append([]string{strconv.Itoa(len(toks))}, toks...)
	parts = append(parts, "killed", hx.B(killed), "disk", disk, "load", load)
	return strings.Join(parts, " ")
}

// ---- histories of saves on one directory ---------------------------------------------------

// c07YamlState is the kind of value journalctl / dmesg hand to offset.SaveYAML.
type c07YamlState struct {
	Offset int64  `json:"offset"`
	Cursor string `json:"cursor"`
}

// c07YamlEnc: the bytes the real encoder (offset.SaveYAML) writes for a state.
func c07YamlEnc(st c07YamlState) ([]byte, error) {
	d := c07Dir()
	defer os.RemoveAll(d)
	path := filepath.Join(d, "enc")
	if err := offset.SaveYAML(path, &st); err != nil {
		return nil, err
	}
	return os.ReadFile(path)
}

type c07Fault struct{ act, op string }

type c07Payload struct {
	table  []file.VerifC07Job // file
	blob   []byte             // gen: the bytes; yaml: the encoder's bytes
	state  c07YamlState       // yaml
	tokens string
}

func c07ReadPayload(variant string, t *hx.Toks) c07Payload {
	switch variant {
	case "file":
		return c07Payload{table: c07ReadTable(t)}
	case "gen":
		return c07Payload{blob: t.Bytes()}
	default:
		c := t.Bytes()
		o := t.Int64()
		return c07Payload{state: c07YamlState{Offset: o, Cursor: string(c)}, blob: t.Bytes()}
	}
}

func c07SnapshotDir(dir string) map[string][]byte {
	snap := map[string][]byte{}
	ents, _ := os.ReadDir(dir)
	for _, e := range ents {
		if b, err := os.ReadFile(filepath.Join(dir, e.Name())); err == nil {
			snap[e.Name()] = b
		}
	}
	return snap
}

func c07RestoreDir(dir string, snap map[string][]byte) bool {
	_ = os.RemoveAll(dir)
	if os.MkdirAll(dir, 0o755) != nil {
		return false
	}
	for name, b := range snap {
		if os.WriteFile(filepath.Join(dir, name), b, 0o600) != nil {
			return false
		}
	}
	return true
}

// c07InjectedSave runs one save in the child under strace. Each fault is placed on the syscall the
// save issues for that op in a run that already carries the earlier faults; restore() puts the
// directory back to what it was before this save (every calibration run changes it).
func c07InjectedSave(childArgs []string, tmpPrefix, traceFile string, faults []c07Fault, restore func() bool) ([]string, bool, string) {
	calls, killed, status := c07InjectedRun(childArgs, tmpPrefix, traceFile, len(faults), func(i int, calls []c07Sys) (*c07Sys, string) {
		for k := range calls {
			if calls[k].op == faults[i].op || (faults[i].op == "open" && calls[k].op == "openk") {
				return &calls[k], faults[i].act
			}
		}
		return nil, ""
	}, restore)
	return c07TraceTokens(calls), killed, status
}

// c07InjectedRun: the child under strace with nfaults faults; pick(i, calls) chooses, in the trace of a
// run that already carries faults 0…i-1, the syscall fault i goes on ("kill" or "err").
func c07InjectedRun(childArgs []string, tmpPrefix, traceFile string, nfaults int,
	pick func(i int, calls []c07Sys) (*c07Sys, string), restore func() bool) ([]c07Sys, bool, string) {
	var injects []string
	for i := 0; i < nfaults; i++ {
		if !restore() {
			return nil, false, "err-io"
		}
		text, err := c07Strace(injects, traceFile, childArgs)
		if err != nil {
			return nil, false, "err-strace"
		}
		calls, _ := c07ParseTrace(text, tmpPrefix)
		if c, act := pick(i, calls); c != nil {
			if act == "kill" {
				injects = append(injects, fmt.Sprintf("%s:signal=KILL:when=%d", c.name, c.idx))
			} else {
				injects = append(injects, fmt.Sprintf("%s:error=EIO:when=%d", c.name, c.idx))
			}
		}
	}
	if !restore() {
		return nil, false, "err-io"
	}
	text, err := c07Strace(injects, traceFile, childArgs)
	if err != nil {
		return nil, false, "err-strace"
	}
	calls, killed := c07ParseTrace(text, tmpPrefix)
	return calls, killed, ""
}

// ---- saves on ONE long-lived offsetDB in ONE process ------------------------------------------

// c07ChildObj: `c07child obj <cur> <tmp> <afterPrefix> <nops> (c <stream> <off> | s)…` — one job
// (source 1), one jobProvider / offsetDB for the whole process; after every save the offsets file is
// copied to <afterPrefix><i> (or <afterPrefix><i>.none) for the parent to judge.
func c07ChildObj(args []string) {
	if len(args) < 4 {
		os.Exit(3)
	}
	cur, tmp, after := args[0], args[1], args[2]
	t := hx.NewToks(strings.Join(args[3:], " "))
	nops := t.Int()
	p := file.NewVerifC07Provider(cur, tmp, false, []file.VerifC07Job{{Filename: "f1", Inode: 1, SourceID: 1}})
	seq, nsave := uint64(0), 0
	for i := 0; i < nops && t.Err == nil; i++ {
		switch t.Next() {
		case "c":
			stream := string(t.Bytes())
			off := t.Int64()
			seq++
			func() {
				defer func() { _ = recover() }()
				p.Commit(1, stream, off, seq)
			}()
		case "s":
			p.Save()
			nsave++
			if content, err := os.ReadFile(cur); err == nil {
				_ = os.WriteFile(after+strconv.Itoa(nsave), content, 0o600)
			} else {
				_ = os.WriteFile(after+strconv.Itoa(nsave)+".none", nil, 0o600)
			}
		}
	}
}

type c07ObjFault struct {
	save    int
	act, op string
}

// execC07Obj: c07.obj <nops> (c <stream> <off> | s)… <nf> (<save#> <act> <op>)…
// result: per save of the process `sv <n> <trace…> killed <0|1> disk <hex|none> load L`.
func execC07Obj(t *hx.Toks) string {
	defer quietLogs()()
	nops := t.Int()
	ops := []string{strconv.Itoa(nops)}
	for i := 0; i < nops && t.Err == nil; i++ {
		switch op := t.Next(); op {
		case "c":
			ops = append(ops, "c", t.Next(), t.Next())
		case "s":
			ops = append(ops, "s")
		default:
			return "bad-case"
		}
	}
	nf := t.Int()
	var faults []c07ObjFault
	for i := 0; i < nf && t.Err == nil; i++ {
		faults = append(faults, c07ObjFault{t.Int(), t.Next(), t.Next()})
	}
	if t.Err != nil || !t.Done() {
		return "bad-case"
	}
	dir := c07Dir()
	defer os.RemoveAll(dir)
	work := filepath.Join(dir, "w")
	cur, tmp := filepath.Join(work, "offsets"), filepath.Join(work, "offsets.tmp")
	after := filepath.Join(dir, "after.")
	traceFile := filepath.Join(dir, "trace")
	childArgs := append([]string{"obj", cur, tmp, after}, ops...)
	restore := func() bool {
		_ = os.RemoveAll(work)
		if m, _ := filepath.Glob(after + "*"); m != nil {
			for _, f := range m {
				_ = os.Remove(f)
			}
		}
		return os.MkdirAll(work, 0o755) == nil
	}
	calls, killed, status := c07InjectedRun(childArgs, tmp+".", traceFile, len(faults), func(i int, calls []c07Sys) (*c07Sys, string) {
		seg := 0
		for k := range calls {
			if calls[k].op == "open" || calls[k].op == "openk" {
				seg++
			}
			if seg == faults[i].save && (calls[k].op == faults[i].op || (faults[i].op == "open" && calls[k].op == "openk")) {
				return &calls[k], faults[i].act
			}
		}
		return nil, ""
	}, restore)
	if status != "" {
		return status
	}
	// one segment per save: it starts at the save's open
	var segs [][]c07Sys
	for _, c := range calls {
		if c.op == "" {
			continue
		}
		if c.op == "open" || c.op == "openk" {
			segs = append(segs, nil)
		}
		if len(segs) > 0 {
			segs[len(segs)-1] = append(segs[len(segs)-1], c)
		}
	}
	if killed {
		// killed at the entry of a save's open (or between saves): a save with no executed syscall
		if n := len(segs); n == 0 || (len(segs[n-1]) > 0 && segs[n-1][len(segs[n-1])-1].op == "close" && !segs[n-1][len(segs[n-1])-1].killed) {
			segs = append(segs, nil)
		}
	}
	judge := func(content []byte, exists bool) (string, string) {
		if !exists {
			return "none", "ok 0"
		}
		var res string
		withNow(0, func() {
			res = c07SafeLoad(func() ([]file.VerifC07Job, error) { return file.VerifC07Parse(string(content)) })
		})
		return hx.Enc(content), res
	}
	var out []string
	for i, seg := range segs {
		toks := c07TraceTokens(seg)
		last := killed && i == len(segs)-1
		var disk, load string
		if last {
			content, err := os.ReadFile(cur)
			disk, load = judge(content, err == nil)
		} else if content, err := os.ReadFile(after + strconv.Itoa(i+1)); err == nil {
			disk, load = judge(content, true)
		} else if _, err := os.Stat(after + strconv.Itoa(i+1) + ".none"); err == nil {
			disk, load = judge(nil, false)
		} else {
			return "err-after-file"
		}
		rec := append([]string{"sv", strconv.Itoa(len(toks))}, toks...)
		rec = append(rec, "killed", hx.B(last), "disk", disk, "load", load)
		out = append(out, strings.Join(rec, " "))
	}
	return strings.Join(out, " ")
}

// execC07Hist: c07.hist <variant> <hasold> OLD <nsaves> (<nf> (<act> <op>)… NEW)…
// Saves run one after the other on the same directory (a temp file left by an interrupted save is
// still there for the next one); after each the parent reads and loads the file under the real name.
func execC07Hist(t *hx.Toks) string {
	defer quietLogs()()
	variant := t.Next()
	if variant != "file" && variant != "gen" && variant != "yaml" {
		return "bad-case"
	}
	hasOld := t.Bool()
	old := c07ReadPayload(variant, t)
	nsaves := t.Int()
	type save struct {
		faults []c07Fault
		p      c07Payload
	}
	var saves []save
	for i := 0; i < nsaves && t.Err == nil; i++ {
		nf := t.Int()
		var fs []c07Fault
		for k := 0; k < nf && t.Err == nil; k++ {
			fs = append(fs, c07Fault{t.Next(), t.Next()})
		}
		saves = append(saves, save{fs, c07ReadPayload(variant, t)})
	}
	if t.Err != nil || !t.Done() {
		return "bad-case"
	}
	if variant == "yaml" { // the encoder bytes in the case line are an oracle: recompute and compare
		all := []c07Payload{}
		if hasOld {
			all = append(all, old)
		}
		for _, s := range saves {
			all = append(all, s.p)
		}
		for _, p := range all {
			if enc, err := c07YamlEnc(p.state); err != nil || string(enc) != string(p.blob) {
				return "bad-case:enc"
			}
		}
	}
	dir := c07Dir()
	defer os.RemoveAll(dir)
	work := filepath.Join(dir, "w")
	cur, tmp := filepath.Join(work, "offsets"), filepath.Join(work, "offsets.tmp")
	traceFile := filepath.Join(dir, "trace")
	tmpPrefix := tmp + "."
	if variant != "file" {
		tmpPrefix = cur + ".tmp"
	}
	if os.MkdirAll(work, 0o755) != nil {
		return "err-io"
	}
	if hasOld {
		switch variant {
		case "file":
			file.VerifC07Save(cur, tmp, old.table)
		case "gen":
			if c07GenSave(cur, old.blob) != nil {
				return "err-io"
			}
		case "yaml":
			if offset.SaveYAML(cur, &old.state) != nil {
				return "err-io"
			}
		}
	}
	var out []string
	for _, sv := range saves {
		var childArgs []string
		switch variant {
		case "file":
			childArgs = append([]string{"file", cur, tmp}, strings.Fields(c07EncTable(sv.p.table))...)
		case "gen":
			childArgs = []string{"gen", cur, hx.Enc(sv.p.blob)}
		case "yaml":
			childArgs = []string{"yaml", cur, hx.Enc([]byte(sv.p.state.Cursor)), strconv.FormatInt(sv.p.state.Offset, 10)}
		}
		snap := c07SnapshotDir(work)
		toks, killed, status := c07InjectedSave(childArgs, tmpPrefix, traceFile, sv.faults, func() bool { return c07RestoreDir(work, snap) })
		if status != "" {
			return status
		}
		disk := "none"
		if content, err := os.ReadFile(cur); err == nil {
			disk = hx.Enc(content)
		}
		var load string
		switch variant {
		case "file":
			withNow(0, func() {
				load = c07SafeLoad(func() ([]file.VerifC07Job, error) { return file.VerifC07Load(cur) })
			})
		case "gen":
			bs := &blobSaver{}
			o := offset.NewOffset(cur)
			o.Callback = bs
			switch err := o.Load(); {
			case err != nil:
				load = "err"
			case !bs.called:
				load = "none"
			default:
				load = hx.Enc(bs.loaded)
			}
		case "yaml":
			st := c07YamlState{}
			if _, err := os.Stat(cur); err != nil {
				load = "none"
			} else if err := offset.LoadYAML(cur, &st); err != nil {
				load = "err"
			} else {
				load = "y " + hx.Enc([]byte(st.Cursor)) + " " + strconv.FormatInt(st.Offset, 10)
			}
		}
		rec := append([]string{"sv", strconv.Itoa(len(toks))}, toks...)
		rec = append(rec, "killed", hx.B(killed), "disk", disk, "load", load)
		out = append(out, strings.Join(rec, " "))
	}
	return strings.Join(out, " ")
}

// ------------------------------------------------------------------ generators

var c07Names = [][]byte{
	[]byte("not_set"), []byte("stdout"), []byte("stderr"), []byte("a"), []byte("b"),
	[]byte("a:b"), []byte(":"), []byte("::"), []byte("a:"), []byte(":a"), []byte("a: 1"), []byte(": 5"),
	[]byte(" "), []byte("    "), []byte("-"), []byte("- file: x"), []byte("  streams:"), []byte("-1"),
	[]byte("é"), []byte("日本語"), []byte("\xff\xfe"), []byte("\x00"), []byte("\x01\x7f"), []byte("\t"), []byte("\r"),
	[]byte("a b"), []byte("error:"), []byte("0"), []byte("18446744073709551615"),
}

var c07BadNames = [][]byte{
	[]byte(""), []byte("\n"), []byte("a\nb"), []byte("a:\n"), []byte("x: 1\n    y"), []byte("a\n- file: z"), []byte("a\n"),
}

var c07Offsets = []int64{0, 1, 9, 10, 99, 100, 12345, 1 << 31, 1 << 32, 1<<63 - 1, 1<<63 - 2, 999999999999999999, 1000000000000000000}

func c07RandName(rng *hx.Rng, bad bool) []byte {
	switch {
	case bad && rng.Chance(1, 2):
		return c07BadNames[rng.Intn(len(c07BadNames))]
	case rng.Chance(1, 40):
		return rng.Bytes(rng.Range(1000, 6000), []byte("abcdefgh:- /"))
	case rng.Chance(1, 3):
		al := []byte("ab: -\x00\xc3\xa9/._")
		if bad {
			al = append(al, '\n')
		}
		return rng.Bytes(rng.Range(1, 8), al)
	default:
		return c07Names[rng.Intn(len(c07Names))]
	}
}

func c07RandOffset(rng *hx.Rng) int64 {
	if rng.Chance(1, 2) {
		return c07Offsets[rng.Intn(len(c07Offsets))]
	}
	return int64(rng.U64() >> uint(1+rng.Intn(63)))
}

func c07RandU64(rng *hx.Rng) uint64 {
	switch rng.Intn(5) {
	case 0:
		return uint64(rng.Intn(10))
	case 1:
		return ^uint64(0) - uint64(rng.Intn(3))
	default:
		return rng.U64() >> uint(rng.Intn(64))
	}
}

func c07RandTs(rng *hx.Rng) int64 {
	switch rng.Intn(6) {
	case 0:
		return 0
	case 1:
		return -1 << 63
	case 2:
		return 1<<63 - 1
	case 3:
		return -int64(rng.U64() >> uint(1+rng.Intn(63)))
	default:
		return 1763651665000000000 + int64(rng.Intn(1000000))
	}
}

func c07RandJob(rng *hx.Rng, src uint64, bad bool, maxStreams int) file.VerifC07Job {
	j := file.VerifC07Job{Inode: c07RandU64(rng), SourceID: src, Timestamp: c07RandTs(rng)}
	if bad && rng.Chance(1, 6) {
		j.Filename = "/var/log/a\nb.log"
	} else if rng.Chance(1, 4) {
		j.Filename = string(c07RandName(rng, false))
	} else {
		j.Filename = "/var/log/pods/ns_pod-" + strconv.Itoa(rng.Intn(1000)) + "/c/0.log"
	}
	n := rng.Range(0, maxStreams)
	for i := 0; i < n; i++ {
		j.Streams = append(j.Streams, file.VerifC07Stream{Name: string(c07RandName(rng, bad && rng.Chance(1, 3))), Offset: c07RandOffset(rng)})
	}
	return j
}

func c07RandTable(rng *hx.Rng, bad bool, maxJobs int) []file.VerifC07Job {
	n := rng.Range(0, maxJobs)
	var jobs []file.VerifC07Job
	for i := 0; i < n; i++ {
		src := c07RandU64(rng)
		if rng.Chance(1, 15) && len(jobs) > 0 {
			src = jobs[rng.Intn(len(jobs))].SourceID // same source twice: the map keeps the later job
		}
		jobs = append(jobs, c07RandJob(rng, src, bad, 4))
	}
	return jobs
}

// c07Render is the harness's own rendering of a table, used only to build inputs for c07.parse.
func c07Render(jobs []file.VerifC07Job, withTs bool) []byte {
	var b []byte
	for _, j := range jobs {
		if len(j.Streams) == 0 {
			continue
		}
		b = append(b, "- file: "+j.Filename+"\n"...)
		b = append(b, "  inode: "+strconv.FormatUint(j.Inode, 10)+"\n"...)
		b = append(b, "  source_id: "+strconv.FormatUint(j.SourceID, 10)+"\n"...)
		if withTs {
			b = append(b, "  last_read_timestamp: "+strconv.FormatInt(j.Timestamp, 10)+"\n"...)
		}
		b = append(b, "  streams:\n"...)
		for _, s := range j.Streams {
			b = append(b, "    "+s.Name+": "+strconv.FormatUint(uint64(s.Offset), 10)+"\n"...)
		}
	}
	return b
}

func genC07(w *bufio.Writer, rng *hx.Rng, tier string) {
	thorough := tier == "thorough"
	rt := func(now int64, jobs []file.VerifC07Job) {
		fmt.Fprintf(w, "c07.rt %d %s\n", now, c07EncTable(jobs))
	}
	ps := func(now int64, content []byte) {
		fmt.Fprintf(w, "c07.parse %d %s\n", now, hx.Enc(content))
	}
	job1 := func(streams ...file.VerifC07Stream) []file.VerifC07Job {
		return []file.VerifC07Job{{Filename: "/var/log/a.log", Inode: 11, SourceID: 22, Timestamp: 33, Streams: streams}}
	}

	// ---- process part first (so that it is never cut by a volume limit) -------------------
	genC07Proto(w, rng, thorough)
	genC07Hist(w, rng, thorough)
	genC07Obj(w, rng, thorough)

	// ---- exhaustive small scope: every stream name over a delimiter alphabet ---------------
	alpha := []byte{'a', ':', ' ', '-'}
	maxLen := 3
	if thorough {
		maxLen = 4
	}
	var names [][]byte
	var rec func(cur []byte)
	rec = func(cur []byte) {
		if len(cur) > 0 {
			names = append(names, append([]byte(nil), cur...))
		}
		if len(cur) == maxLen {
			return
		}
		for _, c := range alpha {
			rec(append(cur, c))
		}
	}
	rec(nil)
	for i, n := range names {
		rt(5, job1(file.VerifC07Stream{Name: string(n), Offset: c07Offsets[i%len(c07Offsets)]}))
	}
	// pairs of short names (same job), and the same names as file names
	short := names
	if len(short) > 20 && !thorough {
		short = names[:20]
	} else if len(short) > 84 {
		short = names[:84]
	}
	for i, a := range short {
		for k, b := range short {
			if !thorough && (i+k)%3 != 0 {
				continue
			}
			rt(5, job1(file.VerifC07Stream{Name: string(a), Offset: int64(i)}, file.VerifC07Stream{Name: string(b), Offset: int64(k + 1)}))
		}
		rt(5, []file.VerifC07Job{{Filename: string(a), Inode: uint64(i), SourceID: 1, Timestamp: -7, Streams: []file.VerifC07Stream{{Name: "s", Offset: 1}}}})
	}
	// the fixed name pool, every offset of the boundary list
	for _, n := range c07Names {
		for _, o := range c07Offsets {
			rt(1, job1(file.VerifC07Stream{Name: string(n), Offset: o}))
		}
	}
	// names an event can carry that the format cannot: empty, with a newline
	for _, n := range c07BadNames {
		rt(1, job1(file.VerifC07Stream{Name: string(n), Offset: 7}))
		rt(1, job1(file.VerifC07Stream{Name: "ok", Offset: 1}, file.VerifC07Stream{Name: string(n), Offset: 7}))
	}
	rt(1, []file.VerifC07Job{{Filename: "a\nb", Inode: 1, SourceID: 1, Streams: []file.VerifC07Stream{{Name: "s", Offset: 1}}}})
	// outside the property's domain (negative offset): correspondence only
	rt(1, job1(file.VerifC07Stream{Name: "neg", Offset: -1}))
	rt(1, job1(file.VerifC07Stream{Name: "neg", Offset: -1 << 63}))

	// ---- exhaustive: every truncation and every single-byte deletion of a small file --------
	base := c07Render([]file.VerifC07Job{
		{Filename: "/f", Inode: 1, SourceID: 2, Timestamp: 3, Streams: []file.VerifC07Stream{{Name: "a", Offset: 10}, {Name: "b:", Offset: 0}}},
		{Filename: "/g", Inode: 4, SourceID: 5, Timestamp: -6, Streams: []file.VerifC07Stream{{Name: "c", Offset: 7}}},
	}, true)
	for i := 0; i <= len(base); i++ {
		ps(9, base[:i])
		if i < len(base) {
			ps(9, append(append([]byte(nil), base[:i]...), base[i+1:]...))
		}
	}
	// hand-written malformed files: slice past the end, missing timestamp, duplicates, signs, ranges
	for _, s := range []string{
		"- file: f\n  inode: 1\n  source_id: 2\n  streams:\n    a:\n",
		"- file: f\n  inode: 1\n  source_id: 2\n  streams:\n    a: \n",
		"- file: f\n  inode: 1\n  source_id: 2\n  streams:\n    a:1\n",
		"- file: f\n  inode: 1\n  source_id: 2\n  streams:\n    : 1\n",
		"- file: f\n  inode: 1\n  source_id: 2\n  streams:\n    :\n",
		"- file: f\n  inode: 1\n  source_id: 2\n  streams: trailing\n    a: 1\n",
		"- file: f\n  inode: 1\n  source_id: 2\n  streams:\n    a: +1\n    b: -1\n    c: -0\n",
		"- file: f\n  inode: 1\n  source_id: 2\n  streams:\n    a: 9223372036854775807\n",
		"- file: f\n  inode: 1\n  source_id: 2\n  streams:\n    a: 9223372036854775808\n",
		"- file: f\n  inode: 1\n  source_id: 2\n  streams:\n    a: -9223372036854775808\n",
		"- file: f\n  inode: 1\n  source_id: 2\n  streams:\n    a: -9223372036854775809\n",
		"- file: f\n  inode: 1\n  source_id: 2\n  streams:\n    a: 1_0\n",
		"- file: f\n  inode: 1\n  source_id: 2\n  streams:\n    a: 0x10\n",
		"- file: f\n  inode: 1\n  source_id: 2\n  streams:\n    a: 007\n",
		"- file: f\n  inode: 1\n  source_id: 2\n  streams:\n    a: 1\n    a: 2\n",
		"- file: f\n  inode: 18446744073709551615\n  source_id: 18446744073709551616\n  streams:\n",
		"- file: f\n  inode: 18446744073709551615\n  source_id: 18446744073709551615\n  streams:\n",
		"- file: f\n  inode: +1\n  source_id: 2\n  streams:\n",
		"- file: f\n  inode: 1\n  source_id: -2\n  streams:\n",
		"- file: f\n  inode: 1\n  source_id: 2\n  last_read_timestamp: \n  streams:\n    a: 1\n",
		"- file: f\n  inode: 1\n  source_id: 2\n  last_read_timestamp: x\n  streams:\n    a: 1\n",
		"- file: f\n  inode: 1\n  source_id: 2\n  last_read_timestamp: -5\n  streams:\n    a: 1\n",
		"- file: f\n  inode: 1\n  source_id: 2\n  last_read_timestamp: 1\n  last_read_timestamp: 2\n  streams:\n",
		"- file: f\n  inode: 1\n  source_id: 2\n  streams:\n- file: g\n  inode: 1\n  source_id: 2\n  streams:\n",
		"- file: f\n  inode: 1\n  source_id: 2\n  streams:\n- file: g\n  inode: 1\n  source_id: 3\n  streams:\n    x: 1\n",
		"- file: f\n  inode: 1\n  source_id: 2\n  streams:\n    a: 1\n\n",
		"- file: f\n  inode: 1\n  source_id: 2\n  streams:\n   a: 1\n",
		"- file: f\n  inode: 1\n  source_id: 2\n  streams:\n     : 1\n",
		"- file: f\n  inode: 1\n  source_id: 2\n  streams:\n    ab\n",
		"- file: f\n  inode: 1\n  source_id: 2\n  streams:\n    -: 1\n-: 2\n",
		"\n", "-", "- file: ", "- file: \n", "  streams:\n", "    a: 1\n",
		"- file: f\r\n  inode: 1\r\n  source_id: 2\r\n  streams:\r\n    a: 1\r\n",
	} {
		ps(77, []byte(s))
	}

	// ---- random tables -----------------------------------------------------------------------
	nrt, nparse, nseq := 6000, 6000, 800
	if thorough {
		nrt, nparse, nseq = 90000, 90000, 12000
	}
	for i := 0; i < nrt; i++ {
		rt(int64(rng.Intn(1000)), c07RandTable(rng, rng.Chance(1, 12), 4))
	}
	// ---- malformed stream: mutations of valid renderings ------------------------------------
	for i := 0; i < nparse; i++ {
		jobs := c07RandTable(rng, rng.Chance(1, 6), 3)
		// unique sources so that the unmutated file is valid
		for k := range jobs {
			jobs[k].SourceID = uint64(k*7 + rng.Intn(7))
			if len(jobs[k].Filename) > 200 {
				jobs[k].Filename = jobs[k].Filename[:200]
			}
			for s := range jobs[k].Streams {
				if len(jobs[k].Streams[s].Name) > 200 {
					jobs[k].Streams[s].Name = jobs[k].Streams[s].Name[:200]
				}
			}
		}
		b := c07Render(jobs, !rng.Chance(1, 4))
		nm := rng.Intn(3)
		for m := 0; m < nm && len(b) > 0; m++ {
			pos := rng.Intn(len(b))
			switch rng.Intn(6) {
			case 0:
				b = b[:pos]
			case 1:
				b = append(b[:pos:pos], b[pos+1:]...)
			case 2:
				b[pos] = []byte("\n: -a0 ")[rng.Intn(7)]
			case 3: // duplicate a line
				e := pos
				for e < len(b) && b[e] != '\n' {
					e++
				}
				if e < len(b) {
					s := pos
					for s > 0 && b[s-1] != '\n' {
						s--
					}
					line := append([]byte(nil), b[s:e+1]...)
					b = append(b[:e+1:e+1], append(line, b[e+1:]...)...)
				}
			case 4: // drop a line
				e := pos
				for e < len(b) && b[e] != '\n' {
					e++
				}
				s := pos
				for s > 0 && b[s-1] != '\n' {
					s--
				}
				if e < len(b) {
					b = append(b[:s:s], b[e+1:]...)
				}
			case 5:
				b = append(b[:pos:pos], append([]byte{[]byte("\n: -")[rng.Intn(4)]}, b[pos:]...)...)
			}
		}
		ps(int64(rng.Intn(1000)), b)
	}
	// random strings over the format's own alphabet
	for i := 0; i < nparse/5; i++ {
		ps(3, rng.Bytes(rng.Range(0, 40), []byte("-: \nfile0a")))
	}

	// ---- commits against saves, real goroutines ---------------------------------------------
	// narrow jobs (2–50 racing streams, few or no fillers), then wide ones (≈2000 streams: the
	// formatting of one job takes long enough for many commits to land inside it)
	nnarrow, nwide := 40, 6
	if thorough {
		nnarrow, nwide = 600, 60
	}
	for i := 0; i < nnarrow; i++ {
		fmt.Fprintf(w, "c07.conc %d %d %d %d %d\n", rng.Range(1, 3), rng.Range(2, 50), rng.Intn(4), rng.Range(2, 8), 400000)
	}
	for i := 0; i < nwide; i++ {
		m := rng.Range(2, 4)
		fmt.Fprintf(w, "c07.conc %d %d %d %d %d\n", rng.Range(1, 2), m, rng.Range(1500, 2500)/m, rng.Range(4, 8), 400000)
	}

	// ---- concurrent saves on one offsetDB (sync persistence with several committing processors) ---
	fmt.Fprintf(w, "c07.csave 64 1 4 50\n")
	fmt.Fprintf(w, "c07.csave 128 2 8 30\n")
	fmt.Fprintf(w, "c07.csave 256 1 8 40\n")
	fmt.Fprintf(w, "c07.csave %d %d %d %d\n", rng.Range(48, 160), rng.Range(1, 3), rng.Range(3, 8), rng.Range(30, 60))
	if thorough {
		for i := 0; i < 40; i++ {
			fmt.Fprintf(w, "c07.csave %d %d %d %d\n", rng.Range(2, 512), rng.Range(1, 4), rng.Range(2, 12), rng.Range(10, 80))
		}
	}

	// ---- commits / truncations / saves, sequential schedules --------------------------------
	streams := [][]byte{[]byte("stdout"), []byte("stderr"), []byte("a:b"), []byte("é")}
	for i := 0; i < nseq; i++ {
		nsrc := rng.Range(1, 3)
		nops := rng.Range(1, 14)
		var sb strings.Builder
		fmt.Fprintf(&sb, "c07.seq %d %d", nsrc, nops)
		next := int64(0)
		for k := 0; k < nops; k++ {
			switch x := rng.Intn(10); {
			case x < 6:
				next += int64(rng.Range(1, 1000))
				off := next
				if rng.Chance(1, 12) {
					off = int64(rng.Intn(int(next))) // stale or repeated offset: "offset corruption" panic
				}
				fmt.Fprintf(&sb, " c %d %s %d", rng.Range(1, nsrc), hx.Enc(streams[rng.Intn(len(streams))]), off)
			case x < 7:
				fmt.Fprintf(&sb, " t %d", rng.Range(1, nsrc))
			default:
				sb.WriteString(" s")
			}
		}
		fmt.Fprintln(w, sb.String())
	}
}

func genC07Proto(w *bufio.Writer, rng *hx.Rng, thorough bool) {
	type fault struct{ act, op string }
	line := func(variant string, faults []fault, hasOld bool, old, new string) {
		fmt.Fprintf(w, "c07.proto %s %d", variant, len(faults))
		for _, f := range faults {
			fmt.Fprintf(w, " %s %s", f.act, f.op)
		}
		fmt.Fprintf(w, " %s %s %s\n", hx.B(hasOld), old, new)
	}
	tbl := func(src uint64, streams ...file.VerifC07Stream) string {
		if len(streams) == 0 {
			return "0"
		}
		return c07EncTable([]file.VerifC07Job{{Filename: "/var/log/app.log", Inode: 7, SourceID: src, Timestamp: 1763651665000000000, Streams: streams}})
	}
	oldT := tbl(1, file.VerifC07Stream{Name: "stdout", Offset: 100}, file.VerifC07Stream{Name: "stderr", Offset: 40})
	newT := tbl(1, file.VerifC07Stream{Name: "stdout", Offset: 250}, file.VerifC07Stream{Name: "stderr", Offset: 40})
	fileOps := []string{"open", "write", "fsync", "rename", "close", "unlink"}
	genOps := []string{"open", "write", "fsync", "close", "rename"}
	oldB, newB := hx.Enc([]byte("offset: 100\n")), hx.Enc([]byte("offset: 2500\n"))

	// every single fault and every kill point of one save, both protocols
	line("file", nil, true, oldT, newT)
	line("gen", nil, true, oldB, newB)
	for _, act := range []string{"err", "kill"} {
		for _, op := range fileOps {
			if op == "unlink" && act == "kill" && !thorough {
				continue
			}
			line("file", []fault{{act, op}}, true, oldT, newT)
		}
		for _, op := range genOps {
			line("gen", []fault{{act, op}}, true, oldB, newB)
		}
	}
	// first save (no offsets file yet), write failure then kill at the clean-up, two errors
	line("file", nil, false, "0", newT)
	line("file", []fault{{"err", "write"}}, false, "0", newT)
	line("file", []fault{{"kill", "rename"}}, false, "0", newT)
	line("gen", nil, false, "-", newB)
	line("gen", []fault{{"err", "write"}}, false, "-", newB)
	line("file", []fault{{"err", "write"}, {"kill", "unlink"}}, true, oldT, newT)
	line("file", []fault{{"err", "fsync"}, {"err", "unlink"}}, true, oldT, newT)
	line("file", []fault{{"err", "write"}, {"err", "close"}}, true, oldT, newT)
	line("gen", []fault{{"err", "fsync"}, {"err", "close"}}, true, oldB, newB)
	line("file", nil, true, oldT, "0") // new snapshot is empty: an empty file is written
	if !thorough {
		return
	}
	// thorough: random tables / blobs, one or two faults at random ops
	for i := 0; i < 330; i++ {
		nfl := rng.Range(0, 2)
		if rng.Chance(1, 2) {
			var fs []fault
			for k := 0; k < nfl; k++ {
				act := "err"
				if k == nfl-1 && rng.Chance(1, 2) {
					act = "kill"
				}
				fs = append(fs, fault{act, fileOps[rng.Intn(len(fileOps))]})
			}
			mk := func() string {
				j := c07RandJob(rng, c07RandU64(rng), false, 3)
				if len(j.Filename) > 300 {
					j.Filename = j.Filename[:300]
				}
				for s := range j.Streams {
					if len(j.Streams[s].Name) > 300 {
						j.Streams[s].Name = j.Streams[s].Name[:300]
					}
				}
				return c07EncTable([]file.VerifC07Job{j})
			}
			hasOld := rng.Chance(4, 5)
			o := "0"
			if hasOld {
				o = mk()
			}
			line("file", fs, hasOld, o, mk())
		} else {
			var fs []fault
			for k := 0; k < nfl; k++ {
				act := "err"
				if k == nfl-1 && rng.Chance(1, 2) {
					act = "kill"
				}
				fs = append(fs, fault{act, genOps[rng.Intn(len(genOps))]})
			}
			hasOld := rng.Chance(4, 5)
			o := "-"
			if hasOld {
				o = hx.Enc(rng.Bytes(rng.Range(0, 60), []byte("abc: 0123\n")))
			}
			line("gen", fs, hasOld, o, hx.Enc(rng.Bytes(rng.Range(0, 60), []byte("abc: 0123\n"))))
		}
	}
}

// genC07Hist: histories of saves on one directory. The family that matters: a save interrupted or
// failed between creating and renaming the temp file (so the temp file stays behind), then later
// saves of SHORTER and longer states; the file under the real name is read and loaded after each.
func genC07Hist(w *bufio.Writer, rng *hx.Rng, thorough bool) {
	type step struct {
		faults  []c07Fault
		payload string
	}
	line := func(variant string, hasOld bool, old string, steps []step) {
		fmt.Fprintf(w, "c07.hist %s %s %s %d", variant, hx.B(hasOld), old, len(steps))
		for _, st := range steps {
			fmt.Fprintf(w, " %d", len(st.faults))
			for _, f := range st.faults {
				fmt.Fprintf(w, " %s %s", f.act, f.op)
			}
			fmt.Fprintf(w, " %s", st.payload)
		}
		fmt.Fprintln(w)
	}
	blob := func(n int) string {
		b := []byte("offset: ")
		for len(b) < n {
			b = append(b, byte('0'+rng.Intn(10)))
		}
		return hx.Enc(append(b, '\n'))
	}
	yamlP := func(cursorLen int, off int64) string {
		st := c07YamlState{Offset: off, Cursor: "s=" + string(rng.Bytes(cursorLen, []byte("0123456789abcdef;=ixbm")))}
		enc, err := c07YamlEnc(st)
		if err != nil {
			return "- 0 -"
		}
		return hx.Enc([]byte(st.Cursor)) + " " + strconv.FormatInt(st.Offset, 10) + " " + hx.Enc(enc)
	}
	tbl := func(nstreams int, nameLen int) string {
		j := file.VerifC07Job{Filename: "/var/log/app.log", Inode: 7, SourceID: 1, Timestamp: 1763651665000000000}
		for i := 0; i < nstreams; i++ {
			j.Streams = append(j.Streams, file.VerifC07Stream{Name: "s" + strconv.Itoa(i) + string(rng.Bytes(nameLen, []byte("abc"))), Offset: int64(rng.Intn(100000))})
		}
		return c07EncTable([]file.VerifC07Job{j})
	}
	payload := func(variant string, size int) string { // size 0 = short, 1 = medium, 2 = long
		switch variant {
		case "gen":
			return blob([]int{10, 40, 160}[size])
		case "yaml":
			return yamlP([]int{1, 30, 120}[size], int64(rng.Intn(1000000)))
		default:
			return tbl([]int{1, 3, 8}[size], []int{0, 4, 12}[size])
		}
	}
	empty := map[string]string{"gen": "-", "yaml": "- 0 -", "file": "0"}
	// what leaves a temp file behind, per protocol
	leave := map[string][]c07Fault{
		"gen":  {{"kill", "write"}, {"kill", "fsync"}, {"kill", "close"}, {"kill", "rename"}, {"err", "write"}, {"err", "fsync"}, {"err", "rename"}},
		"yaml": {{"kill", "write"}, {"kill", "fsync"}, {"kill", "close"}, {"kill", "rename"}, {"err", "write"}, {"err", "fsync"}, {"err", "rename"}},
		"file": {{"kill", "fsync"}, {"kill", "rename"}, {"err", "rename"}, {"kill", "unlink"}},
	}
	for _, variant := range []string{"gen", "yaml", "file"} {
		for i, f := range leave[variant] {
			faults := []c07Fault{f}
			if f.op == "unlink" {
				faults = []c07Fault{{"err", "write"}, f}
			}
			steps := []step{{faults, payload(variant, 2)}, {nil, payload(variant, 0)}}
			if i%2 == 0 {
				steps = append(steps, step{nil, payload(variant, 2)})
			}
			line(variant, true, payload(variant, 1), steps)
		}
		// no offsets file yet: interrupted first save, then a shorter one; and plain successive saves
		line(variant, false, empty[variant], []step{{[]c07Fault{{"kill", "rename"}}, payload(variant, 2)}, {nil, payload(variant, 0)}})
		line(variant, true, payload(variant, 2), []step{{nil, payload(variant, 0)}, {nil, payload(variant, 1)}, {nil, payload(variant, 0)}})
	}
	// two interrupted saves in a row, the longer left-over first
	line("gen", true, payload("gen", 1), []step{{[]c07Fault{{"kill", "rename"}}, payload("gen", 2)}, {[]c07Fault{{"err", "fsync"}}, payload("gen", 1)}, {nil, payload("gen", 0)}})
	line("yaml", true, payload("yaml", 1), []step{{[]c07Fault{{"err", "rename"}}, payload("yaml", 2)}, {[]c07Fault{{"kill", "close"}}, payload("yaml", 1)}, {nil, payload("yaml", 0)}})
	if !thorough {
		return
	}
	ops := map[string][]string{"gen": {"open", "write", "fsync", "close", "rename"}, "yaml": {"open", "write", "fsync", "close", "rename"}, "file": {"open", "write", "fsync", "rename", "close", "unlink"}}
	for i := 0; i < 150; i++ {
		variant := []string{"gen", "yaml", "file"}[rng.Intn(3)]
		n := rng.Range(2, 4)
		var steps []step
		for k := 0; k < n; k++ {
			var fs []c07Fault
			if rng.Chance(3, 5) && k < n-1 {
				act := "err"
				if rng.Chance(1, 2) {
					act = "kill"
				}
				fs = append(fs, c07Fault{act, ops[variant][rng.Intn(len(ops[variant]))]})
			}
			steps = append(steps, step{fs, payload(variant, rng.Intn(3))})
		}
		hasOld := rng.Chance(4, 5)
		old := empty[variant]
		if hasOld {
			old = payload(variant, rng.Intn(3))
		}
		line(variant, hasOld, old, steps)
	}
}

// genC07Obj: commits and saves on ONE long-lived offsetDB in one process; a save whose write / sync /
// rename / open fails (or the clean-up after it), followed by further commits and successful saves.
func genC07Obj(w *bufio.Writer, rng *hx.Rng, thorough bool) {
	streams := []string{hx.Enc([]byte("stdout")), hx.Enc([]byte("stderr")), hx.Enc([]byte("a:b"))}
	emit := func(nsaves int, faults []c07ObjFault) {
		var ops []string
		off := int64(0)
		for sv := 0; sv < nsaves; sv++ {
			for c := rng.Range(1, 3); c > 0; c-- {
				off += int64(rng.Range(1, 5000))
				ops = append(ops, fmt.Sprintf("c %s %d", streams[rng.Intn(len(streams))], off))
			}
			ops = append(ops, "s")
		}
		fmt.Fprintf(w, "c07.obj %d %s %d", len(ops), strings.Join(ops, " "), len(faults))
		for _, f := range faults {
			fmt.Fprintf(w, " %d %s %s", f.save, f.act, f.op)
		}
		fmt.Fprintln(w)
	}
	emit(3, nil)
	for _, op := range []string{"write", "fsync", "rename", "open", "close"} {
		emit(3, []c07ObjFault{{1, "err", op}})
		emit(3, []c07ObjFault{{2, "err", op}})
	}
	emit(3, []c07ObjFault{{1, "err", "write"}, {1, "err", "unlink"}})
	emit(4, []c07ObjFault{{1, "err", "write"}, {2, "err", "fsync"}})
	emit(4, []c07ObjFault{{2, "err", "fsync"}, {3, "kill", "rename"}})
	emit(3, []c07ObjFault{{1, "err", "write"}, {3, "kill", "fsync"}}) // (strace keeps one injection per syscall name)
	if !thorough {
		return
	}
	ops := []string{"open", "write", "fsync", "rename", "close", "unlink"}
	for i := 0; i < 80; i++ {
		n := rng.Range(2, 5)
		var fs []c07ObjFault
		for sv := 1; sv <= n; sv++ {
			if rng.Chance(2, 5) {
				act := "err"
				if sv == n && rng.Chance(1, 3) {
					act = "kill"
				}
				op := ops[rng.Intn(len(ops))]
				dup := false
				for _, f := range fs {
					dup = dup || f.op == op
				}
				if !dup {
					fs = append(fs, c07ObjFault{sv, act, op})
				}
			}
		}
		emit(n, fs)
	}
}
