package main

import (
	"sync"
	"time"

	"github.com/ozontech/file.d/pipeline"
	"github.com/ozontech/file.d/plugin/input/fake"
	"github.com/ozontech/file.d/plugin/output/devnull"
	"github.com/prometheus/client_golang/prometheus"
	"go.uber.org/zap"

	"verifharness/internal/hx"
)

// c12.raw: the RAW decoder is inline code of Pipeline.In, so it is exercised through a real,
// action-less pipeline (decoder "raw", fake input, devnull output): the case's bytes go to
// Pipeline.In, the result is the `message` field of the event that reaches the output.

func init() { execs["c12.raw"] = execC12Raw }

var (
	c12RawOnce sync.Once
	c12RawPipe *pipeline.Pipeline
	c12RawOut  chan string
	c12RawOff  int64
)

func c12RawStart() {
	settings := &pipeline.Settings{
		Capacity:            16,
		MaintenanceInterval: time.Second * 5,
		EventTimeout:        pipeline.DefaultEventTimeout,
		Antispam:            pipeline.AntispamSettings{Threshold: pipeline.DefaultAntispamThreshold},
		AvgEventSize:        2048,
		MetaCacheSize:       32,
		StreamField:         "stream",
		Decoder:             "raw",
		Metric: &pipeline.MetricSettings{
			HoldDuration:        pipeline.DefaultMetricHoldDuration,
			MaxLabelValueLength: pipeline.DefaultMetricMaxLabelValueLength,
		},
	}
	p := pipeline.New("c12_raw", settings, prometheus.NewRegistry(), zap.NewNop())
	p.DisableParallelism()
	in, _ := fake.Factory()
	p.SetInput(&pipeline.InputPluginInfo{
		PluginStaticInfo:  &pipeline.PluginStaticInfo{Type: "fake"},
		PluginRuntimeInfo: &pipeline.PluginRuntimeInfo{Plugin: in.(*fake.Plugin)},
	})
	out, _ := devnull.Factory()
	outPlugin := out.(*devnull.Plugin)
	c12RawOut = make(chan string, 4)
	outPlugin.SetOutFn(func(e *pipeline.Event) {
		n := e.Root.Dig("message")
		if n == nil {
			c12RawOut <- "no-message-field"
			return
		}
		c12RawOut <- "ok " + hx.Enc([]byte(n.AsString()))
	})
	p.SetOutput(&pipeline.OutputPluginInfo{
		PluginStaticInfo:  &pipeline.PluginStaticInfo{Type: "devnull"},
		PluginRuntimeInfo: &pipeline.PluginRuntimeInfo{Plugin: outPlugin},
	})
	p.Start()
	c12RawPipe = p
}

func execC12Raw(t *hx.Toks) string {
	data := t.Bytes()
	if t.Err != nil || !t.Done() {
		return "bad-case"
	}
	c12RawOnce.Do(c12RawStart)
	g := newGuarded(data)
	c12RawOff += int64(len(data)) + 1
	seq := c12RawPipe.In(1, "c12", pipeline.NewOffsets(c12RawOff, nil), g.view(), false, nil)
	if seq == pipeline.EventSeqIDError {
		if !g.intact() {
			return "frame-violated"
		}
		return "refused"
	}
	select {
	case r := <-c12RawOut:
		if !g.intact() {
			return "frame-violated"
		}
		return r
	case <-time.After(10 * time.Second):
		return "timeout"
	}
}
