package main

// C05 — in-flight events never exceed capacity; none leaks or is handed out twice.
//
//   c05.gated <kind> <cap> <nreaders> <op>…            gated schedules (see c04.go)
//   c05.free  <kind> <cap> <nreaders> <iters> <seed>   free-running readers on a real pool
//        result: g<r>.<ev> (logged after get returned) | b<r> (logged before back is called) |
//                u<n> (pool.inUse() sampled) … max <most events held at once, counted by the harness>
//                end <inUseRaw> <waiters>
//   c05.pipe  <kind> <cap> <parallel> <nsources> <k>…  a real pipeline: harness input, one harness action,
//        devnull output; k per event: p pass | d discard | h hold (propagated by the next event or a
//        time-out) | x undecodable | r refused by PassEvent | s split (Spawn: the pooled event becomes the
//        child-parent, two non-pooled children go to the output)
//        result: e <off> <k> <finalize flags…> ; …  maxok <0|1> end <inUseRaw> <waiters>
//   c05.bpipe <kind> <cap> <parallel> <nsrc> <batch size> <workers> <k>…  and
//   c05.bchain <kind> <cap> <order> <batch size> <workers> <k>… : the same runs with an output built on the REAL
//        pipeline.Batcher (OutFn walks the batch with Batch.ForEach, the batcher commits every event of it)
//   c05.chain <kind> <cap> <order> <k>…   one processor, one stream, TWO actions: order 0 = [dropper, holder],
//        order 1 = [holder, dropper], order 2 = [pass, dropper, holder], order 3 = [pass, pass, dropper, holder]; the dropper discards events of kind q, the holder is the action of
//        c05.pipe. A held event followed by a q (consumed by the other, non-busy action) and then silence has
//        to be flushed by the stream time-out; same result format and idle oracle as c05.pipe.

import (
	"bufio"
	"context"
	"fmt"
	"runtime"
	"sort"
	"strings"
	"sync"
	"sync/atomic"
	"time"

	"github.com/ozontech/file.d/pipeline"
	"github.com/ozontech/file.d/plugin/output/devnull"
	"github.com/prometheus/client_golang/prometheus"
	"go.uber.org/zap"

	"verifharness/internal/hx"
)

func init() {
	execs["c05.free"] = execPoolFree
	execs["c05.pipe"] = func(t *hx.Toks) string { return execPipeChain(t, false) }
	execs["c05.chain"] = func(t *hx.Toks) string { return execPipeChain(t, true) }
	execs["c05.bpipe"] = func(t *hx.Toks) string { return execPipeChainB(t, false, true) }
	execs["c05.bchain"] = func(t *hx.Toks) string { return execPipeChainB(t, true, true) }
	gens["C05"] = genC05
}

func execPoolFree(t *hx.Toks) string {
	kind := t.Next()
	capacity := t.Int()
	n := t.Int()
	iters := t.Int()
	seed := t.Uint64()
	if t.Err != nil || (kind != "std" && kind != "lowmem") || capacity < 1 || n < 1 || n > 64 || iters < 1 || iters > 100000 {
		return "bad-case"
	}
	v := pipeline.VerifNewPool(kind, capacity, poolWakeup)
	defer v.Stop()
	var mu sync.Mutex
	var log []string
	emit := func(s string) {
		mu.Lock()
		log = append(log, s)
		mu.Unlock()
	}
	var wg sync.WaitGroup
	stop := make(chan struct{})
	go func() {
		for {
			select {
			case <-stop:
				return
			default:
			}
			emit(fmt.Sprintf("u%d", v.InUse()))
			time.Sleep(200 * time.Microsecond)
		}
	}()
	// the harness's own count of events held: +1 right after get returned, -1 right before back is
	// called, so it never exceeds the number really held; independent of the pool's counter
	var held, maxHeld atomic.Int64
	for r := 0; r < n; r++ {
		wg.Add(1)
		go func(r int) {
			defer wg.Done()
			rng := hx.NewRng(seed*977 + uint64(r))
			for i := 0; i < iters; i++ {
				e := v.Get(1 + rng.Intn(2000))
				h := held.Add(1)
				for {
					m := maxHeld.Load()
					if h <= m || maxHeld.CompareAndSwap(m, h) {
						break
					}
				}
				emit(fmt.Sprintf("g%d.%d", r, v.EventIndex(e)))
				// hold it for a while: other readers must meet a full pool
				switch rng.Intn(4) {
				case 0:
					runtime.Gosched()
				case 1:
					time.Sleep(time.Duration(5+rng.Intn(60)) * time.Microsecond)
				default:
					for k := 200 + rng.Intn(3000); k > 0; k-- {
						_ = k * k
					}
					runtime.Gosched()
				}
				if rng.Chance(1, 3) {
					// a split parent: the kind of a pooled event may change between get and back
					e.SetChildParentKind()
				}
				emit(fmt.Sprintf("b%d", r))
				held.Add(-1)
				v.Back(e)
			}
		}(r)
	}
	done := make(chan struct{})
	go func() { wg.Wait(); close(done) }()
	wedged := false
	select {
	case <-done:
	case <-time.After(20 * time.Second):
		wedged = true
	}
	close(stop)
	time.Sleep(300 * time.Microsecond)
	mu.Lock()
	defer mu.Unlock()
	out := strings.Join(log, " ")
	if wedged {
		out += " wedged"
	}
	return fmt.Sprintf("%s max %d end %d %d", out, maxHeld.Load(), v.InUseRaw(), v.Waiters())
}

// ---- whole pipeline ------------------------------------------------------------------------

type pipeInput struct {
	ctl pipeline.InputPluginController
}

func (p *pipeInput) Start(_ pipeline.AnyConfig, params *pipeline.InputPluginParams) {
	p.ctl = params.Controller
}
func (p *pipeInput) Stop()                  {}
func (p *pipeInput) Commit(*pipeline.Event) {}
func (p *pipeInput) PassEvent(e *pipeline.Event) bool {
	n := e.Root.Dig("k")
	return n == nil || n.AsString() != "r"
}

// pipeAct: one instance per processor, like a multi-line action: holds at most one event.
type pipeAct struct {
	ctl  pipeline.ActionPluginController
	held *pipeline.Event
}

func (a *pipeAct) Start(_ pipeline.AnyConfig, params *pipeline.ActionPluginParams) {
	a.ctl = params.Controller
}
func (a *pipeAct) Stop() {}
func (a *pipeAct) flush() {
	if a.held != nil {
		h := a.held
		a.held = nil
		a.ctl.Propagate(h)
	}
}
func (a *pipeAct) Do(e *pipeline.Event) pipeline.ActionResult {
	if e.IsTimeoutKind() {
		a.flush()
		return pipeline.ActionDiscard
	}
	k := ""
	if n := e.Root.Dig("k"); n != nil {
		k = n.AsString()
	}
	if e.IsChildKind() {
		return pipeline.ActionPass
	}
	switch k {
	case "s":
		// like the split action: the pooled event becomes the parent of freshly allocated children
		a.flush()
		if arr := e.Root.Dig("a"); arr != nil && arr.IsArray() {
			a.ctl.Spawn(e, arr.AsArray())
		}
		return pipeline.ActionBreak
	case "d":
		a.flush()
		return pipeline.ActionDiscard
	case "h":
		a.flush()
		a.held = e
		return pipeline.ActionHold
	default:
		a.flush()
		return pipeline.ActionPass
	}
}

// batchOut: an output built on the real pipeline.Batcher, like every batching output plugin: Out adds the
// event to the batcher, the worker's OutFn walks the batch with Batch.ForEach (which skips split parents on
// purpose), the batcher commits the batch.
type batchOut struct {
	size, workers int
	batcher       *pipeline.Batcher
	cancel        context.CancelFunc
}

func (o *batchOut) Start(_ pipeline.AnyConfig, params *pipeline.OutputPluginParams) {
	o.batcher = pipeline.NewBatcher(pipeline.BatcherOptions{
		PipelineName:   params.PipelineName,
		OutputType:     "verif_batch",
		OutFn:          func(_ *pipeline.WorkerData, b *pipeline.Batch) { b.ForEach(func(*pipeline.Event) {}) },
		Controller:     params.Controller,
		Workers:        o.workers,
		BatchSizeCount: o.size,
		FlushTimeout:   3 * time.Millisecond,
		MetricCtl:      params.MetricCtl,
	})
	ctx, cancel := context.WithCancel(context.Background())
	o.cancel = cancel
	o.batcher.Start(ctx)
}
func (o *batchOut) Stop() {
	o.batcher.Stop()
	o.cancel()
}
func (o *batchOut) Out(e *pipeline.Event) { o.batcher.Add(e) }

// pipeDrop: discards events of kind q, passes everything else untouched (never busy).
type pipeDrop struct{}

func (a *pipeDrop) Start(_ pipeline.AnyConfig, _ *pipeline.ActionPluginParams) {}
func (a *pipeDrop) Stop()                                                        {}
func (a *pipeDrop) Do(e *pipeline.Event) pipeline.ActionResult {
	if e.IsTimeoutKind() {
		// like the discard action: whatever it is given it discards. A stream time-out is addressed to the
		// action that holds an event; if the processor hands it to this one it is gone.
		return pipeline.ActionDiscard
	}
	if e.IsChildKind() {
		return pipeline.ActionPass
	}
	if n := e.Root.Dig("k"); n != nil && n.AsString() == "q" {
		return pipeline.ActionDiscard
	}
	return pipeline.ActionPass
}

// pipePass: passes everything (never busy).
type pipePass struct{}

func (a *pipePass) Start(_ pipeline.AnyConfig, _ *pipeline.ActionPluginParams) {}
func (a *pipePass) Stop()                                                        {}
func (a *pipePass) Do(*pipeline.Event) pipeline.ActionResult                     { return pipeline.ActionPass }

var pipeSeq atomic.Int64

func execPipeChain(t *hx.Toks, chain bool) string { return execPipeChainB(t, chain, false) }

// batched: the output is batchOut; two more leading parameters <batch size> <workers>
func execPipeChainB(t *hx.Toks, chain, batched bool) string {
	kind := t.Next()
	capacity := t.Int()
	parallel, nsrc, order := false, 1, 0
	if chain {
		order = t.Int()
	} else {
		parallel = t.Bool()
		nsrc = t.Int()
	}
	bsize, bworkers := 0, 0
	if batched {
		bsize = t.Int()
		bworkers = t.Int()
		if bsize < 1 || bsize > 64 || bworkers < 1 || bworkers > 8 {
			return "bad-case"
		}
	}
	var kinds []string
	for !t.Done() {
		kinds = append(kinds, t.Next())
	}
	if t.Err != nil || (kind != "std" && kind != "lowmem") || capacity < 1 || nsrc < 1 || len(kinds) == 0 || len(kinds) > 5000 {
		return "bad-case"
	}
	settings := &pipeline.Settings{
		Capacity:            capacity,
		MaintenanceInterval: time.Second * 5,
		EventTimeout:        20 * time.Millisecond,
		Antispam:            pipeline.AntispamSettings{Threshold: -1},
		AvgEventSize:        2048,
		MetaCacheSize:       32,
		StreamField:         "stream",
		Decoder:             "json",
		Metric:              &pipeline.MetricSettings{HoldDuration: pipeline.DefaultMetricHoldDuration, MaxLabelValueLength: pipeline.DefaultMetricMaxLabelValueLength},
	}
	if kind == "std" {
		settings.Pool = pipeline.PoolTypeStd
	} else {
		settings.Pool = pipeline.PoolTypeLowMem
	}
	p := pipeline.New(fmt.Sprintf("verif_c05_%d", pipeSeq.Add(1)), settings, prometheus.NewRegistry(), zap.NewNop())
	if !parallel {
		p.DisableParallelism()
	}
	pipeline.VerifSetPoolWakeup(p, 2*time.Millisecond)
	in := &pipeInput{}
	p.SetInput(&pipeline.InputPluginInfo{
		PluginStaticInfo:  &pipeline.PluginStaticInfo{Type: "verif_in"},
		PluginRuntimeInfo: &pipeline.PluginRuntimeInfo{Plugin: in},
	})
	if batched {
		p.SetOutput(&pipeline.OutputPluginInfo{
			PluginStaticInfo:  &pipeline.PluginStaticInfo{Type: "verif_batch"},
			PluginRuntimeInfo: &pipeline.PluginRuntimeInfo{Plugin: &batchOut{size: bsize, workers: bworkers}},
		})
	} else {
		outAny, _ := devnull.Factory()
		p.SetOutput(&pipeline.OutputPluginInfo{
			PluginStaticInfo:  &pipeline.PluginStaticInfo{Type: "devnull"},
			PluginRuntimeInfo: &pipeline.PluginRuntimeInfo{Plugin: outAny},
		})
	}
	holder := &pipeline.ActionPluginStaticInfo{
		PluginStaticInfo: &pipeline.PluginStaticInfo{
			Type:    "verif_act",
			Factory: func() (pipeline.AnyPlugin, pipeline.AnyConfig) { return &pipeAct{}, nil },
		},
		MatchMode: pipeline.MatchModeAnd,
	}
	dropper := &pipeline.ActionPluginStaticInfo{
		PluginStaticInfo: &pipeline.PluginStaticInfo{
			Type:    "verif_drop",
			Factory: func() (pipeline.AnyPlugin, pipeline.AnyConfig) { return &pipeDrop{}, nil },
		},
		MatchMode: pipeline.MatchModeAnd,
	}
	passer := func() *pipeline.ActionPluginStaticInfo {
		return &pipeline.ActionPluginStaticInfo{
			PluginStaticInfo: &pipeline.PluginStaticInfo{
				Type:    "verif_pass",
				Factory: func() (pipeline.AnyPlugin, pipeline.AnyConfig) { return &pipePass{}, nil },
			},
			MatchMode: pipeline.MatchModeAnd,
		}
	}
	switch {
	case !chain:
		p.AddAction(holder)
	case order == 0:
		p.AddAction(dropper)
		p.AddAction(holder)
	case order == 1:
		p.AddAction(holder)
		p.AddAction(dropper)
	default:
		// order 2 / 3: one / two pass-through actions in front: the discarding action sits at index >= 1
		for i := 0; i < order-1; i++ {
			p.AddAction(passer())
		}
		p.AddAction(dropper)
		p.AddAction(holder)
	}

	var mu sync.Mutex
	fins := map[int64][]uint64{}
	live, maxLive, backs := 0, 0, 0
	pipeline.VerifSetTrace(func(k string, a, b uint64) {
		switch k {
		case "s.put":
			mu.Lock()
			live++
			if live > maxLive {
				maxLive = live
			}
			mu.Unlock()
		case "pl.finalize":
			mu.Lock()
			fins[int64(a)] = append(fins[int64(a)], b)
			if b&1 == 1 {
				live--
				backs++
			}
			mu.Unlock()
		}
	})
	defer pipeline.VerifSetTrace(nil)
	p.Start()
	streamed := 0
	for _, k := range kinds {
		if k == "p" || k == "d" || k == "h" || k == "s" || k == "q" {
			streamed++
		}
	}
	fed := make(chan struct{})
	go func() {
		for i, k := range kinds {
			off := int64(i+1) * 10
			var body string
			if k == "x" {
				body = "{\"k\":\"x\",,bad\n"
			} else {
				st := i % 2
				if chain {
					st = 0 // one stream: the processor that holds an event keeps reading this stream
				}
				if k == "s" {
					body = fmt.Sprintf("{\"k\":\"s\",\"stream\":\"s%d\",\"a\":[{\"c\":1},{\"c\":2}]}\n", st)
				} else {
					body = fmt.Sprintf("{\"k\":%q,\"stream\":\"s%d\"}\n", k, st)
				}
			}
			in.ctl.In(pipeline.SourceID(1+i%nsrc), "src", pipeline.NewOffsets(off, nil), []byte(body), false, nil)
		}
		close(fed)
	}()
	// Quiescence is a CONDITION, not a pause: every streamed event has had its finalize-with-back, the feeder
	// returned, and the pool's own counter is back to zero with nobody waiting (the pl.finalize trace point
	// precedes eventPool.back, so the counter may lag the trace by a scheduling delay). The deadline is long
	// (the liveness clause "in-use returns to zero when idle" is what is tested): what is reported after it
	// is what was observed.
	deadline := time.Now().Add(20 * time.Second)
	feedDone := false
	var inUse, waiters int64
	for {
		select {
		case <-fed:
			feedDone = true
		default:
		}
		mu.Lock()
		b := backs
		mu.Unlock()
		inUse, waiters = pipeline.VerifPipelinePool(p)
		if feedDone && b >= streamed && inUse == 0 && waiters == 0 {
			break
		}
		if time.Now().After(deadline) {
			break
		}
		time.Sleep(300 * time.Microsecond)
	}
	var sb strings.Builder
	mu.Lock()
	for i, k := range kinds {
		off := int64(i+1) * 10
		fmt.Fprintf(&sb, "e %d %s", off, k)
		for _, f := range fins[off] {
			fmt.Fprintf(&sb, " %d", f)
		}
		sb.WriteString(" ; ")
	}
	var extra []int64
	for off := range fins {
		if off%10 != 0 || off < 10 || off > int64(len(kinds))*10 {
			extra = append(extra, off)
		}
	}
	sort.Slice(extra, func(i, j int) bool { return extra[i] < extra[j] })
	for _, off := range extra {
		fmt.Fprintf(&sb, "stray %d ; ", off)
	}
	ok := 0
	if maxLive <= capacity {
		ok = 1
	}
	mu.Unlock()
	if !feedDone {
		sb.WriteString("feed-blocked ")
	}
	fmt.Fprintf(&sb, "maxok %d end %d %d", ok, inUse, waiters)
	if feedDone {
		p.Stop()
	}
	return sb.String()
}

func genC05(w *bufio.Writer, rng *hx.Rng, tier string) {
	genPoolGated(w, rng, tier, "c05.gated")
	nfree, npipe := 24, 30
	if tier == "thorough" {
		nfree, npipe = 400, 300
	}
	// free-running readers. Many readers against a small capacity first (every get meets a full
	// pool, every back wakes a crowd): capacities 1..3, 8..16 readers, both pools
	for _, k := range []string{"lowmem", "std"} {
		reps := 1
		if k == "lowmem" {
			reps = 2
		}
		for c := 1; c <= 3; c++ {
			for rep := 0; rep < reps; rep++ {
				// measured on a tree where get() is check-then-act: cap 1: 13/20, cap 2: 19/20, cap 3: 20/20
				// runs of ONE such case show more events held than the capacity
				fmt.Fprintf(w, "c05.free %s %d %d %d %d\n", k, c, 4+4*c, 250, rng.Intn(1000000))
			}
		}
	}
	for _, k := range []string{"lowmem", "std"} {
		for c := 4; c <= 8; c++ {
			fmt.Fprintf(w, "c05.free %s %d %d %d %d\n", k, c, c+rng.Range(2, 8), 40, rng.Intn(1000000))
		}
	}
	for i := 0; i < nfree; i++ {
		k := []string{"lowmem", "std"}[rng.Intn(2)]
		c := rng.Range(1, 8)
		if rng.Chance(1, 2) {
			c = rng.Range(1, 3)
		}
		fmt.Fprintf(w, "c05.free %s %d %d %d %d\n", k, c, rng.Range(c+1, 16), rng.Range(20, 80), rng.Intn(1000000))
	}
	// whole pipeline
	fixed := []string{
		"p", "d", "x", "r", "h", "h p", "p h", "h h p", "x r p d", "h d", "p p p p p p p p", "h x p", "r h",
		"s", "s s s s s p", "h s p", "s h s d s x s r s p",
	}
	for _, k := range []string{"lowmem", "std"} {
		for _, f := range fixed {
			fmt.Fprintf(w, "c05.pipe %s %d 0 1 %s\n", k, 1+len(f)%3, f)
		}
	}
	// two actions: an event held by one action, the next event consumed by the other (non-busy) one, silence
	chains := []string{"h q", "h q q", "h q p", "p h q", "h q h q", "h d q", "q h q s", "h x q", "h r q"}
	nchain := 10
	if tier == "thorough" {
		nchain = 120
	}
	for _, k := range []string{"lowmem", "std"} {
		for order := 0; order <= 3; order++ {
			for ci, f := range chains {
				if tier != "thorough" && order >= 2 && ci >= 2 {
					continue // quick: the two shortest chains for the longer action chains
				}
				if tier != "thorough" && ci >= 4 && (ci+order)%2 == 1 {
					continue // quick: the first four always, half of the rest (each waits for a stream time-out)
				}
				fmt.Fprintf(w, "c05.chain %s %d %d %s\n", k, 1+len(f)%3, order, f)
			}
		}
	}
	calpha := []string{"p", "p", "d", "h", "h", "q", "q", "q", "s", "x", "r"}
	for i := 0; i < nchain; i++ {
		var ks []string
		for j := rng.Range(2, 14); j > 0; j-- {
			ks = append(ks, calpha[rng.Intn(len(calpha))])
		}
		fmt.Fprintf(w, "c05.chain %s %d %d %s\n", []string{"lowmem", "std"}[rng.Intn(2)], rng.Range(1, 6), rng.Intn(4), strings.Join(ks, " "))
	}
	// the same kinds through an output built on the real Batcher (batch size 1..4, 1..2 workers)
	bfixed := []string{"s", "p", "s s s s s p", "h s p", "s h s d s x s r s p", "p p p p p", "h p", "s s"}
	for _, k := range []string{"lowmem", "std"} {
		for bi, f := range bfixed {
			fmt.Fprintf(w, "c05.bpipe %s %d 0 1 %d %d %s\n", k, 1+len(f)%3, 1+bi%4, 1+bi%2, f)
		}
		fmt.Fprintf(w, "c05.bchain %s 2 0 2 1 h q s\n", k)
		fmt.Fprintf(w, "c05.bchain %s 3 1 1 2 s h q s s s p\n", k)
		fmt.Fprintf(w, "c05.bchain %s 2 2 2 1 h q\n", k)
		fmt.Fprintf(w, "c05.bchain %s 2 3 1 1 h q p\n", k)
	}
	nb := 12
	if tier == "thorough" {
		nb = 150
	}
	balpha := []string{"p", "p", "d", "h", "x", "r", "s", "s", "s"}
	for i := 0; i < nb; i++ {
		var ks []string
		for j := rng.Range(1, 40); j > 0; j-- {
			ks = append(ks, balpha[rng.Intn(len(balpha))])
		}
		fmt.Fprintf(w, "c05.bpipe %s %d %s %d %d %d %s\n", []string{"lowmem", "std"}[rng.Intn(2)], rng.Range(1, 8),
			hx.B(rng.Chance(1, 3)), rng.Range(1, 3), rng.Range(1, 4), rng.Range(1, 2), strings.Join(ks, " "))
	}
	alphabet := []string{"p", "p", "p", "d", "d", "h", "x", "r", "s", "s"}
	for i := 0; i < npipe; i++ {
		k := []string{"lowmem", "std"}[rng.Intn(2)]
		c := rng.Range(1, 8)
		n := rng.Range(1, 60)
		var ks []string
		for j := 0; j < n; j++ {
			ks = append(ks, alphabet[rng.Intn(len(alphabet))])
		}
		if rng.Chance(1, 2) {
			ks = append(ks, "p") // ends without a trailing held event (no time-out wait)
		}
		fmt.Fprintf(w, "c05.pipe %s %d %s %d %s\n", k, c, hx.B(rng.Chance(1, 3)), rng.Range(1, 3), strings.Join(ks, " "))
	}
}
