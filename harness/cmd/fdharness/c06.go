package main

import (
	"bufio"
	"fmt"
	"os"
	"path/filepath"
	"strconv"
	"strings"

	"github.com/ozontech/file.d/plugin/input/file"

	"verifharness/internal/hx"
)

// C06: file reader emits each complete line once with its end-of-line offset.
//
// case: c06.turns <max> <cut> <skip> <base> <bufsize> <nturns> (<nreads> <hex>…)…
// The reads of a turn are the split of that turn's appended bytes into read-buffer-size
// chunks (what os.File.Read returns on a regular file); exec recovers buffer size and appends
// from the chunks and rejects a case whose chunks are not such a split.

func init() {
	execs["c06.turns"] = execC06
	gens["C06"] = genC06
}

func scratchDir() string {
	d := os.Getenv("VERIF_SCRATCH")
	if d == "" {
		d = os.TempDir()
	}
	return d
}

func execC06(t *hx.Toks) string {
	max := t.Int()
	cut := t.Bool()
	skip := t.Bool()
	base := t.Int64()
	bufSize := t.Int()
	nturns := t.Int()
	var appends [][]byte
	for i := 0; i < nturns; i++ {
		n := t.Int()
		var app []byte
		for j := 0; j < n; j++ {
			c := t.Bytes()
			// chunks must be the buffer-size split of the append
			if len(c) == 0 || len(c) > bufSize || (j < n-1 && len(c) != bufSize) {
				return "bad-case"
			}
			app = append(app, c...)
		}
		appends = append(appends, app)
	}
	if t.Err != nil || !t.Done() || bufSize < 1 {
		return "bad-case"
	}
	f, err := os.CreateTemp(scratchDir(), "c06-*")
	if err != nil {
		return "err-io"
	}
	path := f.Name()
	defer os.Remove(path)
	if base > 0 {
		prefix := make([]byte, base)
		for i := range prefix {
			prefix[i] = 'p'
		}
		prefix[base-1] = '\n'
		if _, err := f.Write(prefix); err != nil {
			return "err-io"
		}
	}
	f.Close()
	calls, cur, tail, sk, err := file.VerifWorkerTurns(max, cut, bufSize, filepath.Clean(path), base, skip, appends)
	if err != nil {
		return "err-io"
	}
	var sb strings.Builder
	sb.WriteString(strconv.Itoa(len(calls)))
	for _, c := range calls {
		fmt.Fprintf(&sb, " %d %s", c.Offset, hx.Enc(c.Data))
	}
	fmt.Fprintf(&sb, " %d %s %s", cur, hx.Enc(tail), hx.B(sk))
	return sb.String()
}

func c06Line(w *bufio.Writer, max int, cut, skip bool, base int, bufSize int, appends [][]byte) {
	fmt.Fprintf(w, "c06.turns %d %s %s %d %d %d", max, hx.B(cut), hx.B(skip), base, bufSize, len(appends))
	for _, a := range appends {
		n := (len(a) + bufSize - 1) / bufSize
		fmt.Fprintf(w, " %d", n)
		for i := 0; i < len(a); i += bufSize {
			e := i + bufSize
			if e > len(a) {
				e = len(a)
			}
			fmt.Fprintf(w, " %s", hx.Enc(a[i:e]))
		}
	}
	w.WriteByte('\n')
}

type c06Mode struct {
	max       int
	cut, skip bool
}

// limit modes of the exhaustive scope: off; skip / cut with a limit inside the scope's line
// lengths (so lines below, at and above the limit all occur); limit 1 (every non-empty line is
// over); shouldSkip starts
var c06Modes = []c06Mode{
	{0, false, false}, {2, false, false}, {2, true, false}, {1, true, false},
	{3, false, true}, {3, true, true}, {0, false, true}, {1, false, false},
}

func genC06(w *bufio.Writer, rng *hx.Rng, tier string) {
	alpha := []byte{'a', 'b', '\n'}
	// maxLen: longest exhaustive content; allModes: up to this length every case is run in every
	// limit mode (longer contents rotate through the modes); pairLen: up to this length every
	// pair of append points is enumerated too
	maxLen, allModes, pairLen, nrand, nstraddle := 6, 5, 4, 1500, 1500
	if tier == "thorough" {
		maxLen, allModes, pairLen, nrand, nstraddle = 8, 7, 6, 40000, 40000
	}
	idx := 0
	emitModes := func(n int, buf int, apps [][]byte) {
		if n <= allModes {
			for _, m := range c06Modes {
				c06Line(w, m.max, m.cut, m.skip, 0, buf, apps)
			}
			return
		}
		m := c06Modes[idx%len(c06Modes)]
		idx++
		c06Line(w, m.max, m.cut, m.skip, 0, buf, apps)
	}
	var rec func(cur []byte)
	emit := func(content []byte) {
		n := len(content)
		for buf := 1; buf <= n+1 && buf <= maxLen; buf++ {
			// one turn, and every single append point (quick: every second one for the longest contents)
			emitModes(n, buf, [][]byte{content})
			for cutAt := 1; cutAt < n; cutAt++ {
				if n > allModes && tier != "thorough" && (idx+cutAt)%2 == 1 {
					continue
				}
				emitModes(n, buf, [][]byte{content[:cutAt], content[cutAt:]})
			}
			if n <= pairLen {
				for i := 1; i < n; i++ {
					for j := i + 1; j < n; j++ {
						m := c06Modes[idx%len(c06Modes)]
						idx++
						c06Line(w, m.max, m.cut, m.skip, 0, buf, [][]byte{content[:i], content[i:j], content[j:]})
					}
				}
			}
		}
	}
	rec = func(cur []byte) {
		if len(cur) > 0 {
			emit(append([]byte(nil), cur...))
		}
		if len(cur) == maxLen {
			return
		}
		for _, c := range alpha {
			rec(append(cur, c))
		}
	}
	rec(nil)
	// straddle stream: small limits, buffers around the limit, line lengths from just under the
	// limit to several buffers beyond it, so that in cut mode the accumulated prefix is truncated
	// and overwritten several times before the newline arrives, and in skip mode accumulation
	// stops mid-line; appends fall anywhere (also inside an over-long line)
	for i := 0; i < nstraddle; i++ {
		max := rng.Range(1, 9)
		buf := rng.Range(1, max+3)
		nlines := rng.Range(1, 6)
		var content []byte
		for l := 0; l < nlines; l++ {
			var n int
			switch rng.Intn(4) {
			case 0:
				n = rng.Range(0, max) // fits (with its newline at most max+1: the boundary)
			case 1:
				n = rng.Range(max-1, max+1)
				if n < 0 {
					n = 0
				}
			case 2:
				n = rng.Range(max, max+2*buf+1)
			default:
				n = rng.Range(max+buf, max+5*buf+3)
			}
			content = append(content, rng.Bytes(n, []byte("abcdefgh"))...)
			content = append(content, '\n')
		}
		if rng.Chance(1, 2) {
			content = append(content, rng.Bytes(rng.Range(1, max+2*buf), []byte("xyz"))...)
		}
		nApp := rng.Range(1, 4)
		var apps [][]byte
		rest := content
		for a := 0; a < nApp-1 && len(rest) > 1; a++ {
			k := rng.Range(1, len(rest)-1)
			apps = append(apps, rest[:k])
			rest = rest[k:]
		}
		apps = append(apps, rest)
		base := 0
		if rng.Chance(1, 4) {
			base = rng.Range(1, 20)
		}
		c06Line(w, max, rng.Chance(2, 3), rng.Chance(1, 8), base, buf, apps)
	}
	// random: longer contents, line lengths around the limits, several appends, resume offsets
	wide := []byte("abcdefghij \t{}\"\\\r\x00\xff")
	for i := 0; i < nrand; i++ {
		nlines := rng.Range(0, 12)
		limits := []int{0, 0, 1, 5, 16, 64}
		max := limits[rng.Intn(len(limits))]
		var content []byte
		for l := 0; l < nlines; l++ {
			var n int
			switch rng.Intn(5) {
			case 0:
				n = 0
			case 1:
				n = rng.Range(0, 4)
			case 2:
				if max > 0 {
					n = rng.Range(max-2, max+2)
					if n < 0 {
						n = 0
					}
				} else {
					n = rng.Range(0, 40)
				}
			case 3:
				n = rng.Range(0, 100)
			default:
				n = rng.Range(0, 600)
			}
			content = append(content, rng.Bytes(n, wide)...)
			content = append(content, '\n')
		}
		if rng.Chance(1, 2) {
			content = append(content, rng.Bytes(rng.Range(1, 30), wide)...)
		}
		if len(content) == 0 {
			content = []byte{'\n'}
		}
		bufs := []int{1, 2, 3, 7, 16, 64, 512, 4096}
		buf := bufs[rng.Intn(len(bufs))]
		nApp := rng.Range(1, 4)
		var apps [][]byte
		rest := content
		for a := 0; a < nApp-1 && len(rest) > 1; a++ {
			k := rng.Range(1, len(rest)-1)
			apps = append(apps, rest[:k])
			rest = rest[k:]
		}
		apps = append(apps, rest)
		base := 0
		if rng.Chance(1, 3) {
			base = rng.Range(1, 50)
		}
		c06Line(w, max, rng.Bool(), rng.Chance(1, 6), base, buf, apps)
	}
	// the worker in front of the real Pipeline.In (c06pipe.go)
	genC06Pipe(w, rng, tier)
}
