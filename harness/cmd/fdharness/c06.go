package main

import (
	"bufio"
	"fmt"
	"os"
	"path/filepath"
	"strconv"
	"strings"

	"github.com/ozontech/file.d/plugin/input/file"

	"verifharness/internal/hx"
)

// C06: file reader emits each complete line once with its end-of-line offset.
//
// case: c06.turns <max> <cut> <skip> <base> <bufsize> <nturns> (<nreads> <hex>…)…
// The reads of a turn are the split of that turn's appended bytes into read-buffer-size
// chunks (what os.File.Read returns on a regular file); exec recovers buffer size and appends
// from the chunks and rejects a case whose chunks are not such a split.

func init() {
	execs["c06.turns"] = execC06
	gens["C06"] = genC06
}

func scratchDir() string {
	d := os.Getenv("VERIF_SCRATCH")
	if d == "" {
		d = os.TempDir()
	}
	return d
}

func execC06(t *hx.Toks) string {
	max := t.Int()
	cut := t.Bool()
	skip := t.Bool()
	base := t.Int64()
	bufSize := t.Int()
	nturns := t.Int()
	var appends [][]byte
	for i := 0; i < nturns; i++ {
		n := t.Int()
		var app []byte
		for j := 0; j < n; j++ {
			c := t.Bytes()
			// chunks must be the buffer-size split of the append
			if len(c) == 0 || len(c) > bufSize || (j < n-1 && len(c) != bufSize) {
				return "bad-case"
			}
			app = append(app, c...)
		}
		appends = append(appends, app)
	}
	if t.Err != nil || !t.Done() || bufSize < 1 {
		return "bad-case"
	}
	f, err := os.CreateTemp(scratchDir(), "c06-*")
	if err != nil {
		return "err-io"
	}
	path := f.Name()
	defer os.Remove(path)
	if base > 0 {
		prefix := make([]byte, base)
		for i := range prefix {
			prefix[i] = 'p'
		}
		prefix[base-1] = '\n'
		if _, err := f.Write(prefix); err != nil {
			return "err-io"
		}
	}
	f.Close()
	calls, cur, tail, sk, err := file.VerifWorkerTurns(max, cut, bufSize, filepath.Clean(path), base, skip, appends)
	if err != nil {
		return "err-io"
	}
	var sb strings.Builder
	sb.WriteString(strconv.Itoa(len(calls)))
	for _, c := range calls {
		fmt.Fprintf(&sb, " %d %s", c.Offset, hx.Enc(c.Data))
	}
	fmt.Fprintf(&sb, " %d %s %s", cur, hx.Enc(tail), hx.B(sk))
	return sb.String()
}

func c06Line(w *bufio.Writer, max int, cut, skip bool, base int, bufSize int, appends [][]byte) {
	fmt.Fprintf(w, "c06.turns %d %s %s %d %d %d", max, hx.B(cut), hx.B(skip), base, bufSize, len(appends))
	for _, a := range appends {
		n := (len(a) + bufSize - 1) / bufSize
		fmt.Fprintf(w, " %d", n)
		for i := 0; i < len(a); i += bufSize {
			e := i + bufSize
			if e > len(a) {
				e = len(a)
			}
			fmt.Fprintf(w, " %s", hx.Enc(a[i:e]))
		}
	}
	w.WriteByte('\n')
}

func genC06(w *bufio.Writer, rng *hx.Rng, tier string) {
	alpha := []byte{'a', 'b', '\n'}
	maxLen, nrand := 6, 1500
	if tier == "thorough" {
		maxLen, nrand = 8, 40000
	}
	// exhaustive small scope: every content over {a,b,\n} up to maxLen, every buffer size,
	// every single append point; limits 0 (off) / 2 skip / 2 cut rotate with the content index
	idx := 0
	var rec func(cur []byte)
	emit := func(content []byte) {
		for buf := 1; buf <= len(content)+1 && buf <= maxLen; buf++ {
			for cutAt := 0; cutAt <= len(content); cutAt++ {
				if cutAt != 0 && cutAt != len(content) && (idx+cutAt)%2 == 1 && tier != "thorough" {
					continue
				}
				var apps [][]byte
				if cutAt == 0 || cutAt == len(content) {
					if cutAt == 0 {
						apps = [][]byte{content}
					} else {
						continue
					}
				} else {
					apps = [][]byte{content[:cutAt], content[cutAt:]}
				}
				mode := idx % 5
				idx++
				switch mode {
				case 0, 1:
					c06Line(w, 0, false, false, 0, buf, apps)
				case 2:
					c06Line(w, 2, false, false, 0, buf, apps)
				case 3:
					c06Line(w, 2, true, false, 0, buf, apps)
				case 4:
					c06Line(w, 3, idx%2 == 0, true, 0, buf, apps)
				}
			}
		}
	}
	rec = func(cur []byte) {
		if len(cur) > 0 {
			emit(append([]byte(nil), cur...))
		}
		if len(cur) == maxLen {
			return
		}
		for _, c := range alpha {
			rec(append(cur, c))
		}
	}
	rec(nil)
	// random: longer contents, line lengths around the limits, several appends, resume offsets
	wide := []byte("abcdefghij \t{}\"\\\r\x00\xff")
	for i := 0; i < nrand; i++ {
		nlines := rng.Range(0, 12)
		limits := []int{0, 0, 1, 5, 16, 64}
		max := limits[rng.Intn(len(limits))]
		var content []byte
		for l := 0; l < nlines; l++ {
			var n int
			switch rng.Intn(5) {
			case 0:
				n = 0
			case 1:
				n = rng.Range(0, 4)
			case 2:
				if max > 0 {
					n = rng.Range(max-2, max+2)
					if n < 0 {
						n = 0
					}
				} else {
					n = rng.Range(0, 40)
				}
			case 3:
				n = rng.Range(0, 100)
			default:
				n = rng.Range(0, 600)
			}
			content = append(content, rng.Bytes(n, wide)...)
			content = append(content, '\n')
		}
		if rng.Chance(1, 2) {
			content = append(content, rng.Bytes(rng.Range(1, 30), wide)...)
		}
		if len(content) == 0 {
			content = []byte{'\n'}
		}
		bufs := []int{1, 2, 3, 7, 16, 64, 512, 4096}
		buf := bufs[rng.Intn(len(bufs))]
		nApp := rng.Range(1, 4)
		var apps [][]byte
		rest := content
		for a := 0; a < nApp-1 && len(rest) > 1; a++ {
			k := rng.Range(1, len(rest)-1)
			apps = append(apps, rest[:k])
			rest = rest[k:]
		}
		apps = append(apps, rest)
		base := 0
		if rng.Chance(1, 3) {
			base = rng.Range(1, 50)
		}
		c06Line(w, max, rng.Bool(), rng.Chance(1, 6), base, buf, apps)
	}
}
