package main

import (
	"bufio"
	"bytes"
	"fmt"
	"sort"
	"strconv"
	"strings"

	"verifharness/internal/hx"
)

// c12.row: the fidelity clause of C12 evaluated on the IMPLEMENTATION's result.
//
//	c12.row <inner c12.* case> E <expected field tokens>
//
// The inner case is the rendering of a WELL-FORMED row (fields avoid the delimiters the format
// reserves — the hypotheses of the <dec>_fields theorems); the tokens after `E` are the row's
// fields in the canonical form the implementation result has between `ok` and `B`. exec runs the
// inner case; the driver's P fails when the implementation's decoded fields differ from the row.

func init() { execs["c12.row"] = execC12Row }

func execC12Row(t *hx.Toks) string {
	var inner []string
	for !t.Done() {
		s := t.Next()
		if s == "E" {
			break
		}
		inner = append(inner, s)
	}
	if len(inner) == 0 {
		return "bad-case"
	}
	f, ok := execs[inner[0]]
	if !ok || inner[0] == "c12.row" {
		return "bad-case"
	}
	return f(&hx.Toks{T: inner[1:]})
}

func capture(f func(w *bufio.Writer)) string {
	var buf bytes.Buffer
	w := bufio.NewWriter(&buf)
	f(w)
	w.Flush()
	return strings.TrimRight(buf.String(), "\n")
}

func c12Row(w *bufio.Writer, inner string, expected []string) {
	fmt.Fprintf(w, "c12.row %s E %s\n", inner, strings.Join(expected, " "))
}

// wfWord draws a field free of the bytes in avoid (and of '\n').
func wfWord(r *hx.Rng, avoid string, nonEmpty bool) []byte {
	for tries := 0; tries < 50; tries++ {
		b := word(r, avoid+"\n")
		if nonEmpty && len(b) == 0 {
			continue
		}
		return b
	}
	return []byte("w")
}

// terminators of a line: none, LF (and CRLF where the format defines it)
func wfNL(r *hx.Rng) string {
	if r.Bool() {
		return "\n"
	}
	return ""
}

var facNames = []string{"KERN", "USER", "MAIL", "DAEMON", "AUTH", "SYSLOG", "LPR", "NEWS", "UUCP", "CRON", "AUTHPRIV", "FTP",
	"NTP", "SECURITY", "CONSOLE", "SOLARISCRON", "LOCAL0", "LOCAL1", "LOCAL2", "LOCAL3", "LOCAL4", "LOCAL5", "LOCAL6", "LOCAL7"}
var sevNames = []string{"EMERG", "ALERT", "CRIT", "ERROR", "WARN", "NOTICE", "INFO", "DEBUG"}

func facSev(p int, fs, ss bool) (string, string) {
	f, s := strconv.Itoa(p/8), strconv.Itoa(p%8)
	if fs {
		f = facNames[p/8]
	}
	if ss {
		s = sevNames[p%8]
	}
	return hx.Enc([]byte(f)), hx.Enc([]byte(s))
}

func kvExpected(m map[string][]byte) string { return kvToks(m) }

// ---- CRI ------------------------------------------------------------------------------------

func rowCRI(w *bufio.Writer, r *hx.Rng) {
	time := wfWord(r, " ", false)
	stream := []byte([]string{"stdout", "stderr", "abcdef", "\xff\x00[]=,"}[r.Intn(4)])
	tag := []byte([]string{"F", "P", "P:1", "Fx", "x", "PF"}[r.Intn(6)])
	log := wfWord(r, "", false)
	if r.Chance(1, 3) {
		log = append(append(log, ' '), wfWord(r, "", false)...)
	}
	nl := wfNL(r)
	line := bytes.Join([][]byte{time, stream, tag, append(append([]byte(nil), log...), nl...)}, []byte(" "))
	partial := tag[0] == 'P'
	exp := append([]byte(nil), log...)
	if !partial {
		exp = append(exp, nl...)
	}
	c12Row(w, capture(func(w *bufio.Writer) { c12CRI(w, line) }),
		[]string{hx.Enc(time), hx.Enc(stream), hx.B(partial), hx.Enc(exp)})
}

// ---- Postgres ---------------------------------------------------------------------------------

func rowPG(w *bufio.Writer, r *hx.Rng) {
	t1, t2, t3 := wfWord(r, " ", false), wfWord(r, " ", false), wfWord(r, " ", false)
	pid, pmn := wfWord(r, "]", false), wfWord(r, "]", false)
	c, d, u := wfWord(r, ",", false), wfWord(r, ",", false), wfWord(r, " ", false)
	lvl := wfWord(r, " ", false)
	log := append(wfWord(r, "", false), wfNL(r)...)
	line := fmt.Sprintf("%s %s %s [%s] => [%s] client=%s,db=%s,user=%s %s  %s", t1, t2, t3, pid, pmn, c, d, u, lvl, log)
	time := fmt.Sprintf("%s %s %s", t1, t2, t3)
	c12Row(w, capture(func(w *bufio.Writer) { c12PG(w, []byte(line)) }),
		[]string{hx.Enc([]byte(time)), hx.Enc(pid), hx.Enc(pmn), hx.Enc(c), hx.Enc(d), hx.Enc(u), hx.Enc(log)})
}

// ---- nginx --------------------------------------------------------------------------------------

func noSep(b []byte) bool { return !bytes.Contains(b, []byte(", ")) }

func rowNginx(w *bufio.Writer, r *hx.Rng) {
	date, clock := wfWord(r, " ", false), wfWord(r, " ", false)
	level := wfWord(r, " ", true)
	pid, tid := wfWord(r, " #:", false), wfWord(r, " #:", false)
	custom := r.Bool()
	var cid []byte
	hasCid := r.Bool()
	if hasCid {
		cid = wfWord(r, " ", false)
	}
	var msg []byte
	for tries := 0; ; tries++ {
		msg = wfWord(r, "", false)
		if r.Chance(1, 3) {
			msg = append(append(msg, ' '), wfWord(r, "", false)...)
		}
		if tries > 50 {
			msg = []byte("m")
		}
		if custom && !noSep(msg) {
			continue
		}
		if !hasCid && len(msg) > 0 && msg[0] == '*' {
			continue
		}
		break
	}
	fields := map[string][]byte{}
	var tail []byte
	if custom {
		n := r.Range(0, 3)
		keys := []string{"client", "server", "request", "upstream", "host", "K", "client"}
		for i := 0; i < n; i++ {
			k := keys[r.Intn(len(keys))]
			var v []byte
			for {
				v = wfWord(r, "\"", false)
				if noSep(v) && !bytes.HasSuffix(v, []byte(",")) {
					break
				}
			}
			tail = append(tail, fmt.Sprintf(", %s: \"%s\"", k, v)...)
			if _, dup := fields[k]; !dup { // fields are assigned from last to first: the first one wins
				fields[k] = v
			}
		}
		// a message ending in ',' followed by " key" would form a separator of its own
		if bytes.HasSuffix(msg, []byte(",")) {
			msg = append(msg, 'x')
		}
	}
	s := fmt.Sprintf("%s %s [%s] %s#%s: ", date, clock, level, pid, tid)
	if hasCid {
		s += "*" + string(cid) + " "
	}
	s += string(msg) + string(tail) + wfNL(r)
	if len(msg) == 0 && len(tail) == 0 && hasCid {
		// "… *cid " + "" : the decoder sees len(data) == split[4]+1 and keeps an empty message: fine
	}
	c12Row(w, capture(func(w *bufio.Writer) { c12Nginx(w, custom, []byte(s)) }),
		[]string{hx.Enc([]byte(string(date) + " " + string(clock))), hx.Enc(level), hx.Enc(pid), hx.Enc(tid), hx.Enc(cid), hx.Enc(msg), kvExpected(fields)})
}

// ---- syslog ---------------------------------------------------------------------------------------

func validStamp3164(r *hx.Rng) string {
	mon := []string{"Jan", "Oct", "Dec", "Feb", "Zzz"}[r.Intn(5)]
	day := fmt.Sprintf("%2d", r.Range(1, 31))
	if r.Bool() {
		day = fmt.Sprintf("%02d", r.Range(0, 99))
	}
	return fmt.Sprintf("%s %s %02d:%02d:%02d", mon, day, r.Range(0, 23), r.Range(0, 59), r.Range(0, 59))
}

func rowS3164(w *bufio.Writer, r *hx.Rng) {
	p := r.Range(0, 191)
	fs, ss := r.Bool(), r.Bool()
	ts := validStamp3164(r)
	host := wfWord(r, " ", false)
	app := wfWord(r, " [:", false)
	procid := wfWord(r, "]", false)
	msg := wfWord(r, "", false)
	if r.Chance(1, 3) {
		msg = append(append(msg, ' '), wfWord(r, "", false)...)
	}
	pri := strconv.Itoa(p)
	line := fmt.Sprintf("<%s>%s %s %s[%s]: %s%s", pri, ts, host, app, procid, msg, wfNL(r))
	f, s := facSev(p, fs, ss)
	c12Row(w, capture(func(w *bufio.Writer) { c12Syslog(w, false, fs, ss, []byte(line)) }),
		[]string{hx.Enc([]byte(pri)), f, s, hx.Enc([]byte(ts)), hx.Enc(host), hx.Enc(app), hx.Enc(procid), hx.Enc(msg)})
}

func validStamp5424(r *hx.Rng) string {
	s := fmt.Sprintf("%04d-%02d-%02dT%02d:%02d:%02d", r.Range(0, 9999), r.Range(1, 12), r.Range(1, 31), r.Range(0, 23), r.Range(0, 59), r.Range(0, 59))
	if r.Bool() {
		s += "." + string(r.Bytes(r.Range(1, 6), []byte("0123456789")))
	}
	switch r.Intn(3) {
	case 0:
		s += "Z"
	case 1:
		s += fmt.Sprintf("+%02d:%02d", r.Range(0, 23), r.Range(0, 59))
	default:
		s += fmt.Sprintf("-%02d:%02d", r.Range(0, 23), r.Range(0, 59))
	}
	return s
}

func rowS5424(w *bufio.Writer, r *hx.Rng) {
	p := r.Range(0, 191)
	fs, ss := r.Bool(), r.Bool()
	ver := []string{"1", "12", "007"}[r.Intn(3)]
	hf := func() []byte { // header field: empty (written "-") or free of spaces and not "-"
		if r.Chance(1, 4) {
			return nil
		}
		for {
			b := wfWord(r, " ", true)
			if string(b) != "-" {
				return b
			}
		}
	}
	nilOr := func(b []byte) string {
		if len(b) == 0 {
			return "-"
		}
		return string(b)
	}
	var ts []byte
	if r.Chance(3, 4) {
		ts = []byte(validStamp5424(r))
	}
	host, app, procid, msgid := hf(), hf(), hf(), hf()
	msg := wfWord(r, "", false)
	bom := r.Chance(1, 5)
	sdTok := "0"
	sd := "-"
	if r.Bool() {
		// one element [id k="v"]
		var id []byte
		for {
			id = wfWord(r, " ]", true)
			if len(id) >= 2 {
				break
			}
		}
		k := wfWord(r, "]\" =", false)
		var v []byte
		for {
			v = wfWord(r, "]\"", false)
			if !bytes.HasSuffix(v, []byte("\\")) {
				break
			}
		}
		sd = fmt.Sprintf("[%s %s=\"%s\"]", id, k, v)
		sdTok = fmt.Sprintf("1 %s 1 %s %s", hx.Enc(id), hx.Enc(k), hx.Enc(v))
		for len(msg) > 0 && msg[0] == ' ' {
			msg = msg[1:]
		}
	}
	body := string(msg)
	if bom {
		body = "\xEF\xBB\xBF" + body
	} else if strings.HasPrefix(body, "\xEF\xBB\xBF") {
		body = "x" + body
		msg = []byte(body)
	}
	if sd != "-" && bom {
		// fine: the BOM is looked for after the optional space
	}
	pri := strconv.Itoa(p)
	line := fmt.Sprintf("<%s>%s %s %s %s %s %s %s %s%s", pri, ver, nilOr(ts), nilOr(host), nilOr(app), nilOr(procid), nilOr(msgid), sd, body, wfNL(r))
	f, s := facSev(p, fs, ss)
	c12Row(w, capture(func(w *bufio.Writer) { c12Syslog(w, true, fs, ss, []byte(line)) }),
		[]string{hx.Enc([]byte(pri)), f, s, hx.Enc([]byte(ver)), hx.Enc(ts), hx.Enc(host), hx.Enc(app), hx.Enc(procid), hx.Enc(msgid), hx.Enc(msg), sdTok})
}

// ---- CSV ------------------------------------------------------------------------------------------

// every delimiter class validDelim accepts: punctuation, tab, space, a letter, a high byte
var csvDelims = []byte{',', ';', '\t', ' ', '|', 'a', 0x01, 0xff}

func rowCSV(w *bufio.Writer, r *hx.Rng) {
	delim := csvDelims[r.Intn(len(csvDelims))]
	cfg := csvCfg{delim: delim, cont: r.Bool()}
	n := r.Range(1, 5)
	var cells [][]byte
	var parts []string
	for i := 0; i < n; i++ {
		var cell []byte
		quoted := r.Chance(1, 3)
		switch r.Intn(4) {
		case 0: // empty cell (first / middle / last)
		case 1:
			cell = wfWord(r, "", false)
		default:
			cell = wfWord(r, "\r", false)
		}
		if !quoted && (bytes.ContainsAny(cell, "\"\r\n") || bytes.IndexByte(cell, delim) >= 0) {
			quoted = true
		}
		if quoted && r.Chance(1, 3) { // quoted cells containing the delimiter, quotes, newlines
			cell = append(append(append([]byte(nil), cell...), delim, '"'), wfWord(r, "", false)...)
			if r.Bool() {
				cell = append(cell, '\n')
			}
		}
		if !quoted && i == n-1 && !bytes.Equal(bytes.TrimSpace(cell), cell) {
			// TrimSpace is applied to the last unquoted cell: keep it free of surrounding white space
			cell = bytes.TrimSpace(cell)
			if bytes.IndexByte(cell, delim) >= 0 {
				quoted = true
			}
		}
		cells = append(cells, cell)
		if quoted {
			parts = append(parts, "\""+strings.ReplaceAll(string(cell), "\"", "\"\"")+"\"")
		} else {
			parts = append(parts, string(cell))
		}
	}
	row := strings.Join(parts, string([]byte{delim}))
	if len(row) == 0 {
		return // the empty line decodes to zero fields
	}
	term := []string{"", "\n", "\r\n"}[r.Intn(3)]
	if term == "" && strings.HasSuffix(row, "\n") && !strings.HasSuffix(parts[len(parts)-1], "\"") {
		return
	}
	exp := []string{strconv.Itoa(len(cells))}
	for _, c := range cells {
		exp = append(exp, hx.Enc(c))
	}
	c12Row(w, capture(func(w *bufio.Writer) { c12CSV(w, cfg, []byte(row+term)) }), exp)
}

// csvRowsSmall enumerates small rows exhaustively: every delimiter × 1..3 cells drawn from a cell
// pool (empty, plain, with inner / leading / trailing spaces) × quoting × terminator.
func csvRowsSmall(w *bufio.Writer) {
	pool := []string{"", "a", "b c", " x", "y "}
	for _, delim := range []byte{',', '\t', ' ', ';'} {
		for n := 1; n <= 3; n++ {
			idx := make([]int, n)
			for {
				for qmask := 0; qmask < 1<<n; qmask++ {
					var parts []string
					var exp []string
					ok := true
					for i := 0; i < n; i++ {
						cell := pool[idx[i]]
						q := qmask&(1<<i) != 0
						if !q && strings.IndexByte(cell, delim) >= 0 {
							ok = false
						}
						if !q && i == n-1 && strings.TrimSpace(cell) != cell {
							ok = false
						}
						if q {
							parts = append(parts, "\""+cell+"\"")
						} else {
							parts = append(parts, cell)
						}
						exp = append(exp, hx.Enc([]byte(cell)))
					}
					row := strings.Join(parts, string([]byte{delim}))
					if !ok || row == "" {
						continue
					}
					for _, term := range []string{"", "\n", "\r\n"} {
						c12Row(w, capture(func(w *bufio.Writer) { c12CSV(w, csvCfg{delim: delim}, []byte(row+term)) }),
							append([]string{strconv.Itoa(n)}, exp...))
					}
				}
				k := 0
				for k < n {
					idx[k]++
					if idx[k] < len(pool) {
						break
					}
					idx[k] = 0
					k++
				}
				if k == n {
					break
				}
			}
		}
	}
	_ = sort.Strings
}

// genC12Rows: the well-formed-row stream.
func genC12Rows(w *bufio.Writer, rng *hx.Rng, n int) {
	csvRowsSmall(w)
	for i := 0; i < n; i++ {
		rowCRI(w, rng)
		rowPG(w, rng)
		rowNginx(w, rng)
		rowS3164(w, rng)
		rowS5424(w, rng)
		rowCSV(w, rng)
		rowCSV(w, rng)
	}
}
