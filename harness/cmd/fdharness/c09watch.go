package main

import (
	"sync/atomic"
	"time"

	"verifharness/internal/hx"
)

// Per-case watchdog of the C09 families that drive a real Batcher. A change that stalls the batcher (lost
// wake-up in commitBatch, a worker that never returns, …) must end the case with a result the oracle counts as a
// failure — never block the run on Stop()/wg.Wait() of the stalled batcher. The case body runs in its own
// goroutine; when the boundary log shows no progress (heartbeat / clock ticks do not count) for `idle`, or the
// case exceeds `total`, the goroutines of the case are abandoned and the result is the log so far followed
// by `panic:stuck` (SpecC08/SpecC09: any `panic:` token fails the property: an appended event that is never
// committed by either output).

type watched struct {
	log atomic.Pointer[tLog]
}

// c09Stuck counts the cases of this process that ended stuck: after three of them the run is a failure anyway and
// the idle threshold is shortened so that a stalling change is reported quickly
var c09Stuck atomic.Int64

// c09HookGen guards the global trace/gate hooks: an abandoned case must not uninstall the hooks of a later one
var c09HookGen atomic.Int64

func progressOf(l *tLog) int {
	if l == nil {
		return 0
	}
	l.mu.Lock()
	defer l.mu.Unlock()
	n := 0
	for _, e := range l.entries {
		switch e.tok {
		case "h", "H", "k":
		default:
			n++
			n += len(e.ids) // commits arrive inside an open cb entry
		}
	}
	return n
}

func runWatched(idle, total time.Duration, body func(w *watched) string) string {
	w := &watched{}
	done := make(chan string, 1)
	go func() {
		defer func() {
			if r := recover(); r != nil {
				done <- "panic:" + panicKind(r)
			}
		}()
		done <- body(w)
	}()
	start := time.Now()
	last, lastChange := -1, time.Now()
	tick := time.NewTicker(20 * time.Millisecond)
	defer tick.Stop()
	for {
		select {
		case r := <-done:
			return r
		case <-tick.C:
		}
		if p := progressOf(w.log.Load()); p != last {
			last, lastChange = p, time.Now()
		}
		limit := idle
		if c09Stuck.Load() >= 3 && limit > 1500*time.Millisecond {
			limit = 1500 * time.Millisecond
		}
		if time.Since(lastChange) > limit || time.Since(start) > total {
			c09Stuck.Add(1)
			if l := w.log.Load(); l != nil {
				if s := l.render(); s != "" {
					return s + " panic:stuck"
				}
			}
			return "panic:stuck"
		}
	}
}

func watchedExec(idle, total time.Duration, f func(t *hx.Toks, w *watched) string) execFn {
	return func(t *hx.Toks) string {
		return runWatched(idle, total, func(w *watched) string { return f(t, w) })
	}
}
