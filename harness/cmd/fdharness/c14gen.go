package main

import (
	"bufio"
	"regexp"
	"strconv"
	"strings"
	"time"
	"unicode/utf8"

	"github.com/ozontech/file.d/cfg"
	"github.com/ozontech/file.d/pipeline/doif"
	"github.com/ozontech/file.d/xtime"
	insaneJSON "github.com/ozontech/insane-json"

	"verifharness/internal/hx"
	"verifharness/internal/jt"
)

// ---------------------------------------------------------------- pools

var c14Pool = []string{
	"", "a", "b", "ab", "abc", "ABC", "aBc", "abab", "Error", "ERROR: disk full", "error", "warn",
	"test-pod-1", "Test-Pod-2", "pod", "юникод", "ЮНИКОД", "Юникод-1", "\u023a", "\u2c65x", "\u212a", "k", "K",
	"\u212aelvin", "kelvin", "ß", "😀", "\ufffd", "null", "true", "false", "0", "00", "-0", "123", "12.7", "1e3",
	"2024-01-02T03:04:05Z", "2024-01-02T03:04:05.123456789+03:00", "1704164645", "1704164645.5",
	"2024-01-02 03:04:05", "3:04PM", "qwe", "a.b", "\u0130", "x y", "!$#", "a!b",
}

// strings that need JSON escaping or are not UTF-8 (never nested when a byte_len_cmp is present)
var c14PoolEsc = []string{"\x00", "q\"uote", "back\\slash", "line\n2", "tab\t", "\xff\xfe", "a\x00b", "\xc3"}

var c14Numbers = []string{"0", "1", "-1", "42", "7", "123", "3.14", "2.5", "1e3", "-0", "0.0", "00012", "9223372036854775807", "9223372036854775808", "1704164645", "12345678901234567890123"}

var c14Sels = []string{"a", "b", "c", "msg", "level", "ts", "n", "o", "o.x", "o.y", "o.z.w", "arr", "arr.0", "arr.1",
	"arr.-0", "arr.+1", "arr.x", "arr.01", "o.q\"k", `k\.dot`, "ключ", "", "missing", "a.b", "o.x.0", "arr.0.x", "o..x", "big.k7"}

var c14TopKeys = []string{"a", "b", "c", "msg", "level", "ts", "n", "o", "arr", "k.dot", "ключ", "big"}

var c14Times = []string{"2024-01-02T03:04:05Z", "2024-01-02T03:04:05.123456789+03:00", "1704164645", "1704164645.5",
	"1704164645123", "2024-01-02 03:04:05", "3:04PM", "qwe", "", "2024-01-02T03:04:06Z", "1999-12-31T23:59:59.999999999Z"}

var c14Formats = []string{"rfc3339nano", "rfc3339", "unixtime", "unixtimemilli", "unixtimenano", "2006-01-02 15:04:05", "kitchen", " RFC3339 ", "bogus", "nginx_errorlog"}

var c14Regexes = []string{"^a", "b$", ".*", "", "^$", "[0-9]+", "(?i)error", `pod-\d`, `\x00`, "^.$", "юни", "^(a|b)+$", "a.c", "(?s)^.+$", `^\w+$`, "k"}

var c14TypeNames = []string{"obj", "object", "arr", "array", "num", "number", "str", "string", "null", "nil"}

// keys of nested objects; the last two need JSON escaping
var c14NestedKeys = []string{"x", "y", "z", "w", "x", "y", "z", "w", "x", "y", "q\"k", "t\tb"}

const c14Epoch = int64(1704164645) * 1e9 // 2024-01-02T03:04:05Z

// ---------------------------------------------------------------- events

func c14Str(r *hx.Rng, noEsc bool) string {
	if !noEsc && r.Chance(1, 8) {
		return c14PoolEsc[r.Intn(len(c14PoolEsc))]
	}
	if r.Chance(1, 6) {
		n := r.Range(0, 6)
		return string(r.Bytes(n, []byte("abAB1 -")))
	}
	return c14Pool[r.Intn(len(c14Pool))]
}

func c14Val(r *hx.Rng, depth int, noEsc bool) *jt.Tree {
	k := r.Intn(20)
	if depth >= 3 && k >= 15 {
		k = r.Intn(15)
	}
	switch {
	case k < 9:
		return jt.S(c14Str(r, noEsc))
	case k < 12:
		return jt.Nu(c14Numbers[r.Intn(len(c14Numbers))])
	case k < 13:
		return jt.N()
	case k < 15:
		return jt.Bo(r.Bool())
	case k < 18:
		t := jt.A()
		for i, n := 0, r.Range(0, 3); i < n; i++ {
			t.Arr = append(t.Arr, c14Val(r, depth+1, noEsc))
		}
		return t
	default:
		t := jt.O()
		for i, n := 0, r.Range(0, 3); i < n; i++ {
			t.Obj = append(t.Obj, jt.KV{K: []byte(r.Pick(c14NestedKeys)), V: c14Val(r, depth+1, noEsc)})
		}
		return t
	}
}

func c14Event(r *hx.Rng, noEsc bool) *jt.Tree {
	ev := jt.O()
	for i, n := 0, r.Range(0, 7); i < n; i++ {
		k := r.Pick(c14TopKeys)
		var v *jt.Tree
		switch {
		case k == "ts" && r.Chance(4, 5):
			v = jt.S(r.Pick(c14Times))
		case k == "n" && r.Chance(3, 4):
			if r.Bool() {
				v = jt.Nu(r.Pick(c14Numbers))
			} else {
				v = jt.S(r.Pick(c14Numbers))
			}
		case k == "o" && r.Chance(3, 4):
			v = jt.O()
			for j, m := 0, r.Range(0, 3); j < m; j++ {
				v.Obj = append(v.Obj, jt.KV{K: []byte(r.Pick(c14NestedKeys)), V: c14Val(r, 1, noEsc)})
			}
		case k == "arr" && r.Chance(3, 4):
			v = jt.A()
			for j, m := 0, r.Range(0, 3); j < m; j++ {
				v.Arr = append(v.Arr, c14Val(r, 1, noEsc))
			}
		case k == "big" && r.Chance(3, 4):
			// more than 16 fields, with a duplicate: insane-json switches to map lookup
			v = jt.O()
			for j, m := 0, r.Range(15, 19); j < m; j++ {
				v.Obj = append(v.Obj, jt.KV{K: []byte("k" + strconv.Itoa(j%12)), V: jt.S(r.Pick([]string{"a", "b", "ab"}))})
			}
		default:
			v = c14Val(r, 0, noEsc)
		}
		ev.Obj = append(ev.Obj, jt.KV{K: []byte(k), V: v})
	}
	return ev
}

// ---------------------------------------------------------------- rules

type c14Ctx struct {
	r    *hx.Rng
	root *insaneJSON.Root // scratch decode of the event, to aim values at what is there
}

func (c *c14Ctx) path() (string, [][]byte) {
	sel := c.r.Pick(c14Sels)
	var path [][]byte
	for _, p := range cfg.ParseFieldSelector(sel) {
		path = append(path, []byte(p))
	}
	return sel, path
}

func c14Flip(r *hx.Rng, s string) string {
	if !utf8.ValidString(s) {
		return s
	}
	switch r.Intn(3) {
	case 0:
		return strings.ToUpper(s)
	case 1:
		return strings.ToLower(s)
	default:
		out := []rune(s)
		for i := range out {
			if r.Bool() {
				out[i] = []rune(strings.ToUpper(string(out[i])))[0]
			}
		}
		return string(out)
	}
}

// a value aimed at the data d
func (c *c14Ctx) value(d []byte) []byte {
	r := c.r
	k := r.Intn(20)
	switch {
	case k < 8 && d != nil:
		i := r.Range(0, len(d))
		j := r.Range(i, len(d))
		var v string
		switch r.Intn(6) {
		case 0:
			v = string(d)
		case 1:
			v = string(d[:j])
		case 2:
			v = string(d[i:])
		case 3:
			v = string(d[i:j])
		case 4:
			v = string(d) + "x"
		default:
			v = "x" + string(d)
		}
		if r.Chance(2, 5) {
			v = c14Flip(r, v)
		}
		return []byte(v)
	case k < 10:
		return nil
	case k < 12:
		return []byte{}
	case k < 13:
		return []byte(r.Pick(c14PoolEsc))
	default:
		return []byte(r.Pick(c14Pool))
	}
}

func (c *c14Ctx) leaf() *c14Rule {
	r := c.r
	sel, path := c.path()
	d := doif.NewEventData(c.root).Get(c14Strs(path)...)
	switch k := r.Intn(20); {
	case k < 12:
		f := &c14Rule{Kind: "f", Sel: sel, Path: path, CS: r.Bool()}
		f.Op = r.Pick([]string{"eq", "eq", "co", "co", "pr", "pr", "su", "su", "re", "ca"})
		switch f.Op {
		case "re":
			for i, n := 0, r.Range(1, 3); i < n; i++ {
				switch {
				case r.Chance(1, 40):
					f.Vals = append(f.Vals, []byte(r.Pick([]string{"[", "(", `\`})))
				case r.Chance(1, 3) && len(d) > 0:
					i := r.Range(0, len(d))
					f.Vals = append(f.Vals, []byte(regexp.QuoteMeta(string(d[i:r.Range(i, len(d))]))))
				case r.Chance(1, 30):
					f.Vals = append(f.Vals, nil)
				default:
					f.Vals = append(f.Vals, []byte(r.Pick(c14Regexes)))
				}
			}
		case "ca":
			f.Vals = [][]byte{[]byte(r.Pick([]string{"!$#", "abc", "я", "\x00", "KK", "xyz", "B", " -"}))}
			if r.Chance(1, 15) {
				f.Vals = append(f.Vals, []byte("zz"))
			}
			if r.Chance(1, 30) {
				f.Vals = [][]byte{{}}
			}
			if r.Chance(1, 40) {
				f.Vals = [][]byte{nil}
			}
		default:
			n := r.Range(1, 4)
			if r.Chance(1, 50) {
				n = 0
			}
			for i := 0; i < n; i++ {
				if i > 0 && r.Chance(1, 8) {
					f.Vals = append(f.Vals, f.Vals[r.Intn(i)])
				} else {
					f.Vals = append(f.Vals, c.value(d))
				}
			}
		}
		return f
	case k < 15:
		l := &c14Rule{Kind: "l", Sel: sel, Path: path, LKind: r.Pick([]string{"b", "b", "a", "i"}),
			Cmp: r.Pick([]string{"lt", "le", "gt", "ge", "eq", "ne"})}
		// aim at the comparison boundary: the value the node will compute, give or take one
		actual := int64(-1)
		if n := c.root.Dig(c14Strs(path)...); n != nil {
			switch {
			case l.LKind == "a" && n.IsArray():
				actual = int64(len(n.AsArray()))
			case l.LKind == "i" && (n.IsNumber() || n.IsString()):
				actual = int64(n.AsInt())
			case l.LKind == "b" && (n.IsArray() || n.IsObject()):
				actual = int64(len(n.EncodeToString()))
			case l.LKind == "b":
				actual = int64(len(n.AsString()))
			}
		}
		switch {
		case r.Chance(1, 40):
			l.IVal = -1
		case r.Chance(3, 5) && actual >= 0:
			l.IVal = actual + int64(r.Range(-1, 1))
			if l.IVal < 0 {
				l.IVal = 0
			}
		default:
			l.IVal = c14Pick64(r, []int64{0, 1, 2, 3, 4, 5, 7, 12, 13, 42, 123, 1000})
		}
		return l
	case k < 18:
		if r.Chance(2, 3) {
			sel, path = "ts", [][]byte{[]byte("ts")}
		}
		t := &c14Rule{Kind: "t", Sel: sel, Path: path, Fmt: r.Pick(c14Formats),
			Cmp: r.Pick([]string{"lt", "le", "gt", "ge", "eq", "ne"}), Mode: r.Pick([]string{"n", "c", "c"})}
		t.Interval = int64(time.Hour) * int64(r.Range(1, 20))
		t.Shift = c14Pick64(r, []int64{0, 1, -1, int64(time.Second), -int64(time.Second), int64(time.Hour), -int64(time.Hour),
			int64(500 * time.Millisecond), int64(24 * time.Hour), -int64(24 * time.Hour), -int64(90 * time.Minute)})
		t.CVal = c14Epoch + c14Pick64(r, []int64{0, 0, 1, -1, 123456789, int64(time.Second), -int64(time.Hour), int64(24 * time.Hour)})
		// aim at the comparison boundary: the field's own timestamp, give or take a nanosecond
		// (const mode here; for now mode genC14 places `now` from aimLhs)
		if n := c.root.Dig(c14Strs(path)...); n != nil && n.IsString() {
			format, err := xtime.ParseFormatName(t.Fmt)
			if err != nil {
				format = t.Fmt
			}
			if tm, err := xtime.ParseTime(format, n.AsString()); err == nil && tm.Year() > 1971 && tm.Year() < 2200 {
				t.aimLhs, t.hasAim = tm.UnixNano(), true
				if r.Chance(1, 2) {
					t.CVal = tm.UnixNano() - t.Shift + int64(r.Range(-1, 1))
				}
			}
		}
		if t.Mode == "n" {
			t.CVal = 0
		}
		return t
	default:
		y := &c14Rule{Kind: "y", Sel: sel, Path: path}
		for i, n := 0, r.Range(1, 5); i < n; i++ {
			y.Vals = append(y.Vals, []byte(r.Pick(c14TypeNames)))
		}
		if r.Chance(1, 40) {
			y.Vals = append(y.Vals, []byte("int"))
		}
		if r.Chance(1, 60) {
			y.Vals = nil
		}
		return y
	}
}

func (c *c14Ctx) rule(depth int) *c14Rule {
	r := c.r
	if depth <= 0 || r.Chance(1, 4) {
		return c.leaf()
	}
	switch r.Intn(5) {
	case 0:
		n := 1
		if r.Chance(1, 40) {
			n = r.Intn(2) * 2
		}
		t := &c14Rule{Kind: "not"}
		for i := 0; i < n; i++ {
			t.Ops = append(t.Ops, c.rule(depth-1))
		}
		return t
	case 1, 2:
		t := &c14Rule{Kind: "and"}
		for i, n := 0, c14NOps(r); i < n; i++ {
			t.Ops = append(t.Ops, c.rule(depth-1))
		}
		return t
	default:
		t := &c14Rule{Kind: "or"}
		for i, n := 0, c14NOps(r); i < n; i++ {
			t.Ops = append(t.Ops, c.rule(depth-1))
		}
		return t
	}
}

func c14Pick64(r *hx.Rng, xs []int64) int64 { return xs[r.Intn(len(xs))] }

func c14NOps(r *hx.Rng) int {
	if r.Chance(1, 60) {
		return 0
	}
	return r.Range(1, 4)
}

// ---------------------------------------------------------------- case lines

func c14DoIfLine(now int64, rule *c14Rule, ev *jt.Tree) string {
	root := c14Decode(ev.JSON())
	if root == nil {
		return ""
	}
	defer insaneJSON.Release(root)
	tb := &c14Tables{}
	tb.collect(rule, root)
	var sb strings.Builder
	sb.WriteString("c14.doif " + strconv.FormatInt(now, 10) + " " + tb.tok() + " ")
	rule.tok(&sb)
	sb.WriteString("E " + ev.Tok())
	return sb.String()
}

func c14MatchLine(mode string, invert bool, conds []*c14Cond, ev *jt.Tree) string {
	root := c14Decode(ev.JSON())
	if root == nil {
		return ""
	}
	defer insaneJSON.Release(root)
	var sb strings.Builder
	sb.WriteString("c14.match " + mode + " " + hx.B(invert) + " " + c14MatchTables(conds, root).reTok() + " " + strconv.Itoa(len(conds)) + " ")
	for _, c := range conds {
		c.tok(&sb)
	}
	sb.WriteString("E " + ev.Tok())
	return sb.String()
}

func c14Emit(w *bufio.Writer, line string) {
	if line != "" {
		w.WriteString(line)
		w.WriteByte('\n')
	}
}

// ---------------------------------------------------------------- exhaustive small scope

func c14SmallLeaves() []*c14Rule {
	alpha := [][]byte{[]byte("a"), []byte("B"), []byte("ab")}
	var lists [][][]byte
	for _, x := range alpha {
		lists = append(lists, [][]byte{x})
		for _, y := range alpha {
			lists = append(lists, [][]byte{x, y})
		}
	}
	var out []*c14Rule
	for _, op := range []string{"eq", "co", "pr", "su"} {
		for _, cs := range []bool{true, false} {
			for _, l := range lists {
				out = append(out, &c14Rule{Kind: "f", Op: op, CS: cs, Sel: "f", Path: [][]byte{[]byte("f")}, Vals: l})
			}
		}
	}
	return out
}

func c14SmallEvents() []*jt.Tree {
	vals := []*jt.Tree{nil, jt.N(), jt.S(""), jt.S("a"), jt.S("b"), jt.S("B"), jt.S("ab"), jt.S("Ab"), jt.S("ba"),
		jt.S("abab"), jt.Nu("7"), jt.A(), jt.O(jt.F("x", jt.Nu("1")))}
	var out []*jt.Tree
	for _, v := range vals {
		if v == nil {
			out = append(out, jt.O(jt.F("g", jt.S("a"))))
		} else {
			out = append(out, jt.O(jt.F("f", v)))
		}
	}
	return out
}

func c14Small(w *bufio.Writer, r *hx.Rng, tier string) {
	leaves := c14SmallLeaves()
	events := c14SmallEvents()
	emit := func(rule *c14Rule) {
		for _, ev := range events {
			c14Emit(w, c14DoIfLine(c14Epoch, rule, ev))
		}
	}
	for _, l := range leaves {
		emit(l)
		emit(&c14Rule{Kind: "not", Ops: []*c14Rule{l}})
	}
	if tier == "thorough" {
		// every depth-2 and/or tree over the leaf set
		for _, a := range leaves {
			for _, b := range leaves {
				emit(&c14Rule{Kind: "and", Ops: []*c14Rule{a, b}})
				emit(&c14Rule{Kind: "or", Ops: []*c14Rule{a, b}})
			}
		}
	} else {
		for i := 0; i < 1500; i++ {
			a, b := leaves[r.Intn(len(leaves))], leaves[r.Intn(len(leaves))]
			emit(&c14Rule{Kind: r.Pick([]string{"and", "or"}), Ops: []*c14Rule{a, b}})
		}
	}
}

// c14TypeLists: check_type with every value list of length 1..3 over the documented names AND
// aliases, in every order, repetitions and alias repetitions included (the constructor
// de-duplicates them through usedTypesMap), on every shape the field can have.
func c14TypeLists(w *bufio.Writer) {
	var lists [][][]byte
	for _, a := range c14TypeNames {
		lists = append(lists, [][]byte{[]byte(a)})
		for _, b := range c14TypeNames {
			lists = append(lists, [][]byte{[]byte(a), []byte(b)})
			for _, c := range c14TypeNames {
				lists = append(lists, [][]byte{[]byte(a), []byte(b), []byte(c)})
			}
		}
	}
	type shape struct {
		sel string
		ev  *jt.Tree
	}
	var shapes []shape
	for _, v := range []*jt.Tree{nil, jt.N(), jt.Bo(true), jt.Nu("1"), jt.S("s"), jt.S(""), jt.A(), jt.O(),
		jt.A(jt.N()), jt.O(jt.F("x", jt.N()))} {
		if v == nil {
			shapes = append(shapes, shape{"f", jt.O(jt.F("g", jt.N()))})
		} else {
			shapes = append(shapes, shape{"f", jt.O(jt.F("f", v))})
		}
	}
	// nested: o.x null / absent under an object / under a scalar; array element
	shapes = append(shapes,
		shape{"o.x", jt.O(jt.F("o", jt.O(jt.F("x", jt.N()))))},
		shape{"o.x", jt.O(jt.F("o", jt.O()))},
		shape{"o.x", jt.O(jt.F("o", jt.S("x")))},
		shape{"arr.0", jt.O(jt.F("arr", jt.A(jt.N(), jt.Nu("2"))))},
		shape{"", jt.O()})
	for _, sh := range shapes {
		var path [][]byte
		for _, x := range cfg.ParseFieldSelector(sh.sel) {
			path = append(path, []byte(x))
		}
		for _, l := range lists {
			c14Emit(w, c14DoIfLine(c14Epoch, &c14Rule{Kind: "y", Sel: sh.sel, Path: path, Vals: l}, sh.ev))
		}
	}
}

func (r *c14Rule) nowAims(acc []*c14Rule) []*c14Rule {
	if r.Kind == "t" && r.Mode == "n" && r.hasAim {
		acc = append(acc, r)
	}
	for _, o := range r.Ops {
		acc = o.nowAims(acc)
	}
	return acc
}

// c14TsBounds: ts_cmp in both modes, every cmp_op, value_shift from nanoseconds to days of both
// signs, with the event's timestamp one nanosecond below / on / above each bound that matters:
// the documented one (value [+ update_interval] + value_shift) and the ones a dropped value_shift
// or a dropped update_interval would give.
func c14TsBounds(w *bufio.Writer) {
	const lhs = c14Epoch // the event's ts field: 2024-01-02T03:04:05Z
	ev := jt.O(jt.F("ts", jt.S("2024-01-02T03:04:05Z")))
	shifts := []int64{0, 1, -1, int64(time.Second), -int64(time.Second), int64(time.Hour), -int64(time.Hour),
		int64(24 * time.Hour), -int64(24 * time.Hour), int64(72 * time.Hour)}
	for _, cmp := range []string{"lt", "le", "gt", "ge", "eq", "ne"} {
		for _, shift := range shifts {
			for _, interval := range []int64{int64(time.Hour), int64(10 * time.Hour)} {
				for _, drop := range []int64{0, shift, interval, shift + interval} { // which part a wrong rhs would lack
					for d := int64(-1); d <= 1; d++ {
						// now mode: now + interval + shift - drop = lhs + d
						tn := &c14Rule{Kind: "t", Sel: "ts", Path: [][]byte{[]byte("ts")}, Fmt: "rfc3339nano", Cmp: cmp,
							Mode: "n", Shift: shift, Interval: interval}
						c14Emit(w, c14DoIfLine(lhs+d-interval-shift+drop, tn, ev))
						// const mode: value + shift - drop' = lhs + d (update_interval plays no part)
						if drop == 0 || drop == shift {
							tc := &c14Rule{Kind: "t", Sel: "ts", Path: [][]byte{[]byte("ts")}, Fmt: "rfc3339nano", Cmp: cmp,
								Mode: "c", Shift: shift, Interval: interval, CVal: lhs + d - shift + drop}
							c14Emit(w, c14DoIfLine(c14Epoch, tc, ev))
						}
					}
				}
			}
		}
	}
}

// ---------------------------------------------------------------- match_fields

func c14MatchConds(r *hx.Rng, root *insaneJSON.Root) []*c14Cond {
	used := map[string]bool{}
	var conds []*c14Cond
	for i, n := 0, r.Range(0, 4); i < n; i++ {
		sel := r.Pick(c14Sels)
		if used[sel] {
			continue
		}
		used[sel] = true
		c := &c14Cond{Sel: sel}
		for _, p := range cfg.ParseFieldSelector(sel) {
			c.Path = append(c.Path, []byte(p))
		}
		var d []byte
		if n := root.Dig(c14Strs(c.Path)...); n != nil {
			d = []byte(n.AsString())
		}
		val := func() []byte {
			var v []byte
			switch {
			case d != nil && r.Chance(1, 2):
				switch r.Intn(4) {
				case 0:
					v = d
				case 1:
					v = d[:r.Range(0, len(d))]
				case 2:
					v = append(append([]byte{}, d...), 'x')
				default:
					v = d[r.Range(0, len(d)):]
				}
			case r.Chance(1, 10):
				v = []byte{}
			default:
				v = []byte(r.Pick(c14Pool))
			}
			if !utf8.Valid(v) {
				v = []byte("v")
			}
			return v
		}
		switch k := r.Intn(10); {
		case k < 3:
			c.Kind = "r"
			if len(d) > 0 && utf8.Valid(d) && r.Chance(1, 2) {
				i := r.Range(0, len(d))
				c.Vals = [][]byte{[]byte(regexp.QuoteMeta(string(d[i:r.Range(i, len(d))])))}
				if !utf8.Valid(c.Vals[0]) {
					c.Vals = [][]byte{[]byte(".")}
				}
			} else {
				c.Vals = [][]byte{[]byte(r.Pick(c14Regexes))}
			}
		case k < 5:
			c.Kind = "s"
			v := val()
			if len(v) > 0 && v[0] == '/' {
				v = []byte("s")
			}
			c.Vals = [][]byte{v}
		default:
			c.Kind = "v"
			for j, m := 0, r.Range(0, 3); j < m; j++ {
				c.Vals = append(c.Vals, val())
			}
		}
		conds = append(conds, c)
	}
	return conds
}

var c14Modes = []string{"and", "or", "and_prefix", "or_prefix", "default"}

func c14MatchSmall(w *bufio.Writer) {
	sel := func(s string) (string, [][]byte) { return s, [][]byte{[]byte(s)} }
	mk := func(s, kind string, vals ...string) *c14Cond {
		c := &c14Cond{Kind: kind}
		c.Sel, c.Path = sel(s)
		for _, v := range vals {
			c.Vals = append(c.Vals, []byte(v))
		}
		return c
	}
	fconds := []*c14Cond{mk("f", "v", "a"), mk("f", "v", "a", "ab"), mk("f", "s", "ab"), mk("f", "r", "^a"), mk("f", "r", "b$"), mk("f", "v"), mk("f", "s", "")}
	gconds := []*c14Cond{nil, mk("g", "v", "a"), mk("g", "r", "a"), mk("g", "s", "b")}
	vals := []*jt.Tree{nil, jt.S("a"), jt.S("ab"), jt.S("b"), jt.S(""), jt.N(), jt.A()}
	for _, mode := range c14Modes[:4] {
		for _, inv := range []bool{false, true} {
			for _, fc := range fconds {
				for _, gc := range gconds {
					conds := []*c14Cond{fc}
					if gc != nil {
						conds = append(conds, gc)
					}
					for _, fv := range vals {
						for _, gv := range vals[:4] {
							ev := jt.O()
							if fv != nil {
								ev.Obj = append(ev.Obj, jt.F("f", fv))
							}
							if gv != nil {
								ev.Obj = append(ev.Obj, jt.F("g", gv))
							}
							c14Emit(w, c14MatchLine(mode, inv, conds, ev))
						}
					}
				}
			}
		}
	}
}

// ---------------------------------------------------------------- JSON escapes and evaluation order

// c14Escapes: byte_len_cmp over a container that holds strings with JSON escapes, placed after
// leaves that may or may not have unescaped those strings, depending on the short-circuit order.
func c14Escapes(w *bufio.Writer, r *hx.Rng, n int) {
	esc := []string{"x\ny", "q\"", "a\\b", "\x00", "tab\t\t", "plain", "", "7", "line\n2\r\n"}
	keys := []string{"x", "y", "q\"k", "z"}
	mkPath := func(sel string) (string, [][]byte) {
		var path [][]byte
		for _, x := range cfg.ParseFieldSelector(sel) {
			path = append(path, []byte(x))
		}
		return sel, path
	}
	for i := 0; i < n; i++ {
		o := jt.O()
		for j, m := 0, r.Range(1, 3); j < m; j++ {
			o.Obj = append(o.Obj, jt.KV{K: []byte(keys[r.Intn(len(keys))]), V: jt.S(r.Pick(esc))})
		}
		arr := jt.A()
		for j, m := 0, r.Range(1, 3); j < m; j++ {
			if r.Chance(1, 5) {
				arr.Arr = append(arr.Arr, jt.A(jt.S(r.Pick(esc))))
			} else {
				arr.Arr = append(arr.Arr, jt.S(r.Pick(esc)))
			}
		}
		ev := jt.O(jt.F("o", o), jt.F("arr", arr), jt.F("c", jt.S(r.Pick([]string{"1", "0"}))))
		size := map[string]int{"o": len(o.JSON()), "arr": len(arr.JSON()), "": len(ev.JSON())}
		leaf := func() *c14Rule {
			switch r.Intn(6) {
			case 0, 1: // the measured leaf
				sel := r.Pick([]string{"o", "arr", "", "o", "arr"})
				l := &c14Rule{Kind: "l", LKind: "b", Cmp: r.Pick([]string{"eq", "ne", "lt", "ge", "le", "gt"}), IVal: int64(size[sel] - r.Range(0, 4))}
				l.Sel, l.Path = mkPath(sel)
				return l
			case 2: // the guard
				f := &c14Rule{Kind: "f", Op: "eq", CS: true, Vals: [][]byte{[]byte("1")}}
				f.Sel, f.Path = mkPath("c")
				return f
			default: // a leaf that reads (and thereby unescapes) a nested string
				sel := r.Pick([]string{"o.x", "o.y", "arr.0", "arr.1", "o.q\"k", "arr.0.0"})
				switch r.Intn(4) {
				case 0:
					f := &c14Rule{Kind: "f", Op: r.Pick([]string{"eq", "co", "pr"}), CS: true, Vals: [][]byte{[]byte(r.Pick(esc)), []byte("x")}}
					f.Sel, f.Path = mkPath(sel)
					return f
				case 1:
					l := &c14Rule{Kind: "l", LKind: r.Pick([]string{"b", "i"}), Cmp: r.Pick([]string{"lt", "ge"}), IVal: int64(r.Range(0, 8))}
					l.Sel, l.Path = mkPath(sel)
					return l
				case 2:
					t := &c14Rule{Kind: "t", Fmt: "rfc3339", Cmp: "lt", Mode: "c", CVal: c14Epoch, Interval: int64(time.Hour)}
					t.Sel, t.Path = mkPath(sel)
					return t
				default:
					y := &c14Rule{Kind: "y", Vals: [][]byte{[]byte("str")}}
					y.Sel, y.Path = mkPath(sel)
					return y
				}
			}
		}
		var tree func(d int) *c14Rule
		tree = func(d int) *c14Rule {
			if d == 0 || r.Chance(1, 3) {
				return leaf()
			}
			if r.Chance(1, 6) {
				return &c14Rule{Kind: "not", Ops: []*c14Rule{tree(d - 1)}}
			}
			t := &c14Rule{Kind: r.Pick([]string{"and", "or"})}
			for j, m := 0, r.Range(2, 3); j < m; j++ {
				t.Ops = append(t.Ops, tree(d-1))
			}
			return t
		}
		c14Emit(w, c14DoIfLine(c14Epoch, tree(r.Range(1, 3)), ev))
	}
}

// ---------------------------------------------------------------- generator

func genC14(w *bufio.Writer, r *hx.Rng, tier string) {
	// re-seed from a mixed output (kept from the time hx.NewRng gave consecutive seeds shifted
	// copies of one stream; harmless now that NewRng mixes the seed itself)
	r = hx.NewRng(r.U64() ^ 0xC14C14C14)
	nDoIf, nMatch := 40000, 15000
	if tier == "thorough" {
		nDoIf, nMatch = 450000, 120000
	}
	c14Small(w, r, tier)
	c14TypeLists(w)
	c14TsBounds(w)
	c14MatchSmall(w)
	c14Escapes(w, r, nDoIf/8)
	for i := 0; i < nDoIf; i++ {
		ev := c14Event(r, false)
		root := c14Decode(ev.JSON())
		if root == nil {
			continue
		}
		ctx := &c14Ctx{r: r, root: root}
		rule := ctx.rule(r.Range(0, 5))
		insaneJSON.Release(root)
		now := c14Epoch + c14Pick64(r, []int64{0, 1, -1, int64(time.Hour), -int64(time.Hour) * 3})
		// a now-mode ts_cmp leaf that parses its field: put `now` so that the field's timestamp sits
		// on (or one nanosecond off) the documented bound now + update_interval + value_shift, or on
		// the bound a forgotten value_shift / update_interval would give
		if aims := rule.nowAims(nil); len(aims) > 0 && r.Chance(3, 4) {
			t := aims[r.Intn(len(aims))]
			now = t.aimLhs - int64(r.Range(-1, 1))
			switch r.Intn(4) {
			case 0:
				now -= t.Interval // value_shift forgotten
			case 1:
				now -= t.Shift // update_interval forgotten
			default:
				now -= t.Interval + t.Shift
			}
		}
		c14Emit(w, c14DoIfLine(now, rule, ev))
	}
	for i := 0; i < nMatch; i++ {
		ev := c14Event(r, false)
		root := c14Decode(ev.JSON())
		if root == nil {
			continue
		}
		conds := c14MatchConds(r, root)
		insaneJSON.Release(root)
		c14Emit(w, c14MatchLine(r.Pick(c14Modes), r.Chance(1, 3), conds, ev))
	}
}

// ---------------------------------------------------------------- witnesses (corpus/C14/*.case)

func init() { gens["C14W"] = genC14Witnesses }

// genC14Witnesses prints the hand-picked witness cases kept in corpus/C14 (`# name` lines first).
func genC14Witnesses(w *bufio.Writer, _ *hx.Rng, _ string) {
	p := func(sel string) (string, [][]byte) {
		var path [][]byte
		for _, x := range cfg.ParseFieldSelector(sel) {
			path = append(path, []byte(x))
		}
		return sel, path
	}
	fop := func(op string, cs bool, sel string, vals ...any) *c14Rule {
		f := &c14Rule{Kind: "f", Op: op, CS: cs}
		f.Sel, f.Path = p(sel)
		for _, v := range vals {
			if v == nil {
				f.Vals = append(f.Vals, nil)
			} else {
				f.Vals = append(f.Vals, []byte(v.(string)))
			}
		}
		return f
	}
	blen := func(sel, cmp string, v int64) *c14Rule {
		l := &c14Rule{Kind: "l", LKind: "b", Cmp: cmp, IVal: v}
		l.Sel, l.Path = p(sel)
		return l
	}
	cond := func(sel, kind string, vals ...string) *c14Cond {
		c := &c14Cond{Kind: kind}
		c.Sel, c.Path = p(sel)
		for _, v := range vals {
			c.Vals = append(c.Vals, []byte(v))
		}
		return c
	}
	obj := func(kvs ...jt.KV) *jt.Tree { return jt.O(kvs...) }
	note := func(s string) { w.WriteString("# " + s + "\n") }

	note("(a) match_fields mode and with a regexp condition: the documentation's own example (pipeline/README.md), must match")
	doc := []*c14Cond{cond("k8s_namespace", "v", "payment", "tarifficator"), cond("k8s_pod", "r", "^payment-api.*")}
	c14Emit(w, c14MatchLine("and", false, doc, obj(jt.F("k8s_namespace", jt.S("payment")), jt.F("k8s_pod", jt.S("payment-api-abcd")))))
	c14Emit(w, c14MatchLine("and", false, doc, obj(jt.F("k8s_namespace", jt.S("tarifficator")), jt.F("k8s_pod", jt.S("no-payment-api")))))
	note("(a) and_prefix with a single regexp condition, plain and inverted")
	c14Emit(w, c14MatchLine("and_prefix", false, []*c14Cond{cond("f", "r", "^a")}, obj(jt.F("f", jt.S("ab")))))
	c14Emit(w, c14MatchLine("and_prefix", true, []*c14Cond{cond("f", "r", "^a")}, obj(jt.F("f", jt.S("ab")))))

	note("(b) case-insensitive equal: value k, field U+212A KELVIN SIGN (lower-cases to k, 3 bytes -> 1)")
	c14Emit(w, c14DoIfLine(c14Epoch, fop("eq", false, "f", "k"), obj(jt.F("f", jt.S("\u212a")))))
	note("(b) case-insensitive equal: value U+212A, field k")
	c14Emit(w, c14DoIfLine(c14Epoch, fop("eq", false, "f", "\u212a"), obj(jt.F("f", jt.S("k")))))
	note("(b) case-insensitive prefix: value U+023A (2 bytes, lower-cases to the 3-byte U+2C65), field U+2C65 x")
	c14Emit(w, c14DoIfLine(c14Epoch, fop("pr", false, "f", "\u023a"), obj(jt.F("f", jt.S("\u2c65x")))))
	note("(b) case-insensitive prefix: value U+FFFD, field U+1F600: truncation splits the rune, ToLower turns the pieces into U+FFFD")
	c14Emit(w, c14DoIfLine(c14Epoch, fop("pr", false, "f", "\ufffd"), obj(jt.F("f", jt.S("\U0001F600")))))
	note("(b) case-insensitive suffix / contains: value k, field x U+212A")
	c14Emit(w, c14DoIfLine(c14Epoch, fop("su", false, "f", "\u212a"), obj(jt.F("f", jt.S("xk")))))
	c14Emit(w, c14DoIfLine(c14Epoch, fop("co", false, "f", "\u212a\u212a"), obj(jt.F("f", jt.S("kk")))))

	note("(c) arrays and objects are documented as not matched; Get yields one NUL byte")
	c14Emit(w, c14DoIfLine(c14Epoch, fop("co", true, "f", ""), obj(jt.F("f", jt.O()))))
	c14Emit(w, c14DoIfLine(c14Epoch, fop("pr", true, "f", ""), obj(jt.F("f", jt.A(jt.Nu("1"))))))
	c14Emit(w, c14DoIfLine(c14Epoch, fop("su", true, "f", nil), obj(jt.F("f", jt.A()))))
	c14Emit(w, c14DoIfLine(c14Epoch, fop("re", true, "f", ".*"), obj(jt.F("f", jt.O(jt.F("x", jt.Nu("1")))))))
	c14Emit(w, c14DoIfLine(c14Epoch, fop("eq", true, "f", "\x00"), obj(jt.F("f", jt.O()))))
	c14Emit(w, c14DoIfLine(c14Epoch, fop("ca", true, "", "\x00"), obj(jt.F("f", jt.S("x")))))

	note("(d) byte_len_cmp over a container depends on whether an earlier node unescaped a nested string: the rule's documented answer is true for both events (o is 12 bytes); c=1 makes the and-branch read o.x first")
	order := &c14Rule{Kind: "or", Ops: []*c14Rule{
		{Kind: "and", Ops: []*c14Rule{fop("eq", true, "c", "1"), fop("eq", true, "o.x", "zz")}},
		blen("o", "eq", 12)}}
	c14Emit(w, c14DoIfLine(c14Epoch, order, obj(jt.F("o", jt.O(jt.F("x", jt.S("a\nb")))), jt.F("c", jt.S("0")))))
	c14Emit(w, c14DoIfLine(c14Epoch, order, obj(jt.F("o", jt.O(jt.F("x", jt.S("a\nb")))), jt.F("c", jt.S("1")))))
	note("(f) byte_len_cmp counts a field name by its decoded length: {\"q\\\"k\":1} is 10 bytes")
	c14Emit(w, c14DoIfLine(c14Epoch, blen("f", "eq", 10), obj(jt.F("f", jt.O(jt.F("q\"k", jt.Nu("1")))))))

	note("(e) byte_len_cmp: an empty array / object is 2 bytes")
	c14Emit(w, c14DoIfLine(c14Epoch, blen("f", "eq", 2), obj(jt.F("f", jt.A()))))
	c14Emit(w, c14DoIfLine(c14Epoch, blen("f", "eq", 2), obj(jt.F("f", jt.O()))))
	c14Emit(w, c14DoIfLine(c14Epoch, blen("f", "lt", 9), obj(jt.F("f", jt.A(jt.A(), jt.O(), jt.A())))))
	c14Emit(w, c14DoIfLine(c14Epoch, blen("", "ge", 8), obj(jt.F("f", jt.O()))))
}
