package main

import (
	"bufio"
	"fmt"
	"runtime"
	"sort"
	"strconv"
	"strings"
	"sync"
	"time"

	"github.com/ozontech/file.d/cfg"
	"github.com/ozontech/file.d/pipeline"
	"github.com/ozontech/file.d/pipeline/metadata"
	"github.com/ozontech/file.d/plugin/input/kafka"
	"github.com/prometheus/client_golang/prometheus"
	"go.uber.org/zap"
	"go.uber.org/zap/zapcore"

	"verifharness/internal/hx"
)

// c10.live <procs> <ntopics> <name>… <nrec> (<name> <part> <offset> <epoch> <kind>)… <nfinish> <i>…
//
// Everything real: a real pipeline whose input is the real kafka plugin (started by pipeline.Start),
// the in-process group broker of c10.stop serving the records, a harness output that holds every
// event; the records of the finish list are acknowledged through the real pipeline.Commit, then the
// real pipeline.Stop (→ Plugin.Stop). kind: 0 ordinary JSON, 1 tombstone (empty value), 2 malformed
// JSON — the pipeline refuses 1 and 2 in In (EventSeqIDError): no event, never acknowledged.
// Result: what In received and answered per record, sorted by (sourceID, offset) because a refused
// record cannot be identified otherwise; the client's marks before the stop; the regress flag and the
// offsets the broker holds after the stop:
//   <nrec> (<sourceID> <offset> <accepted>)… <nacked> <i>… <k> marks… <regress> <k> committed…
// (<i>… = the records really acknowledged, in order: a finish-listed record queued behind a held one
// may never reach the output — see the wait loop)

func init() {
	execs["c10.live"] = execC10Live
}

type c10LiveIn struct {
	sid uint64
	off int64
	acc bool
}

type c10LiveRun struct {
	mu     sync.Mutex
	ins    []c10LiveIn
	held   map[int]*pipeline.Event
	finish map[int]bool
	acked  []int
	ctl    pipeline.OutputPluginController
}

type c10LiveCtl struct {
	pipeline.InputPluginController
	h *c10LiveRun
}

func (c *c10LiveCtl) In(sourceID pipeline.SourceID, sourceName string, offsets pipeline.Offsets, data []byte, isNew bool, meta metadata.MetaData) uint64 {
	seq := c.InputPluginController.In(sourceID, sourceName, offsets, data, isNew, meta)
	c.h.mu.Lock()
	c.h.ins = append(c.h.ins, c10LiveIn{uint64(sourceID), pipeline.VerifOffsetsCurrent(offsets), seq != pipeline.EventSeqIDError})
	c.h.mu.Unlock()
	return seq
}

// c10LiveInput is the real plugin; only the controller it is started with is wrapped.
type c10LiveInput struct {
	*kafka.Plugin
	h *c10LiveRun
}

func (m *c10LiveInput) Start(config pipeline.AnyConfig, params *pipeline.InputPluginParams) {
	wrapped := *params
	wrapped.Controller = &c10LiveCtl{InputPluginController: params.Controller, h: m.h}
	m.Plugin.Start(config, &wrapped)
}

type c10LiveOutput struct{ h *c10LiveRun }

func (o *c10LiveOutput) Start(_ pipeline.AnyConfig, params *pipeline.OutputPluginParams) {
	o.h.ctl = params.Controller
}
func (o *c10LiveOutput) Stop() {}

// Out acknowledges the records of the finish list at once (like an output that writes
// synchronously) and keeps every other event unacknowledged for the rest of the run.
func (o *c10LiveOutput) Out(e *pipeline.Event) {
	i := e.Root.Dig("i").AsInt()
	o.h.mu.Lock()
	fin := o.h.finish[i]
	if !fin {
		o.h.held[i] = e
	}
	o.h.mu.Unlock()
	if fin {
		o.h.ctl.Commit(e)
		o.h.mu.Lock()
		o.h.acked = append(o.h.acked, i)
		o.h.mu.Unlock()
	}
}

func execC10Live(t *hx.Toks) string {
	procs := t.Int()
	nt := t.Int()
	if t.Err != nil || nt < 1 || nt > 64 || procs < 1 || (procs > 1 && procs%2 == 1) || procs > 16 {
		return "bad-case"
	}
	var names []int
	for i := 0; i < nt && t.Err == nil; i++ {
		names = append(names, t.Int())
	}
	nrec := t.Int()
	if t.Err != nil || nrec < 0 || nrec > 200 {
		return "bad-case"
	}
	var recs []c10Rec
	for i := 0; i < nrec && t.Err == nil; i++ {
		recs = append(recs, c10Rec{topic: t.Int(), part: c10Int32(t), off: t.Int64(), epoch: c10Int32(t), kind: t.Int()})
	}
	nf := t.Int()
	var finish []int
	for i := 0; i < nf && t.Err == nil; i++ {
		finish = append(finish, t.Int())
	}
	if t.Err != nil || !t.Done() {
		return "bad-case"
	}
	configured := map[int]bool{}
	var topics []string
	for _, n := range names {
		if n < 0 || n > 1000 {
			return "bad-case"
		}
		configured[n] = true
		topics = append(topics, "t"+strconv.Itoa(n))
	}
	log := map[c10TP][]c10LogRec{}
	ordinary := 0
	for i, r := range recs {
		k := c10TP{"t" + strconv.Itoa(r.topic), r.part}
		if !configured[r.topic] || r.part < 0 || r.part > 63 || r.off < 0 || r.epoch < 0 || r.kind < 0 || r.kind > 2 ||
			(len(log[k]) > 0 && log[k][len(log[k])-1].off >= r.off) {
			return "bad-case"
		}
		var value []byte
		switch r.kind {
		case 0:
			value = []byte(fmt.Sprintf(`{"i":%d}`, i))
			ordinary++
		case 1: // tombstone
		case 2:
			value = []byte(fmt.Sprintf(`{"i":%d`, i))
		}
		log[k] = append(log[k], c10LogRec{r.off, r.epoch, value})
	}
	seenF := map[int]bool{}
	for _, i := range finish {
		if i < 0 || i >= len(recs) || seenF[i] || recs[i].kind != 0 {
			return "bad-case"
		}
		seenF[i] = true
	}

	broker, err := newC10Broker(topics, log)
	if err != nil {
		return "err-listen"
	}
	defer broker.ln.Close()
	config := &kafka.Config{Brokers: []string{broker.ln.Addr().String()}, Topics: topics, ConsumerGroup: "verif-c10",
		Offset: "oldest", AutoCommitInterval: "1h"}
	if err := cfg.SetDefaultValues(config); err != nil {
		return "err-config"
	}
	if err := cfg.Parse(config, nil); err != nil {
		return "err-config"
	}

	h := &c10LiveRun{held: map[int]*pipeline.Event{}, finish: seenF}
	settings := &pipeline.Settings{
		Capacity:            256,
		Pool:                pipeline.PoolTypeStd,
		MaintenanceInterval: 200 * time.Millisecond,
		EventTimeout:        pipeline.DefaultEventTimeout,
		Antispam:            pipeline.AntispamSettings{Threshold: pipeline.DefaultAntispamThreshold, MaintenanceInterval: 200 * time.Millisecond},
		AvgEventSize:        128,
		MetaCacheSize:       8,
		StreamField:         "stream",
		Decoder:             "json",
		Metric: &pipeline.MetricSettings{
			HoldDuration:        pipeline.DefaultMetricHoldDuration,
			MaxLabelValueLength: pipeline.DefaultMetricMaxLabelValueLength,
		},
	}
	// Start ends the process through logger.Fatal when the broker cannot be reached: panic instead
	lg := zap.New(zapcore.NewNopCore(), zap.WithFatalHook(zapcore.WriteThenPanic))
	p := pipeline.New("c10live", settings, prometheus.NewRegistry(), lg)
	in := &c10LiveInput{Plugin: &kafka.Plugin{}, h: h}
	p.SetInput(&pipeline.InputPluginInfo{
		PluginStaticInfo:  &pipeline.PluginStaticInfo{Type: "kafka", Config: config},
		PluginRuntimeInfo: &pipeline.PluginRuntimeInfo{Plugin: in},
	})
	p.SetOutput(&pipeline.OutputPluginInfo{
		PluginStaticInfo:  &pipeline.PluginStaticInfo{Type: "c10hold"},
		PluginRuntimeInfo: &pipeline.PluginRuntimeInfo{Plugin: &c10LiveOutput{h: h}},
	})
	if procs == 1 {
		p.DisableParallelism()
		p.Start()
	} else {
		old := runtime.GOMAXPROCS(procs / 2)
		p.Start()
		runtime.GOMAXPROCS(old)
	}
	stopped := false
	stop := func() {
		if !stopped {
			stopped = true
			p.Stop() // stops the processors, then the real Plugin.Stop
		}
	}
	defer stop()

	// Wait until every record was handed to In and the pipeline is quiet. An event can stay inside the
	// pipeline for good: a stream whose processor left while its last event is unacknowledged hands out
	// nothing until that event is committed, and the held events never are. Such records are simply
	// unfinished at the stop; the result says which records were really acknowledged.
	deadline := time.Now().Add(30 * time.Second)
	last, stable := -1, 0
	for {
		h.mu.Lock()
		nin, nout := len(h.ins), len(h.held)+len(h.acked)
		h.mu.Unlock()
		if nin >= len(recs) {
			if nout >= ordinary {
				break
			}
			if nout == last {
				stable++
			} else {
				last, stable = nout, 0
			}
			if stable >= 30 {
				break
			}
		}
		if time.Now().After(deadline) {
			return fmt.Sprintf("stuck-consume:%d:%d", nin, nout)
		}
		time.Sleep(100 * time.Microsecond)
	}
	marks := c10Marks(kafka.VerifClient(in.Plugin))
	stop()

	h.mu.Lock()
	ins := append([]c10LiveIn(nil), h.ins...)
	h.mu.Unlock()
	sort.Slice(ins, func(i, j int) bool {
		if ins[i].sid != ins[j].sid {
			return ins[i].sid < ins[j].sid
		}
		return ins[i].off < ins[j].off
	})
	var sb strings.Builder
	sb.WriteString(strconv.Itoa(len(ins)))
	for _, x := range ins {
		fmt.Fprintf(&sb, " %d %d %s", x.sid, x.off, hx.B(x.acc))
	}
	h.mu.Lock()
	acked := append([]int(nil), h.acked...)
	h.mu.Unlock()
	fmt.Fprintf(&sb, " %d", len(acked))
	for _, i := range acked {
		fmt.Fprintf(&sb, " %d", i)
	}
	sb.WriteString(" " + marks)
	sb.WriteString(" " + broker.result())
	return sb.String()
}

// result: "<regress> <k> (<name> <part> <epoch> <offset>)*k" — what the broker holds
func (b *c10Broker) result() string {
	b.mu.Lock()
	defer b.mu.Unlock()
	type row struct {
		t int
		p int32
		e int32
		o int64
	}
	var rows []row
	for k, c := range b.committed {
		ti := -1
		if v, err := strconv.Atoi(strings.TrimPrefix(k.t, "t")); err == nil {
			ti = v
		}
		rows = append(rows, row{ti, k.p, c.epoch, c.off})
	}
	sort.Slice(rows, func(i, j int) bool {
		if rows[i].t != rows[j].t {
			return rows[i].t < rows[j].t
		}
		return rows[i].p < rows[j].p
	})
	var sb strings.Builder
	fmt.Fprintf(&sb, "%s %d", hx.B(b.regress), len(rows))
	for _, r := range rows {
		fmt.Fprintf(&sb, " %d %d %d %d", r.t, r.p, r.e, r.o)
	}
	return sb.String()
}

func c10LiveLine(w *bufio.Writer, procs int, names []int, recs []c10Rec, finish []int) {
	fmt.Fprintf(w, "c10.live %d %d", procs, len(names))
	for _, n := range names {
		fmt.Fprintf(w, " %d", n)
	}
	fmt.Fprintf(w, " %d", len(recs))
	for _, r := range recs {
		fmt.Fprintf(w, " %d %d %d %d %d", r.topic, r.part, r.off, r.epoch, r.kind)
	}
	fmt.Fprintf(w, " %d", len(finish))
	for _, i := range finish {
		fmt.Fprintf(w, " %d", i)
	}
	w.WriteByte('\n')
}

// genC10Live: one partition, every sequence of kinds up to length 2 (thorough 3) with every subset of
// the ordinary records finished; then random record sets over several topics / partitions with
// refused records sprinkled in and a prefix / subset / all / none of the ordinary ones finished.
func genC10Live(w *bufio.Writer, rng *hx.Rng, thorough bool) {
	maxN := 2
	if thorough {
		maxN = 3
	}
	for n := 1; n <= maxN; n++ {
		total := 1
		for i := 0; i < n; i++ {
			total *= 3
		}
		for code := 0; code < total; code++ {
			recs := make([]c10Rec, n)
			var ord []int
			c := code
			for i := range recs {
				recs[i] = c10Rec{topic: 0, part: 0, off: int64(5 + i), epoch: 1, kind: c % 3}
				c /= 3
				if recs[i].kind == 0 {
					ord = append(ord, i)
				}
			}
			for mask := 0; mask < 1<<len(ord); mask++ {
				var fin []int
				for j, i := range ord {
					if mask&(1<<j) != 0 {
						fin = append(fin, i)
					}
				}
				c10LiveLine(w, []int{1, 2}[(code+mask)%2], []int{0}, recs, fin)
			}
		}
	}
	nrand := 80
	if thorough {
		nrand = 1000
	}
	for i := 0; i < nrand; i++ {
		nnames := rng.Range(1, 3)
		names := make([]int, nnames)
		for j := range names {
			names[j] = j
		}
		recs := c10GenRecs(rng, nnames, rng.Range(1, 3), rng.Range(1, 12), false)
		for j := range recs {
			recs[j].part %= 3
			if rng.Chance(1, 4) {
				recs[j].kind = rng.Range(1, 2)
			}
		}
		recs = c10FixOrder(recs)
		var ord []int
		for j, r := range recs {
			if r.kind == 0 {
				ord = append(ord, j)
			}
		}
		var fin []int
		switch rng.Intn(4) {
		case 0:
			fin = ord
		case 1:
			fin = ord[:rng.Intn(len(ord)+1)]
		case 2:
		default:
			for _, j := range ord {
				if rng.Bool() {
					fin = append(fin, j)
				}
			}
		}
		c10LiveLine(w, []int{1, 2, 4}[rng.Intn(3)], names, recs, fin)
	}
}
