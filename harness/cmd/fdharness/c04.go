package main

// C04 / C05 — gated, sequential schedules on the two real event pools.
//
// case:   c04.pool <kind:std|lowmem> <cap> <nreaders> <op>…          (c05.gated: same format)
//   ops:  g<r>  reader r calls get()            G<r>  same, and r stops at the gate between the
//         r<r>  release r's gate (it enters Cond.Wait)  availability check and Cond.Wait
//         b<r>  reader r returns its event      h     wait further heartbeat rounds
//         k<r>  reader r changes the kind of the event it holds to child-parent (processor.Spawn)
// result: one block per executed op (ops that do not apply to the reader's status are dropped):
//         <op> (o <r> got <ev> | o <r> gate | o <r> wait | o <r> spin)… i <inUse> <slowWaiters> <condWaiters> ;
// Every block is observed after the pool's (shortened) heartbeat had time to run at least twice and
// the pool is quiescent, so a block is "op; heartbeat; everything runnable has run".

import (
	"bufio"
	"fmt"
	"runtime"
	"strconv"
	"strings"
	"sync"
	"time"

	"github.com/ozontech/file.d/pipeline"

	"verifharness/internal/hx"
)

func init() {
	execs["c04.pool"] = execPoolGated
	execs["c05.gated"] = execPoolGated
	gens["C04"] = genC04
}

const poolWakeup = time.Millisecond

func goidC04() int64 {
	var buf [64]byte
	n := runtime.Stack(buf[:], false)
	f := strings.Fields(string(buf[:n]))
	if len(f) < 2 {
		return -1
	}
	id, _ := strconv.ParseInt(f[1], 10, 64)
	return id
}

type poolReader struct {
	id      int
	cmd     chan string
	ev      *pipeline.Event
	st      string // idle | run | got | gate | back
	armed   bool
	release chan struct{}
	ticket  int // standard pool: the reader's get ticket (order of the get ops)
}

type poolRun struct {
	v       *pipeline.VerifPool
	kind    string
	nohb    bool
	cap     int
	mu      sync.Mutex
	readers []*poolReader
	goids   map[int64]*poolReader
	tickets int
}

var curPoolRun *poolRun
var curPoolRunMu sync.Mutex

func poolGate(point string, a, b uint64) {
	if !strings.HasPrefix(point, "pool.") {
		return
	}
	curPoolRunMu.Lock()
	run := curPoolRun
	curPoolRunMu.Unlock()
	if run == nil {
		return
	}
	id := goidC04()
	run.mu.Lock()
	r := run.goids[id]
	if r == nil || !r.armed {
		run.mu.Unlock()
		return
	}
	r.armed = false
	r.st = "gate"
	ch := r.release
	run.mu.Unlock()
	<-ch
	run.mu.Lock()
	r.st = "run"
	run.mu.Unlock()
}

func newPoolRun(kind string, capacity, n int) *poolRun {
	run := &poolRun{kind: kind, cap: capacity, goids: map[int64]*poolReader{}}
	wake := poolWakeup
	if strings.HasSuffix(kind, "-nohb") {
		// heartbeat practically off: whatever resumes a reader must come from back() itself
		run.nohb = true
		run.kind = strings.TrimSuffix(kind, "-nohb")
		wake = time.Hour
	}
	run.v = pipeline.VerifNewPool(run.kind, capacity, wake)
	ready := make(chan struct{})
	for i := 0; i < n; i++ {
		r := &poolReader{id: i, cmd: make(chan string, 1), st: "idle"}
		run.readers = append(run.readers, r)
		go func() {
			run.mu.Lock()
			run.goids[goidC04()] = r
			run.mu.Unlock()
			ready <- struct{}{}
			for c := range r.cmd {
				switch c {
				case "get":
					e := run.v.Get(1)
					run.mu.Lock()
					r.ev, r.st, r.armed = e, "got", false
					run.mu.Unlock()
				case "back":
					run.mu.Lock()
					e := r.ev
					r.ev = nil
					run.mu.Unlock()
					run.v.Back(e)
					run.mu.Lock()
					r.st = "idle"
					run.mu.Unlock()
				}
			}
		}()
	}
	for i := 0; i < n; i++ {
		<-ready
	}
	curPoolRunMu.Lock()
	curPoolRun = run
	curPoolRunMu.Unlock()
	pipeline.VerifSetGate(poolGate)
	return run
}

type poolSnap struct {
	sts           []string
	evs           []int
	inUse, sw, cw int
	slots         string
}

func (s poolSnap) eq(o poolSnap) bool {
	if s.slots != o.slots || s.inUse != o.inUse || s.sw != o.sw || s.cw != o.cw || len(s.sts) != len(o.sts) {
		return false
	}
	for i := range s.sts {
		if s.sts[i] != o.sts[i] || s.evs[i] != o.evs[i] {
			return false
		}
	}
	return true
}

func (run *poolRun) snap() poolSnap {
	var s poolSnap
	run.mu.Lock()
	for _, r := range run.readers {
		s.sts = append(s.sts, r.st)
		ev := -1
		if r.st == "got" && r.ev != nil {
			ev = run.v.EventIndex(r.ev)
		}
		s.evs = append(s.evs, ev)
	}
	run.mu.Unlock()
	s.inUse = int(run.v.InUseRaw())
	s.sw = int(run.v.Waiters())
	s.cw = run.v.CondWaiters()
	s.slots = run.v.Slots()
	return s
}

// looksWedged: a reader sits in Cond.Wait although an event it could take is there — the state the
// pool's heartbeat (or back's Broadcast) has to repair. Whether it persists is what the oracle judges, so
// such a snapshot is accepted only after a long grace period (a delayed heartbeat goroutine on a loaded
// machine must not look like a wedge).
func (run *poolRun) looksWedged(s poolSnap) bool {
	if s.cw == 0 || s.inUse >= run.cap {
		return false
	}
	if run.kind != "std" {
		return true
	}
	slots := strings.Split(s.slots, ",")
	run.mu.Lock()
	defer run.mu.Unlock()
	for i, st := range s.sts {
		if st == "gate" {
			return false
		}
		if st == "run" {
			x := run.readers[i].ticket % run.cap
			if x < len(slots) && strings.HasPrefix(slots[x], "1") {
				return true
			}
		}
	}
	return false
}

// settle waits for heartbeat rounds and then for a stable, explainable snapshot. Everything is a
// condition with a generous deadline; a snapshot that could still be repaired by a late heartbeat is
// given seconds, not milliseconds.
func (run *poolRun) settle() (poolSnap, bool) {
	if run.nohb {
		time.Sleep(300 * time.Microsecond)
	} else {
		time.Sleep(3 * poolWakeup)
	}
	start := time.Now()
	deadline := start.Add(6 * time.Second)
	grace := start.Add(3 * time.Second)
	var prev poolSnap
	stable := 0
	for {
		s := run.snap()
		unresolved, gate := 0, 0
		for _, st := range s.sts {
			switch st {
			case "run":
				unresolved++
			case "gate":
				gate++
			}
		}
		ok := s.sw == gate+unresolved && s.cw <= unresolved && (gate > 0 || s.cw == unresolved)
		if ok && stable > 0 && s.eq(prev) {
			stable++
		} else if ok {
			stable = 1
		} else {
			stable = 0
		}
		prev = s
		if stable >= 4 && (!run.looksWedged(s) || time.Now().After(grace)) {
			return s, true
		}
		if time.Now().After(deadline) {
			return s, false
		}
		time.Sleep(250 * time.Microsecond)
	}
}

func (run *poolRun) dup() bool {
	run.mu.Lock()
	defer run.mu.Unlock()
	seen := map[*pipeline.Event]bool{}
	for _, r := range run.readers {
		if r.st == "got" && r.ev != nil {
			if seen[r.ev] {
				return true
			}
			seen[r.ev] = true
		}
	}
	return false
}

func (run *poolRun) block(sb *strings.Builder, op string) {
	s, ok := run.settle()
	sb.WriteString(op)
	for i, st := range s.sts {
		switch st {
		case "got":
			fmt.Fprintf(sb, " o %d got %d", i, s.evs[i])
		case "gate":
			fmt.Fprintf(sb, " o %d gate", i)
		case "run":
			fmt.Fprintf(sb, " o %d wait", i)
		case "back":
			fmt.Fprintf(sb, " o %d spin", i)
		}
	}
	if run.dup() {
		sb.WriteString(" dup")
	}
	if !ok {
		sb.WriteString(" unsettled")
	}
	if run.kind == "std" {
		fmt.Fprintf(sb, " s %s", s.slots)
	}
	fmt.Fprintf(sb, " i %d %d %d ; ", s.inUse, s.sw, s.cw)
}

// apply executes one script op if it applies; returns false when it was dropped.
func (run *poolRun) apply(op string) bool {
	if op == "h" {
		return true
	}
	if len(op) < 2 {
		return false
	}
	id, err := strconv.Atoi(op[1:])
	if err != nil || id < 0 || id >= len(run.readers) {
		return false
	}
	r := run.readers[id]
	run.mu.Lock()
	st := r.st
	switch op[0] {
	case 'g', 'G':
		if st != "idle" {
			run.mu.Unlock()
			return false
		}
		if op[0] == 'G' {
			// one armed reader at a time: which of two readers blocked on the pool mutex reaches
			// the gate first is the runtime's choice and would make the observation ambiguous
			for _, q := range run.readers {
				if q.armed || q.st == "gate" {
					run.mu.Unlock()
					return false
				}
			}
		}
		r.st = "run"
		r.ticket = run.tickets
		run.tickets++
		r.armed = op[0] == 'G'
		r.release = make(chan struct{})
		run.mu.Unlock()
		r.cmd <- "get"
	case 'r':
		if st != "gate" {
			run.mu.Unlock()
			return false
		}
		ch := r.release
		run.mu.Unlock()
		close(ch)
		// the reader leaves the gate and enters Cond.Wait; wait until it left the gate status
		for i := 0; i < 4000; i++ {
			run.mu.Lock()
			left := r.st != "gate"
			run.mu.Unlock()
			if left {
				break
			}
			time.Sleep(50 * time.Microsecond)
		}
	case 'k':
		// the holder turns its event into a split parent, as processor.Spawn does
		if st != "got" || r.ev == nil {
			run.mu.Unlock()
			return false
		}
		r.ev.SetChildParentKind()
		run.mu.Unlock()
	case 'b':
		if st != "got" {
			run.mu.Unlock()
			return false
		}
		r.st = "back"
		run.mu.Unlock()
		r.cmd <- "back"
	default:
		run.mu.Unlock()
		return false
	}
	return true
}

// finish tries to bring every reader home (so no goroutine is left behind on a healthy pool).
func (run *poolRun) finish() {
	for round := 0; round < 40; round++ {
		busy := false
		run.mu.Lock()
		type act struct {
			r  *poolReader
			op byte
		}
		var acts []act
		for _, r := range run.readers {
			switch r.st {
			case "gate":
				acts = append(acts, act{r, 'r'})
				busy = true
			case "got":
				acts = append(acts, act{r, 'b'})
				busy = true
			case "run", "back":
				busy = true
			}
			r.armed = false
		}
		run.mu.Unlock()
		if !busy {
			break
		}
		for _, a := range acts {
			run.apply(string(a.op) + strconv.Itoa(a.r.id))
		}
		time.Sleep(3 * poolWakeup)
	}
	pipeline.VerifSetGate(nil)
	curPoolRunMu.Lock()
	curPoolRun = nil
	curPoolRunMu.Unlock()
	run.v.Stop()
	run.mu.Lock()
	for _, r := range run.readers {
		if r.st == "idle" {
			close(r.cmd)
		}
	}
	run.mu.Unlock()
}

func execPoolGated(t *hx.Toks) string {
	kind := t.Next()
	capacity := t.Int()
	n := t.Int()
	base := strings.TrimSuffix(kind, "-nohb")
	if t.Err != nil || (base != "std" && base != "lowmem") || capacity < 1 || capacity > 64 || n < 1 || n > 64 {
		return "bad-case"
	}
	var ops []string
	for !t.Done() {
		ops = append(ops, t.Next())
	}
	run := newPoolRun(kind, capacity, n)
	defer run.finish()
	var sb strings.Builder
	for _, op := range ops {
		if run.apply(op) {
			run.block(&sb, op)
		}
	}
	return strings.TrimSpace(sb.String())
}

func genC04(w *bufio.Writer, rng *hx.Rng, tier string) {
	genPoolGated(w, rng, tier, "c04.pool")
	genStreams(w, rng, tier)
}

func genPoolGated(w *bufio.Writer, rng *hx.Rng, tier, cmd string) {
	nrand := 150
	if tier == "thorough" {
		nrand = 2000
	}
	kinds := []string{"lowmem", "std"}
	// the lost-wake-up window, every capacity 1..4, both pools
	for _, k := range kinds {
		for c := 1; c <= 4; c++ {
			var ops []string
			for i := 0; i < c; i++ {
				ops = append(ops, fmt.Sprintf("g%d", i))
			}
			ops = append(ops, fmt.Sprintf("G%d", c), "b0", fmt.Sprintf("r%d", c), "h", "h", fmt.Sprintf("b%d", c))
			fmt.Fprintf(w, "%s %s %d %d %s\n", cmd, k, c, c+1, strings.Join(ops, " "))
		}
	}
	// two full episodes with idle heartbeat ticks in between: the heartbeat has to be alive for the
	// lifetime of the pool, not only for the first time readers wait. Episode 1: fill, one (or two)
	// slow-path gets served normally by back; everything returned; k ticks with nobody waiting;
	// episode 2: fill, the gated lost-wake-up window, ticks.
	for _, k := range kinds {
		for c := 1; c <= 3; c++ {
			for idle := 1; idle <= 3; idle += 2 {
				for extra := 1; extra <= 2; extra++ {
					var ops []string
					for i := 0; i < c; i++ {
						ops = append(ops, fmt.Sprintf("g%d", i))
					}
					for e := 0; e < extra; e++ {
						ops = append(ops, fmt.Sprintf("g%d", c+e)) // parks: slow path, heartbeat started
					}
					for i := 0; i < c+extra; i++ {
						ops = append(ops, fmt.Sprintf("b%d", i)) // waiters are served one by one
					}
					for i := 0; i < idle; i++ {
						ops = append(ops, "h")
					}
					for i := 0; i < c; i++ {
						ops = append(ops, fmt.Sprintf("g%d", i))
					}
					ops = append(ops, fmt.Sprintf("G%d", c), "b0", fmt.Sprintf("r%d", c), "h", "h", "h", fmt.Sprintf("b%d", c))
					fmt.Fprintf(w, "%s %s %d %d %s\n", cmd, k, c, c+extra, strings.Join(ops, " "))
				}
			}
		}
	}
	// events whose kind changes between get and back (split parents): more of them than the capacity,
	// then the pool must still serve a full round; with and without waiters, heartbeat on and off
	for _, k := range []string{"lowmem", "std", "lowmem-nohb", "std-nohb"} {
		for c := 1; c <= 3; c++ {
			var ops []string
			for round := 0; round < 2; round++ {
				for i := 0; i < c; i++ {
					ops = append(ops, fmt.Sprintf("g%d", i))
				}
				ops = append(ops, fmt.Sprintf("g%d", c)) // waits
				for i := 0; i < c; i++ {
					ops = append(ops, fmt.Sprintf("k%d", i), fmt.Sprintf("b%d", i))
				}
				ops = append(ops, fmt.Sprintf("k%d", c), fmt.Sprintf("b%d", c))
			}
			for i := 0; i < c; i++ {
				ops = append(ops, fmt.Sprintf("g%d", i))
			}
			for i := 0; i < c; i++ {
				ops = append(ops, fmt.Sprintf("b%d", i))
			}
			fmt.Fprintf(w, "%s %s %d %d %s\n", cmd, k, c, c+1, strings.Join(ops, " "))
		}
	}
	// exhaustive small scope: capacity 1, three readers, every op sequence of length L after "g0"
	alpha := []string{"g1", "G1", "g2", "G2", "r1", "r2", "b0", "b1", "b2", "g0"}
	L := 2
	if tier == "thorough" {
		L = 3
	}
	var rec func(pre []string)
	rec = func(pre []string) {
		if len(pre) == L {
			for _, k := range kinds {
				fmt.Fprintf(w, "%s %s 1 3 g0 %s\n", cmd, k, strings.Join(pre, " "))
			}
			return
		}
		for _, a := range alpha {
			rec(append(append([]string(nil), pre...), a))
		}
	}
	rec(nil)
	// heartbeat off, no gates: back() alone must resume the parked readers
	for i := 0; i < nrand/3; i++ {
		k := kinds[rng.Intn(2)] + "-nohb"
		c := rng.Range(1, 4)
		n := c + rng.Range(1, 3)
		var ops []string
		for j := rng.Range(5, 16); j > 0; j-- {
			if rng.Chance(1, 2) {
				ops = append(ops, fmt.Sprintf("g%d", rng.Intn(n)))
			} else {
				ops = append(ops, fmt.Sprintf("b%d", rng.Intn(n)))
			}
		}
		fmt.Fprintf(w, "%s %s %d %d %s\n", cmd, k, c, n, strings.Join(ops, " "))
	}
	// long random schedules at capacity 1..2: several full / idle episodes on one pool
	for i := 0; i < nrand/5; i++ {
		k := kinds[rng.Intn(2)]
		c := rng.Range(1, 2)
		n := c + rng.Range(1, 2)
		var ops []string
		for j := rng.Range(20, 36); j > 0; j-- {
			r := rng.Intn(n)
			switch rng.Intn(12) {
			case 0, 1, 2:
				ops = append(ops, fmt.Sprintf("g%d", r))
			case 3:
				ops = append(ops, fmt.Sprintf("G%d", r))
			case 4, 5:
				ops = append(ops, fmt.Sprintf("r%d", r))
			case 6, 7, 8, 9:
				if rng.Chance(1, 3) {
					ops = append(ops, fmt.Sprintf("k%d", r))
				}
				ops = append(ops, fmt.Sprintf("b%d", r))
			default:
				ops = append(ops, "h")
			}
		}
		fmt.Fprintf(w, "%s %s %d %d %s\n", cmd, k, c, n, strings.Join(ops, " "))
	}
	// random schedules
	for i := 0; i < nrand; i++ {
		k := kinds[rng.Intn(2)]
		c := rng.Range(1, 3)
		if rng.Chance(1, 6) {
			c = rng.Range(4, 8)
		}
		n := c + rng.Range(1, 3)
		nops := rng.Range(5, 14)
		var ops []string
		for j := 0; j < nops; j++ {
			r := rng.Intn(n)
			switch rng.Intn(10) {
			case 0, 1, 2:
				ops = append(ops, fmt.Sprintf("g%d", r))
			case 3, 4:
				ops = append(ops, fmt.Sprintf("G%d", r))
			case 5:
				ops = append(ops, fmt.Sprintf("r%d", r))
			case 6, 7, 8:
				if rng.Chance(1, 3) {
					ops = append(ops, fmt.Sprintf("k%d", r))
				}
				ops = append(ops, fmt.Sprintf("b%d", r))
			default:
				ops = append(ops, "h")
			}
			if rng.Chance(1, 4) {
				// make the interesting follow-up likely: release whoever may be at the gate
				ops = append(ops, fmt.Sprintf("r%d", rng.Intn(n)))
			}
		}
		fmt.Fprintf(w, "%s %s %d %d %s\n", cmd, k, c, n, strings.Join(ops, " "))
	}
}
