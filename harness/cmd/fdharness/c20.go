package main

import (
	"bufio"
	"bytes"
	"encoding/json"
	"fmt"
	"regexp"
	"sort"
	"strconv"
	"strings"
	"sync/atomic"
	"time"

	"github.com/ozontech/file.d/cfg/matchrule"
	"github.com/ozontech/file.d/decoder"
	"github.com/ozontech/file.d/metric"
	"github.com/ozontech/file.d/pipeline"
	"github.com/ozontech/file.d/pipeline/antispam"
	"github.com/ozontech/file.d/pipeline/doif"
	"github.com/ozontech/file.d/pipeline/metadata"
	"github.com/ozontech/file.d/plugin/output/devnull"
	insaneJSON "github.com/ozontech/insane-json"
	"github.com/prometheus/client_golang/prometheus"
	"go.uber.org/zap"

	"verifharness/internal/hx"
	"verifharness/internal/jt"
)

// C20: admission control (Pipeline.In / checkInputBytes / antispam).
//
// c20.spam <thr> <unban> <intervalNs> <rulesNil> <nExc> <checkSourceName>… <nRules> <ruleThr>… <defs>
//          <exception block: per exception <isOr> <nRules> (<mode> <ci> <inv> <nVals> <value>…)…>
//          <nLower> (<bytes> <lowered>)…  <nOps> op…
//     op = e <id> <name> <isNew> <timeNs> <event> <meta k=v|-> <excbits> <rulebits>  |  m
//     defs = hex of the JSON text of c20Defs (exception rule sets and rule conditions)
//     excbits / rulebits are the results of RuleSet.Match / DoIfChecker.Check (library oracles
//     evaluated by the generator); exec re-evaluates them and answers bad-case if they differ.
//   result: per op `0|1` (IsSpam) or `B <counters> A <counters>` (all source counters before and
//   after Maintenance, verif accessor VerifCounters); then `D <dump>` (public Dump(): sources whose
//   counter >= the default threshold)
//
// c20.in <max> <cut> <field> <j|r> <asThr> <intervalNs> <metaField> <nExc> <checkSourceName>… <defs>
//        <nRecs> rec…
//     rec = <sourceID> <name> <cur> <streamOff|x> <isNew> <hasMeta> <metaKey> <metaVal> <pass> <data>
//           <nCand> (<bytes> <excbits> (E | V <tree>))…
//   result: per record `r` (In returned 0 or the event never reached the output) | `d <tree>`

// c20.mr <isOr> <nRules> (<mode> <ci> <invert> <nVals> <value>…)… <data> <nLower> (<bytes> <lowered>)…
//     matchrule.RuleSet{Cond, Rules}.Prepare(); Match(data). The (bytes, lowered) table is the ToLower
//     oracle for what a case-insensitive rule lowers; exec re-evaluates it (bad-case on mismatch).
//   result: `0|1`

func init() {
	execs["c20.mr"] = execC20Mr
	execs["c20.spam"] = execC20Spam
	execs["c20.in"] = execC20In
	gens["C20"] = genC20
}

type c20MRule struct {
	Mode   int      `json:"mode"` // 0 prefix 1 contains 2 suffix
	Values []string `json:"values"`
	CI     bool     `json:"ci"`
	Inv    bool     `json:"inv"`
}

type c20Exc struct {
	CSN   bool       `json:"csn"`
	Or    bool       `json:"or"`
	Rules []c20MRule `json:"rules"`
}

type c20Rule struct {
	Thr    int      `json:"thr"`
	Op     string   `json:"op"`
	Field  string   `json:"field"`
	Values []string `json:"values"`
}

type c20Defs struct {
	Exc   []c20Exc  `json:"exc"`
	Rules []c20Rule `json:"rules"`
}

func (d *c20Defs) hex() string {
	b, _ := json.Marshal(d)
	return hx.Enc(b)
}

func c20ParseDefs(b []byte) (*c20Defs, error) {
	d := &c20Defs{}
	if len(b) == 0 {
		return d, nil
	}
	err := json.Unmarshal(b, d)
	return d, err
}

func (d *c20Defs) exceptions() antispam.Exceptions {
	if len(d.Exc) == 0 {
		return nil
	}
	out := make(antispam.Exceptions, 0, len(d.Exc))
	for i, e := range d.Exc {
		rs := matchrule.RuleSet{Name: "exc" + strconv.Itoa(i), Cond: matchrule.CondAnd}
		if e.Or {
			rs.Cond = matchrule.CondOr
		}
		for _, r := range e.Rules {
			rs.Rules = append(rs.Rules, matchrule.Rule{
				Values: append([]string(nil), r.Values...), Mode: matchrule.Mode(r.Mode),
				CaseInsensitive: r.CI, Invert: r.Inv,
			})
		}
		out = append(out, antispam.Exception{RuleSet: rs, CheckSourceName: e.CSN})
	}
	out.Prepare()
	return out
}

func (d *c20Defs) rules(rulesNil bool) (antispam.Rules, error) {
	if rulesNil {
		return nil, nil
	}
	out := make(antispam.Rules, 0, len(d.Rules))
	for i, r := range d.Rules {
		vals := make([]any, len(r.Values))
		for j, v := range r.Values {
			vals[j] = v
		}
		ch, err := doif.NewFromMap(map[string]any{"op": r.Op, "field": r.Field, "values": vals})
		if err != nil {
			return nil, err
		}
		out = append(out, antispam.Rule{Name: "rule" + strconv.Itoa(i), Threshold: r.Thr, DoIfChecker: ch})
	}
	return out, nil
}

// c20Data is what the rule conditions are evaluated on (same accessors as antispamData).
type c20Data struct {
	event []byte
	name  string
	meta  map[string]string
}

func (d *c20Data) Get(args ...string) []byte {
	if len(args) == 0 {
		return nil
	}
	switch args[0] {
	case "event":
		return d.event
	case "source_name":
		return []byte(d.name)
	case "meta":
		if len(args) != 2 {
			return nil
		}
		if v, ok := d.meta[args[1]]; ok {
			return []byte(v)
		}
	}
	return nil
}

func c20ExcBits(excs antispam.Exceptions, event []byte, name string) string {
	if len(excs) == 0 {
		return "-"
	}
	var sb strings.Builder
	for i := range excs {
		sb.WriteString(hx.B(excs[i].Match(event)))
		sb.WriteString(hx.B(excs[i].Match([]byte(name))))
	}
	return sb.String()
}

func c20RuleBits(rules antispam.Rules, event []byte, name string, meta map[string]string) string {
	if len(rules) == 0 {
		return "-"
	}
	var sb strings.Builder
	d := &c20Data{event: event, name: name, meta: meta}
	for _, r := range rules {
		sb.WriteString(hx.B(r.DoIfChecker.Check(d)))
	}
	return sb.String()
}

func c20Meta(tok string) (map[string]string, bool) {
	if tok == "-" {
		return nil, true
	}
	b, err := hx.Dec(tok)
	if err != nil {
		return nil, false
	}
	k, v, ok := strings.Cut(string(b), "=")
	if !ok {
		return nil, false
	}
	return map[string]string{k: v}, true
}

var c20DumpRe = regexp.MustCompile(`^source_id: (.*), source_name: (.*), counter: (-?\d+)$`)

func c20Dump(tag string, a *antispam.Antispammer) string {
	type ent struct {
		id string
		c  string
	}
	var es []ent
	for _, l := range strings.Split(a.Dump(), "\n") {
		m := c20DumpRe.FindStringSubmatch(l)
		if m == nil {
			continue
		}
		es = append(es, ent{m[1], m[3]})
	}
	sort.Slice(es, func(i, j int) bool { return es[i].id < es[j].id })
	var sb strings.Builder
	fmt.Fprintf(&sb, "%s %d", tag, len(es))
	for _, e := range es {
		fmt.Fprintf(&sb, " %s %s", hx.Enc([]byte(e.id)), e.c)
	}
	return sb.String()
}

// c20Counters: every source entry with its counter (verif accessor), sorted by id.
func c20Counters(tag string, a *antispam.Antispammer) string {
	m := a.VerifCounters()
	ids := make([]string, 0, len(m))
	for id := range m {
		ids = append(ids, id)
	}
	sort.Strings(ids)
	var sb strings.Builder
	fmt.Fprintf(&sb, "%s %d", tag, len(ids))
	for _, id := range ids {
		fmt.Fprintf(&sb, " %s %d", hx.Enc([]byte(id)), m[id])
	}
	return sb.String()
}

func c20NewAntispammer(thr, unban int, interval int64, exc antispam.Exceptions, rules antispam.Rules) *antispam.Antispammer {
	return antispam.NewAntispammer(&antispam.Options{
		MaintenanceInterval: time.Duration(interval),
		Threshold:           thr,
		UnbanIterations:     unban,
		Exceptions:          exc,
		Rules:               rules,
		Logger:              zap.NewNop(),
		MetricsController:   metric.NewCtl("c20", prometheus.NewRegistry(), time.Minute, 0),
	})
}

func execC20Spam(t *hx.Toks) string {
	thr := t.Int()
	unban := t.Int()
	interval := t.Int64()
	rulesNil := t.Bool()
	nExc := t.Int()
	csn := make([]bool, nExc)
	for i := range csn {
		csn[i] = t.Bool()
	}
	nRules := t.Int()
	rthr := make([]int, nRules)
	for i := range rthr {
		rthr[i] = t.Int()
	}
	defs, err := c20ParseDefs(t.Bytes())
	if t.Err != nil || err != nil || len(defs.Exc) != nExc || len(defs.Rules) != nRules {
		return "bad-case"
	}
	for i := range csn {
		if defs.Exc[i].CSN != csn[i] {
			return "bad-case"
		}
	}
	for i := range rthr {
		if defs.Rules[i].Thr != rthr[i] {
			return "bad-case"
		}
	}
	exc := defs.exceptions()
	rules, err := defs.rules(rulesNil)
	if err != nil || (rulesNil && nRules != 0) {
		return "bad-case"
	}
	if !c20SkipExcBlock(t, defs.Exc) {
		return "bad-case"
	}
	a := c20NewAntispammer(thr, unban, interval, exc, rules)
	nOps := t.Int()
	var out []string
	for i := 0; i < nOps; i++ {
		switch t.Next() {
		case "m":
			b := c20Counters("B", a)
			a.Maintenance()
			out = append(out, b, c20Counters("A", a))
		case "e":
			id := string(t.Bytes())
			name := string(t.Bytes())
			isNew := t.Bool()
			tm := t.Int64()
			event := t.Bytes()
			meta, ok := c20Meta(t.Next())
			eb := t.Next()
			rb := t.Next()
			if t.Err != nil || !ok {
				return "bad-case"
			}
			// eb (what the library answered for the exceptions when the case was generated) is
			// informational: the model evaluates the exception rule sets itself
			_ = eb
			if rb != c20RuleBits(rules, event, name, meta) {
				return "bad-case"
			}
			out = append(out, hx.B(a.IsSpam(id, name, isNew, event, time.Unix(0, tm), meta)))
		default:
			return "bad-case"
		}
	}
	if t.Err != nil || !t.Done() {
		return "bad-case"
	}
	out = append(out, c20Dump("D", a))
	return strings.Join(out, " ")
}

// ---------------------------------------------------------------- matchrule

func execC20Mr(t *hx.Toks) string {
	isOr := t.Bool()
	n := t.Int()
	rs := matchrule.RuleSet{Name: "mr", Cond: matchrule.CondAnd}
	if isOr {
		rs.Cond = matchrule.CondOr
	}
	var ciVals [][]byte
	for i := 0; i < n && t.Err == nil; i++ {
		mode := t.Int()
		ci := t.Bool()
		inv := t.Bool()
		nv := t.Int()
		var vals []string
		for j := 0; j < nv && t.Err == nil; j++ {
			v := t.Bytes()
			vals = append(vals, string(v))
			if ci {
				ciVals = append(ciVals, v)
			}
		}
		if mode < 0 || mode > 2 {
			return "bad-case"
		}
		rs.Rules = append(rs.Rules, matchrule.Rule{Values: vals, Mode: matchrule.Mode(mode), CaseInsensitive: ci, Invert: inv})
	}
	data := t.Bytes()
	nl := t.Int()
	for i := 0; i < nl && t.Err == nil; i++ {
		b := t.Bytes()
		l := t.Bytes()
		if !bytes.Equal(bytes.ToLower(b), l) {
			return "bad-case"
		}
	}
	if t.Err != nil || !t.Done() {
		return "bad-case"
	}
	for _, v := range ciVals { // Prepare lowers values with strings.ToLower
		if strings.ToLower(string(v)) != string(bytes.ToLower(v)) {
			return "bad-case"
		}
	}
	rs.Prepare()
	return hx.B(rs.Match(append([]byte(nil), data...)))
}

// c20ExcBlock writes, per exception, `<isOr> <nRules> (<mode> <ci> <inv> <nVals> <value>…)…` and then
// `<nLower> (<bytes> <lowered>)…` covering what the case-insensitive rules lower on `datas`.
func c20ExcBlock(w *bufio.Writer, excs []c20Exc, datas [][]byte) {
	var tbl [][]byte
	seen := map[string]bool{}
	add := func(b []byte) {
		if !seen[string(b)] {
			seen[string(b)] = true
			tbl = append(tbl, b)
		}
	}
	for _, e := range excs {
		fmt.Fprintf(w, " %s %d", hx.B(e.Or), len(e.Rules))
		for _, r := range e.Rules {
			fmt.Fprintf(w, " %d %s %s %d", r.Mode, hx.B(r.CI), hx.B(r.Inv), len(r.Values))
			m := 0
			for _, v := range r.Values {
				fmt.Fprintf(w, " %s", hx.Enc([]byte(v)))
				if l := len(bytes.ToLower([]byte(v))); l > m {
					m = l
				}
			}
			if r.CI {
				for _, v := range r.Values {
					add([]byte(v))
				}
				for _, d := range datas {
					k := m
					if k > len(d) {
						k = len(d)
					}
					add(d)
					add(d[:k])
					add(d[len(d)-k:])
				}
			}
		}
	}
	fmt.Fprintf(w, " %d", len(tbl))
	for _, b := range tbl {
		fmt.Fprintf(w, " %s %s", hx.Enc(b), hx.Enc(bytes.ToLower(b)))
	}
}

// c20SkipExcBlock reads the block written by c20ExcBlock and checks it against the definitions.
func c20SkipExcBlock(t *hx.Toks, excs []c20Exc) bool {
	for _, e := range excs {
		if t.Bool() != e.Or || t.Int() != len(e.Rules) {
			return false
		}
		for _, r := range e.Rules {
			if t.Int() != r.Mode || t.Bool() != r.CI || t.Bool() != r.Inv || t.Int() != len(r.Values) {
				return false
			}
			for _, v := range r.Values {
				if string(t.Bytes()) != v {
					return false
				}
				if r.CI && strings.ToLower(v) != string(bytes.ToLower([]byte(v))) {
					return false
				}
			}
		}
	}
	n := t.Int()
	for i := 0; i < n && t.Err == nil; i++ {
		b := t.Bytes()
		l := t.Bytes()
		if !bytes.Equal(bytes.ToLower(b), l) {
			return false
		}
	}
	return t.Err == nil
}

func c20MrLine(w *bufio.Writer, isOr bool, rules []c20MRule, data []byte) {
	fmt.Fprintf(w, "c20.mr %s %d", hx.B(isOr), len(rules))
	var tbl [][]byte
	seen := map[string]bool{}
	add := func(b []byte) {
		if !seen[string(b)] {
			seen[string(b)] = true
			tbl = append(tbl, b)
		}
	}
	for _, r := range rules {
		fmt.Fprintf(w, " %d %s %s %d", r.Mode, hx.B(r.CI), hx.B(r.Inv), len(r.Values))
		m := 0
		for _, v := range r.Values {
			fmt.Fprintf(w, " %s", hx.Enc([]byte(v)))
			if l := len(bytes.ToLower([]byte(v))); l > m {
				m = l
			}
		}
		if r.CI {
			for _, v := range r.Values {
				add([]byte(v))
			}
			k := m
			if k > len(data) {
				k = len(data)
			}
			add(data)
			add(data[:k])
			add(data[len(data)-k:])
		}
	}
	fmt.Fprintf(w, " %s %d", hx.Enc(data), len(tbl))
	for _, b := range tbl {
		fmt.Fprintf(w, " %s %s", hx.Enc(b), hx.Enc(bytes.ToLower(b)))
	}
	w.WriteByte('\n')
}

// ---------------------------------------------------------------- Pipeline.In

// c20Input is the harness-owned input plugin: PassEvent answers what the case line says.
type c20Input struct {
	pass atomic.Bool
}

func (p *c20Input) Start(_ pipeline.AnyConfig, _ *pipeline.InputPluginParams) {}
func (p *c20Input) Stop()                                                    {}
func (p *c20Input) Commit(_ *pipeline.Event)                                 {}
func (p *c20Input) PassEvent(_ *pipeline.Event) bool                         { return p.pass.Load() }

var c20Seq atomic.Int64

type c20Pipe struct {
	p   *pipeline.Pipeline
	in  *c20Input
	out chan string
}

func c20NewPipe(max int, cut bool, field string, dec string, thr int, interval int64, metaField string, exc antispam.Exceptions) *c20Pipe {
	settings := &pipeline.Settings{
		Capacity:            8,
		MaintenanceInterval: time.Hour,
		EventTimeout:        pipeline.DefaultEventTimeout,
		Antispam: pipeline.AntispamSettings{
			Threshold:           thr,
			Exceptions:          exc,
			MaintenanceInterval: time.Duration(interval),
		},
		AvgEventSize:            256,
		MetaCacheSize:           32,
		StreamField:             "stream",
		Decoder:                 dec,
		MaxEventSize:            max,
		CutOffEventByLimit:      cut,
		CutOffEventByLimitField: field,
		SourceNameMetaField:     metaField,
		Metric: &pipeline.MetricSettings{
			HoldDuration:        pipeline.DefaultMetricHoldDuration,
			MaxLabelValueLength: pipeline.DefaultMetricMaxLabelValueLength,
		},
	}
	p := pipeline.New("c20_"+strconv.FormatInt(c20Seq.Add(1), 10), settings, prometheus.NewRegistry(), zap.NewNop())
	p.DisableParallelism()
	in := &c20Input{}
	p.SetInput(&pipeline.InputPluginInfo{
		PluginStaticInfo:  &pipeline.PluginStaticInfo{Type: "c20"},
		PluginRuntimeInfo: &pipeline.PluginRuntimeInfo{Plugin: in},
	})
	anyPlugin, config := devnull.Factory()
	outPlugin := anyPlugin.(*devnull.Plugin)
	p.SetOutput(&pipeline.OutputPluginInfo{
		PluginStaticInfo:  &pipeline.PluginStaticInfo{Type: "devnull", Config: config},
		PluginRuntimeInfo: &pipeline.PluginRuntimeInfo{Plugin: outPlugin},
	})
	cp := &c20Pipe{p: p, in: in, out: make(chan string, 4)}
	outPlugin.SetOutFn(func(e *pipeline.Event) {
		cp.out <- jt.FromNode(e.Root.Node).Tok()
	})
	p.Start()
	return cp
}

var c20JSON, _ = decoder.New(decoder.JSON, nil)

// c20Decode is the decode oracle: the JSON decoder of the pipeline on the given bytes.
func c20Decode(b []byte) string {
	root := insaneJSON.Spawn()
	defer insaneJSON.Release(root)
	if err := c20JSON.DecodeToJson(root, append([]byte(nil), b...)); err != nil {
		return "E"
	}
	return "V " + jt.FromNode(root.Node).Tok()
}

func execC20In(t *hx.Toks) string {
	max := t.Int()
	cut := t.Bool()
	field := string(t.Bytes())
	dec := t.Next()
	thr := t.Int()
	interval := t.Int64()
	metaField := string(t.Bytes())
	nExc := t.Int()
	csn := make([]bool, nExc)
	for i := range csn {
		csn[i] = t.Bool()
	}
	defs, err := c20ParseDefs(t.Bytes())
	if t.Err != nil || err != nil || len(defs.Exc) != nExc || interval < int64(time.Second) {
		return "bad-case"
	}
	for i := range csn {
		if defs.Exc[i].CSN != csn[i] {
			return "bad-case"
		}
	}
	decName := map[string]string{"j": "json", "r": "raw"}[dec]
	if decName == "" {
		return "bad-case"
	}
	exc := defs.exceptions()
	nRecs := t.Int()
	type rec struct {
		sid       uint64
		name      string
		cur       int64
		streamOff pipeline.SliceMap
		isNew     bool
		meta      metadata.MetaData
		pass      bool
		data      []byte
	}
	var recs []rec
	for i := 0; i < nRecs; i++ {
		var r rec
		r.sid = t.Uint64()
		r.name = string(t.Bytes())
		r.cur = t.Int64()
		so := t.Next()
		if so != "x" {
			v, err := strconv.ParseInt(so, 10, 64)
			if err != nil {
				return "bad-case"
			}
			r.streamOff = pipeline.SliceMap{{Stream: "", Offset: v}}
		}
		r.isNew = t.Bool()
		hasMeta := t.Bool()
		mk := string(t.Bytes())
		mv := string(t.Bytes())
		if hasMeta {
			r.meta = metadata.MetaData{mk: mv}
		}
		r.pass = t.Bool()
		r.data = t.Bytes()
		nc := t.Int()
		for j := 0; j < nc; j++ {
			b := t.Bytes()
			eb := t.Next()
			var want string
			switch t.Next() {
			case "E":
				want = "E"
			case "V":
				want = "V " + jt.Parse(t).Tok()
			default:
				return "bad-case"
			}
			if t.Err != nil {
				return "bad-case"
			}
			// the candidate's name for check_source_name exceptions is what In hands to IsSpam
			cname := r.name
			if metaField != "" {
				if v, ok := r.meta[metaField]; ok {
					cname = v
				}
			}
			if eb != c20ExcBits(exc, b, cname) {
				return "bad-case"
			}
			if decName == "json" && want != c20Decode(b) {
				return "bad-case"
			}
		}
		recs = append(recs, r)
	}
	if t.Err != nil || !t.Done() {
		return "bad-case"
	}
	cp := c20NewPipe(max, cut, field, decName, thr, interval, metaField, exc)
	defer cp.p.Stop()
	var out []string
	for _, r := range recs {
		cp.in.pass.Store(r.pass)
		data := append(make([]byte, 0, len(r.data)+8), r.data...)
		seq := cp.p.In(pipeline.SourceID(r.sid), r.name, pipeline.NewOffsets(r.cur, r.streamOff), data, r.isNew, r.meta)
		if seq == pipeline.EventSeqIDError {
			out = append(out, "r")
			continue
		}
		select {
		case tok := <-cp.out:
			out = append(out, "d "+tok)
		case <-time.After(10 * time.Second):
			return "timeout"
		}
	}
	return strings.Join(out, " ")
}

// ---------------------------------------------------------------- generators

func genC20(w *bufio.Writer, rng *hx.Rng, tier string) {
	genC20Mr(w, rng, tier)
	genC20SpamExhaustive(w, tier)
	genC20SpamRandom(w, rng, tier)
	genC20In(w, rng, tier)
}

const c20Sec = int64(time.Second)

type c20Ev struct {
	id, name string
	isNew    bool
	tm       int64
	event    []byte
	meta     string // "k=v" or ""
	maint    bool
}

func c20SpamLine(w *bufio.Writer, thr, unban int, interval int64, rulesNil bool, defs *c20Defs, ops []c20Ev) {
	exc := defs.exceptions()
	rules, err := defs.rules(rulesNil)
	if err != nil {
		panic(err)
	}
	fmt.Fprintf(w, "c20.spam %d %d %d %s %d", thr, unban, interval, hx.B(rulesNil), len(defs.Exc))
	for _, e := range defs.Exc {
		fmt.Fprintf(w, " %s", hx.B(e.CSN))
	}
	nr := len(defs.Rules)
	if rulesNil {
		nr = 0
	}
	fmt.Fprintf(w, " %d", nr)
	d2 := *defs
	if rulesNil {
		d2.Rules = nil
	}
	for _, r := range d2.Rules {
		fmt.Fprintf(w, " %d", r.Thr)
	}
	fmt.Fprintf(w, " %s", d2.hex())
	// the exceptions once more in token form, for the model (it evaluates them itself), and the
	// ToLower oracle table for what case-insensitive rules lower
	var datas [][]byte
	for _, o := range ops {
		if !o.maint {
			datas = append(datas, o.event, []byte(o.name))
		}
	}
	c20ExcBlock(w, defs.Exc, datas)
	fmt.Fprintf(w, " %d", len(ops))
	for _, o := range ops {
		if o.maint {
			w.WriteString(" m")
			continue
		}
		mt := "-"
		var meta map[string]string
		if o.meta != "" {
			mt = hx.Enc([]byte(o.meta))
			meta, _ = c20Meta(mt)
		}
		fmt.Fprintf(w, " e %s %s %s %d %s %s %s %s", hx.Enc([]byte(o.id)), hx.Enc([]byte(o.name)), hx.B(o.isNew),
			o.tm, hx.Enc(o.event), mt, c20ExcBits(exc, o.event, o.name), c20RuleBits(rules, o.event, o.name, meta))
	}
	w.WriteByte('\n')
}

// matchrule: (1) every rule with one or two values (three in thorough) over {a,b} up to length 3, in
// every mode, on every data string up to length 4: all relations between value lengths, data
// length, min and max value size; (2) random rule sets whose values are prefixes / suffixes /
// substrings / extensions of the data and of each other, 2..4 values of different lengths,
// case-insensitive (ASCII), invert, and/or of 1..3 rules, data lengths around min and max value size.
func genC20Mr(w *bufio.Writer, rng *hx.Rng, tier string) {
	var strs []string
	var rec func(cur string, max int, out *[]string)
	rec = func(cur string, max int, out *[]string) {
		*out = append(*out, cur)
		if len(cur) == max {
			return
		}
		rec(cur+"a", max, out)
		rec(cur+"b", max, out)
	}
	rec("", 3, &strs)
	var datas []string
	rec("", 4, &datas)
	idx := 0
	emit := func(vals []string) {
		for mode := 0; mode < 3; mode++ {
			idx++
			inv := idx%4 == 0
			for _, d := range datas {
				c20MrLine(w, false, []c20MRule{{Mode: mode, Values: vals, Inv: inv}}, []byte(d))
			}
		}
	}
	for _, a := range strs {
		emit([]string{a})
		for _, b := range strs {
			if a != b {
				emit([]string{a, b})
			}
		}
	}
	nTriples, nRand := 0, 6000
	if tier == "thorough" {
		nTriples, nRand = 2500, 120000
	}
	for i := 0; i < nTriples; i++ {
		emit([]string{strs[rng.Intn(len(strs))], strs[rng.Intn(len(strs))], strs[rng.Intn(len(strs))]})
	}
	alpha := []byte("abABxy-_ .")
	flip := func(b []byte) []byte {
		o := append([]byte(nil), b...)
		for i := range o {
			if rng.Chance(1, 3) {
				switch {
				case o[i] >= 'a' && o[i] <= 'z':
					o[i] -= 32
				case o[i] >= 'A' && o[i] <= 'Z':
					o[i] += 32
				}
			}
		}
		return o
	}
	for i := 0; i < nRand; i++ {
		var data []byte
		switch rng.Intn(6) {
		case 0:
			data = []byte([]string{"api-gw", "api", "payments-service", "svc-a", "kube-system_x", ""}[rng.Intn(6)])
		case 1:
			data = rng.Bytes(rng.Range(0, 6), []byte("ab"))
		default:
			data = rng.Bytes(rng.Range(0, 24), alpha)
		}
		nr := rng.Range(1, 3)
		var rules []c20MRule
		anyCI := false
		for j := 0; j < nr; j++ {
			r := c20MRule{Mode: rng.Intn(3), CI: rng.Chance(1, 3), Inv: rng.Chance(1, 5)}
			anyCI = anyCI || r.CI
			nv := rng.Range(1, 4)
			used := map[int]bool{}
			for len(r.Values) < nv {
				var v []byte
				k := 0
				if len(data) > 0 {
					k = rng.Range(0, len(data))
				}
				switch rng.Intn(8) {
				case 0: // prefix of the data
					v = data[:k]
				case 1: // suffix
					v = data[len(data)-k:]
				case 2: // substring
					lo := rng.Range(0, len(data)-k)
					v = data[lo : lo+k]
				case 3: // the data and something more (longer than the data)
					v = append(append([]byte(nil), data...), rng.Bytes(rng.Range(1, 4), alpha)...)
				case 4:
					v = append(rng.Bytes(rng.Range(1, 4), alpha), data...)
				case 5: // built on another value of this rule
					if len(r.Values) > 0 {
						o := []byte(r.Values[rng.Intn(len(r.Values))])
						if rng.Bool() && len(o) > 0 {
							v = o[:rng.Range(0, len(o)-1)]
						} else {
							v = append(append([]byte(nil), o...), rng.Bytes(rng.Range(1, 3), alpha)...)
						}
					} else {
						v = rng.Bytes(rng.Range(0, 5), alpha)
					}
				case 6: // almost a prefix
					v = append(append([]byte(nil), data[:k]...), 'z')
				default:
					v = rng.Bytes(rng.Range(0, 8), alpha)
				}
				if r.CI {
					v = flip(v)
				}
				if rng.Chance(2, 3) && used[len(v)] { // prefer values of different lengths
					continue
				}
				used[len(v)] = true
				r.Values = append(r.Values, string(v))
			}
			rules = append(rules, r)
		}
		if !anyCI && rng.Chance(1, 10) { // arbitrary bytes for case-sensitive rules
			data = append(data, 0xff, 0xc3, 0x00)
		}
		c20MrLine(w, rng.Bool(), rules, data)
	}
}

// every sequence over {e: event inside the interval, E: event a whole interval later,
// n: isNewSource event, m: maintenance} up to length L, one source, small thresholds
func genC20SpamExhaustive(w *bufio.Writer, tier string) {
	maxLen := 7
	cfgs := [][2]int{{1, 1}, {2, 1}, {2, 2}, {3, 2}, {2, 4}}
	if tier == "thorough" {
		maxLen = 8
		cfgs = append(cfgs, [2]int{1, 0}, [2]int{3, 1}, [2]int{1, 4}, [2]int{3, 4})
	}
	defs := &c20Defs{}
	alpha := []byte("eEnm")
	var rec func(cur []byte)
	emit := func(seq []byte) {
		for _, c := range cfgs {
			var ops []c20Ev
			tm := int64(1000) * c20Sec
			for _, ch := range seq {
				switch ch {
				case 'm':
					ops = append(ops, c20Ev{maint: true})
				case 'e':
					tm += c20Sec / 4
					ops = append(ops, c20Ev{id: "s", name: "s", tm: tm, event: []byte("x")})
				case 'E':
					tm += c20Sec
					ops = append(ops, c20Ev{id: "s", name: "s", tm: tm, event: []byte("x")})
				case 'n':
					tm += c20Sec / 4
					ops = append(ops, c20Ev{id: "s", name: "s", tm: tm, event: []byte("x"), isNew: true})
				}
			}
			c20SpamLine(w, c[0], c[1], c20Sec, true, defs, ops)
		}
	}
	rec = func(cur []byte) {
		if len(cur) > 0 {
			emit(cur)
		}
		if len(cur) == maxLen {
			return
		}
		for _, c := range alpha {
			rec(append(cur, c))
		}
	}
	rec(nil)
}

var c20Events = []string{`{"level":"info","msg":"a"}`, `{"level":"error","msg":"b"}`, `{"level":"debug"}`, `plain text`, `ERROR upper`, ``, `x`, "PANIC: oom\n", `error`}
var c20Names = []string{"svc-a", "svc-b", "kube-system_x", "my_source1", "", "api-gw", "api"}

func c20GenDefs(rng *hx.Rng, withRules bool) *c20Defs {
	d := &c20Defs{}
	for i, n := 0, rng.Intn(3); i < n; i++ {
		e := c20Exc{CSN: rng.Chance(1, 3), Or: rng.Bool()}
		for j, k := 0, rng.Range(0, 2); j < k; j++ {
			r := c20MRule{Mode: rng.Intn(3), CI: rng.Chance(1, 4), Inv: rng.Chance(1, 5)}
			if r.Mode == 1 {
				r.CI = false
			}
			pool := []string{`{"level":"info"`, `{"level":"error"`, "svc-", "svc-a", "svc", "ERROR", "error", "x", "a\"}", "system",
				"kube-system_x_and_more", "", "plain", "plain text and more", "api", "payments-service", "my_source1", "source1", "PANIC"}
			for v, nv := 0, rng.Range(1, 4); v < nv; v++ {
				r.Values = append(r.Values, pool[rng.Intn(len(pool))])
			}
			e.Rules = append(e.Rules, r)
		}
		d.Exc = append(d.Exc, e)
	}
	if withRules {
		thrs := []int{-1, 0, 1, 2, 3, 4, 5, 6}
		for i, n := 0, rng.Range(0, 3); i < n; i++ {
			r := c20Rule{Thr: thrs[rng.Intn(len(thrs))]}
			switch rng.Intn(4) {
			case 0:
				r.Op, r.Field, r.Values = "equal", "source_name", []string{c20Names[rng.Intn(len(c20Names))]}
			case 1:
				r.Op, r.Field, r.Values = "prefix", "event", []string{[]string{`{"level":"error"`, `{"level":"debug"`}[rng.Intn(2)]}
			case 2:
				r.Op, r.Field, r.Values = "equal", "meta.k", []string{"v1"}
			default:
				r.Op, r.Field, r.Values = "contains", "event", []string{[]string{"a", "level", "ERROR", "text"}[rng.Intn(4)]}
			}
			d.Rules = append(d.Rules, r)
		}
	}
	return d
}

func genC20SpamRandom(w *bufio.Writer, rng *hx.Rng, tier string) {
	n := 12000
	if tier == "thorough" {
		n = 150000
	}
	for i := 0; i < n; i++ {
		rulesNil := rng.Chance(1, 2)
		defs := c20GenDefs(rng, !rulesNil)
		thr := rng.Range(1, 6)
		unban := []int{4, 4, 4, 1, 2, 3, 0}[rng.Intn(7)]
		interval := c20Sec
		switch rng.Intn(40) {
		case 0:
			thr = -1
		case 1:
			thr = 0
		case 2: // values that exercise the int32 conversions
			thr = []int{2147483647, 2147483648, 4294967297, 1073741824, 600000000, -5}[rng.Intn(6)]
		case 3:
			unban = []int{-1, 1000000000, 536870912}[rng.Intn(3)]
		case 4:
			interval = []int64{0, -1, 1}[rng.Intn(3)]
		}
		nsrc := rng.Range(1, 4)
		ids := []string{"1", "2", "30", "svc"}[:nsrc]
		nops := rng.Range(3, 60)
		if rng.Chance(1, 6) {
			nops = rng.Range(60, 160)
		}
		tm := int64(rng.Range(1, 1000)) * c20Sec
		if rng.Chance(1, 50) {
			tm = []int64{9223372036854775807 - 5*c20Sec, -9223372036854775807, 0}[rng.Intn(3)]
		}
		pMaint := rng.Range(1, 8)
		burst := ""
		var ops []c20Ev
		for j := 0; j < nops; j++ {
			if rng.Chance(pMaint, 40) {
				ops = append(ops, c20Ev{maint: true})
				if rng.Chance(1, 3) { // several silent rounds in a row
					for k, kk := 0, rng.Range(1, 6); k < kk; k++ {
						ops = append(ops, c20Ev{maint: true})
					}
				}
				continue
			}
			id := ids[rng.Intn(len(ids))]
			if burst != "" && rng.Chance(3, 4) {
				id = burst
			} else if rng.Chance(1, 4) {
				burst = id
			}
			switch rng.Intn(8) {
			case 0:
				tm += c20Sec + int64(rng.Intn(3))*c20Sec/2
			case 1:
				tm -= int64(rng.Intn(3)) * c20Sec / 3
			case 2:
				tm += c20Sec - 1 + int64(rng.Intn(3))
			default:
				tm += int64(rng.Intn(int(c20Sec / 5)))
			}
			nameIdx := int(id[0]) % len(c20Names)
			if rng.Chance(1, 3) {
				nameIdx = rng.Intn(len(c20Names))
			}
			ev := c20Ev{id: id, name: c20Names[nameIdx], tm: tm,
				event: []byte(c20Events[rng.Intn(len(c20Events))]), isNew: rng.Chance(1, 15)}
			if rng.Chance(1, 4) {
				ev.meta = []string{"k=v1", "k=v2", "j=v1"}[rng.Intn(3)]
			}
			ops = append(ops, ev)
		}
		c20SpamLine(w, thr, unban, interval, rulesNil, defs, ops)
	}
}

// ---- c20.in

type c20Rec struct {
	sid       uint64
	name      string
	cur       int64
	streamOff string
	isNew     bool
	hasMeta   bool
	mk, mv    string
	pass      bool
	data      []byte
}

func c20Cut(max int, data []byte) []byte {
	if max <= 0 || len(data) <= max {
		return nil
	}
	c := append([]byte(nil), data[:max]...)
	if data[len(data)-1] == '\n' {
		c = append(c, '\n')
	}
	return c
}

func c20InLine(w *bufio.Writer, max int, cut bool, field, dec string, thr int, metaField string, defs *c20Defs, recs []c20Rec) {
	exc := defs.exceptions()
	fmt.Fprintf(w, "c20.in %d %s %s %s %d %d %s %d", max, hx.B(cut), hx.Enc([]byte(field)), dec, thr, 3600*c20Sec,
		hx.Enc([]byte(metaField)), len(defs.Exc))
	for _, e := range defs.Exc {
		fmt.Fprintf(w, " %s", hx.B(e.CSN))
	}
	d2 := *defs
	d2.Rules = nil
	fmt.Fprintf(w, " %s %d", d2.hex(), len(recs))
	for _, r := range recs {
		fmt.Fprintf(w, " %d %s %d %s %s %s %s %s %s %s", r.sid, hx.Enc([]byte(r.name)), r.cur, r.streamOff, hx.B(r.isNew),
			hx.B(r.hasMeta), hx.Enc([]byte(r.mk)), hx.Enc([]byte(r.mv)), hx.B(r.pass), hx.Enc(r.data))
		// oracle table: the record itself and its first max bytes (+ newline): what a decoder
		// could legitimately be handed
		cands := [][]byte{r.data}
		if c := c20Cut(max, r.data); c != nil {
			cands = append(cands, c)
		}
		cname := r.name
		if metaField != "" && r.hasMeta && r.mk == metaField {
			cname = r.mv
		}
		fmt.Fprintf(w, " %d", len(cands))
		for _, c := range cands {
			d := "E"
			if dec == "j" {
				d = c20Decode(c)
			}
			fmt.Fprintf(w, " %s %s %s", hx.Enc(c), c20ExcBits(exc, c, cname), d)
		}
	}
	w.WriteByte('\n')
}

func genC20In(w *bufio.Writer, rng *hx.Rng, tier string) {
	noDefs := &c20Defs{}
	// exhaustive small scope, raw decoder: every record over {a, b, \n} up to length L under every
	// limit 0..3, cut on/off; antispam disabled; 40 records per pipeline
	maxLen := 5
	if tier == "thorough" {
		maxLen = 7
	}
	var all [][]byte
	var rec func(cur []byte)
	rec = func(cur []byte) {
		all = append(all, append([]byte(nil), cur...))
		if len(cur) == maxLen {
			return
		}
		for _, c := range []byte{'a', 'b', '\n'} {
			rec(append(cur, c))
		}
	}
	rec(nil)
	for max := 0; max <= 3; max++ {
		for _, cut := range []bool{false, true} {
			if max == 0 && cut {
				continue
			}
			field := ""
			if cut && max%2 == 1 {
				field = "cut"
			}
			for i := 0; i < len(all); i += 40 {
				var recs []c20Rec
				for j := i; j < i+40 && j < len(all); j++ {
					recs = append(recs, c20Rec{sid: 1, name: "f", cur: int64(j), streamOff: "x", pass: true, data: all[j]})
				}
				c20InLine(w, max, cut, field, "r", -1, "", noDefs, recs)
			}
		}
	}
	// structured JSON records around the limit
	n := 2500
	if tier == "thorough" {
		n = 15000
	}
	for i := 0; i < n; i++ {
		max := []int{0, 1, 2, 5, 8, 16, 24, 40, 64}[rng.Intn(9)]
		cut := rng.Bool()
		field := []string{"", "cut", "cut", "level", "a"}[rng.Intn(5)]
		dec := "j"
		if rng.Chance(1, 4) {
			dec = "r"
		}
		thr := -1
		if rng.Chance(1, 2) {
			thr = rng.Range(0, 4)
		}
		metaField := ""
		if rng.Chance(1, 4) {
			metaField = "k"
		}
		defs := noDefs
		if thr > 0 && rng.Chance(1, 2) {
			defs = c20GenDefs(rng, false)
		}
		nrec := rng.Range(1, 30)
		var recs []c20Rec
		for j := 0; j < nrec; j++ {
			r := c20Rec{sid: uint64(rng.Range(1, 3)), name: c20Names[rng.Intn(len(c20Names))], cur: int64(rng.Range(0, 100)),
				streamOff: "x", pass: !rng.Chance(1, 12), isNew: rng.Chance(1, 10)}
			if rng.Chance(1, 6) {
				// around the boundary of the already-committed check (current < saved offset)
				r.streamOff = strconv.FormatInt([]int64{r.cur - 1, r.cur, r.cur + 1, 0, -1, int64(rng.Range(1, 100))}[rng.Intn(6)], 10)
			}
			if rng.Chance(1, 4) {
				r.hasMeta, r.mk, r.mv = true, []string{"k", "j", "level", ""}[rng.Intn(4)], []string{"v1", "svc-a", ""}[rng.Intn(3)]
			}
			r.data = c20GenRecord(rng, max)
			recs = append(recs, r)
		}
		c20InLine(w, max, cut, field, dec, thr, metaField, defs, recs)
	}
}

func c20GenRecord(rng *hx.Rng, max int) []byte {
	var b []byte
	switch rng.Intn(12) {
	case 0:
		return []byte{}
	case 1:
		return []byte("\n")
	case 2: // scalar / array JSON
		b = [][]byte{[]byte("123456"), []byte(`"str"`), []byte("[1,2]"), []byte("null"), []byte(`[{"a":1},2]`), []byte("true")}[rng.Intn(6)]
	case 3: // malformed
		b = [][]byte{[]byte("{"), []byte(`{"a":`), []byte("plain"), []byte(`{"a":1}}`), []byte("\n\n"), []byte("\x00")}[rng.Intn(6)]
	case 4, 5: // a record whose cut prefix is still valid JSON: number or padded object
		if rng.Bool() {
			b = []byte(strings.Repeat("7", rng.Range(1, 70)))
		} else {
			b = append([]byte(`{"a":1}`), []byte(strings.Repeat(" ", rng.Range(0, 70)))...)
		}
	default:
		t := jt.GenObj(rng, jt.GenCfg{MaxDepth: 2, MaxWidth: 3, UniqueKeys: true,
			Keys: []string{"a", "b", "level", "msg", "cut", "k", "stream"}})
		b = t.JSON()
	}
	if max > 0 && rng.Chance(1, 3) { // pad / trim to sit right at the limit
		target := max + rng.Range(-2, 2)
		for len(b) < target {
			b = append(b, ' ')
		}
	}
	switch rng.Intn(6) {
	case 0: // no newline
	case 1:
		b = append(b, '\n', '\n')
	default:
		b = append(b, '\n')
	}
	return b
}
