package main

// C04 — whole pipeline, several processors: a stream that never runs dry (A) and another stream (B)
// charged in the same burst while every processor sleeps in joinStream.
//
// case:   c04.burst <std|lowmem> <nA> <delay µs per A event>
//   B's only event and A's first event enter back to back while the process has one scheduler thread
//   (GOMAXPROCS(1): the processor signalled for B cannot pop before A is charged); then A is fed faster
//   than its processor works (the action sleeps <delay> per A event), so the processor that took A never
//   leaves it. B has to be attended by ANOTHER processor while A is still flowing.
// result: bearly <1 iff B was finalized before half of A's events were> lost <events never finalized>
//         end <inUseRaw> <waiters>

import (
	"fmt"
	"runtime"
	"sync"
	"time"

	"github.com/ozontech/file.d/pipeline"
	"github.com/ozontech/file.d/plugin/output/devnull"
	"github.com/prometheus/client_golang/prometheus"
	"go.uber.org/zap"

	"verifharness/internal/hx"
)

func init() {
	execs["c04.burst"] = execBurst
}

type burstAct struct{ delay time.Duration }

func (a *burstAct) Start(_ pipeline.AnyConfig, _ *pipeline.ActionPluginParams) {}
func (a *burstAct) Stop()                                                        {}
func (a *burstAct) Do(e *pipeline.Event) pipeline.ActionResult {
	if n := e.Root.Dig("k"); n != nil && n.AsString() == "a" {
		t0 := time.Now()
		for time.Since(t0) < a.delay {
			runtime.Gosched()
		}
	}
	return pipeline.ActionPass
}

func execBurst(t *hx.Toks) string {
	kind := t.Next()
	nA := t.Int()
	delay := t.Int()
	if t.Err != nil || (kind != "std" && kind != "lowmem") || nA < 4 || nA > 5000 || delay < 1 || delay > 5000 {
		return "bad-case"
	}
	settings := &pipeline.Settings{
		Capacity:            64,
		MaintenanceInterval: time.Second * 5,
		EventTimeout:        time.Second,
		Antispam:            pipeline.AntispamSettings{Threshold: -1},
		AvgEventSize:        2048,
		MetaCacheSize:       32,
		StreamField:         "stream",
		Decoder:             "json",
		Metric:              &pipeline.MetricSettings{HoldDuration: pipeline.DefaultMetricHoldDuration, MaxLabelValueLength: pipeline.DefaultMetricMaxLabelValueLength},
	}
	if kind == "std" {
		settings.Pool = pipeline.PoolTypeStd
	} else {
		settings.Pool = pipeline.PoolTypeLowMem
	}
	p := pipeline.New(fmt.Sprintf("verif_c04b_%d", pipeSeq.Add(1)), settings, prometheus.NewRegistry(), zap.NewNop())
	in := &pipeInput{}
	p.SetInput(&pipeline.InputPluginInfo{
		PluginStaticInfo:  &pipeline.PluginStaticInfo{Type: "verif_in"},
		PluginRuntimeInfo: &pipeline.PluginRuntimeInfo{Plugin: in},
	})
	outAny, _ := devnull.Factory()
	p.SetOutput(&pipeline.OutputPluginInfo{
		PluginStaticInfo:  &pipeline.PluginStaticInfo{Type: "devnull"},
		PluginRuntimeInfo: &pipeline.PluginRuntimeInfo{Plugin: outAny},
	})
	d := time.Duration(delay) * time.Microsecond
	p.AddAction(&pipeline.ActionPluginStaticInfo{
		PluginStaticInfo: &pipeline.PluginStaticInfo{
			Type:    "verif_burst",
			Factory: func() (pipeline.AnyPlugin, pipeline.AnyConfig) { return &burstAct{delay: d}, nil },
		},
		MatchMode: pipeline.MatchModeAnd,
	})
	const offB = 5
	var mu sync.Mutex
	finA, finBAt, done := 0, -1, 0
	pipeline.VerifSetTrace(func(k string, a, b uint64) {
		if k != "pl.finalize" || b&1 == 0 {
			return
		}
		mu.Lock()
		done++
		if a == offB {
			finBAt = finA
		} else {
			finA++
		}
		mu.Unlock()
	})
	defer pipeline.VerifSetTrace(nil)
	p.Start()
	// let every processor reach joinStream's Wait (nothing is compared against this pause)
	time.Sleep(10 * time.Millisecond)
	feed := func(src int, off int64, k string) {
		in.ctl.In(pipeline.SourceID(src), "src", pipeline.NewOffsets(off, nil), []byte(fmt.Sprintf("{\"k\":%q}\n", k)), false, nil)
	}
	prev := runtime.GOMAXPROCS(1)
	feed(2, offB, "b")
	feed(1, 10, "a")
	runtime.GOMAXPROCS(prev)
	for i := 2; i <= nA; i++ {
		feed(1, int64(i)*10, "a")
	}
	deadline := time.Now().Add(10 * time.Second)
	for time.Now().Before(deadline) {
		mu.Lock()
		dn := done
		mu.Unlock()
		if dn >= nA+1 {
			break
		}
		time.Sleep(200 * time.Microsecond)
	}
	time.Sleep(time.Millisecond)
	inUse, waiters := pipeline.VerifPipelinePool(p)
	mu.Lock()
	early := 0
	if finBAt >= 0 && finBAt <= nA/2 {
		early = 1
	}
	lost := nA + 1 - done
	mu.Unlock()
	p.Stop()
	return fmt.Sprintf("bearly %d lost %d end %d %d", early, lost, inUse, waiters)
}
