package main

import (
	"bufio"
	"bytes"
	"context"
	"errors"
	"fmt"
	"runtime"
	"strconv"
	"sync"
	"time"

	"github.com/ozontech/file.d/metric"
	"github.com/ozontech/file.d/pipeline"
	"github.com/prometheus/client_golang/prometheus"

	"verifharness/internal/hx"
)

// C09: retry and dead-queue routing.
//
// case: c09.trace <workers> <count> <bytes> <retry> <retentionMs> <dqmode> <dqworkers> <dqcount> <adders> <seed>
//                 <nev> (<size> <kind>)*nev <nscript> (<fails>)*nscript
//
//	retry     BackoffOpts.AttemptNum (-1..3)
//	dqmode    0 no dead queue, 1 dead-queue output with its own Batcher, 2 synchronous dead-queue output
//	script    batch k fails script[k mod nscript] times before its send succeeds (99 = always fails)
//
// The real pipeline.RetriableBatcher / Batcher / Router run with a harness main output (send function
// scripted, onError = the callback of the outputs: Router.Fail per event) and a harness dead-queue
// output. Result: the boundary log (vocabulary: lean/FileD/Model/RetryTrace.lean).

func init() {
	execs["c09.trace"] = watchedExec(c09Idle, c09Total, func(t *hx.Toks, w *watched) string { return execC09core(t, false, false, w) })
	execs["c09.overlap"] = watchedExec(c09Idle, c09Total, func(t *hx.Toks, w *watched) string { return execC09core(t, true, false, w) })
	execs["c09.stop"] = ExecC09StopInBackoff
	gens["C09"] = genC09
}

func goid() uint64 {
	var buf [64]byte
	n := runtime.Stack(buf[:], false)
	// "goroutine 123 ["
	f := bytes.Fields(buf[:n])
	if len(f) < 2 {
		return 0
	}
	id, _ := strconv.ParseUint(string(f[1]), 10, 64)
	return id
}

type c09Rig struct {
	log        *tLog
	mainID     uint64
	mainB      *pipeline.Batcher
	dqB        *pipeline.Batcher
	dqID       uint64
	evs        map[uint64]*evSpec
	mu         sync.Mutex
	curSeq     map[uint64]int64          // goroutine -> main batch its Out call is working on
	curCB      map[uint64]*tEntry        // goroutine -> open commit entry
	attempt    map[int64]int             // main batch -> attempts so far
	batches    map[int64]*pipeline.Batch // main batch seq -> batch (to read the status when Out has returned)
	started    map[int64]bool
	script     []int
	nextStop   bool // a NextBackOff returned a duration the case cannot wait for
	overlap    bool // c09.overlap: retries of an always-failing batch are parked until a later batch has run its Out
	park       chan parkReq
	okCh       chan int64
	outDone    chan int64
	stopMode   int // 1: Stop when batch 0 gets its pause number stopAt; 2: Stop while its attempt stopAt is parked
	stopAt     int
	stopGo     chan struct{} // closed (once) to make the stopper call Router.Stop
	stopOnce   sync.Once
	xLogged    chan struct{} // closed when the main batcher's Stop has been traced
	xOnce      sync.Once
	giveUpWait chan struct{}
}

type parkReq struct {
	seq     int64
	attempt int
	done    chan struct{}
}

func (r *c09Rig) tagOf(b uint64) (string, bool) {
	switch b {
	case r.mainID:
		return "m", true
	case r.dqID:
		if b != 0 {
			return "D", true
		}
	}
	return "", false
}

func (r *c09Rig) batcherOf(tag string) *pipeline.Batcher {
	if tag == "m" {
		return r.mainB
	}
	return r.dqB
}

func up(tag, s string) string {
	if tag == "D" {
		switch s {
		case "a":
			return "A"
		case "h":
			return "H"
		case "s":
			return "S"
		case "o":
			return "O"
		case "d":
			return "D"
		case "cb":
			return "CB"
		case "x":
			return "X"
		}
	}
	return s
}

func (r *c09Rig) trace(kind string, a, b uint64) {
	if kind == "retry.next" {
		g := goid()
		r.mu.Lock()
		seq, ok := r.curSeq[g]
		r.mu.Unlock()
		if !ok {
			return
		}
		stop := "0"
		if int64(b) == -1 { // backoff.Stop
			stop = "1"
		}
		pause := uint64(0)
		if stop == "0" {
			pause = b // the pause NextBackOff asked for, in ns
		}
		r.log.add(&tEntry{tok: "n", extra: fmt.Sprintf("%d %d %s %d", seq, a, stop, pause)})
		if r.stopMode == 1 && seq == 0 && int(a) == r.stopAt && stop == "0" {
			r.stopOnce.Do(func() { close(r.stopGo) }) // the worker is about to wait out this pause
		}
		if stop == "0" && time.Duration(b) > 10*time.Second {
			// the case cannot sit through this pause: the observation ends here
			r.mu.Lock()
			if !r.nextStop {
				r.nextStop = true
				close(r.giveUpWait)
			}
			r.mu.Unlock()
		}
		return
	}
	tag, ok := r.tagOf(b)
	if !ok {
		return
	}
	switch kind {
	case "b.add":
		ev := r.evs[a]
		e := &tEntry{tok: up(tag, "a")}
		if ev != nil {
			e.extra = fmt.Sprintf("%d %d %d", ev.id, ev.size, ev.kind)
		} else {
			e.extra = fmt.Sprintf("%d 0 0", a)
		}
		r.log.mu.Lock()
		r.log.entries = append(r.log.entries, e)
		r.log.nAdded[tag]++
		r.log.mu.Unlock()
	case "b.hb":
		r.log.add(&tEntry{tok: up(tag, "h")})
	case "b.seal":
		e := &tEntry{tok: up(tag, "s"), k: int64(a), st: -1}
		if bt := r.batcherOf(tag); bt != nil {
			e.st = bt.VerifCurBatchStatus() // we are inside b.mu here
		}
		r.log.mu.Lock()
		r.log.entries = append(r.log.entries, e)
		r.log.seals[fmt.Sprintf("%s:%d", tag, a)] = e
		r.log.mu.Unlock()
	case "b.commit":
		e := &tEntry{tok: up(tag, "cb"), k: int64(a)}
		g := goid()
		r.log.mu.Lock()
		r.log.entries = append(r.log.entries, e)
		r.log.mu.Unlock()
		r.mu.Lock()
		r.curCB[g] = e
		r.mu.Unlock()
	case "b.stop":
		r.log.add(&tEntry{tok: up(tag, "x")})
		if tag == "m" && r.xLogged != nil {
			r.xOnce.Do(func() { close(r.xLogged) })
		}
	}
}

func (r *c09Rig) gate(point string, a, b uint64) {
	tag, ok := r.tagOf(b)
	if !ok {
		return
	}
	switch point {
	case "b.enqueue":
		seq, st := int64(a>>2), int(a&3)
		r.log.mu.Lock()
		if e := r.log.seals[fmt.Sprintf("%s:%d", tag, seq)]; e != nil && e.st < 0 {
			e.st = st
		}
		r.log.mu.Unlock()
	case "b.commit":
		g := goid()
		r.mu.Lock()
		delete(r.curCB, g)
		delete(r.curSeq, g)
		var batch *pipeline.Batch
		was := false
		if tag == "m" {
			batch = r.batches[int64(a)]
			was = r.started[int64(a)]
		}
		r.mu.Unlock()
		if tag == "m" && was && batch != nil {
			// RetriableBatcher.Out has returned for this batch
			keep := "1"
			if pipeline.VerifBatchStatus(batch) == pipeline.BatchStatusInDeadQueue {
				keep = "0"
			}
			r.log.add(&tEntry{tok: "d", k: int64(a), extra: keep})
			if r.overlap {
				select {
				case r.outDone <- int64(a):
				default:
				}
			}
		}
	}
}

// Commit / Error: the one OutputPluginController shared by the main and the dead-queue output
func (r *c09Rig) Commit(ev *pipeline.Event) {
	g := goid()
	r.mu.Lock()
	e := r.curCB[g]
	r.mu.Unlock()
	r.log.mu.Lock()
	if e != nil {
		e.ids = append(e.ids, uint64(ev.Offset))
		if e.tok == "cb" {
			r.log.nCommit["m"]++
		} else {
			r.log.nCommit["D"]++
		}
	} else {
		// a commit outside a batcher's commit section: the synchronous dead-queue output
		r.log.entries = append(r.log.entries, &tEntry{tok: "C", extra: fmt.Sprintf("%d", ev.Offset)})
		r.log.nCommit["D"]++
	}
	r.log.mu.Unlock()
}
func (r *c09Rig) Error(string) {}

// ---- harness outputs

type c09Main struct {
	rig     *c09Rig
	opts    pipeline.BatcherOptions
	backoff pipeline.BackoffOpts
	batcher *pipeline.RetriableBatcher
	router  *pipeline.Router
	cancel  context.CancelFunc
	pause   func()
}

func (p *c09Main) Start(_ pipeline.AnyConfig, params *pipeline.OutputPluginParams) {
	p.router = params.Router
	p.opts.Controller = params.Controller
	p.backoff.IsDeadQueueAvailable = p.router.IsDeadQueueAvailable()
	// the callback installed by the outputs (plugin/output/elasticsearch/elasticsearch.go:274-289)
	onError := func(err error, events []*pipeline.Event) {
		g := goid()
		p.rig.mu.Lock()
		seq := p.rig.curSeq[g]
		p.rig.mu.Unlock()
		ids := make([]uint64, len(events))
		for i, e := range events {
			ids[i] = uint64(e.Offset)
		}
		p.rig.log.add(&tEntry{tok: "e", k: seq, ids: ids})
		for i := range events {
			p.router.Fail(events[i])
		}
	}
	p.batcher = pipeline.NewRetriableBatcher(&p.opts, p.send, p.backoff, onError)
	p.rig.mainB = p.batcher.VerifBatcher()
	p.rig.mainID = pipeline.VerifBatcherID(p.rig.mainB)
	ctx, cancel := context.WithCancel(context.Background())
	p.cancel = cancel
	p.batcher.Start(ctx)
}
func (p *c09Main) Stop()                  { p.batcher.Stop(); p.cancel() }
func (p *c09Main) Out(ev *pipeline.Event) { p.batcher.Add(ev) }

func (p *c09Main) send(_ *pipeline.WorkerData, batch *pipeline.Batch) error {
	r := p.rig
	seq := pipeline.VerifBatchSeq(batch)
	g := goid()
	r.mu.Lock()
	delete(r.curCB, g)
	r.curSeq[g] = seq
	n := r.attempt[seq]
	r.attempt[seq] = n + 1
	first := !r.started[seq]
	r.started[seq] = true
	r.batches[seq] = batch
	fails := r.script[int(seq)%len(r.script)]
	r.mu.Unlock()
	if first {
		var ids []uint64
		batch.ForEach(func(e *pipeline.Event) { ids = append(ids, uint64(e.Offset)) })
		st := int(pipeline.VerifBatchStatus(batch))
		r.log.mu.Lock()
		r.log.entries = append(r.log.entries, &tEntry{tok: "o", k: seq, ids: ids})
		if e := r.log.seals[fmt.Sprintf("m:%d", seq)]; e != nil && e.st < 0 {
			e.st = st
		}
		r.log.mu.Unlock()
	}
	p.pause()
	if r.stopMode == 2 && seq == 0 && n == r.stopAt {
		// between two attempts: Stop closes the batcher while this retry is parked, then the retry goes on
		r.stopOnce.Do(func() { close(r.stopGo) })
		select {
		case <-r.xLogged:
		case <-time.After(500 * time.Millisecond):
		}
	}
	if r.overlap && fails >= 99 && n >= 1 {
		// the pause of retry n is over: hold the retry until the scheduler has let a later batch run its Out
		req := parkReq{seq: seq, attempt: n, done: make(chan struct{})}
		select {
		case r.park <- req:
			select {
			case <-req.done:
			case <-time.After(3 * time.Second):
			}
		default:
		}
	}
	if n < fails {
		r.log.add(&tEntry{tok: "t", extra: fmt.Sprintf("%d 0", seq)})
		if r.overlap && n == 0 && seq != 0 {
			select { // a later batch has entered Out and made its first attempt
			case r.okCh <- seq:
			default:
			}
		}
		return errors.New("scripted failure")
	}
	r.log.add(&tEntry{tok: "t", extra: fmt.Sprintf("%d 1", seq)})
	if r.overlap {
		select {
		case r.okCh <- seq:
		default:
		}
	}
	return nil
}

type c09DQ struct {
	rig     *c09Rig
	sync    bool
	opts    pipeline.BatcherOptions
	batcher *pipeline.Batcher
	ctl     pipeline.OutputPluginController
	cancel  context.CancelFunc
}

func (p *c09DQ) Start(_ pipeline.AnyConfig, params *pipeline.OutputPluginParams) {
	p.ctl = params.Controller
	if p.sync {
		return
	}
	p.opts.Controller = params.Controller
	p.opts.OutFn = func(_ *pipeline.WorkerData, batch *pipeline.Batch) {
		seq := pipeline.VerifBatchSeq(batch)
		var ids []uint64
		batch.ForEach(func(e *pipeline.Event) { ids = append(ids, uint64(e.Offset)) })
		st := int(pipeline.VerifBatchStatus(batch))
		g := goid()
		p.rig.mu.Lock()
		delete(p.rig.curCB, g)
		p.rig.mu.Unlock()
		p.rig.log.mu.Lock()
		p.rig.log.entries = append(p.rig.log.entries, &tEntry{tok: "O", k: seq, ids: ids})
		if e := p.rig.log.seals[fmt.Sprintf("D:%d", seq)]; e != nil && e.st < 0 {
			e.st = st
		}
		p.rig.log.mu.Unlock()
		runtime.Gosched()
		p.rig.log.add(&tEntry{tok: "D", k: seq, extra: "1"})
	}
	p.batcher = pipeline.NewBatcher(p.opts)
	p.rig.dqB = p.batcher
	p.rig.dqID = pipeline.VerifBatcherID(p.batcher)
	ctx, cancel := context.WithCancel(context.Background())
	p.cancel = cancel
	p.batcher.Start(ctx)
}
func (p *c09DQ) Stop() {
	if !p.sync {
		p.batcher.Stop()
		p.cancel()
	}
}
func (p *c09DQ) Out(ev *pipeline.Event) {
	g := goid()
	p.rig.mu.Lock()
	seq := p.rig.curSeq[g]
	p.rig.mu.Unlock()
	p.rig.log.add(&tEntry{tok: "f", extra: fmt.Sprintf("%d %d", seq, ev.Offset)})
	if p.sync {
		p.ctl.Commit(ev)
		return
	}
	p.batcher.Add(ev)
}

// watchdog of one case: no boundary event (other than heartbeat ticks) for c09Idle, or c09Total in all.
// The longest silent stretch of a live case is a back-off pause (<= 0.2 s) or the wait for the dead queue's idle
// flush (5 heartbeat ticks); whole cases take well under 3 s on an idle machine.
const (
	c09Idle  = 4 * time.Second
	c09Total = 25 * time.Second
)

// ExecC09StopInBackoff runs a case of the "Stop during a retry sequence" family. It does not look at the
// command token (the family can be registered under another property's prefix, e.g. `c01.retry`):
//
//	<cmd> <workers> <count> <bytes> <retry> <retentionMs> <dqmode> <dqworkers> <dqcount> <stopmode> <seed>
//	      <nev> (<size> <kind>)*nev <nscript> (<fails>)*nscript
//
// Same layout as c09.trace with `stopmode` in the place of `adders` (one adder):
//
//	1  RetriableBatcher.Stop (through Router.Stop) is called when batch 0 has just been told its pause by
//	   NextBackOff (numTries = seed mod (retry+1)): Stop lands inside the back-off wait
//	2  Stop is called while batch 0's retry number 1 + seed mod (retry+1) is parked in the send function
//	   (between two attempts), the retry goes on once Stop has closed the batcher
//	0  control: no early Stop
//
// The trace vocabulary is c09.trace's (`x` = the main batcher's Stop); no `w` is logged after an early Stop.
func ExecC09StopInBackoff(t *hx.Toks) string {
	return runWatched(c09Idle, c09Total, func(w *watched) string { return execC09core(t, false, true, w) })
}

func execC09core(t *hx.Toks, overlap bool, stopFamily bool, wd *watched) string {
	workers, count, nbytes, retry, retentionMs := t.Int(), t.Int(), t.Int(), t.Int(), t.Int()
	dqmode, dqworkers, dqcount, adders := t.Int(), t.Int(), t.Int(), t.Int()
	stopMode := 0
	if stopFamily {
		stopMode, adders = adders, 1
		if stopMode < 0 || stopMode > 2 || retry < 0 {
			return "bad-case"
		}
	}
	seed := t.Uint64()
	n := t.Int()
	if t.Err != nil || n < 0 || n > 10000 {
		return "bad-case"
	}
	specs := make([]*evSpec, n)
	evs := map[uint64]*evSpec{}
	for i := range specs {
		specs[i] = &evSpec{id: uint64(i + 1), size: t.Int(), kind: t.Int()}
		evs[specs[i].id] = specs[i]
	}
	ns := t.Int()
	if t.Err != nil || ns < 1 || ns > 1000 {
		return "bad-case"
	}
	script := make([]int, ns)
	for i := range script {
		script[i] = t.Int()
	}
	if t.Err != nil || !t.Done() || workers < 1 || adders < 1 || (count == 0 && nbytes == 0) || count < 0 || nbytes < 0 ||
		dqmode < 0 || dqmode > 2 || (dqmode == 1 && (dqworkers < 1 || dqcount < 1)) || retentionMs < 1 {
		return "bad-case"
	}
	if retry < 0 {
		for _, f := range script {
			if f > 50 {
				return "bad-case" // an endless retry cannot be observed to its end
			}
		}
	}
	rng := hx.NewRng(seed)
	var rngMu sync.Mutex
	log := newTLog()
	if wd != nil {
		wd.log.Store(log)
	}
	rig := &c09Rig{log: log, evs: evs, curSeq: map[uint64]int64{}, curCB: map[uint64]*tEntry{}, attempt: map[int64]int{},
		batches: map[int64]*pipeline.Batch{}, started: map[int64]bool{}, script: script, giveUpWait: make(chan struct{}),
		overlap: overlap, park: make(chan parkReq), okCh: make(chan int64, 64), outDone: make(chan int64, 64),
		stopMode: stopMode, stopGo: make(chan struct{}), xLogged: make(chan struct{})}
	if stopMode == 1 {
		rig.stopAt = int(seed % uint64(retry+1))
	} else if stopMode == 2 {
		rig.stopAt = 1 + int(seed%uint64(retry+1))
	}
	mctl := metric.NewCtl("", prometheus.NewRegistry(), time.Minute, 0)
	mainP := &c09Main{rig: rig,
		opts: pipeline.BatcherOptions{PipelineName: "verif", OutputType: "c09main", Workers: workers, BatchSizeCount: count,
			BatchSizeBytes: nbytes, FlushTimeout: time.Hour, MetricCtl: mctl},
		backoff: pipeline.BackoffOpts{MinRetention: time.Duration(retentionMs) * time.Millisecond, Multiplier: 2, AttemptNum: retry},
		pause: func() {
			rngMu.Lock()
			k := rng.Intn(4)
			rngMu.Unlock()
			for i := 0; i < k; i++ {
				runtime.Gosched()
			}
		}}
	router := pipeline.NewRouter()
	router.SetOutput(&pipeline.OutputPluginInfo{PluginStaticInfo: &pipeline.PluginStaticInfo{Type: "c09main"},
		PluginRuntimeInfo: &pipeline.PluginRuntimeInfo{Plugin: mainP, ID: "main"}})
	var dqP *c09DQ
	if dqmode != 0 {
		dqP = &c09DQ{rig: rig, sync: dqmode == 2,
			opts: pipeline.BatcherOptions{PipelineName: "verif", OutputType: "c09dq", Workers: dqworkers, BatchSizeCount: dqcount,
				FlushTimeout: 3 * time.Millisecond, MetricCtl: metric.NewCtl("", prometheus.NewRegistry(), time.Minute, 0)}}
		router.SetDeadQueueOutput(&pipeline.OutputPluginInfo{PluginStaticInfo: &pipeline.PluginStaticInfo{Type: "c09dq"},
			PluginRuntimeInfo: &pipeline.PluginRuntimeInfo{Plugin: dqP, ID: "dq"}})
	}
	hookGen := c09HookGen.Add(1)
	pipeline.VerifSetTrace(rig.trace)
	pipeline.VerifSetGate(rig.gate)
	defer func() {
		if c09HookGen.Load() == hookGen { // an abandoned (stuck) case must not uninstall a later case's hooks
			pipeline.VerifSetTrace(nil)
			pipeline.VerifSetGate(nil)
		}
	}()
	router.Start(&pipeline.OutputPluginParams{
		PluginDefaultParams: pipeline.PluginDefaultParams{PipelineName: "verif", MetricCtl: mctl},
		Controller:          rig, Router: router})

	earlyStop := make(chan struct{})
	if stopMode != 0 {
		go func() {
			select {
			case <-rig.stopGo:
				router.Stop() // main output: RetriableBatcher.Stop; then the dead queue
				close(earlyStop)
			case <-time.After(60 * time.Second):
			}
		}()
	}
	var wg sync.WaitGroup
	if overlap {
		// c09.overlap: batch 0 (count 1: one event per batch) keeps failing; each time one of its retries (attempt >= 2
		// when the retry setting allows one, so that the pause intervals of the indices involved are disjoint) is
		// parked in the send function, the next event is added: another worker takes that batch, enters Out (a
		// per-call back-off is untouched by it, a shared one is rewound) and returns; then the retry is released.
		// Logical order through the park points, no wall-clock measurement.
		wg.Add(1)
		caseOver := make(chan struct{})
		defer close(caseOver)
		var nextMu sync.Mutex
		next := 0
		addNext := func() bool {
			nextMu.Lock()
			if next >= len(specs) {
				nextMu.Unlock()
				return false
			}
			s := specs[next]
			next++
			nextMu.Unlock()
			router.Out(mkEvent(s))
			return true
		}
		go func() { // serves the park points for the whole case
			later := 0
			for {
				select {
				case req := <-rig.park:
					minAttempt := 1
					if retry >= 1 {
						minAttempt = 2
					}
					if req.attempt >= minAttempt && later < workers-1 {
						later++
						if addNext() {
							select {
							case <-rig.okCh:
							case <-time.After(500 * time.Millisecond):
							}
						}
					}
					close(req.done)
				case <-caseOver:
					return
				}
			}
		}()
		go func() {
			defer wg.Done()
			addNext()
			select { // the remaining events follow when batch 0 is through (or cannot be waited for)
			case <-rig.outDone:
			case <-rig.giveUpWait:
				return
			case <-time.After(20 * time.Second):
			}
			for addNext() {
			}
		}()
	}
	// adders feed the router's Out (round robin split of the events)
	for a := 0; a < adders && !overlap; a++ {
		wg.Add(1)
		go func(a int) {
			defer wg.Done()
			defer func() {
				if r := recover(); r != nil {
					log.add(&tEntry{tok: "panic:" + panicKind(r)})
				}
			}()
			for i := a; i < len(specs); i += adders {
				router.Out(mkEvent(specs[i]))
				rngMu.Lock()
				y := rng.Intn(3)
				rngMu.Unlock()
				for j := 0; j < y; j++ {
					runtime.Gosched()
				}
			}
		}(a)
	}
	addersDone := make(chan struct{})
	go func() { wg.Wait(); close(addersDone) }()

	abandoned := false
	select {
	case <-addersDone:
	case <-rig.giveUpWait:
		abandoned = true
	case <-time.After(60 * time.Second):
		log.add(&tEntry{tok: "panic:stuck"})
		abandoned = true
	}
	earlyStopped := false
	if !abandoned && stopMode != 0 {
		select {
		case <-rig.stopGo: // the early Stop was issued: it returns when every worker is through
			earlyStopped = true
			select {
			case <-earlyStop:
			case <-rig.giveUpWait:
				abandoned = true
			case <-time.After(60 * time.Second):
				log.add(&tEntry{tok: "panic:stuck"})
			}
		default:
		}
	}
	if !abandoned && !earlyStopped {
		// wait until every sealed main batch is resolved and the dead queue has drained; the tail of
		// the dead-queue batcher is flushed by its heartbeat: bound in heartbeat ticks (as in C08)
		countTok := func(tok string) int {
			log.mu.Lock()
			defer log.mu.Unlock()
			c := 0
			for _, e := range log.entries {
				if e.tok == tok {
					c++
				}
			}
			return c
		}
		resolved := func() bool {
			log.mu.Lock()
			defer log.mu.Unlock()
			ns, ncb, nf, nC, nA := 0, 0, 0, 0, 0
			for _, e := range log.entries {
				switch e.tok {
				case "s":
					ns++
				case "cb":
					ncb++
				case "f":
					nf++
				case "C":
					nC++
				case "A":
					nA++
				}
			}
			if ncb < ns {
				return false
			}
			if dqmode == 2 {
				return nC == nf
			}
			return nA == nf && log.nCommit["D"] == nf
		}
		wallCap := time.Now().Add(60 * time.Second)
		ok := false
		hBase := -1
		for time.Now().Before(wallCap) {
			select {
			case <-rig.giveUpWait:
				abandoned = true
			default:
			}
			if abandoned {
				break
			}
			if stopMode != 0 {
				select {
				case <-rig.stopGo: // the early Stop came while we were waiting: no drain claim after it
					earlyStopped = true
					select {
					case <-earlyStop:
					case <-rig.giveUpWait:
						abandoned = true
					case <-time.After(60 * time.Second):
						log.add(&tEntry{tok: "panic:stuck"})
					}
				default:
				}
				if earlyStopped {
					break
				}
			}
			if resolved() {
				ok = true
				break
			}
			// once all main batches are committed only the dead queue's idle flush is outstanding
			if countTok("cb") == countTok("s") {
				if hBase < 0 {
					hBase = countTok("H")
				} else if countTok("H") >= hBase+5 {
					break
				}
			}
			time.Sleep(500 * time.Microsecond)
		}
		if !abandoned && !earlyStopped {
			w := "0"
			if ok {
				w = "1"
			}
			log.add(&tEntry{tok: "w", extra: w})
		}
	}
	if abandoned {
		// a worker sits in a pause the case cannot wait for: leave it (the process is short-lived)
		select {
		case <-rig.giveUpWait:
			log.add(&tEntry{tok: "z"})
		default:
		}
		return log.render()
	}
	stopped := make(chan struct{})
	go func() { router.Stop(); close(stopped) }()
	select {
	case <-stopped:
	case <-time.After(20 * time.Second):
		log.add(&tEntry{tok: "panic:stuck"})
	}
	return log.render()
}

// ---------------------------------------------------------------- gen

func c09Line(w *bufio.Writer, workers, count, nbytes, retry, retentionMs, dqmode, dqworkers, dqcount, adders int, seed uint64, evs []evSpec, script []int) {
	c09Line2(w, "c09.trace", workers, count, nbytes, retry, retentionMs, dqmode, dqworkers, dqcount, adders, seed, evs, script)
}

func c09Line2(w *bufio.Writer, cmd string, workers, count, nbytes, retry, retentionMs, dqmode, dqworkers, dqcount, adders int, seed uint64, evs []evSpec, script []int) {
	fmt.Fprintf(w, cmd+" %d %d %d %d %d %d %d %d %d %d %d", workers, count, nbytes, retry, retentionMs, dqmode, dqworkers, dqcount, adders, seed, len(evs))
	for _, e := range evs {
		fmt.Fprintf(w, " %d %d", e.size, e.kind)
	}
	fmt.Fprintf(w, " %d", len(script))
	for _, f := range script {
		fmt.Fprintf(w, " %d", f)
	}
	w.WriteByte('\n')
}

// genC09StopInBackoff writes the "Stop during a retry sequence" family under the given command token (exec:
// ExecC09StopInBackoff, Lean: DrvC09.handleTrace — neither looks at the token).
func genC09StopInBackoff(w *bufio.Writer, rng *hx.Rng, tier string, cmd string) {
	n := 18
	if tier == "thorough" {
		n = 180
	}
	for i := 0; i < n; i++ {
		stopMode := 1 + i%2
		if i%9 == 8 {
			stopMode = 0 // control
		}
		// at least one Batch object stays free (events < workers): otherwise the heartbeat blocks in getBatch
		// holding b.mu and Stop cannot get in before the retry sequence is over
		workers := 2 + i%3
		retry := i % 3
		dqmode := (i / 2) % 3
		// pauses of 10 ms and more: a Stop issued when the pause is announced lands inside the wait
		retentionMs := 20
		script := []int{99, 0}
		switch i % 5 {
		case 3:
			script = []int{retry + 1, 0} // recovers at its last allowed attempt
		case 4:
			script = []int{99, 99}
		}
		evs := make([]evSpec, 1+i%(workers-1))
		for j := range evs {
			evs[j] = evSpec{size: rng.Range(0, 30)}
		}
		c09Line2(w, cmd, workers, 1, 0, retry, retentionMs, dqmode, 1, 1, stopMode, rng.U64(), evs, script)
	}
}

func genC09(w *bufio.Writer, rng *hx.Rng, tier string) {
	nrand := 600
	if tier == "thorough" {
		nrand = 6000
	}
	mkEvs := func(n int) []evSpec {
		evs := make([]evSpec, n)
		mix := rng.Intn(3)
		for i := range evs {
			kind := 0
			if mix == 1 {
				kind = rng.Intn(3)
			} else if mix == 2 && rng.Chance(1, 2) {
				kind = 2
			}
			evs[i] = evSpec{size: rng.Range(0, 30), kind: kind}
		}
		return evs
	}
	// small scope: every retry count x dead-queue mode x "always fails / fails r times / succeeds"
	for retry := -1; retry <= 3; retry++ {
		for dqmode := 0; dqmode <= 2; dqmode++ {
			for _, fails := range []int{0, 1, 2, 3, 4, 5, 99} {
				if retry < 0 && fails == 99 {
					continue
				}
				c09Line(w, 1, 2, 0, retry, 1, dqmode, 1, 1, 1, rng.U64(), mkEvs(3), []int{fails})
			}
		}
	}
	// the real elasticsearch output (its RetriableBatcher wiring and onError callback) on one always-failing batch
	nes := 24
	if tier == "thorough" {
		nes = 300
	}
	for i := 0; i < nes; i++ {
		n := 1 + i%4
		fmt.Fprintf(w, "c09.es %d %d %d", (i/4)%3, (i/12)%2, n)
		for j := 0; j < n; j++ {
			k := 0
			if i >= 24 || i%5 == 4 {
				k = rng.Intn(3)
			}
			fmt.Fprintf(w, " %d", k)
		}
		w.WriteByte('\n')
	}
	genC09StopInBackoff(w, rng, tier, "c09.stop")
	// deterministic overlap of a retry sequence with later batches on other workers, and two batches failing at once
	nover := 12
	if tier == "thorough" {
		nover = 120
	}
	for i := 0; i < nover; i++ {
		workers := 2 + i%3
		retry := 1 + i%3
		script := []int{99, 0}
		if i%4 == 3 {
			script = []int{99, 99, 0, 0} // two batches failing concurrently
		}
		evs := make([]evSpec, workers+1+i%2) // regular events only: every batch goes through Out
		for j := range evs {
			evs[j] = evSpec{size: rng.Range(0, 30)}
		}
		c09Line2(w, "c09.overlap", workers, 1, 0, retry, 1+i%3, (i/3)%3, 1, 1, 1, rng.U64(), evs, script)
	}
	// the real elasticsearch output with a dead queue that blocks on its first call while later batches follow
	nesdq := 14
	if tier == "thorough" {
		nesdq = 150
	}
	for i := 0; i < nesdq; i++ {
		bsize := 1 + i%3
		nb := 3 + i%4
		fmt.Fprintf(w, "c09.esdq %d %d %d", i%2, bsize, nb)
		for k := 0; k < nb; k++ {
			f := 0
			if k == 0 && i%7 != 6 || (k > 0 && rng.Chance(1, 3)) {
				f = 1
			}
			fmt.Fprintf(w, " %d", f)
		}
		w.WriteByte('\n')
	}
	for i := 0; i < nrand; i++ {
		workers := rng.Range(1, 3)
		count := rng.Range(1, 4)
		nbytes := 0
		if rng.Chance(1, 4) {
			nbytes = rng.Range(8, 64)
		}
		retry := rng.Range(-1, 3)
		dqmode := rng.Intn(3)
		ns := rng.Range(1, 5)
		script := make([]int, ns)
		for j := range script {
			switch rng.Intn(4) {
			case 0:
				script[j] = 0
			case 1:
				script[j] = rng.Range(1, 3)
			case 2:
				script[j] = rng.Range(0, 6)
			default:
				script[j] = 99
				if retry < 0 {
					script[j] = rng.Range(0, 6)
				}
			}
		}
		c09Line(w, workers, count, nbytes, retry, rng.Range(1, 5), dqmode, rng.Range(1, 3), rng.Range(1, 3), rng.Range(1, 2), rng.U64(),
			mkEvs(rng.Range(1, 14)), script)
	}
}
